/-
  Props/C14.lean — property C14:
  "Position, span and line/column utilities agree with the text".

  Only statements and short proofs from `Lemmas/LineCol.lean` live here.
  Model: `LineCol.lean` (mirror of Position.line_col / line_of, Span.lines / __str__ in
  src/pest/pairs.py; `none` = Python raises IndexError).  Specification: `specLineCol`
  (the property's formula), `specLineOf`, `specLines`, all in `LineCol.lean`.

  `OnlyLF t` — the property's "text (with \n line breaks)": none of the other boundaries
  of `str.splitlines` (\r \x0b \x0c \x1c \x1d \x1e \x85 U+2028 U+2029) occurs in `t`.
  The `…_total` theorems hold for every text.
-/
import PestModel.Lemmas.LineCol

namespace Pest
namespace C14
open LineCol

/-! ### line_col -/

/-- **C14, line_col.**  For every `\n`-text and every offset `0 ≤ p ≤ len(text)`,
    `Position(text, p).line_col()` returns (1 + number of line breaks before p,
    1 + distance from the last line break). -/
theorem line_col_spec {t : Text} {p : Nat} (h : OnlyLF t) (hp : p ≤ t.length) :
    pyLineCol t p = some ((specLineCol t p).1, ((specLineCol t p).2 : Int)) :=
  (pyLineCol_onlyLF h hp).1

/-- `line_col` never raises, whatever the text (all `splitlines` boundaries) and offset. -/
theorem line_col_total (t : Text) (p : Nat) : (pyLineCol t p).isSome = true :=
  pyLineCol_total t p

/-- the formula read as a walk along the text: (1,1) at offset 0 … -/
theorem spec_zero (t : Text) : specLineCol t 0 = (1, 1) := by
  simp [specLineCol, lineIdx, colOff]

/-- … a `\n` moves to column 1 of the next line, any other character one column right. -/
theorem spec_step (t : Text) (p : Nat) (hp : p < t.length) :
    specLineCol t (p + 1) =
      if t[p] = 10 then ((specLineCol t p).1 + 1, 1)
      else ((specLineCol t p).1, (specLineCol t p).2 + 1) := by
  have htake : t.take (p + 1) = t.take p ++ [t[p]] := by simp
  simp only [specLineCol, lineIdx_eq, colOff_eq, htake, List.count_append]
  by_cases hc : t[p] = 10
  · rw [hc, sufLen_append_lf]; simp; omega
  · rw [sufLen_append_of_not_mem (by simpa using fun e => hc e.symm)]
    simp [hc]; omega

/-- **C14, offsets and line/column determine each other**: two offsets of the same text
    with the same (line, column) are equal. -/
theorem line_col_injective {t : Text} {p q : Nat} (hp : p ≤ t.length) (hq : q ≤ t.length)
    (h : specLineCol t p = specLineCol t q) : p = q := by
  simp only [specLineCol, Prod.mk.injEq] at h
  obtain ⟨hl, hc⟩ := h
  rcases Nat.lt_trichotomy p q with hlt | heq | hgt
  · have := colOff_lt_of_lineIdx_eq t hlt hq (by omega); omega
  · exact heq
  · have := colOff_lt_of_lineIdx_eq t hgt hp (by omega); omega

/-- the same for what the code returns -/
theorem py_line_col_injective {t : Text} {p q : Nat} (h : OnlyLF t) (hp : p ≤ t.length)
    (hq : q ≤ t.length) (he : pyLineCol t p = pyLineCol t q) : p = q := by
  rw [line_col_spec h hp, line_col_spec h hq] at he
  simp only [Option.some.injEq, Prod.mk.injEq] at he
  apply line_col_injective hp hq
  simp only [specLineCol, Prod.mk.injEq] at he ⊢
  omega

/-- the column never exceeds the offset + 1, and line and column are at least 1 -/
theorem spec_bounds (t : Text) (p : Nat) :
    1 ≤ (specLineCol t p).1 ∧ 1 ≤ (specLineCol t p).2 ∧ (specLineCol t p).2 ≤ p + 1 := by
  have h1 := sufLen_le (t.take p)
  have h2 : (t.take p).length ≤ p := by simp; omega
  simp only [specLineCol, colOff_eq]; omega

/-- `Pair.line_col()` is `line_col` of the pair's start -/
theorem pair_line_col (t : Text) (a b : Nat) : pyPairLineCol t a b = pyLineCol t a := rfl

/-! ### line_of -/

/-- **C14, line_of.**  `Position(text, p).line_of()` returns the line containing `p`: the
    text from just after the last line break before `p` through the next line break
    *inclusive* (like `Span.lines()`), or to the end of the text; the empty string at the
    end of a text that is empty or ends with a line break. -/
theorem line_of_spec {t : Text} {p : Nat} (h : OnlyLF t) (hp : p ≤ t.length) :
    pyLineOf t p = some (specLineOf t p) := by
  obtain ⟨hlc, hline⟩ := pyLineCol_onlyLF h hp
  simp only [pyLineOf, hlc, splitlines_onlyLF h, Option.bind_eq_bind, Option.bind_some,
    Option.pure_def]
  rcases hline with hget | ⟨hlen, hlo⟩
  · have hlt : lineIdx t p < (specLines t).length := by
      rcases Nat.lt_or_ge (lineIdx t p) (specLines t).length with h' | h'
      · exact h'
      · rw [List.getElem?_eq_none h'] at hget; cases hget
    have : ¬ (1 + lineIdx t p > (specLines t).length) := by omega
    simp only [this, if_false]
    have : 1 + lineIdx t p - 1 = lineIdx t p := by omega
    rw [this, hget]
  · have : 1 + lineIdx t p > (specLines t).length := by omega
    simp only [this, if_true, hlo]

/-- the line of `p` is the `(line p)`-th line of the text (or `p` is at the end of a text
    that is empty or ends with a line break, where there is no such line) -/
theorem line_of_is_nth_line {t : Text} {p : Nat} (h : OnlyLF t) (hp : p ≤ t.length) :
    (specLines t)[(specLineCol t p).1 - 1]? = some (specLineOf t p) ∨
      ((specLines t).length < (specLineCol t p).1 ∧ specLineOf t p = []) := by
  have : (specLineCol t p).1 - 1 = lineIdx t p := by simp [specLineCol]
  rw [this]
  rcases (pyLineCol_onlyLF h hp).2 with hget | ⟨hlen, hlo⟩
  · exact .inl hget
  · exact .inr ⟨by simp only [specLineCol]; omega, hlo⟩

/-- `line_of` never raises, whatever the text and offset. -/
theorem line_of_total (t : Text) (p : Nat) : (pyLineOf t p).isSome = true := by
  obtain ⟨⟨n, c⟩, hlc⟩ := Option.isSome_iff_exists.mp (pyLineCol_total t p)
  simp only [pyLineOf, hlc, Option.bind_eq_bind, Option.bind_some, Option.pure_def]
  by_cases hn : n > (splitlines true t).length
  · simp [hn]
  · have : n - 1 < (splitlines true t).length := by
      have hpos : 1 ≤ n := by
        -- every exit of `pyLineCol` returns `index + 1`
        unfold pyLineCol at hlc
        simp only [Option.bind_eq_bind, Option.pure_def] at hlc
        split at hlc
        · simp only [Option.bind_eq_some_iff] at hlc
          obtain ⟨_, _, hx⟩ := hlc; simp at hx; omega
        · simp only [Option.bind_eq_some_iff] at hlc
          obtain ⟨b, _, hx⟩ := hlc
          split at hx
          · simp at hx; omega
          · simp only [Option.bind_eq_some_iff] at hx
            obtain ⟨_, _, hx⟩ := hx; simp at hx; omega
      omega
    simp [hn, List.getElem?_eq_getElem this]

/-! ### Span.lines -/

/-- **C14, Span.lines.**  `Span(text, a, b).lines()` returns the lines of the text from
    the line of `a` through the line of `b` (a slice, so lines that do not exist — the
    empty line after a trailing line break — are not returned). -/
theorem span_lines_spec {t : Text} {a b : Nat} (h : OnlyLF t) (ha : a ≤ t.length)
    (hb : b ≤ t.length) :
    pySpanLines t a b =
      some (((specLines t).take (specLineCol t b).1).drop ((specLineCol t a).1 - 1)) := by
  simp [pySpanLines, line_col_spec h ha, line_col_spec h hb, splitlines_onlyLF h]

/-- … element by element: the `j`-th returned line is line number `line a + j` of the text,
    for as long as that does not exceed `line b`. -/
theorem span_lines_get {t : Text} {a b : Nat} (h : OnlyLF t) (ha : a ≤ t.length)
    (hb : b ≤ t.length) (j : Nat) :
    ∃ r, pySpanLines t a b = some r ∧
      r[j]? = if lineIdx t a + j ≤ lineIdx t b then (specLines t)[lineIdx t a + j]? else none := by
  refine ⟨_, span_lines_spec h ha hb, ?_⟩
  simp only [specLineCol, List.getElem?_drop, List.getElem?_take]
  have : 1 + lineIdx t a - 1 = lineIdx t a := by omega
  rw [this]
  by_cases hj : lineIdx t a + j ≤ lineIdx t b
  · have : lineIdx t a + j < 1 + lineIdx t b := by omega
    simp [hj, this]
  · have : ¬ lineIdx t a + j < 1 + lineIdx t b := by omega
    simp [hj, this]

/-- **"exactly the lines the span touches"**: a line index lies between the line of `a`
    and the line of `b` iff some offset of the closed interval `[a, b]` is on that line. -/
theorem span_lines_touch (t : Text) {a b : Nat} (hab : a ≤ b) (i : Nat) :
    (lineIdx t a ≤ i ∧ i ≤ lineIdx t b) ↔ ∃ p, a ≤ p ∧ p ≤ b ∧ lineIdx t p = i := by
  constructor
  · rintro ⟨h1, h2⟩
    obtain ⟨d, rfl⟩ := Nat.exists_eq_add_of_le hab
    clear hab
    induction d with
    | zero => exact ⟨a, Nat.le_refl _, Nat.le_refl _, by simp at h2; omega⟩
    | succ d ih =>
      by_cases hi : i ≤ lineIdx t (a + d)
      · obtain ⟨p, hp1, hp2, hp3⟩ := ih hi
        exact ⟨p, hp1, by omega, hp3⟩
      · have := lineIdx_succ_le t (a + d)
        exact ⟨a + (d + 1), by omega, Nat.le_refl _, by rw [← Nat.add_assoc] at h2 ⊢; omega⟩
  · rintro ⟨p, h1, h2, rfl⟩
    exact ⟨lineIdx_mono t h1, lineIdx_mono t h2⟩

/-- the lines of the text concatenate to the text, every line but possibly the last ends with
    its only `\n`, and an unterminated last line is not empty -/
theorem spec_lines_partition (t : Text) : (specLines t).flatten = t ∧ LinesOK (specLines t) :=
  ⟨specLines_flatten t, specLines_ok t⟩

/-! ### str(span), start_pos / end_pos / split -/

/-- **C14, str(span)** is `text[start:end]` … -/
theorem span_str (t : Text) (a b : Nat) : pySpanStr t a b = (t.take b).drop a := rfl

/-- … i.e. the characters at offsets `a, a+1, …, b-1` -/
theorem span_str_get (t : Text) (a b i : Nat) :
    (pySpanStr t a b)[i]? = if a + i < b then t[a + i]? else none := by
  simp [pySpanStr, List.getElem?_drop, List.getElem?_take]

theorem span_str_length (t : Text) {a b : Nat} (hb : b ≤ t.length) :
    (pySpanStr t a b).length = b - a := by
  simp [pySpanStr]; omega

/-! ### the hypotheses are satisfiable, and the repaired defects stay repaired -/

-- "ab\ncd\n", "a\n\nb"
example : OnlyLF [97, 98, 10, 99, 100, 10] := by decide
example : ¬ OnlyLF [97, 13, 10] := by decide
example : pyLineCol [97, 98] 2 = some (1, 3) := by decide                       -- was (2, 1)
example : pyLineCol [97, 98, 10] 3 = some (2, 1) := by decide
example : pyLineCol [97, 98, 10, 99, 100, 10] 4 = some (2, 2) := by decide
example : specLineCol [97, 98, 10, 99, 100, 10] 4 = (2, 2) := by decide
example : pyLineOf [97, 98, 10, 99, 100] 4 = some [99, 100] := by decide          -- was "b"
example : pyLineOf [97, 98, 10, 99, 100, 10] 3 = some [99, 100, 10] := by decide
example : pyLineOf [97, 98, 10] 3 = some [] := by decide
example : pySpanLines [97, 10, 98, 10, 99] 1 3 = some [[97, 10], [98, 10]] := by decide
example : pySpanLines [97, 10] 2 2 = some [] := by decide
example : specLines [97, 10, 10, 98] = [[97, 10], [10], [98]] := by decide
-- outside the spec's scope the model still follows `str.splitlines`: "a\r\nb<U+2028>c"
example : splitlines true [97, 13, 10, 98, 8232, 99] = [[97, 13, 10], [98, 8232], [99]] := by decide
example : pyLineCol [97, 13, 10, 98, 8232, 99] 5 = some (3, 1) := by decide

end C14
end Pest
