/-
  Props/C13.lean — property C13, the parser-state part:
  "Whenever parsing fails, the PestParsingError carries a furthest-failure position p with
   start_pos <= p <= len(input) (or the sentinel -1 when no expectation was recorded), the rule
   names it lists as expected or unexpected are rules of the grammar or built-ins, and its
   message and str() render without raising for every input …  The line:column and the source
   line shown are those of p."

  `PestParsingError` is built from `state.furthest_pos / furthest_expected /
  furthest_unexpected / furthest_stack` (fields `fpos fexp funexp fstack` of `PState`) and
  rendered through `error_context(text, furthest_pos)` (`LineCol.errorContext`, whose
  totality and line/column correctness are in `Props/C13Text.lean`).  Proved here, for the
  interpreter model L1 *and*, independently, for the generated-code model LG, for every
  grammar, input, start rule, start position `k ≤ len(input)` and amount of fuel:

  * the position, every saved position and the furthest-failure position stay in
    `[k, len(input)]` (`fpos` may still be `-1`) across every finished call — matched or
    failed (`pos_in_range`, `parse_bounded`, `fpos_in_range`, `gen_…`);
  * hence `error_context` is defined at the reported position and, for `\n`-texts and a
    recorded failure, shows the line / line number / column of that position
    (`error_context_defined_on_failure`, `error_context_on_failure_is_linecol`, `gen_…`);
  * every key of `furthest_expected` / `furthest_unexpected` and every entry of
    `furthest_stack` is the name of a rule of the rule table or of a rule object embedded in
    one of its trees (`failure_names_known`, `gen_failure_names_known`).

  The two models need not record the *same* keys (generated code inlines built-in rules, so a
  terminal inside `ASCII_DIGIT` is recorded under the enclosing grammar rule); both stay
  inside `knownNames g`.  Under `SkipTotal g` the two furthest-failure positions are equal
  (`gen_fpos_agrees`, from C01).
-/
import PestModel.Lemmas.FailPos
import PestModel.Props.C01
import PestModel.Props.C13Text

namespace Pest
namespace C13
open FailPos LineCol

variable (g : Grammar) (inp : Input)

/-! ### Part 1: positions in range -/

/-- **Every finished call keeps all positions in range** (interpreter model): if the current
    position, the saved positions and the furthest-failure position of `c` lie in
    `[k, len(input)]` (`fpos` possibly `-1`), the same holds of the state any call of any
    expression ends in — matched or not, with any fuel. -/
theorem pos_in_range (k n : Nat) (e : Expr) (c c' : PState) (m : Bool) (ps : List Pair)
    (hb : Bounded inp k c) (h : L1.run g inp n e c = .done m c' ps) : Bounded inp k c' :=
  run_bounded g inp k n e c c' m ps hb h

/-- `Parser.parse(start, text, start_pos=k)` with `k ≤ len(text)`, any verdict -/
theorem parse_bounded (fuel : Nat) (start : String) (k : Nat) (m : Bool) (c' : PState)
    (ps : List Pair) (hk : k ≤ inp.size) (h : L1.parse g inp fuel start k = .done m c' ps) :
    Bounded inp k c' := by
  unfold L1.parse at h
  cases hl : g.lookup start with
  | none => rw [hl] at h; cases h
  | some r =>
    rw [hl] at h
    exact ruleParse_bounded g inp k fuel _ _ _ _ _ _ _ (bounded_init inp k hk) h

/-- **C13, furthest-failure position**: when `Parser.parse` fails, `furthest_pos` is the
    sentinel `-1` or lies between the start position and `len(input)`. -/
theorem fpos_in_range (fuel : Nat) (start : String) (k : Nat) (c' : PState) (ps : List Pair)
    (h : L1.parse g inp fuel start k = .done false c' ps) (hk : k ≤ inp.size) :
    c'.fpos = -1 ∨ ((k : Int) ≤ c'.fpos ∧ c'.fpos ≤ (inp.size : Int)) :=
  (parse_bounded g inp fuel start k false c' ps hk h).fp

/-- on success the end position is in range as well -/
theorem parse_end_in_range (fuel : Nat) (start : String) (k : Nat) (c' : PState) (ps : List Pair)
    (h : L1.parse g inp fuel start k = .done true c' ps) (hk : k ≤ inp.size) :
    k ≤ c'.pos ∧ c'.pos ≤ inp.size :=
  ⟨(parse_bounded g inp fuel start k true c' ps hk h).lo, (parse_bounded g inp fuel start k true c' ps hk h).hi⟩

/-- the same invariant for the generated-code model (proved directly on LG: no hypothesis on
    the grammar is needed) -/
theorem gen_pos_in_range (k n : Nat) (e : Expr) (c c' : PState) (m : Bool) (ps0 ps : List Pair)
    (hb : Bounded inp k c) (h : LG.run g inp n e c ps0 = .done m c' ps) : Bounded inp k c' :=
  runG_bounded g inp k n e c c' m ps0 ps hb h

theorem gen_parse_bounded (fuel : Nat) (start : String) (k : Nat) (m : Bool) (c' : PState)
    (ps : List Pair) (hk : k ≤ inp.size) (h : LG.parse g inp fuel start k = .done m c' ps) :
    Bounded inp k c' := by
  unfold LG.parse at h
  cases hl : g.lookup start with
  | none => rw [hl] at h; cases h
  | some r =>
    rw [hl] at h
    simp only [] at h
    split at h
    · cases h
    · exact ruleG_bounded g inp k fuel _ _ _ _ _ _ _ _ (bounded_init inp k hk) h

/-- **C13 for the generated module's `parse()`** -/
theorem gen_fpos_in_range (fuel : Nat) (start : String) (k : Nat) (c' : PState) (ps : List Pair)
    (h : LG.parse g inp fuel start k = .done false c' ps) (hk : k ≤ inp.size) :
    c'.fpos = -1 ∨ ((k : Int) ≤ c'.fpos ∧ c'.fpos ≤ (inp.size : Int)) :=
  (gen_parse_bounded g inp fuel start k false c' ps hk h).fp

/-- when the fused trivia rule cannot fail (`SkipTotal`, what the optimizer builds) the
    generated module reports the same furthest-failure position as the interpreter (C01) -/
theorem gen_fpos_agrees (hs : SkipTotal g) (fuel : Nat) (start : String) (k : Nat) (cg : PState)
    (ps : List Pair) (h : LG.parse g inp fuel start k = .done false cg ps) :
    ∃ c1 ps1, L1.parse g inp fuel start k = .done false c1 ps1 ∧ cg.fpos = c1.fpos := by
  have := C01.generated_parse_eq g inp hs fuel start k
  rw [h] at this
  exact this

/-! ### … so the error message can be rendered, and shows that position -/

/-- **`error_context(text, furthest_pos)` raises no `IndexError` after a failed parse** (it is
    what `PestParsingError.__str__` / `.message` subscript into) -/
theorem error_context_defined_on_failure (fuel : Nat) (start : String) (k : Nat) (c' : PState)
    (ps : List Pair) (h : L1.parse g inp fuel start k = .done false c' ps) (hk : k ≤ inp.size) :
    (errorContext inp.toList c'.fpos).isSome = true := by
  have hf := fpos_in_range g inp fuel start k c' ps h hk
  apply error_context_total
  · rcases hf with hf | hf <;> omega
  · rw [Array.length_toList]; rcases hf with hf | hf <;> omega

theorem gen_error_context_defined_on_failure (fuel : Nat) (start : String) (k : Nat) (c' : PState)
    (ps : List Pair) (h : LG.parse g inp fuel start k = .done false c' ps) (hk : k ≤ inp.size) :
    (errorContext inp.toList c'.fpos).isSome = true := by
  have hf := gen_fpos_in_range g inp fuel start k c' ps h hk
  apply error_context_total
  · rcases hf with hf | hf <;> omega
  · rw [Array.length_toList]; rcases hf with hf | hf <;> omega

/-- **the line:column and the source line shown are those of p**: for a `\n`-text and a
    recorded failure (`furthest_pos ≠ -1`) the rendered context is the line containing
    `furthest_pos` (right-stripped), its 1-based line number and 1-based column -/
theorem error_context_on_failure_is_linecol (fuel : Nat) (start : String) (k : Nat) (c' : PState)
    (ps : List Pair) (h : L1.parse g inp fuel start k = .done false c' ps) (hk : k ≤ inp.size)
    (hlf : OnlyLF inp.toList) (hrec : c'.fpos ≠ -1) :
    errorContext inp.toList c'.fpos =
      some (rstrip (specLineOf inp.toList c'.fpos.toNat), (specLineCol inp.toList c'.fpos.toNat).1,
        ((specLineCol inp.toList c'.fpos.toNat).2 : Int)) := by
  have hf := fpos_in_range g inp fuel start k c' ps h hk
  rcases hf with hf | hf
  · exact absurd hf hrec
  · exact error_context_is_linecol hlf (by omega) (by rw [Array.length_toList]; omega)

theorem gen_error_context_on_failure_is_linecol (fuel : Nat) (start : String) (k : Nat)
    (c' : PState) (ps : List Pair) (h : LG.parse g inp fuel start k = .done false c' ps)
    (hk : k ≤ inp.size) (hlf : OnlyLF inp.toList) (hrec : c'.fpos ≠ -1) :
    errorContext inp.toList c'.fpos =
      some (rstrip (specLineOf inp.toList c'.fpos.toNat), (specLineCol inp.toList c'.fpos.toNat).1,
        ((specLineCol inp.toList c'.fpos.toNat).2 : Int)) := by
  have hf := gen_fpos_in_range g inp fuel start k c' ps h hk
  rcases hf with hf | hf
  · exact absurd hf hrec
  · exact error_context_is_linecol hlf (by omega) (by rw [Array.length_toList]; omega)

/-! ### Part 2: the names in the failure record are names of the grammar -/

/-- what `knownNames` contains: names of the rule table, and names of rule objects embedded
    in the trees of the table (the built-ins the front end puts there) -/
theorem mem_knownNames {n : String} :
    n ∈ knownNames g ↔ (∃ r ∈ g.rules, r.name = n) ∨ (∃ r ∈ g.rules, n ∈ embNames r.body) := by
  simp [knownNames, List.mem_flatMap]

/-- the trees of the rule table mention only known embedded rules -/
theorem rule_bodies_namesIn (r : Rule) (h : r ∈ g.rules) : namesIn g r.body := rule_body_namesIn h

/-- **Every finished call keeps the names in range** (interpreter model): if the rule stack
    (its delta log included) and the failure record of `c` mention only known names, so does
    the state any call of a tree of the grammar ends in. -/
theorem names_known (n : Nat) (e : Expr) (c c' : PState) (m : Bool) (ps : List Pair)
    (hE : namesIn g e) (hk : Known g c) (h : L1.run g inp n e c = .done m c' ps) : Known g c' :=
  run_known g inp n e c c' m ps hE hk h

theorem parse_known (fuel : Nat) (start : String) (k : Nat) (m : Bool) (c' : PState)
    (ps : List Pair) (h : L1.parse g inp fuel start k = .done m c' ps) : Known g c' := by
  unfold L1.parse at h
  cases hl : g.lookup start with
  | none => rw [hl] at h; cases h
  | some r =>
    rw [hl] at h
    exact ruleParse_known g inp fuel r (lookup_mem_name hl).1 _ _ _ _ (known_init g k) h

/-- **C13, rule names**: when `Parser.parse` fails, every rule name listed as expected or
    unexpected, and every entry of the reported rule stack, is a rule of the grammar (or a
    built-in rule object embedded in it). -/
theorem failure_names_known (fuel : Nat) (start : String) (k : Nat) (c' : PState) (ps : List Pair)
    (h : L1.parse g inp fuel start k = .done false c' ps) :
    (∀ p ∈ c'.fexp ++ c'.funexp, p.1 ∈ knownNames g) ∧ (∀ n ∈ c'.fstack, n ∈ knownNames g) := by
  have hk := parse_known g inp fuel start k false c' ps h
  refine ⟨?_, hk.fstack⟩
  intro p hp
  rcases List.mem_append.mp hp with hp | hp
  · exact hk.fexp p hp
  · exact hk.funexp p hp

/-- the same invariant for the generated-code model, proved directly on LG -/
theorem gen_names_known (n : Nat) (e : Expr) (c c' : PState) (m : Bool) (ps0 ps : List Pair)
    (hE : namesIn g e) (hk : Known g c) (h : LG.run g inp n e c ps0 = .done m c' ps) : Known g c' :=
  runG_known g inp n e c c' m ps0 ps hE hk h

theorem gen_parse_known (fuel : Nat) (start : String) (k : Nat) (m : Bool) (c' : PState)
    (ps : List Pair) (h : LG.parse g inp fuel start k = .done m c' ps) : Known g c' := by
  unfold LG.parse at h
  cases hl : g.lookup start with
  | none => rw [hl] at h; cases h
  | some r =>
    rw [hl] at h
    simp only [] at h
    split at h
    · cases h
    · exact ruleG_known g inp fuel r (lookup_mem_name hl).1 _ _ _ _ _ (known_init g k) h

/-- **C13, rule names, generated module** -/
theorem gen_failure_names_known (fuel : Nat) (start : String) (k : Nat) (c' : PState)
    (ps : List Pair) (h : LG.parse g inp fuel start k = .done false c' ps) :
    (∀ p ∈ c'.fexp ++ c'.funexp, p.1 ∈ knownNames g) ∧ (∀ n ∈ c'.fstack, n ∈ knownNames g) := by
  have hk := gen_parse_known g inp fuel start k false c' ps h
  refine ⟨?_, hk.fstack⟩
  intro p hp
  rcases List.mem_append.mp hp with hp | hp
  · exact hk.fexp p hp
  · exact hk.funexp p hp

/-! ### Non-vacuity: a concrete grammar and failing inputs meet the hypotheses -/

/-- `r = { "a" ~ s? ~ !t ~ ASCII_DIGIT }`, `s = { "x" | "y" }`, `t = { "z" }`, `u = { PEEK }`,
    `WHITESPACE = _{ " " | "\n" }`; `ASCII_DIGIT` is an embedded built-in rule object -/
def demoG : Grammar :=
  { rules := [⟨"r", 0, .seq [.str [97], .opt (.ident "s" none), .notP (.ident "t" none),
                 .rule "ASCII_DIGIT" 2 true (.range 48 57)], .grammar⟩,
              ⟨"s", 0, .choice [.str [120], .str [121]], .grammar⟩,
              ⟨"t", 0, .str [122], .grammar⟩,
              ⟨"u", 0, .peek, .grammar⟩,
              ⟨"WHITESPACE", SILENT, .choice [.str [32], .str [10]], .grammar⟩] }

example : knownNames demoG = ["r", "s", "t", "u", "WHITESPACE", "ASCII_DIGIT"] := by decide +kernel
example : ∀ r ∈ demoG.rules, namesIn demoG r.body := by decide +kernel
example : namesIn demoG (.ident "r" none) := by decide +kernel
example : Bounded #[97, 32, 121, 32, 113] 0 (PState.init 0) := bounded_init _ 0 (by decide)
example : Known demoG (PState.init 0) := known_init demoG 0
example : SkipTotal demoG := by intro r h; simp [Grammar.fusedSkip, Grammar.lookup, demoG] at h

def known (n : String) : Bool := (knownNames demoG).contains n

/-- failed with furthest position `p`, with `ne` expected and `nu` unexpected keys, all known,
    a non-empty known rule stack, and a renderable context -/
def failsAt1 (inp : Input) : R1 → Int → Nat → Nat → Bool
  | .done false c _, p, ne, nu =>
    c.fpos == p && c.fexp.length == ne && c.funexp.length == nu &&
    (c.fexp ++ c.funexp).all (fun q => known q.1) && c.fstack.all known && !c.fstack.isEmpty &&
    (errorContext inp.toList c.fpos).isSome
  | _, _, _, _ => false
def failsAtG (inp : Input) : RG → Int → Nat → Nat → Bool
  | .done false c _, p, ne, nu =>
    c.fpos == p && c.fexp.length == ne && c.funexp.length == nu &&
    (c.fexp ++ c.funexp).all (fun q => known q.1) && c.fstack.all known && !c.fstack.isEmpty &&
    (errorContext inp.toList c.fpos).isSome
  | _, _, _, _ => false

-- "a y q": the digit is missing at 4 (interpreter: under ASCII_DIGIT; generated: under r)
example : failsAt1 #[97, 32, 121, 32, 113] (L1.parse demoG #[97, 32, 121, 32, 113] 30 "r" 0) 4 1 0 = true := by
  decide +kernel
example : failsAtG #[97, 32, 121, 32, 113] (LG.parse demoG #[97, 32, 121, 32, 113] 30 "r" 0) 4 1 0 = true := by
  decide +kernel
-- "a y z": the negative predicate `!t` records `t` as unexpected at 4
example : failsAt1 #[97, 32, 121, 32, 122] (L1.parse demoG #[97, 32, 121, 32, 122] 30 "r" 0) 4 0 1 = true := by
  decide +kernel
example : failsAtG #[97, 32, 121, 32, 122] (LG.parse demoG #[97, 32, 121, 32, 122] 30 "r" 0) 4 0 1 = true := by
  decide +kernel
-- start position 2 of "qqb": fails at 2 = start_pos
example : failsAt1 #[113, 113, 98] (L1.parse demoG #[113, 113, 98] 30 "r" 2) 2 1 0 = true := by decide +kernel
example : failsAtG #[113, 113, 98] (LG.parse demoG #[113, 113, 98] 30 "r" 2) 2 1 0 = true := by decide +kernel

/-- what the error message shows after a failure -/
def contextOf1 (inp : Input) : R1 → Option (Text × Nat × Int)
  | .done false c _ => if c.fpos ≠ -1 then errorContext inp.toList c.fpos else none
  | _ => none
def contextOfG (inp : Input) : RG → Option (Text × Nat × Int)
  | .done false c _ => if c.fpos ≠ -1 then errorContext inp.toList c.fpos else none
  | _ => none
-- "a y\nq": the failure at 4 is shown as line 2, column 1, source line "q"
example : OnlyLF (#[97, 32, 121, 10, 113] : Input).toList := by decide +kernel
example : contextOf1 #[97, 32, 121, 10, 113] (L1.parse demoG #[97, 32, 121, 10, 113] 30 "r" 0)
    = some ([113], 2, 1) := by decide +kernel
example : contextOfG #[97, 32, 121, 10, 113] (LG.parse demoG #[97, 32, 121, 10, 113] 30 "r" 0)
    = some ([113], 2, 1) := by decide +kernel

/-- failed without any recorded expectation: the sentinel -/
def sentinel1 : R1 → Bool
  | .done false c _ => c.fpos == -1 && c.fexp.isEmpty && c.funexp.isEmpty
  | _ => false
def sentinelG : RG → Bool
  | .done false c _ => c.fpos == -1 && c.fexp.isEmpty && c.funexp.isEmpty
  | _ => false
-- `PEEK` on an empty stack fails without calling `fail()`: furthest_pos stays -1
example : sentinel1 (L1.parse demoG #[97] 30 "u" 0) = true := by decide +kernel
example : sentinelG (LG.parse demoG #[97] 30 "u" 0) = true := by decide +kernel

end C13
end Pest
