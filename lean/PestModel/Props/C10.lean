/-
  Props/C10.lean — property C10:
  "Grammar front end accepts exactly pest v2 syntax with the denoted structure".

  Model: Front/Scan.lean + Front/Parse.lean (mirror of scanner.py / grammar/parser.py, tied to the
  code by the `F` correspondence of harness/eng_front.py).  Source-level syntax, canonical printer
  and denotation: Front/Ast.lean.

  What is proved here is the *accept + structure* half of C10 on every printed AST, for ASTs of
  any size and nesting depth, with arbitrary trivia (blanks, tabs, line breaks, nested block
  comments, line comments — or nothing at all) behind every token:

    front_roundtrip_text   : g.WF → GrammarText g t → load builtins t = .ok (g.den builtins)
    front_roundtrip_trivia : g.WF → IsTrivia lead → (∀ i, IsTrivia (sep i)) →
                               load builtins (g.prettyWith lead sep) = .ok (g.den builtins)
    front_roundtrip        : g.WF → load builtins g.pretty = .ok (g.den builtins)   (one blank)

  (`GrammarText g t`, Front/AstTrivia.lean: `t` spells the tokens of `g` in order, each followed by
  some trivia; doc comments are `marker ++ optional blank ++ line ++ "\n"`,
  the blank belonging to the marker since the `fix:` commit 77be14c.)  I.e. the front end accepts every such
  text of every well-formed source-level grammar and builds exactly the rule table it denotes: rule names, modifiers and doc lines; `~` binding
  tighter than `|`, both flattened into n-ary nodes; prefix operators outside postfix operators,
  postfix operators innermost first; parentheses as `Group`; tags; PEEK slices; repetition
  bounds; decoded string and character literals.  It is the composition of
    scan_roundtrip  (scanner: the canonical text scans to the AST's token kinds and values) and
    parse_roundtrip (parser: any token list with those kinds and values parses to `den`).
  `WF` only asks that the pieces are spellable: identifiers match RE_IDENTIFIER, tag names are
  identifiers, doc lines contain no line break, range ends are ordered, bounds fit u32.
  The `den_…` theorems spell out what `den` says about precedence and grouping.

  -- OPEN (not provable here, decided by the differential search of harness/eng_front.py):
  --   front_exact : load builtins text = .ok r ↔ pest's meta-grammar derives `text` ∧ r = denote (its parse tree)
  -- for *arbitrary* text: the reject half (no text outside the meta-grammar is accepted), and the
  -- two layouts `GrammarText` leaves out: a line comment that ends the text without a line break,
  -- and trivia between `^` and the string of a case-insensitive literal.
-/
import PestModel.Lemmas.FrontParseRT
import PestModel.Lemmas.FrontScanRT
import PestModel.Lemmas.FrontScanTrivia

namespace Pest
namespace C10
open Front

/-! ### the parser half -/

/-- **C10, structure.**  Whatever the positions of the tokens, a token list whose kinds and
    values are those of a well-formed grammar `g` parses to the rule table `g` denotes, and the
    parser consumes every token. -/
theorem parse_roundtrip (b : List String) (g : SGrammar) (h : g.WF) (eof : Token)
    (heof : eof.kind = .eoi) (ts : List Token) (hts : PRT.tokKV ts = g.kv) :
    parseTokens b eof ts = .ok (g.den b) [] :=
  PRT.parseTokens_roundtrip b g h eof heof ts hts

/-- the same for one expression at the lowest precedence, followed by a closing `}` or `)` -/
theorem parse_expression_roundtrip (b : List String) (bar : Bool) (e : SExpr) (h : e.WF) (eof : Token)
    (ts : List Token) (K : List KV) (hts : PRT.tokKV ts = barKV bar ++ e.kv ++ K) (hK : PRT.Closer K) :
    ∃ ts', parseExpression b (ts.length + 1) PRECEDENCE_LOWEST eof ts = .ok (e.den b) ts' ∧ PRT.tokKV ts' = K := by
  refine (PRT.recOK b (ts.length + 1)).full PRECEDENCE_LOWEST (Or.inl rfl) bar e h ?_ eof ts K hts hK
  have := congrArg List.length hts
  simp only [PRT.tokKV_length, List.length_append] at this ⊢
  omega

/-! ### what `den` says -/

section
variable (b : List String) (x y z : STerm)

/-- `~` binds tighter than `|`: `x ~ y | z` is `(x ~ y) | z` … -/
theorem den_seq_then_choice :
    (SExpr.cons x false (.cons y true (.one z))).den b = .choice [.seq [x.den b, y.den b], z.den b] := by
  simp [SExpr.den, SExpr.groups, consGroup, mkSeq, mkChoice]

/-- … and `x | y ~ z` is `x | (y ~ z)` -/
theorem den_choice_then_seq :
    (SExpr.cons x true (.cons y false (.one z))).den b = .choice [x.den b, .seq [y.den b, z.den b]] := by
  simp [SExpr.den, SExpr.groups, consGroup, mkSeq, mkChoice]

/-- chains are one n-ary node, not nested binary ones -/
theorem den_seq_chain :
    (SExpr.cons x false (.cons y false (.one z))).den b = .seq [x.den b, y.den b, z.den b] := by
  simp [SExpr.den, SExpr.groups, consGroup, mkSeq, mkChoice]

theorem den_choice_chain :
    (SExpr.cons x true (.cons y true (.one z))).den b = .choice [x.den b, y.den b, z.den b] := by
  simp [SExpr.den, SExpr.groups, mkSeq, mkChoice]

/-- a single term is itself -/
theorem den_one : (SExpr.one x).den b = x.den b := by
  simp [SExpr.den, SExpr.groups, mkSeq, mkChoice]
end

/-- prefix operators apply to the node *with* its postfix operators, the first written outermost;
    postfix operators apply innermost first: `&!n*?` is `&(!((n*)?))` -/
theorem den_prefix_postfix (b : List String) (n : SNode) :
    (STerm.mk none [true, false] n [.rep, .opt]).den b = .andP (.notP (.opt (.rep (n.den b none)))) := by
  simp [STerm.den, applyPre, applyPost]

/-- parentheses are a `Group` carrying the term's tag; the tag of a term with a prefix operator
    has no place in the tree -/
theorem den_paren_tag (b : List String) (e : SExpr) (t : Text) :
    (STerm.mk (some t) [] (.paren false e) []).den b = .group (e.den b) (some (nameOf t)) ∧
    (STerm.mk (some t) [false] (.paren false e) []).den b = .notP (.group (e.den b) none) := by
  simp [STerm.den, SNode.den, applyPre]

/-- repetition bounds -/
theorem den_bounds (b : List String) (n : SNode) (i j : Nat) :
    (STerm.mk none [] n [.minmax i j]).den b = .repMinMax (n.den b none) i j ∧
    (STerm.mk none [] n [.exact i]).den b = .repExact (n.den b none) i ∧
    (STerm.mk none [] n [.min i]).den b = .repMin (n.den b none) i ∧
    (STerm.mk none [] n [.max i]).den b = .repMax (n.den b none) i := by
  simp [STerm.den, applyPost]

/-! ### the scanner half and the round trip -/

/-- **C10, accept (scanner).**  The canonical text of a well-formed grammar scans without
    error to tokens with the AST's kinds and values. -/
theorem scan_roundtrip (g : SGrammar) (h : g.WF) :
    ∃ toks, scan g.pretty = .ok toks ∧ PRT.tokKV toks = g.kv := by
  obtain ⟨toks, h1, h2⟩ := Front.scan_roundtrip g h
  exact ⟨toks, h1, h2⟩

/-- **C10, accept + structure on every printed AST.** -/
theorem front_roundtrip (b : List String) (g : SGrammar) (h : g.WF) :
    load b g.pretty = .ok (g.den b) := by
  obtain ⟨toks, hs, hkv⟩ := scan_roundtrip g h
  simp only [load, hs]
  rw [parse_roundtrip b g h ⟨.eoi, [], g.pretty.length⟩ rfl toks hkv]

/-- **C10, accept + structure, any layout.**  Every text that spells the tokens of a well-formed
    grammar in order, with any trivia (or none) behind each of them, loads to what the grammar
    denotes. -/
theorem front_roundtrip_text (b : List String) (g : SGrammar) (h : g.WF) {t : Text}
    (ht : GrammarText g t) : load b t = .ok (g.den b) := by
  obtain ⟨toks, hs, hkv⟩ := Front.scan_roundtrip_text g h ht
  simp only [load, hs]
  rw [parse_roundtrip b g h ⟨.eoi, [], t.length⟩ rfl toks hkv]

/-- the same for the printer with explicit separators: `lead` before everything, `sep i` behind
    the `i`-th token or doc line -/
theorem front_roundtrip_trivia (b : List String) (g : SGrammar) (h : g.WF) (lead : Text)
    (sep : Nat → Text) (hl : IsTrivia lead) (hs : ∀ i, IsTrivia (sep i)) :
    load b (g.prettyWith lead sep) = .ok (g.den b) := by
  obtain ⟨toks, hsc, hkv⟩ := Front.scan_roundtrip_trivia g h lead sep hl hs
  simp only [load, hsc]
  rw [parse_roundtrip b g h ⟨.eoi, [], (g.prettyWith lead sep).length⟩ rfl toks hkv]

end C10
end Pest
