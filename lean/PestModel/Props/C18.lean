/-
  Props/C18.lean — property C18:
  "PrattParser honours declared precedence and associativity".

    For every table of prefix, infix (with associativity) and postfix operators and every
    well-formed stream of operand and operator pairs, PrattParser.parse_expr consumes the
    whole expression and builds the tree in which an operator of higher declared
    precedence binds tighter, equal-precedence infix operators group according to their
    declared associativity, and prefix and postfix operators bind according to their
    declared precedence.

  Model: `Pratt.lean` (`expr`/`loop` mirror `parse_expr` over `Stream.next/peek`;
  `parseExpr tbl ts = expr tbl (ts.length+1) ts 0`).  Specification: `WellFormedStream`,
  `Lex`, `Good` in the same file — binding powers, a local condition at every node, no
  reference to the algorithm.  Everything below is for *all* tables (arbitrary natural
  precedences, equal precedences across kinds allowed, names declared in several tables
  allowed) and *all* streams, of any length.  Only statements and short proofs from
  `Lemmas/Pratt.lean` live here.

  Reading of the corner the property text leaves open (equal precedence between operators
  of different kinds, or between a left- and a right-associative infix operator): of two
  adjacent operators with the same declared precedence, the *left* one decides — a
  left-associative infix operator keeps its right operand, a right-associative one and a
  prefix operator give it to the operator that follows.  This is what pest's own
  `PrattParser` does (`while rbp < lbp`, prefix recursing with `prec - 1`), what the
  binding powers say, and what `parse_expr` does for infix operators; the repair makes
  postfix operators follow the same rule.  `infix_pair` … `prefix_vs_infix` below spell
  the four two-operator cases out.
-/
import PestModel.Lemmas.Pratt

namespace Pest
namespace C18
open Pratt
variable {α : Type}

/-! ### the four obligations of the design -/

/-- **consumes the whole expression.**  On a well-formed stream `parse_expr` returns
    normally and leaves nothing in the stream. -/
theorem pratt_consumes_all (tbl : Table α) (ts : List α) (h : WellFormedStream tbl ts) :
    ∃ t, parseExpr tbl ts = .ok t [] := by
  obtain ⟨t, rest, h1, _, _, h4⟩ := expr_wf tbl (ts.length + 1) ts 0 h (Nat.lt_succ_self _)
  exact ⟨t, by rw [parseExpr, h1, h4 rfl]⟩

/-- **the tree is a tree of this stream.**  Whatever a call returns, the tokens of the tree
    followed by the unconsumed tokens are the tokens it was given, in order (any fuel, any
    `min_prec`, any stream). -/
theorem pratt_yield (tbl : Table α) (f : Nat) (ts : List α) (mp : Nat) (t : Tree α) (rest : List α)
    (h : expr tbl f ts mp = .ok t rest) : t.flatten ++ rest = ts :=
  (expr_post tbl f ts mp t rest h).yield

/-- every token of the returned tree is used in the role the tables give it -/
theorem pratt_lex (tbl : Table α) (f : Nat) (ts : List α) (mp : Nat) (t : Tree α) (rest : List α)
    (h : expr tbl f ts mp = .ok t rest) : Lex tbl t :=
  (expr_post tbl f ts mp t rest h).lex

/-- **precedence and associativity are honoured.**  Whatever a call returns satisfies
    `Good`: at every node the operator holds each operand against every operator exposed on
    the facing edge of that operand. -/
theorem pratt_good (tbl : Table α) (f : Nat) (ts : List α) (mp : Nat) (t : Tree α) (rest : List α)
    (h : expr tbl f ts mp = .ok t rest) : Good tbl t :=
  (expr_post tbl f ts mp t rest h).good

/-- every admissible tree is what `parse_expr` returns on its yield -/
theorem pratt_complete (tbl : Table α) (t : Tree α) (hl : Lex tbl t) (hg : Good tbl t) :
    parseExpr tbl t.flatten = .ok t [] := by
  have := expr_complete tbl (t.flatten.length + 1) t 0 [] hl hg (fun x _ => Nat.zero_le _)
    (fun L hL => by simp [nextL] at hL) (by simp)
  simpa [parseExpr] using this

/-- **it is *the* tree.**  Two trees over the same tokens that both respect the declared
    precedences (and read the tokens in their roles) are equal. -/
theorem good_unique (tbl : Table α) (t₁ t₂ : Tree α)
    (hl₁ : Lex tbl t₁) (hl₂ : Lex tbl t₂) (hg₁ : Good tbl t₁) (hg₂ : Good tbl t₂)
    (hy : t₁.flatten = t₂.flatten) : t₁ = t₂ := by
  have h1 := pratt_complete tbl t₁ hl₁ hg₁
  have h2 := pratt_complete tbl t₂ hl₂ hg₂
  rw [hy, h2] at h1
  injection h1 with h _
  exact h.symm

/-! ### the property in one statement -/

/-- **C18.**  For every table and every well-formed stream, `parse_expr` consumes the whole
    stream and returns the one and only tree over these tokens that honours the declared
    precedences and associativities. -/
theorem pratt_spec (tbl : Table α) (ts : List α) (h : WellFormedStream tbl ts) :
    ∃ t, parseExpr tbl ts = .ok t [] ∧ t.flatten = ts ∧ Lex tbl t ∧ Good tbl t ∧
      ∀ t', Lex tbl t' → Good tbl t' → t'.flatten = ts → t' = t := by
  obtain ⟨t, ht⟩ := pratt_consumes_all tbl ts h
  have hp := expr_post tbl _ _ _ _ _ ht
  have hy : t.flatten = ts := by simpa using hp.yield
  exact ⟨t, ht, hy, hp.lex, hp.good,
    fun t' hl' hg' hy' => good_unique tbl t' t hl' hp.lex hg' hp.good (hy'.trans hy.symm)⟩

/-! ### the hypotheses and the model's fuel are what they should be -/

/-- `WellFormedStream` is exactly "the yield of some tree that reads its tokens in their
    roles", i.e. the grammar `expr := prim | pre expr | expr post | expr inf expr`. -/
theorem wf_iff_yield (tbl : Table α) (ts : List α) :
    WellFormedStream tbl ts ↔ ∃ t, Lex tbl t ∧ t.flatten = ts := by
  constructor
  · intro h
    obtain ⟨t, _, hy, hl, _⟩ := pratt_spec tbl ts h
    exact ⟨t, hl, hy⟩
  · rintro ⟨t, hl, rfl⟩
    have := wf_flatten t [] hl
    simpa [WellFormedStream, wf] using this

/-- `parse_expr` consumes a whole stream exactly when the stream is well formed -/
theorem pratt_accepts_iff (tbl : Table α) (ts : List α) :
    (∃ t, parseExpr tbl ts = .ok t []) ↔ WellFormedStream tbl ts := by
  constructor
  · rintro ⟨t, ht⟩
    have hp := expr_post tbl _ _ _ _ _ ht
    exact (wf_iff_yield tbl ts).mpr ⟨t, hp.lex, by simpa using hp.yield⟩
  · exact pratt_consumes_all tbl ts

/-- the fuel `ts.length + 1` is never exhausted: on *every* stream the model answers
    "returned (tree, rest)" or "SyntaxError", like the code -/
theorem pratt_total (tbl : Table α) (ts : List α) : parseExpr tbl ts ≠ .fuel :=
  expr_no_fuel tbl _ ts 0 (Nat.lt_succ_self _)

/-- more fuel changes nothing -/
theorem pratt_fuel_irrelevant (tbl : Table α) (f : Nat) (ts : List α) (t : Tree α)
    (h : expr tbl f ts 0 = .ok t []) : parseExpr tbl ts = .ok t [] := by
  have hp := expr_post tbl _ _ _ _ _ h
  have hy : t.flatten = ts := by simpa using hp.yield
  subst hy
  exact pratt_complete tbl t hp.lex hp.good

/-! ### the executable reference (enumerate all trees over the tokens, keep the good ones) -/

theorem mem_reference (tbl : Table α) (ts : List α) (t : Tree α) :
    t ∈ reference tbl ts ↔ t.flatten = ts ∧ Lex tbl t ∧ Good tbl t := by
  simp only [reference, List.mem_filter, decide_eq_true_eq]
  constructor
  · rintro ⟨h1, h2⟩
    exact ⟨allTrees_sound _ _ _ h1, h2⟩
  · rintro ⟨rfl, h2⟩
    exact ⟨allTrees_complete _ t (Nat.le_refl _), h2⟩

/-- on a well-formed stream the reference finds exactly the tree `parse_expr` returns -/
theorem reference_eq (tbl : Table α) (ts : List α) (t : Tree α)
    (h : parseExpr tbl ts = .ok t []) : ∀ t', t' ∈ reference tbl ts ↔ t' = t := by
  have hp := expr_post tbl _ _ _ _ _ h
  have hy : t.flatten = ts := by simpa using hp.yield
  intro t'
  rw [mem_reference]
  constructor
  · rintro ⟨h1, h2, h3⟩
    exact good_unique tbl t' t h2 hp.lex h3 hp.good (h1.trans hy.symm)
  · rintro rfl
    exact ⟨hy, hp.lex, hp.good⟩

/-- … and on any other stream it finds nothing -/
theorem reference_ill_formed (tbl : Table α) (ts : List α) (h : ¬ WellFormedStream tbl ts) :
    reference tbl ts = [] := by
  apply List.eq_nil_iff_forall_not_mem.mpr
  intro t ht
  obtain ⟨h1, h2, _⟩ := (mem_reference tbl ts t).mp ht
  exact h ((wf_iff_yield tbl ts).mpr ⟨t, h2, h1⟩)

/-! ### what `Good` says, spelled out on the four two-operator shapes (all tables)

  These are consequences of `pratt_complete`; they are here so that the specification can
  be read against the property text without looking at binding powers. -/

/-- `a o₁ b o₂ c`: the higher precedence binds tighter; on equal precedence the
    associativity (of the left operator) decides. -/
theorem infix_pair (tbl : Table α) {a o₁ b o₂ c : α} {p₁ p₂ : Nat} {r₁ r₂ : Bool}
    (ha : tbl.pre a = none) (hb : tbl.pre b = none) (hc : tbl.pre c = none)
    (h₁' : tbl.post o₁ = none) (h₁ : tbl.inf o₁ = some (p₁, r₁))
    (h₂' : tbl.post o₂ = none) (h₂ : tbl.inf o₂ = some (p₂, r₂)) :
    parseExpr tbl [a, o₁, b, o₂, c] =
      .ok (if p₁ < p₂ ∨ (p₁ = p₂ ∧ r₁ = true)
           then .bin (.leaf a) o₁ (.bin (.leaf b) o₂ (.leaf c))
           else .bin (.bin (.leaf a) o₁ (.leaf b)) o₂ (.leaf c)) [] := by
  by_cases hc' : p₁ < p₂ ∨ (p₁ = p₂ ∧ r₁ = true)
  · rw [if_pos hc']
    have := pratt_complete tbl (.bin (.leaf a) o₁ (.bin (.leaf b) o₂ (.leaf c)))
      (by simp [Lex, ha, hb, hc, h₁, h₁', h₂, h₂'])
      (by cases r₁ <;> simp [Good, ledge, redge, Table.infL, Table.infR, h₁, h₂] <;> simp at hc' <;> omega)
    simpa [Tree.flatten] using this
  · rw [if_neg hc']
    have := pratt_complete tbl (.bin (.bin (.leaf a) o₁ (.leaf b)) o₂ (.leaf c))
      (by simp [Lex, ha, hb, hc, h₁, h₁', h₂, h₂'])
      (by cases r₁ <;> simp [Good, ledge, redge, Table.infL, Table.infR, h₁, h₂] <;> simp at hc' <;> omega)
    simpa [Tree.flatten] using this

/-- `o x f` (prefix `o`, postfix `f`): the higher precedence is applied first; on equal
    precedence the postfix operator.  (The pinned `parse_expr` always applied `f` first.) -/
theorem prefix_vs_postfix (tbl : Table α) {o x f : α} {p q : Nat}
    (hx : tbl.pre x = none) (ho : tbl.pre o = some p) (hf : tbl.post f = some q) :
    parseExpr tbl [o, x, f] =
      .ok (if p ≤ q then .pre o (.post (.leaf x) f) else .post (.pre o (.leaf x)) f) [] := by
  by_cases hc' : p ≤ q
  · rw [if_pos hc']
    have := pratt_complete tbl (.pre o (.post (.leaf x) f)) (by simp [Lex, hx, ho, hf])
      (by simp [Good, ledge, redge, Table.preR, Table.postL, ho, hf]; omega)
    simpa [Tree.flatten] using this
  · rw [if_neg hc']
    have := pratt_complete tbl (.post (.pre o (.leaf x)) f) (by simp [Lex, hx, ho, hf])
      (by simp [Good, ledge, redge, Table.preR, Table.postL, ho, hf]; omega)
    simpa [Tree.flatten] using this

/-- `a o b f` (infix `o`, postfix `f`): `f` applies to `b` alone iff it binds tighter than
    `o` — higher precedence, or equal precedence and `o` right-associative.
    (The pinned `parse_expr` always applied `f` to `b` alone.) -/
theorem infix_vs_postfix (tbl : Table α) {a o b f : α} {p q : Nat} {ra : Bool}
    (ha : tbl.pre a = none) (hb : tbl.pre b = none)
    (ho' : tbl.post o = none) (ho : tbl.inf o = some (p, ra)) (hf : tbl.post f = some q) :
    parseExpr tbl [a, o, b, f] =
      .ok (if p < q ∨ (p = q ∧ ra = true)
           then .bin (.leaf a) o (.post (.leaf b) f)
           else .post (.bin (.leaf a) o (.leaf b)) f) [] := by
  by_cases hc' : p < q ∨ (p = q ∧ ra = true)
  · rw [if_pos hc']
    have := pratt_complete tbl (.bin (.leaf a) o (.post (.leaf b) f))
      (by simp [Lex, ha, hb, ho, ho', hf])
      (by cases ra <;> simp [Good, ledge, redge, Table.infL, Table.infR, Table.postL, ho, hf] <;>
            simp at hc' <;> omega)
    simpa [Tree.flatten] using this
  · rw [if_neg hc']
    have := pratt_complete tbl (.post (.bin (.leaf a) o (.leaf b)) f)
      (by simp [Lex, ha, hb, ho, ho', hf])
      (by cases ra <;> simp [Good, ledge, redge, Table.infL, Table.infR, Table.postL, ho, hf] <;>
            simp at hc' <;> omega)
    simpa [Tree.flatten] using this

/-- `o a i b` (prefix `o`, infix `i`): the prefix operator takes `a i b` iff `i` binds at
    least as tightly as `o`. -/
theorem prefix_vs_infix (tbl : Table α) {o a i b : α} {p q : Nat} {ra : Bool}
    (ha : tbl.pre a = none) (hb : tbl.pre b = none) (ho : tbl.pre o = some p)
    (hi' : tbl.post i = none) (hi : tbl.inf i = some (q, ra)) :
    parseExpr tbl [o, a, i, b] =
      .ok (if p ≤ q then .pre o (.bin (.leaf a) i (.leaf b))
           else .bin (.pre o (.leaf a)) i (.leaf b)) [] := by
  by_cases hc' : p ≤ q
  · rw [if_pos hc']
    have := pratt_complete tbl (.pre o (.bin (.leaf a) i (.leaf b)))
      (by simp [Lex, ha, hb, ho, hi, hi'])
      (by simp [Good, ledge, redge, Table.preR, Table.infL, ho, hi]; omega)
    simpa [Tree.flatten] using this
  · rw [if_neg hc']
    have := pratt_complete tbl (.bin (.pre o (.leaf a)) i (.leaf b))
      (by simp [Lex, ha, hb, ho, hi, hi'])
      (by simp [Good, ledge, redge, Table.preR, Table.infL, ho, hi]; omega)
    simpa [Tree.flatten] using this

/-! ### the hypotheses are satisfiable; the pinned algorithm violates the specification -/

section Examples

/-- primaries `0 1 2 3`; prefix `10` (prec 2), `11` (prec 5); postfix `20` (prec 3), `21` (prec 0);
    infix `30` (1, left), `31` (2, left), `32` (3, right), `33` (3, left) -/
def exTable : Table Nat where
  pre := fun n => if n = 10 then some 2 else if n = 11 then some 5 else none
  post := fun n => if n = 20 then some 3 else if n = 21 then some 0 else none
  inf := fun n =>
    if n = 30 then some (1, false) else if n = 31 then some (2, false)
    else if n = 32 then some (3, true) else if n = 33 then some (3, false) else none

/-- `11 0 30 10 1 31 2 32 3 32 0 20 21` — prefix, postfix, left- and right-assoc infix -/
def exStream : List Nat := [11, 0, 30, 10, 1, 31, 2, 32, 3, 32, 0, 20, 21]

/-- `((11 0) 30 (10 (1 31 (2 32 (3 32 (0 20)))))) 21` -/
def exTree : Tree Nat :=
  .post (.bin (.pre 11 (.leaf 0)) 30
      (.pre 10 (.bin (.leaf 1) 31 (.bin (.leaf 2) 32 (.bin (.leaf 3) 32 (.post (.leaf 0) 20)))))) 21

example : WellFormedStream exTable exStream := by decide
example : parseExpr exTable exStream = .ok exTree [] := by decide
example : exTree.flatten = exStream ∧ Lex exTable exTree ∧ Good exTable exTree := by decide
/-- left-assoc `33` groups left, right-assoc `32` groups right -/
example : parseExpr exTable [0, 33, 1, 33, 2] = .ok (.bin (.bin (.leaf 0) 33 (.leaf 1)) 33 (.leaf 2)) [] := by decide
example : parseExpr exTable [0, 32, 1, 32, 2] = .ok (.bin (.leaf 0) 32 (.bin (.leaf 1) 32 (.leaf 2))) [] := by decide
/-- the reference agrees (here on a shorter stream: it enumerates every tree) -/
example : reference exTable [11, 0, 20, 30, 10, 1, 21] =
    [.post (.bin (.post (.pre 11 (.leaf 0)) 20) 30 (.pre 10 (.leaf 1))) 21] := by decide
/-- ill-formed streams: truncated → `SyntaxError`; two operands in a row → returns early -/
example : parseExpr exTable [0, 30] = .eof := by decide
example : parseExpr exTable [0, 1] = .ok (.leaf 0) [1] := by decide
example : ¬ WellFormedStream exTable [0, 30] ∧ ¬ WellFormedStream exTable [0, 1] := by decide

/-- **the pinned `parse_expr` violates C18**: with prefix `11` of precedence 5 and postfix
    `20` of precedence 3 it builds `11 (0 20)`, which is not `Good`; the one good tree is
    `(11 0) 20`, which the repaired `parse_expr` returns. -/
example : prattOld exTable [11, 0, 20] = .ok (.pre 11 (.post (.leaf 0) 20)) [] ∧
    ¬ Good exTable (.pre 11 (.post (.leaf 0) 20)) ∧
    parseExpr exTable [11, 0, 20] = .ok (.post (.pre 11 (.leaf 0)) 20) [] ∧
    reference exTable [11, 0, 20] = [.post (.pre 11 (.leaf 0)) 20] := by decide

/-- same defect against an infix operator: `0 31 1 21` with `31` of precedence 2 and postfix
    `21` of precedence 0 -/
example : prattOld exTable [0, 31, 1, 21] = .ok (.bin (.leaf 0) 31 (.post (.leaf 1) 21)) [] ∧
    ¬ Good exTable (.bin (.leaf 0) 31 (.post (.leaf 1) 21)) ∧
    parseExpr exTable [0, 31, 1, 21] = .ok (.post (.bin (.leaf 0) 31 (.leaf 1)) 21) [] := by decide

end Examples

end C18
end Pest
