/-
  Props/C13Text.lean — the `error_context(text, index)` part of property C13:
  "The line:column and the source line shown are those of p", and the function never
  raises for `-1 ≤ p ≤ len(text)`.

  Model: `LineCol.errorContext` (mirror of `error_context` in src/pest/exceptions.py, every
  subscript explicit, `none` = IndexError).  Line and column follow C14's convention
  (`specLineCol`); the source line shown is the line containing `p` with trailing
  whitespace removed (`str.rstrip()`).
-/
import PestModel.Lemmas.LineCol

namespace Pest
namespace C13
open LineCol

/-- **C13, error_context is total**: for every text — with any of the `splitlines`
    boundaries — and every `-1 ≤ p ≤ len(text)` no subscript is out of range. -/
theorem error_context_total {t : Text} {p : Int} (_ : -1 ≤ p) (_ : p ≤ t.length) :
    (errorContext t p).isSome = true :=
  errorContext_total t p

/-- … in fact for every integer index. -/
theorem error_context_total_any (t : Text) (p : Int) : (errorContext t p).isSome = true :=
  errorContext_total t p

/-- **C13, the line:column and the source line shown are those of p**: for a `\n`-text and
    `0 ≤ p ≤ len(text)`, `error_context` returns the line containing `p` (trailing
    whitespace stripped), 1 + the number of line breaks before `p`, and 1 + the distance of
    `p` from the last line break. -/
theorem error_context_is_linecol {t : Text} {p : Int} (h : OnlyLF t) (h0 : 0 ≤ p)
    (hp : p ≤ t.length) :
    errorContext t p = some (rstrip (specLineOf t p.toNat), (specLineCol t p.toNat).1,
      ((specLineCol t p.toNat).2 : Int)) := by
  obtain ⟨n, rfl⟩ := Int.eq_ofNat_of_zero_le h0
  have hn : n ≤ t.length := by omega
  simpa [specLineCol] using errorContext_onlyLF h hn

/-- the reported line and column are those of `Position(text, p).line_col()` -/
theorem error_context_agrees_with_position {t : Text} {p : Nat} (h : OnlyLF t)
    (hp : p ≤ t.length) :
    (errorContext t p).map (·.2) = pyLineCol t p := by
  rw [errorContext_onlyLF h hp, (pyLineCol_onlyLF h hp).1]; rfl

/-- the sentinel `-1` (no failure recorded) is reported as line 1, column 0 -/
theorem error_context_sentinel (t : Text) : ∃ l, errorContext t (-1) = some (l, 1, 0) := by
  obtain ⟨b, hb, hne⟩ := endsOnNewLine_total t
  have hpos : ecLines t b ≠ [] := by
    unfold ecLines
    cases b with
    | true => simp
    | false => simpa using hne rfl
  obtain ⟨l, ls, hls⟩ := List.exists_cons_of_ne_nil hpos
  have hf : findLine (-1) (ecLines t b) 0 0 = (some 0, 0 + l.length) := by
    rw [hls, findLine]
    have : (-1 : Int) < ((0 + l.length : Nat) : Int) := by omega
    rw [if_pos this]
  have hl : (ecLines t b)[(some 0).getD ((ecLines t b).length - 1)]? = some l := by
    rw [hls]; rfl
  refine ⟨rstrip l, ?_⟩
  rw [errorContext_exit hb hf hl]
  simp only [Option.getD_some, Option.some.injEq, Prod.mk.injEq]
  refine ⟨trivial, trivial, by omega⟩

/-! ### concrete instances -/

-- after a trailing line break: the new empty line (was the previous line, column 4)
example : errorContext [97, 98, 10] 3 = some ([], 2, 1) := by decide
-- empty text (was column 0 at index 0)
example : errorContext [] 0 = some ([], 1, 1) := by decide
example : errorContext [] (-1) = some ([], 1, 0) := by decide
-- "ab \ncd", p = 5: second line, column 2; trailing blanks of the shown line are stripped
example : errorContext [97, 98, 32, 10, 99, 100] 5 = some ([99, 100], 2, 2) := by decide
example : errorContext [97, 98, 32, 10, 99, 100] 1 = some ([97, 98], 1, 2) := by decide
example : errorContext [97, 98] (-1) = some ([97, 98], 1, 0) := by decide
-- other boundaries: "a\r\nb", between \r and \n
example : errorContext [97, 13, 10, 98] 2 = some ([97], 1, 3) := by decide

end C13
end Pest
