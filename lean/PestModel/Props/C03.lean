/-
  Props/C03.lean — property C03: "Core PEG operators follow pest's matching semantics".

  What "pest's semantics" is: `Spec.lean` (L0) plus the reading-level laws proved below
  (ordered committed choice, greedy repetition that gives nothing back, bounded repetitions
  are their unrolled sequences, predicates consume nothing and contribute no pairs, one pair
  per successful non-silent rule application).
  What is proved about the code's model: the interpreter mirror L1 (`Interp.lean`, tied to
  `Expression.parse` / `Rule.parse` / `ParserState` by the correspondence run) refines L0 for
  every grammar, expression, input, start position, reachable state and amount of fuel.
-/
import PestModel.Lemmas.Refine

namespace Pest
namespace C03

variable (g : Grammar) (inp : Input)

/-- **Refinement, every expression, every state.**  Running the interpreter model from a
    state `c` and the specification from what L0 sees of `c` (position, stack contents,
    atomicity), with the same fuel: out of fuel together; the only exception is `KeyError`
    for an undefined rule (L0: `stuck`); success together, ending in the same position /
    stack / atomicity with the same pairs up to tags; failure together, with no pairs. In
    both cases every saved checkpoint is untouched (`Frame`). -/
theorem interp_refines_spec (hs : SkipTotal g) (n : Nat) (e : Expr) (c : PState) (p : Pre c) :
    Rel c (L1.run g inp n e c) (L0.run g inp n e (abs0 c)) :=
  (run_good g inp hs n).rel e c p

/-- **`Parser.parse`.**  For every start rule, start position and fuel the interpreter model
    agrees with the specification: same success/failure, same tree (tags aside), same end
    position. -/
theorem parse_agrees_with_spec (hs : SkipTotal g) (fuel : Nat) (start : String) (k : Nat) :
    match L1.parse g inp fuel start k with
    | .oof => L0.parse g inp fuel start k = .oof
    | .exc e => e = .keyError ∧ L0.parse g inp fuel start k = .stuck
    | .done true c ps =>
      ∃ s, L0.parse g inp fuel start k = .ok s (eraseTagsL ps) ∧ s.pos = c.pos ∧ s.stk = c.ustack.items
    | .done false _ ps => L0.parse g inp fuel start k = .fail ∧ ps = [] := by
  unfold L1.parse L0.parse
  cases g.lookup start with
  | none => exact ⟨rfl, rfl⟩
  | some r =>
    show (match L1.ruleParse (L1.run g inp fuel) r.name r.mod r.body (PState.init k) with
      | .oof => L0.ruleApply (L0.run g inp fuel) r.name r.mod r.body ⟨k, [], false⟩ = .oof
      | .exc e => e = .keyError ∧ L0.ruleApply (L0.run g inp fuel) r.name r.mod r.body ⟨k, [], false⟩ = .stuck
      | .done true c ps => ∃ s, L0.ruleApply (L0.run g inp fuel) r.name r.mod r.body ⟨k, [], false⟩
          = .ok s (eraseTagsL ps) ∧ s.pos = c.pos ∧ s.stk = c.ustack.items
      | .done false _ ps => L0.ruleApply (L0.run g inp fuel) r.name r.mod r.body ⟨k, [], false⟩ = .fail ∧ ps = [])
    have h := ruleParse_relW (run_good g inp hs fuel) r.name r.mod r.body (.init k) (preW_init k)
    have ha : abs0 (PState.init k) = ⟨k, [], false⟩ := by
      simp [abs0, PState.init, DStack.empty, SnapInt.zero0]
    rw [ha] at h
    revert h
    cases L1.ruleParse (L1.run g inp fuel) r.name r.mod r.body (.init k) with
    | oof => exact id
    | exc e => exact id
    | done m c ps =>
      intro h
      cases m with
      | true => exact ⟨abs0 c, h.1, rfl, rfl⟩
      | false => exact ⟨h.1, h.2.1⟩

/-- no exception other than the `KeyError` of an undefined rule can come out of the
    interpreter model (in particular no `IndexError` from the rule stack, the user stack or
    `_pos_history`) -/
theorem interp_exc_only_undefined (hs : SkipTotal g) (fuel : Nat) (start : String) (k : Nat)
    (e : PyExc) (h : L1.parse g inp fuel start k = .exc e) : e = .keyError := by
  have := parse_agrees_with_spec g inp hs fuel start k
  rw [h] at this
  exact this.1

/-! ### What L0 says, spelled out (sanity of the specification) -/

/-- ordered choice commits to the first alternative that does not fail … -/
theorem choice_commits (rec : Sem0) (a : Expr) (rest : List Expr) (s : S0) (h : rec a s ≠ .fail) :
    L0.choiceL rec (a :: rest) s = rec a s := by
  cases hr : rec a s with
  | fail => exact absurd hr h
  | ok s' ps => simp [L0.choiceL, hr]
  | oof => simp [L0.choiceL, hr]
  | stuck => simp [L0.choiceL, hr]

/-- … and a failed alternative leaves no trace: the next one starts from the same state -/
theorem choice_next (rec : Sem0) (a : Expr) (rest : List Expr) (s : S0) (h : rec a s = .fail) :
    L0.choiceL rec (a :: rest) s = L0.choiceL rec rest s := by
  simp [L0.choiceL, h]

theorem choice_empty_fails (rec : Sem0) (s : S0) : L0.choiceL rec [] s = .fail := rfl

/-- `e?` never fails and, when `e` fails, consumes nothing and yields no pairs -/
theorem opt_spec (k : Nat) (rec : Sem0) (e : Expr) (s : S0) :
    L0.step g inp k rec (.opt e) s = (match rec e s with | .fail => .ok s [] | r => r) := rfl

/-- predicates consume nothing, change no stack, contribute no pairs -/
theorem and_spec (k : Nat) (rec : Sem0) (e : Expr) (s : S0) :
    L0.step g inp k rec (.andP e) s = (match rec e s with | .ok _ _ => .ok s [] | r => r) := rfl

theorem not_spec (k : Nat) (rec : Sem0) (e : Expr) (s : S0) :
    L0.step g inp k rec (.notP e) s =
      (match rec e s with | .ok _ _ => .fail | .fail => .ok s [] | r => r) := rfl

theorem pred_consumes_nothing (k : Nat) (rec : Sem0) (e : Expr) (s s' : S0) (ps : List Pair) :
    (L0.step g inp k rec (.andP e) s = .ok s' ps → s' = s ∧ ps = []) ∧
    (L0.step g inp k rec (.notP e) s = .ok s' ps → s' = s ∧ ps = []) := by
  constructor
  · simp only [L0.step]
    cases rec e s <;> simp
    intro h1 h2; exact ⟨h1.symm, h2⟩
  · simp only [L0.step]
    cases rec e s <;> simp
    intro h1 h2; exact ⟨h1.symm, h2⟩

/-- bounded repetitions behave as their unrolled sequences — by definition of L0 -/
theorem bounded_as_unrolled (k : Nat) (rec : Sem0) (e : Expr) (m n : Nat) (s : S0) :
    L0.step g inp k rec (.rep1 e) s = L0.step g inp k rec (.seq [e, .rep e]) s ∧
    L0.step g inp k rec (.repExact e n) s = L0.step g inp k rec (.seq (List.replicate n e)) s ∧
    L0.step g inp k rec (.repMin e n) s = L0.step g inp k rec (.seq (List.replicate n e ++ [.rep e])) s ∧
    L0.step g inp k rec (.repMax e n) s = L0.step g inp k rec (.seq (List.replicate n (.opt e))) s ∧
    L0.step g inp k rec (.repMinMax e m n) s =
      L0.step g inp k rec (.seq (List.replicate m e ++ List.replicate (n - m) (.opt e))) s :=
  ⟨rfl, rfl, rfl, rfl, rfl⟩

/-- the same holds of the interpreter model (the code delegates to the unrolled form) -/
theorem interp_bounded_as_unrolled (k : Nat) (rec : Sem1) (e : Expr) (m n : Nat) (c : PState) :
    L1.step g inp k rec (.rep1 e) c = L1.step g inp k rec (.seq [e, .rep e]) c ∧
    L1.step g inp k rec (.repExact e n) c = L1.step g inp k rec (.seq (List.replicate n e)) c ∧
    L1.step g inp k rec (.repMin e n) c = L1.step g inp k rec (.seq (List.replicate n e ++ [.rep e])) c ∧
    L1.step g inp k rec (.repMax e n) c = L1.step g inp k rec (.seq (List.replicate n (.opt e))) c ∧
    L1.step g inp k rec (.repMinMax e m n) c =
      L1.step g inp k rec (.seq (List.replicate m e ++ List.replicate (n - m) (.opt e))) c :=
  ⟨rfl, rfl, rfl, rfl, rfl⟩

/-- repetition is greedy and gives nothing back: `e*` stops only when the next iteration
    (implicit trivia, then `e`) fails from where it stopped (or the very first `e` fails) -/
theorem rep_greedy (rec : Sem0) (e : Expr) (kk : Nat) :
    ∀ (k : Nat) (first : Bool) (s : S0) (acc : List Pair) (s' : S0) (ps : List Pair),
      L0.repLoop g rec e k kk first s acc = .ok s' ps →
      ∃ firstEnd : Bool,
        (match (if firstEnd then R0.ok s' [] else L0.skip g rec kk s') with
         | .ok s1 _ => rec e s1 = .fail
         | .fail => True
         | _ => False) := by
  intro k
  induction k with
  | zero => intro first s acc s' ps h; simp [L0.repLoop] at h
  | succ k ih =>
    intro first s acc s' ps h
    simp only [L0.repLoop] at h
    cases hsk : (if first = true then R0.ok s [] else L0.skip g rec kk s) with
    | oof => rw [hsk] at h; simp at h
    | stuck => rw [hsk] at h; simp at h
    | fail =>
      rw [hsk] at h
      simp only [R0.ok.injEq] at h
      obtain ⟨rfl, _⟩ := h
      refine ⟨first, ?_⟩
      rw [hsk]; trivial
    | ok s1 tps =>
      rw [hsk] at h
      simp only [] at h
      cases hr : rec e s1 with
      | oof => rw [hr] at h; simp at h
      | stuck => rw [hr] at h; simp at h
      | ok s2 ps2 => rw [hr] at h; exact ih false s2 _ s' ps h
      | fail =>
        rw [hr] at h
        simp only [R0.ok.injEq] at h
        obtain ⟨rfl, _⟩ := h
        refine ⟨first, ?_⟩
        rw [hsk]; exact hr

/-- exactly one pair per successful non-silent rule application, spanning the match; a silent
    rule passes its inner pairs up unchanged -/
theorem rule_one_pair (name : String) (mod : Nat) (s s' : S0) (ps : List Pair) :
    (hasBit mod SILENT = false →
      ∃ ch, L0.ruleWrap name mod s s' ps = .ok { s' with atomic := s.atomic } [.mk name mod s.pos s'.pos ch none]) ∧
    (hasBit mod SILENT = true → L0.ruleWrap name mod s s' ps = .ok { s' with atomic := s.atomic } ps) := by
  constructor
  · intro h; exact ⟨if hasBit mod ATOMIC then visibleList ps else ps, by simp [L0.ruleWrap, h]⟩
  · intro h; simp [L0.ruleWrap, h]

/-! ### Non-vacuity: a concrete grammar, state and input meet the hypotheses -/

def demoG : Grammar :=
  { rules := [⟨"r", 0, .seq [.str [97], .opt (.ident "s" none), .rep (.str [98])], .grammar⟩,
              ⟨"s", SILENT, .choice [.str [120], .str [121]], .grammar⟩] }

example : SkipTotal demoG := by intro r h; simp [Grammar.fusedSkip, Grammar.lookup, demoG] at h

def okAt1 : R1 → Nat → Nat → Bool
  | .done true c ps, p, n => c.pos == p && ps.length == n
  | _, _, _ => false
def okAt0 : R0 → Nat → Nat → Bool
  | .ok s ps, p, n => s.pos == p && ps.length == n
  | _, _, _ => false

example : okAt1 (L1.parse demoG #[97, 121, 98, 98] 20 "r" 0) 4 1 = true := by decide +kernel
example : okAt0 (L0.parse demoG #[97, 121, 98, 98] 20 "r" 0) 4 1 = true := by decide +kernel

end C03
end Pest
