/-
  Props/C01.lean — property C01: "Generated parser module is observationally identical to the
  interpreter".

  LG (`Gen.lean`) is a reading of every `generate()` template and of `generate_rule` /
  `generate_parse_trivia` / the generated `parse()`; L1 (`Interp.lean`) mirrors the
  interpreter.  Both are tied to the code by the correspondence run.  Proved here: for every
  grammar (optimised or not: the optimizer-made nodes are node kinds too), expression, input,
  start position, pair of related states and amount of fuel, the two models give the same
  verdict, related end states (same position, user stack, atomic depth, tag stack, furthest
  failure position, …) and — on success — exactly the same pairs, tags included.

  Not covered by a theorem (checked on every generated module by the check itself): that the
  emitted text compiles and imports, and that generating twice yields identical source.
  `exc other` / `exc nameError` on the LG side mark tree shapes outside the model: a rule
  object embedded in a tree that is not a silent, non-atomic built-in, or a reference by name
  to a built-in other than EOI; the front end builds neither.
-/
import PestModel.Props.Tables
import PestModel.Lemmas.GenEq

namespace Pest
namespace C01

variable (g : Grammar) (inp : Input)

/-- **LG ≈ L1, every expression, every pair of related states, equal fuel.** -/
theorem gen_equiv_interp (hs : SkipTotal g) (n : Nat) (e : Expr) (cg c1 : PState) (ps0 : List Pair)
    (s : SRel cg c1) (pg : PreG cg) (p1 : Pre c1) :
    GenRel cg ps0 (LG.run g inp n e cg ps0) (L1.run g inp n e c1) :=
  (run_gen g inp hs n).rel e cg c1 ps0 s pg p1

/-- the generated `parse_trivia` and `ParserState.parse_trivia` do the same -/
theorem trivia_gen_eq (hs : SkipTotal g) (n k : Nat) (cg c1 : PState) (ps0 : List Pair)
    (s : SRel cg c1) (pg : PreG cg) (p1 : Pre c1) :
    GenRelT cg ps0 (LG.parseTriviaG g (LG.run g inp n) k cg ps0) (L1.parseTrivia g (L1.run g inp n) k c1) :=
  parseTrivia_gen g (run_gen g inp hs n) (run_good g inp hs n) k cg c1 ps0 s pg p1

theorem srel_refl_init (k : Nat) : SRel (PState.init k) (PState.init k) :=
  ⟨rfl, rfl, rfl, DStack.inv_empty, rfl, rfl, ⟨rfl, rfl⟩, rfl, rfl, rfl⟩

/-- **The generated module's `parse()` vs `Parser.parse()`**, for every start rule that has a
    generated function (grammar rules and EOI), every input, start position and fuel: both run
    out of fuel, or both return *exactly* the same pairs (names, spans, nesting, tags), or both
    fail with the same furthest-failure position. -/
theorem generated_parse_eq (hs : SkipTotal g) (fuel : Nat) (start : String) (k : Nat) :
    match LG.parse g inp fuel start k with
    | .oof => L1.parse g inp fuel start k = .oof
    | .exc e => benign e = true ∨ e = .keyError
    | .done true cg ps => ∃ c1, L1.parse g inp fuel start k = .done true c1 ps ∧ cg.pos = c1.pos
    | .done false cg _ => ∃ c1 ps1, L1.parse g inp fuel start k = .done false c1 ps1 ∧ cg.fpos = c1.fpos := by
  unfold LG.parse L1.parse
  cases g.lookup start with
  | none => exact Or.inr rfl
  | some r =>
    simp only []
    by_cases hb : (r.kind == RuleKind.builtin && r.name != "EOI") = true
    · simp [hb]
    · simp only [hb, Bool.false_eq_true, ↓reduceIte]
      have h := rule_gen (run_gen g inp hs fuel) (run_good g inp hs fuel) r.name r.mod r.body
        (.init k) (.init k) [] (srel_refl_init k) DStack.inv_empty (preW_init k)
      revert h
      cases LG.ruleG (LG.run g inp fuel) r.name r.mod r.body (.init k) [] with
      | oof => exact id
      | exc e => intro h; exact Or.inl h
      | done m cg ps =>
        intro h
        obtain ⟨c1, ps1, e1, sr, _, hp⟩ := h
        cases m with
        | true => exact ⟨c1, by rw [e1, hp rfl]; simp, sr.pos⟩
        | false => exact ⟨c1, ps1, e1, sr.fp⟩

/-- in particular the generated side never raises `IndexError` / `UnboundLocalError` /
    `AssertionError`: its only non-benign exception is the `KeyError` of an unknown start rule -/
theorem gen_no_exc (hs : SkipTotal g) (fuel : Nat) (start : String) (k : Nat) (e : PyExc)
    (h : LG.parse g inp fuel start k = .exc e) : benign e = true ∨ e = .keyError := by
  have := generated_parse_eq g inp hs fuel start k
  rw [h] at this
  exact this

/-! ### Non-vacuity -/

def demoG : Grammar :=
  { rules := [⟨"r", 0, .seq [.str [97], .opt (.ident "s" (some "tt")), .rep (.rule "ASCII_DIGIT" 2 true (.range 48 57))], .grammar⟩,
              ⟨"s", 0, .choice [.str [120], .str [121]], .grammar⟩,
              ⟨"WHITESPACE", SILENT, .str [32], .grammar⟩] }

def sameOk : RG → R1 → Bool
  | .done true cg ps, .done true c1 ps1 => cg.pos == c1.pos && ps.length == ps1.length && cg.pos == 6
  | _, _ => false

example : sameOk (LG.parse demoG #[97, 32, 121, 32, 49, 50] 30 "r" 0)
    (L1.parse demoG #[97, 32, 121, 32, 49, 50] 30 "r" 0) = true := by decide +kernel

end C01
end Pest
