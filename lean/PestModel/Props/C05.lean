/-
  Props/C05.lean — property C05: "Stack operations match their specification and are undone
  on backtracking".

  Specification: the seven stack clauses of L0 (`Spec.lean`), restated below one by one.
  Undo on backtracking: L0 re-uses the *incoming* state after a failed alternative / optional /
  iteration / predicate and after a successful predicate; the refinement theorem
  (`C03.interp_refines_spec`) says the interpreter model ends in exactly the state L0 says, so
  every stack change made inside is undone, however deeply nested the successful sub-matches
  that made it.  This rests on C09: the delta-encoded `Stack` behaves like full copies
  (`restore_after` in Lemmas/Frame.lean is where `DStack.restore`/`dropSnap` are used).
-/
import PestModel.Props.C03
import PestModel.Props.C02

namespace Pest
namespace C05

variable (g : Grammar) (inp : Input)

/-! ### the specification of the seven operations (L0), for reading -/

/-- PUSH(e) pushes exactly the text e matched -/
theorem push_spec (k : Nat) (rec : Sem0) (e : Expr) (s : S0) :
    L0.step g inp k rec (.push e) s =
      (match rec e s with
       | .ok s' ps => .ok { s' with stk := slice inp s.pos s'.pos :: s'.stk } ps
       | r => r) := rfl

/-- PUSH_LITERAL pushes its literal and always succeeds, consuming nothing -/
theorem push_literal_spec (k : Nat) (rec : Sem0) (x : Str) (s : S0) :
    L0.step g inp k rec (.pushLit x) s = .ok { s with stk := x :: s.stk } [] := rfl

/-- PEEK matches the top entry; POP also removes it on success; both fail on an empty stack -/
theorem peek_spec (k : Nat) (rec : Sem0) (s : S0) :
    L0.step g inp k rec .peek s =
      (match s.stk with
       | [] => .fail
       | t :: _ => if startsWithAt inp t s.pos then .ok (L0.adv s t.length) [] else .fail) := rfl

theorem pop_spec (k : Nat) (rec : Sem0) (s : S0) :
    L0.step g inp k rec .pop s =
      (match s.stk with
       | [] => .fail
       | t :: r => if startsWithAt inp t s.pos then .ok { L0.adv s t.length with stk := r } [] else .fail) := rfl

/-- DROP removes the top entry without matching and fails on an empty stack -/
theorem drop_spec (k : Nat) (rec : Sem0) (s : S0) :
    L0.step g inp k rec .drop s =
      (match s.stk with | [] => .fail | _ :: r => .ok { s with stk := r } []) := rfl

/-- PEEK_ALL / POP_ALL match all entries top to bottom (`stk` has its top at the head);
    POP_ALL empties the stack on success -/
theorem peek_all_spec (k : Nat) (rec : Sem0) (s : S0) :
    L0.step g inp k rec .peekAll s =
      (match L1.matchAll inp s.stk s.pos with | some p => .ok { s with pos := p } [] | none => .fail) := rfl

theorem pop_all_spec (k : Nat) (rec : Sem0) (s : S0) :
    L0.step g inp k rec .popAll s =
      (match L1.matchAll inp s.stk s.pos with
       | some p => .ok { s with pos := p, stk := [] } [] | none => .fail) := rfl

/-- PEEK[a..b] matches the addressed slice bottom to top, Python slice indices -/
theorem peek_slice_spec (k : Nat) (rec : Sem0) (a b : Option Int) (s : S0) :
    L0.step g inp k rec (.peekSlice a b) s =
      (match L1.matchAll inp (pySlice s.stk.reverse a b) s.pos with
       | some p => .ok { s with pos := p } [] | none => .fail) := rfl

/-- `matchAll` matches the entries back to back: each at the position where the previous ended -/
theorem matchAll_cons (l : Str) (ls : List Str) (p : Nat) :
    L1.matchAll inp (l :: ls) p =
      (if startsWithAt inp l p then L1.matchAll inp ls (p + l.length) else none) := rfl

/-! ### the interpreter model: never raises, failure is the identity -/

def isStackOp : Expr → Bool
  | .pushLit _ | .peek | .pop | .drop | .peekAll | .popAll | .peekSlice _ _ => true
  | _ => false

/-- none of the stack terminals ever raises (the model's `exc` results — `IndexError` from an
    empty stack, from the rule stack inside `fail()`, from `_pos_history` — are unreachable),
    and they never run out of fuel -/
theorem stack_ops_never_raise (hs : SkipTotal g) (k : Nat) (rec : Sem1) (rec0 : Sem0)
    (h : Good rec rec0) (e : Expr) (he : isStackOp e = true) (c : PState) (p : Pre c) :
    ∃ m c' ps, L1.step g inp k rec e c = .done m c' ps := by
  have hr := (step_good g inp hs k h).rel e c p
  revert hr
  cases hx : L1.step g inp k rec e c with
  | done m c' ps => intro _; exact ⟨m, c', ps, rfl⟩
  | oof =>
    intro hr
    simp only [Rel] at hr
    cases e <;> simp [isStackOp] at he <;> simp only [L0.step, L0.matchLits] at hr
    all_goals (first | (split at hr <;> first | cases hr | (split at hr <;> cases hr)) | cases hr)
  | exc kx =>
    intro hr
    simp only [Rel] at hr
    obtain ⟨_, hr⟩ := hr
    cases e <;> simp [isStackOp] at he <;> simp only [L0.step, L0.matchLits] at hr
    all_goals (first | (split at hr <;> first | cases hr | (split at hr <;> cases hr)) | cases hr)

/-- on failure none of them moves the position or changes the stack: the interpreter model
    returns with exactly the position and stack contents it was entered with (stronger than
    the frame condition: these terminals leave no garbage) -/
theorem failed_op_is_identity (hs : SkipTotal g) (k : Nat) (rec : Sem1) (rec0 : Sem0)
    (h : Good rec rec0) (e : Expr) (he : isStackOp e = true) (c c' : PState) (ps : List Pair)
    (p : Pre c) (hf : L1.step g inp k rec e c = .done false c' ps) :
    c'.pos = c.pos ∧ c'.ustack.items = c.ustack.items ∧ ps = [] := by
  have hfail : ∀ d : PState, Pre d → ∀ d' qs, L1.failT d = .done false d' qs →
      d'.pos = d.pos ∧ d'.ustack = d.ustack := by
    intro d pd d' qs hd
    unfold L1.failT at hd
    cases hq : d.fail none false with
    | none => rw [hq] at hd; cases hd
    | some d2 =>
      rw [hq] at hd
      simp only [R1.done.injEq, true_and] at hd
      obtain ⟨rfl, _⟩ := hd
      obtain ⟨h0, _, h2, _⟩ := fail_same hq
      exact ⟨h0, h2⟩
  have hps : ps = [] := by
    have hr := (step_good g inp hs k h).rel e c p
    rw [hf] at hr
    exact hr.2.1
  refine ⟨?_, ?_, hps⟩ <;> {
    cases e <;> simp [isStackOp] at he
    case pushLit x => simp [L1.step] at hf
    case peek =>
      simp only [L1.step] at hf
      split at hf
      · simp only [R1.done.injEq, true_and] at hf; rw [← hf.1]
      · split at hf
        · cases hf
        · first | exact (hfail c p c' ps hf).1 | rw [(hfail c p c' ps hf).2]
    case pop =>
      simp only [L1.step] at hf
      split at hf
      · simp only [R1.done.injEq, true_and] at hf; rw [← hf.1]
      · split at hf
        · split at hf <;> cases hf
        · first | exact (hfail c p c' ps hf).1 | rw [(hfail c p c' ps hf).2]
    case drop =>
      simp only [L1.step] at hf
      split at hf
      · cases hf
      · first | exact (hfail c p c' ps hf).1 | rw [(hfail c p c' ps hf).2]
    case peekAll =>
      simp only [L1.step] at hf
      split at hf
      · cases hf
      · first | exact (hfail c p c' ps hf).1 | rw [(hfail c p c' ps hf).2]
    case peekSlice a b =>
      simp only [L1.step] at hf
      split at hf
      · cases hf
      · first | exact (hfail c p c' ps hf).1 | rw [(hfail c p c' ps hf).2]
    case popAll =>
      -- the only one that works under a checkpoint: `restore` gives the entry state back
      simp only [L1.step] at hf
      have hx := popAllLoop_rel inp c p (c.ustack.items.length + 1) c.checkpoint c.pos
        (Frame.refl (pre_checkpoint p)) (by simp [PState.checkpoint, DStack.snapshot_items])
      rw [hf] at hx
      have ha := hx.2.2.2
      simp only [abs0, S0.mk.injEq] at ha
      first | exact ha.1 | exact ha.2.1 }

end C05
end Pest
