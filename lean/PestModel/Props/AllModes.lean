/-
  Props/AllModes.lean — the per-property theorems composed with C02, for the two OPTIMIZED
  execution modes.

  The four execution modes are: the interpreter (`L1.parse g`), generated code (`LG.parse g`),
  and the same two run on the optimized rule table `g'` (`Opt.optimize g passes = some g'`).
  The property files C06 / C07 / C13 / C16 / C04 / C05 are stated for an arbitrary rule table
  under hypotheses on *that* table (`SkipTotal`, `SOIFree`, …).  Here those hypotheses are
  discharged for `g'` from hypotheses on the ORIGINAL grammar `g` only, through the optimizer
  theorems of C02.  Standing hypotheses everywhere:

      hwf : OptS.WF g                          (decided by `OptS.wfCheck g`)
      hp  : ∀ p ∈ passes, p ∈ Opt.defaultPasses
      h   : Opt.optimize g passes = some g'

  plus what the base theorem needs of `g` (never of `g'`).  Contents:

  1. C06  `opt_interp_tree_wf`, `opt_gen_tree_wf` (`GoodTree g'`), and, read against the original
          grammar: `opt_interp_names`, `opt_gen_names` (every pair name is the name of a non-silent
          rule of `g`, or `EOI`; never the fused `SKIP`: `opt_interp_no_skip_pair`),
          `opt_interp_root_single`, `opt_gen_root_single`.
  2. C16  `opt_parse_shift`, `opt_gen_parse_shift`, `opt_no_lookbehind`, `opt_gen_no_lookbehind`
          from `soiFreeG g = true`.
  3. C07  `opt_parse_terminates` (L0 on `g'`), `opt_interp_terminates` (stable: from some fuel on
          `L1.parse g'` answers `.done`), `opt_gen_answers` (from the same fuel on `LG.parse g'` is
          not `.oof`), `opt_parse_total` (both `.done`; needs `GenShape g'`, see the OPEN note).
  4. C02/C04/C05  `opt_same_verdict_and_tree` (both optimized modes against `L1.parse g`),
          `plain_vs_opt_interp` (the converse for the interpreter), `opt_interp_run_agrees`
          (every expression, every state), worked corollaries `opt_failed_op_is_identity`,
          `opt_stack_ops_never_raise` (C05) and `opt_seq_trivia_between` (C04).
  5. C13  instances at `g'`, and `opt_failure_names_known` / `opt_gen_failure_names_known`: every
          name of a failure report of a `g'`-run is a known name of `g`, or `SKIP`.
-/
import PestModel.Props.C01
import PestModel.Props.C02
import PestModel.Props.C03
import PestModel.Props.C04
import PestModel.Props.C05
import PestModel.Props.C06
import PestModel.Props.C07
import PestModel.Props.C13
import PestModel.Props.C16

namespace Pest
namespace AllModes

open L0 OptS

/-! ### 0. Glue between `Conv`, `L0.parse` and `L1.parse` -/

/-- an un-optimized table has no fused rule (`WF.noFused`): `SkipTotal` is vacuous for it -/
theorem skipTotal_orig {g : Grammar} (hwf : OptS.WF g) : SkipTotal g := by
  intro r hr; rw [hwf.noFused] at hr; exact absurd hr (by simp)

/-- the meaning of the start rule is what `L0.parse` answers from some fuel on -/
theorem parse_of_conv (g : Grammar) (inp : Input) {start : String} {k : Nat} {r : R0}
    (hc : Conv g inp (.ident start none) (C02.s0 k) r) :
    ∃ n, ∀ f, n ≤ f → L0.parse g inp f start k = r := by
  obtain ⟨n, hn, hne⟩ := hc
  refine ⟨n, fun f hf => ?_⟩
  rw [C02.parse_eq_run]
  exact Conv.mono g inp hn hne (by omega)

theorem conv_of_parse (g : Grammar) (inp : Input) {start : String} {k f : Nat} {r : R0}
    (h0 : L0.parse g inp f start k = r) (hne : r ≠ .oof) :
    Conv g inp (.ident start none) (C02.s0 k) r :=
  ⟨f + 1, by rw [← C02.parse_eq_run]; exact h0, hne⟩

/-- what the interpreter model answers when the specification succeeds (same fuel) -/
theorem interp_of_spec_ok (g : Grammar) (inp : Input) (hst : SkipTotal g) {f : Nat} {start : String}
    {k : Nat} {s : S0} {qs : List Pair} (h0 : L0.parse g inp f start k = .ok s qs) :
    ∃ c ps, L1.parse g inp f start k = .done true c ps ∧ eraseTagsL ps = qs ∧ c.pos = s.pos := by
  have hc := C03.parse_agrees_with_spec g inp hst f start k
  rw [h0] at hc
  revert hc
  cases L1.parse g inp f start k with
  | oof => intro hc; exact absurd hc (by simp)
  | exc e => intro hc; exact absurd hc.2 (by simp)
  | done m c ps =>
    cases m with
    | true =>
      intro hc
      obtain ⟨s1, h1, h2, _⟩ := hc
      simp only [R0.ok.injEq] at h1
      exact ⟨c, ps, rfl, h1.2.symm, by rw [← h2, h1.1]⟩
    | false => intro hc; exact absurd hc.1 (by simp)

/-- … and when it fails -/
theorem interp_of_spec_fail (g : Grammar) (inp : Input) (hst : SkipTotal g) {f : Nat} {start : String}
    {k : Nat} (h0 : L0.parse g inp f start k = .fail) :
    ∃ c, L1.parse g inp f start k = .done false c [] := by
  have hc := C03.parse_agrees_with_spec g inp hst f start k
  rw [h0] at hc
  revert hc
  cases L1.parse g inp f start k with
  | oof => intro hc; exact absurd hc (by simp)
  | exc e => intro hc; exact absurd hc.2 (by simp)
  | done m c ps =>
    cases m with
    | true => intro hc; obtain ⟨s1, h1, _⟩ := hc; exact absurd h1 (by simp)
    | false => intro hc; exact ⟨c, by rw [hc.2]⟩

section
variable {g g' : Grammar} {passes : List Opt.Pass}

/-- a successful interpreter run on the optimized table is a successful L0 run of the ORIGINAL
    grammar with the same pairs (tags aside) and the same end position -/
theorem opt_interp_spec (hwf : OptS.WF g) (hp : ∀ p ∈ passes, p ∈ Opt.defaultPasses)
    (h : Opt.optimize g passes = some g') (inp : Input) (fuel : Nat) (start : String)
    (hs : g.lookup start ≠ none) (k : Nat) (hk : k ≤ inp.size) (c : PState) (ps : List Pair)
    (hr : L1.parse g' inp fuel start k = .done true c ps) :
    ∃ n s, L0.parse g inp n start k = .ok s (eraseTagsL ps) ∧ s.pos = c.pos := by
  have ha := C02.opt_interp_agrees g g' passes hp hwf h start hs inp k hk fuel
  rw [hr] at ha
  obtain ⟨s, hc, hpos, _⟩ := ha
  obtain ⟨n, hn⟩ := parse_of_conv g inp hc
  exact ⟨n, s, hn n (Nat.le_refl _), hpos⟩

/-! ### 1. C06 — parse trees of the optimized modes are well-formed -/

/-- **C06, interpreter on the optimized table.**  `SkipTotal g'` is `C02.optimized_skip_total`. -/
theorem opt_interp_tree_wf (hwf : OptS.WF g) (hp : ∀ p ∈ passes, p ∈ Opt.defaultPasses)
    (h : Opt.optimize g passes = some g') (inp : Input) (fuel : Nat) (start : String) (k : Nat)
    (c : PState) (ps : List Pair) (hr : L1.parse g' inp fuel start k = .done true c ps)
    (hk : k ≤ inp.size) : C06.GoodTree g' inp start k c.pos ps :=
  C06.interp_tree_wf g' inp (C02.optimized_skip_total g g' passes hp hwf h) fuel start k c ps hr hk

/-- **C06, code generated from the optimized table.** -/
theorem opt_gen_tree_wf (hwf : OptS.WF g) (hp : ∀ p ∈ passes, p ∈ Opt.defaultPasses)
    (h : Opt.optimize g passes = some g') (inp : Input) (fuel : Nat) (start : String) (k : Nat)
    (cg : PState) (ps : List Pair) (hr : LG.parse g' inp fuel start k = .done true cg ps)
    (hk : k ≤ inp.size) : C06.GoodTree g' inp start k cg.pos ps :=
  C06.gen_tree_wf g' inp (C02.optimized_skip_total g g' passes hp hwf h) fuel start k cg ps hr hk

/-- name of a non-silent rule of the table of `g`, or `EOI` -/
def OrigName (g : Grammar) (nm : String) : Prop :=
  (∃ r ∈ g.rules, r.name = nm ∧ hasBit r.mod SILENT = false) ∨ nm = "EOI"

/-- a property of all nodes of all rule bodies holds of every syntactic sub-expression -/
theorem allN_of_sub {g : Grammar} {P : Expr → Prop} (hb : ∀ r ∈ g.rules, AllN P r.body)
    (h0 : P (.seq [])) {x : Expr} (hx : Sub g (.seq []) x) : AllN P x := by
  induction hx with
  | root => exact ⟨h0, trivial⟩
  | body hr => exact hb _ hr
  | seq _ hm ih => exact AllNL.mem ih.2 _ hm
  | choice _ hm ih => exact AllNL.mem ih.2 _ hm
  | opt _ ih => exact ih.2
  | rep _ ih => exact ih.2
  | rep1 _ ih => exact ih.2
  | repExact _ ih => exact ih.2
  | repMin _ ih => exact ih.2
  | repMax _ ih => exact ih.2
  | repMinMax _ ih => exact ih.2
  | andP _ ih => exact ih.2
  | notP _ ih => exact ih.2
  | group _ ih => exact ih.2
  | push _ ih => exact ih.2
  | rule _ ih => exact ih.2

/-- what `C06.GNameOK g nm` ("`nm` names a non-silent rule of the table, or a non-silent rule object
    embedded in a rule body") comes to under `OptS.WF g`: the only non-silent embedded rule object
    is `EOI` (`NodeOK`) -/
theorem gNameOK_orig (hwf : OptS.WF g) {nm : String} (hn : C06.GNameOK g nm) : OrigName g nm := by
  rcases hn with hn | ⟨mod, sm, body, hr, hS⟩
  · exact Or.inl hn
  · have ha : AllN (NodeOK (sigOf g)) (.rule nm mod sm body) :=
      allN_of_sub hwf.nodes trivial hr.rule_sub
    have hnode : NodeOK (sigOf g) (.rule nm mod sm body) := ha.1
    by_cases he : nm = "EOI"
    · exact Or.inr he
    · have := hnode.2.2.2.2.2.1 he
      rw [hS] at this
      cases this

/-- **Names, against the original grammar** (interpreter on the optimized table): every pair at
    every depth carries a name `C06.GNameOK g` accepts — hence the name of a non-silent rule of
    the table of `g`, or `EOI`.  (Not via the rule table of `g'`: the pairs *are* the pairs of an
    L0 run of `g`, by C02.) -/
theorem opt_interp_names (hwf : OptS.WF g) (hp : ∀ p ∈ passes, p ∈ Opt.defaultPasses)
    (h : Opt.optimize g passes = some g') (inp : Input) (fuel : Nat) (start : String)
    (hs : g.lookup start ≠ none) (k : Nat) (hk : k ≤ inp.size) (c : PState) (ps : List Pair)
    (hr : L1.parse g' inp fuel start k = .done true c ps) :
    AllPairs (fun p => C06.GNameOK g p.name) ps ∧ AllPairs (fun p => OrigName g p.name) ps := by
  obtain ⟨n, s, h0, _⟩ := opt_interp_spec hwf hp h inp fuel start hs k hk c ps hr
  have h1 : AllPairs (fun p => C06.GNameOK g p.name) ps := by
    refine AllPairs.of_erase ?_ (L0.parse_names_are_rules inp h0 (.seq [])) ps rfl
    intro p hp'
    rw [C06.eraseTags_name] at hp'; exact hp'
  exact ⟨h1, h1.mono fun p hp' => gNameOK_orig hwf hp'⟩

/-- the same for code generated from the optimized table -/
theorem opt_gen_names (hwf : OptS.WF g) (hp : ∀ p ∈ passes, p ∈ Opt.defaultPasses)
    (h : Opt.optimize g passes = some g') (inp : Input) (fuel : Nat) (start : String)
    (hs : g.lookup start ≠ none) (k : Nat) (hk : k ≤ inp.size) (cg : PState) (ps : List Pair)
    (hr : LG.parse g' inp fuel start k = .done true cg ps) :
    AllPairs (fun p => C06.GNameOK g p.name) ps ∧ AllPairs (fun p => OrigName g p.name) ps := by
  obtain ⟨c1, h1, _⟩ := C06.gen_same_tree g' inp (C02.optimized_skip_total g g' passes hp hwf h)
    fuel start k cg ps hr
  exact opt_interp_names hwf hp h inp fuel start hs k hk c1 ps h1

/-- in particular the fused trivia rule never names a pair (when `g` has no rule `SKIP` of its own) -/
theorem opt_interp_no_skip_pair (hwf : OptS.WF g) (hp : ∀ p ∈ passes, p ∈ Opt.defaultPasses)
    (h : Opt.optimize g passes = some g') (hns : g.lookup "SKIP" = none) (inp : Input) (fuel : Nat)
    (start : String) (hs : g.lookup start ≠ none) (k : Nat) (hk : k ≤ inp.size) (c : PState)
    (ps : List Pair) (hr : L1.parse g' inp fuel start k = .done true c ps) :
    ∀ p ∈ flattenL ps, p.name ≠ "SKIP" := by
  intro p hp' he
  have hn := (opt_interp_names hwf hp h inp fuel start hs k hk c ps hr).2.flatten p hp'
  rw [he] at hn
  rcases hn with ⟨r, hr', hnm, _⟩ | hn
  · unfold Grammar.lookup at hns
    rw [List.find?_eq_none] at hns
    exact hns r hr' (by simp [hnm])
  · exact absurd hn (by decide)

/-- **One root pair, against the original grammar**: a start rule that is non-silent *in `g`*
    yields one root pair with that rule's name and modifier, spanning `[k, end]` -/
theorem opt_interp_root_single (hwf : OptS.WF g) (hp : ∀ p ∈ passes, p ∈ Opt.defaultPasses)
    (h : Opt.optimize g passes = some g') (inp : Input) (fuel : Nat) (start : String) (k : Nat)
    (hk : k ≤ inp.size) (c : PState) (ps : List Pair) (r : Rule) (hl : g.lookup start = some r)
    (hS : hasBit r.mod SILENT = false) (hr : L1.parse g' inp fuel start k = .done true c ps) :
    ∃ ch t, ps = [.mk r.name r.mod k c.pos ch t] := by
  obtain ⟨n, s, h0, hpos⟩ := opt_interp_spec hwf hp h inp fuel start (by rw [hl]; simp) k hk c ps hr
  obtain ⟨ch, hch⟩ := L0.root_single hl hS h0
  obtain ⟨ch', t', rest', rfl, _, hrest, _⟩ := eraseTagsL_eq_cons hch
  rw [eraseTagsL_eq_nil hrest, hpos]
  exact ⟨ch', t', rfl⟩

theorem opt_gen_root_single (hwf : OptS.WF g) (hp : ∀ p ∈ passes, p ∈ Opt.defaultPasses)
    (h : Opt.optimize g passes = some g') (inp : Input) (fuel : Nat) (start : String) (k : Nat)
    (hk : k ≤ inp.size) (cg : PState) (ps : List Pair) (r : Rule) (hl : g.lookup start = some r)
    (hS : hasBit r.mod SILENT = false) (hr : LG.parse g' inp fuel start k = .done true cg ps) :
    ∃ ch t, ps = [.mk r.name r.mod k cg.pos ch t] := by
  obtain ⟨c1, h1, hpos⟩ := C06.gen_same_tree g' inp (C02.optimized_skip_total g g' passes hp hwf h)
    fuel start k cg ps hr
  rw [hpos]
  exact opt_interp_root_single hwf hp h inp fuel start k hk c1 ps r hl hS h1

/-! ### 2. C16 — shift invariance and no look-behind for the optimized modes -/

/-- the optimized table of an SOI-free grammar is SOI-free -/
theorem opt_soiFree (hwf : OptS.WF g) (hp : ∀ p ∈ passes, p ∈ Opt.defaultPasses)
    (h : Opt.optimize g passes = some g') (hsoi : soiFreeG g = true) : SOIFree g' :=
  (soiFreeG_iff g').1 (C02.optimizer_keeps_soiFree g g' passes hp hwf h hsoi)

/-- **C16, interpreter on the optimized table** -/
theorem opt_parse_shift (hwf : OptS.WF g) (hp : ∀ p ∈ passes, p ∈ Opt.defaultPasses)
    (h : Opt.optimize g passes = some g') (hsoi : soiFreeG g = true) (inp : Input) {k : Nat}
    (hk : k ≤ inp.size) (fuel : Nat) (start : String) :
    match L1.parse g' (inp.extract k inp.size) fuel start 0 with
    | .oof => L1.parse g' inp fuel start k = .oof
    | .exc e => L1.parse g' inp fuel start k = .exc e
    | .done true c' ps' =>
      ∃ c, L1.parse g' inp fuel start k = .done true c (shiftL k ps') ∧ c.pos = c'.pos + k
    | .done false c' ps' =>
      ∃ c, L1.parse g' inp fuel start k = .done false c (shiftL k ps') ∧
        ((c.fpos = -1 ∧ c'.fpos = -1) ∨ (0 ≤ c'.fpos ∧ c.fpos = c'.fpos + k)) ∧
        c.fexp = c'.fexp ∧ c.funexp = c'.funexp ∧ c.fstack = c'.fstack :=
  C16.parse_shift g' inp (opt_soiFree hwf hp h hsoi) hk fuel start

/-- **C16, code generated from the optimized table** -/
theorem opt_gen_parse_shift (hwf : OptS.WF g) (hp : ∀ p ∈ passes, p ∈ Opt.defaultPasses)
    (h : Opt.optimize g passes = some g') (hsoi : soiFreeG g = true) (inp : Input) {k : Nat}
    (hk : k ≤ inp.size) (fuel : Nat) (start : String) :
    match LG.parse g' (inp.extract k inp.size) fuel start 0 with
    | .oof => LG.parse g' inp fuel start k = .oof
    | .exc e => LG.parse g' inp fuel start k = .exc e
    | .done true c' ps' =>
      ∃ c, LG.parse g' inp fuel start k = .done true c (shiftL k ps') ∧ c.pos = c'.pos + k
    | .done false c' ps' =>
      ∃ c, LG.parse g' inp fuel start k = .done false c (shiftL k ps') ∧
        ((c.fpos = -1 ∧ c'.fpos = -1) ∨ (0 ≤ c'.fpos ∧ c.fpos = c'.fpos + k)) ∧
        c.fexp = c'.fexp ∧ c.funexp = c'.funexp ∧ c.fstack = c'.fstack :=
  C16.gen_parse_shift g' inp (opt_soiFree hwf hp h hsoi) hk fuel start

/-- **No look-behind, optimized modes**: texts that agree from `k` on give identical results -/
theorem opt_no_lookbehind (hwf : OptS.WF g) (hp : ∀ p ∈ passes, p ∈ Opt.defaultPasses)
    (h : Opt.optimize g passes = some g') (hsoi : soiFreeG g = true) (inp₁ inp₂ : Input) {k : Nat}
    (h₁ : k ≤ inp₁.size) (h₂ : k ≤ inp₂.size)
    (hsuf : inp₁.extract k inp₁.size = inp₂.extract k inp₂.size) (fuel : Nat) (start : String) :
    L1.parse g' inp₁ fuel start k = L1.parse g' inp₂ fuel start k :=
  C16.no_lookbehind g' (opt_soiFree hwf hp h hsoi) inp₁ inp₂ h₁ h₂ hsuf fuel start

theorem opt_gen_no_lookbehind (hwf : OptS.WF g) (hp : ∀ p ∈ passes, p ∈ Opt.defaultPasses)
    (h : Opt.optimize g passes = some g') (hsoi : soiFreeG g = true) (inp₁ inp₂ : Input) {k : Nat}
    (h₁ : k ≤ inp₁.size) (h₂ : k ≤ inp₂.size)
    (hsuf : inp₁.extract k inp₁.size = inp₂.extract k inp₂.size) (fuel : Nat) (start : String) :
    LG.parse g' inp₁ fuel start k = LG.parse g' inp₂ fuel start k :=
  C16.gen_no_lookbehind g' (opt_soiFree hwf hp h hsoi) inp₁ inp₂ h₁ h₂ hsuf fuel start

/-! ### 3. C07 — the optimized modes terminate and answer `Pairs` / `PestParsingError` -/

/-- **Termination of the specification on the optimized table**, from well-formedness of the
    ORIGINAL grammar: `C07.parse_terminates` for `g`, carried over by
    `C02.optimizer_preserves_termination`. -/
theorem opt_parse_terminates (hwf : OptS.WF g) (hp : ∀ p ∈ passes, p ∈ Opt.defaultPasses)
    (h : Opt.optimize g passes = some g') (hwfg : Pest.WF.wellFormed g = true) (inp : Input)
    (start : String) (hs : g.lookup start ≠ none) (k : Nat) (hk : k ≤ inp.size) :
    ∃ n, L0.run g' inp n (.ident start none) ⟨k, [], false⟩ ≠ .oof :=
  (C02.optimizer_preserves_termination g g' passes hp hwf h start hs inp k hk).1
    (C07.parse_terminates g inp hwfg start k hk)

/-- **The interpreter on the optimized table terminates and returns `Pairs` or raises
    `PestParsingError`** — the stable form: there is a recursion budget from which on
    `Parser.parse` answers `.done` (never `.oof`, never an exception). -/
theorem opt_interp_terminates (hwf : OptS.WF g) (hp : ∀ p ∈ passes, p ∈ Opt.defaultPasses)
    (h : Opt.optimize g passes = some g') (hwfg : Pest.WF.wellFormed g = true) (inp : Input)
    (start : String) (hs : g.lookup start ≠ none) (k : Nat) (hk : k ≤ inp.size) :
    ∃ n, ∀ fuel, n ≤ fuel → ∃ m c ps, L1.parse g' inp fuel start k = .done m c ps := by
  obtain ⟨n, hn⟩ := opt_parse_terminates hwf hp h hwfg inp start hs k hk
  refine ⟨n, fun fuel hf => ?_⟩
  have hst := C02.optimized_skip_total g g' passes hp hwf h
  have h0 : L0.parse g' inp fuel start k ≠ .oof := by
    rw [C02.parse_eq_run, L0.run_mono g' inp (by omega : n ≤ fuel + 1) _ _ hn]; exact hn
  have hag := C03.parse_agrees_with_spec g' inp hst fuel start k
  have hop := C02.opt_interp_agrees g g' passes hp hwf h start hs inp k hk fuel
  revert hag hop
  cases L1.parse g' inp fuel start k with
  | oof => intro hag _; exact absurd hag h0
  | exc e =>
    intro _ hop
    obtain ⟨m, hm, _⟩ := hop.2
    cases m with
    | zero => exact absurd hm (by simp [L0.run])
    | succ m =>
      rw [← C02.parse_eq_run] at hm
      exact absurd hm (C07.parse_no_stuck g inp (C07.closed_of_wellFormed hwfg) start
        (Option.isSome_iff_ne_none.2 hs) m k)
  | done m c ps => intro _ _; exact ⟨m, c, ps, rfl⟩

/-- the weaker reading asked for: from some fuel on the answer is not `.oof` -/
theorem opt_interp_answers (hwf : OptS.WF g) (hp : ∀ p ∈ passes, p ∈ Opt.defaultPasses)
    (h : Opt.optimize g passes = some g') (hwfg : Pest.WF.wellFormed g = true) (inp : Input)
    (start : String) (hs : g.lookup start ≠ none) (k : Nat) (hk : k ≤ inp.size) :
    ∃ n, ∀ fuel, n ≤ fuel → L1.parse g' inp fuel start k ≠ .oof := by
  obtain ⟨n, hn⟩ := opt_interp_terminates hwf hp h hwfg inp start hs k hk
  refine ⟨n, fun fuel hf => ?_⟩
  obtain ⟨m, c, ps, e⟩ := hn fuel hf
  rw [e]; simp

/-- **Code generated from the optimized table** answers from the same budget on: never `.oof`;
    `.done` with exactly the interpreter's verdict / pairs / furthest-failure position, or one of
    the exceptions C01 cannot exclude without a shape hypothesis on the table the generator is
    given (see `opt_parse_total`). -/
theorem opt_gen_answers (hwf : OptS.WF g) (hp : ∀ p ∈ passes, p ∈ Opt.defaultPasses)
    (h : Opt.optimize g passes = some g') (hwfg : Pest.WF.wellFormed g = true) (inp : Input)
    (start : String) (hs : g.lookup start ≠ none) (k : Nat) (hk : k ≤ inp.size) :
    ∃ n, ∀ fuel, n ≤ fuel →
      match LG.parse g' inp fuel start k with
      | .oof => False
      | .exc e => benign e = true ∨ e = .keyError
      | .done true cg ps => ∃ c1, L1.parse g' inp fuel start k = .done true c1 ps ∧ cg.pos = c1.pos
      | .done false cg _ =>
        ∃ c1 ps1, L1.parse g' inp fuel start k = .done false c1 ps1 ∧ cg.fpos = c1.fpos := by
  obtain ⟨n, hn⟩ := opt_interp_terminates hwf hp h hwfg inp start hs k hk
  refine ⟨n, fun fuel hf => ?_⟩
  obtain ⟨m, c, ps, e⟩ := hn fuel hf
  have hgen := C01.generated_parse_eq g' inp (C02.optimized_skip_total g g' passes hp hwf h) fuel start k
  revert hgen
  cases LG.parse g' inp fuel start k with
  | oof => intro hgen; rw [e] at hgen; cases hgen
  | exc x => exact id
  | done mg cg psg => cases mg <;> exact id

/-- **C07 for both optimized modes.**  The generated half needs the shape hypothesis of C07 on the
    table the generator is given, `GenShape g'`, and a generated function for the start rule,
    `callable g' start` — both decidable (`genShapeB`, `callable`), still checked per grammar:

    -- OPEN  (what would remove the two hypotheses on `g'`)
    --   theorem optimizer_keeps_genShape (hwf : OptS.WF g) (hp : ∀ p ∈ passes, p ∈ Opt.defaultPasses)
    --       (h : Opt.optimize g passes = some g') (hg : C07.GenShape g) : C07.GenShape g'
    --   theorem optimizer_keeps_callable … (hc : C07.callable g start = true) : C07.callable g' start = true
    -- `shapeOk` is kept by every rewrite of `TR` (a `Kept Fall` argument like `soi_kept`), but
    -- `callable` reads `Rule.kind`, which `optimize_sig` (names and modifiers only) does not speak
    -- of; a lemma "`optimize` keeps `kind`, and the added `SKIP` has kind `.grammar`" is missing. -/
theorem opt_parse_total (hwf : OptS.WF g) (hp : ∀ p ∈ passes, p ∈ Opt.defaultPasses)
    (h : Opt.optimize g passes = some g') (hwfg : Pest.WF.wellFormed g = true)
    (hg' : C07.GenShape g') (inp : Input) (start : String) (hs : g.lookup start ≠ none)
    (hst : C07.callable g' start = true) (k : Nat) (hk : k ≤ inp.size) :
    ∃ n, ∀ fuel, n ≤ fuel →
      (∃ m c ps, L1.parse g' inp fuel start k = .done m c ps) ∧
      (∃ m c ps, LG.parse g' inp fuel start k = .done m c ps) := by
  obtain ⟨n, hn⟩ := opt_interp_terminates hwf hp h hwfg inp start hs k hk
  refine ⟨n, fun fuel hf => ⟨hn fuel hf, ?_⟩⟩
  have hsk := C02.optimized_skip_total g g' passes hp hwf h
  rcases (C07.parse_never_raises g' inp hg' hsk start hst fuel k).2 with h1 | h1
  · obtain ⟨m, c, ps, e⟩ := hn fuel hf
    have := (C07.oof_together g' inp hg' hsk start hst fuel k).2.2 h1
    rw [e] at this; cases this
  · exact h1

/-! ### 4. C02 / C04 / C05 — one statement for the two optimized modes -/

/-- **Same verdict, same end position, same pairs up to tags.**  Whatever the interpreter on the
    optimized table, or code generated from it, answers (with any fuel), the interpreter on the
    ORIGINAL table answers with every sufficiently large fuel: the same verdict and — on success —
    the same end position and the same pairs, tags aside.  So every law C04 / C05 state about
    `L1.parse g` / L0 on `g` describes the results of the optimized modes. -/
theorem opt_same_verdict_and_tree (hwf : OptS.WF g) (hp : ∀ p ∈ passes, p ∈ Opt.defaultPasses)
    (h : Opt.optimize g passes = some g') (inp : Input) (start : String) (hs : g.lookup start ≠ none)
    (k : Nat) (hk : k ≤ inp.size) :
    (∀ fuel m c ps, L1.parse g' inp fuel start k = .done m c ps →
      ∃ fuel0, ∀ f, fuel0 ≤ f → ∃ c1 ps1, L1.parse g inp f start k = .done m c1 ps1 ∧
        eraseTagsL ps1 = eraseTagsL ps ∧ (m = true → c1.pos = c.pos)) ∧
    (∀ fuel m cg ps, LG.parse g' inp fuel start k = .done m cg ps →
      ∃ fuel0, ∀ f, fuel0 ≤ f → ∃ c1 ps1, L1.parse g inp f start k = .done m c1 ps1 ∧
        (m = true → eraseTagsL ps1 = eraseTagsL ps ∧ c1.pos = cg.pos)) := by
  refine ⟨fun fuel m c ps hr => C02.opt_interp_vs_plain g g' passes hp hwf h start hs inp k hk fuel m c ps hr,
    fun fuel m cg ps hr => ?_⟩
  have hgen := C01.generated_parse_eq g' inp (C02.optimized_skip_total g g' passes hp hwf h) fuel start k
  rw [hr] at hgen
  cases m with
  | true =>
    obtain ⟨c1, h1, hpos⟩ := hgen
    obtain ⟨fuel0, hf0⟩ := C02.opt_interp_vs_plain g g' passes hp hwf h start hs inp k hk fuel true c1 ps h1
    refine ⟨fuel0, fun f hf => ?_⟩
    obtain ⟨c2, ps2, e, he, hp2⟩ := hf0 f hf
    exact ⟨c2, ps2, e, fun _ => ⟨he, by rw [hp2 rfl, hpos]⟩⟩
  | false =>
    obtain ⟨c1, ps1, h1, _⟩ := hgen
    obtain ⟨fuel0, hf0⟩ := C02.opt_interp_vs_plain g g' passes hp hwf h start hs inp k hk fuel false c1 ps1 h1
    refine ⟨fuel0, fun f hf => ?_⟩
    obtain ⟨c2, ps2, e, _, _⟩ := hf0 f hf
    exact ⟨c2, ps2, e, fun hm => absurd hm (by simp)⟩

/-- **The converse for the interpreter**: whatever `L1.parse g` answers, `L1.parse g'` answers with
    every sufficiently large fuel (same verdict, end position, pairs up to tags). -/
theorem plain_vs_opt_interp (hwf : OptS.WF g) (hp : ∀ p ∈ passes, p ∈ Opt.defaultPasses)
    (h : Opt.optimize g passes = some g') (inp : Input) (start : String) (hs : g.lookup start ≠ none)
    (k : Nat) (hk : k ≤ inp.size) (fuel : Nat) (m : Bool) (c : PState) (ps : List Pair)
    (hr : L1.parse g inp fuel start k = .done m c ps) :
    ∃ fuel0, ∀ f, fuel0 ≤ f → ∃ c1 ps1, L1.parse g' inp f start k = .done m c1 ps1 ∧
      eraseTagsL ps1 = eraseTagsL ps ∧ (m = true → c1.pos = c.pos) := by
  have hst' := C02.optimized_skip_total g g' passes hp hwf h
  have hsound := C02.optimizer_sound g g' passes hp hwf h start hs inp k hk
  have hc := C03.parse_agrees_with_spec g inp (skipTotal_orig hwf) fuel start k
  rw [hr] at hc
  cases m with
  | true =>
    obtain ⟨s, h0, hpos, _⟩ := hc
    obtain ⟨n, hn⟩ := parse_of_conv g' inp ((hsound _).1 (conv_of_parse g inp h0 (by simp)))
    refine ⟨n, fun f hf => ?_⟩
    obtain ⟨c1, ps1, e, he, hp1⟩ := interp_of_spec_ok g' inp hst' (hn f hf)
    exact ⟨c1, ps1, e, he, fun _ => by rw [hp1, hpos]⟩
  | false =>
    obtain ⟨h0, hps⟩ := hc
    obtain ⟨n, hn⟩ := parse_of_conv g' inp ((hsound _).1 (conv_of_parse g inp h0 (by simp)))
    refine ⟨n, fun f hf => ?_⟩
    obtain ⟨c1, e⟩ := interp_of_spec_fail g' inp hst' (hn f hf)
    exact ⟨c1, [], e, by rw [hps], fun hm => absurd hm (by simp)⟩

/-- **Every expression, every state** (C03 ∘ C02): what the interpreter model computes on the
    optimized table for an expression of the original grammar, from any state inside the input,
    is the meaning of that expression in the ORIGINAL grammar — which is what C04 (trivia,
    modifiers) and C05 (stack) describe. -/
theorem opt_interp_run_agrees (hwf : OptS.WF g) (hp : ∀ p ∈ passes, p ∈ Opt.defaultPasses)
    (h : Opt.optimize g passes = some g') (inp : Input) (n : Nat) (e : Expr)
    (he : g.lookup "SKIP" = none → NSR e) (c : PState) (p : Pre c) (hc : c.pos ≤ inp.size) :
    match L1.run g' inp n e c with
    | .oof => True
    | .exc x => x = .keyError ∧ Conv g inp e (abs0 c) .stuck
    | .done true c' ps => Conv g inp e (abs0 c) (.ok (abs0 c') (eraseTagsL ps))
    | .done false _ ps => Conv g inp e (abs0 c) .fail ∧ ps = [] := by
  have hr := C03.interp_refines_spec g' inp (C02.optimized_skip_total g g' passes hp hwf h) n e c p
  have hsound := C02.optimizer_sound_expr g g' passes hp hwf h inp e he (abs0 c) hc
  revert hr
  cases L1.run g' inp n e c with
  | oof => intro _; trivial
  | exc x => intro hr; exact ⟨hr.1, (hsound _).2 ⟨n, hr.2, by simp⟩⟩
  | done m c' ps =>
    cases m with
    | true => intro hr; exact (hsound _).2 ⟨n, hr.1, by simp⟩
    | false => intro hr; exact ⟨(hsound _).2 ⟨n, hr.1, by simp⟩, hr.2.1⟩

/-- **C05 on the optimized table** (worked corollary, direct): a stack terminal that fails leaves
    position and stack exactly as it found them.  C05's laws are stated for every rule table under
    `SkipTotal`; `C02.optimized_skip_total` supplies it for `g'`. -/
theorem opt_failed_op_is_identity (hwf : OptS.WF g) (hp : ∀ p ∈ passes, p ∈ Opt.defaultPasses)
    (h : Opt.optimize g passes = some g') (inp : Input) (k : Nat) (rec : Sem1) (rec0 : Sem0)
    (hg : Good rec rec0) (e : Expr) (he : C05.isStackOp e = true) (c c' : PState) (ps : List Pair)
    (p : Pre c) (hf : L1.step g' inp k rec e c = .done false c' ps) :
    c'.pos = c.pos ∧ c'.ustack.items = c.ustack.items ∧ ps = [] :=
  C05.failed_op_is_identity g' inp (C02.optimized_skip_total g g' passes hp hwf h) k rec rec0 hg e he
    c c' ps p hf

theorem opt_stack_ops_never_raise (hwf : OptS.WF g) (hp : ∀ p ∈ passes, p ∈ Opt.defaultPasses)
    (h : Opt.optimize g passes = some g') (inp : Input) (k : Nat) (rec : Sem1) (rec0 : Sem0)
    (hg : Good rec rec0) (e : Expr) (he : C05.isStackOp e = true) (c : PState) (p : Pre c) :
    ∃ m c' ps, L1.step g' inp k rec e c = .done m c' ps :=
  C05.stack_ops_never_raise g' inp (C02.optimized_skip_total g g' passes hp hwf h) k rec rec0 hg e he c p

/-- **C04 on the optimized table** (worked corollary, through the L0 equivalence
    `C02.optimizer_sound_expr`): a sequence `e ~ e' ~ …` evaluated against the optimized table
    means `e`, then implicit trivia, then the rest — *of the original grammar*
    (`C04.seq_trivia_between` for `g`). -/
theorem opt_seq_trivia_between (hwf : OptS.WF g) (hp : ∀ p ∈ passes, p ∈ Opt.defaultPasses)
    (h : Opt.optimize g passes = some g') (inp : Input) (e e' : Expr) (rest : List Expr)
    (he : g.lookup "SKIP" = none → NSR (.seq (e :: e' :: rest))) (s : S0) (hs : s.pos ≤ inp.size)
    (r : R0) :
    Conv g' inp (.seq (e :: e' :: rest)) s r ↔
      r ≠ .oof ∧ ∃ n,
        (match L0.run g inp n e s with
         | .ok s1 ps =>
           (match L0.skip g (L0.run g inp n) n s1 with
            | .ok s2 tps => L0.seqL g (L0.run g inp n) n (e' :: rest) s2 (ps ++ tps)
            | .fail => L0.seqL g (L0.run g inp n) n (e' :: rest) s1 ps
            | r => r)
         | r => r) = r := by
  rw [← C02.optimizer_sound_expr g g' passes hp hwf h inp _ he s hs r]
  have key : ∀ n, L0.run g inp (n + 1) (.seq (e :: e' :: rest)) s =
      (match L0.run g inp n e s with
       | .ok s1 ps =>
         (match L0.skip g (L0.run g inp n) n s1 with
          | .ok s2 tps => L0.seqL g (L0.run g inp n) n (e' :: rest) s2 (ps ++ tps)
          | .fail => L0.seqL g (L0.run g inp n) n (e' :: rest) s1 ps
          | r => r)
       | r => r) := by
    intro n
    have := C04.seq_trivia_between g (L0.run g inp n) n e e' rest s []
    simp only [List.nil_append] at this
    exact this
  constructor
  · rintro ⟨n, hn, hne⟩
    cases n with
    | zero => exact absurd hn.symm hne
    | succ n => exact ⟨hne, n, by rw [← key]; exact hn⟩
  · rintro ⟨hne, n, hn⟩
    exact ⟨n + 1, by rw [key]; exact hn, hne⟩

/-! ### 5. C13 — failure reports of the optimized modes

  C13's theorems put no hypothesis on the rule table, so they hold of `g'` as they stand (the
  `example`s); what is added is the reading of the reported names against the ORIGINAL grammar. -/

example (inp : Input) (fuel : Nat) (start : String) (k : Nat) (c' : PState) (ps : List Pair)
    (hr : L1.parse g' inp fuel start k = .done false c' ps) (hk : k ≤ inp.size) :
    c'.fpos = -1 ∨ ((k : Int) ≤ c'.fpos ∧ c'.fpos ≤ (inp.size : Int)) :=
  C13.fpos_in_range g' inp fuel start k c' ps hr hk

example (inp : Input) (fuel : Nat) (start : String) (k : Nat) (c' : PState) (ps : List Pair)
    (hr : LG.parse g' inp fuel start k = .done false c' ps) (hk : k ≤ inp.size) :
    c'.fpos = -1 ∨ ((k : Int) ≤ c'.fpos ∧ c'.fpos ≤ (inp.size : Int)) :=
  C13.gen_fpos_in_range g' inp fuel start k c' ps hr hk

example (inp : Input) (fuel : Nat) (start : String) (k : Nat) (c' : PState) (ps : List Pair)
    (hr : L1.parse g' inp fuel start k = .done false c' ps) :
    (∀ p ∈ c'.fexp ++ c'.funexp, p.1 ∈ FailPos.knownNames g') ∧
      (∀ n ∈ c'.fstack, n ∈ FailPos.knownNames g') :=
  C13.failure_names_known g' inp fuel start k c' ps hr

example (inp : Input) (fuel : Nat) (start : String) (k : Nat) (c' : PState) (ps : List Pair)
    (hr : L1.parse g' inp fuel start k = .done false c' ps) (hk : k ≤ inp.size) :
    (LineCol.errorContext inp.toList c'.fpos).isSome = true :=
  C13.error_context_defined_on_failure g' inp fuel start k c' ps hr hk

end

/-! #### the names a failure report of an optimized mode can mention -/

section names
open FailPos

theorem namesOK_list {N : String → Prop} {es : List Expr} :
    (∀ n ∈ embNamesL es, N n) ↔ ∀ e ∈ es, namesOK N e := by
  constructor
  · intro hh e he n hn; exact hh n (mem_embNamesL.mpr ⟨e, he, hn⟩)
  · intro hh n hn
    obtain ⟨e, he, hn⟩ := mem_embNamesL.mp hn
    exact hh e he n hn

theorem namesOK_index {N : String → Prop} {es es' : List Expr} (hl : es.length = es'.length)
    (ih : ∀ i (h1 : i < es.length) (h2 : i < es'.length), namesOK N es[i] → namesOK N es'[i])
    (hh : ∀ e ∈ es, namesOK N e) : ∀ e ∈ es', namesOK N e := by
  intro e he
  obtain ⟨i, hi, rfl⟩ := List.mem_iff_getElem.mp he
  exact ih i (by omega) hi (hh _ (List.getElem_mem _))

/-- no rewrite of the optimizer embeds a rule object that was not there: "every embedded rule
    name satisfies `N`" is kept (the same induction over `TR` as `soi_kept`) -/
theorem namesOK_kept (F : Feat) (N : String → Prop) : Kept F (namesOK N) := by
  intro G a e e' h hG
  induction h with
  | term _ => exact id
  | ident => exact id
  | rule => exact id
  | ruleC _ _ ih =>
    intro hh
    have h2 := hh.rule
    intro x hx
    simp only [embNames, List.mem_cons] at hx
    rcases hx with rfl | hx
    · exact h2.1
    · exact ih h2.2 x hx
  | @seq es es' hl _ ih =>
    intro hh
    simp only [namesOK, embNames] at hh ⊢
    exact namesOK_list.mpr (namesOK_index hl ih (namesOK_list.mp hh))
  | @choice es es' hl _ ih =>
    intro hh
    simp only [namesOK, embNames] at hh ⊢
    exact namesOK_list.mpr (namesOK_index hl ih (namesOK_list.mp hh))
  | opt _ ih => intro hh; simp only [namesOK, embNames] at hh ⊢; exact ih hh
  | rep _ ih => intro hh; simp only [namesOK, embNames] at hh ⊢; exact ih hh
  | rep1 _ ih => intro hh; simp only [namesOK, embNames] at hh ⊢; exact ih hh
  | repExact _ ih => intro hh; simp only [namesOK, embNames] at hh ⊢; exact ih hh
  | repMin _ ih => intro hh; simp only [namesOK, embNames] at hh ⊢; exact ih hh
  | repMax _ ih => intro hh; simp only [namesOK, embNames] at hh ⊢; exact ih hh
  | repMinMax _ ih => intro hh; simp only [namesOK, embNames] at hh ⊢; exact ih hh
  | andP _ ih => intro hh; simp only [namesOK, embNames] at hh ⊢; exact ih hh
  | notP _ ih => intro hh; simp only [namesOK, embNames] at hh ⊢; exact ih hh
  | group _ ih => intro hh; simp only [namesOK, embNames] at hh ⊢; exact ih hh
  | push _ ih => intro hh; simp only [namesOK, embNames] at hh ⊢; exact ih hh
  | unroll1 _ ih =>
    intro hh
    have h1 := ih hh.rep1
    simp only [namesOK, embNames]
    refine namesOK_list.mpr fun x hx => ?_
    simp only [List.mem_cons, List.not_mem_nil, or_false] at hx
    rcases hx with rfl | rfl
    · exact h1
    · exact h1.mk_rep
  | unroll1g _ ih =>
    intro hh
    have h1 := ih hh.rep1
    simp only [namesOK, embNames]
    refine namesOK_list.mpr fun x hx => ?_
    simp only [List.mem_cons, List.not_mem_nil, or_false] at hx
    rcases hx with rfl | rfl
    · exact h1.group
    · exact h1.mk_rep
  | unrollExact _ ih =>
    intro hh
    have h1 := ih hh.repExact
    simp only [namesOK, embNames]
    refine namesOK_list.mpr fun x hx => ?_
    rw [List.mem_replicate] at hx
    rw [hx.2]; exact h1
  | unrollMin _ ih =>
    intro hh
    have h1 := ih hh.repMin
    simp only [namesOK, embNames]
    refine namesOK_list.mpr fun x hx => ?_
    simp only [List.mem_append, List.mem_replicate, List.mem_cons, List.not_mem_nil, or_false] at hx
    rcases hx with hx | rfl
    · rw [hx.2]; exact h1
    · exact h1.mk_rep
  | unrollMax _ ih =>
    intro hh
    have h1 := ih hh.repMax
    simp only [namesOK, embNames]
    refine namesOK_list.mpr fun x hx => ?_
    rw [List.mem_replicate] at hx
    rw [hx.2]; exact h1.mk_opt
  | unrollMinMax _ ih =>
    intro hh
    have h1 := ih hh.repMinMax
    simp only [namesOK, embNames]
    refine namesOK_list.mpr fun x hx => ?_
    simp only [List.mem_append, List.mem_replicate] at hx
    rcases hx with hx | hx
    · rw [hx.2]; exact h1
    · rw [hx.2]; exact h1.mk_opt
  | inlB _ _ _ ih => intro hh; exact ih hh.rule.2
  | inlS hl _ _ _ ih => intro _; exact ih (hG _ _ hl)
  | squash _ _ _ _ _ => intro _ x hx; simp [embNames] at hx
  | skip _ _ => intro _ x hx; simp [embNames] at hx

variable {g g' : Grammar} {passes : List Opt.Pass}

/-- **the known names of the optimized table** are known names of the original grammar, or `SKIP`:
    rule names by `C02.optimizer_keeps_signature`, embedded rule objects by `namesOK_kept` -/
theorem opt_knownNames (hwf : OptS.WF g) (hp : ∀ p ∈ passes, p ∈ Opt.defaultPasses)
    (h : Opt.optimize g passes = some g') :
    ∀ n ∈ knownNames g', n ∈ knownNames g ∨ n = "SKIP" := by
  intro n hn
  rcases (C13.mem_knownNames g').mp hn with ⟨r, hr, rfl⟩ | ⟨r, hr, hnb⟩
  · by_cases hsk : r.name = "SKIP"
    · exact Or.inr hsk
    · left
      have hl' : g'.lookup r.name ≠ none := by
        unfold Grammar.lookup
        intro hnone
        rw [List.find?_eq_none] at hnone
        exact hnone r hr (by simp)
      have hsig := C02.optimizer_keeps_signature g g' passes h r.name hsk
      cases hl : g.lookup r.name with
      | none =>
        rw [hl] at hsig
        cases hl2 : g'.lookup r.name with
        | none => exact absurd hl2 hl'
        | some r2 => rw [hl2] at hsig; cases hsig
      | some r0 =>
        have := lookup_mem_name hl
        rw [← this.2]
        exact rule_name_known this.1
  · left
    have hall := (optimize_sound hwf passes hp (namesOK_kept Fall (· ∈ knownNames g))
      (fun e he => he.mk_rep) (fun _ x hx => by simp [embNames] at hx)
      (fun r hr => rule_body_namesIn hr) h).2.2
    exact hall r hr n hnb

/-- **C13, rule names, interpreter on the optimized table**: every rule name a failure report
    lists as expected or unexpected, and every entry of the reported rule stack, is a known name
    of the ORIGINAL grammar (a rule of its table or a built-in embedded in it) — or `SKIP`. -/
theorem opt_failure_names_known (hwf : OptS.WF g) (hp : ∀ p ∈ passes, p ∈ Opt.defaultPasses)
    (h : Opt.optimize g passes = some g') (inp : Input) (fuel : Nat) (start : String) (k : Nat)
    (c' : PState) (ps : List Pair) (hr : L1.parse g' inp fuel start k = .done false c' ps) :
    (∀ p ∈ c'.fexp ++ c'.funexp, p.1 ∈ knownNames g ∨ p.1 = "SKIP") ∧
    (∀ n ∈ c'.fstack, n ∈ knownNames g ∨ n = "SKIP") := by
  have hk := C13.failure_names_known g' inp fuel start k c' ps hr
  exact ⟨fun p hp' => opt_knownNames hwf hp h _ (hk.1 p hp'),
    fun n hn => opt_knownNames hwf hp h _ (hk.2 n hn)⟩

/-- the same for code generated from the optimized table -/
theorem opt_gen_failure_names_known (hwf : OptS.WF g) (hp : ∀ p ∈ passes, p ∈ Opt.defaultPasses)
    (h : Opt.optimize g passes = some g') (inp : Input) (fuel : Nat) (start : String) (k : Nat)
    (c' : PState) (ps : List Pair) (hr : LG.parse g' inp fuel start k = .done false c' ps) :
    (∀ p ∈ c'.fexp ++ c'.funexp, p.1 ∈ knownNames g ∨ p.1 = "SKIP") ∧
    (∀ n ∈ c'.fstack, n ∈ knownNames g ∨ n = "SKIP") := by
  have hk := C13.gen_failure_names_known g' inp fuel start k c' ps hr
  exact ⟨fun p hp' => opt_knownNames hwf hp h _ (hk.1 p hp'),
    fun n hn => opt_knownNames hwf hp h _ (hk.2 n hn)⟩

end names

/-! ### Non-vacuity: `C02.demoG` (silent `WHITESPACE`, every pass and the fusion rewrite something)
    meets every hypothesis used above, and its optimized table is run in both modes -/

/-- the optimized table of `C02.demoG` -/
abbrev demoG' : Grammar := C02.optG C02.demoG

theorem demo_wf : OptS.WF C02.demoG := C02.wf_of_check (by decide +kernel)

theorem demo_opt : Opt.optimize C02.demoG Opt.defaultPasses = some demoG' := by
  have hsome : (Opt.optimize C02.demoG Opt.defaultPasses).isSome = true := by decide +kernel
  show _ = some ((Opt.optimize C02.demoG Opt.defaultPasses).getD C02.demoG)
  cases hx : Opt.optimize C02.demoG Opt.defaultPasses with
  | none => rw [hx] at hsome; cases hsome
  | some g' => rfl

example : OptS.wfCheck C02.demoG = true := by decide +kernel
example : (C02.demoG.lookup "WHITESPACE").isSome = true ∧ (demoG'.fusedSkip).isSome = true := by
  decide +kernel
example : soiFreeG C02.demoG = true := by decide +kernel
example : Pest.WF.wellFormed C02.demoG = true := by decide +kernel
example : C07.genShapeB demoG' = true ∧ C07.callable demoG' "r" = true := by decide +kernel

/-- `a 12 y  hi/!` on the optimized table, fuel 20: matched up to the `/`, one root pair `r[0,9]`
    with the child `tail`, no pair called `SKIP` -/
def demoInp : Input := #[97, 32, 49, 50, 32, 121, 32, 104, 105, 47, 33]

def demoOk (endPos : Nat) (ps : List Pair) : Bool :=
  endPos == 9 && wfForestB 0 endPos ps && (flattenL ps).map Pair.name == ["r", "tail"]

example : (match L1.parse demoG' demoInp 20 "r" 0 with
    | .done true c ps => demoOk c.pos ps | _ => false) = true := by decide +kernel
example : (match LG.parse demoG' demoInp 20 "r" 0 with
    | .done true c ps => demoOk c.pos ps | _ => false) = true := by decide +kernel
/-- … and a failing input (`b`): both optimized modes fail at 0, expecting inside `r` -/
example : (match L1.parse demoG' #[98] 20 "r" 0, LG.parse demoG' #[98] 20 "r" 0 with
    | .done false c _, .done false cg _ => c.fpos == 0 && cg.fpos == 0 && c.fstack == ["r"]
    | _, _ => false) = true := by decide +kernel

-- the theorems apply to the demo: all hypotheses are met
example (inp : Input) (fuel k : Nat) (c : PState) (ps : List Pair) (hk : k ≤ inp.size)
    (hr : L1.parse demoG' inp fuel "r" k = .done true c ps) :
    C06.GoodTree demoG' inp "r" k c.pos ps ∧ AllPairs (fun p => OrigName C02.demoG p.name) ps ∧
      (∀ p ∈ flattenL ps, p.name ≠ "SKIP") ∧ ∃ ch t, ps = [.mk "r" 0 k c.pos ch t] :=
  ⟨opt_interp_tree_wf demo_wf (fun _ hp => hp) demo_opt inp fuel "r" k c ps hr hk,
   (opt_interp_names demo_wf (fun _ hp => hp) demo_opt inp fuel "r" (by decide) k hk c ps hr).2,
   opt_interp_no_skip_pair demo_wf (fun _ hp => hp) demo_opt (by decide) inp fuel "r" (by decide) k hk c ps hr,
   opt_interp_root_single demo_wf (fun _ hp => hp) demo_opt inp fuel "r" k hk c ps
     ⟨"r", 0, .seq [.str [97], .rep1 (.ident "d" none), .opt (.ident "s" none), .ident "tail" none],
       .grammar⟩ (by rfl) (by decide) hr⟩

example (inp : Input) (k : Nat) (hk : k ≤ inp.size) :
    ∃ n, ∀ fuel, n ≤ fuel →
      (∃ m c ps, L1.parse demoG' inp fuel "r" k = .done m c ps) ∧
      (∃ m c ps, LG.parse demoG' inp fuel "r" k = .done m c ps) :=
  opt_parse_total demo_wf (fun _ hp => hp) demo_opt (by decide +kernel)
    (C07.genShape_of_genShapeB (by decide +kernel)) inp "r" (by decide) (by decide +kernel) k hk

example (inp₁ inp₂ : Input) (k : Nat) (h₁ : k ≤ inp₁.size) (h₂ : k ≤ inp₂.size)
    (hsuf : inp₁.extract k inp₁.size = inp₂.extract k inp₂.size) (fuel : Nat) :
    L1.parse demoG' inp₁ fuel "r" k = L1.parse demoG' inp₂ fuel "r" k :=
  opt_no_lookbehind demo_wf (fun _ hp => hp) demo_opt (by decide +kernel) inp₁ inp₂ h₁ h₂ hsuf fuel "r"

end AllModes
end Pest
