/-
  Props/C04.lean — property C04: "Implicit WHITESPACE/COMMENT and atomicity modifiers follow
  pest's rules".

  The placement rules are *stated* here against L0 so that they are not buried in a
  definition; that the interpreter model obeys them is the refinement theorem of C03
  (`C03.interp_refines_spec`), which holds for every grammar — in particular for those that
  define trivia rules and use the four modifiers — so C04 for the interpreted modes is its
  instance.  (The generated-code and optimizer halves are C01 and C02.)
-/
import PestModel.Props.C03
import PestModel.Props.C02
import PestModel.Props.Tables

namespace Pest
namespace C04

variable (g : Grammar) (inp : Input)

/-- the interpreter model places trivia and handles modifiers exactly as L0 does -/
theorem interp_trivia_and_modifiers (hs : SkipTotal g) (n : Nat) (e : Expr) (c : PState) (p : Pre c) :
    Rel c (L1.run g inp n e c) (L0.run g inp n e (abs0 c)) :=
  C03.interp_refines_spec g inp hs n e c p

/-- … including `parse_trivia` itself: the interpreter's loop is `(WHITESPACE | COMMENT)*`
    (or the fused SKIP rule) from the same state, leaving every checkpoint untouched -/
theorem trivia_interp_eq (hs : SkipTotal g) (n k : Nat) (c : PState) (p : Pre c) :
    RelT c (L1.parseTrivia g (L1.run g inp n) k c) (L0.skip g (L0.run g inp n) k (abs0 c)) :=
  parseTrivia_rel g (run_good g inp hs n) hs k c p

/-! ### where implicit trivia is matched -/

/-- after every element of a sequence that has a following element — whether or not that
    element then consumes anything —: `e ~ e' ~ …` is `e`, then trivia, then the rest -/
theorem seq_trivia_between (rec : Sem0) (k : Nat) (e e' : Expr) (rest : List Expr) (s : S0)
    (acc : List Pair) :
    L0.seqL g rec k (e :: e' :: rest) s acc =
      (match rec e s with
       | .ok s1 ps =>
         (match L0.skip g rec k s1 with
          | .ok s2 tps => L0.seqL g rec k (e' :: rest) s2 (acc ++ ps ++ tps)
          | .fail => L0.seqL g rec k (e' :: rest) s1 (acc ++ ps)
          | r => r)
       | r => r) := by
  simp only [L0.seqL, List.isEmpty_cons, Bool.false_eq_true, ↓reduceIte]
  cases rec e s with
  | ok s1 ps => simp only []; cases L0.skip g rec k s1 <;> rfl
  | fail => rfl
  | oof => rfl
  | stuck => rfl

/-- … and never after the last element -/
theorem seq_no_trailing_trivia (rec : Sem0) (k : Nat) (e : Expr) (s : S0) (acc : List Pair) :
    L0.seqL g rec k [e] s acc =
      (match rec e s with | .ok s1 ps => .ok s1 (acc ++ ps) | r => r) := by
  simp only [L0.seqL, List.isEmpty_nil, ↓reduceIte]
  cases rec e s <;> rfl

/-- between consecutive iterations of `e*`; trivia matched after an iteration that is not
    followed by another iteration is given back: the loop returns the state *before* it -/
theorem rep_trailing_trivia_given_back (rec : Sem0) (e : Expr) (k kk : Nat) (s s1 : S0)
    (acc tps : List Pair) (h1 : L0.skip g rec kk s = .ok s1 tps) (h2 : rec e s1 = .fail) :
    L0.repLoop g rec e (k + 1) kk false s acc = .ok s acc := by
  simp [L0.repLoop, h1, h2]

theorem rep_trivia_between (rec : Sem0) (e : Expr) (k kk : Nat) (s s1 s2 : S0)
    (acc tps ps : List Pair) (h1 : L0.skip g rec kk s = .ok s1 tps) (h2 : rec e s1 = .ok s2 ps) :
    L0.repLoop g rec e (k + 1) kk false s acc = L0.repLoop g rec e k kk false s2 (acc ++ tps ++ ps) := by
  simp [L0.repLoop, h1, h2]

/-- no trivia before the first iteration -/
theorem rep_first_no_trivia (rec : Sem0) (e : Expr) (k kk : Nat) (s : S0) (acc : List Pair) :
    L0.repLoop g rec e (k + 1) kk true s acc =
      (match rec e s with
       | .ok s2 ps => L0.repLoop g rec e k kk false s2 (acc ++ [] ++ ps)
       | .fail => .ok s acc
       | r => r) := by
  simp only [L0.repLoop, ↓reduceIte]
  cases rec e s <;> rfl

/-- `e+`, `e{n}`, `e{n,}`, `e{,n}`, `e{m,n}` place trivia exactly as their unrolled sequences -/
theorem bounded_trivia_as_unrolled (k : Nat) (rec : Sem0) (e : Expr) (m n : Nat) (s : S0) :
    L0.step g inp k rec (.rep1 e) s = L0.step g inp k rec (.seq [e, .rep e]) s ∧
    L0.step g inp k rec (.repExact e n) s = L0.step g inp k rec (.seq (List.replicate n e)) s ∧
    L0.step g inp k rec (.repMin e n) s = L0.step g inp k rec (.seq (List.replicate n e ++ [.rep e])) s ∧
    L0.step g inp k rec (.repMax e n) s = L0.step g inp k rec (.seq (List.replicate n (.opt e))) s ∧
    L0.step g inp k rec (.repMinMax e m n) s =
      L0.step g inp k rec (.seq (List.replicate m e ++ List.replicate (n - m) (.opt e))) s :=
  C03.bounded_as_unrolled g inp k rec e m n s

/-- nowhere else: the stack terminals match their entries back to back, choice / optional /
    predicates / groups add none of their own (their L0 clauses never call `skip`) -/
theorem peek_all_no_trivia (k : Nat) (rec : Sem0) (s : S0) :
    L0.step g inp k rec .peekAll s =
      (match L1.matchAll inp s.stk s.pos with | some p => .ok { s with pos := p } [] | none => .fail) ∧
    L0.step g inp k rec .popAll s =
      (match L1.matchAll inp s.stk s.pos with
       | some p => .ok { s with pos := p, stk := [] } [] | none => .fail) := ⟨rfl, rfl⟩

/-! ### atomicity -/

/-- no implicit trivia inside an atomic context -/
theorem atomic_no_trivia (rec : Sem0) (k : Nat) (s : S0) (h : s.atomic = true) :
    L0.skip g rec k s = .ok s [] := by
  simp [L0.skip, h]

/-- `@` and `$` rules, and the bodies of WHITESPACE / COMMENT, are atomic contexts; a `!` rule
    re-enables trivia; other rules inherit -/
theorem rule_atomicity (name : String) (mod : Nat) (outer : Bool) :
    (hasBit mod ATOMIC = true ∨ hasBit mod COMPOUND = true ∨ name = "WHITESPACE" ∨ name = "COMMENT" →
      L0.ruleAtomic name mod outer = true) ∧
    (hasBit mod ATOMIC = false → hasBit mod COMPOUND = false → L1.isTriviaName name = false →
      hasBit mod NONATOMIC = true → L0.ruleAtomic name mod outer = false) ∧
    (hasBit mod ATOMIC = false → hasBit mod COMPOUND = false → L1.isTriviaName name = false →
      hasBit mod NONATOMIC = false → L0.ruleAtomic name mod outer = outer) := by
  refine ⟨?_, ?_, ?_⟩
  · intro h
    rcases h with h | h | h | h <;> simp [L0.ruleAtomic, L1.isTriviaName, h]
  · intro h1 h2 h3 h4; simp [L0.ruleAtomic, h1, h2, h3, h4]
  · intro h1 h2 h3 h4; simp [L0.ruleAtomic, h1, h2, h3, h4]

/-- atomicity is restored when the rule returns -/
theorem rule_restores_atomicity (name : String) (mod : Nat) (s s' out : S0) (ps qs : List Pair)
    (h : L0.ruleWrap name mod s s' ps = .ok out qs) : out.atomic = s.atomic := by
  unfold L0.ruleWrap at h
  by_cases hS : hasBit mod SILENT = true
  · simp only [hS, ↓reduceIte, R0.ok.injEq] at h; rw [← h.1]
  · simp only [hS, Bool.false_eq_true, ↓reduceIte, R0.ok.injEq] at h; rw [← h.1]

/-! ### which pairs are visible -/

/-- an atomic rule yields a single pair whose inner pairs are hidden except those produced
    under a nested `$` or `!` rule … -/
theorem atomic_rule_single_pair (name : String) (mod : Nat) (s s' : S0) (ps : List Pair)
    (hS : hasBit mod SILENT = false) (hA : hasBit mod ATOMIC = true) :
    L0.ruleWrap name mod s s' ps =
      .ok { s' with atomic := s.atomic } [.mk name mod s.pos s'.pos (visibleList ps) none] := by
  simp [L0.ruleWrap, hS, hA]

/-- … where `visibleList` keeps exactly the sub-trees rooted at `$`/`!` pairs, hoisted, in
    order (definitional unfolding, stated for reading) -/
theorem visible_spec (n : String) (m s e : Nat) (ch : List Pair) (t : Option String) (rest : List Pair) :
    visibleList (.mk n m s e ch t :: rest) =
      (if hasBit m COMPOUND || hasBit m NONATOMIC then [.mk n m s e ch t] else visibleList ch)
        ++ visibleList rest := by
  simp [visibleList, Pair.visible]

/-- `$` and `!` rules (and normal rules) keep their inner pairs -/
theorem compound_keeps_children (name : String) (mod : Nat) (s s' : S0) (ps : List Pair)
    (hS : hasBit mod SILENT = false) (hA : hasBit mod ATOMIC = false) :
    L0.ruleWrap name mod s s' ps =
      .ok { s' with atomic := s.atomic } [.mk name mod s.pos s'.pos ps none] := by
  simp [L0.ruleWrap, hS, hA]

/-- non-silent WHITESPACE/COMMENT rules appear as pairs exactly where they matched: one
    `skip` step that matches trivia rule `r` contributes `r`'s pairs at that position -/
theorem trivia_pairs_where_matched (rec : Sem0) (ws cm : Option Rule) (k : Nat) (s s' : S0)
    (acc ps : List Pair) (h : L0.trySkip rec ws s = .matched s' ps) :
    L0.skipLoop rec ws cm (k + 1) s acc = L0.skipLoop rec ws cm k s' (acc ++ ps) := by
  simp [L0.skipLoop, h]

/-! ### Non-vacuity -/

def demoG : Grammar :=
  { rules := [⟨"r", 0, .seq [.str [97], .rep (.str [98])], .grammar⟩,
              ⟨"a", ATOMIC, .seq [.ident "n" none, .ident "c" none], .grammar⟩,
              ⟨"n", 0, .str [98], .grammar⟩,
              ⟨"c", COMPOUND, .ident "n" none, .grammar⟩,
              ⟨"WHITESPACE", SILENT, .str [32], .grammar⟩] }

example : SkipTotal demoG := by intro r h; simp [Grammar.fusedSkip, Grammar.lookup, demoG] at h

-- "a b b " : trailing space given back, r spans 0..5
example : C03.okAt0 (L0.parse demoG #[97, 32, 98, 32, 98, 32] 30 "r" 0) 5 1 = true := by decide +kernel
example : C03.okAt1 (L1.parse demoG #[97, 32, 98, 32, 98, 32] 30 "r" 0) 5 1 = true := by decide +kernel

end C04
end Pest
