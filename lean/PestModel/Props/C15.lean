/-
  Props/C15.lean — property C15:
  "Parsers are isolated, reusable and re-entrant".

  Model: `World.lean` (the process: shared built-in table, callers' rule mappings, parser
  objects, generated modules, lazy per-node caches).  What is proved, and at which
  granularity:

  * For every history of operations of the *current* tree (`WorldOp.Fixed`: new mappings,
    new parsers with any optimizer setting, `generate`, `parse`, `parseGen`, in any order,
    any number): nothing ever writes the shared built-in table (`shared_table_invariant`) or
    a rule object of a caller's mapping (`mappings_invariant`); objects once created never
    change (`parsers_frame`, `modules_frame`); hence the result of a call on any parser or
    generated module equals the result of the same call in a process that has done nothing
    but build that one parser (`history_independence`, `module_history_independence`).
  * A call writes nothing but cache flags (`parse_writes_only_caches`); a repeated call
    returns the same result whatever calls came before (`repeated_call_same_result`); two
    calls commute as state transformers and do not affect each other's result
    (`calls_commute`, `calls_do_not_interfere`) — the granularity here is the whole call.
  * `interleaving_irrelevant` is the generic lemma for a finer granularity: threads with
    disjoint private states whose only shared writes are fills of caches whose content is a
    function of the slot; a step is one atomic access (read of the shared state, private
    update, at most one fill).  Under every schedule each thread goes through exactly the
    private states it goes through alone.  The instantiation "a step of `parse()` is such a
    step" is an assumption about CPython and the code (GIL-atomic slot loads/stores; checked
    on the implementation by the write-set monitor and the thread runs of the harness), not
    a theorem.
  * `old_optimizer_breaks_isolation`: with the optimizer of the pinned commit
    (`newParserOld`) history independence fails on a three-step history — the statements
    above are not vacuous.
-/
import PestModel.World

namespace Pest
namespace C15
open World

/-! ### frame lemmas for one operation -/

theorem step_builtins (w : World) (op : WorldOp) (hf : op.Fixed) :
    (step w op).builtins = w.builtins := by
  cases op with
  | newMapping src => rfl
  | newParser m passes =>
    simp only [step]; split
    · rfl
    · split <;> rfl
  | newParserOld m passes => exact absurd hf (by simp [WorldOp.Fixed])
  | generate p => simp only [step]; split <;> rfl
  | parse p a => simp only [step]; split <;> rfl
  | parseGen m a => rfl

theorem step_usets (w : World) (op : WorldOp) (hf : op.Fixed) :
    (step w op).usets = w.usets := by
  cases op with
  | newMapping src => rfl
  | newParser m passes =>
    simp only [step]; split
    · rfl
    · split <;> rfl
  | newParserOld m passes => exact absurd hf (by simp [WorldOp.Fixed])
  | generate p => simp only [step]; split <;> rfl
  | parse p a => simp only [step]; split <;> rfl
  | parseGen m a => rfl

theorem step_mappings (w : World) (op : WorldOp) (hf : op.Fixed) :
    ∃ extra, (step w op).mappings = w.mappings ++ extra := by
  cases op with
  | newMapping src => exact ⟨[src], rfl⟩
  | newParser m passes =>
    simp only [step]; split
    · exact ⟨[], by simp⟩
    · split <;> exact ⟨[], by simp⟩
  | newParserOld m passes => exact absurd hf (by simp [WorldOp.Fixed])
  | generate p => simp only [step]; split <;> exact ⟨[], by simp⟩
  | parse p a => simp only [step]; split <;> exact ⟨[], by simp⟩
  | parseGen m a => exact ⟨[], by simp [step]⟩

theorem step_parsers (w : World) (op : WorldOp) (hf : op.Fixed) :
    ∃ extra, (step w op).parsers = w.parsers ++ extra := by
  cases op with
  | newMapping src => exact ⟨[], by simp [step]⟩
  | newParser m passes =>
    simp only [step]; split
    · exact ⟨[], by simp⟩
    · split
      · exact ⟨[], by simp⟩
      · exact ⟨_, rfl⟩
  | newParserOld m passes => exact absurd hf (by simp [WorldOp.Fixed])
  | generate p => simp only [step]; split <;> exact ⟨[], by simp⟩
  | parse p a => simp only [step]; split <;> exact ⟨[], by simp⟩
  | parseGen m a => exact ⟨[], by simp [step]⟩

theorem step_modules (w : World) (op : WorldOp) (hf : op.Fixed) :
    ∃ extra, (step w op).modules = w.modules ++ extra := by
  cases op with
  | newMapping src => exact ⟨[], by simp [step]⟩
  | newParser m passes =>
    simp only [step]; split
    · exact ⟨[], by simp⟩
    · split <;> exact ⟨[], by simp⟩
  | newParserOld m passes => exact absurd hf (by simp [WorldOp.Fixed])
  | generate p =>
    simp only [step]; split
    · exact ⟨[], by simp⟩
    · exact ⟨_, rfl⟩
  | parse p a => simp only [step]; split <;> exact ⟨[], by simp⟩
  | parseGen m a => exact ⟨[], by simp [step]⟩

/-- **Creating a parser writes nothing but the new object**: whatever the optimizer setting,
    `Parser(...)` leaves the shared table, the caller's mapping, every existing parser and
    module and the caches exactly as they were. -/
theorem newParser_frame (w : World) (m : Nat) (passes : Option (List Opt.Pass)) :
    ∃ extra, step w (.newParser m passes) = { w with parsers := w.parsers ++ extra } := by
  simp only [step]; split
  · exact ⟨[], by simp⟩
  · split
    · exact ⟨[], by simp⟩
    · exact ⟨_, rfl⟩

/-- `generate()` adds the module and fills caches (it unrolls the bounded repetitions), nothing else -/
theorem generate_frame (w : World) (p : Nat) :
    ∃ extra f, step w (.generate p) = { w with modules := w.modules ++ extra, filled := f } := by
  simp only [step]; split
  · exact ⟨[], w.filled, by simp⟩
  · exact ⟨_, _, rfl⟩

theorem getElem?_append_some {α} (l extra : List α) (i : Nat) (x : α) (h : l[i]? = some x) :
    (l ++ extra)[i]? = some x := by
  have hi : i < l.length := by
    rcases Nat.lt_or_ge i l.length with hlt | hge
    · exact hlt
    · rw [List.getElem?_eq_none hge] at h; cases h
  rw [List.getElem?_append_left hi]; exact h

/-! ### histories -/

/-- a history of operations of the current tree -/
def FixedH (h : List WorldOp) : Prop := ∀ op ∈ h, op.Fixed

theorem run_cons (w : World) (op : WorldOp) (h : List WorldOp) :
    run w (op :: h) = run (step w op) h := rfl

/-- **The shared built-in table is never written.**  After any history of operations of
    the current tree — parsers created with any optimizer setting, modules generated, calls
    made — `Parser.BUILTIN` holds what it held when the process started. -/
theorem shared_table_invariant (w0 : World) (h : List WorldOp) (hf : FixedH h) :
    (run w0 h).builtins = w0.builtins := by
  induction h generalizing w0 with
  | nil => rfl
  | cons op h ih =>
    rw [run_cons, ih (step w0 op) (fun o ho => hf o (List.mem_cons_of_mem _ ho)),
        step_builtins w0 op (hf op List.mem_cons_self)]

/-- the statement in the form of the design note: histories from a fresh process -/
theorem shared_table_invariant_init (bt : List Rule) (us) (h : List WorldOp) (hf : FixedH h) :
    (run (init bt us) h).builtins = (init bt us).builtins :=
  shared_table_invariant _ h hf

theorem usets_invariant (w0 : World) (h : List WorldOp) (hf : FixedH h) :
    (run w0 h).usets = w0.usets := by
  induction h generalizing w0 with
  | nil => rfl
  | cons op h ih =>
    rw [run_cons, ih (step w0 op) (fun o ho => hf o (List.mem_cons_of_mem _ ho)),
        step_usets w0 op (hf op List.mem_cons_self)]

/-- **A caller's rule objects are never written**: the mapping a parser was built from holds
    the same rules after any history (so a second parser built from it — optimized or not —
    starts from what the front end produced, and an earlier one is not disturbed). -/
theorem mappings_invariant (w0 : World) (h : List WorldOp) (hf : FixedH h) (m : Nat) (src : List Rule)
    (hm : w0.mappings[m]? = some src) : (run w0 h).mappings[m]? = some src := by
  induction h generalizing w0 with
  | nil => exact hm
  | cons op h ih =>
    rw [run_cons]
    apply ih (step w0 op) (fun o ho => hf o (List.mem_cons_of_mem _ ho))
    obtain ⟨extra, he⟩ := step_mappings w0 op (hf op List.mem_cons_self)
    rw [he]; exact getElem?_append_some _ _ _ _ hm

/-- a parser object, once created, is never modified by later operations -/
theorem parsers_frame (w0 : World) (h : List WorldOp) (hf : FixedH h) (p : Nat) (P : ParserObj)
    (hp : w0.parsers[p]? = some P) : (run w0 h).parsers[p]? = some P := by
  induction h generalizing w0 with
  | nil => exact hp
  | cons op h ih =>
    rw [run_cons]
    apply ih (step w0 op) (fun o ho => hf o (List.mem_cons_of_mem _ ho))
    obtain ⟨extra, he⟩ := step_parsers w0 op (hf op List.mem_cons_self)
    rw [he]; exact getElem?_append_some _ _ _ _ hp

/-- a generated module, once created, is never modified by later operations -/
theorem modules_frame (w0 : World) (h : List WorldOp) (hf : FixedH h) (i : Nat) (M : ModuleObj)
    (hi : w0.modules[i]? = some M) : (run w0 h).modules[i]? = some M := by
  induction h generalizing w0 with
  | nil => exact hi
  | cons op h ih =>
    rw [run_cons]
    apply ih (step w0 op) (fun o ho => hf o (List.mem_cons_of_mem _ ho))
    obtain ⟨extra, he⟩ := step_modules w0 op (hf op List.mem_cons_self)
    rw [he]; exact getElem?_append_some _ _ _ _ hi

/-! ### the invariant behind history independence -/

/-- every object in the world is what its constructor makes of (shared table at process
    start, content of its mapping, optimizer setting) — nothing else went into it -/
structure Inv (bt : List Rule) (us : List (String × List (Nat × Nat))) (w : World) : Prop where
  hbt : w.builtins = bt
  hus : w.usets = us
  hparsers : ∀ (p : Nat) (P : ParserObj), w.parsers[p]? = some P →
    ∃ src, w.mappings[P.mapping]? = some src ∧ mkTable bt us src P.passes = some P.table
  hmodules : ∀ (i : Nat) (M : ModuleObj), w.modules[i]? = some M →
    ∃ src t, w.mappings[M.mapping]? = some src ∧ mkTable bt us src M.passes = some t ∧
      M.rules = viewIn bt src t

theorem inv_init (bt : List Rule) (us) : Inv bt us (init bt us) :=
  ⟨rfl, rfl, by intro p P h; simp [init] at h, by intro i M h; simp [init] at h⟩

theorem getElem?_append_singleton_cases {α} (l : List α) (x y : α) (i : Nat)
    (h : (l ++ [x])[i]? = some y) : l[i]? = some y ∨ (i = l.length ∧ y = x) := by
  rcases Nat.lt_or_ge i l.length with hlt | hge
  · rw [List.getElem?_append_left hlt] at h; exact Or.inl h
  · rw [List.getElem?_append_right hge] at h
    rcases Nat.eq_or_lt_of_le hge with heq | hlt
    · right
      have : i - l.length = 0 := by omega
      rw [this] at h; simp at h
      exact ⟨heq.symm, h.symm⟩
    · have : i - l.length ≥ 1 := by omega
      rw [List.getElem?_eq_none (by simpa using this)] at h; cases h

theorem inv_step (bt : List Rule) (us) (w : World) (op : WorldOp) (hf : op.Fixed)
    (hi : Inv bt us w) : Inv bt us (step w op) := by
  obtain ⟨hbt, hus, hps, hms⟩ := hi
  cases op with
  | newMapping src =>
    refine ⟨hbt, hus, ?_, ?_⟩
    · intro p P h
      obtain ⟨s, h1, h2⟩ := hps p P h
      exact ⟨s, getElem?_append_some _ _ _ _ h1, h2⟩
    · intro i M h
      obtain ⟨s, t, h1, h2, h3⟩ := hms i M h
      exact ⟨s, t, getElem?_append_some _ _ _ _ h1, h2, h3⟩
  | newParser m passes =>
    simp only [step]
    split
    · exact ⟨hbt, hus, hps, hms⟩
    · rename_i src hsrc
      split
      · exact ⟨hbt, hus, hps, hms⟩
      · rename_i t ht
        refine ⟨hbt, hus, ?_, hms⟩
        intro p P h
        rcases getElem?_append_singleton_cases _ _ _ _ h with h' | ⟨_, rfl⟩
        · exact hps p P h'
        · exact ⟨src, hsrc, by rw [← hbt, ← hus]; exact ht⟩
  | newParserOld m passes => exact absurd hf (by simp [WorldOp.Fixed])
  | generate p =>
    simp only [step]
    split
    · exact ⟨hbt, hus, hps, hms⟩
    · rename_i P hP
      refine ⟨hbt, hus, hps, ?_⟩
      intro i M h
      rcases getElem?_append_singleton_cases _ _ _ _ h with h' | ⟨_, rfl⟩
      · exact hms i M h'
      · obtain ⟨src, h1, h2⟩ := hps p P hP
        exact ⟨src, P.table, h1, h2, by simp [World.view, World.srcOf, h1, hbt]⟩
  | parse p a =>
    simp only [step]
    split <;> exact ⟨hbt, hus, hps, hms⟩
  | parseGen m a => exact ⟨hbt, hus, hps, hms⟩

theorem inv_run (bt : List Rule) (us) (w : World) (h : List WorldOp) (hf : FixedH h)
    (hi : Inv bt us w) : Inv bt us (run w h) := by
  induction h generalizing w with
  | nil => exact hi
  | cons op h ih =>
    rw [run_cons]
    exact ih _ (fun o ho => hf o (List.mem_cons_of_mem _ ho))
      (inv_step bt us w op (hf op List.mem_cons_self) hi)

/-! ### history independence -/

theorem isolatedParse_eq (bt : List Rule) (us) (src : List Rule) (passes) (t : List Entry)
    (ht : mkTable bt us src passes = some t) (a : Args) :
    isolatedParse bt us src passes a =
      L1.parse { rules := viewIn bt src t, usets := us } a.inp a.fuel a.rule a.k := by
  simp [isolatedParse, run, step, init, ht, parseResult, World.view, World.srcOf]

theorem isolatedParseGen_eq (bt : List Rule) (us) (src : List Rule) (passes) (t : List Entry)
    (ht : mkTable bt us src passes = some t) (a : Args) :
    isolatedParseGen bt us src passes a =
      LG.parse { rules := viewIn bt src t, usets := us } a.inp a.fuel a.rule a.k := by
  simp [isolatedParseGen, run, step, init, ht, parseGenResult, World.view, World.srcOf]

/-- **History independence.**  Take any history `h` of operations of the current tree,
    started in a fresh process, and any parser object `p` alive after it; let `src` be the
    content of the mapping it was built from and `P.passes` its optimizer setting.  Then
    every call `parse(rule, inp, start_pos=k)` on it returns exactly what the same call
    returns in a process that has done nothing but load that grammar and build that parser.
    (Other parsers — of the same or other grammars, optimized differently —, generated
    modules and earlier successful or failed calls are all part of `h`.) -/
theorem history_independence (bt : List Rule) (us) (h : List WorldOp) (hf : FixedH h)
    (p : Nat) (P : ParserObj) (src : List Rule)
    (hp : (run (init bt us) h).parsers[p]? = some P)
    (hs : (run (init bt us) h).mappings[P.mapping]? = some src) (a : Args) :
    parseResult (run (init bt us) h) p a = isolatedParse bt us src P.passes a := by
  have hi := inv_run bt us _ h hf (inv_init bt us)
  obtain ⟨src', h1, h2⟩ := hi.hparsers p P hp
  have : src' = src := by rw [h1] at hs; exact Option.some.inj hs
  subst this
  rw [isolatedParse_eq bt us src' P.passes P.table h2]
  simp [parseResult, hp, World.view, World.srcOf, h1, hi.hbt, hi.hus]

/-- **History independence for generated modules**: a module generated at any point of any
    history answers every call like a module generated in a process that has done nothing
    but load the grammar, build the parser with that optimizer setting and generate. -/
theorem module_history_independence (bt : List Rule) (us) (h : List WorldOp) (hf : FixedH h)
    (i : Nat) (M : ModuleObj) (src : List Rule)
    (hm : (run (init bt us) h).modules[i]? = some M)
    (hs : (run (init bt us) h).mappings[M.mapping]? = some src) (a : Args) :
    parseGenResult (run (init bt us) h) i a = isolatedParseGen bt us src M.passes a := by
  have hi := inv_run bt us _ h hf (inv_init bt us)
  obtain ⟨src', t, h1, h2, h3⟩ := hi.hmodules i M hm
  have : src' = src := by rw [h1] at hs; exact Option.some.inj hs
  subst this
  rw [isolatedParseGen_eq bt us src' M.passes t h2]
  simp [parseGenResult, hm, h3, hi.hus]

/-- two parser objects with the same grammar and optimizer setting — in the same process or
    in two processes with entirely different histories — answer every call alike -/
theorem same_grammar_same_result (bt : List Rule) (us) (h₁ h₂ : List WorldOp)
    (hf₁ : FixedH h₁) (hf₂ : FixedH h₂) (p₁ p₂ : Nat) (P₁ P₂ : ParserObj) (src : List Rule)
    (hp₁ : (run (init bt us) h₁).parsers[p₁]? = some P₁)
    (hp₂ : (run (init bt us) h₂).parsers[p₂]? = some P₂)
    (hs₁ : (run (init bt us) h₁).mappings[P₁.mapping]? = some src)
    (hs₂ : (run (init bt us) h₂).mappings[P₂.mapping]? = some src)
    (hpass : P₁.passes = P₂.passes) (a : Args) :
    parseResult (run (init bt us) h₁) p₁ a = parseResult (run (init bt us) h₂) p₂ a := by
  rw [history_independence bt us h₁ hf₁ p₁ P₁ src hp₁ hs₁,
      history_independence bt us h₂ hf₂ p₂ P₂ src hp₂ hs₂, hpass]

/-! ### calls -/

/-- **A call writes nothing but cache flags**: after `parse` / `parseGen` the world differs
    from the one before at most in `filled`. -/
theorem parse_writes_only_caches (w : World) (op : WorldOp) (hc : op.IsCall) :
    { step w op with filled := w.filled } = w := by
  cases op with
  | parse p a => simp only [step]; split <;> rfl
  | parseGen m a => rfl
  | newMapping _ => exact absurd hc (by simp [WorldOp.IsCall])
  | newParser _ _ => exact absurd hc (by simp [WorldOp.IsCall])
  | newParserOld _ _ => exact absurd hc (by simp [WorldOp.IsCall])
  | generate _ => exact absurd hc (by simp [WorldOp.IsCall])

/-- results do not read cache flags -/
theorem parseResult_filled (w : World) (f : Slot → Bool) (p : Nat) (a : Args) :
    parseResult { w with filled := f } p a = parseResult w p a := rfl

theorem parseGenResult_filled (w : World) (f : Slot → Bool) (m : Nat) (a : Args) :
    parseGenResult { w with filled := f } m a = parseGenResult w m a := rfl

theorem call_frame (w : World) (op : WorldOp) (hc : op.IsCall) :
    ∃ f, step w op = { w with filled := f } := by
  refine ⟨(step w op).filled, ?_⟩
  have := parse_writes_only_caches w op hc
  cases op with
  | parse p a => simp only [step]; split <;> rfl
  | parseGen m a => rfl
  | newMapping _ => exact absurd hc (by simp [WorldOp.IsCall])
  | newParser _ _ => exact absurd hc (by simp [WorldOp.IsCall])
  | newParserOld _ _ => exact absurd hc (by simp [WorldOp.IsCall])
  | generate _ => exact absurd hc (by simp [WorldOp.IsCall])

/-- **Re-use.**  A call on a parser returns the same result whatever call — on the same or
    another object, successful or failed — was made before it. -/
theorem repeated_call_same_result (w : World) (op : WorldOp) (hc : op.IsCall) (p : Nat) (a : Args) :
    parseResult (step w op) p a = parseResult w p a := by
  obtain ⟨f, hf⟩ := call_frame w op hc
  rw [hf]; rfl

theorem repeated_call_same_result_gen (w : World) (op : WorldOp) (hc : op.IsCall) (m : Nat) (a : Args) :
    parseGenResult (step w op) m a = parseGenResult w m a := by
  obtain ⟨f, hf⟩ := call_frame w op hc
  rw [hf]; rfl

/-- after any number of calls, in any order, every call still returns what it returns alone:
    this is "every interleaving of whole calls gives each call its sequential result" -/
theorem calls_do_not_interfere (w : World) (cs : List WorldOp) (hc : ∀ op ∈ cs, op.IsCall)
    (p : Nat) (a : Args) : parseResult (run w cs) p a = parseResult w p a := by
  induction cs generalizing w with
  | nil => rfl
  | cons op cs ih =>
    rw [run_cons, ih _ (fun o ho => hc o (List.mem_cons_of_mem _ ho)),
        repeated_call_same_result w op (hc op List.mem_cons_self)]

theorem calls_do_not_interfere_gen (w : World) (cs : List WorldOp) (hc : ∀ op ∈ cs, op.IsCall)
    (m : Nat) (a : Args) : parseGenResult (run w cs) m a = parseGenResult w m a := by
  induction cs generalizing w with
  | nil => rfl
  | cons op cs ih =>
    rw [run_cons, ih _ (fun o ho => hc o (List.mem_cons_of_mem _ ho)),
        repeated_call_same_result_gen w op (hc op List.mem_cons_self)]

theorem fillAll_comm (f : Slot → Bool) (s t : List Slot) :
    fillAll (fillAll f s) t = fillAll (fillAll f t) s := by
  funext x; simp only [fillAll]; rw [Bool.or_assoc, Bool.or_assoc, Bool.or_comm (s.contains x)]

theorem fillAll_idem (f : Slot → Bool) (s : List Slot) : fillAll (fillAll f s) s = fillAll f s := by
  funext x; simp only [fillAll]; rw [Bool.or_assoc, Bool.or_self]

theorem touched_filled (w : World) (f : Slot → Bool) (p : Nat) (P : ParserObj) :
    World.touched { w with filled := f } p P = World.touched w p P := rfl

/-- the cache fills of a call are idempotent: calling twice leaves the world of calling once -/
theorem call_idempotent (w : World) (op : WorldOp) (hc : op.IsCall) :
    step (step w op) op = step w op := by
  cases op with
  | parse p a =>
    cases hp : w.parsers[p]? <;> simp only [step, hp, touched_filled, fillAll_idem]
  | parseGen m a => rfl
  | newMapping _ => exact absurd hc (by simp [WorldOp.IsCall])
  | newParser _ _ => exact absurd hc (by simp [WorldOp.IsCall])
  | newParserOld _ _ => exact absurd hc (by simp [WorldOp.IsCall])
  | generate _ => exact absurd hc (by simp [WorldOp.IsCall])

set_option linter.unusedSimpArgs false in
/-- **Two calls commute** as transformers of the shared state (their only writes are cache
    fills, and fills commute). -/
theorem calls_commute (w : World) (a b : WorldOp) (ha : a.IsCall) (hb : b.IsCall) :
    step (step w a) b = step (step w b) a := by
  cases a with
  | parse p x =>
    cases b with
    | parse q y =>
      simp only [step]
      cases hp : w.parsers[p]? <;> cases hq : w.parsers[q]? <;>
        simp only [hp, hq, touched_filled, fillAll_comm]
    | parseGen m y => rfl
    | newMapping _ => exact absurd hb (by simp [WorldOp.IsCall])
    | newParser _ _ => exact absurd hb (by simp [WorldOp.IsCall])
    | newParserOld _ _ => exact absurd hb (by simp [WorldOp.IsCall])
    | generate _ => exact absurd hb (by simp [WorldOp.IsCall])
  | parseGen m x =>
    cases b with
    | parse q y => rfl
    | parseGen n y => rfl
    | newMapping _ => exact absurd hb (by simp [WorldOp.IsCall])
    | newParser _ _ => exact absurd hb (by simp [WorldOp.IsCall])
    | newParserOld _ _ => exact absurd hb (by simp [WorldOp.IsCall])
    | generate _ => exact absurd hb (by simp [WorldOp.IsCall])
  | newMapping _ => exact absurd ha (by simp [WorldOp.IsCall])
  | newParser _ _ => exact absurd ha (by simp [WorldOp.IsCall])
  | newParserOld _ _ => exact absurd ha (by simp [WorldOp.IsCall])
  | generate _ => exact absurd ha (by simp [WorldOp.IsCall])

/-! ### interleavings at a finer granularity: the generic commutation lemma

  `S` = cache slots, `V` = what a slot can hold, `content s` = the one value a fill of `s`
  ever writes (a function of the slot — i.e. of the node — alone).  `L` = the private state
  of a thread (for `parse()`: its `ParserState`, its pair lists, its Python frames).
  A *step* is one atomic access: the thread reads the shared caches, updates its private
  state, and may fill one slot.  Private states of different threads are disjoint by
  construction (`Nat → L`, a step of thread `i` updates component `i` only); the immutable
  shared data (rule tables, `Parser.BUILTIN`: the invariants above) is part of `step`. -/

section Interleaving
variable {S V L : Type} [DecidableEq S]

abbrev Cache (S V : Type) := S → Option V

/-- every filled slot holds the content determined by the slot -/
def Valid (content : S → V) (σ : Cache S V) : Prop := ∀ s v, σ s = some v → v = content s

def fill (content : S → V) (σ : Cache S V) (s : S) : Cache S V :=
  fun t => if t = s then some (content s) else σ t

/-- one atomic step of a thread -/
structure Thread (S V L : Type) where
  step : Cache S V → L → L × Option S

/-- the caches are transparent to the thread: in any two valid cache states a step makes the
    same private transition (it may differ in whether it fills a slot: an empty slot is
    filled, a filled one is not) -/
def Transparent (content : S → V) (t : Thread S V L) : Prop :=
  ∀ σ σ' l, Valid content σ → Valid content σ' → (t.step σ l).1 = (t.step σ' l).1

def setAt (ls : Nat → L) (i : Nat) (l : L) : Nat → L := fun j => if j = i then l else ls j

/-- thread `i` takes one step in the shared world -/
def sysStep (content : S → V) (ts : Nat → Thread S V L) (st : Cache S V × (Nat → L)) (i : Nat) :
    Cache S V × (Nat → L) :=
  let r := (ts i).step st.1 (st.2 i)
  (match r.2 with | none => st.1 | some s => fill content st.1 s, setAt st.2 i r.1)

/-- run a schedule (which thread moves next) -/
def runSched (content : S → V) (ts : Nat → Thread S V L) (st : Cache S V × (Nat → L))
    (sched : List Nat) : Cache S V × (Nat → L) := sched.foldl (sysStep content ts) st

/-- `n` steps in a row -/
def iter (f : L → L) : Nat → L → L
  | 0, x => x
  | n + 1, x => iter f n (f x)

/-- one step of a thread running alone from the initial cache state -/
def alone (t : Thread S V L) (σ0 : Cache S V) (l : L) : L := (t.step σ0 l).1

theorem valid_fill (content : S → V) (σ : Cache S V) (s : S) (h : Valid content σ) :
    Valid content (fill content σ s) := by
  intro t v ht
  simp only [fill] at ht
  split at ht
  · rename_i heq; cases ht; rw [heq]
  · exact h t v ht

theorem valid_sysStep (content : S → V) (ts : Nat → Thread S V L) (st) (i : Nat)
    (h : Valid content st.1) : Valid content (sysStep content ts st i).1 := by
  simp only [sysStep]
  split
  · exact h
  · exact valid_fill content _ _ h

/-- **Interleaving is irrelevant.**  `N` threads (here: any number, indexed by `Nat`) whose
    private states are disjoint and whose only shared writes are fills of transparent caches:
    under *every* schedule, thread `i` ends in the private state it reaches by taking the same
    number of steps alone from the initial cache state — so each `parse()` returns its
    sequential result — and the caches stay valid. -/
theorem interleaving_irrelevant (content : S → V) (ts : Nat → Thread S V L)
    (hT : ∀ i, Transparent content (ts i)) (σ0 : Cache S V) (h0 : Valid content σ0)
    (sched : List Nat) (σ : Cache S V) (hσ : Valid content σ) (ls : Nat → L) (i : Nat) :
    (runSched content ts (σ, ls) sched).2 i = iter (alone (ts i) σ0) (sched.count i) (ls i) ∧
    Valid content (runSched content ts (σ, ls) sched).1 := by
  induction sched generalizing σ ls with
  | nil => exact ⟨rfl, hσ⟩
  | cons j rest ih =>
    have hv := valid_sysStep content ts (σ, ls) j hσ
    have := ih (sysStep content ts (σ, ls) j).1 hv (sysStep content ts (σ, ls) j).2
    simp only [runSched, List.foldl_cons] at this ⊢
    refine ⟨?_, this.2⟩
    rw [this.1]
    by_cases hji : j = i
    · subst hji
      simp only [List.count_cons_self, iter]
      congr 1
      simp only [sysStep, setAt, if_true, alone]
      exact hT j σ σ0 (ls j) hσ h0
    · have hc : (j :: rest).count i = rest.count i := by
        simp [hji]
      rw [hc]
      congr 1
      simp only [sysStep, setAt]
      rw [if_neg (fun h => hji h.symm)]

/-- corollary: two schedules that give thread `i` the same number of steps leave it in the
    same private state — in particular the schedule in which it runs alone -/
theorem schedule_independent (content : S → V) (ts : Nat → Thread S V L)
    (hT : ∀ i, Transparent content (ts i)) (σ0 : Cache S V) (h0 : Valid content σ0)
    (ls : Nat → L) (s₁ s₂ : List Nat) (i : Nat) (hc : s₁.count i = s₂.count i) :
    (runSched content ts (σ0, ls) s₁).2 i = (runSched content ts (σ0, ls) s₂).2 i := by
  rw [(interleaving_irrelevant content ts hT σ0 h0 s₁ σ0 h0 ls i).1,
      (interleaving_irrelevant content ts hT σ0 h0 s₂ σ0 h0 ls i).1, hc]

end Interleaving

/-- The generic lemma at the slot type of the `World` model (`filled : Slot → Bool`, i.e. the
    content of a filled slot is `()` — "a function of the node" in its most abstract form).
    This is the proved part of the OPEN statement below: it *assumes* that the threads'
    steps are `Transparent` and that their private states are disjoint. -/
theorem parse_interleaving_partial {L : Type} (ts : Nat → Thread Slot Unit L)
    (hT : ∀ i, Transparent (fun _ => ()) (ts i)) (σ0 : Cache Slot Unit)
    (sched : List Nat) (ls : Nat → L) (i : Nat) :
    (runSched (fun _ => ()) ts (σ0, ls) sched).2 i = iter (alone (ts i) σ0) (sched.count i) (ls i) :=
  (interleaving_irrelevant (fun _ => ()) ts hT σ0 (fun _ _ _ => rfl) sched σ0 (fun _ _ _ => rfl) ls i).1

-- OPEN parse_interleaving (full statement, not proved — it is a statement about CPython and the
--   Python source, not about this model): "for the interpreter (`Expression.parse` methods,
--   `ParserState`) and for generated modules, executed by CPython under the GIL, every
--   bytecode-level step of a `parse()` call is a `Thread.step` whose private state is that call's
--   `ParserState`, pair lists and frames, whose shared reads are the rule tables (immutable:
--   `shared_table_invariant`, `mappings_invariant`, `parsers_frame`) and the lazy caches, whose
--   only shared writes are fills of `_compiled` / `_expanded` with a value determined by the
--   node, and which is `Transparent`".  With it, `parse_interleaving_partial` gives: under every
--   schedule each concurrent `parse()` returns its sequential result.  The harness tests the
--   hypothesis (write-set monitor: no other write, cache content recomputed and compared; thread
--   runs with a 1 µs switch interval compared with sequential runs); it is an assumption of the
--   evidence, listed as such.

/-! ### non-vacuity: the optimizer of the pinned commit breaks history independence

  Shared table: `ASCII_ALPHA` (as `ASCIIRule` builds it).  Grammar A: `r = { ASCII_ALPHA }`,
  not optimized.  Grammar B: `s = { "x" }`, optimized with the `squash_choice` pass.
  History: build A, build B — then `A.parse("r", "1")`.  With the current optimizer the
  report is "position 0, expected ASCII_ALPHA (2 labels)", as in a fresh process; with the
  optimizer of the pinned commit, building B rewrote the shared `ASCII_ALPHA` object into a
  regex node that reports nothing: "position -1, nothing expected". -/

def exBuiltins : List Rule :=
  [⟨"ASCII_ALPHA", SILENT, .choice [.range 97 122, .range 65 90], .builtin⟩]

def exA : List Rule := [⟨"r", 0, .rule "ASCII_ALPHA" SILENT true (.choice [.range 97 122, .range 65 90]), .grammar⟩]
def exB : List Rule := [⟨"s", 0, .str [120], .grammar⟩]
def exSquash : Opt.Pass := ⟨.squashChoice, true, false⟩
def exCall : Args := ⟨"r", #[49], 0, 10⟩

/-- what the harness compares for a failed parse: matched?, furthest position, expected keys -/
def report : R1 → Option (Bool × Int × List (String × Nat))
  | .done m c _ => some (m, c.fpos, c.fexp)
  | _ => none

def exHistoryOld : List WorldOp :=
  [.newMapping exA, .newParser 0 none, .newMapping exB, .newParserOld 1 (some [exSquash])]

/-- in a fresh process the unoptimized parser reports position 0 and `ASCII_ALPHA`… -/
example : report (isolatedParse exBuiltins [] exA none exCall) = some (false, 0, [("ASCII_ALPHA", 2)]) := by
  decide

/-- …after another, optimized parser was created by the old optimizer it reports nothing:
    history independence FAILS for `newParserOld`. -/
theorem old_optimizer_breaks_isolation :
    report (parseResult (run (init exBuiltins []) exHistoryOld) 0 exCall)
      ≠ report (isolatedParse exBuiltins [] exA none exCall) := by
  decide

example : report (parseResult (run (init exBuiltins []) exHistoryOld) 0 exCall) = some (false, -1, []) := by
  decide

/-- the write is visible in the shared table itself -/
example : ((run (init exBuiltins []) exHistoryOld).builtins.map (Opt.size ·.body)) ≠
    (exBuiltins.map (Opt.size ·.body)) := by decide

/-- with the current optimizer: whatever happens after parser A was built — `h` is *any*
    history of current-tree operations — its report is the fresh-process report (an instance
    of `history_independence`, then evaluated) -/
example (h : List WorldOp) (hf : FixedH h) :
    report (parseResult (run (init exBuiltins [])
      ([WorldOp.newMapping exA, WorldOp.newParser 0 none] ++ h)) 0 exCall)
      = some (false, 0, [("ASCII_ALPHA", 2)]) := by
  have hpre : FixedH [WorldOp.newMapping exA, WorldOp.newParser 0 none] := by
    intro op ho
    simp at ho
    rcases ho with rfl | rfl <;> trivial
  have hall : FixedH ([WorldOp.newMapping exA, WorldOp.newParser 0 none] ++ h) := by
    intro op ho
    rcases List.mem_append.mp ho with h1 | h1
    · exact hpre op h1
    · exact hf op h1
  have hrun : run (init exBuiltins []) ([WorldOp.newMapping exA, WorldOp.newParser 0 none] ++ h)
      = run (run (init exBuiltins []) [WorldOp.newMapping exA, WorldOp.newParser 0 none]) h :=
    List.foldl_append ..
  have hp := parsers_frame (run (init exBuiltins []) [WorldOp.newMapping exA, WorldOp.newParser 0 none])
    h hf 0 ⟨0, none, tableOf exBuiltins exA⟩ rfl
  have hm := mappings_invariant (run (init exBuiltins []) [WorldOp.newMapping exA, WorldOp.newParser 0 none])
    h hf 0 exA rfl
  rw [history_independence exBuiltins [] _ hall 0 _ exA (by rw [hrun]; exact hp) (by rw [hrun]; exact hm)]
  decide

/-- second non-vacuity example — the caller's mapping: `Parser(rules)` (not optimized), then
    `Parser(rules, optimizer=…)` from the *same* mapping.  With the old optimizer the first
    parser starts to run the optimized bodies: a choice of literals became a regex node and
    the failure report is lost. -/
def exC : List Rule := [⟨"r", 0, .choice [.str [97], .str [98]], .grammar⟩]

theorem old_optimizer_rewrites_callers_rules :
    report (parseResult (run (init [] []) [.newMapping exC, .newParser 0 none, .newParserOld 0 (some [exSquash])]) 0 exCall)
      ≠ report (isolatedParse [] [] exC none exCall) := by
  decide

end C15
end Pest
