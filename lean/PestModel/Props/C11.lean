/-
  Props/C11.lean — property C11:
  "Loading a grammar is total: a Parser or a renderable PestGrammarError".

    For every input string whatsoever, Parser.from_grammar terminates and either returns a
    Parser or raises PestGrammarError (normally PestGrammarSyntaxError); no other exception type
    escapes.  The error's message renders with str() and points at a line and column that exist
    in the text.

  Only statements and short proofs live here; the work is in Lemmas/FrontTotalScan.lean,
  Lemmas/FrontTotalParse.lean and Lemmas/FrontTotal.lean.

  Models: `Front.scan` (mirror of src/pest/grammar/scanner.py), `Front.parseTokens` (mirror of
  src/pest/grammar/parser.py), `Front.load` (= `Parser.from_grammar(text, optimizer=None)`:
  `.ok` a Parser, `.error` a PestGrammarSyntaxError with its message and the start/value of its
  token, `.exc` any other Python exception — `IndexError`, `ValueError` from `chr()`, a call of
  `int()`/`Range()` outside the modelled domain —, `.oof` a loop bound or depth fuel of the
  model ran out), `Front.grammarErrorContext` / `Front.gecLines` (mirror of
  `PestGrammarError._error_context`, `none` = `IndexError`).  Texts are lists of code points;
  every statement is for ALL texts.  Termination: the models are total Lean functions whose
  loops carry explicit bounds; `.oof` unreachable means the bounds are never what stops a loop,
  i.e. each `while True:` of the Python code leaves through its own `break`/`return`/`raise`.
-/
import PestModel.Lemmas.FrontTotal

namespace Pest
namespace C11
open Front LineCol

/-! ### the scanner -/

/-- every loop bound and the depth fuel of the scanner model suffice -/
theorem scan_no_oof (text : Front.Text) : scan text ≠ .oof := by
  intro h; have := scan_sat text; rw [h] at this; exact this

/-- no exception other than `PestGrammarSyntaxError` leaves `tokenize` (the only candidate,
    `unescape_string` on a scanned string body, never raises `IndexError`/`ValueError`) -/
theorem scan_no_exc (text : Front.Text) (n : String) : scan text ≠ .exc n := by
  intro h; have := scan_sat text; rw [h] at this; exact this

/-- a scanner error carries a token that starts inside the text -/
theorem scan_error_position {text : Front.Text} {k : EK} {st : Nat} {v : Front.Text}
    (h : scan text = .err k st v) : st ≤ text.length := by
  have := scan_sat text; rw [h] at this; exact this

/-- the token facts the grammar parser relies on: every token starts inside the text, a
    `NUMBER` is `[0-9]+`, an `INTEGER` is `-?[0-9]+`, a `CHAR` is `'c'` (c not a backslash) or
    `'\e'` with `e` exactly one match of `RE_ESCAPE` (see `TokOK`, `ValOK`) -/
theorem scan_tokens_ok {text : Front.Text} {toks : List Token} (h : scan text = .ok toks) :
    ∀ t ∈ toks, TokOK text.length t := by
  have := scan_sat text; rw [h] at this; exact this

theorem number_token_digits {N : Nat} {t : Token} (h : TokOK N t) (hk : t.kind = .number) :
    t.value ≠ [] ∧ ∀ c ∈ t.value, isDigit c = true := by
  have := h.val; rw [hk] at this; exact this

theorem integer_token_int {N : Nat} {t : Token} (h : TokOK N t) (hk : t.kind = .integer) :
    pyInt t.value ≠ none :=
  pyInt_tok h (.inr hk)

/-- what `parse_int` hands to `int()` since the `fix:` commit 6f76b47 — the sign and the
    significant digits (`intLiteral`) — is in `int()`'s domain for every NUMBER and INTEGER token -/
theorem int_literal_in_domain {N : Nat} {t : Token} (h : TokOK N t)
    (hk : t.kind = .number ∨ t.kind = .integer) : pyInt (intLiteral t.value) ≠ none :=
  pyInt_intLiteral (intLit_tok h hk)

theorem char_token_unescapes {N : Nat} {t : Token} (h : TokOK N t) (hk : t.kind = .char) :
    (∃ c, Unescape.unescape (stripQuotes t.value) = .ok [c]) ∨
      Unescape.unescape (stripQuotes t.value) = .error .range := by
  have hv := h.val
  rw [hk] at hv
  obtain ⟨body, hb, hc⟩ := hv
  rw [hb, stripQuotes_lit]
  rcases hc with ⟨c, rfl, hc⟩ | ⟨e, rfl, he⟩
  · exact .inl ⟨c, by rw [Unescape.unescape_cons_char [] hc, Unescape.unescape_nil]; rfl⟩
  · exact Unescape.unescape_one_escape he

/-- the bound of `skip_trivia` suffices: it stops because none of the three patterns matches -/
theorem skipTrivia_done (s : St) : (triviaRound (skipTrivia s)).1 = false :=
  Front.skipTrivia_done s

/-! ### the grammar parser, on token lists the scanner can produce -/

theorem parse_no_oof (b : List String) (N : Nat) {toks : List Token}
    (h : ∀ t ∈ toks, TokOK N t) : parseTokens b ⟨.eoi, [], N⟩ toks ≠ .oof := by
  intro hr
  have := parseTokens_top b N h
  rw [hr] at this; exact this

/-- neither `int()` nor `Range()` is called outside the modelled domain, `unescape_string`
    raises nothing but `PestGrammarSyntaxError` -/
theorem parse_no_exc (b : List String) (N : Nat) {toks : List Token}
    (h : ∀ t ∈ toks, TokOK N t) (n : String) : parseTokens b ⟨.eoi, [], N⟩ toks ≠ .exc n := by
  intro hr
  have := parseTokens_top b N h
  rw [hr] at this; exact this

/-- the token of a parser error is a token of the list or `eof` … -/
theorem parse_error_token (b : List String) (N : Nat) {toks : List Token}
    (h : ∀ t ∈ toks, TokOK N t) {k : EK} {t : Token}
    (hr : parseTokens b ⟨.eoi, [], N⟩ toks = .err k t) : t ∈ toks ∨ t = ⟨.eoi, [], N⟩ := by
  have := parseTokens_top b N h
  rw [hr] at this; exact this.2

/-- … hence starts inside the text -/
theorem parse_error_position (b : List String) (N : Nat) {toks : List Token}
    (h : ∀ t ∈ toks, TokOK N t) {k : EK} {t : Token}
    (hr : parseTokens b ⟨.eoi, [], N⟩ toks = .err k t) : t.start ≤ N := by
  have := parseTokens_top b N h
  rw [hr] at this; exact this.1

/-! ### `Parser.from_grammar` -/

/-- **C11, totality.**  For every text, loading terminates with a Parser or a
    PestGrammarSyntaxError: no `IndexError`/`ValueError`/`AssertionError`/`KeyError`/… escapes
    and no loop of the model is cut off by its bound. -/
theorem front_total (b : List String) (text : Front.Text) :
    (∀ n, load b text ≠ .exc n) ∧ load b text ≠ .oof := by
  have h := load_sat b text
  refine ⟨fun n hn => ?_, fun hn => ?_⟩
  · rw [hn] at h; exact h
  · rw [hn] at h; exact h

/-- the same, positively -/
theorem front_ok_or_error (b : List String) (text : Front.Text) :
    (∃ g, load b text = .ok g) ∨ ∃ e, load b text = .error e := by
  have h := load_sat b text
  cases hl : load b text with
  | ok g => exact .inl ⟨g, rfl⟩
  | error e => exact .inr ⟨e, rfl⟩
  | exc n => rw [hl] at h; exact h.elim
  | oof => rw [hl] at h; exact h.elim

/-- **C11, the error's token lies in the text**: `0 ≤ token.start ≤ len(text)` -/
theorem front_error_position {b : List String} {text : Front.Text} {e : GErr}
    (h : load b text = .error e) : e.start ≤ text.length := by
  have := load_sat b text; rw [h] at this; exact this

/-! ### `str(error)`: `PestGrammarError._error_context` -/

/-- `_error_context` raises nothing, for every text (all `splitlines` boundaries) and every
    index `≥ 0` -/
theorem error_context_total (t : LineCol.Text) (i : Nat) :
    (grammarErrorContext t i).isSome = true :=
  gec_total t i

/-- the lines `_error_context` works on are the text, cut into pieces -/
theorem gec_lines_partition {t : LineCol.Text} {lines : List LineCol.Text}
    (h : gecLines t = some lines) : lines.flatten = t := by
  obtain ⟨b, hb, -⟩ := endsOnNewLine_total t
  rw [gecLines_eq hb] at h
  cases h
  exact ecLines_flatten t b

/-- **C11, the reported line and column exist.**  For `0 ≤ i ≤ len(text)`: the line number is
    that of one of the lines, the column lies within that line (`col = len(line)` is the
    position just after its last character), and the line shown is that line, right-stripped. -/
theorem error_context_exists {t : LineCol.Text} {i : Nat} (hi : i ≤ t.length) :
    ∃ lines line col cur l, gecLines t = some lines ∧
      grammarErrorContext t i = some (line, col, cur) ∧ 1 ≤ line ∧ line ≤ lines.length ∧
      lines[line - 1]? = some l ∧ 0 ≤ col ∧ col ≤ l.length ∧ cur = rstrip l := by
  obtain ⟨lines, line, col, cur, l, h1, h2, h3, h4, h5, h6, h7, h8, _⟩ := gec_exists t hi
  exact ⟨lines, line, col, cur, l, h1, h2, h3, h4, h5, h6, h7, h8⟩

/-- … and the column reaches the length of its line only at the very end of the text -/
theorem error_context_col_lt {t : LineCol.Text} {i : Nat} (hi : i < t.length) :
    ∃ lines line col cur l, gecLines t = some lines ∧
      grammarErrorContext t i = some (line, col, cur) ∧ lines[line - 1]? = some l ∧
      0 ≤ col ∧ col < l.length := by
  obtain ⟨lines, line, col, cur, l, h1, h2, _, _, h5, h6, h7, _, h9⟩ :=
    gec_exists t (Nat.le_of_lt hi)
  refine ⟨lines, line, col, cur, l, h1, h2, h5, h6, ?_⟩
  rcases Int.lt_or_eq_of_le h7 with h | h
  · exact h
  · have := h9 h; omega

/-- **C11, the error renders**: the `_error_context` call of `str(error)` succeeds at the
    error token's start and reports a line and a column that exist in the text -/
theorem front_error_renders {b : List String} {text : Front.Text} {e : GErr}
    (h : load b text = .error e) :
    ∃ lines line col cur l, gecLines text = some lines ∧
      grammarErrorContext text e.start = some (line, col, cur) ∧ 1 ≤ line ∧
      line ≤ lines.length ∧ lines[line - 1]? = some l ∧ 0 ≤ col ∧ col ≤ l.length ∧
      cur = rstrip l :=
  error_context_exists (front_error_position h)

/-! ### regression points (code-point lists) -/

-- the empty grammar loads, with no rules (was AssertionError)
example : load [] [] = .ok ⟨[], []⟩ := by rfl
-- "a": the end of the text where `=` was expected (was IndexError)
example : load [] [97] = .error ⟨.expectedAssign, 1, []⟩ := by rfl
-- "a={": the end of the text where a term was expected
example : load [] [97, 61, 123] = .error ⟨.expectedLParen, 3, []⟩ := by rfl
-- parser errors: "a={'b'..'a'}" (range order, at the first CHAR token),
-- "a={b{,}}" (`}` where a number was expected),
-- "a={'\u{110000}'..'b'}" (an escape beyond U+10FFFF: PestGrammarSyntaxError, not ValueError)
example : load [] [97, 61, 123, 39, 98, 39, 46, 46, 39, 97, 39, 125] =
    .error ⟨.rangeOrder, 3, [39, 98, 39]⟩ := by rfl
example : load [] [97, 61, 123, 98, 123, 44, 125, 125] = .error ⟨.unexpected, 6, [125]⟩ := by rfl
example : load [] [97, 61, 123, 39, 92, 117, 123, 49, 49, 48, 48, 48, 48, 125, 39, 46, 46, 39,
    98, 39, 125] =
    .error ⟨.unescape .range, 3, [39, 92, 117, 123, 49, 49, 48, 48, 48, 48, 125, 39]⟩ := by rfl
-- the end of "a" is line 1, column 1
example : grammarErrorContext [97] 1 = some (1, 1, [97]) := by decide
-- the end of "a\n" is on a new, empty line 2
example : grammarErrorContext [97, 10] 2 = some (2, 0, []) := by decide
example : grammarErrorContext [] 0 = some (1, 0, []) := by decide
example : gecLines [97, 13, 10, 98] = some [[97, 13, 10], [98]] := by decide

end C11
end Pest
