/-
  Props/C09.lean — property C09:
  "Snapshotting stack, counter and parser state act like full-copy snapshots".

  Only statements and their (short) proofs from the lemma files live here.
  Model: `Stack.lean` (mirror of src/pest/stack.py, src/pest/checkpoint_int.py),
  `State.lean` (mirror of ParserState.checkpoint/ok/restore).  Reference: `RStack`,
  `RState` — snapshots are full copies.
-/
import PestModel.Lemmas.Stack
import PestModel.Lemmas.State

namespace Pest
namespace C09
open DStack
variable {α : Type}

/-- visible contents after every step of a history (Python: `list(stack)` reversed) -/
def dtrace (d : DStack α) : List (StackOp α) → List (List α)
  | [] => [d.items]
  | op :: ops => d.items :: dtrace (d.apply op) ops

def rtrace (r : RStack α) : List (StackOp α) → List (List α)
  | [] => [r.cur]
  | op :: ops => r.cur :: rtrace (r.apply op) ops

theorem trace_refines (d : DStack α) (h : Inv d) (ops : List (StackOp α)) :
    dtrace d ops = rtrace (abs d) ops := by
  induction ops generalizing d with
  | nil => rfl
  | cons op ops ih =>
    simp only [dtrace, rtrace]
    rw [ih _ (inv_apply d op h), abs_apply d op h]
    rfl

/-- **C09, stack.**  For every finite history of push, pop, clear, snapshot, restore and
    drop-snapshot operations, the visible contents of the delta-encoded stack after each
    step equal those of the reference that stores full copies. -/
theorem stack_refines (ops : List (StackOp α)) :
    dtrace (DStack.empty : DStack α) ops = rtrace (RStack.empty : RStack α) ops := by
  have := trace_refines (DStack.empty : DStack α) inv_empty ops
  simpa [abs, DStack.empty, RStack.empty, snapsOf, snapsAux] using this

/-- every state reachable by a history satisfies the representation invariant … -/
theorem reachable_inv (ops : List (StackOp α)) :
    Inv (ops.foldl DStack.apply (DStack.empty : DStack α)) := by
  suffices ∀ d : DStack α, Inv d → Inv (ops.foldl DStack.apply d) from this _ inv_empty
  induction ops with
  | nil => intro d h; exact h
  | cons op ops ih => intro d h; exact ih _ (inv_apply d op h)

/-- … hence neither `assert` in `Stack.restore` can fail, and the slice bounds in
    `restore`/`drop_snapshot` are never negative (where Python slicing would differ). -/
theorem asserts_never_fail (ops : List (StackOp α)) :
    (ops.foldl DStack.apply (DStack.empty : DStack α)).restoreAsserts = true ∧
    (ops.foldl DStack.apply (DStack.empty : DStack α)).dropAsserts = true :=
  ⟨inv_restoreAsserts _ (reachable_inv ops), inv_dropAsserts _ (reachable_inv ops)⟩

/-- restore returns exactly the contents at the matching snapshot (one-step form; the
    reference `RStack` makes the general form definitional, `restore_matching` below). -/
theorem restore_snapshot (d : DStack α) : d.snapshot.restore.items = d.items := by
  have := abs_restore d.snapshot
  rw [abs_snapshot] at this
  simpa [abs, RStack.snapshot, RStack.restore] using congrArg RStack.cur this

/-- dropping a snapshot changes nothing visible … -/
theorem dropSnap_invisible (d : DStack α) : d.dropSnap.items = d.items := dropSnap_items d

/-- … and leaves every outer snapshot exactly restorable. -/
theorem dropSnap_outer_restorable (d : DStack α) (h : Inv d) :
    snapsOf d.dropSnap = (snapsOf d).tail := snapsOf_dropSnap d h

/-- restore without a snapshot empties the stack -/
theorem restore_without_snapshot (d : DStack α) (h : d.lengths = []) : d.restore.items = [] := by
  simp [restore_nil d h]

/-! The reference itself behaves as "full copy" says, for *matching* snapshot/restore pairs
    with an arbitrary balanced history in between. -/

/-- nesting depth after `ops`, or `none` if some restore/drop has no matching snapshot
    inside `ops` -/
def depthAfter : Nat → List (StackOp α) → Option Nat
  | k, [] => some k
  | k, .snapshot :: ops => depthAfter (k + 1) ops
  | 0, .restore :: _ => none
  | 0, .dropSnap :: _ => none
  | k + 1, .restore :: ops => depthAfter k ops
  | k + 1, .dropSnap :: ops => depthAfter k ops
  | k, .push _ :: ops => depthAfter k ops
  | k, .pop :: ops => depthAfter k ops
  | k, .clear :: ops => depthAfter k ops

theorem rstack_frame (ops : List (StackOp α)) :
    ∀ (k j : Nat) (r : RStack α) (extra base : List (List α)),
      depthAfter k ops = some j → r.snaps = extra ++ base → extra.length = k →
      ∃ extra', (ops.foldl RStack.apply r).snaps = extra' ++ base ∧ extra'.length = j := by
  induction ops with
  | nil =>
    intro k j r extra base hd hs hl
    simp only [depthAfter, Option.some.injEq] at hd
    exact ⟨extra, hs, hd ▸ hl⟩
  | cons op ops ih =>
    intro k j r extra base hd hs hl
    simp only [List.foldl_cons]
    cases op with
    | push x => exact ih k j _ extra base (by simpa [depthAfter] using hd) hs hl
    | pop =>
      refine ih k j _ extra base (by simpa [depthAfter] using hd) ?_ hl
      simp only [RStack.apply]
      cases hp : r.pop with
      | none => exact hs
      | some q =>
        simp only [RStack.pop] at hp
        cases hc : r.cur with
        | nil => rw [hc] at hp; simp at hp
        | cons y rest => rw [hc] at hp; simp at hp; rw [← hp]; exact hs
    | clear => exact ih k j _ extra base (by simpa [depthAfter] using hd) hs hl
    | snapshot =>
      refine ih (k + 1) j _ (r.cur :: extra) base (by simpa [depthAfter] using hd) ?_ (by simp [hl])
      simp [RStack.apply, RStack.snapshot, hs]
    | restore =>
      cases k with
      | zero => simp [depthAfter] at hd
      | succ k =>
        cases extra with
        | nil => simp at hl
        | cons e es =>
          refine ih k j _ es base (by simpa [depthAfter] using hd) ?_ (by simpa using hl)
          simp [RStack.apply, RStack.restore, hs]
    | dropSnap =>
      cases k with
      | zero => simp [depthAfter] at hd
      | succ k =>
        cases extra with
        | nil => simp at hl
        | cons e es =>
          refine ih k j _ es base (by simpa [depthAfter] using hd) ?_ (by simpa using hl)
          simp [RStack.apply, RStack.dropSnap, hs]

/-- On the reference: a snapshot, then any history whose restores/drops are matched inside
    it, then restore — gives back exactly the contents at the snapshot, and the outer
    snapshots are untouched. -/
theorem rstack_restore_matching (r : RStack α) (ops : List (StackOp α))
    (hb : depthAfter 0 ops = some 0) :
    (ops.foldl RStack.apply r.snapshot).restore = r := by
  obtain ⟨extra', h1, h2⟩ := rstack_frame ops 0 0 r.snapshot [] (r.cur :: r.snaps) hb
    (by simp [RStack.snapshot]) rfl
  have : extra' = [] := List.eq_nil_of_length_eq_zero h2
  subst this
  simp only [List.nil_append] at h1
  simp [RStack.restore, h1]

/-- The same for the real (delta-encoded) stack, through the refinement: the visible
    contents and everything any outer snapshot would restore are exactly as before. -/
theorem restore_matching (d : DStack α) (h : Inv d) (ops : List (StackOp α))
    (hb : depthAfter 0 ops = some 0) :
    abs (ops.foldl DStack.apply d.snapshot).restore = abs d := by
  have comm : ∀ (ops : List (StackOp α)) (d : DStack α), Inv d →
      abs (ops.foldl DStack.apply d) = ops.foldl RStack.apply (abs d) := by
    intro ops
    induction ops with
    | nil => intro d _; rfl
    | cons op ops ih =>
      intro d hd
      simp only [List.foldl_cons]
      rw [ih _ (inv_apply d op hd), abs_apply d op hd]
  rw [abs_restore, comm ops _ (inv_snapshot d h), abs_snapshot]
  exact rstack_restore_matching (abs d) ops hb

/-! ### The snapshotting counter -/

/-- reference for the counter: a value and a list of saved values -/
structure RInt where
  cur : Int
  saved : List Int
deriving DecidableEq

def RInt.apply (r : RInt) : IntOp → RInt
  | .add k => { r with cur := r.cur + k }
  | .zero => { r with cur := 0 }
  | .snapshot => { r with saved := r.cur :: r.saved }
  | .restore => match r.saved with | [] => ⟨0, []⟩ | v :: s => ⟨v, s⟩
  | .drop => { r with saved := r.saved.tail }

def absInt (s : SnapInt) : RInt := ⟨s.val, s.snaps⟩

/-- **C09, counter.** `SnapshottingInt` keeps full copies already; every operation commutes
    with the reading `absInt`, so every history shows the same values. -/
theorem snapint_refines (s : SnapInt) (op : IntOp) : absInt (s.apply op) = (absInt s).apply op := by
  cases op with
  | add k => rfl
  | zero => rfl
  | snapshot => rfl
  | restore =>
    simp only [SnapInt.apply, SnapInt.restore, RInt.apply, absInt]
    cases s.snaps <;> rfl
  | drop => rfl

theorem snapint_history (ops : List IntOp) :
    absInt (ops.foldl SnapInt.apply SnapInt.zero0) = ops.foldl RInt.apply ⟨0, []⟩ := by
  suffices ∀ s, absInt (ops.foldl SnapInt.apply s) = ops.foldl RInt.apply (absInt s) from this _
  induction ops with
  | nil => intro s; rfl
  | cons op ops ih => intro s; simp only [List.foldl_cons]; rw [ih, snapint_refines]

/-! ### ParserState.checkpoint / ok / restore -/

/-- **C09, parser state.**  For every history of state operations starting from a fresh
    `ParserState`, the visible (pos, user stack, rule stack, atomic depth) and everything
    any pending checkpoint would restore equal those of the full-copy reference: the four
    components move in lock-step. -/
theorem pstate_refines (k : Nat) (ops : List StateOp) :
    PState.absP (ops.foldl PState.applyOp (PState.init k))
      = ops.foldl RState.applyOp (PState.absP (PState.init k)) := by
  suffices ∀ c, PState.CkInv c →
      PState.absP (ops.foldl PState.applyOp c) = ops.foldl RState.applyOp (PState.absP c) from
    this _ (PState.ckInv_init k)
  induction ops with
  | nil => intro c _; rfl
  | cons op ops ih =>
    intro c hc
    simp only [List.foldl_cons]
    rw [ih _ (PState.ckInv_apply c op hc), PState.absP_apply c op hc]

/-! ### Non-vacuity: the history that broke the pinned implementation -/

example :
    dtrace (DStack.empty : DStack Nat)
      [.push 1, .push 2, .snapshot, .snapshot, .pop, .dropSnap, .restore]
      = [[], [1], [2, 1], [2, 1], [2, 1], [1], [1], [2, 1]] := by decide

example : depthAfter (α := Nat) 0 [.push 3, .snapshot, .pop, .pop, .dropSnap, .clear] = some 0 := by
  decide

end C09
end Pest
