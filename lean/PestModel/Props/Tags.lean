/-
  Props/Tags.lean — the pending-tag stack is part of a checkpoint.

  `ParserState.checkpoint()` saves a copy of `tag_stack` on `_tag_history`, `ok()` forgets the
  copy, `restore()` reinstates it.  A tag (`#t = e`) is consumed by the first non-silent rule
  that finishes under it; when that happens inside an attempt that is abandoned later — a
  choice alternative, an optional, a repetition item, a predicate, an implicit-trivia attempt —
  the pair that took the tag is thrown away, and the tag has to come back with the position and
  the stacks.  This file says that it does, for the interpreter model L1 and for the
  generated-code model LG.

  * `restore_restores_tags`                 the state level: checkpoint/ok/restore on the two tag fields.
  * `interp_tag_frame`, `gen_tag_frame`     every node, matched or not, every fuel, any start state:
                                            `tagHist` is back to what it was (balanced), and the
                                            pending tags are a *suffix* of those pending at the start
                                            (a node only consumes from the top: whatever `with
                                            state.tag(t)` pushes it removes again, `Rule.parse` pops at
                                            most one tag per pair).
  * `choice_alternative_sees_same_tags`     headline: every alternative of a choice is run from a
                                            checkpoint whose pending tags are those the choice started
                                            with, however many earlier alternatives consumed tags before
                                            failing; `choice_failure_keeps_tags`, `opt_no_match_keeps_tags`,
                                            `rep_failed_item_keeps_tags`, `andP_keeps_tags`,
                                            `notP_keeps_tags`, `trivia_attempt_keeps_tags` for the other
                                            restoring nodes.
  * what is *not* true (and not claimed): that a failing node leaves the tags as they were.  A
    sequence whose first element consumed the tag and whose second element fails returns
    `matched = False` with the tag gone; it is the enclosing restoring node that brings it back.
    On success, too, only "suffix" holds: `#t = x` pops `t` when `x` finishes, and
    `if self.tag_stack: self.tag_stack.pop()` at the end of `with state.tag(t)` then pops one
    more pending tag if there is one.
-/
import PestModel.Lemmas.TagHist

namespace Pest
namespace Tags

variable (g : Grammar) (inp : Input)

/-! ### (1) the state level -/

/-- `checkpoint` saves the pending tags and changes nothing about them -/
theorem checkpoint_saves_tags (c : PState) :
    c.checkpoint.tagStack = c.tagStack ∧ c.checkpoint.tagHist = c.tagStack :: c.tagHist :=
  ⟨rfl, rfl⟩

/-- **`restore` reinstates the tags of the checkpoint, `ok` keeps the current ones**, from any
    state `c1` whose tag history is that of `c.checkpoint` (which is the case after any run
    from `c.checkpoint`, by `interp_tag_frame`). -/
theorem restore_restores_tags {c c1 : PState} (h : c1.tagHist = c.tagStack :: c.tagHist) :
    (c1.restore.tagStack = c.tagStack ∧ c1.restore.tagHist = c.tagHist) ∧
    (c1.ok.tagHist = c.tagHist ∧ c1.ok.tagStack = c1.tagStack) :=
  ⟨restore_tags_of_hist h, (ok_tags_of_hist h).2, (ok_tags_of_hist h).1⟩

/-- in particular for any state reached from `c.checkpoint` with the history intact -/
theorem restore_restores_tags' {c c1 : PState} (h : c1.tagHist = c.checkpoint.tagHist) :
    c1.restore.tagStack = c.tagStack ∧ c1.restore.tagHist = c.tagHist :=
  restore_tags_of_hist h

theorem checkpoint_restore_tags (c : PState) :
    c.checkpoint.restore.tagStack = c.tagStack ∧ c.checkpoint.restore.tagHist = c.tagHist :=
  restore_tags_of_hist rfl

/-- `fail()` touches neither field -/
theorem fail_keeps_tags {c c' : PState} {rn : Option String} {force : Bool} {pa : Option Nat}
    (h : c.fail rn force pa = some c') : c'.tagStack = c.tagStack ∧ c'.tagHist = c.tagHist :=
  fail_tags h

/-! ### (2) every node is tag-framed -/

/-- **Tag frame, interpreter model.**  Every run of every expression from every state, whether
    it matched or not: the tag history is balanced, the pending tags are a suffix of those
    pending at the start.  No hypothesis on the grammar or the state. -/
theorem interp_tag_frame (n : Nat) (e : Expr) (c c' : PState) (m : Bool) (ps : List Pair)
    (h : L1.run g inp n e c = .done m c' ps) :
    c'.tagHist = c.tagHist ∧ c'.tagStack <:+ c.tagStack :=
  let f := L1.run_tf inp g n e c m c' ps h
  ⟨f.hist, f.suf⟩

/-- **Tag frame, generated-code model.**  Proved directly on LG (not through C01), so it needs
    neither `SkipTotal` nor well-formed stacks. -/
theorem gen_tag_frame (n : Nat) (e : Expr) (c c' : PState) (ps0 : List Pair) (m : Bool)
    (ps : List Pair) (h : LG.run g inp n e c ps0 = .done m c' ps) :
    c'.tagHist = c.tagHist ∧ c'.tagStack <:+ c.tagStack :=
  let f := LG.run_tf inp g n e c ps0 m c' ps h
  ⟨f.hist, f.suf⟩

/-- consequently a run started with no pending tags ends with none, and every tag pending at the
    end was pending at the start -/
theorem interp_pending_subset (n : Nat) (e : Expr) (c c' : PState) (m : Bool) (ps : List Pair)
    (h : L1.run g inp n e c = .done m c' ps) : ∀ t ∈ c'.tagStack, t ∈ c.tagStack :=
  fun _ ht => (interp_tag_frame g inp n e c c' m ps h).2.subset ht

/-- `Parser.parse` starts with both fields empty and ends with both fields empty -/
theorem interp_parse_tags_empty (fuel : Nat) (start : String) (k : Nat) (c : PState) (m : Bool)
    (ps : List Pair) (h : L1.parse g inp fuel start k = .done m c ps) :
    c.tagStack = [] ∧ c.tagHist = [] := by
  unfold L1.parse at h
  cases hl : g.lookup start with
  | none => rw [hl] at h; cases h
  | some r =>
    rw [hl] at h
    have f := L1.ruleParse_tf (L1.run_tf inp g fuel) r.name r.mod r.body (.init k) m c ps h
    exact ⟨List.suffix_nil.mp f.suf, f.hist⟩

theorem gen_parse_tags_empty (fuel : Nat) (start : String) (k : Nat) (c : PState) (m : Bool)
    (ps : List Pair) (h : LG.parse g inp fuel start k = .done m c ps) :
    c.tagStack = [] ∧ c.tagHist = [] := by
  unfold LG.parse at h
  cases hl : g.lookup start with
  | none => rw [hl] at h; cases h
  | some r =>
    rw [hl] at h
    simp only [] at h
    split at h
    · cases h
    · have f := LG.ruleG_tf (LG.run_tf inp g fuel) r.name r.mod r.body (.init k) [] m c ps h
      exact ⟨List.suffix_nil.mp f.suf, f.hist⟩

/-! ### (3) the restoring nodes give the tags back -/

/-- when every alternative in `pre` fails, `Choice.parse` goes on with the rest from the state
    the last `restore` left -/
theorem choiceParse_append_of_fail (rec : Sem1) :
    ∀ (pre rest : List Expr) (c c1 : PState) (ps1 : List Pair),
      L1.choiceParse rec pre c = .done false c1 ps1 →
      L1.choiceParse rec (pre ++ rest) c = L1.choiceParse rec rest c1 := by
  intro pre
  induction pre with
  | nil =>
    intro rest c c1 ps1 h
    simp only [L1.choiceParse, R1.done.injEq, true_and] at h
    rw [h.1]; rfl
  | cons e pre ih =>
    intro rest c c1 ps1 h
    simp only [L1.choiceParse, List.cons_append] at h ⊢
    cases he : rec e c.checkpoint with
    | oof => rw [he] at h; cases h
    | exc k => rw [he] at h; cases h
    | done m c2 ps2 =>
      rw [he] at h
      cases m with
      | true => simp only [R1.done.injEq] at h; exact absurd h.1 (by decide)
      | false => exact ih rest c2.restore c1 ps1 h

/-- **Every alternative of a choice sees the tags the choice started with** (interpreter
    model).  If the alternatives `pre` of `pre ++ e :: post` have all failed from `c` — leaving
    `c1` —, then `c1` has the tag stack and tag history of `c`, whatever the failed
    alternatives consumed, and `Choice.parse` runs `e` next, from `c1.checkpoint`
    (`L1.choiceParse rec (e :: post) c1` is by definition
    `match rec e c1.checkpoint with | .done true c2 ps => .done true c2.ok ps | …`). -/
theorem choice_alternative_sees_same_tags (n : Nat) (pre : List Expr) (e : Expr) (post : List Expr)
    (c c1 : PState) (ps1 : List Pair)
    (h : L1.choiceParse (L1.run g inp n) pre c = .done false c1 ps1) :
    L1.choiceParse (L1.run g inp n) (pre ++ e :: post) c
        = L1.choiceParse (L1.run g inp n) (e :: post) c1 ∧
    c1.tagStack = c.tagStack ∧ c1.tagHist = c.tagHist ∧
    c1.checkpoint.tagStack = c.tagStack := by
  have t := (L1.choiceParse_tf (L1.run_tf inp g n) pre c).2 c1 ps1 h
  exact ⟨choiceParse_append_of_fail _ pre (e :: post) c c1 ps1 h, t.stack, t.hist, t.stack⟩

/-- the same for the generated code's `<Choice>` template -/
theorem gen_choice_alternative_sees_same_tags (n : Nat) (pre : List Expr) (c c1 : PState)
    (ps0 ps1 : List Pair) (h : LG.choiceG (LG.run g inp n) pre c ps0 = .done false c1 ps1) :
    c1.tagStack = c.tagStack ∧ c1.tagHist = c.tagHist ∧ c1.checkpoint.tagStack = c.tagStack := by
  have t := (LG.choiceG_tf (LG.run_tf inp g n) pre c ps0).2 c1 ps1 h
  exact ⟨t.stack, t.hist, t.stack⟩

/-- a choice that fails altogether leaves the tags as they were -/
theorem choice_failure_keeps_tags (n : Nat) (es : List Expr) (c c' : PState) (ps : List Pair)
    (h : L1.run g inp (n + 1) (.choice es) c = .done false c' ps) :
    c'.tagStack = c.tagStack ∧ c'.tagHist = c.tagHist := by
  have t := (L1.choiceParse_tf (L1.run_tf inp g n) es c).2 c' ps h
  exact ⟨t.stack, t.hist⟩

/-- an optional whose operand does not match leaves the tags as they were -/
theorem opt_no_match_keeps_tags (n : Nat) (e : Expr) (c c1 : PState) (ps1 : List Pair)
    (h : L1.run g inp n e c.checkpoint = .done false c1 ps1) :
    L1.run g inp (n + 1) (.opt e) c = .done true c1.restore [] ∧
    c1.restore.tagStack = c.tagStack ∧ c1.restore.tagHist = c.tagHist := by
  have t := (L1.run_tf inp g n e _ _ _ _ h).restore_after
  refine ⟨?_, t.stack, t.hist⟩
  simp only [L1.run, L1.step, h]

/-- the attempt that ends a repetition leaves the tags as they were before it -/
theorem rep_failed_item_keeps_tags (n k kk : Nat) (first : Bool) (e : Expr) (c c1 c2 : PState)
    (acc tps ps2 : List Pair) (m1 : Bool)
    (ht : (if first then R1.done true c.checkpoint []
           else L1.parseTrivia g (L1.run g inp n) kk c.checkpoint) = .done m1 c1 tps)
    (he : L1.run g inp n e c1 = .done false c2 ps2) :
    L1.repLoop g (L1.run g inp n) e (k + 1) kk first c acc = .done true c2.restore acc ∧
    c2.restore.tagStack = c.tagStack ∧ c2.restore.tagHist = c.tagHist := by
  have f1 : TagFrame c.checkpoint c1 := by
    by_cases hf : first = true
    · simp only [hf, ↓reduceIte, R1.done.injEq] at ht
      obtain ⟨_, rfl, _⟩ := ht
      exact .refl _
    · simp only [hf, Bool.false_eq_true, ↓reduceIte] at ht
      exact L1.parseTrivia_tf (L1.run_tf inp g n) kk _ _ _ _ ht
  have t := (f1.trans (L1.run_tf inp g n e _ _ _ _ he)).restore_after
  refine ⟨?_, t.stack, t.hist⟩
  simp only [L1.repLoop, ht, he]

/-- a positive predicate never changes the tags -/
theorem andP_keeps_tags (n : Nat) (e : Expr) (c c' : PState) (m : Bool) (ps : List Pair)
    (h : L1.run g inp (n + 1) (.andP e) c = .done m c' ps) :
    c'.tagStack = c.tagStack ∧ c'.tagHist = c.tagHist := by
  simp only [L1.run, L1.step] at h
  cases he : L1.run g inp n e c.checkpoint with
  | oof => rw [he] at h; cases h
  | exc k => rw [he] at h; cases h
  | done m1 c1 ps1 =>
    rw [he] at h
    simp only [R1.done.injEq] at h
    obtain ⟨_, rfl, _⟩ := h
    have t := (L1.run_tf inp g n e _ _ _ _ he).restore_after
    exact ⟨t.stack, t.hist⟩

/-- a negative predicate never changes the tags -/
theorem notP_keeps_tags (n : Nat) (e : Expr) (c c' : PState) (m : Bool) (ps : List Pair)
    (h : L1.run g inp (n + 1) (.notP e) c = .done m c' ps) :
    c'.tagStack = c.tagStack ∧ c'.tagHist = c.tagHist := by
  simp only [L1.run, L1.step] at h
  cases he : L1.run g inp n e { c.checkpoint with negDepth := c.checkpoint.negDepth + 1 } with
  | oof => rw [he] at h; cases h
  | exc k => rw [he] at h; cases h
  | done m1 c1 ps1 =>
    rw [he] at h
    have a' := L1.run_tf inp g n e _ _ _ _ he
    have a : TagFrame c.checkpoint c1 := ⟨a'.hist, a'.suf⟩
    have t := a.restore_after
    cases m1 with
    | false =>
      simp only [Bool.false_eq_true, ↓reduceIte, R1.done.injEq] at h
      obtain ⟨_, rfl, _⟩ := h
      exact ⟨t.stack, t.hist⟩
    | true =>
      simp only [↓reduceIte] at h
      cases hf : c1.restore.fail (L1.failedName e) true with
      | none => rw [hf] at h; cases h
      | some c3 =>
        rw [hf] at h
        simp only [R1.done.injEq] at h
        obtain ⟨_, rfl, _⟩ := h
        exact ⟨(fail_tags hf).1.trans t.stack, (fail_tags hf).2.trans t.hist⟩

/-- a failed attempt at a trivia rule inside `parse_trivia` leaves the tags as they were -/
theorem trivia_attempt_keeps_tags (n : Nat) (r : Option Rule) (c c1 : PState)
    (h : L1.tryTrivia (L1.run g inp n) r c = .no c1) :
    c1.tagStack = c.tagStack ∧ c1.tagHist = c.tagHist := by
  have t := L1.tryTrivia_tf (L1.run_tf inp g n) r c
  rw [h] at t
  exact ⟨t.stack, t.hist⟩

/-! ### Non-vacuity: the concrete effect -/

/-- `x = { "a" }   y = { "a" }   s = { #t1 = ((!x ~ ANY)* ~ y) }` -/
def demoG : Grammar :=
  { rules := [⟨"x", 0, .str [97], .grammar⟩,
              ⟨"y", 0, .str [97], .grammar⟩,
              ⟨"s", 0, .group (.seq [.rep (.seq [.notP (.ident "x" none), .rule "ANY" SILENT true .anyB]),
                                     .ident "y" none]) (some "t1"), .grammar⟩] }

/-- on "ba": the second `!x` matches `x` at 1, whose pair takes the pending tag `t1` and is then
    thrown away by the predicate's `restore`; the tag comes back with it, so the pair `y` that
    follows carries `t1` (it carried no tag when `restore` left `tag_stack` alone) -/
example : (match L1.parse demoG #[98, 97] 14 "s" 0 with
    | .done true c [.mk "s" 0 0 2 [.mk "y" 0 1 2 [] (some "t1")] none] =>
      c.pos == 2 && c.tagStack.isEmpty && c.tagHist.isEmpty
    | _ => false) = true := by decide +kernel

-- the generated-code model does the same
example : (match LG.parse demoG #[98, 97] 14 "s" 0 with
    | .done true c [.mk "s" 0 0 2 [.mk "y" 0 1 2 [] (some "t1")] none] =>
      c.pos == 2 && c.tagStack.isEmpty && c.tagHist.isEmpty
    | _ => false) = true := by decide +kernel

/-- `x = { "a" }   y = { "a" }   s = { #t1 = ((x ~ "z") | y) }`: the headline on a choice -/
def demoC : Grammar :=
  { rules := [⟨"x", 0, .str [97], .grammar⟩,
              ⟨"y", 0, .str [97], .grammar⟩,
              ⟨"s", 0, .group (.choice [.seq [.ident "x" none, .str [122]], .ident "y" none]) (some "t1"),
                .grammar⟩] }

/-- on "a": the first alternative consumes `t1` (pair `x`) and then fails at `"z"`; the second
    alternative starts with `t1` pending again and its pair `y` carries it -/
example : (match L1.parse demoC #[97] 10 "s" 0 with
    | .done true _ [.mk "s" 0 0 1 [.mk "y" 0 0 1 [] (some "t1")] none] => true
    | _ => false) = true := by decide +kernel

example : (match LG.parse demoC #[97] 10 "s" 0 with
    | .done true _ [.mk "s" 0 0 1 [.mk "y" 0 0 1 [] (some "t1")] none] => true
    | _ => false) = true := by decide +kernel

/-- the hypothesis of `choice_alternative_sees_same_tags` is met with a first alternative that
    really consumed the tag: from a state with `t1` pending inside rule `s`, the alternatives
    `[x ~ "z"]` fail on "a" and leave `t1` pending -/
example : (match L1.choiceParse (L1.run demoC #[97] 8) [.seq [.ident "x" none, .str [122]]]
      { PState.init 0 with tagStack := ["t1"], rstack := (PState.init 0).rstack.push "s" } with
    | .done false c1 _ => c1.tagStack == ["t1"] && c1.tagHist.isEmpty
    | _ => false) = true := by decide +kernel

-- … whereas the sequence itself fails with the tag gone: a failing node does not restore
example : (match L1.run demoC #[97] 8 (.seq [.ident "x" none, .str [122]])
      { PState.init 0 with tagStack := ["t1"], rstack := (PState.init 0).rstack.push "s" } with
    | .done false c1 _ => c1.tagStack.isEmpty
    | _ => false) = true := by decide +kernel

end Tags
end Pest
