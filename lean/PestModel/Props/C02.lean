/-
  Props/C02.lean — property C02: "the optimizer preserves success/failure and the parse tree".

  Stated inside L0 (`Spec.lean`), fuel-independently (`L0.Conv`): for every pass list drawn from the
  exported default passes (any subset, order, repetition), every start rule, input, start
  position inside the input and result `r` (success with its end state and pairs, failure, or the
  `KeyError` of an undefined reference), the grammar `g` has meaning `r` iff the optimized
  grammar `g'` has.  The optimizer is `Opt.lean`, the mirror of `Optimizer.optimize` that the
  correspondence run compares tree-for-tree with the real one; L0 is what the interpreter (C03)
  and the generated code (C01) are proved to implement, for un-optimized and optimized rule
  tables alike — so the two readings of the property ("interpreted", "generated from the
  optimized rules") are the corollaries `opt_interp_agrees`, `optgen_agrees` below.

  The statement is an equivalence, so it also says: the optimized parser terminates exactly when
  the un-optimized one does.  L0 has no tags; "the same parse tree" is up to tags.

  ## Hypotheses (`WF`, decided by the executable `OptS.wfCheck` of OptHyps.lean)
  After the repairs of `_skip` (no `SkipUntil` branch), `inline_silent_rules` (never inlines
  `WHITESPACE` / `COMMENT`) and `_is_atomic` (the name `SKIP` is not trusted) the hypotheses are:
  * `nodes`  (`NodeOK` of every node of every rule body) — shapes the front end always builds:
      - embedded rule objects are the built-ins: silent (except `EOI`), never atomic / compound /
        non-atomic, their body is not directly another rule object or a reference, `ANY` is
        `_Any`, a Unicode property rule carries its own name
                                       — what `inline_builtin` / `squash` / `skip` assume;
      - no reference *by name* to `ANY` (the front end embeds the built-in object);
      - a reference to a silent rule is to a rule whose modifier is `_` alone (one modifier per
        rule): `inline_silent_rules` tests the SILENT bit only, an `_@` rule would lose its atomicity;
      - a `Choice` is not empty, a range is not reversed (neither can be loaded), an
        `OptimizedChoice` (optimizer-made) is non-empty, non-repeating, without reversed ranges.
  * `noFused`  no grammar rule called `SKIP` has the modifier `SILENT+ATOMIC` by which
              `parse_trivia` recognises the fused rule (a rule called `SKIP` with any other
              modifier is an ordinary rule, and `_optimize_skip_rule` then leaves the table alone).
  * `skipRef`  `SKIP` is referenced only if the grammar defines it (else the reference is a
              `KeyError` un-optimized and the fused trivia rule optimized).
  * `wsProgress`  if `WHITESPACE` is fused, no alternative is the empty string (the un-optimized
              `parse_trivia` loop does not end on it, the fused regex does)   — out of the repaired scope.
  * `k ≤ inp.size`  (`SkipUntil.parse` moves a position beyond the input *back* to its end)
                                                                    — out of the repaired scope.
  Every grammar shipped with the repository (examples/, tests/grammars/) satisfies `wfCheck`.
-/
import PestModel.Lemmas.OptSoundFinal
import PestModel.Props.C03
import PestModel.Props.C01

namespace Pest
namespace C02

open L0 OptS

/-- the hypotheses on the un-optimized grammar -/
abbrev WF (g : Grammar) : Prop := OptS.WF g

/-- the hypotheses can be evaluated -/
theorem wf_of_check {g : Grammar} (h : wfCheck g = true) : WF g := wfCheck_sound h

/-- the start state of `Parser.parse(start_rule, text, start_pos=k)` -/
abbrev s0 (k : Nat) : S0 := ⟨k, [], false⟩

/-- **C02.**  The optimized grammar means what the un-optimized one means. -/
theorem optimizer_sound (g g' : Grammar) (passes : List Opt.Pass)
    (hp : ∀ p ∈ passes, p ∈ Opt.defaultPasses) (hwf : WF g) (h : Opt.optimize g passes = some g') :
    ∀ (start : String) (_ : g.lookup start ≠ none) (inp : Input) (k : Nat) (_ : k ≤ inp.size) (r : R0),
      Conv g inp (.ident start none) (s0 k) r ↔ Conv g' inp (.ident start none) (s0 k) r := by
  intro start hs inp k hk r
  exact (optimize_sound hwf passes hp (kept_true _) (fun _ _ => trivial) (fun _ => trivial)
    (fun _ _ => trivial) h).1 inp _ _ r (NSR_start hs) hk

/-- the fused trivia rule of the optimized grammar cannot fail, so C03 / C01 apply to it -/
theorem optimized_skip_total (g g' : Grammar) (passes : List Opt.Pass)
    (hp : ∀ p ∈ passes, p ∈ Opt.defaultPasses) (hwf : WF g) (h : Opt.optimize g passes = some g') :
    SkipTotal g' :=
  (optimize_sound hwf passes hp (kept_true _) (fun _ _ => trivial) (fun _ => trivial)
    (fun _ _ => trivial) h).2.1

/-- the same for every expression (not mentioning `SKIP`, unless the grammar defines it), from
    every state inside the input -/
theorem optimizer_sound_expr (g g' : Grammar) (passes : List Opt.Pass)
    (hp : ∀ p ∈ passes, p ∈ Opt.defaultPasses) (hwf : WF g) (h : Opt.optimize g passes = some g')
    (inp : Input) (e : Expr) (he : g.lookup "SKIP" = none → NSR e) (s : S0) (hs : s.pos ≤ inp.size) (r : R0) :
    Conv g inp e s r ↔ Conv g' inp e s r :=
  (optimize_sound hwf passes hp (kept_true _) (fun _ _ => trivial) (fun _ => trivial)
    (fun _ _ => trivial) h).1 inp e s r he hs

/-- **Termination is preserved**: the optimized parser gives an answer (with enough recursion
    budget) exactly when the un-optimized one does -/
theorem optimizer_preserves_termination (g g' : Grammar) (passes : List Opt.Pass)
    (hp : ∀ p ∈ passes, p ∈ Opt.defaultPasses) (hwf : WF g) (h : Opt.optimize g passes = some g')
    (start : String) (hs : g.lookup start ≠ none) (inp : Input) (k : Nat) (hk : k ≤ inp.size) :
    (∃ n, run g inp n (.ident start none) (s0 k) ≠ .oof) ↔
    (∃ n, run g' inp n (.ident start none) (s0 k) ≠ .oof) := by
  have hsound := optimizer_sound g g' passes hp hwf h start hs inp k hk
  constructor
  · rintro ⟨n, hn⟩
    obtain ⟨m, hm, hr⟩ := (hsound _).1 ⟨n, rfl, hn⟩
    exact ⟨m, by rw [hm]; exact hr⟩
  · rintro ⟨n, hn⟩
    obtain ⟨m, hm, hr⟩ := (hsound _).2 ⟨n, rfl, hn⟩
    exact ⟨m, by rw [hm]; exact hr⟩

/-- `optimize` keeps names and modifiers and adds at most the rule `SKIP` (no hypothesis) -/
theorem optimizer_keeps_signature (g g' : Grammar) (passes : List Opt.Pass)
    (h : Opt.optimize g passes = some g') (n : String) (hn : n ≠ "SKIP") :
    (g'.lookup n).map (fun r => (r.name, r.mod)) = (g.lookup n).map (fun r => (r.name, r.mod)) :=
  optimize_sig h n hn

/-- `optimize` keeps SOI-freeness (`soiFree` looks through embedded rule objects) -/
theorem optimizer_keeps_soiFree (g g' : Grammar) (passes : List Opt.Pass)
    (hp : ∀ p ∈ passes, p ∈ Opt.defaultPasses) (hwf : WF g) (h : Opt.optimize g passes = some g')
    (hs : soiFreeG g = true) : soiFreeG g' = true :=
  optimize_soiFree hwf hp h hs

/-! ### "interpreted" and "generated from the optimized rules" -/

theorem parse_eq_run (g : Grammar) (inp : Input) (fuel : Nat) (start : String) (k : Nat) :
    L0.parse g inp fuel start k = run g inp (fuel + 1) (.ident start none) (s0 k) := by
  show _ = callRule g (run g inp fuel) start (s0 k)
  unfold L0.parse callRule
  cases g.lookup start <;> rfl

/-- **The interpreter on the optimized rules.**  Whatever `Parser.parse` answers with the
    optimized rule table — pairs, failure, `KeyError` — is the meaning of the *un-optimized*
    grammar. -/
theorem opt_interp_agrees (g g' : Grammar) (passes : List Opt.Pass)
    (hp : ∀ p ∈ passes, p ∈ Opt.defaultPasses) (hwf : WF g) (h : Opt.optimize g passes = some g')
    (start : String) (hs : g.lookup start ≠ none) (inp : Input) (k : Nat) (hk : k ≤ inp.size) (fuel : Nat) :
    match L1.parse g' inp fuel start k with
    | .oof => True
    | .exc e => e = .keyError ∧ Conv g inp (.ident start none) (s0 k) .stuck
    | .done true c ps =>
      ∃ s, Conv g inp (.ident start none) (s0 k) (.ok s (eraseTagsL ps)) ∧ s.pos = c.pos ∧ s.stk = c.ustack.items
    | .done false _ ps => Conv g inp (.ident start none) (s0 k) .fail ∧ ps = [] := by
  have hst := optimized_skip_total g g' passes hp hwf h
  have hsound := optimizer_sound g g' passes hp hwf h start hs inp k hk
  have hc := C03.parse_agrees_with_spec g' inp hst fuel start k
  rw [parse_eq_run] at hc
  revert hc
  cases L1.parse g' inp fuel start k with
  | oof => intro _; trivial
  | exc e =>
    intro hc
    exact ⟨hc.1, (hsound _).2 ⟨fuel + 1, hc.2, by simp⟩⟩
  | done m c ps =>
    cases m with
    | true =>
      intro hc
      obtain ⟨s, h1, h2, h3⟩ := hc
      exact ⟨s, (hsound _).2 ⟨fuel + 1, h1, by simp⟩, h2, h3⟩
    | false =>
      intro hc
      exact ⟨(hsound _).2 ⟨fuel + 1, hc.1, by simp⟩, hc.2⟩

/-- … and then the interpreter on the un-optimized rules gives the same verdict, the same end
    position and the same pairs (up to tags), with every sufficiently large recursion budget. -/
theorem opt_interp_vs_plain (g g' : Grammar) (passes : List Opt.Pass)
    (hp : ∀ p ∈ passes, p ∈ Opt.defaultPasses) (hwf : WF g) (h : Opt.optimize g passes = some g')
    (start : String) (hs : g.lookup start ≠ none) (inp : Input) (k : Nat) (hk : k ≤ inp.size) (fuel : Nat)
    (m : Bool) (c : PState) (ps : List Pair) (hr : L1.parse g' inp fuel start k = .done m c ps) :
    ∃ fuel0, ∀ f, fuel0 ≤ f → ∃ c1 ps1, L1.parse g inp f start k = .done m c1 ps1 ∧
      eraseTagsL ps1 = eraseTagsL ps ∧ (m = true → c1.pos = c.pos) := by
  have ha := opt_interp_agrees g g' passes hp hwf h start hs inp k hk fuel
  rw [hr] at ha
  have hst : SkipTotal g := by
    intro r hr; rw [hwf.noFused] at hr; exact absurd hr (by simp)
  cases m with
  | true =>
    obtain ⟨s, ⟨n, hn, hne⟩, h2, _⟩ := ha
    refine ⟨n, fun f hf => ?_⟩
    have hc := C03.parse_agrees_with_spec g inp hst f start k
    rw [parse_eq_run, Conv.mono g inp hn hne (by omega : n ≤ f + 1)] at hc
    revert hc
    cases L1.parse g inp f start k with
    | oof => intro hc; exact absurd hc (by simp)
    | exc e => intro hc; exact absurd hc.2 (by simp)
    | done m1 c1 ps1 =>
      cases m1 with
      | true =>
        intro hc
        obtain ⟨s1, h1, h3, _⟩ := hc
        simp only [R0.ok.injEq] at h1
        exact ⟨c1, ps1, rfl, h1.2.symm, fun _ => by rw [← h3, ← h1.1, h2]⟩
      | false => intro hc; exact absurd hc.1 (by simp)
  | false =>
    obtain ⟨⟨n, hn, hne⟩, hps⟩ := ha
    refine ⟨n, fun f hf => ?_⟩
    have hc := C03.parse_agrees_with_spec g inp hst f start k
    rw [parse_eq_run, Conv.mono g inp hn hne (by omega : n ≤ f + 1)] at hc
    revert hc
    cases L1.parse g inp f start k with
    | oof => intro hc; exact absurd hc (by simp)
    | exc e => intro hc; exact absurd hc.2 (by simp)
    | done m1 c1 ps1 =>
      cases m1 with
      | true => intro hc; obtain ⟨s1, h1, _⟩ := hc; exact absurd h1 (by simp)
      | false =>
        intro hc
        exact ⟨c1, ps1, rfl, by rw [hc.2, hps], fun h => absurd h (by simp)⟩

/-- **Code generated from the optimized rules.**  Whatever the generated module's `parse()`
    answers is the meaning of the un-optimized grammar (and exactly what the interpreter on the
    optimized rules answers: C01). -/
theorem optgen_agrees (g g' : Grammar) (passes : List Opt.Pass)
    (hp : ∀ p ∈ passes, p ∈ Opt.defaultPasses) (hwf : WF g) (h : Opt.optimize g passes = some g')
    (start : String) (hs : g.lookup start ≠ none) (inp : Input) (k : Nat) (hk : k ≤ inp.size) (fuel : Nat) :
    match LG.parse g' inp fuel start k with
    | .done true cg ps =>
      ∃ s, Conv g inp (.ident start none) (s0 k) (.ok s (eraseTagsL ps)) ∧ s.pos = cg.pos
    | .done false _ _ => Conv g inp (.ident start none) (s0 k) .fail
    | _ => True := by
  have hst := optimized_skip_total g g' passes hp hwf h
  have hgen := C01.generated_parse_eq g' inp hst fuel start k
  have hint := opt_interp_agrees g g' passes hp hwf h start hs inp k hk fuel
  revert hgen
  cases LG.parse g' inp fuel start k with
  | oof => intro _; trivial
  | exc e => intro _; trivial
  | done m cg ps =>
    cases m with
    | true =>
      intro hgen
      obtain ⟨c1, h1, h2⟩ := hgen
      rw [h1] at hint
      obtain ⟨s, hc, hpos, _⟩ := hint
      exact ⟨s, hc, by rw [hpos, h2]⟩
    | false =>
      intro hgen
      obtain ⟨c1, ps1, h1, _⟩ := hgen
      rw [h1] at hint
      exact hint.1

/-! ### Non-vacuity: a grammar on which every pass and the fusion rewrite something -/

def anyN : Expr := .rule "ANY" 2 true .anyB
def digitN : Expr := .rule "ASCII_DIGIT" 2 true (.range 48 57)

/-- `WHITESPACE = _{ " " | "\t" }`, `r = { "a" ~ d+ ~ s? ~ tail }`, `d = _{ ASCII_DIGIT }`,
    `s = _{ "x" | "y" }`, `tail = @{ (!("/" | "#") ~ ANY)* }` -/
def demoG : Grammar :=
  { rules := [
      ⟨"WHITESPACE", SILENT, .choice [.str [32], .str [9]], .grammar⟩,
      ⟨"r", 0, .seq [.str [97], .rep1 (.ident "d" none), .opt (.ident "s" none), .ident "tail" none], .grammar⟩,
      ⟨"d", SILENT, digitN, .grammar⟩,
      ⟨"s", SILENT, .choice [.str [120], .str [121]], .grammar⟩,
      ⟨"tail", ATOMIC,
        .rep (.group (.seq [.notP (.group (.choice [.str [47], .str [35]]) none), anyN]) none), .grammar⟩] }

def optG (g : Grammar) : Grammar := (Opt.optimize g Opt.defaultPasses).getD g

example : wfCheck demoG = true := by decide +kernel

/-- what the default optimizer makes of `demoG`: the fused `SKIP`, the unrolled and inlined `r`,
    the squashed `s`, the `SkipUntil` in `tail` -/
def demoRewritten (g' : Grammar) : Bool :=
  (match g'.lookup "SKIP" with
   | some ⟨_, 6, .optChoice [.lit [32] false, .lit [9] false] true, _⟩ => true | _ => false) &&
  (match g'.lookup "r" with
   | some ⟨_, _, .seq [.str [97], .seq [.range 48 57, .rep (.range 48 57)],
        .opt (.optChoice [.lit [120] false, .lit [121] false] false), .ident "tail" none], _⟩ => true
   | _ => false) &&
  (match g'.lookup "tail" with | some ⟨_, _, .skipUntil [[47], [35]], _⟩ => true | _ => false)

example : (Opt.optimize demoG Opt.defaultPasses).isSome = true ∧ demoRewritten (optG demoG) = true := by
  decide +kernel

def endOf : R0 → Option (Nat × Nat)
  | .ok s ps => some (s.pos, ps.length)
  | _ => none

/-- `a 12 y  hello/…`: both grammars consume up to the `/` and yield one pair -/
example : endOf (L0.parse demoG #[97, 32, 49, 50, 32, 121, 32, 104, 105, 47, 33] 30 "r" 0) = some (9, 1) ∧
    endOf (L0.parse (optG demoG) #[97, 32, 49, 50, 32, 121, 32, 104, 105, 47, 33] 30 "r" 0) = some (9, 1) := by
  decide +kernel

/-- a COMMENT-only grammar (fusion `SKIP = Repeat(COMMENT.expression)`), a built-in whose
    `with_children` makes a new object (`NEWLINE`), and an explicit reference to the silent trivia
    rule inside an atomic rule (which `inline_silent_rules` now leaves alone) -/
def newlineN : Expr := .rule "NEWLINE" 2 false (.choice [.str [10], .str [13, 10], .str [13]])

def demoG2 : Grammar :=
  { rules := [
      ⟨"COMMENT", SILENT, .seq [.str [35], .rep (.group (.seq [.notP newlineN, anyN]) none)], .grammar⟩,
      ⟨"line", 0, .seq [.ident "word" none, .rep (.ident "word" none), newlineN], .grammar⟩,
      ⟨"word", ATOMIC, .seq [.rep1 (.rule "ASCII_ALPHA" 2 true (.choice [.range 97 122, .range 65 90])),
                             .opt (.ident "COMMENT" none)], .grammar⟩] }

example : wfCheck demoG2 = true ∧ (Opt.optimize demoG2 Opt.defaultPasses).isSome = true ∧
    (match (optG demoG2).lookup "SKIP", (optG demoG2).lookup "word" with
     | some ⟨_, 6, .rep (.seq [.str [35], .skipUntil [[10], [13, 10], [13]]]), _⟩,
       some ⟨_, _, .seq [.seq [.optChoice _ false, .rep (.optChoice _ false)],
                        .opt (.ident "COMMENT" none)], _⟩ => true
     | _, _ => false) = true := by decide +kernel

example : endOf (L0.parse demoG2 #[97, 98, 35, 120, 10, 99, 10] 40 "line" 0) = some (5, 1) ∧
    endOf (L0.parse (optG demoG2) #[97, 98, 35, 120, 10, 99, 10] 40 "line" 0) = some (5, 1) := by
  decide +kernel

/-! ### Regression: the witnesses of the repaired findings (the optimizer now keeps the result) -/

/-- `x = @{ (!"a" ~ ANY)* }`, `y = @{ (!x ~ ANY)* }`: `_skip` no longer walks from `!x` into the
    `SkipUntil` that `x` has become -/
def badChain : Grammar :=
  { rules := [
      ⟨"x", ATOMIC, .rep (.group (.seq [.notP (.str [97]), anyN]) none), .grammar⟩,
      ⟨"y", ATOMIC, .rep (.group (.seq [.notP (.ident "x" none), anyN]) none), .grammar⟩] }

example : wfCheck badChain = true ∧
    endOf (L0.parse badChain #[98, 98, 97] 20 "y" 0) = some (0, 1) ∧
    endOf (L0.parse (optG badChain) #[98, 98, 97] 20 "y" 0) = some (0, 1) := by decide +kernel

/-- `WHITESPACE = _{ "a" ~ "b" }`, `x = { "<" ~ WHITESPACE ~ ">" }`: the silent trivia rule is no
    longer inlined -/
def badInline : Grammar :=
  { rules := [
      ⟨"WHITESPACE", SILENT, .seq [.str [97], .str [98]], .grammar⟩,
      ⟨"x", 0, .seq [.str [60], .ident "WHITESPACE" none, .str [62]], .grammar⟩] }

example : wfCheck badInline = true ∧
    endOf (L0.parse badInline #[60, 97, 97, 98, 98, 62] 20 "x" 0) = none ∧
    endOf (L0.parse (optG badInline) #[60, 97, 97, 98, 98, 62] 20 "x" 0) = none := by decide +kernel

/-- `WHITESPACE = _{ " " }`, `SKIP = { (!"y" ~ ANY)* }`: a grammar rule that happens to be called
    `SKIP` is an ordinary rule -/
def badSkipName : Grammar :=
  { rules := [
      ⟨"WHITESPACE", SILENT, .str [32], .grammar⟩,
      ⟨"SKIP", 0, .rep (.group (.seq [.notP (.str [121]), anyN]) none), .grammar⟩] }

example : wfCheck badSkipName = true ∧
    endOf (L0.parse badSkipName #[97, 32, 121] 20 "SKIP" 0) = some (1, 1) ∧
    endOf (L0.parse (optG badSkipName) #[97, 32, 121] 20 "SKIP" 0) = some (1, 1) := by decide +kernel

/-! ### The remaining hypotheses are needed: the mirrored optimizer changes the meaning without -/

/-- `COMMENT = _{ "#" }`, `x = { "a" ~ SKIP }`: an undefined reference to `SKIP` is a `KeyError`
    un-optimized and the fused trivia rule optimized (hypothesis `skipRef`) -/
def badSkipRef : Grammar :=
  { rules := [
      ⟨"COMMENT", SILENT, .str [35], .grammar⟩,
      ⟨"x", 0, .seq [.str [97], .ident "SKIP" none], .grammar⟩] }

example : wfCheck badSkipRef = false ∧
    endOf (L0.parse badSkipRef #[97, 35] 20 "x" 0) = none ∧
    endOf (L0.parse (optG badSkipRef) #[97, 35] 20 "x" 0) = some (2, 1) := by decide +kernel

/-- a rule called `SKIP` with the modifier `SILENT+ATOMIC` (the front end cannot build it) is what
    `parse_trivia` runs, but the optimizer does not know (hypothesis `noFused`) -/
def badFused : Grammar :=
  { rules := [
      ⟨"SKIP", SILENT + ATOMIC, .str [32], .grammar⟩,
      ⟨"x", 0, .rep (.group (.seq [.notP (.str [98]), anyN]) none), .grammar⟩] }

example : wfCheck badFused = false ∧
    endOf (L0.parse badFused #[97, 32, 98] 20 "x" 0) = some (1, 1) ∧
    endOf (L0.parse (optG badFused) #[97, 32, 98] 20 "x" 0) = some (2, 1) := by decide +kernel

/-- `WHITESPACE = _{ "" | " " }`: rejected by `wfCheck` (hypothesis `wsProgress`; the un-optimized
    `parse_trivia` loop does not terminate on it, which `decide` cannot show) -/
def badEmptyWS : Grammar :=
  { rules := [
      ⟨"WHITESPACE", SILENT, .choice [.str [], .str [32]], .grammar⟩,
      ⟨"x", 0, .seq [.str [97], .str [98]], .grammar⟩] }

example : wfCheck badEmptyWS = false := by decide +kernel

/-- a start position beyond the end of the input: `SkipUntil` moves it back (hypothesis `k ≤ inp.size`) -/
def beyond : Grammar :=
  { rules := [⟨"t", ATOMIC, .rep (.group (.seq [.notP (.str [97]), anyN]) none), .grammar⟩] }

example : wfCheck beyond = true ∧
    endOf (L0.parse beyond #[98] 20 "t" 3) = some (3, 1) ∧
    endOf (L0.parse (optG beyond) #[98] 20 "t" 3) = some (1, 1) := by decide +kernel

end C02
end Pest
