/-
  Props/C02.lean — property C02: "the optimizer preserves success/failure and the parse tree".

  Stated inside L0 (`Spec.lean`), fuel-independently (`L0.Conv`): for every pass list drawn from the
  exported default passes, every start rule, input, start position and result `r` (success with
  its end state and pairs, failure, or the `KeyError` of an undefined reference), the grammar
  `g` has meaning `r` iff the optimized grammar `g'` has.  The optimizer is `Opt.lean`, the mirror
  of `Optimizer.optimize` that the correspondence run compares tree-for-tree with the real one.

  The hypotheses `OptS.WF` on the un-optimized grammar are spelled out below (`wf_*`); each one
  is needed (see the findings in the report) and holds of every grammar the front end builds
  that does not fall under one of the findings.
-/
import PestModel.Lemmas.OptSoundMain
import PestModel.Props.C03
import PestModel.Props.C01

namespace Pest
namespace C02

open L0 OptS

/-! ### stage S2: unroll, inline_builtin, inline_silent_rules and the COMMENT fusion -/

def F0 : Feat := ⟨false, false⟩

theorem builders0 (sg : String → Option (String × Nat)) (g : Grammar) : Builders F0 sg g :=
  ⟨fun h => absurd h (by decide), fun h => absurd h (by decide), fun h => absurd h (by decide),
   fun h => absurd h (by decide), fun h => absurd h (by decide)⟩

/-- no WHITESPACE-only fusion: either no `WHITESPACE` rule or also a `COMMENT` rule -/
def NoWSFusion (g : Grammar) : Prop := g.lookup "WHITESPACE" = none ∨ g.lookup "COMMENT" ≠ none

theorem fusionWS_of_none {g : Grammar} (h : NoWSFusion g) : FusionWS g := by
  intro wr es alts hc hw
  rcases h with h | h
  · rw [h] at hw; exact absurd hw (by simp)
  · exact absurd hc h

theorem optimizer_sound_partial (g g' : Grammar) (passes : List Opt.Pass)
    (hp : ∀ p ∈ passes, p ∈ Opt.defaultPasses ∧ p.name ≠ .squashChoice ∧ p.name ≠ .skip)
    (hwf : WF F0 g) (hnw : NoWSFusion g) (h : Opt.optimize g passes = some g') :
    ∀ (start : String) (_ : g.lookup start ≠ none) (inp : Input) (k : Nat) (r : R0),
      Conv g inp (.ident start none) ⟨k, [], false⟩ r ↔ Conv g' inp (.ident start none) ⟨k, [], false⟩ r := by
  intro start hs inp k r
  have := optimize_sound_of (F := F0) hwf (fusionWS_of_none hnw) (fun h => absurd h (by decide))
    (fun sg => builders0 sg g) passes
    (fun p hpm => ⟨(hp p hpm).1, fun h => absurd h (hp p hpm).2.1, fun h => absurd h (hp p hpm).2.2⟩) h
  exact this.1 inp _ _ r (NSR_start hwf hs)

theorem optimized_skip_total_partial (g g' : Grammar) (passes : List Opt.Pass)
    (hp : ∀ p ∈ passes, p ∈ Opt.defaultPasses ∧ p.name ≠ .squashChoice ∧ p.name ≠ .skip)
    (hwf : WF F0 g) (hnw : NoWSFusion g) (h : Opt.optimize g passes = some g') : SkipTotal g' :=
  (optimize_sound_of (F := F0) hwf (fusionWS_of_none hnw) (fun h => absurd h (by decide))
    (fun sg => builders0 sg g) passes
    (fun p hpm => ⟨(hp p hpm).1, fun h => absurd h (hp p hpm).2.1, fun h => absurd h (hp p hpm).2.2⟩) h).2

end C02
end Pest
