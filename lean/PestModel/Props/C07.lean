/-
  Props/C07.lean — property C07, exception part: "parse() in every execution mode … either
  returns Pairs or raises PestParsingError — never IndexError, UnboundLocalError,
  AssertionError or any other exception — and repeating the call returns an equal result."

  What is proved here, for both models of the code (L1 = interpreter, LG = generated module):
  under syntactic hypotheses on the rule table (every reference is defined; for generated
  code additionally: every embedded rule object is a silent non-scoped built-in other than
  EOI and every rule called by name has a generated function) the answer of `parse` is
  `.oof` (out of fuel: the real code exceeds its recursion budget or loops — the property's
  "nesting stays within the budget" proviso; section 8 proves that on a `WF.wellFormed` grammar
  a finite budget always suffices) or `.done _ _ _` (`Pairs` when matched, `PestParsingError` otherwise).  No
  `.exc _` of any kind.

  Route.  L0: a `stuck` answer needs a reference to an undefined rule (`no_stuck`, by
  step-preservation).  L1: by the refinement `L1 ⊑ L0` the only exception of L1 is the
  `KeyError` that corresponds to `stuck`.  LG: by `LG ≈ L1` the only exceptions of LG are the
  "outside the model" markers `.other` / `.nameError`, which `shapeOk` excludes
  (`no_benign`, by step-preservation), and the `KeyError` of `parse` itself.
-/
import PestModel.Hyps
import PestModel.Props.C03
import PestModel.Props.C01
import PestModel.Lemmas.Term

namespace Pest
namespace C07

/-! ### 1. "free of references to undefined rules" -/

/-- the grammar has no reference to an undefined rule -/
def Closed (g : Grammar) : Prop := ∀ r ∈ g.rules, refsDefined g r.body = true

theorem closed_of_closedB {g : Grammar} (h : closedB g = true) : Closed g := by
  intro r hr
  simp only [closedB, List.all_eq_true] at h
  exact h r hr

theorem closedB_of_closed {g : Grammar} (h : Closed g) : closedB g = true := by
  simp only [closedB, List.all_eq_true]
  exact h

theorem refsDefinedL_iff (g : Grammar) (es : List Expr) :
    refsDefinedL g es = true ↔ ∀ e ∈ es, refsDefined g e = true := by
  induction es with
  | nil => simp [refsDefinedL]
  | cons e rest ih => simp [refsDefinedL, ih]

theorem refsDefined_replicate {g : Grammar} {e : Expr} (h : refsDefined g e = true) (n : Nat) :
    ∀ x ∈ List.replicate n e, refsDefined g x = true := by
  intro x hx
  rw [(List.mem_replicate.mp hx).2]; exact h

theorem refsDefined_opt {g : Grammar} {e : Expr} (h : refsDefined g e = true) :
    refsDefined g (.opt e) = true := by simp only [refsDefined]; exact h

theorem refsDefined_rep {g : Grammar} {e : Expr} (h : refsDefined g e = true) :
    refsDefined g (.rep e) = true := by simp only [refsDefined]; exact h

theorem refsDefined_append {g : Grammar} {xs ys : List Expr}
    (hx : ∀ x ∈ xs, refsDefined g x = true) (hy : ∀ x ∈ ys, refsDefined g x = true) :
    ∀ x ∈ xs ++ ys, refsDefined g x = true := by
  intro x h
  rcases List.mem_append.mp h with h | h
  · exact hx x h
  · exact hy x h

theorem refsDefined_pair {g : Grammar} {a b : Expr} (ha : refsDefined g a = true)
    (hb : refsDefined g b = true) : ∀ x ∈ [a, b], refsDefined g x = true := by
  intro x h
  simp only [List.mem_cons, List.not_mem_nil, or_false] at h
  rcases h with rfl | rfl
  · exact ha
  · exact hb

/-- the sequences the bounded repetitions unroll to stay closed -/
theorem refsDefined_unrolled {g : Grammar} {e : Expr} {es : List Expr} (h : refsDefined g e = true)
    (hu : L1.unrolled e = some es) : ∀ x ∈ es, refsDefined g x = true := by
  cases e with
  | rep1 e =>
    simp only [L1.unrolled, Option.some.injEq] at hu; subst hu
    simp only [refsDefined] at h
    exact refsDefined_pair h (refsDefined_rep h)
  | repExact e n =>
    simp only [L1.unrolled, Option.some.injEq] at hu; subst hu
    simp only [refsDefined] at h
    exact refsDefined_replicate h n
  | repMin e n =>
    simp only [L1.unrolled, Option.some.injEq] at hu; subst hu
    simp only [refsDefined] at h
    refine refsDefined_append (refsDefined_replicate h n) ?_
    intro x hx
    simp only [List.mem_cons, List.not_mem_nil, or_false] at hx
    subst hx; exact refsDefined_rep h
  | repMax e n =>
    simp only [L1.unrolled, Option.some.injEq] at hu; subst hu
    simp only [refsDefined] at h
    exact refsDefined_replicate (refsDefined_opt h) n
  | repMinMax e m n =>
    simp only [L1.unrolled, Option.some.injEq] at hu; subst hu
    simp only [refsDefined] at h
    exact refsDefined_append (refsDefined_replicate h m) (refsDefined_replicate (refsDefined_opt h) _)
  | _ => simp [L1.unrolled] at hu

theorem lookup_mem {g : Grammar} {n : String} {r : Rule} (h : g.lookup n = some r) : r ∈ g.rules :=
  List.mem_of_find?_eq_some h

theorem fusedSkip_mem {g : Grammar} {r : Rule} (h : g.fusedSkip = some r) : r ∈ g.rules :=
  lookup_mem (fusedSkip_lookup g h)

/-! ### 2. L0 is never stuck on a closed grammar -/

section L0
variable (g : Grammar) (inp : Input)

/-- a semantic function that is never stuck on closed expressions -/
def NS (rec : Sem0) : Prop := ∀ e s, refsDefined g e = true → rec e s ≠ .stuck

theorem ruleWrap_ns (name : String) (mod : Nat) (s s' : S0) (ps : List Pair) :
    L0.ruleWrap name mod s s' ps ≠ .stuck := by
  unfold L0.ruleWrap
  by_cases hS : hasBit mod SILENT = true <;> simp [hS]

theorem ruleApply_ns {rec : Sem0} (h : NS g rec) (name : String) (mod : Nat) (body : Expr) (s : S0)
    (hb : refsDefined g body = true) : L0.ruleApply rec name mod body s ≠ .stuck := by
  unfold L0.ruleApply
  have h1 := h body { s with atomic := L0.ruleAtomic name mod s.atomic } hb
  revert h1
  cases rec body { s with atomic := L0.ruleAtomic name mod s.atomic } with
  | ok s' ps => intro _; exact ruleWrap_ns name mod s s' ps
  | fail => intro _; simp
  | oof => intro _; simp
  | stuck => intro h1; exact absurd rfl h1

theorem callRule_ns {rec : Sem0} (hc : Closed g) (h : NS g rec) (name : String) (s : S0)
    (hd : (g.lookup name).isSome = true) : L0.callRule g rec name s ≠ .stuck := by
  unfold L0.callRule
  cases hl : g.lookup name with
  | none => rw [hl] at hd; cases hd
  | some r => exact ruleApply_ns g h r.name r.mod r.body s (hc r (lookup_mem hl))

theorem trySkip_ns {rec : Sem0} (h : NS g rec) (ro : Option Rule) (s : S0)
    (hb : ∀ r, ro = some r → refsDefined g r.body = true) : L0.trySkip rec ro s ≠ .stop .stuck := by
  unfold L0.trySkip
  cases ro with
  | none => simp
  | some r =>
    simp only []
    have h1 := ruleApply_ns g h r.name r.mod r.body s (hb r rfl)
    revert h1
    cases L0.ruleApply rec r.name r.mod r.body s with
    | ok s' ps => intro _; simp
    | fail => intro _; simp
    | oof => intro _; simp
    | stuck => intro h1; exact absurd rfl h1

theorem skipLoop_ns {rec : Sem0} (h : NS g rec) (ws cm : Option Rule)
    (hw : ∀ r, ws = some r → refsDefined g r.body = true)
    (hcm : ∀ r, cm = some r → refsDefined g r.body = true) :
    ∀ (k : Nat) (s : S0) (acc : List Pair), L0.skipLoop rec ws cm k s acc ≠ .stuck := by
  intro k
  induction k with
  | zero => intro s acc; simp [L0.skipLoop]
  | succ k ih =>
    intro s acc
    simp only [L0.skipLoop]
    have h1 := trySkip_ns g h ws s hw
    revert h1
    cases L0.trySkip rec ws s with
    | matched s' ps => intro _; exact ih s' _
    | stop r => intro h1 e; simp only [] at e; subst e; exact h1 rfl
    | no =>
      intro _
      simp only []
      have h2 := trySkip_ns g h cm s hcm
      revert h2
      cases L0.trySkip rec cm s with
      | matched s' ps => intro _; exact ih s' _
      | stop r => intro h2 e; simp only [] at e; subst e; exact h2 rfl
      | no => intro _; simp

theorem skip_ns {rec : Sem0} (hc : Closed g) (h : NS g rec) (k : Nat) (s : S0) :
    L0.skip g rec k s ≠ .stuck := by
  unfold L0.skip
  by_cases ha : s.atomic = true
  · simp [ha]
  · simp only [ha, Bool.false_eq_true, ↓reduceIte]
    cases hf : g.fusedSkip with
    | some r => exact ruleApply_ns g h r.name r.mod r.body s (hc r (fusedSkip_mem hf))
    | none =>
      simp only []
      by_cases hn : ((g.lookup "WHITESPACE").isNone && (g.lookup "COMMENT").isNone) = true
      · simp [hn]
      · simp only [hn, Bool.false_eq_true, ↓reduceIte]
        exact skipLoop_ns g h _ _ (fun r hr => hc r (lookup_mem hr)) (fun r hr => hc r (lookup_mem hr)) k s []

theorem seqL_ns {rec : Sem0} (hc : Closed g) (h : NS g rec) (k : Nat) :
    ∀ (es : List Expr) (s : S0) (acc : List Pair), (∀ e ∈ es, refsDefined g e = true) →
      L0.seqL g rec k es s acc ≠ .stuck := by
  intro es
  induction es with
  | nil => intro s acc _; simp [L0.seqL]
  | cons e rest ih =>
    intro s acc hes
    simp only [L0.seqL]
    have he := h e s (hes e List.mem_cons_self)
    have hrest : ∀ x ∈ rest, refsDefined g x = true := fun x hx => hes x (List.mem_cons_of_mem _ hx)
    revert he
    cases rec e s with
    | fail => intro _; simp
    | oof => intro _; simp
    | stuck => intro he; exact absurd rfl he
    | ok s1 ps =>
      intro _
      simp only []
      by_cases hr : rest.isEmpty = true
      · simp [hr]
      · simp only [hr, Bool.false_eq_true, ↓reduceIte]
        have hs := skip_ns g hc h k s1
        revert hs
        cases L0.skip g rec k s1 with
        | ok s2 tps => intro _; exact ih s2 _ hrest
        | fail => intro _; exact ih s1 _ hrest
        | oof => intro _; simp
        | stuck => intro hs; exact absurd rfl hs

theorem choiceL_ns {rec : Sem0} (h : NS g rec) :
    ∀ (es : List Expr) (s : S0), (∀ e ∈ es, refsDefined g e = true) → L0.choiceL rec es s ≠ .stuck := by
  intro es
  induction es with
  | nil => intro s _; simp [L0.choiceL]
  | cons e rest ih =>
    intro s hes
    simp only [L0.choiceL]
    have he := h e s (hes e List.mem_cons_self)
    revert he
    cases rec e s with
    | fail => intro _; exact ih s fun x hx => hes x (List.mem_cons_of_mem _ hx)
    | oof => intro _; simp
    | stuck => intro he; exact absurd rfl he
    | ok s1 ps => intro _; simp

theorem repLoop_ns {rec : Sem0} (hc : Closed g) (h : NS g rec) (e : Expr) (kk : Nat)
    (he : refsDefined g e = true) :
    ∀ (k : Nat) (first : Bool) (s : S0) (acc : List Pair), L0.repLoop g rec e k kk first s acc ≠ .stuck := by
  intro k
  induction k with
  | zero => intro first s acc; simp [L0.repLoop]
  | succ k ih =>
    intro first s acc
    simp only [L0.repLoop]
    have hsk : (if first = true then R0.ok s [] else L0.skip g rec kk s) ≠ .stuck := by
      by_cases hf : first = true
      · simp [hf]
      · simp only [hf, Bool.false_eq_true, ↓reduceIte]; exact skip_ns g hc h kk s
    revert hsk
    cases (if first = true then R0.ok s [] else L0.skip g rec kk s) with
    | fail => intro _; simp
    | oof => intro _; simp
    | stuck => intro hsk; exact absurd rfl hsk
    | ok s1 tps =>
      intro _
      simp only []
      have h1 := h e s1 he
      revert h1
      cases rec e s1 with
      | ok s2 ps => intro _; exact ih false s2 _
      | fail => intro _; simp
      | oof => intro _; simp
      | stuck => intro h1; exact absurd rfl h1

/-- one node: `stuck` cannot appear out of nothing -/
theorem step_ns {rec : Sem0} (hc : Closed g) (k : Nat) (h : NS g rec) : NS g (L0.step g inp k rec) := by
  intro e s hd
  cases e with
  | ident name tag =>
    simp only [refsDefined] at hd
    exact callRule_ns g hc h name s hd
  | rule name mod sm body =>
    simp only [refsDefined] at hd
    exact ruleApply_ns g h name mod body s hd
  | seq es =>
    simp only [refsDefined] at hd
    exact seqL_ns g hc h k es s [] ((refsDefinedL_iff g es).mp hd)
  | choice es =>
    simp only [refsDefined] at hd
    exact choiceL_ns g h es s ((refsDefinedL_iff g es).mp hd)
  | opt e =>
    simp only [refsDefined] at hd
    simp only [L0.step]
    have h1 := h e s hd
    revert h1
    cases rec e s with
    | stuck => intro h1; exact absurd rfl h1
    | _ => intro _; simp
  | rep e =>
    simp only [refsDefined] at hd
    exact repLoop_ns g hc h e k hd k true s []
  | rep1 e => exact seqL_ns g hc h k _ s [] (refsDefined_unrolled hd rfl)
  | repExact e n => exact seqL_ns g hc h k _ s [] (refsDefined_unrolled hd rfl)
  | repMin e n => exact seqL_ns g hc h k _ s [] (refsDefined_unrolled hd rfl)
  | repMax e n => exact seqL_ns g hc h k _ s [] (refsDefined_unrolled hd rfl)
  | repMinMax e m n => exact seqL_ns g hc h k _ s [] (refsDefined_unrolled hd rfl)
  | andP e =>
    simp only [refsDefined] at hd
    simp only [L0.step]
    have h1 := h e s hd
    revert h1
    cases rec e s with
    | stuck => intro h1; exact absurd rfl h1
    | _ => intro _; simp
  | notP e =>
    simp only [refsDefined] at hd
    simp only [L0.step]
    have h1 := h e s hd
    revert h1
    cases rec e s with
    | stuck => intro h1; exact absurd rfl h1
    | _ => intro _; simp
  | group e tag =>
    simp only [refsDefined] at hd
    exact h e s hd
  | push e =>
    simp only [refsDefined] at hd
    simp only [L0.step]
    have h1 := h e s hd
    revert h1
    cases rec e s with
    | stuck => intro h1; exact absurd rfl h1
    | _ => intro _; simp
  | str x => simp only [L0.step]; split <;> simp
  | ci x => simp only [L0.step]; split <;> simp
  | range a b => simp only [L0.step]; split <;> (try split) <;> simp
  | pushLit x => simp [L0.step]
  | peek => simp only [L0.step]; split <;> (try split) <;> simp
  | pop => simp only [L0.step]; split <;> (try split) <;> simp
  | drop => simp only [L0.step]; split <;> simp
  | peekAll => simp only [L0.step]; split <;> simp
  | popAll => simp only [L0.step]; split <;> simp
  | peekSlice a b => simp only [L0.step]; split <;> simp
  | anyB => simp only [L0.step]; split <;> simp
  | soiB => simp only [L0.step]; split <;> simp
  | eoiB => simp only [L0.step]; split <;> simp
  | uprop n => simp only [L0.step]; split <;> (try split) <;> simp
  | skipUntil subs => simp [L0.step]
  | optChoice alts star => simp only [L0.step]; split <;> simp

theorem run_ns (hc : Closed g) : ∀ n, NS g (L0.run g inp n) := by
  intro n
  induction n with
  | zero => intro e s _; simp [L0.run]
  | succ n ih => exact step_ns g inp hc n ih

/-- **L0 is never stuck on a closed grammar**: `stuck` is exactly "reference to an undefined rule" -/
theorem no_stuck (hc : Closed g) (n : Nat) (e : Expr) (s : S0) (hd : refsDefined g e = true) :
    L0.run g inp n e s ≠ .stuck :=
  run_ns g inp hc n e s hd

theorem parse_no_stuck (hc : Closed g) (start : String) (hst : (g.lookup start).isSome = true)
    (fuel k : Nat) : L0.parse g inp fuel start k ≠ .stuck := by
  unfold L0.parse
  cases hl : g.lookup start with
  | none => rw [hl] at hst; cases hst
  | some r =>
    exact ruleApply_ns g (run_ns g inp hc fuel) r.name r.mod r.body _ (hc r (lookup_mem hl))

end L0

/-! ### 3. The interpreter model raises nothing -/

section L1
variable (g : Grammar) (inp : Input)

/-- **run level**: from any reachable state, a closed expression of a closed grammar makes the
    interpreter model raise nothing at all (no `IndexError` from the rule stack / user stack /
    `_pos_history`, no `KeyError`) -/
theorem interp_run_no_exc (hc : Closed g) (hs : SkipTotal g) (n : Nat) (e : Expr) (c : PState)
    (hd : refsDefined g e = true) (p : Pre c) (x : PyExc) : L1.run g inp n e c ≠ .exc x := by
  intro hx
  have h := (run_good g inp hs n).rel e c p
  rw [hx] at h
  exact no_stuck g inp hc n e (abs0 c) hd h.2

/-- **`Parser.parse` raises nothing** (other than `PestParsingError`, which is `.done false`) -/
theorem interp_no_exc (hc : Closed g) (hs : SkipTotal g) (start : String)
    (hst : (g.lookup start).isSome = true) (fuel k : Nat) (x : PyExc) :
    L1.parse g inp fuel start k ≠ .exc x := by
  intro hx
  have h := C03.parse_agrees_with_spec g inp hs fuel start k
  rw [hx] at h
  exact parse_no_stuck g inp hc start hst fuel k h.2

end L1

/-! ### 4. Generated code raises nothing -/

/-- the hypothesis on the rule table for generated code: every body has a shape the generator
    handles, and the trivia rules `parse_trivia` calls by name (if defined) have a function -/
structure GenShape (g : Grammar) : Prop where
  bodies : ∀ r ∈ g.rules, shapeOk g r.body = true
  trivia : ∀ n ∈ triviaNames, (g.lookup n).isSome = true → callable g n = true

theorem genShape_of_genShapeB {g : Grammar} (h : genShapeB g = true) : GenShape g := by
  simp only [genShapeB, Bool.and_eq_true, List.all_eq_true, Bool.or_eq_true,
    Bool.not_eq_true'] at h
  refine ⟨h.1, ?_⟩
  intro n hn hd
  rcases h.2 n hn with h' | h'
  · rw [hd] at h'; cases h'
  · exact h'

/-- the uniform (simplest) sufficient condition: the only built-in kept in the rule table is
    EOI (true of every table the front end builds: the other built-ins are embedded as rule
    objects, never referenced by name); then "callable" is just "defined" -/
def OnlyEOI (g : Grammar) : Prop := ∀ r ∈ g.rules, (r.kind == .builtin && r.name != "EOI") = false

theorem callable_isSome {g : Grammar} {n : String} (h : callable g n = true) :
    (g.lookup n).isSome = true := by
  unfold callable at h
  cases hl : g.lookup n with
  | none => rw [hl] at h; cases h
  | some r => rfl

theorem callable_of_onlyEOI {g : Grammar} (hu : OnlyEOI g) {n : String}
    (h : (g.lookup n).isSome = true) : callable g n = true := by
  unfold callable
  cases hl : g.lookup n with
  | none => rw [hl] at h; cases h
  | some r => simp only [hu r (lookup_mem hl), Bool.not_false]

theorem shapeOkL_iff (g : Grammar) (es : List Expr) :
    shapeOkL g es = true ↔ ∀ e ∈ es, shapeOk g e = true := by
  induction es with
  | nil => simp [shapeOkL]
  | cons e rest ih => simp [shapeOkL, ih]

mutual
/-- `shapeOk` subsumes `refsDefined` -/
theorem refsDefined_of_shapeOk (g : Grammar) : ∀ e : Expr, shapeOk g e = true → refsDefined g e = true
  | .ident n _, h => by
    simp only [shapeOk] at h; simp only [refsDefined]; exact callable_isSome h
  | .rule _ _ _ b, h => by
    simp only [shapeOk, Bool.and_eq_true] at h; simp only [refsDefined]
    exact refsDefined_of_shapeOk g b h.2
  | .seq es, h => by
    simp only [shapeOk] at h; simp only [refsDefined]; exact refsDefinedL_of_shapeOkL g es h
  | .choice es, h => by
    simp only [shapeOk] at h; simp only [refsDefined]; exact refsDefinedL_of_shapeOkL g es h
  | .opt e, h => by
    simp only [shapeOk] at h; simp only [refsDefined]; exact refsDefined_of_shapeOk g e h
  | .rep e, h => by
    simp only [shapeOk] at h; simp only [refsDefined]; exact refsDefined_of_shapeOk g e h
  | .rep1 e, h => by
    simp only [shapeOk] at h; simp only [refsDefined]; exact refsDefined_of_shapeOk g e h
  | .repExact e _, h => by
    simp only [shapeOk] at h; simp only [refsDefined]; exact refsDefined_of_shapeOk g e h
  | .repMin e _, h => by
    simp only [shapeOk] at h; simp only [refsDefined]; exact refsDefined_of_shapeOk g e h
  | .repMax e _, h => by
    simp only [shapeOk] at h; simp only [refsDefined]; exact refsDefined_of_shapeOk g e h
  | .repMinMax e _ _, h => by
    simp only [shapeOk] at h; simp only [refsDefined]; exact refsDefined_of_shapeOk g e h
  | .andP e, h => by
    simp only [shapeOk] at h; simp only [refsDefined]; exact refsDefined_of_shapeOk g e h
  | .notP e, h => by
    simp only [shapeOk] at h; simp only [refsDefined]; exact refsDefined_of_shapeOk g e h
  | .group e _, h => by
    simp only [shapeOk] at h; simp only [refsDefined]; exact refsDefined_of_shapeOk g e h
  | .push e, h => by
    simp only [shapeOk] at h; simp only [refsDefined]; exact refsDefined_of_shapeOk g e h
  | .str _, _ | .ci _, _ | .range _ _, _ | .pushLit _, _ | .peek, _ | .pop, _ | .drop, _
  | .peekAll, _ | .popAll, _ | .peekSlice _ _, _ | .anyB, _ | .soiB, _ | .eoiB, _ | .uprop _, _
  | .skipUntil _, _ | .optChoice _ _, _ => by simp only [refsDefined]
theorem refsDefinedL_of_shapeOkL (g : Grammar) :
    ∀ es : List Expr, shapeOkL g es = true → refsDefinedL g es = true
  | [], _ => by simp only [refsDefinedL]
  | e :: es, h => by
    simp only [shapeOkL, Bool.and_eq_true] at h
    simp only [refsDefinedL, Bool.and_eq_true]
    exact ⟨refsDefined_of_shapeOk g e h.1, refsDefinedL_of_shapeOkL g es h.2⟩
end

theorem GenShape.closed {g : Grammar} (h : GenShape g) : Closed g :=
  fun r hr => refsDefined_of_shapeOk g r.body (h.bodies r hr)

section LG
variable (g : Grammar) (inp : Input)

/-- the result is not one of the "outside the model" markers `.exc .other` / `.exc .nameError` -/
def NB : RG → Prop
  | .exc x => benign x = false
  | _ => True

theorem NB_iff (r : RG) : NB r ↔ (r ≠ .exc .other ∧ r ≠ .exc .nameError) := by
  cases r with
  | oof => simp [NB]
  | done m c ps => simp [NB]
  | exc x => cases x <;> simp [NB, benign]

/-- a semantic function that never answers `.exc .other` / `.exc .nameError` on handled shapes -/
def NoBenign (rec : SemG) : Prop := ∀ e c ps, shapeOk g e = true → NB (rec e c ps)

/-- `NoBenign` in the literal form -/
theorem noBenign_iff (rec : SemG) :
    NoBenign g rec ↔
      ∀ e c ps, shapeOk g e = true → rec e c ps ≠ .exc .other ∧ rec e c ps ≠ .exc .nameError := by
  constructor
  · intro h e c ps hs; exact (NB_iff _).mp (h e c ps hs)
  · intro h e c ps hs; exact (NB_iff _).mpr (h e c ps hs)

theorem failT_nb (c : PState) (ps : List Pair) : NB (LG.failT c ps) := by
  unfold LG.failT
  cases c.fail none false <;> simp [NB, benign]

theorem ruleExitG_nb (name : String) (mod : Nat) (start : Nat) (m : Bool) (c2 : PState)
    (ch ps : List Pair) : NB (LG.ruleExitG name mod start m c2 ch ps) := by
  unfold LG.ruleExitG
  generalize (if L1.ruleScoped name mod then ({ c2 with adepth := c2.adepth.restore } : PState) else c2) = c3
  cases hp : c3.rstack.pop with
  | none => simp [hp, NB, benign]
  | some q =>
    obtain ⟨x, rs⟩ := q
    simp only [hp]
    cases m with
    | false => simp [NB]
    | true =>
      simp only [Bool.not_true, Bool.false_eq_true, ↓reduceIte]
      by_cases hS : hasBit mod SILENT = true
      · simp [hS, NB]
      · simp only [hS, Bool.false_eq_true, ↓reduceIte]; trivial

theorem ruleG_nb {rec : SemG} (h : NoBenign g rec) (name : String) (mod : Nat) (body : Expr)
    (c : PState) (ps : List Pair) (hb : shapeOk g body = true) : NB (LG.ruleG rec name mod body c ps) := by
  unfold LG.ruleG
  have h1 := h body (L1.ruleEnter name mod { c with rstack := c.rstack.push name }) [] hb
  revert h1
  cases rec body (L1.ruleEnter name mod { c with rstack := c.rstack.push name }) [] with
  | oof => exact id
  | exc x => exact id
  | done m c2 ch => intro _; exact ruleExitG_nb name mod c.pos m c2 ch ps

theorem callRuleG_nb {rec : SemG} (hg : GenShape g) (h : NoBenign g rec) (name : String)
    (c : PState) (ps : List Pair) (hc : callable g name = true) : NB (LG.callRuleG g rec name c ps) := by
  unfold LG.callRuleG
  unfold callable at hc
  cases hl : g.lookup name with
  | none => rw [hl] at hc; cases hc
  | some r =>
    rw [hl] at hc
    simp only [Bool.not_eq_true'] at hc
    simp only [hc, Bool.false_eq_true, ↓reduceIte]
    exact ruleG_nb g h r.name r.mod r.body c ps (hg.bodies r (lookup_mem hl))

theorem withTagG_nb (tag : Option String) (c : PState) (body : PState → RG) (hb : ∀ d, NB (body d)) :
    NB (LG.withTagG tag c body) := by
  unfold LG.withTagG
  cases tag with
  | none => exact hb c
  | some t =>
    simp only []
    have h1 := hb { c with tagStack := t :: c.tagStack }
    revert h1
    cases body { c with tagStack := t :: c.tagStack } with
    | oof => exact id
    | exc x => exact id
    | done m c' ps => intro _; trivial

/-- a stopped trivia attempt does not carry a marker -/
def NBT : LG.TryG → Prop
  | .stop r => NB r
  | _ => True

theorem tryTriviaG_nb {rec : SemG} (hg : GenShape g) (h : NoBenign g rec) (on : Bool) (name : String)
    (c : PState) (ps : List Pair) (hc : on = true → callable g name = true) :
    NBT (LG.tryTriviaG g rec on name c ps) := by
  unfold LG.tryTriviaG
  cases on with
  | false => simp [NBT]
  | true =>
    simp only [Bool.not_true, Bool.false_eq_true, ↓reduceIte]
    have h1 := callRuleG_nb g hg h name c.checkpoint ps (hc rfl)
    revert h1
    cases LG.callRuleG g rec name c.checkpoint ps with
    | oof => exact id
    | exc x => exact id
    | done m c' ps' => intro _; cases m <;> trivial

theorem triviaLoopG_nb {rec : SemG} (hg : GenShape g) (h : NoBenign g rec) (hasWs hasCm : Bool)
    (hw : hasWs = true → callable g "WHITESPACE" = true)
    (hcm : hasCm = true → callable g "COMMENT" = true) :
    ∀ (k : Nat) (c : PState) (ps : List Pair), NB (LG.triviaLoopG g rec hasWs hasCm k c ps) := by
  intro k
  induction k with
  | zero => intro c ps; simp [LG.triviaLoopG, NB]
  | succ k ih =>
    intro c ps
    simp only [LG.triviaLoopG]
    have h1 := tryTriviaG_nb g hg h hasWs "WHITESPACE" c ps hw
    revert h1
    cases LG.tryTriviaG g rec hasWs "WHITESPACE" c ps with
    | matched c' ps' => intro _; exact ih c' ps'
    | stop r => exact id
    | no c1 ps1 =>
      intro _
      simp only []
      have h2 := tryTriviaG_nb g hg h hasCm "COMMENT" c1 ps1 hcm
      revert h2
      cases LG.tryTriviaG g rec hasCm "COMMENT" c1 ps1 with
      | matched c' ps' => intro _; exact ih c' ps'
      | stop r => exact id
      | no c2 ps2 => intro _; trivial

theorem parseTriviaG_nb {rec : SemG} (hg : GenShape g) (h : NoBenign g rec) (k : Nat) (c : PState)
    (ps : List Pair) : NB (LG.parseTriviaG g rec k c ps) := by
  unfold LG.parseTriviaG
  simp only []
  by_cases h0 : (!(g.fusedSkip.isSome || g.defines "WHITESPACE" || g.defines "COMMENT")) = true
  · simp only [h0, ↓reduceIte]; trivial
  · simp only [h0, Bool.false_eq_true, ↓reduceIte]
    by_cases ha : c.adepth.val > 0
    · simp only [ha, ↓reduceIte]; trivial
    · simp only [ha, ↓reduceIte]
      by_cases hsk : g.fusedSkip.isSome = true
      · simp only [hsk, ↓reduceIte]
        apply callRuleG_nb g hg h "SKIP" c ps
        apply hg.trivia "SKIP" (by simp [triviaNames])
        cases hf : g.fusedSkip with
        | none => rw [hf] at hsk; cases hsk
        | some r => rw [fusedSkip_lookup g hf]; rfl
      · simp only [hsk, Bool.false_eq_true, ↓reduceIte]
        have hl := triviaLoopG_nb g hg h (g.defines "WHITESPACE") (g.defines "COMMENT")
          (fun hd => hg.trivia "WHITESPACE" (by simp [triviaNames]) hd)
          (fun hd => hg.trivia "COMMENT" (by simp [triviaNames]) hd) k { c with suppress := true } ps
        revert hl
        cases LG.triviaLoopG g rec (g.defines "WHITESPACE") (g.defines "COMMENT") k
          { c with suppress := true } ps with
        | oof => exact id
        | exc x => exact id
        | done m c' ps' => intro _; trivial

theorem seqG_nb {rec : SemG} (hg : GenShape g) (h : NoBenign g rec) (k : Nat) :
    ∀ (es : List Expr) (c : PState) (ps : List Pair), (∀ e ∈ es, shapeOk g e = true) →
      NB (LG.seqG g rec k es c ps) := by
  intro es
  induction es with
  | nil => intro c ps _; simp [LG.seqG, NB]
  | cons e rest ih =>
    intro c ps hes
    simp only [LG.seqG]
    have he := h e c ps (hes e List.mem_cons_self)
    have hrest : ∀ x ∈ rest, shapeOk g x = true := fun x hx => hes x (List.mem_cons_of_mem _ hx)
    revert he
    cases rec e c ps with
    | oof => exact id
    | exc x => exact id
    | done m c1 ps1 =>
      intro _
      cases m with
      | false => trivial
      | true =>
        simp only []
        by_cases hr : rest.isEmpty = true
        · simp only [hr, ↓reduceIte]; trivial
        · simp only [hr, Bool.false_eq_true, ↓reduceIte]
          have ht := parseTriviaG_nb g hg h k c1 ps1
          revert ht
          cases LG.parseTriviaG g rec k c1 ps1 with
          | oof => exact id
          | exc x => exact id
          | done m2 c2 ps2 => intro _; exact ih c2 ps2 hrest

theorem choiceG_nb {rec : SemG} (h : NoBenign g rec) :
    ∀ (es : List Expr) (c : PState) (ps : List Pair), (∀ e ∈ es, shapeOk g e = true) →
      NB (LG.choiceG rec es c ps) := by
  intro es
  induction es with
  | nil => intro c ps _; simp [LG.choiceG, NB]
  | cons e rest ih =>
    intro c ps hes
    simp only [LG.choiceG]
    have he := h e c.checkpoint [] (hes e List.mem_cons_self)
    revert he
    cases rec e c.checkpoint [] with
    | oof => exact id
    | exc x => exact id
    | done m c1 tmp =>
      intro _
      cases m with
      | true => trivial
      | false => exact ih c1.restore ps fun x hx => hes x (List.mem_cons_of_mem _ hx)

theorem repLoopG_nb {rec : SemG} (hg : GenShape g) (h : NoBenign g rec) (e : Expr) (kk : Nat)
    (he : shapeOk g e = true) :
    ∀ (k : Nat) (first : Bool) (c : PState) (ps : List Pair), NB (LG.repLoopG g rec e k kk first c ps) := by
  intro k
  induction k with
  | zero => intro first c ps; simp [LG.repLoopG, NB]
  | succ k ih =>
    intro first c ps
    simp only [LG.repLoopG]
    have hT : NB (if first = true then RG.done true c.checkpoint [] else LG.parseTriviaG g rec kk c.checkpoint []) := by
      by_cases hf : first = true
      · simp only [hf, ↓reduceIte]; trivial
      · simp only [hf, Bool.false_eq_true, ↓reduceIte]; exact parseTriviaG_nb g hg h kk c.checkpoint []
    revert hT
    cases (if first = true then RG.done true c.checkpoint [] else LG.parseTriviaG g rec kk c.checkpoint []) with
    | oof => exact id
    | exc x => exact id
    | done m c1 tmp =>
      intro _
      simp only []
      have h1 := h e c1 tmp he
      revert h1
      cases rec e c1 tmp with
      | oof => exact id
      | exc x => exact id
      | done m2 c2 tmp' =>
        intro _
        cases m2 with
        | true => exact ih false c2.ok _
        | false => trivial

theorem shapeOk_unrolled {e : Expr} {es : List Expr} (h : shapeOk g e = true)
    (hu : L1.unrolled e = some es) : ∀ x ∈ es, shapeOk g x = true := by
  have rep_ok : ∀ {a : Expr}, shapeOk g a = true → shapeOk g (.rep a) = true := by
    intro a ha; simp only [shapeOk]; exact ha
  have opt_ok : ∀ {a : Expr}, shapeOk g a = true → shapeOk g (.opt a) = true := by
    intro a ha; simp only [shapeOk]; exact ha
  have repl : ∀ {a : Expr} (n : Nat), shapeOk g a = true → ∀ x ∈ List.replicate n a, shapeOk g x = true := by
    intro a n ha x hx; rw [(List.mem_replicate.mp hx).2]; exact ha
  cases e with
  | rep1 e =>
    simp only [L1.unrolled, Option.some.injEq] at hu; subst hu
    simp only [shapeOk] at h
    intro x hx
    simp only [List.mem_cons, List.not_mem_nil, or_false] at hx
    rcases hx with rfl | rfl
    · exact h
    · exact rep_ok h
  | repExact e n =>
    simp only [L1.unrolled, Option.some.injEq] at hu; subst hu
    simp only [shapeOk] at h
    exact repl n h
  | repMin e n =>
    simp only [L1.unrolled, Option.some.injEq] at hu; subst hu
    simp only [shapeOk] at h
    intro x hx
    rcases List.mem_append.mp hx with hx | hx
    · exact repl n h x hx
    · simp only [List.mem_cons, List.not_mem_nil, or_false] at hx
      subst hx; exact rep_ok h
  | repMax e n =>
    simp only [L1.unrolled, Option.some.injEq] at hu; subst hu
    simp only [shapeOk] at h
    exact repl n (opt_ok h)
  | repMinMax e m n =>
    simp only [L1.unrolled, Option.some.injEq] at hu; subst hu
    simp only [shapeOk] at h
    intro x hx
    rcases List.mem_append.mp hx with hx | hx
    · exact repl m h x hx
    · exact repl _ (opt_ok h) x hx
  | _ => simp [L1.unrolled] at hu

/-- one node of generated code: the markers `.exc .other` / `.exc .nameError` cannot appear out
    of nothing on handled shapes -/
theorem step_nb {rec : SemG} (hg : GenShape g) (k : Nat) (h : NoBenign g rec) :
    NoBenign g (LG.step g inp k rec) := by
  intro e c ps hs
  cases e with
  | ident name tag =>
    simp only [shapeOk] at hs
    simp only [LG.step]
    exact withTagG_nb tag c _ fun d => callRuleG_nb g hg h name d ps hs
  | rule name mod sm body =>
    simp only [shapeOk, Bool.and_eq_true, Bool.not_eq_true'] at hs
    simp only [LG.step, hs.1, Bool.false_eq_true, ↓reduceIte]
    exact h body c ps hs.2
  | seq es =>
    simp only [shapeOk] at hs
    exact seqG_nb g hg h k es c ps ((shapeOkL_iff g es).mp hs)
  | choice es =>
    simp only [shapeOk] at hs
    exact choiceG_nb g h es c ps ((shapeOkL_iff g es).mp hs)
  | opt e =>
    simp only [shapeOk] at hs
    simp only [LG.step]
    have h1 := h e c.checkpoint [] hs
    revert h1
    cases rec e c.checkpoint [] with
    | oof => exact id
    | exc x => exact id
    | done m c1 tmp => intro _; cases m <;> trivial
  | rep e =>
    simp only [shapeOk] at hs
    exact repLoopG_nb g hg h e k hs k true c ps
  | rep1 e => exact seqG_nb g hg h k _ c ps (shapeOk_unrolled g hs rfl)
  | repExact e n => exact seqG_nb g hg h k _ c ps (shapeOk_unrolled g hs rfl)
  | repMin e n => exact seqG_nb g hg h k _ c ps (shapeOk_unrolled g hs rfl)
  | repMax e n => exact seqG_nb g hg h k _ c ps (shapeOk_unrolled g hs rfl)
  | repMinMax e m n => exact seqG_nb g hg h k _ c ps (shapeOk_unrolled g hs rfl)
  | andP e =>
    simp only [shapeOk] at hs
    simp only [LG.step]
    have h1 := h e c.checkpoint [] hs
    revert h1
    cases rec e c.checkpoint [] with
    | oof => exact id
    | exc x => exact id
    | done m c1 tmp => intro _; trivial
  | notP e =>
    simp only [shapeOk] at hs
    simp only [LG.step]
    have h1 := h e { c.checkpoint with negDepth := c.checkpoint.negDepth + 1 } [] hs
    revert h1
    cases rec e { c.checkpoint with negDepth := c.checkpoint.negDepth + 1 } [] with
    | oof => exact id
    | exc x => exact id
    | done m c1 tmp =>
      intro _
      cases m with
      | false => simp [NB]
      | true =>
        simp only [↓reduceIte]
        cases c1.restore.fail (L1.failedName e) true <;> simp [NB, benign]
  | group e tag =>
    simp only [shapeOk] at hs
    simp only [LG.step]
    exact withTagG_nb tag c _ fun d => h e d ps hs
  | push e =>
    simp only [shapeOk] at hs
    simp only [LG.step]
    have h1 := h e c ps hs
    revert h1
    cases rec e c ps with
    | oof => exact id
    | exc x => exact id
    | done m c1 ps1 => intro _; cases m <;> trivial
  | str x =>
    simp only [LG.step]; split
    · trivial
    · exact failT_nb c ps
  | ci x =>
    simp only [LG.step]; split
    · trivial
    · exact failT_nb c ps
  | range a b =>
    simp only [LG.step]; split
    · split
      · trivial
      · exact failT_nb c ps
    · exact failT_nb c ps
  | pushLit x => simp [LG.step, NB]
  | peekSlice a b =>
    simp only [LG.step]; split
    · trivial
    · exact failT_nb c ps
  | peek =>
    simp only [LG.step]; split
    · trivial
    · split
      · trivial
      · exact failT_nb c ps
  | peekAll =>
    simp only [LG.step]; split
    · trivial
    · exact failT_nb c ps
  | pop =>
    simp only [LG.step]; split
    · trivial
    · split
      · split
        · trivial
        · simp [NB, benign]
      · exact failT_nb c ps
  | popAll =>
    simp only [LG.step]; split
    · trivial
    · exact failT_nb c ps
  | drop =>
    simp only [LG.step]; split
    · trivial
    · exact failT_nb c ps
  | anyB => simp only [LG.step]; split <;> trivial
  | soiB => simp [LG.step, NB]
  | eoiB => simp [LG.step, NB]
  | uprop n =>
    simp only [LG.step]; split
    · split <;> trivial
    · trivial
  | skipUntil subs => simp [LG.step, NB]
  | optChoice alts star => simp only [LG.step]; split <;> trivial

theorem run_nb (hg : GenShape g) : ∀ n, NoBenign g (LG.run g inp n) := by
  intro n
  induction n with
  | zero => intro e c ps _; simp [LG.run, NB]
  | succ n ih => exact step_nb g inp hg n ih

/-- **run level**: on handled shapes generated code never answers with one of the markers -/
theorem no_benign (hg : GenShape g) (n : Nat) (e : Expr) (c : PState) (ps : List Pair)
    (hs : shapeOk g e = true) :
    LG.run g inp n e c ps ≠ .exc .other ∧ LG.run g inp n e c ps ≠ .exc .nameError :=
  (NB_iff _).mp (run_nb g inp hg n e c ps hs)

/-- **run level**: from related reachable states, a handled expression makes the generated-code
    model raise nothing at all -/
theorem gen_run_no_exc (hg : GenShape g) (hsk : SkipTotal g) (n : Nat) (e : Expr) (cg c1 : PState)
    (ps0 : List Pair) (hs : shapeOk g e = true) (s : SRel cg c1) (pg : PreG cg) (p1 : Pre c1)
    (x : PyExc) : LG.run g inp n e cg ps0 ≠ .exc x := by
  intro hx
  have h1 := (run_gen g inp hsk n).rel e cg c1 ps0 s pg p1
  have h2 := run_nb g inp hg n e cg ps0 hs
  rw [hx] at h1 h2
  simp only [GenRel] at h1
  simp only [NB] at h2
  rw [h1] at h2; cases h2

/-- **the generated module's `parse()` raises nothing** (other than `PestParsingError`, which is
    `.done false`), for every start rule that has a generated function -/
theorem gen_no_exc_callable (hg : GenShape g) (hsk : SkipTotal g) (start : String)
    (hst : callable g start = true) (fuel k : Nat) (x : PyExc) :
    LG.parse g inp fuel start k ≠ .exc x := by
  unfold LG.parse
  unfold callable at hst
  cases hl : g.lookup start with
  | none => rw [hl] at hst; cases hst
  | some r =>
    rw [hl] at hst
    simp only [Bool.not_eq_true'] at hst
    simp only [hst, Bool.false_eq_true, ↓reduceIte]
    intro hx
    have h1 := rule_gen (run_gen g inp hsk fuel) (run_good g inp hsk fuel) r.name r.mod r.body
      (.init k) (.init k) [] (C01.srel_refl_init k) DStack.inv_empty (preW_init k)
    have h2 := ruleG_nb g (run_nb g inp hg fuel) r.name r.mod r.body (.init k) []
      (hg.bodies r (lookup_mem hl))
    rw [hx] at h1 h2
    simp only [GenRel] at h1
    simp only [NB] at h2
    rw [h1] at h2; cases h2

/-- the same in the uniform formulation: the only built-in in the table is EOI, so every
    defined start rule has a generated function -/
theorem gen_no_exc_closed (hg : GenShape g) (hu : OnlyEOI g) (hsk : SkipTotal g) (start : String)
    (hst : (g.lookup start).isSome = true) (fuel k : Nat) (x : PyExc) :
    LG.parse g inp fuel start k ≠ .exc x :=
  gen_no_exc_callable g inp hg hsk start (callable_of_onlyEOI hu hst) fuel k x

end LG

/-! ### 5. Both execution modes: `Pairs`, `PestParsingError`, or the budget is exceeded -/

section Combined
variable (g : Grammar) (inp : Input)

/-- **C07, exception part.**  On a grammar without undefined references whose trees have the
    shapes the generator handles, for every defined start rule (with a generated function),
    input, start position and fuel: each of the two models answers `.oof` (recursion budget
    exceeded / no termination: the property's proviso) or `.done _ _ _` (`Pairs` if matched,
    `PestParsingError` otherwise) — never an exception. -/
theorem parse_never_raises (hg : GenShape g) (hsk : SkipTotal g) (start : String)
    (hst : callable g start = true) (fuel k : Nat) :
    (L1.parse g inp fuel start k = .oof ∨ ∃ m c ps, L1.parse g inp fuel start k = .done m c ps) ∧
    (LG.parse g inp fuel start k = .oof ∨ ∃ m c ps, LG.parse g inp fuel start k = .done m c ps) := by
  constructor
  · have h := interp_no_exc g inp hg.closed hsk start (callable_isSome hst) fuel k
    revert h
    cases L1.parse g inp fuel start k with
    | oof => intro _; exact Or.inl rfl
    | done m c ps => intro _; exact Or.inr ⟨m, c, ps, rfl⟩
    | exc x => intro h; exact absurd rfl (h x)
  · have h := gen_no_exc_callable g inp hg hsk start hst fuel k
    revert h
    cases LG.parse g inp fuel start k with
    | oof => intro _; exact Or.inl rfl
    | done m c ps => intro _; exact Or.inr ⟨m, c, ps, rfl⟩
    | exc x => intro h; exact absurd rfl (h x)

/-- the interpreter half alone needs only `Closed` -/
theorem interp_parse_never_raises (hc : Closed g) (hsk : SkipTotal g) (start : String)
    (hst : (g.lookup start).isSome = true) (fuel k : Nat) :
    L1.parse g inp fuel start k = .oof ∨ ∃ m c ps, L1.parse g inp fuel start k = .done m c ps := by
  have h := interp_no_exc g inp hc hsk start hst fuel k
  revert h
  cases L1.parse g inp fuel start k with
  | oof => intro _; exact Or.inl rfl
  | done m c ps => intro _; exact Or.inr ⟨m, c, ps, rfl⟩
  | exc x => intro h; exact absurd rfl (h x)

/-- moreover the two modes agree (C01): same verdict, same pairs, same furthest-failure position -/
theorem modes_agree (hg : GenShape g) (hsk : SkipTotal g) (start : String)
    (hst : callable g start = true) (fuel k : Nat) :
    match LG.parse g inp fuel start k with
    | .oof => L1.parse g inp fuel start k = .oof
    | .exc _ => False
    | .done true cg ps => ∃ c1, L1.parse g inp fuel start k = .done true c1 ps ∧ cg.pos = c1.pos
    | .done false cg _ => ∃ c1 ps1, L1.parse g inp fuel start k = .done false c1 ps1 ∧ cg.fpos = c1.fpos := by
  have h := C01.generated_parse_eq g inp hsk fuel start k
  have hx := gen_no_exc_callable g inp hg hsk start hst fuel k
  revert h hx
  cases LG.parse g inp fuel start k with
  | oof => intro h _; exact h
  | exc x => intro _ hx; exact absurd rfl (hx x)
  | done m cg ps => intro h _; cases m <;> exact h

/-! ### 6. "repeating the call returns an equal result"

  The models are functions of (grammar, input, start rule, start position): whatever a call
  returns, the next call with the same arguments returns the same.  That the *real* `parse`
  is such a function — no state survives a call: a fresh `ParserState` per call, the rule
  table and the shared built-in objects are not mutated by parsing — is property C15's
  business (Props/C15.lean), not restated here. -/

theorem interp_deterministic (fuel : Nat) (start : String) (k : Nat) (r r' : R1)
    (h : L1.parse g inp fuel start k = r) (h' : L1.parse g inp fuel start k = r') : r = r' :=
  h.symm.trans h'

theorem gen_deterministic (fuel : Nat) (start : String) (k : Nat) (r r' : RG)
    (h : LG.parse g inp fuel start k = r) (h' : LG.parse g inp fuel start k = r') : r = r' :=
  h.symm.trans h'

end Combined

/-! ### 7. Non-vacuity: concrete grammars meet the hypotheses; the hypotheses are needed -/

theorem skipTotal_of_skipTotalB {g : Grammar} (h : skipTotalB g = true) : SkipTotal g := by
  intro r hr
  simp only [skipTotalB, hr] at h
  exact h

theorem onlyEOI_of_onlyEOIB {g : Grammar} (h : onlyEOIB g = true) : OnlyEOI g := by
  intro r hr
  simp only [onlyEOIB, List.all_eq_true, Bool.not_eq_true'] at h
  exact h r hr

/-- an unoptimised table: EOI (the one built-in kept by name), a tagged reference, an embedded
    built-in rule object, a bounded repetition, a predicate, implicit whitespace -/
def demoG : Grammar :=
  { rules := [⟨"EOI", 0, .eoiB, .builtin⟩,
              ⟨"r", 0, .seq [.str [97], .opt (.ident "s" (some "tt")),
                             .repMin (.rule "ASCII_DIGIT" 2 true (.range 48 57)) 1,
                             .notP (.str [33]), .ident "EOI" none], .grammar⟩,
              ⟨"s", 0, .choice [.str [120], .str [121]], .grammar⟩,
              ⟨"WHITESPACE", SILENT, .str [32], .grammar⟩] }

/-- an optimised table: the fused trivia rule `SKIP` (modifier `SILENT + ATOMIC`) is present -/
def demoS : Grammar :=
  { rules := [⟨"r", 0, .seq [.str [97], .rep (.ident "d" none)], .grammar⟩,
              ⟨"d", SILENT, .rule "ASCII_DIGIT" 2 true (.range 48 57), .grammar⟩,
              ⟨"WHITESPACE", SILENT, .str [32], .grammar⟩,
              ⟨"SKIP", SILENT + ATOMIC, .optChoice [.lit [32] false] true, .grammar⟩] }

example : Closed demoG := closed_of_closedB (by decide)
example : GenShape demoG := genShape_of_genShapeB (by decide)
example : OnlyEOI demoG := onlyEOI_of_onlyEOIB (by decide)
example : SkipTotal demoG := skipTotal_of_skipTotalB (by decide)
example : (demoG.lookup "r").isSome = true := by decide
example : callable demoG "r" = true := by decide
example : callable demoG "EOI" = true := by decide

example : Closed demoS := closed_of_closedB (by decide)
example : GenShape demoS := genShape_of_genShapeB (by decide)
example : OnlyEOI demoS := onlyEOI_of_onlyEOIB (by decide)
example : SkipTotal demoS := skipTotal_of_skipTotalB (by decide)
example : demoS.fusedSkip.isSome = true := by decide
example : callable demoS "r" = true := by decide

def isDone1 : R1 → Bool → Bool
  | .done m _ _, b => m == b
  | _, _ => false
def isDoneG : RG → Bool → Bool
  | .done m _ _, b => m == b
  | _, _ => false
def isExc1 : R1 → PyExc → Bool
  | .exc x, y => x == y
  | _, _ => false
def isExcG : RG → PyExc → Bool
  | .exc x, y => x == y
  | _, _ => false

-- "a y 12" parses (Pairs) in both modes, "a y !" does not (PestParsingError) — nothing raises
example : isDone1 (L1.parse demoG #[97, 32, 121, 32, 49, 50] 30 "r" 0) true = true := by decide +kernel
example : isDoneG (LG.parse demoG #[97, 32, 121, 32, 49, 50] 30 "r" 0) true = true := by decide +kernel
example : isDone1 (L1.parse demoG #[97, 32, 121, 32, 33] 30 "r" 0) false = true := by decide +kernel
example : isDoneG (LG.parse demoG #[97, 32, 121, 32, 33] 30 "r" 0) false = true := by decide +kernel
example : isDone1 (L1.parse demoS #[97, 32, 49, 32, 50] 30 "r" 0) true = true := by decide +kernel
example : isDoneG (LG.parse demoS #[97, 32, 49, 32, 50] 30 "r" 0) true = true := by decide +kernel

/-- the hypotheses are needed: an undefined reference raises `KeyError` in the interpreter model
    (the real code: `state.parser.rules[name]`) … -/
def badRef : Grammar := { rules := [⟨"r", 0, .seq [.str [97], .ident "nope" none], .grammar⟩] }

example : closedB badRef = false := by decide
example : isExc1 (L1.parse badRef #[97, 98] 30 "r" 0) .keyError = true := by decide +kernel
example : (match L0.parse badRef #[97, 98] 30 "r" 0 with | .stuck => true | _ => false) = true := by
  decide +kernel

/-- … and a built-in other than EOI that is referenced *by name* has no generated function:
    the generated module raises (the front end never builds such a tree) -/
def badShape : Grammar :=
  { rules := [⟨"r", 0, .ident "ANY" none, .grammar⟩, ⟨"ANY", SILENT, .anyB, .builtin⟩] }

example : closedB badShape = true := by decide
example : genShapeB badShape = false := by decide
example : isExcG (LG.parse badShape #[97] 30 "r" 0) .nameError = true := by decide +kernel
example : isDone1 (L1.parse badShape #[97] 30 "r" 0) true = true := by decide +kernel

/-- a built-in other than EOI as *start rule*: the interpreter parses (`Parser.rules` holds the
    built-ins too), the generated module has no `_RULE_MAP` entry for it (`KeyError`).
    `callable g start` excludes this; "every start rule of that grammar" is read as: a rule the
    grammar text defines, or EOI. -/
example : isExcG (LG.parse badShape #[97] 30 "ANY" 0) .keyError = true := by decide +kernel
example : isDone1 (L1.parse badShape #[97] 30 "ANY" 0) true = true := by decide +kernel

/-! ### 8. Termination

  `WF.wellFormed` (PestModel/WF.lean) is the decidable check "free of left recursion, of
  references to undefined rules and of repetitions over expressions that can match empty" —
  with pest's implicit trivia taken into account (the trivia rules are left-called wherever a
  sequence can reach its second element without having consumed anything, and must not be
  nullable).  `Term.parse_terminates` (Lemmas/Term.lean) proves that on such a grammar the
  specification L0 converges for every start rule, input and start position inside the input;
  `.oof` being simultaneous in L0, L1 and LG (`oof_together`), so do both execution modes, and
  by the exception part they then answer `.done _ _ _`: `Pairs` or `PestParsingError`.
  The fuel needed is finite but unbounded in the grammar/input (nesting depth): that is the
  property's proviso "every input whose nesting stays within the interpreter's recursion
  budget"; *within* the budget the real call returns what the model returns. -/

/-- `.oof` is simultaneous in the three layers, so termination of L0 is termination of both
    execution modes (the bridge the termination theorem will be transported along) -/
theorem oof_together (g : Grammar) (inp : Input) (hg : GenShape g) (hsk : SkipTotal g)
    (start : String) (hst : callable g start = true) (fuel k : Nat) :
    (L0.parse g inp fuel start k = .oof ↔ L1.parse g inp fuel start k = .oof) ∧
    (L1.parse g inp fuel start k = .oof ↔ LG.parse g inp fuel start k = .oof) := by
  constructor
  · have h := C03.parse_agrees_with_spec g inp hsk fuel start k
    revert h
    cases L1.parse g inp fuel start k with
    | oof => intro h; simp [h]
    | exc x => intro h; simp [h.2]
    | done m c ps =>
      intro h
      cases m with
      | true => obtain ⟨s, hs, _⟩ := h; simp [hs]
      | false => simp [h.1]
  · have h := modes_agree g inp hg hsk start hst fuel k
    revert h
    cases LG.parse g inp fuel start k with
    | oof => intro h; simp [h]
    | exc x => intro h; exact absurd h id
    | done m cg ps =>
      intro h
      cases m with
      | true => obtain ⟨c1, h1, _⟩ := h; simp [h1]
      | false => obtain ⟨c1, ps1, h1, _⟩ := h; simp [h1]


open WF in
mutual
/-- `wfE` subsumes `refsDefined` -/
theorem refsDefined_of_wfE (g : Grammar) (N : List String) :
    ∀ e : Expr, wfE g N e = true → refsDefined g e = true
  | .ident n _, h => by simp only [wfE] at h; simp only [refsDefined]; exact h
  | .rule _ _ _ b, h => by
    simp only [wfE] at h; simp only [refsDefined]; exact refsDefined_of_wfE g N b h
  | .seq es, h => by
    simp only [wfE] at h; simp only [refsDefined]; exact refsDefinedL_of_wfEL g N es h
  | .choice es, h => by
    simp only [wfE] at h; simp only [refsDefined]; exact refsDefinedL_of_wfEL g N es h
  | .opt e, h => by
    simp only [wfE] at h; simp only [refsDefined]; exact refsDefined_of_wfE g N e h
  | .rep e, h => by
    simp only [wfE, Bool.and_eq_true] at h; simp only [refsDefined]; exact refsDefined_of_wfE g N e h.1
  | .rep1 e, h => by
    simp only [wfE, Bool.and_eq_true] at h; simp only [refsDefined]; exact refsDefined_of_wfE g N e h.1
  | .repExact e _, h => by
    simp only [wfE] at h; simp only [refsDefined]; exact refsDefined_of_wfE g N e h
  | .repMin e _, h => by
    simp only [wfE, Bool.and_eq_true] at h; simp only [refsDefined]; exact refsDefined_of_wfE g N e h.1
  | .repMax e _, h => by
    simp only [wfE] at h; simp only [refsDefined]; exact refsDefined_of_wfE g N e h
  | .repMinMax e _ _, h => by
    simp only [wfE] at h; simp only [refsDefined]; exact refsDefined_of_wfE g N e h
  | .andP e, h => by
    simp only [wfE] at h; simp only [refsDefined]; exact refsDefined_of_wfE g N e h
  | .notP e, h => by
    simp only [wfE] at h; simp only [refsDefined]; exact refsDefined_of_wfE g N e h
  | .group e _, h => by
    simp only [wfE] at h; simp only [refsDefined]; exact refsDefined_of_wfE g N e h
  | .push e, h => by
    simp only [wfE] at h; simp only [refsDefined]; exact refsDefined_of_wfE g N e h
  | .str _, _ | .ci _, _ | .range _ _, _ | .pushLit _, _ | .peek, _ | .pop, _ | .drop, _
  | .peekAll, _ | .popAll, _ | .peekSlice _ _, _ | .anyB, _ | .soiB, _ | .eoiB, _ | .uprop _, _
  | .skipUntil _, _ | .optChoice _ _, _ => by simp only [refsDefined]
theorem refsDefinedL_of_wfEL (g : Grammar) (N : List String) :
    ∀ es : List Expr, wfEL g N es = true → refsDefinedL g es = true
  | [], _ => by simp only [refsDefinedL]
  | e :: es, h => by
    simp only [wfEL, Bool.and_eq_true] at h
    simp only [refsDefinedL, Bool.and_eq_true]
    exact ⟨refsDefined_of_wfE g N e h.1, refsDefinedL_of_wfEL g N es h.2⟩
end

/-- a well-formed grammar has no reference to an undefined rule -/
theorem closed_of_wellFormed {g : Grammar} (h : WF.wellFormed g = true) : Closed g := by
  intro r hr
  exact refsDefined_of_wfE g _ r.body ((Term.wfg_of_wellFormed g h).wf r hr)

section Termination
variable (g : Grammar) (inp : Input)

/-- **Termination of the specification.**  (The statement asked for, with the property's own
    range `0 ≤ start_pos ≤ len(text)` as hypothesis: started beyond the end, `SkipUntil` moves
    the position *back* to `len(text)`, which the progress argument does not cover.) -/
theorem parse_terminates (h : WF.wellFormed g = true) (start : String) (k : Nat) (hk : k ≤ inp.size) :
    ∃ n, L0.run g inp n (.ident start none) ⟨k, [], false⟩ ≠ .oof :=
  Term.parse_terminates g inp h start k hk

/-- every expression of a well-formed grammar terminates from every state inside the input -/
theorem run_terminates (h : WF.wellFormed g = true) (e : Expr)
    (he : WF.wfE g (WF.nullSet g) e = true) (s : S0) (hs : s.pos ≤ inp.size) :
    ∃ n, L0.run g inp n e s ≠ .oof :=
  Term.run_terminates g inp h e he s hs

/-- **The interpreter terminates and returns `Pairs` or raises `PestParsingError`**: with
    enough fuel (recursion budget) — and then with any larger amount — `Parser.parse` answers
    `.done`, for every defined start rule, input and start position inside the input. -/
theorem interp_terminates (h : WF.wellFormed g = true) (hsk : SkipTotal g) (start : String)
    (hst : (g.lookup start).isSome = true) (k : Nat) (hk : k ≤ inp.size) :
    ∃ n, ∀ fuel, n ≤ fuel → ∃ m c ps, L1.parse g inp fuel start k = .done m c ps := by
  obtain ⟨n, x, hx, hstab⟩ := Term.parse_terminates_stable g inp h start k hk
  refine ⟨n, fun fuel hf => ?_⟩
  have h0 := hstab fuel hf
  have hne := interp_no_exc g inp (closed_of_wellFormed h) hsk start hst fuel k
  have hag := C03.parse_agrees_with_spec g inp hsk fuel start k
  revert hne hag
  cases L1.parse g inp fuel start k with
  | oof => intro _ hag; rw [h0] at hag; exact absurd hag hx
  | exc e => intro hne _; exact absurd rfl (hne e)
  | done m c ps => intro _ _; exact ⟨m, c, ps, rfl⟩

/-- **C07, both execution modes**: on a well-formed grammar whose trees have the shapes the
    generator handles, for every start rule with a generated function, every input and every
    start position inside it, there is a recursion budget from which on both `Parser.parse`
    and the generated `parse()` return `Pairs` (`.done true`) or raise `PestParsingError`
    (`.done false`) — nothing else — and they agree (same verdict, same pairs, same
    furthest-failure position: `modes_agree`). -/
theorem parse_total (h : WF.wellFormed g = true) (hg : GenShape g) (hsk : SkipTotal g)
    (start : String) (hst : callable g start = true) (k : Nat) (hk : k ≤ inp.size) :
    ∃ n, ∀ fuel, n ≤ fuel →
      (∃ m c ps, L1.parse g inp fuel start k = .done m c ps) ∧
      (∃ m c ps, LG.parse g inp fuel start k = .done m c ps) := by
  obtain ⟨n, x, hx, hstab⟩ := Term.parse_terminates_stable g inp h start k hk
  refine ⟨n, fun fuel hf => ?_⟩
  have h0 : L0.parse g inp fuel start k ≠ .oof := by rw [hstab fuel hf]; exact hx
  have ho := oof_together g inp hg hsk start hst fuel k
  have hnr := parse_never_raises g inp hg hsk start hst fuel k
  constructor
  · rcases hnr.1 with h1 | h1
    · exact absurd (ho.1.2 h1) h0
    · exact h1
  · rcases hnr.2 with h1 | h1
    · exact absurd (ho.1.2 (ho.2.2 h1)) h0
    · exact h1

end Termination

/-! #### the check on concrete grammars -/

/-- recursion through `value → array → value`, an optional, nested repetitions, an atomic rule,
    SOI/EOI, implicit whitespace -/
def jsonish : Grammar :=
  { rules := [⟨"file", 0, .seq [.rule "SOI" 2 true .soiB, .ident "value" none, .ident "EOI" none], .grammar⟩,
              ⟨"value", 0, .choice [.ident "array" none, .ident "number" none], .grammar⟩,
              ⟨"array", 0, .seq [.str [91], .opt (.seq [.ident "value" none,
                  .rep (.seq [.str [44], .ident "value" none])]), .str [93]], .grammar⟩,
              ⟨"number", ATOMIC, .rep1 (.rule "ASCII_DIGIT" 2 true (.range 48 57)), .grammar⟩,
              ⟨"EOI", 0, .eoiB, .builtin⟩,
              ⟨"WHITESPACE", SILENT, .str [32], .grammar⟩] }

example : WF.wellFormed jsonish = true := by decide
example : GenShape jsonish := genShape_of_genShapeB (by decide)
example : SkipTotal jsonish := skipTotal_of_skipTotalB (by decide)
example : callable jsonish "file" = true := by decide
example : WF.rankTable jsonish = [("file", 2), ("value", 1), ("array", 0), ("number", 0), ("EOI", 0),
    ("WHITESPACE", 0)] := by decide
example : WF.wellFormed demoG = true := by decide
example : WF.wellFormed demoS = true := by decide
-- "[1, [2,3] ]": parsed by both modes with fuel 40
example : isDone1 (L1.parse jsonish #[91, 49, 44, 32, 91, 50, 44, 51, 93, 32, 93] 40 "file" 0) true = true := by
  decide +kernel
example : isDoneG (LG.parse jsonish #[91, 49, 44, 32, 91, 50, 44, 51, 93, 32, 93] 40 "file" 0) true = true := by
  decide +kernel

/-- left recursion (direct, and through a nullable prefix), a repetition over a nullable body, a
    nullable trivia rule, left recursion through implicit trivia, an undefined reference: rejected -/
def lrDirect : Grammar :=
  { rules := [⟨"e", 0, .choice [.seq [.ident "e" none, .str [43], .str [49]], .str [49]], .grammar⟩] }
def lrNullablePrefix : Grammar :=
  { rules := [⟨"e", 0, .seq [.opt (.str [45]), .ident "e" none], .grammar⟩] }
def repNullable : Grammar :=
  { rules := [⟨"e", 0, .rep (.opt (.str [97])), .grammar⟩] }
def nullableWs : Grammar :=
  { rules := [⟨"e", 0, .seq [.str [97], .str [98]], .grammar⟩, ⟨"WHITESPACE", SILENT, .rep (.str [32]), .grammar⟩] }
def lrThroughTrivia : Grammar :=
  { rules := [⟨"e", NONATOMIC, .seq [.opt (.str [97]), .str [98]], .grammar⟩,
              ⟨"WHITESPACE", SILENT, .choice [.str [32], .seq [.ident "e" none, .str [33]]], .grammar⟩] }

example : WF.wellFormed lrDirect = false := by decide
example : WF.wellFormed lrNullablePrefix = false := by decide
example : WF.wellFormed repNullable = false := by decide
example : WF.wellFormed nullableWs = false := by decide
example : WF.wellFormed lrThroughTrivia = false := by decide
example : WF.wellFormed badRef = false := by decide

/-- … and rightly so: the specification and the interpreter model run out of fuel on them
    (shown for fuel 40; with `e` not marked `!` the last grammar would terminate, because trivia
    rules are atomic and implicit trivia is off inside them — the check does not track atomicity
    and would reject it all the same: it is conservative there) -/
def isOof0 : R0 → Bool
  | .oof => true
  | _ => false
def isOof1 : R1 → Bool
  | .oof => true
  | _ => false
example : isOof1 (L1.parse lrDirect #[49] 40 "e" 0) = true := by decide +kernel
example : isOof1 (L1.parse repNullable #[98] 40 "e" 0) = true := by decide +kernel
example : isOof1 (L1.parse nullableWs #[97, 98] 40 "e" 0) = true := by decide +kernel
example : isOof0 (L0.parse lrThroughTrivia #[99, 98] 40 "e" 0) = true := by decide +kernel
example : isOof1 (L1.parse lrThroughTrivia #[99, 98] 40 "e" 0) = true := by decide +kernel

end C07
end Pest
