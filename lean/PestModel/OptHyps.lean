/-
  OptHyps.lean — executable form of the hypotheses of C02 (optimizer soundness), kept in a model
  file (core only, no proofs) so that the line-protocol driver can evaluate `OptS.wfCheck` on every
  grammar of a correspondence run without importing any proof.

    `sigOf`          name and modifier of the rule a name refers to
    `allNb p e`      `p` holds of every node of `e` (bodies of embedded rule objects included)
    `nodeOKb g`      node-local well-formedness (`OptS.NodeOK`, Lemmas/OptSoundPass.lean)
    `nskB`           the node is not a reference to `SKIP`
    `wsProgressB g`  a `WHITESPACE` that will be fused has no empty-string alternative
    `wfCheck g`      all of `OptS.WF g`

  `Lemmas/OptSoundFinal.lean` proves `wfCheck g = true → OptS.WF g`.
-/
import PestModel.Expr
import PestModel.Interp
import PestModel.Opt

namespace Pest
namespace OptS

/-- name and modifier of the rule a name refers to -/
def sigOf (G : Grammar) (n : String) : Option (String × Nat) := (G.lookup n).map fun r => (r.name, r.mod)

/-- the modifier is `_` alone: silent and neither `@`, `$` nor `!` -/
def plainSilentB (m : Nat) : Bool :=
  hasBit m SILENT && !hasBit m ATOMIC && !hasBit m COMPOUND && !hasBit m NONATOMIC

mutual
/-- `p` holds of every node of `e` (bodies of embedded rule nodes included) -/
def allNb (p : Expr → Bool) : Expr → Bool
  | .rule n m sm b => p (.rule n m sm b) && allNb p b
  | .seq es => p (.seq es) && allNbL p es
  | .choice es => p (.choice es) && allNbL p es
  | .opt e => p (.opt e) && allNb p e
  | .rep e => p (.rep e) && allNb p e
  | .rep1 e => p (.rep1 e) && allNb p e
  | .repExact e n => p (.repExact e n) && allNb p e
  | .repMin e n => p (.repMin e n) && allNb p e
  | .repMax e n => p (.repMax e n) && allNb p e
  | .repMinMax e m n => p (.repMinMax e m n) && allNb p e
  | .andP e => p (.andP e) && allNb p e
  | .notP e => p (.notP e) && allNb p e
  | .group e t => p (.group e t) && allNb p e
  | .push e => p (.push e) && allNb p e
  | e => p e
def allNbL (p : Expr → Bool) : List Expr → Bool
  | [] => true
  | e :: es => allNb p e && allNbL p es
end

/-- ranges of an `OptimizedChoice` are not reversed -/
def altOKb : Alt → Bool
  | .range lo hi => decide (lo ≤ hi)
  | _ => true

/-- `NodeOK`, as a Boolean: embedded rule objects are the built-ins (silent except `EOI`, never
    atomic / compound / non-atomic, body not directly a rule object or a reference, `ANY` is
    `_Any`, a Unicode property rule carries its own name); no reference by name to `ANY`; a
    reference to a silent rule is to a rule whose modifier is `_` alone; a `Choice` is not empty,
    a range not reversed, an `OptimizedChoice` non-empty, non-repeating, without reversed ranges -/
def nodeOKb (g : Grammar) : Expr → Bool
  | .rule n m _ b =>
    (match b with | .rule _ _ _ _ => false | .ident _ _ => false | _ => true) && !hasBit m ATOMIC &&
    !hasBit m COMPOUND && !hasBit m NONATOMIC && !L1.isTriviaName n &&
    (n == "EOI" || hasBit m SILENT) &&
    (n != "EOI" || (match b with | .eoiB => true | _ => false)) &&
    (match b with | .uprop pn => pn == n | _ => true) &&
    (n != "ANY" || (match b with | .anyB => true | _ => false))
  | .ident n _ =>
    n != "ANY" &&
    (match sigOf g n with
     | some (_, md) => !hasBit md SILENT || plainSilentB md
     | none => true)
  | .choice es => !es.isEmpty
  | .range a b => decide (a ≤ b)
  | .optChoice alts star => !star && !alts.isEmpty && alts.all altOKb
  | _ => true

/-- not a reference to `SKIP` -/
def nskB : Expr → Bool
  | .ident n _ => n != "SKIP"
  | _ => true

/-- no empty-string alternative in a `WHITESPACE` that will be fused -/
def wsProgressB (g : Grammar) : Bool :=
  match g.lookup "COMMENT", g.lookup "WHITESPACE" with
  | none, some wr =>
    match wr.body with
    | .choice es =>
      match Opt.squash 1000 es [] with
      | some alts => alts.all fun | .lit [] _ => false | _ => true
      | none => true
    | _ => true
  | _, _ => true

/-- the executable form of `OptS.WF`:
    every node well-formed; no grammar rule called `SKIP` carries the modifier `SILENT+ATOMIC` of
    the fused trivia rule; `SKIP` is not referenced unless the grammar defines it; a `WHITESPACE`
    that will be fused has no empty-string alternative -/
def wfCheck (g : Grammar) : Bool :=
  g.rules.all (fun r => allNb (nodeOKb g) r.body) &&
  g.fusedSkip.isNone &&
  ((g.lookup "SKIP").isSome || g.rules.all (fun r => allNb nskB r.body)) &&
  wsProgressB g

end OptS
end Pest
