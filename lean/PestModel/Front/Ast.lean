/-
  Front/Ast.lean — the *source-level* syntax of a pest grammar (what a grammar text is, in the
  shape of pest's meta-grammar: `expression = choice_operator? ~ term ~ (infix_operator ~ term)*`,
  `term = node_tag? ~ prefix_operator* ~ node ~ postfix_operator*`), its canonical printer, the
  token sequence the printer's output must scan to, and the rule table it denotes.
  Used by Props/C10.lean to state the round trip `load (pretty g) = denote g`.

    pretty  : every token followed by one blank; doc comments on lines of their own, one
              blank between the marker and the line
    tokens  : kinds and values of the tokens of `pretty` (starts are whatever the scanner says)
    denote  : the `Pest.Expr` trees python-pest is to build — operator precedence (`~` binds
              tighter than `|`), n-ary `seq`/`choice` for the right-nested chains, prefix
              operators outside postfix operators, postfix operators innermost first, `Group`
              for parentheses, tags where the tree can hold them, PEEK/POP/… as their own nodes,
              slices, decoded literals, bounds, modifiers, doc lines
-/
import PestModel.Front.Parse

namespace Pest
namespace Front

/-- a postfix operator: `? * + {n} {n,} {,n} {m,n}` -/
inductive Post
  | opt | rep | rep1 | exact (n : Nat) | min (n : Nat) | max (n : Nat) | minmax (m n : Nat)
deriving Repr, DecidableEq

mutual
/-- `node` of the meta-grammar -/
inductive SNode
  | str (s : Text)                    -- "…"   (s = the decoded string)
  | ci (s : Text)                     -- ^"…"
  | range (a b : Nat)                 -- 'a'..'b'
  | ident (name : Text)               -- identifier (including PEEK POP DROP PEEK_ALL POP_ALL)
  | pushLit (s : Text)                -- PUSH_LITERAL("…")
  | push (bar : Bool) (e : SExpr)     -- PUSH( |? e )
  | slice (a b : Option Int)          -- PEEK[a..b]
  | paren (bar : Bool) (e : SExpr)    -- ( |? e )
/-- `term`: tag, prefix operators (`true` = `&`, `false` = `!`), node, postfix operators -/
inductive STerm
  | mk (tag : Option Text) (pre : List Bool) (node : SNode) (post : List Post)
/-- `term (infix_operator term)*`; `bar = true`: the operator is `|`, else `~` -/
inductive SExpr
  | one (t : STerm)
  | cons (t : STerm) (bar : Bool) (rest : SExpr)
end

/-- a rule with the doc comments before it; `mod` = the modifier character, if any;
    `bar` = a leading `|` in the body -/
structure SRule where
  docs : List Text
  name : Text
  mod : Option Nat
  bar : Bool
  body : SExpr

structure SGrammar where
  gdocs : List Text          -- `//!` lines
  rules : List SRule
  trailing : List Text       -- `///` lines after the last rule

/-! ### decimal numbers -/

/-- the decimal digits of `n`, most significant first (`fuel` ≥ number of digits) -/
def natDigitsAux : Nat → Nat → List Nat → List Nat
  | 0, _, acc => acc
  | fuel + 1, n, acc =>
    if n < 10 then (48 + n) :: acc else natDigitsAux fuel (n / 10) ((48 + n % 10) :: acc)

def natDigits (n : Nat) : Text := natDigitsAux (n + 1) n []

def intDigits (i : Int) : Text :=
  if i < 0 then 45 :: natDigits i.natAbs else natDigits i.toNat

/-! ### literals -/

/-- the body of a string literal for a decoded string: `"` and `\` escaped, everything else raw -/
def escapeBody : Text → Text
  | [] => []
  | c :: r => if c = 34 ∨ c = 92 then 92 :: c :: escapeBody r else c :: escapeBody r

/-- a character literal: `'\\'` for a backslash, the raw character otherwise -/
def charLit (c : Nat) : Text := if c = 92 then [39, 92, 92, 39] else [39, c, 39]

/-! ### the token sequence (kind, value) -/

abbrev KV := TK × Text

def postKV : Post → List KV
  | .opt => [(.optionOp, [63])]
  | .rep => [(.repeatOp, [42])]
  | .rep1 => [(.repeatOnceOp, [43])]
  | .exact n => [(.lbrace, [123]), (.number, natDigits n), (.rbrace, [125])]
  | .min n => [(.lbrace, [123]), (.number, natDigits n), (.comma, [44]), (.rbrace, [125])]
  | .max n => [(.lbrace, [123]), (.comma, [44]), (.number, natDigits n), (.rbrace, [125])]
  | .minmax m n =>
    [(.lbrace, [123]), (.number, natDigits m), (.comma, [44]), (.number, natDigits n), (.rbrace, [125])]

def preKV (b : Bool) : KV := if b then (.posPred, [38]) else (.negPred, [33])

def barKV (b : Bool) : List KV := if b then [(.choiceOp, [124])] else []

def opKV (bar : Bool) : KV := if bar then (.choiceOp, [124]) else (.sequenceOp, [126])

def tagKV : Option Text → List KV
  | none => []
  | some t => [(.tag, 35 :: t), (.assignOp, [61])]

def optIntKV : Option Int → List KV
  | none => []
  | some i => [(.integer, intDigits i)]

mutual
def SNode.kv : SNode → List KV
  | .str s => [(.string, s)]
  | .ci s => [(.stringCI, s)]
  | .range a b => [(.char, charLit a), (.rangeOp, [46, 46]), (.char, charLit b)]
  | .ident name => [(keywordKind name, name)]
  | .pushLit s => [(.pushLiteral, sPUSH_LITERAL), (.lparen, [40]), (.string, s), (.rparen, [41])]
  | .push bar e => [(.push, sPUSH), (.lparen, [40])] ++ barKV bar ++ e.kv ++ [(.rparen, [41])]
  | .slice a b =>
    [(.peek, sPEEK), (.lbracket, [91])] ++ optIntKV a ++ [(.rangeOp, [46, 46])] ++ optIntKV b ++ [(.rbracket, [93])]
  | .paren bar e => [(.lparen, [40])] ++ barKV bar ++ e.kv ++ [(.rparen, [41])]
def STerm.kv : STerm → List KV
  | .mk tag pre node post => tagKV tag ++ pre.map preKV ++ node.kv ++ (post.map postKV).flatten
def SExpr.kv : SExpr → List KV
  | .one t => t.kv
  | .cons t bar rest => t.kv ++ [opKV bar] ++ rest.kv
end

def docKV (marker : TK) (m : Text) (line : Text) : List KV := [(marker, m), (.commentText, line)]

def modKV : Option Nat → List KV
  | none => []
  | some c => [(.modifier, [c])]

def SRule.kv (r : SRule) : List KV :=
  (r.docs.map (docKV .ruleDoc sRDOC)).flatten ++
    [(.identifier, r.name), (.assignOp, [61])] ++ modKV r.mod ++ [(.lbrace, [123])] ++ barKV r.bar ++
    r.body.kv ++ [(.rbrace, [125])]

def SGrammar.kv (g : SGrammar) : List KV :=
  (g.gdocs.map (docKV .grammarDoc sGDOC)).flatten ++ (g.rules.map SRule.kv).flatten ++
    (g.trailing.map (docKV .ruleDoc sRDOC)).flatten

/-! ### the canonical text -/

/-- how a token is spelled -/
def spell : KV → Text
  | (.string, s) => 34 :: escapeBody s ++ [34]
  | (.stringCI, s) => 94 :: 34 :: escapeBody s ++ [34]
  | (_, v) => v

/-- every token followed by one blank -/
def spellAll (kvs : List KV) : Text := (kvs.map fun kv => spell kv ++ [32]).flatten

/-- a doc line as printed: marker, the separating blank (always written: it belongs to the
    marker, `"///" ~ space? ~ inner_doc`, so a line that itself starts with a blank survives
    re-reading), the line, a line feed -/
def docLine (m : Text) (line : Text) : Text := m ++ 32 :: line ++ [10]

def SRule.pretty (r : SRule) : Text :=
  (r.docs.map (docLine sRDOC)).flatten ++
    spellAll ([(.identifier, r.name), (.assignOp, [61])] ++ modKV r.mod ++ [(.lbrace, [123])] ++
      barKV r.bar ++ r.body.kv ++ [(.rbrace, [125])]) ++ [10]

def SGrammar.pretty (g : SGrammar) : Text :=
  (g.gdocs.map (docLine sGDOC)).flatten ++ (g.rules.map SRule.pretty).flatten ++
    (g.trailing.map (docLine sRDOC)).flatten

/-! ### what the text denotes -/

def applyPost (e : Expr) : Post → Expr
  | .opt => .opt e
  | .rep => .rep e
  | .rep1 => .rep1 e
  | .exact n => .repExact e n
  | .min n => .repMin e n
  | .max n => .repMax e n
  | .minmax m n => .repMinMax e m n

def applyPre (b : Bool) (e : Expr) : Expr := if b then .andP e else .notP e

/-- `seq`/`choice` of one element is the element -/
def mkSeq : List Expr → Expr
  | [e] => e
  | es => .seq es

def mkChoice : List Expr → Expr
  | [e] => e
  | es => .choice es

/-- an identifier node: the stack keywords, a built-in (tag dropped), or a reference -/
def identExpr (builtins : List String) (name : Text) (tag : Option String) : Expr :=
  match keywordKind name with
  | .peek => .peek
  | .peekAll => .peekAll
  | .pop => .pop
  | .popAll => .popAll
  | .drop => .drop
  | _ =>
    let n := nameOf name
    if n != "EOI" && builtins.contains n then .ident n none else .ident n tag

/-- put an element in front of the first group -/
def consGroup (x : Expr) : List (List Expr) → List (List Expr)
  | g :: gs => (x :: g) :: gs
  | [] => [[x]]          -- not reached: `groups` is never empty

mutual
/-- `tag` = the tag the node may show (that of its term when the term has no prefix operator) -/
def SNode.den (builtins : List String) (tag : Option String) : SNode → Expr
  | .str s => .str s
  | .ci s => .ci s
  | .range a b => .range a b
  | .ident name => identExpr builtins name tag
  | .pushLit s => .pushLit s
  | .push _ e => .push (e.den builtins)
  | .slice a b => .peekSlice a b
  | .paren _ e => .group (e.den builtins) tag
def STerm.den (builtins : List String) : STerm → Expr
  | .mk tag pre node post =>
    let shown := if pre.isEmpty then tag.map nameOf else none
    pre.foldr applyPre (post.foldl applyPost (node.den builtins shown))
/-- the alternatives of an expression, each a list of sequence elements:
    `a ~ b | c ~ d | e` ↦ `[[a, b], [c, d], [e]]` -/
def SExpr.groups (builtins : List String) : SExpr → List (List Expr)
  | .one t => [[t.den builtins]]
  | .cons t true rest => [t.den builtins] :: rest.groups builtins
  | .cons t false rest => consGroup (t.den builtins) (rest.groups builtins)
def SExpr.den (builtins : List String) (e : SExpr) : Expr :=
  mkChoice ((e.groups builtins).map mkSeq)
end

def SRule.den (builtins : List String) (r : SRule) : FRule :=
  ⟨nameOf r.name, (r.mod.map fun c => modifierBits [c]).getD 0, r.body.den builtins, r.docs⟩

/-- the rule table: dictionary semantics for a name defined more than once -/
def SGrammar.den (builtins : List String) (g : SGrammar) : Loaded :=
  ⟨g.rules.foldl (fun acc r => dictSet acc (r.den builtins)) [], g.gdocs⟩

/-! ### well-formedness: the pieces are spellable -/

/-- `RE_IDENTIFIER` matches the whole name -/
def IsIdent (name : Text) : Prop := mIdentifier name = some name.length

/-- a tag name: `[_a-zA-Z][_a-zA-Z0-9]*` -/
def IsTagName (t : Text) : Prop :=
  match t with
  | c :: r => isIdentStart c = true ∧ r.all isIdentChar = true
  | [] => False

/-- a doc line: no line break inside, and no `\r` at its end (it would pair with the `\n`) -/
def IsDocLine (l : Text) : Prop := findNewline (l ++ [10]) = some l.length

/-- the optional blank between a doc marker and the line `l` (`space?` of `grammar_doc` /
    `line_doc`: it belongs to the marker): a blank, a tab, or nothing — nothing only if `l` does
    not itself start with a blank or a tab (which would then be read as the marker's) -/
def DocSp (sp l : Text) : Prop :=
  sp = [32] ∨ sp = [9] ∨ (sp = [] ∧ l.head? ≠ some 32 ∧ l.head? ≠ some 9)

def WFPost : Post → Prop
  | .exact n | .min n | .max n => n ≤ 4294967295
  | .minmax m n => m ≤ 4294967295 ∧ n ≤ 4294967295
  | _ => True

mutual
def SNode.WF : SNode → Prop
  | .range a b => a ≤ b
  | .ident name => IsIdent name
  | .slice a b =>
    (match a with | some i => i.natAbs ≤ 4294967295 | none => True) ∧
    (match b with | some i => i.natAbs ≤ 4294967295 | none => True)
  | .push _ e => e.WF
  | .paren _ e => e.WF
  | _ => True
def STerm.WF : STerm → Prop
  | .mk tag _ node post =>
    (match tag with | some t => IsTagName t | none => True) ∧ node.WF ∧ ∀ p ∈ post, WFPost p
def SExpr.WF : SExpr → Prop
  | .one t => t.WF
  | .cons t _ rest => t.WF ∧ rest.WF
end

def SRule.WF (r : SRule) : Prop :=
  (∀ l ∈ r.docs, IsDocLine l) ∧ IsIdent r.name ∧
    (match r.mod with | some c => c = 95 ∨ c = 64 ∨ c = 36 ∨ c = 33 | none => True) ∧ r.body.WF

def SGrammar.WF (g : SGrammar) : Prop :=
  (∀ l ∈ g.gdocs, IsDocLine l) ∧ (∀ r ∈ g.rules, r.WF) ∧ (∀ l ∈ g.trailing, IsDocLine l)

end Front
end Pest
