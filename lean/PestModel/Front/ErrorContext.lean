/-
  Front/ErrorContext.lean — model of `PestGrammarError._error_context(text, index)` in
  src/pest/grammar/exceptions.py (after the `fix:` commit f222055), which locates the token of a
  grammar error for `str(exc)`.  Built from the `str.splitlines` model of LineCol.lean; every
  subscript is explicit (`none` = Python raises `IndexError`).

```python
lines = text.splitlines(keepends=True)
if not lines or lines[-1] != text.splitlines()[-1]:
    lines.append("")
cumulative_length = 0
target_line_index = len(lines) - 1
for i, line in enumerate(lines):
    cumulative_length += len(line)
    if index < cumulative_length:
        target_line_index = i
        break
line_number = target_line_index + 1
column_number = index - (cumulative_length - len(lines[target_line_index]))
previous_line = lines[target_line_index - 1].rstrip() if target_line_index > 0 else ""
current_line = lines[target_line_index].rstrip()
next_line = lines[target_line_index + 1].rstrip() if target_line_index < len(lines) - 1 else ""
return line_number, column_number, previous_line, current_line, next_line
```
  The column is 0-based here (src/pest/exceptions.py's `error_context` returns it 1-based).
-/
import PestModel.LineCol

namespace Pest
namespace Front
open LineCol

/-- the list `lines` the function works on (`none`: one of the two `[-1]` raises) -/
def gecLines (t : List Nat) : Option (List (List Nat)) := do
  let lines0 := splitlines true t
  pure (if (← endsOnNewLine t lines0) then lines0 ++ [[]] else lines0)

/-- `(line_number, column_number, current_line)`; the previous and the next line are looked
    up like the code does and dropped -/
def grammarErrorContext (t : List Nat) (index : Nat) : Option (Nat × Int × List Nat) := do
  let lines ← gecLines t
  let (found, cum) := findLine index lines 0 0
  let target := found.getD (lines.length - 1)
  let l ← lines[target]?
  let _previous ← if target > 0 then lines[target - 1]? else some []
  let _next ← if target < lines.length - 1 then lines[target + 1]? else some []
  pure (target + 1, (index : Int) - ((cum : Int) - (l.length : Int)), rstrip l)

end Front
end Pest
