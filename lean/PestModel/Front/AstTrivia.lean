/-
  Front/AstTrivia.lean — grammar texts with *arbitrary* trivia between the tokens (Front/Ast.lean
  fixes one blank; here every place where pest's implicit WHITESPACE / COMMENT is legal may hold
  any trivia, including none).  Used by Lemmas/FrontScanTrivia.lean (scanner half of the C10
  round trip for every layout).

    IsBlock c      : `c` is a complete (possibly nested) block comment `/* … */`
    IsTrivia ws    : `ws` is a sequence of blanks, tabs, line feeds, CR LF pairs, block comments
                     and line comments `// … \n` (a line comment does not start with `///` or
                     `//!` — those are doc comments — and includes the line feed that ends it)
    Sc kvs t tl    : `t` is the tokens `kvs`, each followed by some trivia, and then `tl`
    DocsText / RulesText / GrammarText g t : `t` is a layout of the grammar `g`: leading trivia,
                     `//!` lines, rules (with their `///` lines), trailing `///` lines; after every
                     token and after the line feed of every doc line any trivia.  Fixed layout only
                     inside doc lines (marker, optional blank, line, `\n`) and inside literals (`spell`).
    spellAllWith / docsWith / SRule.prettyWith / SGrammar.prettyWith lead sep :
                     the printer with an explicit separator `sep i` behind the `i`-th item
                     (doc lines and tokens counted together from 0)
-/
import PestModel.Front.Ast

namespace Pest
namespace Front

/-- a complete block comment: `/*`, a body, and the `*/` that closes it — whatever follows.
    (Stated with the scanner's own nesting counter `blockBody`; `TRT.isBlock_flat`, `TRT.BB` and `TRT.isBlock_of_BB` in
    Lemmas/FrontScanTrivia.lean give direct descriptions.) -/
def IsBlock (c : Text) : Prop :=
  ∃ body, c = 47 :: 42 :: body ∧ ∀ tl, blockBody 0 (body ++ tl) = some body.length

/-- trivia: what `skip_trivia` skips -/
inductive IsTrivia : Text → Prop
  | nil : IsTrivia []
  | sp {t : Text} : IsTrivia t → IsTrivia (32 :: t)
  | tab {t : Text} : IsTrivia t → IsTrivia (9 :: t)
  | lf {t : Text} : IsTrivia t → IsTrivia (10 :: t)
  | crlf {t : Text} : IsTrivia t → IsTrivia (13 :: 10 :: t)
  /-- `//` + text without line feed, not starting with `/` or `!` + line feed -/
  | line (r : Text) {t : Text} : (∀ c ∈ r, c ≠ 10) → r.head? ≠ some 47 → r.head? ≠ some 33 →
      IsTrivia t → IsTrivia (47 :: 47 :: (r ++ 10 :: t))
  | block {c t : Text} : IsBlock c → IsTrivia t → IsTrivia (c ++ t)

/-- `t` is the tokens `kvs`, each followed by some trivia, and then `tl` -/
inductive Sc : List KV → Text → Text → Prop
  | nil (tl : Text) : Sc [] tl tl
  | cons (kv : KV) {kvs : List KV} {ws t tl : Text} : IsTrivia ws → Sc kvs t tl →
      Sc (kv :: kvs) (spell kv ++ (ws ++ t)) tl

/-- doc lines with marker `m` (marker, optional blank, line, line feed), each followed by
    trivia, then `tl` -/
def DocsText (m : Text) : List Text → Text → Text → Prop
  | [], t, tl => t = tl
  | l :: ls, t, tl => ∃ sp ws t', DocSp sp l ∧ IsTrivia ws ∧ t = m ++ (sp ++ (l ++ 10 :: (ws ++ t'))) ∧
      DocsText m ls t' tl

/-- the tokens of a rule without its doc comments -/
def SRule.headKV (r : SRule) : List KV :=
  [(.identifier, r.name), (.assignOp, [61])] ++ modKV r.mod ++ [(.lbrace, [123])] ++ barKV r.bar ++
    r.body.kv ++ [(.rbrace, [125])]

def RulesText : List SRule → Text → Text → Prop
  | [], t, tl => t = tl
  | r :: rs, t, tl => ∃ t1 t2, DocsText sRDOC r.docs t t1 ∧ Sc r.headKV t1 t2 ∧ RulesText rs t2 tl

/-- `t` is a layout of `g` -/
def GrammarText (g : SGrammar) (t : Text) : Prop :=
  ∃ lead t0 t1 t2, IsTrivia lead ∧ t = lead ++ t0 ∧ DocsText sGDOC g.gdocs t0 t1 ∧
    RulesText g.rules t1 t2 ∧ DocsText sRDOC g.trailing t2 []

/-! ### the printer with explicit separators -/

/-- token `i` (counted from `i0`) followed by `sep i` -/
def spellAllWith (sep : Nat → Text) : Nat → List KV → Text
  | _, [] => []
  | i, kv :: r => spell kv ++ (sep i ++ spellAllWith sep (i + 1) r)

/-- doc line `i` (counted from `i0`): marker, blank, line, line feed, `sep i` -/
def docsWith (sep : Nat → Text) (m : Text) : Nat → List Text → Text
  | _, [] => []
  | i, l :: ls => m ++ 32 :: (l ++ 10 :: (sep i ++ docsWith sep m (i + 1) ls))

/-- number of items (doc lines and tokens) of a rule -/
def SRule.items (r : SRule) : Nat := r.docs.length + r.headKV.length

def SRule.prettyWith (sep : Nat → Text) (i0 : Nat) (r : SRule) : Text :=
  docsWith sep sRDOC i0 r.docs ++ spellAllWith sep (i0 + r.docs.length) r.headKV

def rulesWith (sep : Nat → Text) : Nat → List SRule → Text
  | _, [] => []
  | i, r :: rs => r.prettyWith sep i ++ rulesWith sep (i + r.items) rs

def rulesItems : List SRule → Nat
  | [] => 0
  | r :: rs => r.items + rulesItems rs

/-- the grammar text with leading trivia `lead` and `sep i` behind the `i`-th item -/
def SGrammar.prettyWith (lead : Text) (sep : Nat → Text) (g : SGrammar) : Text :=
  lead ++ (docsWith sep sGDOC 0 g.gdocs ++ (rulesWith sep g.gdocs.length g.rules ++
    docsWith sep sRDOC (g.gdocs.length + rulesItems g.rules) g.trailing))

end Front
end Pest
