/-
  Front/AstText2.lean — `GrammarText'`: the relation "the text `t` is a layout of the source-level
  grammar `g`" of Front/AstTrivia.lean, extended to *every* spelling pest's meta-grammar allows
  (and python-pest's front end accepts).  `GrammarText` fixes one spelling per token and one line
  end per doc line; `GrammarText'` adds

    1. a line comment that ends the text without a line break                     (`EndC`)
    2. trivia between `^` and the string of a case-insensitive literal            (`Spells`)
    3. escapes in string literals: any body of ordinary characters and pest escapes
       `\" \\ \r \n \t \0 \' \xHH \u{H…}` that denotes the string                  (`StrBody`)
    4. escapes in character literals: `'\n'`, `'\x41'`, `'\u{41}'` …               (`CharSpell`)
    5. leading zeros in repetition bounds and slice indices: `{007}`, `PEEK[-01..]`
       (`NumSpell`, `IntSpell`; any number of them since the `fix:` commit 6f76b47)
    6. a doc line ended by CR LF, or by the end of the text                       (`DocEnd`)
    7. the optional blank or tab between a doc marker and the line                (`DocSp`,
       already in `GrammarText`; since the `fix:` commit 77be14c it belongs to the marker)

  (2.–6. are missing from the header of Props/C10.lean; texts using them are valid pest and are
  accepted by the implementation, so the exactness theorem of Props/C10Exact.lean needs them.)

  `WF'` is `WF` (Front/Ast.lean) with two conditions weakened to what a text needs to be
  accepted: instead of the bound `|i| ≤ 4294967295` on `PEEK[a..b]` indices (python-pest does
  not range-check them) only "at most 4300 significant digits" (`SliceIdxOK`: CPython's `int()`
  limit, reported as "number too large"); and not "a doc line does not end with CR" (it may, at
  the end of the text; before a line feed the relation `DocEnd` excludes it).

  `ActKV kv kv'`: `kv'` is what the scanner emits for the item `kv` of `g.kv` — the same kind,
  and the same value except for numbers, integers and character literals, whose tokens carry
  the text as spelled.
-/
import PestModel.Front.AstTrivia

namespace Pest
namespace Front

/-! ### spellings of literals and numbers -/

/-- `StrBody body s`: `body` (the text between the quotes of a string literal) consists of
    characters other than `"` and `\`, which denote themselves, and of pest escapes
    (`Unescape.Escape e v`: `\e` denotes the code point `v`), and denotes `s` -/
inductive StrBody : Text → Text → Prop
  | nil : StrBody [] []
  | char (c : Nat) {b s : Text} : c ≠ 92 → c ≠ 34 → StrBody b s → StrBody (c :: b) (c :: s)
  | esc {e : Text} {v : Nat} {b s : Text} : Unescape.Escape e v → StrBody b s →
      StrBody (92 :: (e ++ b)) (v :: s)

/-- `CharSpell a w`: `w` is a character literal for the code point `a`: `'c'` with `c` not a
    backslash, or `'\e'` with a pest escape `e` -/
inductive CharSpell : Nat → Text → Prop
  | raw (c : Nat) : c ≠ 92 → CharSpell c [39, c, 39]
  | esc {e : Text} {v : Nat} : Unescape.Escape e v → CharSpell v (39 :: 92 :: (e ++ [39]))

/-- `NumSpell n w`: `w` is a decimal spelling of `n`: `[0-9]+`, leading zeros allowed -/
def NumSpell (n : Nat) (w : Text) : Prop :=
  w ≠ [] ∧ w.all isDigit = true ∧ digitsVal w = n

/-- `IntSpell i w`: `w` is a spelling of `i` after `integer = @{ number | "-" ~ "0"* ~ '1'..'9' ~ number? }` -/
inductive IntSpell : Int → Text → Prop
  | nonneg {n : Nat} {w : Text} : NumSpell n w → IntSpell (n : Int) w
  | neg {n : Nat} {zs : Text} {d : Nat} {ds : Text} : (∀ z ∈ zs, z = 48) → 49 ≤ d → d ≤ 57 →
      NumSpell n (zs ++ d :: ds) → IntSpell (-(n : Int)) (45 :: (zs ++ d :: ds))

/-- how an item of `g.kv` may be spelled -/
def Spells : KV → Text → Prop
  | (.string, s), w => ∃ body, w = 34 :: (body ++ [34]) ∧ StrBody body s
  | (.stringCI, s), w =>
    ∃ ws body, IsTrivia ws ∧ w = 94 :: (ws ++ 34 :: (body ++ [34])) ∧ StrBody body s
  | (.char, v), w => ∃ a, v = charLit a ∧ CharSpell a w
  | (.number, v), w => ∃ n, v = natDigits n ∧ NumSpell n w
  | (.integer, v), w => ∃ i, v = intDigits i ∧ IntSpell i w
  | (_, v), w => w = v

/-- the value of the token the scanner emits for an item of `g.kv`: the item's value, except
    for numbers, integers and character literals, which keep their spelling -/
def ActVal : KV → Text → Prop
  | (.char, v), w => ∃ a, v = charLit a ∧ CharSpell a w
  | (.number, v), w => ∃ n, v = natDigits n ∧ NumSpell n w
  | (.integer, v), w => ∃ i, v = intDigits i ∧ IntSpell i w
  | (_, v), w => w = v

/-- `kv'` is a token (kind, value) the scanner may emit for the item `kv` of `g.kv` -/
def ActKV (kv kv' : KV) : Prop := kv'.1 = kv.1 ∧ ActVal kv kv'.2

/-- pointwise `ActKV` -/
inductive Act : List KV → List KV → Prop
  | nil : Act [] []
  | cons {kv kv' : KV} {l l' : List KV} : ActKV kv kv' → Act l l' → Act (kv :: l) (kv' :: l')

/-! ### the layout -/

/-- `t` is the tokens `kvs`, each in one of its spellings and followed by some trivia, and then `tl` -/
inductive Sc' : List KV → Text → Text → Prop
  | nil (tl : Text) : Sc' [] tl tl
  | cons (kv : KV) {kvs : List KV} {w ws t tl : Text} : Spells kv w → IsTrivia ws → Sc' kvs t tl →
      Sc' (kv :: kvs) (w ++ (ws ++ t)) tl

/-- what may follow the doc line `l`: the end of the text, a line feed (then `l` does not end
    with CR — the CR would belong to the line break), or CR LF -/
def DocEnd (l rest : Text) : Prop :=
  rest = [] ∨ (∃ r, rest = 10 :: r ∧ l.getLast? ≠ some 13) ∨ ∃ r, rest = 13 :: 10 :: r

/-- doc lines with marker `m`: marker, optional blank (`DocSp`), line, then (`DocEnd`) the end
    of the text or trivia that starts with the line break; then `tl` -/
def DocsText' (m : Text) : List Text → Text → Text → Prop
  | [], t, tl => t = tl
  | l :: ls, t, tl => ∃ sp ws t', DocSp sp l ∧ IsTrivia ws ∧ t = m ++ (sp ++ (l ++ (ws ++ t'))) ∧
      DocEnd l (ws ++ t') ∧ DocsText' m ls t' tl

def RulesText' : List SRule → Text → Text → Prop
  | [], t, tl => t = tl
  | r :: rs, t, tl => ∃ t1 t2, DocsText' sRDOC r.docs t t1 ∧ Sc' r.headKV t1 t2 ∧ RulesText' rs t2 tl

/-- the end of the text: nothing, or a line comment without its line break -/
def EndC (e : Text) : Prop :=
  e = [] ∨ ∃ r, e = 47 :: 47 :: r ∧ (∀ c ∈ r, c ≠ 10) ∧ r.head? ≠ some 47 ∧ r.head? ≠ some 33

/-- `t` is a layout of `g` -/
def GrammarText' (g : SGrammar) (t : Text) : Prop :=
  ∃ lead t0 t1 t2 e, IsTrivia lead ∧ t = lead ++ t0 ∧ DocsText' sGDOC g.gdocs t0 t1 ∧
    RulesText' g.rules t1 t2 ∧ DocsText' sRDOC g.trailing t2 e ∧ EndC e

/-! ### well-formedness -/

/-- a doc line contains no line feed (hence no line break) -/
def NoLF (l : Text) : Prop := ∀ c ∈ l, c ≠ 10

/-- the index of a `PEEK[a..b]` slice has at most 4300 significant digits (python-pest does not
    range-check slice indices, but CPython's `int()` refuses longer digit strings and the front
    end reports "number too large") -/
def SliceIdxOK : Option Int → Prop
  | some i => (natDigits i.natAbs).length ≤ 4300
  | none => True

mutual
def SNode.WF' : SNode → Prop
  | .range a b => a ≤ b
  | .ident name => IsIdent name
  | .slice a b => SliceIdxOK a ∧ SliceIdxOK b
  | .push _ e => e.WF'
  | .paren _ e => e.WF'
  | _ => True
def STerm.WF' : STerm → Prop
  | .mk tag _ node post =>
    (match tag with | some t => IsTagName t | none => True) ∧ node.WF' ∧ ∀ p ∈ post, WFPost p
def SExpr.WF' : SExpr → Prop
  | .one t => t.WF'
  | .cons t _ rest => t.WF' ∧ rest.WF'
end

def SRule.WF' (r : SRule) : Prop :=
  (∀ l ∈ r.docs, NoLF l) ∧ IsIdent r.name ∧
    (match r.mod with | some c => c = 95 ∨ c = 64 ∨ c = 36 ∨ c = 33 | none => True) ∧ r.body.WF'

def SGrammar.WF' (g : SGrammar) : Prop :=
  (∀ l ∈ g.gdocs, NoLF l) ∧ (∀ r ∈ g.rules, r.WF') ∧ (∀ l ∈ g.trailing, NoLF l)

end Front
end Pest
