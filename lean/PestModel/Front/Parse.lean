/-
  Front/Parse.lean — executable mirror of src/pest/grammar/parser.py (class `Parser`, after the
  `fix:` commits of /repo), of `pest.grammar.parse` and of what `Parser.from_grammar` does with
  its result, producing `Pest.Expr` / `Pest.Rule` values.

  The grammar parser only moves forward over `self.tokens`, so its state is the list of the
  remaining tokens; `self.eof` is `Token(EOI, "", len(grammar))`.  A raised
  `PestGrammarSyntaxError(msg, token=t)` is the result `.err msg t`.

  What the trees are compared on (DESIGN "C10"; harness/eng_front.py `ser_front`):
    * a node is printed by `Drv.encExpr`, i.e. with the fields `harness/pyside.py` serialises;
      `Expression.tag` is a field of every Python node but only `Identifier` and `Group` ever
      use it, and only they print it — the model's `Expr` keeps the tag on those two;
    * an identifier that names a built-in rule other than EOI is, in the Python tree, the
      shared built-in `Rule` object itself (`left = self.builtins[name]`: its tag is dropped);
      the model produces `.ident name none` for it and the harness prints the object as
      `ID <name> -`.  `builtins` (the keys of `Parser.BUILTIN`) is a parameter.

  Partial operations of the Python code that stay explicit:
    * `int(s)` — modelled for decimal literals `-?[0-9]+` (`pyInt`), where it raises
      `ValueError` exactly for more than 4300 digits (CPython's default
      `sys.get_int_max_str_digits()`), which `parse_int` turns into "number too large"
      (`parse_int` / `parse_number` strip leading zeros first, so only significant digits
      count); any other string is outside the modelled domain: result `.exc "ModelDomain:int"`;
    * `Range(start, stop)` — modelled for one-character strings (what `ord()` in the harness
      and `[a-b]` in `Range.__init__` need); otherwise `.exc "ModelDomain:Range"`;
    * `unescape_string` — `Unescape.unescape`, whose `.exc` results are passed on.
  Props/C11.lean shows that none of them is reachable from `load`.
-/
import PestModel.Front.Scan
import PestModel.Expr

namespace Pest
namespace Front

/-- a Python identifier/tag string from its code points -/
def nameOf (t : Text) : String := String.ofList (t.map Char.ofNat)

/-- result of a grammar-parser method -/
inductive PR (α : Type)
  | ok (a : α) (rest : List Token)
  | err (k : EK) (tok : Token)
  | exc (name : String)
  | oof

/-- parser methods: reader of `self.eof`, state = remaining tokens -/
abbrev P (α : Type) := Token → List Token → PR α

@[inline] def P.pure {α} (a : α) : P α := fun _ ts => .ok a ts
@[inline] def P.bind {α β} (m : P α) (f : α → P β) : P β := fun eof ts =>
  match m eof ts with
  | .ok a ts' => f a eof ts'
  | .err k t => .err k t
  | .exc n => .exc n
  | .oof => .oof

instance : Monad P where
  pure := P.pure
  bind := P.bind

/-- `self.current()` -/
def current : P Token := fun eof ts => .ok (ts.headD eof) ts

/-- `self.next()` -/
def next : P Token := fun eof ts =>
  match ts with
  | t :: r => .ok t r
  | [] => .ok eof []

/-- `self.pos += 1` (always after a `current()` that was not `eof`; on an empty list the Python
    counter would move past the end, which no later `current()`/`next()` can observe) -/
def advance : P Unit := fun _ ts => .ok () ts.tail

/-- `self.eat(kind)` with the default message -/
def eat (kind : TK) : P Token := do
  let t ← next
  if t.kind = kind then pure t else fun _ _ => .err .unexpected t

def fail {α} (k : EK) (t : Token) : P α := fun _ _ => .err k t
def raise {α} (name : String) : P α := fun _ _ => .exc name

/-! ### `int()` -/

def digitsVal (ds : Text) : Nat := ds.foldl (fun acc d => 10 * acc + (d - 48)) 0

/-- Python's `int(s)` on a decimal literal: `none` = outside the modelled domain,
    `some none` = `ValueError` (more than 4300 digits), `some (some v)` = the value -/
def pyInt (s : Text) : Option (Option Int) :=
  let (neg, ds) := match s with
    | 45 :: r => (true, r)
    | _ => (false, s)
  if ds.isEmpty || !ds.all isDigit then none
  else if ds.length > 4300 then some none
  else some (some (if neg then -(digitsVal ds : Int) else (digitsVal ds : Int)))

/-- `s.lstrip("0")` -/
def lstrip0 : Text → Text
  | 48 :: r => lstrip0 r
  | t => t

/-- `s.lstrip("0") or "0"`: the significant digits -/
def stripZeros (t : Text) : Text :=
  let d := lstrip0 t
  if d.isEmpty then [48] else d

/-- `("-", value[1:]) if value.startswith("-") else ("", value)` -/
def splitSign : Text → Text × Text
  | 45 :: r => ([45], r)
  | v => ([], v)

/-- `sign + (digits.lstrip("0") or "0")`: the literal handed to `int()` -/
def intLiteral (value : Text) : Text := (splitSign value).1 ++ stripZeros (splitSign value).2

/-- ```python
def parse_int(self, token):
    value = token.value
    sign, digits = ("-", value[1:]) if value.startswith("-") else ("", value)
    digits = digits.lstrip("0") or "0"
    try: return int(sign + digits)
    except ValueError as err: raise PestGrammarSyntaxError("number too large", token=token)
```
(after the `fix:` commit 6f76b47: leading zeros do not count towards `int()`'s digit limit) -/
def parseInt (t : Token) : P Int :=
  match pyInt (intLiteral t.value) with
  | none => raise "ModelDomain:int"
  | some none => fail .numberTooLarge t
  | some (some v) => pure v

/-- `MAX_REPEAT = 0xFFFFFFFF` -/
def MAX_REPEAT : Int := 4294967295

/-- ```python
def parse_number(self, token):
    digits = token.value.lstrip("0") or "0"
    if len(digits) > len(str(MAX_REPEAT)) or int(digits) > MAX_REPEAT:
        raise PestGrammarSyntaxError("number cannot overflow u32", token=token)
    return int(digits)
```
(more than ten significant digits exceed u32 whatever they are and never reach `int()`; with at
most ten digits `int()` cannot hit its digit limit — the `ValueError` exit is kept for the shape
of the code and is unreachable) -/
def parseNumber (t : Token) : P Int :=
  let digits := stripZeros t.value
  if digits.length > 10 then fail .numberOverflow t
  else match pyInt digits with
    | none => raise "ModelDomain:int"
    | some none => raise "ValueError"
    | some (some v) => if v > MAX_REPEAT then fail .numberOverflow t else pure v

/-! ### literals -/

/-- `unescape_string(value, token, quote)` called from the parser: errors carry `token` -/
def unescapeP (value : Text) (t : Token) : P Text :=
  match Unescape.unescape value with
  | .ok v => pure v
  | .error e => fail (.unescape e) t
  | .exc n => raise n

/-- `token.value[1:-1]` -/
def stripQuotes (v : Text) : Text := (v.drop 1).dropLast

/-- `MODIFIER_MAP.get(value, 0)` -/
def modifierBits (v : Text) : Nat :=
  if v = [95] then SILENT else if v = [64] then ATOMIC else if v = [36] then COMPOUND
  else if v = [33] then NONATOMIC else 0

/-! ### expressions -/

def PRECEDENCE_LOWEST : Nat := 1
def PRECEDENCE_CHOICE : Nat := 2
def PRECEDENCE_SEQUENCE : Nat := 3
def PRECEDENCE_PREFIX : Nat := 4

/-- `PRECEDENCES.get(kind, PRECEDENCE_LOWEST)` -/
def precedenceOf : TK → Nat
  | .choiceOp => PRECEDENCE_CHOICE
  | .sequenceOp => PRECEDENCE_SEQUENCE
  | _ => PRECEDENCE_LOWEST

def isInfix : TK → Bool
  | .choiceOp | .sequenceOp => true
  | _ => false

/-- `parse_repeat_expression(expr)` (after the `{` was consumed) -/
def parseRepeat (e : Expr) : P Expr := do
  let token ← next
  if token.kind = .number then do
    if (← current).kind = .rbrace then do
      advance
      let n ← parseNumber token
      pure (.repExact e n.toNat)
    else do
      let _ ← eat .comma
      if (← current).kind = .rbrace then do
        advance
        let n ← parseNumber token
        pure (.repMin e n.toNat)
      else do
        let stop ← eat .number
        let _ ← eat .rbrace
        let m ← parseNumber token
        let n ← parseNumber stop
        pure (.repMinMax e m.toNat n.toNat)
  else if token.kind = .comma then do
    let number ← eat .number
    let _ ← eat .rbrace
    let n ← parseNumber number
    pure (.repMax e n.toNat)
  else fail .expectedNumberOrComma token

/-- `parse_postfix_expression(expr)`: `none` = "returned `expr` itself" (no operator) -/
def parsePostfix (e : Expr) : P (Option Expr) := do
  let kind := (← current).kind
  if kind = .optionOp then do advance; pure (some (.opt e))
  else if kind = .repeatOp then do advance; pure (some (.rep e))
  else if kind = .repeatOnceOp then do advance; pure (some (.rep1 e))
  else if kind = .lbrace then do advance; let r ← parseRepeat e; pure (some r)
  else pure none

/-- ```python
while True:
    postfix = self.parse_postfix_expression(left)
    if postfix is left: break
    left = postfix
``` -/
def postfixes : Nat → Expr → P Expr
  | 0, _ => fun _ _ => .oof
  | n + 1, left => do
    match ← parsePostfix left with
    | some e => postfixes n e
    | none => pure left

/-- `parse_peek_expression(tag)` (after `PEEK` was consumed) -/
def parsePeek : P Expr := do
  if (← current).kind ≠ .lbracket then pure .peek
  else do
    let _ ← eat .lbracket
    let start ← (do
      if (← current).kind = .integer then do
        let t ← next
        let v ← parseInt t
        pure (some v)
      else pure none : P (Option Int))
    let _ ← eat .rangeOp
    let stop ← (do
      if (← current).kind = .integer then do
        let t ← next
        let v ← parseInt t
        pure (some v)
      else pure none : P (Option Int))
    let _ ← eat .rbracket
    pure (.peekSlice start stop)

/-- the `CHAR` branch: a range -/
def parseRange (token : Token) : P Expr := do
  let first ← eat .char
  let start ← unescapeP (stripQuotes first.value) token
  let _ ← eat .rangeOp
  let stopToken ← eat .char
  let stop ← unescapeP (stripQuotes stopToken.value) stopToken
  match start, stop with
  | [a], [b] => if a > b then fail .rangeOrder token else pure (.range a b)
  | _, _ => raise "ModelDomain:Range"

/-- the primary expression of `parse_expression` (from `token = self.current()` to the end of
    the `if/elif` chain); `rec p` = `self.parse_expression(p)` -/
def parsePrimary (builtins : List String) (rec : Nat → P Expr) (tag : Option String) : P Expr := do
  let token ← current
  match token.kind with
  | .string => do let t ← next; pure (.str t.value)
  | .stringCI => do let t ← next; pure (.ci t.value)
  | .lparen => do
    advance
    let e ← rec PRECEDENCE_LOWEST
    let _ ← eat .rparen
    pure (.group e tag)
  | .identifier => do
    let t ← next
    let name := nameOf t.value
    if name != "EOI" && builtins.contains name then pure (.ident name none)
    else pure (.ident name tag)
  | .pushLiteral => do
    advance
    let _ ← eat .lparen
    let s ← eat .string
    let _ ← eat .rparen
    pure (.pushLit s.value)
  | .push => do
    advance
    let _ ← eat .lparen
    let e ← rec PRECEDENCE_LOWEST
    let _ ← eat .rparen
    pure (.push e)
  | .peek => do advance; parsePeek
  | .peekAll => do advance; pure .peekAll
  | .pop => do advance; pure .pop
  | .drop => do advance; pure .drop
  | .popAll => do advance; pure .popAll
  | .char => parseRange token
  | .posPred => do advance; let e ← rec PRECEDENCE_PREFIX; pure (.andP e)
  | .negPred => do advance; let e ← rec PRECEDENCE_PREFIX; pure (.notP e)
  | _ => fail .unexpectedToken token

/-- `parse_infix_expression(left)` -/
def parseInfix (rec : Nat → P Expr) (left : Expr) : P Expr := do
  let token ← next
  let right ← rec (precedenceOf token.kind)
  match token.kind with
  | .choiceOp =>
    match right with
    | .choice es => pure (.choice (left :: es))
    | _ => pure (.choice [left, right])
  | .sequenceOp =>
    match right with
    | .seq es => pure (.seq (left :: es))
    | _ => pure (.seq [left, right])
  | _ => fail .unexpectedOperator token

/-- ```python
while True:
    kind = self.current().kind
    if kind == EOI or PRECEDENCES.get(kind, LOWEST) < precedence or kind not in INFIX_OPERATORS: break
    left = self.parse_infix_expression(left)
``` -/
def infixes (rec : Nat → P Expr) (precedence : Nat) : Nat → Expr → P Expr
  | 0, _ => fun _ _ => .oof
  | n + 1, left => do
    let kind := (← current).kind
    if kind = .eoi || precedenceOf kind < precedence || !isInfix kind then pure left
    else do
      let e ← parseInfix rec left
      infixes rec precedence n e

/-- ```python
if self.current().kind == CHOICE_OP: self.next()
if self.current().kind == TAG: tag = self.next().value[1:]; self.eat(ASSIGN_OP)
else: tag = None
``` -/
def parseHead : P (Option String) := do
  (do if (← current).kind = .choiceOp then advance else pure () : P Unit)
  if (← current).kind = .tag then do
    let t ← next
    let _ ← eat .assignOp
    pure (some (nameOf (t.value.drop 1)))
  else pure none

/-- the body of `parse_expression(precedence)`, recursive calls abstracted -/
def exprBody (builtins : List String) (rec : Nat → P Expr) (precedence : Nat) : P Expr := do
  let tag ← parseHead
  let left ← parsePrimary builtins rec tag
  let left ← (fun eof ts => postfixes (ts.length + 1) left eof ts : P Expr)
  (fun eof ts => infixes rec precedence (ts.length + 1) left eof ts : P Expr)

/-- `parse_expression`; `fuel` bounds the recursion depth -/
def parseExpression (builtins : List String) : Nat → Nat → P Expr
  | 0, _ => fun _ _ => .oof
  | fuel + 1, precedence => exprBody builtins (parseExpression builtins fuel) precedence

/-! ### rules -/

/-- ```python
while self.current().kind == <DOC>:
    self.pos += 1
    docs.append(self.eat(COMMENT_TEXT).value)
``` -/
def docLines (kind : TK) : Nat → List Text → P (List Text)
  | 0, _ => fun _ _ => .oof
  | n + 1, acc => do
    if (← current).kind = kind then do
      advance
      let t ← eat .commentText
      docLines kind n (acc ++ [t.value])
    else pure acc

/-- `parse_modifier` -/
def parseModifier : P Nat := do
  if (← current).kind = .modifier then do
    let t ← next
    pure (modifierBits t.value)
  else pure 0

/-- a `GrammarRule(name, expression, modifier, doc)` -/
structure FRule where
  name : String
  mod : Nat
  body : Expr
  doc : List Text
deriving Repr

/-- `rules[name] = rule` on an insertion-ordered dict -/
def dictSet (rules : List FRule) (r : FRule) : List FRule :=
  if rules.any (·.name == r.name) then rules.map (fun x => if x.name == r.name then r else x)
  else rules ++ [r]

/-- `parse_rules` -/
def parseRules (builtins : List String) : Nat → List FRule → P (List FRule)
  | 0, _ => fun _ _ => .oof
  | n + 1, rules => do
    if (← current).kind = .eoi then pure rules
    else do
      let doc ← (fun eof ts => docLines .ruleDoc (ts.length + 1) [] eof ts : P (List Text))
      if (← current).kind = .eoi then pure rules
      else do
        let identifier ← eat .identifier
        let _ ← eat .assignOp
        let modifier ← parseModifier
        let _ ← eat .lbrace
        let e ← (fun eof ts => parseExpression builtins (ts.length + 1) PRECEDENCE_LOWEST eof ts : P Expr)
        let _ ← eat .rbrace
        parseRules builtins n (dictSet rules ⟨nameOf identifier.value, modifier, e, doc⟩)

/-- what `pest.grammar.parse(grammar, builtins)` returns -/
structure Loaded where
  rules : List FRule
  doc : List Text
deriving Repr

/-- `Parser(tokens, builtins).parse()` -/
def parseTokens (builtins : List String) : P Loaded := do
  let gdoc ← (fun eof ts => docLines .grammarDoc (ts.length + 1) [] eof ts : P (List Text))
  let rules ← (fun eof ts => parseRules builtins (ts.length + 1) [] eof ts : P (List FRule))
  pure ⟨rules, gdoc⟩

/-! ### `Parser.from_grammar(text, optimizer=None)` -/

/-- a `PestGrammarSyntaxError`: message, and the `start` / `value` of its token -/
structure GErr where
  kind : EK
  start : Nat
  value : Text
deriving Repr

inductive LoadResult
  | ok (g : Loaded)
  | error (e : GErr)
  | exc (name : String)      -- an exception that is not a PestGrammarError
  | oof                      -- the model's fuel ran out (never: Props/C11.lean)
deriving Repr

/-- `parse(grammar, cls.BUILTIN)` followed by `cls(rules, doc, optimizer=None)` (which merges
    the rules into a copy of `BUILTIN` and cannot fail) -/
def load (builtins : List String) (text : Text) : LoadResult :=
  match scan text with
  | .err k st v => .error ⟨k, st, v⟩
  | .exc n => .exc n
  | .oof => .oof
  | .ok toks =>
    match parseTokens builtins ⟨.eoi, [], text.length⟩ toks with
    | .ok g _ => .ok g
    | .err k t => .error ⟨k, t.start, t.value⟩
    | .exc n => .exc n
    | .oof => .oof

end Front
end Pest
