/-
  Front/Scan.lean — executable mirror of src/pest/grammar/scanner.py (after the `fix:`
  commits edfb74e … 21d7862 of /repo), method by method.

  The scanner only ever moves forward, so its state is the *remaining* text together with the
  two counters of the Python object (`pos`, `start`) and the tokens emitted so far:
  `self.grammar[self.pos:]` is `St.rest`, `len(self.grammar)` is `pos + rest.length`.
  Every regular expression of the module is a small hand-written matcher on the remaining text
  returning the length of the match (`pattern.match(self.grammar, self.pos)`); the recursive
  block-comment pattern is a nesting counter.  `self.error(msg)` is the result `.err`, carrying
  what the raised `PestGrammarSyntaxError` carries: the message (as an `EK` constructor), and the
  error token's `start` and `value` (`self.grammar[self.pos : self.pos + 1]`).

  Python indexing: the repaired scanner has no subscript that can fail — `next`/`peek` catch
  `IndexError`, everything else is a slice — so the scanner proper has no `exc` result; the
  calls to `unescape_string` keep theirs (`Unescape.Res.exc`, shown unreachable in
  Props/C12Escapes.lean and Props/C11.lean).

  Recursion: `accept_expression → accept_term → accept_terminal → accept_expression` is open
  recursion over a depth fuel (`acceptExpression (fuel+1) = exprStep (acceptExpression fuel)`);
  every `while True:` loop carries its own iteration bound (remaining length + 1).  Running out of
  either is the result `.oof`; Props/C11.lean shows it unreachable for fuel `text.length + 1`.
-/
import PestModel.Unescape

namespace Pest
namespace Front

abbrev Text := List Nat

/-- `TokenKind` of src/pest/grammar/tokens.py (the members the front end uses) -/
inductive TK
  | eoi | error | commentText | identifier | assignOp | modifier | lbrace | rbrace | choiceOp
  | sequenceOp | tag | posPred | negPred | char | comma | drop | grammarDoc | lbracket | lparen
  | peek | peekAll | repeatOnceOp | pop | popAll | push | pushLiteral | optionOp | rangeOp
  | rbracket | rparen | ruleDoc | repeatOp | string | stringCI | number | integer
deriving DecidableEq, Repr, Inhabited

def TK.name : TK → String
  | .eoi => "EOI" | .error => "ERROR" | .commentText => "COMMENT_TEXT" | .identifier => "IDENTIFIER"
  | .assignOp => "ASSIGN_OP" | .modifier => "MODIFIER" | .lbrace => "LBRACE" | .rbrace => "RBRACE"
  | .choiceOp => "CHOICE_OP" | .sequenceOp => "SEQUENCE_OP" | .tag => "TAG"
  | .posPred => "POSITIVE_PREDICATE" | .negPred => "NEGATIVE_PREDICATE" | .char => "CHAR"
  | .comma => "COMMA" | .drop => "DROP" | .grammarDoc => "GRAMMAR_DOC" | .lbracket => "LBRACKET"
  | .lparen => "LPAREN" | .peek => "PEEK" | .peekAll => "PEEK_ALL" | .repeatOnceOp => "REPEAT_ONCE_OP"
  | .pop => "POP" | .popAll => "POP_ALL" | .push => "PUSH" | .pushLiteral => "PUSH_LITERAL"
  | .optionOp => "OPTION_OP" | .rangeOp => "RANGE_OP" | .rbracket => "RBRACKET" | .rparen => "RPAREN"
  | .ruleDoc => "RULE_DOC" | .repeatOp => "REPEAT_OP" | .string => "STRING" | .stringCI => "STRING_CI"
  | .number => "NUMBER" | .integer => "INTEGER"

/-- `Token(kind, value, start, grammar)` -/
structure Token where
  kind : TK
  value : Text
  start : Nat
deriving DecidableEq, Repr, Inhabited

/-- the messages of the `PestGrammarSyntaxError`s the front end raises -/
inductive EK
  | expectedRule            -- "expected a rule"
  | expectedAssign          -- "expected the assignment operator"
  | expectedLBrace          -- "expected an opening brace"
  | expectedRBrace          -- "expected a closing brace"
  | expectedLParen          -- "expected an opening paren"
  | expectedRParen          -- "expected a closing paren"
  | expectedRangeOp         -- "expected a range operator"
  | expectedChar            -- "expected a character"
  | invalidEscape           -- "invalid escape"
  | unclosedString          -- "unclosed string starting at index {start}"
  | expectedString          -- "expected a string literal"
  | unescape (e : Unescape.Err)   -- raised by unescape_string
  | unexpected              -- Parser.eat: "unexpected {token.value!r}"
  | unexpectedToken         -- Parser.parse_expression: "unexpected token {kind}"
  | unexpectedOperator      -- Parser.parse_infix_expression: "unexpected operator {kind}"
  | expectedNumberOrComma   -- "expected a number or a comma"
  | rangeOrder              -- "the start of a range must not be greater than its end"
  | numberTooLarge          -- "number too large"
  | numberOverflow          -- "number cannot overflow u32"
deriving DecidableEq, Repr

def EK.slug : EK → String
  | .expectedRule => "expected_a_rule" | .expectedAssign => "expected_the_assignment_operator"
  | .expectedLBrace => "expected_an_opening_brace" | .expectedRBrace => "expected_a_closing_brace"
  | .expectedLParen => "expected_an_opening_paren" | .expectedRParen => "expected_a_closing_paren"
  | .expectedRangeOp => "expected_a_range_operator" | .expectedChar => "expected_a_character"
  | .invalidEscape => "invalid_escape" | .unclosedString => "unclosed_string"
  | .expectedString => "expected_a_string_literal" | .unescape e => "unescape_" ++ e.slug
  | .unexpected => "unexpected" | .unexpectedToken => "unexpected_token"
  | .unexpectedOperator => "unexpected_operator"
  | .expectedNumberOrComma => "expected_a_number_or_a_comma" | .rangeOrder => "range_order"
  | .numberTooLarge => "number_too_large"
  | .numberOverflow => "number_overflow"

/-! ### character classes -/

def isDigit (c : Nat) : Bool := 48 ≤ c && c ≤ 57
def isAlpha (c : Nat) : Bool := (65 ≤ c && c ≤ 90) || (97 ≤ c && c ≤ 122)
/-- `[_a-zA-Z]` -/
def isIdentStart (c : Nat) : Bool := c == 95 || isAlpha c
/-- `[_a-zA-Z0-9]` -/
def isIdentChar (c : Nat) : Bool := isIdentStart c || isDigit c

/-- length of the longest prefix all of whose characters satisfy `p` (`[..]*`) -/
def spanLen (p : Nat → Bool) : Text → Nat
  | [] => 0
  | c :: r => if p c then spanLen p r + 1 else 0

def startsWith : Text → Text → Bool
  | _, [] => true
  | [], _ :: _ => false
  | c :: r, d :: l => c == d && startsWith r l

/-! ### the regular expressions, as `pattern.match(grammar, pos)`: length of the match -/

def sPUSH : Text := [80, 85, 83, 72]
def sPUSH_LITERAL : Text := [80, 85, 83, 72, 95, 76, 73, 84, 69, 82, 65, 76]

/-- a fixed string (`RE_GRAMMAR_DOC`, `RE_RULE_DOC`, `RE_PUSH`, `RE_PUSH_LITERAL`, `RE_RANGE_OP`) -/
def mLit (lit : Text) (t : Text) : Option Nat := if startsWith t lit then some lit.length else none

/-- `RE_IDENTIFIER = (?!PUSH)[_a-zA-Z][_a-zA-Z0-9]*` -/
def mIdentifier (t : Text) : Option Nat :=
  if startsWith t sPUSH then none
  else match t with
    | c :: r => if isIdentStart c then some (spanLen isIdentChar r + 1) else none
    | [] => none

/-- `RE_TAG = #[_a-zA-Z][_a-zA-Z0-9]*` -/
def mTag : Text → Option Nat
  | 35 :: c :: r => if isIdentStart c then some (spanLen isIdentChar r + 2) else none
  | _ => none

/-- `RE_NUMBER = [0-9]+` -/
def mNumber (t : Text) : Option Nat :=
  let n := spanLen isDigit t
  if n = 0 then none else some n

/-- `RE_INTEGER = [0-9]+|-0*[1-9][0-9]*` -/
def mInteger (t : Text) : Option Nat :=
  match mNumber t with
  | some n => some n
  | none =>
    match t with
    | 45 :: r =>
      let z := spanLen (· == 48) r
      match r.drop z with
      | d :: r' => if 49 ≤ d && d ≤ 57 then some (1 + z + 1 + spanLen isDigit r') else none
      | [] => none
    | _ => none

/-- `RE_MODIFIER = [_@\$!]` -/
def mModifier : Text → Option Nat
  | c :: _ => if c == 95 || c == 64 || c == 36 || c == 33 then some 1 else none
  | [] => none

/-- `RE_WHITESPACE = (?:[ \t\n]|\r\n)+` -/
def wsLen : Text → Nat
  | [] => 0
  | 13 :: 10 :: r => wsLen r + 2
  | c :: r => if c == 32 || c == 9 || c == 10 then wsLen r + 1 else 0

def mWhitespace (t : Text) : Option Nat :=
  let n := wsLen t
  if n = 0 then none else some n

/-- `RE_LINE_COMMENT = //(?!/|!).*` (`.` is anything but `\n`) -/
def mLineComment : Text → Option Nat
  | 47 :: 47 :: r =>
    match r with
    | c :: _ => if c == 47 || c == 33 then none else some (2 + spanLen (· != 10) r)
    | [] => some 2
  | _ => none

/-- the body of `RE_BLOCK_COMMENT = /\*(?:[^*/]|\*(?!/)|/(?!\*)|(?R))*\*/` after an opening `/*`,
    with `depth` further comments open around it: `*/` closes one level, `/*` opens one, any
    other character is skipped; `none` at the end of the text.  (The four alternatives of the
    pattern exclude each other on their first two characters, so the match is unique.) -/
def blockBody : Nat → Text → Option Nat
  | _, [] => none
  | depth, 42 :: 47 :: r =>
    match depth with
    | 0 => some 2
    | d + 1 => (blockBody d r).map (· + 2)
  | depth, 47 :: 42 :: r => (blockBody (depth + 1) r).map (· + 2)
  | depth, _ :: r => (blockBody depth r).map (· + 1)

def mBlockComment : Text → Option Nat
  | 47 :: 42 :: r => (blockBody 0 r).map (· + 2)
  | _ => none

/-- `RE_ESCAPE = [\\"rnt0']|x[0-9a-fA-F]{2}|u\{[0-9a-fA-F]{2,6}\}` -/
def mEscape (t : Text) : Option Nat := Unescape.escapeLen t

/-- `RE_CHAR = '(?:\\(?:<RE_ESCAPE>)|[^\\])'` -/
def mChar : Text → Option Nat
  | 39 :: 92 :: r =>
    match mEscape r with
    | some n => if (r.drop n).head? = some 39 then some (n + 3) else none
    | none => none
  | 39 :: _ :: 39 :: _ => some 3
  | _ => none

/-- `RE_NEWLINE.search(grammar, pos)`: distance to the first `\n` or `\r\n` -/
def findNewline : Text → Option Nat
  | [] => none
  | 10 :: _ => some 0
  | 13 :: 10 :: _ => some 0
  | _ :: r => (findNewline r).map (· + 1)

/-! ### scanner state -/

structure St where
  rest : Text            -- self.grammar[self.pos:]
  pos : Nat              -- self.pos
  start : Nat            -- self.start
  toks : List Token      -- self.tokens, most recent first
deriving Repr

/-- what a scanner method does: returns normally (value, new state), or raises
    `PestGrammarSyntaxError(msg, token=Token(ERROR, value, start))`, or the model ran out of
    fuel -/
inductive SR (α : Type)
  | ok (a : α) (s : St)
  | err (k : EK) (start : Nat) (value : Text)
  | exc (name : String)        -- a Python exception that is not a PestGrammarError
  | oof

abbrev M (α : Type) := St → SR α

@[inline] def M.pure {α} (a : α) : M α := fun s => .ok a s
@[inline] def M.bind {α β} (m : M α) (f : α → M β) : M β := fun s =>
  match m s with
  | .ok a s' => f a s'
  | .err k st v => .err k st v
  | .exc n => .exc n
  | .oof => .oof

instance : Monad M where
  pure := M.pure
  bind := M.bind

/-- `self.pos += n` -/
def St.adv (s : St) (n : Nat) : St := { s with rest := s.rest.drop n, pos := s.pos + n }

/-- `self.emit(kind, value)` -/
def St.emit (s : St) (kind : TK) (value : Text) : St :=
  { s with toks := ⟨kind, value, s.start⟩ :: s.toks, start := s.pos }

/-- `self.peek()` (`none` = the empty string at the end of the text) -/
def St.peek (s : St) : Option Nat := s.rest.head?

/-- `self.error(message)` -/
def error {α} (k : EK) : M α := fun s => .err k s.start (s.rest.take 1)

/-- `self.skip(pattern)` -/
def skip (m : Text → Option Nat) (s : St) : Bool × St :=
  match m s.rest with
  | some n => let s' := s.adv n; (true, { s' with start := s'.pos })
  | none => (false, s)

/-- one evaluation of the tuple `(skip(RE_WHITESPACE), skip(RE_LINE_COMMENT), skip(RE_BLOCK_COMMENT))` -/
def triviaRound (s : St) : Bool × St :=
  let (a, s) := skip mWhitespace s
  let (b, s) := skip mLineComment s
  let (c, s) := skip mBlockComment s
  (a || b || c, s)

def skipTriviaN : Nat → St → St
  | 0, s => s
  | n + 1, s =>
    let (any, s') := triviaRound s
    if any then skipTriviaN n s' else s'

/-- `self.skip_trivia()`: rounds until none of the three patterns matches (every successful
    round consumes a character, so `rest.length + 1` rounds suffice: `skipTrivia_done`) -/
def skipTrivia (s : St) : St := skipTriviaN (s.rest.length + 1) s

def triv : M Unit := fun s => .ok () (skipTrivia s)

/-- `if value := self.scan(pattern): self.emit(kind, value)`; returns whether it matched -/
def scanEmit (m : Text → Option Nat) (kind : TK) : M Bool := fun s =>
  match m s.rest with
  | some n => .ok true ((s.adv n).emit kind (s.rest.take n))
  | none => .ok false s

/-- `if self.peek() == c: self.emit(kind, self.next()) else: self.error(msg)` -/
def expect (c : Nat) (kind : TK) (k : EK) : M Unit := fun s =>
  if s.peek = some c then .ok () ((s.adv 1).emit kind [c]) else error k s

/-- `if self.peek() == c: self.emit(kind, self.next())`; returns whether it did -/
def optChar (c : Nat) (kind : TK) : M Bool := fun s =>
  if s.peek = some c then .ok true ((s.adv 1).emit kind [c]) else .ok false s

/-! ### strings -/

/-- the `while True:` loop of `accept_string` / `accept_ci_string`; `body` = the characters
    consumed since the opening quote, most recent first (`self.grammar[self.start : self.pos]`);
    `esc` = `needs_unescaping`.

```python
c = self.next()
if c == "\\":
    if self.scan(RE_ESCAPE): needs_unescaping = True
    else: self.error("invalid escape")
if not c: self.error(f"unclosed string starting at index {self.start}")
if c == '"':
    value = self.grammar[self.start : self.pos - 1]
    if needs_unescaping: value = unescape_string(value, Token(kind, value, self.start, ...))
    self.emit(kind, value); return True
``` -/
def stringLoop (kind : TK) : Nat → Text → Bool → M Bool
  | 0, _, _ => fun _ => .oof
  | n + 1, body, esc => fun s =>
    match s.rest with
    | [] => .err .unclosedString s.start []
    | 92 :: r =>
      let s1 := s.adv 1
      match mEscape r with
      | some k => stringLoop kind n ((r.take k).reverse ++ 92 :: body) true (s1.adv k)
      | none => error .invalidEscape s1
    | 34 :: _ =>
      let s1 := s.adv 1
      let raw := body.reverse
      if esc then
        match Unescape.unescape raw with
        | .ok v => .ok true (s1.emit kind v)
        | .error e => .err (.unescape e) s.start raw
        | .exc name => .exc name
      else .ok true (s1.emit kind raw)
    | c :: _ => stringLoop kind n (c :: body) esc (s.adv 1)

/-- ```python
if self.peek() != '"': return False
self.pos += 1; self.start = self.pos
<loop>
``` -/
def acceptString : M Bool := fun s =>
  if s.peek = some 34 then
    let s1 := s.adv 1
    stringLoop .string (s1.rest.length + 1) [] false { s1 with start := s1.pos }
  else .ok false s

/-- ```python
if self.peek() != "^": return False
self.pos += 1; self.start = self.pos; self.skip_trivia()
if self.peek() != '"': self.error("expected a string literal")
self.pos += 1; self.start = self.pos
<loop>
``` -/
def acceptCIString : M Bool := fun s =>
  if s.peek = some 94 then
    let s1 := s.adv 1
    let s2 := skipTrivia { s1 with start := s1.pos }
    if s2.peek = some 34 then
      let s3 := s2.adv 1
      stringLoop .stringCI (s3.rest.length + 1) [] false { s3 with start := s3.pos }
    else error .expectedString s2
  else .ok false s

/-! ### postfix operators -/

/-- ```python
while True:
    self.skip_trivia()
    if self.peek() == ",": self.emit(COMMA, self.next())
    elif value := self.scan(RE_NUMBER): self.emit(NUMBER, value)
    else: break
``` -/
def boundsLoop : Nat → M Unit
  | 0 => fun _ => .oof
  | n + 1 => fun s0 =>
    let s := skipTrivia s0
    if s.peek = some 44 then boundsLoop n ((s.adv 1).emit .comma [44])
    else match mNumber s.rest with
      | some k => boundsLoop n ((s.adv k).emit .number (s.rest.take k))
      | none => .ok () s

/-- `accept_postfix_op` -/
def acceptPostfixOp : M Bool := fun s0 =>
  let s := skipTrivia s0
  if s.peek = some 63 then .ok true ((s.adv 1).emit .optionOp [63])
  else if s.peek = some 42 then .ok true ((s.adv 1).emit .repeatOp [42])
  else if s.peek = some 43 then .ok true ((s.adv 1).emit .repeatOnceOp [43])
  else if s.peek = some 123 then
    let s1 := (s.adv 1).emit .lbrace [123]
    (do boundsLoop (s1.rest.length + 1)
        triv
        expect 125 .rbrace .expectedRBrace
        pure true : M Bool) s1
  else .ok false s

/-- `accept_postfix_ops`: `while self.accept_postfix_op(): pass` -/
def postfixLoop : Nat → M Unit
  | 0 => fun _ => .oof
  | n + 1 => do
    let b ← acceptPostfixOp
    if b then postfixLoop n else pure ()

def acceptPostfixOps : M Unit := fun s => postfixLoop (s.rest.length + 1) s

/-! ### terminals -/

def sPEEK : Text := [80, 69, 69, 75]
def sPEEK_ALL : Text := [80, 69, 69, 75, 95, 65, 76, 76]
def sPOP : Text := [80, 79, 80]
def sPOP_ALL : Text := [80, 79, 80, 95, 65, 76, 76]
def sDROP : Text := [68, 82, 79, 80]

/-- `KEYWORDS.get(value, TokenKind.IDENTIFIER)` -/
def keywordKind (v : Text) : TK :=
  if v = sPEEK then .peek else if v = sPEEK_ALL then .peekAll else if v = sPOP then .pop
  else if v = sPOP_ALL then .popAll else if v = sDROP then .drop else .identifier

/-- `if value := self.scan(RE_IDENTIFIER): kind = KEYWORDS.get(…); self.emit(kind, value)` -/
def scanIdent : M (Option TK) := fun s =>
  match mIdentifier s.rest with
  | some n =>
    let v := s.rest.take n
    .ok (some (keywordKind v)) ((s.adv n).emit (keywordKind v) v)
  | none => .ok none s

/-- `if value := self.scan(RE_INTEGER): self.emit(INTEGER, value); self.skip_trivia()` -/
def optInteger : M Unit := do
  let b ← scanEmit mInteger .integer
  if b then triv else pure ()

/-- `if value := self.scan(p): self.emit(kind, value) else: self.error(msg)` -/
def scanOrError (m : Text → Option Nat) (kind : TK) (k : EK) : M Unit := do
  let b ← scanEmit m kind
  if b then pure () else error k

def sDOTS : Text := [46, 46]

/-- the rest of `accept_terminal` after `PEEK` was emitted -/
def peekTail : M Bool := do
  triv
  let b ← optChar 91 .lbracket
  if b then do
    triv
    optInteger
    scanOrError (mLit sDOTS) .rangeOp .expectedRangeOp
    triv
    optInteger
    expect 93 .rbracket .expectedRParen
    pure true
  else pure true

/-- the `RE_CHAR` branch of `accept_terminal` -/
def charRange : M Bool := do
  let b ← scanEmit mChar .char
  if b then do
    triv
    scanOrError (mLit sDOTS) .rangeOp .expectedRangeOp
    triv
    scanOrError mChar .char .expectedChar
    pure true
  else pure false

/-- `accept_terminal`; `recExpr` = `self.accept_expression` -/
def acceptTerminal (recExpr : M Unit) : M Bool := do
  let b ← scanEmit (mLit sPUSH_LITERAL) .pushLiteral
  if b then do
    triv
    expect 40 .lparen .expectedLParen
    triv
    let _ ← acceptString
    triv
    expect 41 .rparen .expectedRParen
    pure true
  else do
    let b ← scanEmit (mLit sPUSH) .push
    if b then do
      triv
      expect 40 .lparen .expectedLParen
      triv
      recExpr
      triv
      expect 41 .rparen .expectedRParen
      pure true
    else do
      let k ← scanIdent
      match k with
      | some kind => if kind = .peek then peekTail else pure true
      | none => do
        let b ← acceptString
        if b then pure true
        else do
          let b ← acceptCIString
          if b then pure true else charRange

/-! ### terms and expressions -/

/-- ```python
if value := self.scan(RE_TAG):
    self.emit(TAG, value); self.skip_trivia()
    if self.peek() == "=": self.emit(ASSIGN_OP, self.next())
    else: self.error("expected the assignment operator")
    self.skip_trivia()
``` -/
def acceptTag : M Unit := do
  let b ← scanEmit mTag .tag
  if b then do
    triv
    expect 61 .assignOp .expectedAssign
    triv
  else pure ()

/-- ```python
while True:
    if self.peek() == "&": self.emit(POSITIVE_PREDICATE, self.next())
    elif self.peek() == "!": self.emit(NEGATIVE_PREDICATE, self.next())
    else: break
    self.skip_trivia()
``` -/
def prefixLoop : Nat → M Unit
  | 0 => fun _ => .oof
  | n + 1 => fun s =>
    if s.peek = some 38 then prefixLoop n (skipTrivia ((s.adv 1).emit .posPred [38]))
    else if s.peek = some 33 then prefixLoop n (skipTrivia ((s.adv 1).emit .negPred [33]))
    else .ok () s

/-- `accept_term` -/
def acceptTerm (recExpr : M Unit) : M Unit := do
  acceptTag
  (fun s => prefixLoop (s.rest.length + 1) s)
  let b ← acceptTerminal recExpr
  if b then acceptPostfixOps
  else do
    expect 40 .lparen .expectedLParen
    triv
    recExpr
    triv
    expect 41 .rparen .expectedRParen
    acceptPostfixOps

/-- ```python
while True:
    self.skip_trivia()
    if self.peek() == "~": self.emit(SEQUENCE_OP, self.next()); self.skip_trivia(); self.accept_term()
    elif self.peek() == "|": self.emit(CHOICE_OP, self.next()); self.skip_trivia(); self.accept_term()
    else: break
``` -/
def exprLoop (recExpr : M Unit) : Nat → M Unit
  | 0 => fun _ => .oof
  | n + 1 => do
    triv
    let b ← optChar 126 .sequenceOp
    if b then do
      triv
      acceptTerm recExpr
      exprLoop recExpr n
    else do
      let b ← optChar 124 .choiceOp
      if b then do
        triv
        acceptTerm recExpr
        exprLoop recExpr n
      else pure ()

/-- `if self.peek() == "|": self.emit(CHOICE_OP, self.next()); self.skip_trivia()` -/
def leadingChoice : M Unit := do
  let b ← optChar 124 .choiceOp
  if b then triv else pure ()

/-- the body of `accept_expression`, with the recursive calls abstracted -/
def exprStep (recExpr : M Unit) : M Unit := do
  triv
  leadingChoice
  acceptTerm recExpr
  (fun s => exprLoop recExpr (s.rest.length + 1) s)

/-- `accept_expression`, `fuel` bounding the nesting depth of parentheses and `PUSH(…)` -/
def acceptExpression : Nat → M Unit
  | 0 => fun _ => .oof
  | fuel + 1 => exprStep (acceptExpression fuel)

/-! ### the state functions -/

inductive Fn | grammar | grammarDocInner | grammarRule | ruleDocInner
deriving DecidableEq, Repr

def sGDOC : Text := [47, 47, 33]
def sRDOC : Text := [47, 47, 47]

/-- the optional blank behind a doc marker (`space? ` of `grammar_doc` / `line_doc`):
```python
if self.peek() in (" ", "	"):
    self.next()
    self.start = self.pos
``` -/
def docBlank (s : St) : St :=
  match s.rest with
  | c :: _ => if c == 32 || c == 9 then let s' := s.adv 1; { s' with start := s'.pos } else s
  | [] => s

/-- `scan_grammar_doc_inner` / `scan_rule_doc_inner` up to their `return` (after the `fix:`
    commit 77be14c: the blank belongs to the marker, the token is `inner_doc`):
```python
if self.peek() in (" ", "	"):
    self.next()
    self.start = self.pos
self.emit(COMMENT_TEXT, self.scan_until(RE_NEWLINE))
```
`scan_until` returns `self.grammar[self.start : <line break or end>]`; both callers run right
after an `emit`, so `self.start == self.pos` on entry (and again after the blank) and the slice
is the text consumed by `scan_until`. -/
def docInner : M Unit := fun s =>
  let s1 := docBlank s
  let n := (findNewline s1.rest).getD s1.rest.length
  .ok () ((s1.adv n).emit .commentText (s1.rest.take n))

/-- `if value := self.scan(RE_MODIFIER): self.emit(MODIFIER, value); self.skip_trivia()` -/
def optModifier : M Unit := do
  let b ← scanEmit mModifier .modifier
  if b then triv else pure ()

/-- `scan_grammar_rule` from the identifier on (after the doc-comment test) -/
def ruleTail : M (Option Fn) := do
  triv
  let b ← scanEmit mIdentifier .identifier
  if b then do
    triv
    expect 61 .assignOp .expectedAssign
    triv
    optModifier
    expect 123 .lbrace .expectedLBrace
    (fun s => acceptExpression (s.rest.length + 1) s)
    expect 125 .rbrace .expectedRBrace
    pure (some .grammarRule)
  else fun s =>
    if s.rest.isEmpty then .ok none s          -- self.pos == len(self.grammar)
    else error .expectedRule s

/-- one call of a state function; the result is the next state function -/
def stateFn : Fn → M (Option Fn)
  | .grammar => do
    triv
    let b ← scanEmit (mLit sGDOC) .grammarDoc
    if b then pure (some .grammarDocInner) else pure (some .grammarRule)
  | .grammarDocInner => do docInner; pure (some .grammar)
  | .grammarRule => do
    triv
    let b ← scanEmit (mLit sRDOC) .ruleDoc
    if b then pure (some .ruleDocInner) else ruleTail
  | .ruleDocInner => do docInner; pure (some .grammarRule)

/-- `while state is not None: state = state()` -/
def run : Nat → Fn → M Unit
  | 0, _ => fun _ => .oof
  | n + 1, fn => do
    let next ← stateFn fn
    match next with
    | some fn' => run n fn'
    | none => pure ()

/-- result of `tokenize(grammar)` -/
inductive ScanResult
  | ok (toks : List Token)
  | err (k : EK) (start : Nat) (value : Text)
  | exc (name : String)
  | oof
deriving Repr

def St.init (text : Text) : St := { rest := text, pos := 0, start := 0, toks := [] }

/-- `Scanner(grammar).tokens`.  The bound on state-function calls: a call either consumes a
    character or moves to a state of lower rank (grammarDocInner > grammar = ruleDocInner >
    grammarRule), see `run_no_oof`. -/
def scan (text : Text) : ScanResult :=
  match run (3 * text.length + 3) .grammar (St.init text) with
  | .ok _ s => .ok s.toks.reverse
  | .err k st v => .err k st v
  | .exc n => .exc n
  | .oof => .oof

end Front
end Pest
