/-
  WF.lean — a decidable well-formedness check for grammars, sufficient for termination of the
  specification L0 (and hence, by the refinement theorems, of both execution modes).

  It is the Lean counterpart of `well_formed` in harness/gen_grammar.py (the filter applied to
  generated grammars) and of the classical PEG condition (Ford 2004): no left recursion, no
  repetition over an expression that can succeed without consuming input, every reference
  defined.  pest adds implicit trivia between sequence elements and repetition items: the
  trivia rules count as *called* wherever a sequence can reach its second element without
  having consumed anything, and they must not be nullable themselves.

  `wellFormed g` computes
    * `nullSet g`   the names of the rules that may succeed on the empty string, by Kleene
                    iteration over the rule table (|rules| rounds), and *checks* that the result
                    is closed (`nullClosed`) — so no convergence proof is needed;
    * `rankTable g` a rank for every rule, by |rules| rounds of longest-left-call-path relaxation,
                    and *checks* (`rankOk`) that every rule left-called by a rule has a strictly
                    smaller rank — a certificate of acyclicity of the left-call graph;
    * `wfE`         every reference defined, no `e*` / `e+` / `e{n,}` over a nullable `e`;
    * `triviaOk`    WHITESPACE / COMMENT bodies are not nullable.
  Conservative points (a grammar rejected here may still terminate): stack terminals, SOI/EOI,
  predicates and `optChoice` nodes count as nullable; `e{,n}` and `e{0,n}` count the trivia rules
  as left-called; atomicity is not tracked (implicit trivia counts as called also where an `@`/`$`
  rule or a trivia rule has switched it off).
-/
import PestModel.Expr

namespace Pest
namespace WF

/-! ### nullable: may succeed without consuming input (over-approximation) -/

mutual
def nullable (N : List String) : Expr → Bool
  | .str s => s.isEmpty
  | .ci s => s.isEmpty
  | .range _ _ => false
  | .ident n _ => N.contains n
  | .rule _ _ _ b => nullable N b
  | .seq es => nullableAll N es
  | .choice es => nullableAny N es
  | .opt _ => true
  | .rep _ => true
  | .rep1 e => nullable N e
  | .repExact e n => n == 0 || nullable N e
  | .repMin e n => n == 0 || nullable N e
  | .repMax _ _ => true
  | .repMinMax e m _ => m == 0 || nullable N e
  | .andP _ => true
  | .notP _ => true
  | .group e _ => nullable N e
  | .push e => nullable N e
  | .pushLit _ => true
  | .peek => true
  | .pop => true
  | .drop => true
  | .peekAll => true
  | .popAll => true
  | .peekSlice _ _ => true
  | .anyB => false
  | .soiB => true
  | .eoiB => true
  | .uprop _ => false
  | .skipUntil _ => true
  | .optChoice _ _ => true
def nullableAll (N : List String) : List Expr → Bool
  | [] => true
  | e :: es => nullable N e && nullableAll N es
def nullableAny (N : List String) : List Expr → Bool
  | [] => false
  | e :: es => nullable N e || nullableAny N es
end

/-- one round: the rules whose body is nullable given that the rules in `N` are -/
def nullStep (g : Grammar) (N : List String) : List String :=
  g.rules.filterMap fun r => if nullable N r.body then some r.name else none

def nullIter (g : Grammar) : Nat → List String
  | 0 => []
  | n + 1 => nullStep g (nullIter g n)

def nullSet (g : Grammar) : List String := nullIter g g.rules.length

/-- `N` is closed: a rule with a nullable body is in `N` -/
def nullClosed (g : Grammar) (N : List String) : Bool :=
  g.rules.all fun r => !nullable N r.body || N.contains r.name

/-! ### references defined, no repetition over a nullable body -/

mutual
def wfE (g : Grammar) (N : List String) : Expr → Bool
  | .str _ => true
  | .ci _ => true
  | .range _ _ => true
  | .ident n _ => (g.lookup n).isSome
  | .rule _ _ _ b => wfE g N b
  | .seq es => wfEL g N es
  | .choice es => wfEL g N es
  | .opt e => wfE g N e
  | .rep e => wfE g N e && !nullable N e
  | .rep1 e => wfE g N e && !nullable N e
  | .repExact e _ => wfE g N e
  | .repMin e _ => wfE g N e && !nullable N e
  | .repMax e _ => wfE g N e
  | .repMinMax e _ _ => wfE g N e
  | .andP e => wfE g N e
  | .notP e => wfE g N e
  | .group e _ => wfE g N e
  | .push e => wfE g N e
  | .pushLit _ => true
  | .peek => true
  | .pop => true
  | .drop => true
  | .peekAll => true
  | .popAll => true
  | .peekSlice _ _ => true
  | .anyB => true
  | .soiB => true
  | .eoiB => true
  | .uprop _ => true
  | .skipUntil _ => true
  | .optChoice _ _ => true
def wfEL (g : Grammar) (N : List String) : List Expr → Bool
  | [] => true
  | e :: es => wfE g N e && wfEL g N es
end

/-! ### the left-call graph -/

/-- the rules implicit trivia may call -/
def triv (g : Grammar) : List String :=
  ["SKIP", "WHITESPACE", "COMMENT"].filter fun n => (g.lookup n).isSome

mutual
/-- the rules `e` may call before having consumed any input (`tv` = the trivia rules) -/
def lc (N tv : List String) : Expr → List String
  | .str _ => []
  | .ci _ => []
  | .range _ _ => []
  | .ident n _ => [n]
  | .rule _ _ _ b => lc N tv b
  | .seq es => lcSeq N tv es
  | .choice es => lcAll N tv es
  | .opt e => lc N tv e
  | .rep e => lc N tv e
  | .rep1 e => lc N tv e ++ (if nullable N e then tv else [])
  | .repExact e _ => lc N tv e ++ (if nullable N e then tv else [])
  | .repMin e _ => lc N tv e ++ (if nullable N e then tv else [])
  | .repMax e _ => lc N tv e ++ tv
  | .repMinMax e m _ => lc N tv e ++ (if nullable N e || m == 0 then tv else [])
  | .andP e => lc N tv e
  | .notP e => lc N tv e
  | .group e _ => lc N tv e
  | .push e => lc N tv e
  | .pushLit _ => []
  | .peek => []
  | .pop => []
  | .drop => []
  | .peekAll => []
  | .popAll => []
  | .peekSlice _ _ => []
  | .anyB => []
  | .soiB => []
  | .eoiB => []
  | .uprop _ => []
  | .skipUntil _ => []
  | .optChoice _ _ => []
/-- a sequence reaches its next element (through implicit trivia) without having consumed
    anything only if the elements before are nullable -/
def lcSeq (N tv : List String) : List Expr → List String
  | [] => []
  | e :: rest =>
    lc N tv e ++ (if nullable N e && !rest.isEmpty then tv ++ lcSeq N tv rest else [])
def lcAll (N tv : List String) : List Expr → List String
  | [] => []
  | e :: rest => lc N tv e ++ lcAll N tv rest
end

/-! ### ranks: a certificate that the left-call graph is acyclic -/

abbrev RankTable := List (String × Nat)

def rankOf (t : RankTable) (n : String) : Nat :=
  match t.find? (·.1 == n) with
  | some p => p.2
  | none => 0

def listMax : List Nat → Nat
  | [] => 0
  | x :: xs => max x (listMax xs)

/-- one relaxation round: a rule ranks above everything it left-calls -/
def rankStep (g : Grammar) (N tv : List String) (t : RankTable) : RankTable :=
  g.rules.map fun r => (r.name, listMax ((lc N tv r.body).map fun m => rankOf t m + 1))

def rankIter (g : Grammar) (N tv : List String) : Nat → RankTable
  | 0 => []
  | n + 1 => rankStep g N tv (rankIter g N tv n)

def rankTable (g : Grammar) : RankTable := rankIter g (nullSet g) (triv g) g.rules.length

/-- every rule left-called by a rule (of the table) ranks strictly below it -/
def rankOk (g : Grammar) (N tv : List String) (t : RankTable) : Bool :=
  g.rules.all fun r => (lc N tv r.body).all fun m => decide (rankOf t m < rankOf t r.name)

/-- WHITESPACE and COMMENT cannot match the empty string (the trivia loop would not advance) -/
def triviaOk (g : Grammar) (N : List String) : Bool :=
  ["WHITESPACE", "COMMENT"].all fun n =>
    match g.lookup n with
    | some r => !nullable N r.body
    | none => true

/-- **the check** -/
def wellFormed (g : Grammar) : Bool :=
  nullClosed g (nullSet g) &&
  (g.rules.all fun r => wfE g (nullSet g) r.body) &&
  triviaOk g (nullSet g) &&
  rankOk g (nullSet g) (triv g) (rankTable g)

end WF
end Pest
