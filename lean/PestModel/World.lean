/-
  World.lean — the process-level model behind property C15
  ("Parsers are isolated, reusable and re-entrant").

  In the grammar-level models (`L1.parse`, `LG.parse`, `Opt.optimize`) a parse is a
  *function* of (rule table, start rule, input, start position).  The real process is not
  that tidy: it holds mutable objects that several parsers can reach.  This file makes that
  object graph explicit.

  Objects (src/pest/parser.py, grammar/parser.py, grammar/optimizer.py):

  * `World.builtins` — the class attribute `Parser.BUILTIN`: one `Rule` object per built-in
    name, created at import time.  Every `Parser.rules` table holds *these very objects*
    (`{**self.BUILTIN, **rules}`), and the grammar front end embeds them *by reference* into
    the expression trees it builds (`left = self.builtins[name]`).  An embedded reference is
    an `Expr.rule n m true b` node (`selfMap = true`: `with_children` returns `self`, so the
    node stays the shared object through every traversal); `deref` reads such a node
    *through the shared table* at use time — that is what aliasing means: a write to
    `Parser.BUILTIN[n].expression` is seen by every tree that mentions `n`.
    (The one built-in whose `with_children` rebuilds the object, `NEWLINE`, is embedded by
    reference by the front end and becomes a private copy as soon as a traversal touches it;
    an `Expr` cannot tell the two apart, `deref` treats `selfMap = false` nodes as copies.
    For the operations of the fixed code this is immaterial — nothing writes the shared
    table, `C15.shared_table_invariant` — it only makes `newParserOld` under-approximate the
    pinned defect for `NEWLINE`.)
  * `World.mappings` — rule mappings held by callers: what `pest.grammar.parse(text, BUILTIN)`
    returns and what `Parser(rules, …)` is given.  `Parser.__init__` copies the *mapping*, not
    the `Rule` objects in it, so two parsers built from one mapping share those objects.
  * `World.parsers` — `Parser` objects: the index of the mapping they were built from, the
    optimizer setting, and their own table `self.rules`, whose entries are references to a
    shared built-in (`Entry.builtin`), references to a rule object of the mapping
    (`Entry.mapped`) or objects only this table refers to (`Entry.own`: what
    `Optimizer.optimize` puts there — `rules[name] = rule.with_children([expr])`, `SKIP`).
  * `World.modules` — generated modules: source text, i.e. a by-value snapshot of the table
    the parser saw when `generate()` ran.
  * `World.filled` — the lazy per-node caches (`OptimizedChoice._compiled`, `_expanded` of the
    bounded repetitions; `_pure` exists but nothing on the parse/generate path calls
    `is_pure`).  A slot is identified by the rule object it lives in and the index of the
    node among the cache-carrying nodes of that rule's body.  Only "filled?" is recorded:
    the *content* of a slot is a function of the node alone (`re.compile` of the node's own
    pattern, the node's own unrolling), so no reader can tell a filled slot from an empty one
    — the harness checks exactly this on the real objects (write-set monitor).

  Operations (`WorldOp`): `newMapping` (front end), `newParser` (`Parser.__init__` with the
  optimizer of the *current* tree: built-in entries are skipped, every other entry is
  *replaced*, nothing is assigned through a reference), `generate`, `parse`, `parseGen`; and
  `newParserOld`, the optimizer as it was on the pinned commit (`rule.expression = expr` on
  *every* entry object, built-ins and the caller's rules included) — present only so that the
  defect is expressible (`C15.old_optimizer_breaks_isolation`).
-/
import PestModel.Opt
import PestModel.Gen

namespace Pest
namespace World

/-! ### embedded references to shared built-ins -/

mutual
/-- read every embedded built-in reference through the shared table `bt` -/
def deref (bt : List Rule) : Expr → Expr
  | .rule n m sm b =>
    if sm then
      match bt.find? (·.name == n) with
      | some r => .rule n r.mod sm r.body
      | none => .rule n m sm b
    else .rule n m sm (deref bt b)
  | .seq es => .seq (derefL bt es)
  | .choice es => .choice (derefL bt es)
  | .opt e => .opt (deref bt e)
  | .rep e => .rep (deref bt e)
  | .rep1 e => .rep1 (deref bt e)
  | .repExact e n => .repExact (deref bt e) n
  | .repMin e n => .repMin (deref bt e) n
  | .repMax e n => .repMax (deref bt e) n
  | .repMinMax e m n => .repMinMax (deref bt e) m n
  | .andP e => .andP (deref bt e)
  | .notP e => .notP (deref bt e)
  | .group e t => .group (deref bt e) t
  | .push e => .push (deref bt e)
  | e => e
def derefL (bt : List Rule) : List Expr → List Expr
  | [] => []
  | e :: es => deref bt e :: derefL bt es
end

def derefRule (bt : List Rule) (r : Rule) : Rule := { r with body := deref bt r.body }

/-! ### tables -/

/-- an entry of `Parser.rules`: *which object* the name is bound to -/
inductive Entry where
  | builtin (name : String)     -- `Parser.BUILTIN[name]` itself
  | mapped (name : String)      -- the rule object `name` of the mapping the parser was built from
  | own (r : Rule)              -- an object no other table refers to
deriving Repr, Inhabited

/-- the rule an entry denotes, given the shared table and the content of the parser's mapping -/
def resolveIn (bt src : List Rule) : Entry → Rule
  | .builtin n => (bt.find? (·.name == n)).getD default
  | .mapped n => derefRule bt ((src.find? (·.name == n)).getD default)
  | .own r => derefRule bt r

def viewIn (bt src : List Rule) (t : List Entry) : List Rule := t.map (resolveIn bt src)

/-- `{**self.BUILTIN, **rules}`: built-in names first (a grammar rule of the same name takes
    the slot), then the remaining rules of the mapping, in order -/
def tableOf (bt src : List Rule) : List Entry :=
  bt.map (fun b => if src.any (·.name == b.name) then Entry.mapped b.name else Entry.builtin b.name)
    ++ (src.filter fun r => !bt.any (·.name == r.name)).map (fun r => Entry.mapped r.name)

/-- what the table holds after the (current) optimizer ran: built-in entries are skipped and
    stay references, every other entry is a new object -/
def reEntry (r : Rule) : Entry :=
  if r.kind == .builtin then .builtin r.name else .own r

/-- `Parser.__init__`: the table of a new parser — a function of the shared table, the
    Unicode sets, the content of the mapping and the optimizer setting.  `none` = the
    constructor raises (`KeyError` in a pass), no object is created. -/
def mkTable (bt : List Rule) (us : List (String × List (Nat × Nat))) (src : List Rule) :
    Option (List Opt.Pass) → Option (List Entry)
  | none => some (tableOf bt src)
  | some ps =>
    (Opt.optimize { rules := viewIn bt src (tableOf bt src), usets := us } ps).map
      fun g' => g'.rules.map reEntry

/-! ### lazy caches -/

inductive Owner where
  | builtins                    -- a node of a shared built-in rule's body
  | mapping (m : Nat)           -- a node of a rule object of mapping `m`
  | parser (p : Nat)            -- a node of an object owned by parser `p`
deriving Repr, DecidableEq

structure Slot where
  owner : Owner
  rule  : String
  node  : Nat                   -- index among the cache-carrying nodes of the rule body (pre-order)
deriving Repr, DecidableEq

/-- number of nodes of a tree that carry a lazy cache (`_expanded`, `_compiled`) -/
def lazyCount : Expr → Nat
  | .rule _ _ _ b => lazyCount b
  | .seq es => lazyCountL es
  | .choice es => lazyCountL es
  | .rep1 e | .repExact e _ | .repMin e _ | .repMax e _ | .repMinMax e _ _ => 1 + lazyCount e
  | .opt e | .rep e | .andP e | .notP e | .group e _ | .push e => lazyCount e
  | .optChoice _ _ => 1
  | _ => 0
where lazyCountL : List Expr → Nat
  | [] => 0
  | e :: es => lazyCount e + lazyCountL es

def slotsOfRule (o : Owner) (r : Rule) : List Slot :=
  (List.range (lazyCount r.body)).map fun i => ⟨o, r.name, i⟩

/-- fill a set of slots; filling is idempotent and order-insensitive by construction -/
def fillAll (f : Slot → Bool) (ss : List Slot) : Slot → Bool := fun s => f s || ss.contains s

/-! ### the process -/

structure ParserObj where
  mapping : Nat
  passes  : Option (List Opt.Pass)       -- `none` = `optimizer=None`
  table   : List Entry
deriving Repr, Inhabited

structure ModuleObj where
  mapping : Nat                          -- provenance only (which parser's table was printed)
  passes  : Option (List Opt.Pass)
  rules   : List Rule                    -- the snapshot the source text encodes
deriving Repr, Inhabited

structure World where
  builtins : List Rule
  usets    : List (String × List (Nat × Nat))
  mappings : List (List Rule)
  parsers  : List ParserObj
  modules  : List ModuleObj
  filled   : Slot → Bool

/-- a freshly started interpreter: `import pest` has built `Parser.BUILTIN`, nothing else -/
def init (bt : List Rule) (us : List (String × List (Nat × Nat))) : World :=
  { builtins := bt, usets := us, mappings := [], parsers := [], modules := [], filled := fun _ => false }

def World.srcOf (w : World) (P : ParserObj) : List Rule := (w.mappings[P.mapping]?).getD []

/-- the rule table parser `P` sees *now* -/
def World.view (w : World) (P : ParserObj) : List Rule := viewIn w.builtins (w.srcOf P) P.table

/-- every cache slot a `parse()`/`generate()` on parser `p` can reach (an over-approximation of
    the ones it fills): the nodes of its entries and of the shared built-ins -/
def World.touched (w : World) (p : Nat) (P : ParserObj) : List Slot :=
  (P.table.flatMap fun
    | .builtin _ => []
    | .mapped n => slotsOfRule (.mapping P.mapping) ((w.srcOf P |>.find? (·.name == n)).getD default)
    | .own r => slotsOfRule (.parser p) r)
  ++ w.builtins.flatMap (slotsOfRule .builtins)

structure Args where
  rule : String
  inp  : Input
  k    : Nat
  fuel : Nat

/-! #### the optimizer of the pinned commit, for `newParserOld` only

    `Opt.runStep` without the `BuiltInRule` skip, by structural recursion over the positions
    (so that the non-vacuity example evaluates in the kernel). -/

def runStepOld (g : Grammar) (p : Opt.Pass) : List Nat → List Rule → Option (List Rule)
  | [], rules => some rules
  | i :: is, rules =>
    match rules[i]? with
    | none => runStepOld g p is rules
    | some r =>
      if p.atomicOnly && !Opt.isAtomicRule rules r then runStepOld g p is rules
      else
        match Opt.runOnce g rules p r.body with
        | none => none
        | some b => runStepOld g p is (rules.set i { r with body := b })

def optimizeOld (g : Grammar) : List Opt.Pass → List Rule → Option (List Rule)
  | [], rules => some rules
  | p :: ps, rules =>
    match runStepOld g p (List.range rules.length) rules with
    | none => none
    | some rules' => optimizeOld g ps rules'

/-- `Parser.__init__` on the pinned commit: the optimizer assigns `rule.expression` on every
    entry *object* — the writes go through the references into the shared table and into the
    caller's mapping. -/
def newParserOld (w : World) (m : Nat) (passes : Option (List Opt.Pass)) : World :=
  match w.mappings[m]? with
  | none => w
  | some src =>
    let t0 := tableOf w.builtins src
    match passes with
    | none => { w with parsers := w.parsers ++ [⟨m, none, t0⟩] }
    | some ps =>
      let g : Grammar := { rules := viewIn w.builtins src t0, usets := w.usets }
      match optimizeOld g ps (Opt.optimizeSkipRule g g.rules) with
      | none => w
      | some out =>
        let body (r : Rule) : Expr := match out.find? (·.name == r.name) with | some r' => r'.body | none => r.body
        { w with
          builtins := w.builtins.map fun b =>
            if src.any (·.name == b.name) then b else { b with body := body b }
          mappings := w.mappings.set m (src.map fun r => { r with body := body r })
          parsers := w.parsers ++ [⟨m, some ps, t0 ++ (out.drop t0.length).map Entry.own⟩] }

/-! #### operations -/

inductive WorldOp where
  | newMapping (src : List Rule)                                  -- `pest.grammar.parse(text, Parser.BUILTIN)`
  | newParser (m : Nat) (passes : Option (List Opt.Pass))         -- `Parser(mapping m, optimizer=…)`
  | newParserOld (m : Nat) (passes : Option (List Opt.Pass))      -- the same on the pinned commit
  | generate (p : Nat)                                            -- `load(parser p .generate())`
  | parse (p : Nat) (a : Args)                                    -- `parser p .parse(rule, inp, start_pos=k)`
  | parseGen (m : Nat) (a : Args)                                 -- `module m .parse(rule, inp, start_pos=k)`

/-- an operation of the current tree (everything but `newParserOld`) -/
def WorldOp.Fixed : WorldOp → Prop
  | .newParserOld _ _ => False
  | _ => True

/-- a call: `parse` on a parser or on a generated module -/
def WorldOp.IsCall : WorldOp → Prop
  | .parse _ _ => True
  | .parseGen _ _ => True
  | _ => False

def step (w : World) : WorldOp → World
  | .newMapping src => { w with mappings := w.mappings ++ [src] }
  | .newParser m passes =>
    match w.mappings[m]? with
    | none => w
    | some src =>
      match mkTable w.builtins w.usets src passes with
      | none => w
      | some t => { w with parsers := w.parsers ++ [⟨m, passes, t⟩] }
  | .newParserOld m passes => newParserOld w m passes
  | .generate p =>
    match w.parsers[p]? with
    | none => w
    | some P =>
      { w with modules := w.modules ++ [⟨P.mapping, P.passes, w.view P⟩]
               filled := fillAll w.filled (w.touched p P) }
  | .parse p _ =>
    match w.parsers[p]? with
    | none => w
    | some P => { w with filled := fillAll w.filled (w.touched p P) }
  | .parseGen _ _ => w          -- a generated module has no lazy state: its regex constants are built at import

def run (w : World) (h : List WorldOp) : World := h.foldl step w

/-- what `parser p .parse(a)` returns in world `w` -/
def parseResult (w : World) (p : Nat) (a : Args) : R1 :=
  match w.parsers[p]? with
  | none => .exc .other
  | some P => L1.parse { rules := w.view P, usets := w.usets } a.inp a.fuel a.rule a.k

/-- what `module m .parse(a)` returns in world `w` -/
def parseGenResult (w : World) (m : Nat) (a : Args) : RG :=
  match w.modules[m]? with
  | none => .exc .other
  | some M => LG.parse { rules := M.rules, usets := w.usets } a.inp a.fuel a.rule a.k

/-- the same parser in a process that has done nothing else: load the grammar, build the
    parser with that optimizer setting, call `parse` -/
def isolatedParse (bt : List Rule) (us : List (String × List (Nat × Nat))) (src : List Rule)
    (passes : Option (List Opt.Pass)) (a : Args) : R1 :=
  parseResult (run (init bt us) [.newMapping src, .newParser 0 passes]) 0 a

/-- … and the same for a generated module: load, build, generate, import, call -/
def isolatedParseGen (bt : List Rule) (us : List (String × List (Nat × Nat))) (src : List Rule)
    (passes : Option (List Opt.Pass)) (a : Args) : RG :=
  parseGenResult (run (init bt us) [.newMapping src, .newParser 0 passes, .generate 0]) 0 a

end World
end Pest
