/-
  Unescape.lean — model of src/pest/grammar/unescape.py (`unescape_string`,
  `_decode_escape_sequence`, `_decode_hex_char`, `_parse_hex_digits`), of what `RE_ESCAPE`
  (src/pest/grammar/scanner.py) lets follow a backslash, and the specification the decoder is
  compared to (property C12, escape clause):

    "String and character escapes (\n \r \t \\ \" \' \0 \xHH \u{H..}) denote the code points
     pest defines."

  A text is a list of code points.  The model mirrors the Python statement by statement; each
  `def` quotes the statements it stands for.  Every Python subscript `value[i]` is an explicit
  `value[i]?` whose `none` branch is what Python does there (`IndexError`, or the
  `incomplete` error where the code has `try/except IndexError`); `chr(v)` is `pyChr v`, which
  is `ValueError` above 0x10FFFF; slices never raise; `str.find` is a scan.  The `token` and
  `quote` arguments only feed error messages (resp. nothing) and are dropped.

  The specification (`specEscape`, `specUnescape`) is written independently of the model, as
  a recursion on the list (no indices), after pest's own grammar:

    escape  = @{ "\\" ~ ("\"" | "\\" | "r" | "n" | "t" | "0" | "'" | code | unicode) }
    code    = @{ "x" ~ hex_digit{2} }
    unicode = @{ "u" ~ "{" ~ hex_digit{2, 6} ~ "}" }

  and pest_meta's `unescape` for the values.
-/
namespace Pest
namespace Unescape

/-! ### results -/

/-- the seven `PestGrammarSyntaxError`s of unescape.py, by message:
    "incomplete escape sequence", "unknown escape sequence at index ..",
    "expected an opening brace, found ..", "unclosed Unicode escape sequence",
    "expected two to six hexadecimal digits in \u{...}",
    "invalid hexadecimal digit in escape sequence",
    "escape sequence is not a Unicode code point" -/
inductive Err
  | incomplete | unknown | brace | unclosed | digits | hex | range
  deriving DecidableEq, Repr

def Err.slug : Err → String
  | .incomplete => "incomplete"
  | .unknown => "unknown"
  | .brace => "brace"
  | .unclosed => "unclosed"
  | .digits => "digits"
  | .hex => "hex"
  | .range => "range"

/-- result of `unescape_string`: the decoded text, a `PestGrammarSyntaxError`, or an
    exception *outside* `PestGrammarError` (by name: "IndexError", "ValueError") -/
inductive Res
  | ok (s : List Nat)
  | error (e : Err)
  | exc (name : String)
  deriving DecidableEq, Repr

def Res.toOption : Res → Option (List Nat)
  | .ok s => some s
  | _ => none

/-- `acc ++ ·` on a decoded text, errors unchanged -/
def Res.prepend (acc : List Nat) : Res → Res
  | .ok s => .ok (acc ++ s)
  | r => r

/-- result of the helper functions (same three ways out, any value type) -/
inductive Py (α : Type)
  | ok (a : α)
  | error (e : Err)
  | exc (name : String)
  deriving DecidableEq, Repr

/-! ### Python primitives -/

/-- `value[a:b]` for `0 ≤ a ≤ b`; never raises -/
def slice (value : List Nat) (a b : Nat) : List Nat := (value.drop a).take (b - a)

/-- the scan of `str.find`: first position (counted from `i`) of `c` in the list -/
def scanFor (c : Nat) : List Nat → Nat → Option Nat
  | [], _ => none
  | x :: xs, i => if x = c then some i else scanFor c xs (i + 1)

/-- `value.find(chr(c), start)`; `none` is Python's `-1` -/
def pyFind (value : List Nat) (c start : Nat) : Option Nat :=
  scanFor c (value.drop start) start

/-- `chr(v)`: `ValueError` outside `range(0x110000)` -/
def pyChr (v : Nat) : Py Nat := if v > 0x10FFFF then .exc "ValueError" else .ok v

/-! ### `_parse_hex_digits` -/

/-- ```python
codepoint = 0
for digit in map(ord, digits):
    codepoint <<= 4
    if digit >= 48 and digit <= 57:
        codepoint |= digit - 48
    elif digit >= 65 and digit <= 70:
        codepoint |= digit - 65 + 10
    elif digit >= 97 and digit <= 102:
        codepoint |= digit - 97 + 10
    else:
        raise PestGrammarSyntaxError("invalid hexadecimal digit in escape sequence", ...)
return codepoint
```
the loop, from a given `codepoint` -/
def parseHexDigitsFrom (codepoint : Nat) : List Nat → Py Nat
  | [] => .ok codepoint
  | digit :: rest =>
    if digit ≥ 48 ∧ digit ≤ 57 then
      parseHexDigitsFrom ((codepoint <<< 4) ||| (digit - 48)) rest
    else if digit ≥ 65 ∧ digit ≤ 70 then
      parseHexDigitsFrom ((codepoint <<< 4) ||| (digit - 65 + 10)) rest
    else if digit ≥ 97 ∧ digit ≤ 102 then
      parseHexDigitsFrom ((codepoint <<< 4) ||| (digit - 97 + 10)) rest
    else .error .hex

def parseHexDigits (digits : List Nat) : Py Nat := parseHexDigitsFrom 0 digits

/-! ### `_decode_hex_char` -/

/-- ```python
index += 1  # move past 'u'
if value[index : index + 1] != "{":
    raise PestGrammarSyntaxError(f"expected an opening brace, found ...")
index += 1  # move past '{'
closing_brace_index = value.find("}", index)
if closing_brace_index == -1:
    raise PestGrammarSyntaxError("unclosed Unicode escape sequence")
hex_digit_length = closing_brace_index - index
if not 2 <= hex_digit_length <= 6:
    raise PestGrammarSyntaxError("expected two to six hexadecimal digits in \\u{...}")
codepoint = _parse_hex_digits(value[index : index + hex_digit_length], token)
index += hex_digit_length  # the closing brace; the caller moves past it
return codepoint, index
```
(`find` starts at `index`, so `closing_brace_index - index` is not negative and the `Nat`
subtraction is Python's) -/
def decodeHexChar (value : List Nat) (index : Nat) : Py (Nat × Nat) :=
  let index := index + 1
  if slice value index (index + 1) ≠ [123] then .error .brace
  else
    let index := index + 1
    match pyFind value 125 index with
    | none => .error .unclosed
    | some closingBraceIndex =>
      let hexDigitLength := closingBraceIndex - index
      if ¬ (2 ≤ hexDigitLength ∧ hexDigitLength ≤ 6) then .error .digits
      else
        match parseHexDigits (slice value index (index + hexDigitLength)) with
        | .ok codepoint => .ok (codepoint, index + hexDigitLength)
        | .error e => .error e
        | .exc n => .exc n

/-! ### `_decode_escape_sequence` -/

/-- ```python
try:
    ch = value[index]
except IndexError as err:
    raise PestGrammarSyntaxError("incomplete escape sequence", token=token) from err
if ch in ('"', "'"):
    return ch, index
if ch == "\\":
    return "\\", index
if ch == "n":
    return "\n", index
if ch == "r":
    return "\r", index
if ch == "t":
    return "\t", index
if ch == "0":
    return "\0", index
if ch == "x":
    digits = value[index + 1 : index + 3]
    if len(digits) != 2:
        raise PestGrammarSyntaxError("incomplete escape sequence", token=token)
    return chr(_parse_hex_digits(digits, token)), index + 2
if ch == "u":
    codepoint, index = _decode_hex_char(value, index, token)
    if codepoint > 0x10FFFF:
        raise PestGrammarSyntaxError("escape sequence is not a Unicode code point", ...)
    return chr(codepoint), index
raise PestGrammarSyntaxError(f"unknown escape sequence at index ...")
```
returns (decoded code point, index of the *last* character of the escape) -/
def decodeEscapeSequence (value : List Nat) (index : Nat) : Py (Nat × Nat) :=
  match value[index]? with
  | none => .error .incomplete
  | some ch =>
    if ch = 34 ∨ ch = 39 then .ok (ch, index)
    else if ch = 92 then .ok (92, index)
    else if ch = 110 then .ok (10, index)
    else if ch = 114 then .ok (13, index)
    else if ch = 116 then .ok (9, index)
    else if ch = 48 then .ok (0, index)
    else if ch = 120 then
      let digits := slice value (index + 1) (index + 3)
      if digits.length ≠ 2 then .error .incomplete
      else
        match parseHexDigits digits with
        | .ok v =>
          match pyChr v with
          | .ok c => .ok (c, index + 2)
          | .error e => .error e
          | .exc n => .exc n
        | .error e => .error e
        | .exc n => .exc n
    else if ch = 117 then
      match decodeHexChar value index with
      | .ok (codepoint, index) =>
        if codepoint > 0x10FFFF then .error .range
        else
          match pyChr codepoint with
          | .ok c => .ok (c, index)
          | .error e => .error e
          | .exc n => .exc n
      | .error e => .error e
      | .exc n => .exc n
    else .error .unknown

/-! ### `unescape_string` -/

/-- ```python
unescaped: list[str] = []
index = 0
while index < len(value):
    ch = value[index]
    if ch == "\\":
        index += 1
        _ch, index = _decode_escape_sequence(value, index, token, quote)
        unescaped.append(_ch)
    else:
        unescaped.append(ch)
    index += 1
return "".join(unescaped)
```
One iteration per unit of fuel.  Every iteration moves `index` forward, so `len(value) + 1`
units always suffice: `C12.unescape_total` proves that the `exc "OutOfFuel"` exit (like the
`IndexError` and `ValueError` exits) is never taken. -/
def loop (value : List Nat) : Nat → Nat → List Nat → Res
  | 0, _, _ => .exc "OutOfFuel"
  | fuel + 1, index, unescaped =>
    if index < value.length then
      match value[index]? with
      | none => .exc "IndexError"
      | some ch =>
        if ch = 92 then
          match decodeEscapeSequence value (index + 1) with
          | .ok (c, index') => loop value fuel (index' + 1) (unescaped ++ [c])
          | .error e => .error e
          | .exc n => .exc n
        else loop value fuel (index + 1) (unescaped ++ [ch])
    else .ok unescaped

/-- `unescape_string(value, token, quote)` -/
def unescape (value : List Nat) : Res := loop value (value.length + 1) 0 []

/-! ### `RE_ESCAPE`

`[\\"rnt0']|x[0-9a-fA-F]{2}|u\{[0-9a-fA-F]{2,6}\}` matched at the head of the list
(`Scanner.scan(RE_ESCAPE)` right after a backslash): the length of the match.  The regex
engine is not modelled; this is the pattern's meaning.  For the third alternative the greedy
`{2,6}` takes `min(6, number of leading hex digits)` digits and then needs `}`; giving digits
back cannot help because a hex digit is not `}`: the alternative matches iff the *maximal* run
of hex digits has length 2..6 and is followed by `}`. -/

def isHexDigit (c : Nat) : Bool :=
  (48 ≤ c && c ≤ 57) || (97 ≤ c && c ≤ 102) || (65 ≤ c && c ≤ 70)

def escapeLen : List Nat → Option Nat
  | [] => none
  | c :: r =>
    if c = 92 ∨ c = 34 ∨ c = 114 ∨ c = 110 ∨ c = 116 ∨ c = 48 ∨ c = 39 then some 1
    else if c = 120 then
      match r with
      | d1 :: d0 :: _ => if isHexDigit d1 && isHexDigit d0 then some 3 else none
      | _ => none
    else if c = 117 then
      match r with
      | [] => none
      | b :: r' =>
        if b = 123 then
          let k := (r'.takeWhile isHexDigit).length
          if 2 ≤ k ∧ k ≤ 6 ∧ r'[k]? = some 125 then some (k + 3) else none
        else none
    else none

/-- the body of a scanned string literal (`Scanner.accept_string`): ordinary characters and
    backslashes followed by a match of `RE_ESCAPE` -/
inductive ValidBody : List Nat → Prop
  | nil : ValidBody []
  | char (c : Nat) (r : List Nat) : c ≠ 92 → ValidBody r → ValidBody (c :: r)
  | esc (e r : List Nat) : escapeLen e = some e.length → ValidBody r → ValidBody (92 :: (e ++ r))

/-! ### Specification -/

/-- value of a hexadecimal digit `0-9 a-f A-F` -/
def hexVal (c : Nat) : Option Nat :=
  if 48 ≤ c ∧ c ≤ 57 then some (c - 48)          -- '0'..'9'
  else if 97 ≤ c ∧ c ≤ 102 then some (c - 87)    -- 'a'..'f'
  else if 65 ≤ c ∧ c ≤ 70 then some (c - 55)     -- 'A'..'F'
  else none

/-- positional (base 16, most significant first) value of a list of hex digits -/
def hexValue (ds : List Nat) : Nat := ds.foldl (fun acc d => 16 * acc + (hexVal d).getD 0) 0

/-- the seven one-letter escapes: `\" \\ \r \n \t \0 \'` -/
def simpleEscape (c : Nat) : Option Nat :=
  if c = 34 then some 34          -- \"  ↦ "
  else if c = 92 then some 92     -- \\  ↦ \
  else if c = 114 then some 13    -- \r  ↦ CR
  else if c = 110 then some 10    -- \n  ↦ LF
  else if c = 116 then some 9     -- \t  ↦ TAB
  else if c = 48 then some 0      -- \0  ↦ NUL
  else if c = 39 then some 39     -- \'  ↦ '
  else none

/-- What follows a backslash: `some (value, length)` when the text starts with one of pest's
    escapes (`length` = its number of characters, backslash not counted; `value` = the code
    point it denotes, `none` when a `\u{…}` is beyond U+10FFFF and denotes no character);
    `none` when it does not start with an escape. -/
def specEscape : List Nat → Option (Option Nat × Nat)
  | [] => none
  | c :: r =>
    match simpleEscape c with
    | some v => some (some v, 1)
    | none =>
      if c = 120 then                         -- code = "x" ~ hex_digit{2}
        match r with
        | d1 :: d0 :: _ =>
          match hexVal d1, hexVal d0 with
          | some h1, some h0 => some (some (16 * h1 + h0), 3)
          | _, _ => none
        | _ => none
      else if c = 117 then                    -- unicode = "u" ~ "{" ~ hex_digit{2,6} ~ "}"
        match r with
        | [] => none
        | b :: r' =>
          if b = 123 then
            let ds := r'.takeWhile (fun d => (hexVal d).isSome)
            if 2 ≤ ds.length ∧ ds.length ≤ 6 ∧ r'[ds.length]? = some 125 then
              some (if hexValue ds ≤ 0x10FFFF then some (hexValue ds) else none, ds.length + 3)
            else none
          else none
      else none

/-- What the body of a literal denotes: a character other than the backslash denotes itself,
    a backslash with one of pest's escapes denotes the escape's code point; `none` when a
    backslash is not followed by an escape (the text is not the body of a literal) or an
    escape denotes no character. -/
def specUnescape (s : List Nat) : Option (List Nat) :=
  match s with
  | [] => some []
  | c :: rest =>
    if c ≠ 92 then (specUnescape rest).map (c :: ·)
    else
      match specEscape rest with
      | some (some v, n) => (specUnescape (rest.drop n)).map (v :: ·)
      | _ => none
termination_by s.length
decreasing_by
  all_goals simp only [List.length_cons, List.length_drop]
  all_goals omega

/-! ### the same specification as a relation

`Escape e v`: `e` is one of pest's escapes (backslash not included) and denotes `v`.
`Denotes s r`: the literal body `s` denotes the text `r`.  (`specUnescape s = some r ↔
Denotes s r` is `C12.spec_denotes`.) -/

inductive Escape : List Nat → Nat → Prop
  /-- `"\"" | "\\" | "r" | "n" | "t" | "0" | "'"` -/
  | simple (c v : Nat) : simpleEscape c = some v → Escape [c] v
  /-- `code = "x" ~ hex_digit{2}` -/
  | code (d1 d0 h1 h0 : Nat) : hexVal d1 = some h1 → hexVal d0 = some h0 →
      Escape [120, d1, d0] (16 * h1 + h0)
  /-- `unicode = "u" ~ "{" ~ hex_digit{2, 6} ~ "}"`, a Unicode code point -/
  | unicode (ds : List Nat) : 2 ≤ ds.length → ds.length ≤ 6 →
      (∀ d ∈ ds, (hexVal d).isSome = true) → hexValue ds ≤ 0x10FFFF →
      Escape ([117, 123] ++ ds ++ [125]) (hexValue ds)

inductive Denotes : List Nat → List Nat → Prop
  | nil : Denotes [] []
  | char (c : Nat) (s r : List Nat) : c ≠ 92 → Denotes s r → Denotes (c :: s) (c :: r)
  | esc (e s : List Nat) (v : Nat) (r : List Nat) : Escape e v → Denotes s r →
      Denotes (92 :: (e ++ s)) (v :: r)

/-! ### spelling (to state "for every value" theorems) -/

/-- the upper-case hex digit of `n < 16` -/
def hexChar (n : Nat) : Nat := if n < 10 then 48 + n else 55 + n

/-- the lower-case hex digit of `n < 16` -/
def hexCharLower (n : Nat) : Nat := if n < 10 then 48 + n else 87 + n

/-- the `k`-digit upper-case hex spelling of `v` (of `v mod 16^k`) -/
def hexN : Nat → Nat → List Nat
  | 0, _ => []
  | k + 1, v => hexN k (v / 16) ++ [hexChar (v % 16)]

/-- the two-digit upper-case hex spelling of `v < 256` -/
def hex2 (v : Nat) : List Nat := [hexChar (v / 16), hexChar (v % 16)]

end Unescape
end Pest
