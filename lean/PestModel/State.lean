/-
  State.lean — model of src/pest/state.py (class ParserState), the runtime shared by the
  interpreter and by generated parsers.

  Every slot of `ParserState` that influences behaviour is a field of `PState`:
    pos, user_stack, rule_stack, atomic_depth, _pos_history, tag_stack, neg_pred_depth,
    _suppress_failures, furthest_pos, furthest_expected, furthest_unexpected, furthest_stack.
  `input` and `parser` are ambient (parameters of the semantics).
  Failure labels are abstracted: `furthest_expected : dict[str, list[str]]` is kept as the
  list of its keys in insertion order with the number of labels under each key.
-/
import PestModel.Stack

namespace Pest

abbrev CP := Nat                       -- a Unicode code point (Python str element)
abbrev Str := List CP

/-- Python exceptions that the modelled code can raise at the modelled points. -/
inductive PyExc where
  | indexError | keyError | assertionError | unboundLocal | typeError | recursion | nameError | other
deriving Repr, DecidableEq

def PyExc.name : PyExc → String
  | .indexError => "IndexError" | .keyError => "KeyError" | .assertionError => "AssertionError"
  | .unboundLocal => "UnboundLocalError" | .typeError => "TypeError" | .recursion => "RecursionError"
  | .nameError => "NameError" | .other => "Other"

structure PState where
  pos      : Nat
  ustack   : DStack Str            -- user_stack
  rstack   : DStack String         -- rule_stack (rule names)
  adepth   : SnapInt               -- atomic_depth
  posHist  : List Nat              -- _pos_history, head = innermost
  tagStack : List String           -- head = top
  tagHist : List (List String) := []   -- `_tag_history`: the tag stack at each open checkpoint
  negDepth : Nat
  suppress : Bool
  fpos     : Int                   -- furthest_pos
  fexp     : List (String × Nat)   -- furthest_expected: keys in insertion order × #labels
  funexp   : List (String × Nat)   -- furthest_unexpected
  fstack   : List String           -- furthest_stack (rule names, bottom first)
deriving Repr, DecidableEq

namespace PState

def init (startPos : Nat) : PState :=
  { pos := startPos, ustack := .empty, rstack := .empty, adepth := .zero0, posHist := [],
    tagStack := [], negDepth := 0, suppress := false, fpos := -1, fexp := [], funexp := [],
    fstack := [] }

/-- `ParserState.checkpoint` -/
def checkpoint (c : PState) : PState :=
  { c with ustack := c.ustack.snapshot, rstack := c.rstack.snapshot,
           adepth := c.adepth.snapshot, posHist := c.pos :: c.posHist,
           tagHist := c.tagStack :: c.tagHist }

/-- `ParserState.ok`.  `_pos_history.pop()` on an empty list raises `IndexError` in Python;
    `okRaises` says when. -/
def ok (c : PState) : PState :=
  { c with ustack := c.ustack.dropSnap, rstack := c.rstack.dropSnap,
           adepth := c.adepth.drop, posHist := c.posHist.tail, tagHist := c.tagHist.tail }

def okRaises (c : PState) : Bool := c.posHist.isEmpty

/-- `ParserState.restore`; `self.pos = self._pos_history.pop()` raises `IndexError` on an
    empty history (`restoreRaises`). -/
def restore (c : PState) : PState :=
  { c with ustack := c.ustack.restore, rstack := c.rstack.restore,
           adepth := c.adepth.restore,
           pos := c.posHist.headD c.pos, posHist := c.posHist.tail,
           tagStack := c.tagHist.headD c.tagStack, tagHist := c.tagHist.tail }

def restoreRaises (c : PState) : Bool := c.posHist.isEmpty

/-- add `label` under `key` in an insertion-ordered dict of label lists -/
def addLabel : List (String × Nat) → String → List (String × Nat)
  | [], k => [(k, 1)]
  | (k', n) :: r, k => if k' = k then (k', n + 1) :: r else (k', n) :: addLabel r k

/-- `rule_name = rule_name or self.rule_stack[-1].name`; `none` = `IndexError` (empty rule stack) -/
def failName (c : PState) (ruleName : Option String) : Option String :=
  match ruleName with
  | some n => if n.isEmpty then c.rstack.items.head? else some n
  | none => c.rstack.items.head?

/-- `pos = pos or self.pos` (mirrored literally: an explicit `0` falls back to `self.pos`) -/
def failPos (c : PState) (posArg : Option Nat) : Nat :=
  match posArg with
  | some q => if q = 0 then c.pos else q
  | none => c.pos

/-- the body of `fail` once it is known not to be suppressed: update the furthest-failure record -/
def failRecord (c : PState) (name : String) (p : Nat) : PState :=
  let isNeg := c.negDepth % 2 == 1
  if (p : Int) > c.fpos then
    { c with fpos := p, fstack := c.rstack.items.reverse,
             fexp := if isNeg then [] else [(name, 1)],
             funexp := if isNeg then [(name, 1)] else [] }
  else if (p : Int) = c.fpos then
    if isNeg then { c with funexp := addLabel c.funexp name }
    else { c with fexp := addLabel c.fexp name }
  else c

/-- `ParserState.fail(label, pos=None, rule_name=None, force=False)`.  Labels are abstracted to
    a count per key.  `none` = Python raises `IndexError` at `self.rule_stack[-1]`. -/
def fail (c : PState) (ruleName : Option String) (force : Bool) (posArg : Option Nat := none) :
    Option PState :=
  if (c.negDepth > 0 && !force) || c.suppress then some c
  else (c.failName ruleName).map fun name => c.failRecord name (c.failPos posArg)

end PState

/-! ### Reference for checkpoint/ok/restore: full copies of the four components -/

structure RSnap where
  pos    : Nat
  ustack : List Str
  rstack : List String
  adepth : Int
deriving Repr, DecidableEq

structure RState where
  cur   : RSnap
  snaps : List RSnap
deriving Repr, DecidableEq

inductive StateOp where
  | setPos (p : Nat) | upush (x : Str) | upop | uclear | rpush (r : String) | rpop
  | aadd (k : Int) | azero | checkpoint | ok | restore
deriving Repr, DecidableEq

/-- One step of a history over the parser state.  `pop` on an empty stack raises
    `IndexError` before changing anything.  `ok`/`restore` with no checkpoint raise
    `IndexError` at their last statement (`_pos_history.pop()`), i.e. *after* the three
    other components were dropped/restored: the state they leave behind is exactly
    `c.ok` / `c.restore` below (restore without a snapshot empties both stacks and zeroes
    the counter), which is what the model keeps. -/
def PState.applyOp (c : PState) : StateOp → PState
  | .setPos p   => { c with pos := p }
  | .upush x    => { c with ustack := c.ustack.push x }
  | .upop       => match c.ustack.pop with | some (_, s) => { c with ustack := s } | none => c
  | .uclear     => { c with ustack := c.ustack.clear }
  | .rpush r    => { c with rstack := c.rstack.push r }
  | .rpop       => match c.rstack.pop with | some (_, s) => { c with rstack := s } | none => c
  | .aadd k     => { c with adepth := c.adepth.add k }
  | .azero      => { c with adepth := c.adepth.zero }
  | .checkpoint => c.checkpoint
  | .ok         => c.ok
  | .restore    => c.restore

def RState.applyOp (r : RState) : StateOp → RState
  | .setPos p   => { r with cur := { r.cur with pos := p } }
  | .upush x    => { r with cur := { r.cur with ustack := x :: r.cur.ustack } }
  | .upop       => { r with cur := { r.cur with ustack := r.cur.ustack.tail } }
  | .uclear     => { r with cur := { r.cur with ustack := [] } }
  | .rpush x    => { r with cur := { r.cur with rstack := x :: r.cur.rstack } }
  | .rpop       => { r with cur := { r.cur with rstack := r.cur.rstack.tail } }
  | .aadd k     => { r with cur := { r.cur with adepth := r.cur.adepth + k } }
  | .azero      => { r with cur := { r.cur with adepth := 0 } }
  | .checkpoint => { r with snaps := r.cur :: r.snaps }
  | .ok         => { r with snaps := r.snaps.tail }
  | .restore    => match r.snaps with
    | [] => ⟨{ r.cur with ustack := [], rstack := [], adepth := 0 }, []⟩
    | s :: rest => ⟨s, rest⟩

end Pest
