/-
  DrvPratt.lean — line-protocol handler for the Pratt model (property C18).

  Requests (already split on blanks, empty fields removed):

    X  <table> <tok> <tok> …     parse_expr on the stream of pairs with these rule names
    XR <table> <tok> <tok> …     the enumerate-and-filter reference on the same stream

  <table>  is  `pre:<e>,<e>…;post:<e>,…;inf:<e>,…`  (no blanks; a section may be empty),
           <e> = `name=prec` for prefix/postfix, `name=precL` / `name=precR` for infix
           (L = left-associative, R = right-associative), e.g.
             pre:neg=5,not=1;post:fac=3;inf:add=1L,mul=2L,pow=3R
           A name may occur in several sections.  Names contain none of ` ,;:=`.
  <tok>    a rule name; a name that is in no section is a primary.

  Answers:
    X   `<tree> <k>`    parse_expr returned <tree>, k pairs were left in the stream
        `SyntaxError`   parse_expr raised SyntaxError("Unexpected end of expression")
    XR  `<tree>`        exactly one tree over the tokens is admissible (Lex ∧ Good)
        `none`          no tree is (the stream is not well formed)
        `ambiguous:<n>` n > 1 trees are (impossible, `C18.good_unique`)
        `too-long`      more than 10 tokens (the reference enumerates all trees)
  <tree> ::= name | (pre op <tree>) | (post <tree> op) | (bin <tree> op <tree>)
-/
import PestModel.Pratt

open Pest Pest.Pratt

namespace Drv

def prattEntries (s : String) : List (String × String) :=
  ((s.splitOn ",").filter (· ≠ "")).filterMap fun e =>
    match e.splitOn "=" with
    | [k, v] => some (k, v)
    | _ => none

def prattInfix (v : String) : Option (Nat × Bool) :=
  let cs := v.toList
  match cs.getLast? with
  | some 'L' => (String.ofList cs.dropLast).toNat?.map (·, false)
  | some 'R' => (String.ofList cs.dropLast).toNat?.map (·, true)
  | _ => none

/-- `none` = malformed table -/
def parsePrattTable (s : String) : Option (Table String) := do
  let mut pre : List (String × Nat) := []
  let mut post : List (String × Nat) := []
  let mut inf : List (String × (Nat × Bool)) := []
  for sec in (s.splitOn ";").filter (· ≠ "") do
    match sec.splitOn ":" with
    | [kind, body] =>
      for (k, v) in prattEntries body do
        match kind with
        | "pre" => pre := pre ++ [(k, ← v.toNat?)]
        | "post" => post := post ++ [(k, ← v.toNat?)]
        | "inf" => inf := inf ++ [(k, ← prattInfix v)]
        | _ => none
    | _ => none
  return { pre := fun n => pre.lookup n, post := fun n => post.lookup n, inf := fun n => inf.lookup n }

partial def showTree : Tree String → String
  | .leaf n => n
  | .pre o r => s!"(pre {o} {showTree r})"
  | .post l o => s!"(post {showTree l} {o})"
  | .bin l o r => s!"(bin {showTree l} {o} {showTree r})"

def handlePratt : List String → Option String
  | "X" :: tbl :: toks =>
    match parsePrattTable tbl with
    | none => some "bad-table"
    | some t =>
      match parseExpr t toks with
      | .ok tree rest => some s!"{showTree tree} {rest.length}"
      | .eof => some "SyntaxError"
      | .fuel => some "model-fuel"
  | "XR" :: tbl :: toks =>
    match parsePrattTable tbl with
    | none => some "bad-table"
    | some t =>
      if toks.length > 10 then some "too-long"
      else match reference t toks with
        | [] => some "none"
        | [tree] => some (showTree tree)
        | ts => some s!"ambiguous:{ts.length}"
  | ["X"] => some "bad-table"
  | ["XR"] => some "bad-table"
  | _ => none

end Drv
