/-
  DrvCore.lean — driver requests for the grammar-level models:
    US <name> <n> <lo> <hi> …        define the code-point set of a Unicode property rule
    G <n> <rule>…                     load a grammar (prefix-serialised trees)
    P <layer> <rule> <k> <fuel> <input>    parse; layer ∈ interp | gen | spec
  Serialisation (harness/pyside.py `ser_expr`):  strings are code points joined by '.',
  '-' is the empty string / no tag / None.
-/
import PestModel.Interp
import PestModel.Gen
import PestModel.Opt
import PestModel.Spec

open Pest

namespace Drv

def decStr (t : String) : Str :=
  if t == "-" then [] else (t.splitOn ".").filterMap (·.toNat?)

def decOptS (t : String) : Option String := if t == "-" then none else some t
def decOptI (t : String) : Option Int := if t == "-" then none else t.toInt?

abbrev Toks := List String

partial def parseN {α} (p : Toks → Option (α × Toks)) : Nat → Toks → Option (List α × Toks)
  | 0, ts => some ([], ts)
  | n + 1, ts => do
    let (x, ts) ← p ts
    let (xs, ts) ← parseN p n ts
    pure (x :: xs, ts)

def parseAlt : Toks → Option (Alt × Toks)
  | "L" :: s :: cs :: ts => some (.lit (decStr s) (cs == "i"), ts)
  | "R" :: a :: b :: ts => do pure (.range (← a.toNat?) (← b.toNat?), ts)
  | "U" :: n :: ts => some (.uprop n, ts)
  | _ => none

partial def parseExpr : Toks → Option (Expr × Toks)
  | "S" :: s :: ts => some (.str (decStr s), ts)
  | "CI" :: s :: ts => some (.ci (decStr s), ts)
  | "RG" :: a :: b :: ts => do pure (.range (← a.toNat?) (← b.toNat?), ts)
  | "ID" :: n :: tag :: ts => some (.ident n (decOptS tag), ts)
  | "RULE" :: n :: m :: sm :: ts => do
    let (e, ts) ← parseExpr ts
    pure (.rule n (← m.toNat?) (sm == "1") e, ts)
  | "SEQ" :: n :: ts => do let (es, ts) ← parseN parseExpr (← n.toNat?) ts; pure (.seq es, ts)
  | "CH" :: n :: ts => do let (es, ts) ← parseN parseExpr (← n.toNat?) ts; pure (.choice es, ts)
  | "OPT" :: ts => do let (e, ts) ← parseExpr ts; pure (.opt e, ts)
  | "REP" :: ts => do let (e, ts) ← parseExpr ts; pure (.rep e, ts)
  | "REP1" :: ts => do let (e, ts) ← parseExpr ts; pure (.rep1 e, ts)
  | "REPX" :: n :: ts => do let (e, ts) ← parseExpr ts; pure (.repExact e (← n.toNat?), ts)
  | "REPMIN" :: n :: ts => do let (e, ts) ← parseExpr ts; pure (.repMin e (← n.toNat?), ts)
  | "REPMAX" :: n :: ts => do let (e, ts) ← parseExpr ts; pure (.repMax e (← n.toNat?), ts)
  | "REPMM" :: m :: n :: ts => do
    let (e, ts) ← parseExpr ts
    pure (.repMinMax e (← m.toNat?) (← n.toNat?), ts)
  | "AND" :: ts => do let (e, ts) ← parseExpr ts; pure (.andP e, ts)
  | "NOT" :: ts => do let (e, ts) ← parseExpr ts; pure (.notP e, ts)
  | "GRP" :: tag :: ts => do let (e, ts) ← parseExpr ts; pure (.group e (decOptS tag), ts)
  | "PUSH" :: ts => do let (e, ts) ← parseExpr ts; pure (.push e, ts)
  | "PUSHL" :: s :: ts => some (.pushLit (decStr s), ts)
  | "PEEK" :: ts => some (.peek, ts)
  | "POP" :: ts => some (.pop, ts)
  | "DROP" :: ts => some (.drop, ts)
  | "PEEKALL" :: ts => some (.peekAll, ts)
  | "POPALL" :: ts => some (.popAll, ts)
  | "SLICE" :: a :: b :: ts => some (.peekSlice (decOptI a) (decOptI b), ts)
  | "ANY" :: ts => some (.anyB, ts)
  | "SOI" :: ts => some (.soiB, ts)
  | "EOI" :: ts => some (.eoiB, ts)
  | "UPROP" :: n :: ts => some (.uprop n, ts)
  | "SKIPU" :: n :: ts => do
    let k ← n.toNat?
    let subs := (ts.take k).map decStr
    if (ts.take k).length == k then pure (.skipUntil subs, ts.drop k) else none
  | "OC" :: star :: n :: ts => do
    let (alts, ts) ← parseN parseAlt (← n.toNat?) ts
    pure (.optChoice alts (star == "1"), ts)
  | _ => none

def parseRule : Toks → Option (Rule × Toks)
  | "R" :: name :: m :: kind :: ts => do
    let (e, ts) ← parseExpr ts
    pure ({ name := name, mod := ← m.toNat?, body := e,
            kind := if kind == "b" then .builtin else .grammar }, ts)
  | _ => none

def parseGrammar : Toks → Option (List Rule)
  | n :: ts => do
    let (rs, rest) ← parseN parseRule (← n.toNat?) ts
    if rest.isEmpty then pure rs else none
  | _ => none

partial def parseIvs : Toks → Option (List (Nat × Nat))
  | [] => some []
  | a :: b :: ts => do pure ((← a.toNat?, ← b.toNat?) :: (← parseIvs ts))
  | _ => none

/-! ### serialisation (must agree with harness/pyside.py) -/

def encStr (s : Str) : String := if s.isEmpty then "-" else ".".intercalate (s.map toString)
def encOptS : Option String → String | none => "-" | some t => t
def encOptI : Option Int → String | none => "-" | some i => toString i

def encAlt : Alt → String
  | .lit s ci => s!"L {encStr s} {if ci then "i" else "s"}"
  | .range a b => s!"R {a} {b}"
  | .uprop n => s!"U {n}"

partial def encExpr : Expr → String
  | .str s => s!"S {encStr s}"
  | .ci s => s!"CI {encStr s}"
  | .range a b => s!"RG {a} {b}"
  | .ident n t => s!"ID {n} {encOptS t}"
  | .rule n m sm b => s!"RULE {n} {m} {if sm then 1 else 0} {encExpr b}"
  | .seq es => s!"SEQ {es.length}" ++ String.join (es.map fun e => " " ++ encExpr e)
  | .choice es => s!"CH {es.length}" ++ String.join (es.map fun e => " " ++ encExpr e)
  | .opt e => s!"OPT {encExpr e}"
  | .rep e => s!"REP {encExpr e}"
  | .rep1 e => s!"REP1 {encExpr e}"
  | .repExact e n => s!"REPX {n} {encExpr e}"
  | .repMin e n => s!"REPMIN {n} {encExpr e}"
  | .repMax e n => s!"REPMAX {n} {encExpr e}"
  | .repMinMax e m n => s!"REPMM {m} {n} {encExpr e}"
  | .andP e => s!"AND {encExpr e}"
  | .notP e => s!"NOT {encExpr e}"
  | .group e t => s!"GRP {encOptS t} {encExpr e}"
  | .push e => s!"PUSH {encExpr e}"
  | .pushLit s => s!"PUSHL {encStr s}"
  | .peek => "PEEK" | .pop => "POP" | .drop => "DROP" | .peekAll => "PEEKALL" | .popAll => "POPALL"
  | .peekSlice a b => s!"SLICE {encOptI a} {encOptI b}"
  | .anyB => "ANY" | .soiB => "SOI" | .eoiB => "EOI"
  | .uprop n => s!"UPROP {n}"
  | .skipUntil subs => s!"SKIPU {subs.length}" ++ String.join (subs.map fun s => " " ++ encStr s)
  | .optChoice alts star =>
    s!"OC {if star then 1 else 0} {alts.length}" ++ String.join (alts.map fun a => " " ++ encAlt a)

def encRule (r : Rule) : String :=
  s!"R {r.name} {r.mod} {match r.kind with | .builtin => "b" | .grammar => "g"} {encExpr r.body}"

def encGrammar (rs : List Rule) : String :=
  s!"{rs.length}" ++ String.join (rs.map fun r => " " ++ encRule r)

partial def encPair : Pair → String
  | .mk n _ s e ch t => s!"({n},{s},{e},{encOptS t},[{"".intercalate (ch.map encPair)}])"

def encPairs (ps : List Pair) : String := "[" ++ "".intercalate (ps.map encPair) ++ "]"

def encKeys (ks : List (String × Nat)) : String :=
  if ks.isEmpty then "-" else ",".intercalate (ks.map fun (k, n) => s!"{k}*{n}")

def encR1 : R1 → String
  | .done true _ ps => "ok " ++ encPairs ps
  | .done false c _ =>
    s!"fail {c.fpos} E:{encKeys c.fexp} U:{encKeys c.funexp} S:{if c.fstack.isEmpty then "-" else ",".intercalate c.fstack}"
  | .oof => "oof"
  | .exc k => "exc " ++ k.name

def encRG : RG → String
  | .done true c ps => encR1 (.done true c ps)
  | .done false c _ => encR1 (.done false c [])
  | .oof => "oof"
  | .exc k => "exc " ++ k.name

def encR0 : R0 → String
  | .ok _ ps => "ok " ++ encPairs ps
  | .fail => "fail"
  | .oof => "oof"
  | .stuck => "exc KeyError"

structure Session where
  g : Grammar := { rules := [] }
  og : Option Grammar := none                      -- result of the last `O` request
  usets : List (String × List (Nat × Nat)) := []

def parsePasses (t : String) : Option (List Opt.Pass) :=
  if t == "-" then some [] else
  (t.splitOn ",").mapM fun n =>
    match n with
    | "unroll" => Opt.defaultPasses[0]?
    | "skip" => Opt.defaultPasses[1]?
    | "inline_builtin" => Opt.defaultPasses[2]?
    | "squash_choice" => Opt.defaultPasses[3]?
    | "inline_silent" => Opt.defaultPasses[4]?
    | _ => none

def handleCore (s : Session) : Toks → Option (Session × String)
  | "US" :: name :: ts =>
    match parseIvs ts with
    | some ivs => some ({ s with usets := (name, ivs) :: s.usets.filter (·.1 != name) }, "ok")
    | none => some (s, "bad-request:US")
  | "G" :: ts =>
    match parseGrammar ts with
    | some rs => some ({ s with g := { rules := rs, usets := s.usets }, og := none }, "ok")
    | none => some (s, "bad-grammar")
  | "GE" :: _ => some (s, encGrammar s.g.rules)               -- echo (serialiser self-check)
  | ["O", passes] =>
    match parsePasses passes with
    | none => some (s, "bad-request:O")
    | some ps =>
      let g := { s.g with usets := s.usets }
      match Opt.optimize g ps with
      | some og => some ({ s with og := some og }, encGrammar og.rules)
      | none => some ({ s with og := none }, "exc KeyError")
  | ["P", layer, rule, k, fuel, input] =>
    match k.toNat?, fuel.toNat? with
    | some k, some fuel =>
      let g := { s.g with usets := s.usets }
      let inp : Input := (decStr input).toArray
      match layer with
      | "interp" => some (s, encR1 (L1.parse g inp fuel rule k))
      | "gen" => some (s, encRG (LG.parse g inp fuel rule k))
      | "spec" => some (s, encR0 (L0.parse g inp fuel rule k))
      | "optspec" =>
        match s.og with
        | some og => some (s, encR0 (L0.parse { og with usets := s.usets } inp fuel rule k))
        | none => some (s, "no-optimized-grammar")
      | "opt" =>
        match s.og with
        | some og => some (s, encR1 (L1.parse { og with usets := s.usets } inp fuel rule k))
        | none => some (s, "no-optimized-grammar")
      | "optgen" =>
        match s.og with
        | some og => some (s, encRG (LG.parse { og with usets := s.usets } inp fuel rule k))
        | none => some (s, "no-optimized-grammar")
      | _ => some (s, "bad-layer:" ++ layer)
    | _, _ => some (s, "bad-request:P")
  | _ => none

end Drv
