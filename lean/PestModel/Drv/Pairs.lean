/-
  Drv/Pairs.lean — line-protocol request for the token / flatten views (Pairs.lean):

    T <layer> <rule> <k> <fuel> <input>     layer = interp | gen | opt | optgen
      -> "tok <S:name:pos|E:name:pos …> flat <name:start:stop:tag …>"   on a successful parse
      -> "none"                                                        otherwise

  The harness compares the answer with `Pairs.tokens()` / `Pairs.flatten()` of the implementation
  on the same parse, which ties `tokensL` / `flattenL` (the functions the C06 theorems
  `tokens_balanced`, `tokens_sorted`, `flatten_is_preorder` speak of) to src/pest/pairs.py.
-/
import PestModel.Pairs
import PestModel.Drv.Core

open Pest

namespace Drv

def encTok : Tok → String
  | .start n p => s!"S:{n}:{p}"
  | .stop n p => s!"E:{n}:{p}"

def encFlat : Pair → String
  | .mk n _ s e _ t => s!"{n}:{s}:{e}:{encOptS t}"

def encViews (ps : List Pair) : String :=
  let tk := (tokensL ps).map encTok
  let fl := (flattenL ps).map encFlat
  s!"tok {if tk.isEmpty then "-" else ",".intercalate tk} flat {if fl.isEmpty then "-" else ",".intercalate fl}"

def viewsR1 : R1 → String
  | .done true _ ps => encViews ps
  | _ => "none"

def viewsRG : RG → String
  | .done true _ ps => encViews ps
  | _ => "none"

def handlePairs (s : Session) : Toks → Option String
  | ["T", layer, rule, k, fuel, input] =>
    match k.toNat?, fuel.toNat? with
    | some k, some fuel =>
      let g := { s.g with usets := s.usets }
      let inp : Input := (decStr input).toArray
      match layer with
      | "interp" => some (viewsR1 (L1.parse g inp fuel rule k))
      | "gen" => some (viewsRG (LG.parse g inp fuel rule k))
      | "opt" =>
        match s.og with
        | some og => some (viewsR1 (L1.parse { og with usets := s.usets } inp fuel rule k))
        | none => some "no-optimized-grammar"
      | "optgen" =>
        match s.og with
        | some og => some (viewsRG (LG.parse { og with usets := s.usets } inp fuel rule k))
        | none => some "no-optimized-grammar"
      | _ => some ("bad-layer:" ++ layer)
    | _, _ => some "bad-request:T"
  | _ => none

end Drv
