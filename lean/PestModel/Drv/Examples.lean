/-
  Drv/Examples.lean — line-protocol handler for the models of the bundled examples (C17).

  Calculator (lean/PestModel/Calc.lean)

    K  <impl> <tok> …       the AST the model of <impl> builds for the token list
    KW <tok> …              `wf` / `ill`: is the token list well formed (Calc.WellFormed)

    <impl>  climb | pratt | encoded | ref
            (`ref` enumerates every tree over the tokens of each parenthesis level: it
             answers `too-long` when a level has more than 9 tokens)
    <tok>   i<n> | v<name> | neg | fac | add | sub | mul | div | pow | ( | )
    answer  <ast> | error         (error = the implementation raises)
    <ast>   <n> | <name> | (neg <ast>) | (fac <ast>) | (add|sub|mul|div|pow <ast> <ast>)
            `bad-tokens` when the token list does not decode (unbalanced parentheses)

  JSON (lean/PestModel/Json.lean, lean/PestModel/Generated/JsonGrammars.lean)

    J render <doc>                  code points of `Json.render d`, joined by '.'
    J mirror <fl> <doc>             `Json.mirror fl d`, in the pair syntax of Drv/Core (`encPairs`)
    J spec <fl> <fuel> <input>      `L0.parse Generated.<grammar> input fuel "json" 0` (answer as `P spec`)
    J accepts <fl> <doc>            `ok` iff the specification run of the regenerated grammar on
                                    `render d` returns exactly `mirror fl d` (an executable instance
                                    of `C17.json_accepts`); otherwise `diff <spec answer> <mirror>`
    J prefixes <fl> <doc>           `ok <n>` iff the specification run fails on each of the n proper
                                    prefixes of `render d` (an instance of `C17.json_rejects_prefix`);
                                    otherwise `accepted <k>` for the first prefix length k that is not
                                    rejected

    <fl>   ex | test      (examples/json/json.pest | tests/grammars/json.pest)
    <doc>  <ws> <val> <ws>
    <ws>   w- | w[stnr]+                      (space, tab, line feed, carriage return)
    <val>  null | true | false
         | N <0|1> <0|digits> <-|digits> <-|[eE][npm]digits>      sign, int, frac, exp (n = no sign, p = +, m = -)
         | S <sstr>
         | A0 <ws> | A <n> (<ws> <val> <ws>){n}
         | O0 <ws> | O <n> (<ws> <sstr> <ws> <ws> <val> <ws>){n}
    <sstr> - | <ch>(,<ch>)*     <ch> = r<code point> | e[qksbfnrt] | u<4 hex digits>
           (eq = \", ek = \\, es = \/)
-/
import PestModel.Calc
import PestModel.Json
import PestModel.Spec
import PestModel.Drv.Core
import PestModel.Generated.JsonGrammars

open Pest

namespace Drv

/-! ### calculator -/

open Pest.Calc in
/-- tokens up to the matching `)` (or the end when `top`) -/
partial def parseCalcToks : List String → Bool → Option (List Tok × List String)
  | [], top => if top then some ([], []) else none
  | ")" :: rest, top => if top then none else some ([], rest)
  | "(" :: rest, top => do
    let (inner, rest) ← parseCalcToks rest false
    let (more, rest) ← parseCalcToks rest top
    pure (.paren inner :: more, rest)
  | t :: rest, top => do
    let tok ← (match t with
      | "neg" => some Tok.neg | "fac" => some Tok.fac | "add" => some Tok.add | "sub" => some Tok.sub
      | "mul" => some Tok.mul | "div" => some Tok.div | "pow" => some Tok.pow
      | _ =>
        if t.startsWith "i" then (t.drop 1).toNat?.map Tok.int
        else if t.startsWith "v" then some (Tok.var (t.drop 1).toString)
        else none)
    let (more, rest) ← parseCalcToks rest top
    pure (tok :: more, rest)

open Pest.Calc in
partial def showAst : AST → String
  | .int n => toString n
  | .var s => s
  | .neg a => s!"(neg {showAst a})"
  | .fac a => s!"(fac {showAst a})"
  | .bin op l r =>
    let o := match op with | .add => "add" | .sub => "sub" | .mul => "mul" | .div => "div" | .pow => "pow"
    s!"({o} {showAst l} {showAst r})"

open Pest.Calc in
mutual
partial def maxLevelLen : List Tok → Nat
  | ts => max ts.length (maxLevelLenL ts)
partial def maxLevelLenL : List Tok → Nat
  | [] => 0
  | .paren c :: ts => max (maxLevelLen c) (maxLevelLenL ts)
  | _ :: ts => maxLevelLenL ts
end

def handleCalc : List String → Option String
  | "K" :: impl :: toks =>
    match parseCalcToks toks true with
    | none => some "bad-tokens"
    | some (ts, _) =>
      let ans (r : Option Calc.AST) : String := match r with | some a => showAst a | none => "error"
      match impl with
      | "climb" => some (ans (Calc.precClimb ts))
      | "pratt" => some (ans (Calc.pratt ts))
      | "encoded" => some (ans (Calc.encoded ts))
      | "ref" => if maxLevelLen ts > 9 then some "too-long" else some (ans (Calc.reference ts))
      | _ => some ("bad-impl:" ++ impl)
  | "KW" :: toks =>
    match parseCalcToks toks true with
    | none => some "bad-tokens"
    | some (ts, _) => some (if decide (Calc.WellFormed ts) then "wf" else "ill")
  | _ => none

/-! ### JSON -/

open Pest.Json

def decWs (t : String) : Option Ws :=
  if t == "w-" then some []
  else if t.startsWith "w" then
    (t.drop 1).toString.toList.mapM fun c =>
      match c with
      | 's' => some WsCh.space | 't' => some WsCh.tab | 'n' => some WsCh.lf | 'r' => some WsCh.cr
      | _ => none
  else none

def decDigit (c : Char) : Option Digit :=
  if h : 48 ≤ c.toNat ∧ c.toNat ≤ 57 then some ⟨c.toNat - 48, by omega⟩ else none

def decDigits (s : String) : Option (List Digit) := s.toList.mapM decDigit

def decHex (c : Char) : Option Hex :=
  let n := c.toNat
  if h : 48 ≤ n ∧ n ≤ 57 then some (.dig ⟨n - 48, by omega⟩)
  else if h : 97 ≤ n ∧ n ≤ 102 then some (.lower ⟨n - 97, by omega⟩)
  else if h : 65 ≤ n ∧ n ≤ 70 then some (.upper ⟨n - 65, by omega⟩)
  else none

def decSChar (t : String) : Option SChar :=
  match t.toList with
  | 'r' :: ds =>
    match (String.ofList ds).toNat? with
    | some c => if h : Unescaped c then some (.raw c h) else none
    | none => none
  | ['e', k] =>
    (match k with
      | 'q' => some Esc.quote | 'k' => some Esc.backslash | 's' => some Esc.slash | 'b' => some Esc.b
      | 'f' => some Esc.f | 'n' => some Esc.n | 'r' => some Esc.r | 't' => some Esc.t
      | _ => none).map SChar.esc
  | ['u', a, b, c, d] => do pure (.u (← decHex a) (← decHex b) (← decHex c) (← decHex d))
  | _ => none

def decSStr (t : String) : Option SStr :=
  if t == "-" then some [] else (t.splitOn ",").mapM decSChar

def decInt (it : String) : Option IntPart :=
  match decDigits it with
  | some [d] =>
    if d.val = 0 then some IntPart.zero
    else if h : 1 ≤ d.val then some (IntPart.nonzero ⟨d.val - 1, by omega⟩ []) else none
  | some (d :: rest) => if h : 1 ≤ d.val then some (IntPart.nonzero ⟨d.val - 1, by omega⟩ rest) else none
  | _ => none

def decFrac (fr : String) : Option (Option (Digit × List Digit)) :=
  if fr == "-" then some none
  else match decDigits fr with
    | some (d :: ds) => some (some (d, ds))
    | _ => none

def decExp (ex : String) : Option (Option Exp) :=
  if ex == "-" then some none
  else match ex.toList with
    | e :: sg :: ds =>
      let upper := (match e with | 'E' => some true | 'e' => some false | _ => none)
      let sign := (match sg with
        | 'n' => some ExpSign.none | 'p' => some ExpSign.plus | 'm' => some ExpSign.minus | _ => none)
      match upper, sign, ds.mapM decDigit with
      | some upper, some sign, some (d :: ds) => some (some { upper, sign, d, ds : Exp })
      | _, _, _ => none
    | _ => none

def decNum (sg it fr ex : String) : Option Num := do
  let neg ← (match sg with | "0" => some false | "1" => some true | _ => none)
  let int ← decInt it
  let frac ← decFrac fr
  let exp ← decExp ex
  pure { neg, int, frac, exp }

mutual
partial def decVal : List String → Option (Val × List String)
  | "null" :: ts => some (.null, ts)
  | "true" :: ts => some (.tt, ts)
  | "false" :: ts => some (.ff, ts)
  | "N" :: sg :: it :: fr :: ex :: ts => do pure (.num (← decNum sg it fr ex), ts)
  | "S" :: s :: ts => do pure (.str (← decSStr s), ts)
  | "A0" :: w :: ts => do pure (.arr0 (← decWs w), ts)
  | "O0" :: w :: ts => do pure (.obj0 (← decWs w), ts)
  | "A" :: n :: ts => do
    let k ← n.toNat?
    if k = 0 then none else
    let (es, ts) ← decElems k ts
    pure (.arr es, ts)
  | "O" :: n :: ts => do
    let k ← n.toNat?
    if k = 0 then none else
    let (ms, ts) ← decMembers k ts
    pure (.obj ms, ts)
  | _ => none
partial def decElems : Nat → List String → Option (Elems × List String)
  | k, w1 :: ts => do
    let w1 ← decWs w1
    let (v, ts) ← decVal ts
    match ts with
    | w2 :: ts =>
      let w2 ← decWs w2
      if k ≤ 1 then pure (.one w1 v w2, ts)
      else do
        let (rest, ts) ← decElems (k - 1) ts
        pure (.cons w1 v w2 rest, ts)
    | [] => none
  | _, [] => none
partial def decMembers : Nat → List String → Option (Members × List String)
  | k, w1 :: key :: w2 :: w3 :: ts => do
    let w1 ← decWs w1
    let key ← decSStr key
    let w2 ← decWs w2
    let w3 ← decWs w3
    let (v, ts) ← decVal ts
    match ts with
    | w4 :: ts =>
      let w4 ← decWs w4
      if k ≤ 1 then pure (.one w1 key w2 w3 v w4, ts)
      else do
        let (rest, ts) ← decMembers (k - 1) ts
        pure (.cons w1 key w2 w3 v w4 rest, ts)
    | [] => none
  | _, _ => none
end

def decDoc : List String → Option Doc
  | w1 :: ts => do
    let w1 ← decWs w1
    let (v, ts) ← decVal ts
    match ts with
    | [w2] => pure { w1, v, w2 := ← decWs w2 }
    | _ => none
  | [] => none

def decFlavour : String → Option (Flavour × Grammar)
  | "ex" => some (.examples, Generated.examplesJson)
  | "test" => some (.tests, Generated.testsJson)
  | _ => none

/-- enough for the specification run on an input of this size (loops are bounded by the
    fuel; each level of nesting costs a bounded number of activations) -/
def jsonFuel (n : Nat) : Nat := 24 * n + 64

def handleJson : List String → Option String
  | "J" :: "render" :: doc =>
    match decDoc doc with
    | some d => some (encStr (render d))
    | none => some "bad-doc"
  | "J" :: "mirror" :: fl :: doc =>
    match decFlavour fl, decDoc doc with
    | some (f, _), some d => some (encPairs (mirror f d))
    | _, _ => some "bad-doc"
  | ["J", "spec", fl, fuel, input] =>
    match decFlavour fl, fuel.toNat? with
    | some (_, g), some fuel => some (encR0 (L0.parse g (decStr input).toArray fuel "json" 0))
    | _, _ => some "bad-request:J"
  | "J" :: "accepts" :: fl :: doc =>
    match decFlavour fl, decDoc doc with
    | some (f, g), some d =>
      let inp := (render d).toArray
      let got := encR0 (L0.parse g inp (jsonFuel inp.size) "json" 0)
      let want := "ok " ++ encPairs (mirror f d)
      some (if got == want then "ok" else s!"diff {got} {want}")
    | _, _ => some "bad-doc"
  | "J" :: "prefixes" :: fl :: doc =>
    match decFlavour fl, decDoc doc with
    | some (_, g), some d =>
      let txt := render d
      let n := txt.length
      let bad := (List.range n).find? fun k =>
        match L0.parse g (txt.take k).toArray (jsonFuel k) "json" 0 with
        | .fail => false
        | _ => true
      some (match bad with | none => s!"ok {n}" | some k => s!"accepted {k}")
    | _, _ => some "bad-doc"
  | "J" :: _ => some "bad-request:J"
  | _ => none

def handleExamples (toks : List String) : Option String :=
  match handleCalc toks with
  | some r => some r
  | none => handleJson toks

end Drv
