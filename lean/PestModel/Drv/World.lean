/-
  Drv/World.lean — driver request for the process-level model (C15).

    H <fuel> <nU> {<name> <nIv> {<lo> <hi>}*}* <B> {<op>}*

  one line = one history, replayed from a fresh `World.init`.
    <nU> blocks   code-point sets of the Unicode property rules mentioned (as in `US`)
    <B>           the shared built-in table `Parser.BUILTIN`, restricted to the names the
                  history can reach, serialised like a `G` grammar: `<n> {R name mod b expr}*`
    <op>          M <grammar>             newMapping: the front end's rules (`<n> {R name mod g expr}*`,
                                          `pyside.ser_rules` of the mapping `pest.grammar.parse` returns)
                  N <m> <passes>          newParser on mapping m; <passes> = `none` (optimizer=None),
                                          `-` (Optimizer([])) or pass names joined by `,` (as in `O`)
                  NO <m> <passes>         newParserOld (the optimizer of the pinned commit)
                  GEN <p>                 generate parser p and import the module
                  P <p> <rule> <k> <inp>  parser p .parse(rule, inp, start_pos=k)
                  PG <m> <rule> <k> <inp> module m .parse(rule, inp, start_pos=k)
                  T <p>                   (query) the non-built-in entries of the table parser p sees now
                  TB                      (query) the shared built-in table now
  Answer: one field per op, joined by ` | `:  `ok` / `exc KeyError` / `noobj` for the creating
  ops, `Drv.encR1` / `Drv.encRG` for calls, `Drv.encGrammar` for the queries.
-/
import PestModel.World
import PestModel.Drv.Core

open Pest

namespace Drv

def parseGrammarRest : Toks → Option (List Rule × Toks)
  | n :: ts => do parseN parseRule (← n.toNat?) ts
  | _ => none

partial def parseIvN : Nat → Toks → Option (List (Nat × Nat) × Toks)
  | 0, ts => some ([], ts)
  | n + 1, a :: b :: ts => do
    let (r, ts) ← parseIvN n ts
    pure ((← a.toNat?, ← b.toNat?) :: r, ts)
  | _, _ => none

def parseUBlock : Toks → Option ((String × List (Nat × Nat)) × Toks)
  | name :: n :: ts => do
    let (ivs, ts) ← parseIvN (← n.toNat?) ts
    pure ((name, ivs), ts)
  | _ => none

def parsePassesOpt (t : String) : Option (Option (List Opt.Pass)) :=
  if t == "none" then some none else (parsePasses t).map some

inductive HOp where
  | op (o : World.WorldOp)
  | table (p : Nat)
  | builtins

partial def parseHOps : Toks → Option (List HOp)
  | [] => some []
  | "M" :: ts => do
    let (rs, ts) ← parseGrammarRest ts
    pure (.op (.newMapping rs) :: (← parseHOps ts))
  | "N" :: m :: ps :: ts => do
    pure (.op (.newParser (← m.toNat?) (← parsePassesOpt ps)) :: (← parseHOps ts))
  | "NO" :: m :: ps :: ts => do
    pure (.op (.newParserOld (← m.toNat?) (← parsePassesOpt ps)) :: (← parseHOps ts))
  | "GEN" :: p :: ts => do pure (.op (.generate (← p.toNat?)) :: (← parseHOps ts))
  | "P" :: p :: rule :: k :: inp :: ts => do
    pure (.op (.parse (← p.toNat?) ⟨rule, (decStr inp).toArray, ← k.toNat?, 0⟩) :: (← parseHOps ts))
  | "PG" :: m :: rule :: k :: inp :: ts => do
    pure (.op (.parseGen (← m.toNat?) ⟨rule, (decStr inp).toArray, ← k.toNat?, 0⟩) :: (← parseHOps ts))
  | "T" :: p :: ts => do pure (.table (← p.toNat?) :: (← parseHOps ts))
  | "TB" :: ts => do pure (.builtins :: (← parseHOps ts))
  | _ => none

/-- the observable outcome of one operation in world `w` (before it is applied) -/
def answer (fuel : Nat) (w : World.World) : HOp → String
  | .op (.newMapping _) => "ok"
  | .op (.newParser m ps) =>
    match w.mappings[m]? with
    | none => "noobj"
    | some src => if (World.mkTable w.builtins w.usets src ps).isSome then "ok" else "exc KeyError"
  | .op (.newParserOld m ps) =>
    if (World.step w (.newParserOld m ps)).parsers.length > w.parsers.length then "ok"
    else if (w.mappings[m]?).isNone then "noobj" else "exc KeyError"
  | .op (.generate p) => if (w.parsers[p]?).isSome then "ok" else "noobj"
  | .op (.parse p a) =>
    if (w.parsers[p]?).isSome then encR1 (World.parseResult w p { a with fuel := fuel }) else "noobj"
  | .op (.parseGen m a) =>
    if (w.modules[m]?).isSome then encRG (World.parseGenResult w m { a with fuel := fuel }) else "noobj"
  | .table p =>
    match w.parsers[p]? with
    | none => "noobj"
    | some P => encGrammar ((w.view P).filter (·.kind != .builtin))
  | .builtins => encGrammar w.builtins

def replayH (fuel : Nat) (w : World.World) (ops : List HOp) : List String :=
  let rec go (w : World.World) (acc : List String) : List HOp → List String
    | [] => acc.reverse
    | o :: os =>
      let out := answer fuel w o
      let w' := match o with | .op x => World.step w x | _ => w
      go w' (out :: acc) os
  go w [] ops

def handleWorld : List String → Option String
  | "H" :: fuel :: nU :: ts => some <|
    match fuel.toNat?, nU.toNat? with
    | some fuel, some nU =>
      match parseN parseUBlock nU ts with
      | none => "bad-request:H usets"
      | some (us, ts) =>
        match parseGrammarRest ts with
        | none => "bad-request:H builtins"
        | some (bt, ts) =>
          match parseHOps ts with
          | none => "bad-request:H ops"
          | some ops => " | ".intercalate (replayH fuel (World.init bt us) ops)
    | _, _ => "bad-request:H"
  | _ => none

end Drv
