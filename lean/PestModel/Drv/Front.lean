/-
  Drv/Front.lean — line-protocol requests for the grammar front end (C10, C11) and the
  escape decoder (C12).  (placeholder)
-/
import PestModel.Drv.Escapes

namespace Drv

def handleFront : List String → Option String
  | toks => handleEscapes toks

end Drv
