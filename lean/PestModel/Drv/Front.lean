/-
  Drv/Front.lean — line-protocol requests for the grammar front end (C10, C11); the escape
  decoder's `U`/`USPEC` (C12) are chained in from Drv/Escapes.lean.

  Texts are code points joined by `.`, the empty text is a lone `-`.
    F  <text> [<builtin names joined by ','>]
         Parser.from_grammar(text, optimizer=None):
         `ok <rules>|<grammar doc>|<rule docs>`
             <rules>       = Drv.encGrammar of the grammar rules in dictionary order (kind `g`);
                             a reference to a built-in rule other than EOI is `ID <name> -`
             <grammar doc> = the doc lines (each a text) joined by `,`; `~` if there is none
             <rule docs>   = `<name>:<lines joined by ','>` joined by `;` for the rules that have
                             doc lines; `~` if no rule has any
         `err <message slug> <start of the error token>`      PestGrammarSyntaxError
         `exc <PythonExceptionName>`                           any other exception
         `oof`                                                 the model ran out of fuel
    TK <text>   tokenize(text): `<KIND>:<start>:<value>` joined by blanks (`-` if none),
                or `err <slug> <start>` / `exc <name>` / `oof`
    GC <text> <index>   PestGrammarError._error_context(text, index):
                `<line number> <column> <current line>` or `exc IndexError`
-/
import PestModel.Front.Scan
import PestModel.Front.Parse
import PestModel.Front.ErrorContext
import PestModel.Drv.Core
import PestModel.Drv.Escapes

open Pest Pest.Front

namespace Drv

def fEncText (t : Text) : String :=
  if t.isEmpty then "-" else ".".intercalate (t.map toString)

def fDecText (s : String) : Option Text :=
  if s == "-" then some [] else (s.splitOn ".").mapM (·.toNat?)

def fEncLines (ls : List Text) : String :=
  if ls.isEmpty then "~" else ",".intercalate (ls.map fEncText)

def fEncLoaded (g : Loaded) : String :=
  let rules : List Rule := g.rules.map fun r => { name := r.name, mod := r.mod, body := r.body, kind := .grammar }
  let docs := (g.rules.filter (!·.doc.isEmpty)).map fun r => s!"{r.name}:{fEncLines r.doc}"
  s!"ok {encGrammar rules}|{fEncLines g.doc}|{if docs.isEmpty then "~" else ";".intercalate docs}"

def fLoad (text : String) (builtins : List String) : String :=
  match fDecText text with
  | none => "bad-args"
  | some t =>
    match load builtins t with
    | .ok g => fEncLoaded g
    | .error e => s!"err {e.kind.slug} {e.start}"
    | .exc n => s!"exc {n}"
    | .oof => "oof"

def fTokens (text : String) : String :=
  match fDecText text with
  | none => "bad-args"
  | some t =>
    match scan t with
    | .ok toks =>
      if toks.isEmpty then "-"
      else " ".intercalate (toks.map fun k => s!"{k.kind.name}:{k.start}:{fEncText k.value}")
    | .err k st _ => s!"err {k.slug} {st}"
    | .exc n => s!"exc {n}"
    | .oof => "oof"

def handleFront : List String → Option String
  | ["F", text] => some (fLoad text [])
  | ["F", text, builtins] => some (fLoad text (builtins.splitOn ","))
  | ["TK", text] => some (fTokens text)
  | ["GC", text, index] => some <|
    match fDecText text, index.toNat? with
    | some t, some i =>
      match grammarErrorContext t i with
      | some (line, col, cur) => s!"{line} {col} {fEncText cur}"
      | none => "exc IndexError"
    | _, _ => "bad-args"
  | toks => handleEscapes toks

end Drv
