/-
  Drv/Escapes.lean — line-protocol request for the escape decoder (C12, escape clause).
    U <quote: d|s> <literal body cps>   → decoded cps | `err <kind>` | `exc <PythonExceptionName>`
  (placeholder until PestModel/Unescape.lean exists)
-/
namespace Drv

def handleEscapes : List String → Option String
  | _ => none

end Drv
