/-
  Drv/Escapes.lean — line-protocol requests for the escape decoder (C12, escape clause).

  Texts are code points joined by `.`; the empty text is a lone `-`.
    U <quote: d|s> <literal body>   the model of `unescape_string(body, token, quote)`
                                    → decoded text | `err <slug>` | `exc <PythonExceptionName>`
                                    (`quote` is ignored, as the code ignores it)
    USPEC <literal body>            the *specification* `specUnescape`
                                    → decoded text | `none`
    ULEN <text>                     `RE_ESCAPE.match(text)` → length of the match | `none`
-/
import PestModel.Unescape

open Pest.Unescape

namespace Drv

def encCps (t : List Nat) : String :=
  if t.isEmpty then "-" else ".".intercalate (t.map toString)

def decCps (s : String) : Option (List Nat) :=
  if s == "-" then some [] else (s.splitOn ".").mapM (·.toNat?)

def showRes : Res → String
  | .ok s => encCps s
  | .error e => "err " ++ e.slug
  | .exc n => "exc " ++ n

def handleEscapes : List String → Option String
  | ["U", q, body] => some <|
    if q != "d" && q != "s" then "bad-args"
    else match decCps body with
      | some b => showRes (unescape b)
      | none => "bad-args"
  | ["USPEC", body] => some <|
    match decCps body with
    | some b =>
      match specUnescape b with
      | some r => encCps r
      | none => "none"
    | none => "bad-args"
  | ["ULEN", body] => some <|
    match decCps body with
    | some b =>
      match escapeLen b with
      | some n => toString n
      | none => "none"
    | none => "bad-args"
  | _ => none

end Drv
