/-
  Drv/Hyps.lean — line-protocol request evaluating the theorems' hypotheses on the session grammar:

    HY <which>        which = g (the grammar last sent with `G`) | og (its optimized form, after `O`)
      -> "wf=<b> closed=<b> shape=<b> skip=<b> eoi=<b> soifree=<b> optwf=<b>"     b = 1 | 0

  `wf` is `WF.wellFormed` (hypothesis of the termination theorems C07.parse_terminates / parse_total),
  `optwf` is `OptS.wfCheck` (hypothesis of C02.optimizer_sound, meaningful on the un-optimized grammar),
  `closed`/`shape`/`skip`/`eoi` are `closedB`/`genShapeB`/`skipTotalB`/`onlyEOIB` (hypotheses of
  run_good, run_gen, gen_no_exc_*).  The harness records for how many grammars of a run each holds,
  i.e. on which part of the explored grammars the theorems speak.
-/
import PestModel.Hyps
import PestModel.WF
import PestModel.OptHyps
import PestModel.Drv.Core

open Pest

namespace Drv

def bit (b : Bool) : String := if b then "1" else "0"

def encHyps (g : Grammar) : String :=
  s!"wf={bit (WF.wellFormed g)} closed={bit (C07.closedB g)} shape={bit (C07.genShapeB g)} skip={bit (C07.skipTotalB g)} eoi={bit (C07.onlyEOIB g)} soifree={bit (soiFreeG g)} optwf={bit (OptS.wfCheck g)}"

def handleHyps (s : Session) : Toks → Option String
  | ["HY", "g"] => some (encHyps { s.g with usets := s.usets })
  | ["HY", "og"] =>
    match s.og with
    | some og => some (encHyps { og with usets := s.usets })
    | none => some "no-optimized-grammar"
  | _ => none

end Drv
