/-
  Drv/CharSet.lean — line-protocol requests for the character-set model (C12).

    CC <n> <cp>… <m> <a> <b>…   `_optimize_char_class(singles, ranges)`:
                                 → `s:<kept singles> r:<merged a-b,…> p:<pieces in written order>`
                                   (lists joined by `,`, `-` when empty; a piece is `x` or `x-y`)
    CM <n> <cp>… <m> <a> <b>… <c>   does that class accept code point c?  → `1` | `0`
    CA <k> <alt>…               the class part of `build_optimized_pattern(choices)`; alternatives as
                                 harness/pyside.py `ser_alt` writes them (`L <str> s|i`, `R <a> <b>`, `U <name>`)
                                 → same answer format as `CC`
    AS <name>                   the *definition* of an ASCII built-in (CharSet.specOf, not the table),
                                 as maximal intervals over U+0000..U+10FFFF → `a-b,…` (`-` = empty set)
    AT <name>                   the entry of the regenerated table `asciiRuleMap` → `a-b,…` | `none`
    NL                          the regenerated NEWLINE alternatives → `10|13.10|13`
    NLM <input> <pos>           `matchFirst` over them at a position → end position | `none`
    UT                          do the two regenerated copies of UNICODE_RULES (strings / code points)
                                 agree?  → `ok <count>` | `differ <first name>`
    UP <name>                   pattern of a Unicode rule, from the string table → code points joined by `.`
  `none` for any other request.
-/
import PestModel.CharSet
import PestModel.CharClass
import PestModel.Generated.AsciiTables

open Pest Pest.CharSet

namespace Drv

private def csJoin (xs : List String) : String := if xs.isEmpty then "-" else ",".intercalate xs

private def showIvs (ivs : List Iv) : String := csJoin (ivs.map fun (a, b) => s!"{a}-{b}")

private def showPiece : Piece → String
  | .single c => toString c
  | .range a b => s!"{a}-{b}"

private def showClass (cls : List Nat × List Iv) : String :=
  s!"s:{csJoin (cls.1.map toString)} r:{showIvs cls.2} p:{csJoin ((pieces cls).map showPiece)}"

private def takeNats : Nat → List String → Option (List Nat × List String)
  | 0, ts => some ([], ts)
  | n + 1, t :: ts => do
    let x ← t.toNat?
    let (xs, rest) ← takeNats n ts
    pure (x :: xs, rest)
  | _ + 1, [] => none

private def pairUp : List Nat → List Iv
  | a :: b :: rest => (a, b) :: pairUp rest
  | _ => []

/-- `<n> <cp>… <m> <a> <b>…` -/
private def parseClassArgs (ts : List String) : Option (List Nat × List Iv × List String) := do
  let n ← (← ts.head?).toNat?
  let (singles, ts) ← takeNats n ts.tail
  let m ← (← ts.head?).toNat?
  let (flat, ts) ← takeNats (2 * m) ts.tail
  pure (singles, pairUp flat, ts)

private def csDecStr (t : String) : List Nat :=
  if t == "-" then [] else (t.splitOn ".").filterMap (·.toNat?)

private def parseAlts : Nat → List String → Option (List Alt × List String)
  | 0, ts => some ([], ts)
  | n + 1, "L" :: s :: cs :: ts => do
    let (as, rest) ← parseAlts n ts
    pure (.lit (csDecStr s) (cs == "i") :: as, rest)
  | n + 1, "R" :: a :: b :: ts => do
    let (as, rest) ← parseAlts n ts
    pure (.range (← a.toNat?) (← b.toNat?) :: as, rest)
  | n + 1, "U" :: name :: ts => do
    let (as, rest) ← parseAlts n ts
    pure (.uprop name :: as, rest)
  | _, _ => none

private def cpsOfString (s : String) : List Nat := s.toList.map Char.toNat

def handleCharSet : List String → Option String
  | "CC" :: ts => some <|
    match parseClassArgs ts with
    | some (singles, ranges, []) => showClass (mergeCharClass singles ranges)
    | _ => "bad-args"
  | "CM" :: ts => some <|
    match parseClassArgs ts with
    | some (singles, ranges, [c]) =>
      match c.toNat? with
      | some c => if classMem (mergeCharClass singles ranges) c then "1" else "0"
      | none => "bad-args"
    | _ => "bad-args"
  | "CA" :: k :: ts => some <|
    match k.toNat? with
    | some k =>
      match parseAlts k ts with
      | some (alts, []) => showClass (buildClass alts)
      | _ => "bad-args"
    | none => "bad-args"
  | ["AS", name] => some <|
    showIvs (scanIntervals (fun c => decide (specOf name c)) maxCP)
  | ["AT", name] => some <|
    match Generated.asciiRuleMap.find? (·.1 == name) with
    | some (_, ivs) => showIvs ivs
    | none => "none"
  | ["NL"] => some <|
    "|".intercalate (Generated.newlineAlts.map fun s => ".".intercalate (s.map toString))
  | ["NLM", input, pos] => some <|
    match pos.toNat? with
    | some pos =>
      match matchFirst (csDecStr input).toArray Generated.newlineAlts pos with
      | some p => toString p
      | none => "none"
    | none => "bad-args"
  | ["UT"] => some <|
    let a := Generated.unicodeRules.map fun e => (cpsOfString e.1, cpsOfString e.2)
    let b := Generated.unicodeRulesCP.map fun e => (e.1, e.2.2)
    if a == b then s!"ok {a.length}"
    else
      match (Generated.unicodeRules.zip b).find? fun (e, f) => (cpsOfString e.1, cpsOfString e.2) != f with
      | some (e, _) => s!"differ {e.1}"
      | none => "differ length"
  | ["UP", name] => some <|
    match Generated.unicodeRules.find? (·.1 == name) with
    | some (_, p) => ".".intercalate ((cpsOfString p).map toString)
    | none => "none"
  | _ => none

end Drv
