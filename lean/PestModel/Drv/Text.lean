/-
  DrvText.lean — line-protocol requests for the text utilities (C14, and C13's error_context).

  Texts are code points joined by `.`; the empty text is a lone `-`.
    L  <text> <p>      Position(text,p).line_col()      → `<line> <col>`
    LO <text> <p>      Position(text,p).line_of()       → `<text>`
    LS <text> <a> <b>  Span(text,a,b).lines()           → lines joined by `|`, `[]` if none
    SS <text> <a> <b>  str(Span(text,a,b))              → `<text>`
    EC <text> <p>      error_context(text,p), p ≥ -1    → `<linetext> <lineno> <col>`
    SP <text> <p>      the *specification*              → `<line> <col> <line text>`
  Where Python would raise, the answer is the exception's name (`IndexError`).
-/
import PestModel.LineCol

open Pest.LineCol

namespace Drv

def encText (t : Text) : String :=
  if t.isEmpty then "-" else ".".intercalate (t.map toString)

def decText (s : String) : Option Text :=
  if s == "-" then some [] else (s.splitOn ".").mapM (·.toNat?)

def encLines (ls : List Text) : String :=
  if ls.isEmpty then "[]" else "|".intercalate (ls.map encText)

def handleText : List String → Option String
  | ["L", t, p] => some <|
    match decText t, p.toNat? with
    | some t, some p =>
      match pyLineCol t p with
      | some (l, c) => s!"{l} {c}"
      | none => "IndexError"
    | _, _ => "bad-args"
  | ["LO", t, p] => some <|
    match decText t, p.toNat? with
    | some t, some p =>
      match pyLineOf t p with
      | some l => encText l
      | none => "IndexError"
    | _, _ => "bad-args"
  | ["LS", t, a, b] => some <|
    match decText t, a.toNat?, b.toNat? with
    | some t, some a, some b =>
      match pySpanLines t a b with
      | some ls => encLines ls
      | none => "IndexError"
    | _, _, _ => "bad-args"
  | ["SS", t, a, b] => some <|
    match decText t, a.toNat?, b.toNat? with
    | some t, some a, some b => encText (pySpanStr t a b)
    | _, _, _ => "bad-args"
  | ["EC", t, p] => some <|
    match decText t, p.toInt? with
    | some t, some p =>
      match errorContext t p with
      | some (l, n, c) => s!"{encText l} {n} {c}"
      | none => "IndexError"
    | _, _ => "bad-args"
  | ["SP", t, p] => some <|
    match decText t, p.toNat? with
    | some t, some p =>
      let (l, c) := specLineCol t p
      s!"{l} {c} {encText (specLineOf t p)}"
    | _, _ => "bad-args"
  | _ => none

end Drv
