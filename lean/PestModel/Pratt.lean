/-
  Pratt.lean — model of src/pest/pratt.py (`PrattParser.parse_expr`) on top of
  src/pest/pairs.py (`Stream.next` / `Stream.peek`), the specification it is measured
  against (`Lex`, `Good`), and an independent executable reference (`reference`).

  Representation.
    * A `Pair` is represented by its rule name (`token.name`), of an arbitrary type `α`
      (the driver uses `String`, the examples `Nat`); `parse_expr` looks at nothing else.
    * A `Stream` is represented by the list of the pairs that are still to come,
      `stream.pairs[stream.pos:]`:  `stream.next()` = take the head and continue with the
      tail (`None` on `[]`), `stream.peek()` = look at the head (`None` on `[]`).
    * The three class attributes `PREFIX_OPS`, `POSTFIX_OPS`, `INFIX_OPS` are the lookups
      `Table.pre/post/inf` (`dict.get`; `none` = "`name not in` the dict").  A name may be
      a key of several dicts; the model tests them in the order the code does.
    * The four `parse_*` hooks are the four constructors of `Tree`.
    * `expr tbl fuel ts minPrec` = `self.parse_expr(stream, min_prec)`; the answer
      `.ok t rest` = "returned `t`, the stream now stands at `rest`", `.eof` = Python raised
      `SyntaxError("Unexpected end of expression")`.  `fuel` bounds the recursion depth and
      the number of loop iterations; `ts.length + 1` is always enough (`Props/C18.lean`,
      `pratt_total`), Python's own recursion limit is not modelled.

  This is the *repaired* `parse_expr` (postfix operators are subject to the same
  `prec < min_prec → break` test as infix operators).  The loop of the pinned commit, in
  which a postfix operator is always folded, is kept as `loopOld`/`exprOld` for the
  counterexample in `Props/C18.lean` only.

  Core Lean only — no Mathlib.
-/
namespace Pest
namespace Pratt

/-- `PREFIX_OPS`, `POSTFIX_OPS`, `INFIX_OPS` of a `PrattParser` subclass, as lookups. -/
structure Table (α : Type) where
  pre  : α → Option Nat              -- PREFIX_OPS.get(name)   : precedence
  post : α → Option Nat              -- POSTFIX_OPS.get(name)  : precedence
  inf  : α → Option (Nat × Bool)     -- INFIX_OPS.get(name)    : (precedence, right_assoc)

/-- what the hooks `parse_primary / parse_prefix / parse_postfix / parse_infix` build -/
inductive Tree (α : Type) where
  | leaf (n : α)
  | pre  (o : α) (r : Tree α)
  | post (l : Tree α) (o : α)
  | bin  (l : Tree α) (o : α) (r : Tree α)
deriving Repr, DecidableEq

/-- outcome of a call of `parse_expr` -/
inductive Res (α : Type) where
  | ok (t : Tree α) (rest : List α)   -- returned `t`; `rest` = stream.pairs[stream.pos:]
  | eof                               -- SyntaxError("Unexpected end of expression")
  | fuel                              -- model artefact: not enough fuel (never with ts.length+1)
deriving Repr, DecidableEq

variable {α : Type}

/-! ### the code -/

/-- The `while True:` loop of `parse_expr`, given the recursive call `rec`.
    `left` is the local variable of the same name, `ts` the stream. -/
def loop (tbl : Table α) (rec : List α → Nat → Res α) (minPrec : Nat) :
    Nat → Tree α → List α → Res α
  | 0, _, _ => .fuel
  | g+1, left, ts =>
    match ts with                                       -- next_token = stream.peek()
    | [] => .ok left []                                 -- if next_token is None: break
    | tok :: ts' =>
      match tbl.post tok with
      | some prec =>                                    -- if next_token.name in self.POSTFIX_OPS:
        if prec < minPrec then .ok left ts              --     if prec < min_prec: break      (the fix)
        else loop tbl rec minPrec g (.post left tok) ts'  --   stream.next(); left = parse_postfix(..); continue
      | none =>
        match tbl.inf tok with
        | some (prec, rightAssoc) =>                    -- if next_token.name in self.INFIX_OPS:
          if prec < minPrec then .ok left ts            --     if prec < min_prec: break
          else                                          --     stream.next()
            match rec ts' (prec + (if rightAssoc then 0 else 1)) with   -- rhs = self.parse_expr(stream, ..)
            | .ok rhs ts'' => loop tbl rec minPrec g (.bin left tok rhs) ts''  -- left = parse_infix(..); continue
            | .eof => .eof
            | .fuel => .fuel
        | none => .ok left ts                           -- break

/-- One activation of `parse_expr`, given the recursive call. -/
def exprStep (tbl : Table α) (rec : List α → Nat → Res α) (gas : Nat)
    (ts : List α) (minPrec : Nat) : Res α :=
  match ts with                                         -- token = stream.next()
  | [] => .eof                                          -- if token is None: raise SyntaxError
  | tok :: ts' =>
    match tbl.pre tok with
    | some prec =>                                      -- if token.name in self.PREFIX_OPS:
      match rec ts' prec with                           --     rhs = self.parse_expr(stream, prec)
      | .ok rhs ts'' => loop tbl rec minPrec gas (.pre tok rhs) ts''   -- left = parse_prefix(token, rhs)
      | .eof => .eof
      | .fuel => .fuel
    | none => loop tbl rec minPrec gas (.leaf tok) ts'  -- else: left = parse_primary(token)

/-- `parse_expr(stream, min_prec)` with recursion depth (and loop length) bounded by the fuel -/
def expr (tbl : Table α) : Nat → List α → Nat → Res α
  | 0 => fun _ _ => .fuel
  | f+1 => exprStep tbl (expr tbl f) f

/-- `parser.parse_expr(Pairs(ts).stream())` -/
def parseExpr (tbl : Table α) (ts : List α) : Res α := expr tbl (ts.length + 1) ts 0

/-! ### the loop of the pinned commit (postfix operators always fold) — counterexample only -/

def loopOld (tbl : Table α) (rec : List α → Nat → Res α) (minPrec : Nat) :
    Nat → Tree α → List α → Res α
  | 0, _, _ => .fuel
  | g+1, left, ts =>
    match ts with
    | [] => .ok left []
    | tok :: ts' =>
      match tbl.post tok with
      | some _ => loopOld tbl rec minPrec g (.post left tok) ts'
      | none =>
        match tbl.inf tok with
        | some (prec, rightAssoc) =>
          if prec < minPrec then .ok left ts
          else
            match rec ts' (prec + (if rightAssoc then 0 else 1)) with
            | .ok rhs ts'' => loopOld tbl rec minPrec g (.bin left tok rhs) ts''
            | .eof => .eof
            | .fuel => .fuel
        | none => .ok left ts

def exprOld (tbl : Table α) : Nat → List α → Nat → Res α
  | 0 => fun _ _ => .fuel
  | f+1 => fun ts minPrec =>
    match ts with
    | [] => .eof
    | tok :: ts' =>
      match tbl.pre tok with
      | some prec =>
        match exprOld tbl f ts' prec with
        | .ok rhs ts'' => loopOld tbl (exprOld tbl f) minPrec f (.pre tok rhs) ts''
        | .eof => .eof
        | .fuel => .fuel
      | none => loopOld tbl (exprOld tbl f) minPrec f (.leaf tok) ts'

def prattOld (tbl : Table α) (ts : List α) : Res α := exprOld tbl (ts.length + 1) ts 0

/-! ### the specification -/

/-- the yield of a tree: its tokens from left to right -/
def Tree.flatten : Tree α → List α
  | .leaf n => [n]
  | .pre o r => o :: r.flatten
  | .post l o => l.flatten ++ [o]
  | .bin l o r => l.flatten ++ o :: r.flatten

/-- A stream is well formed when it reads as  `expr := pre* prim post* (inf expr)*`, a token
    being read, *by its position*, the way the tables say: where an operand is expected, a
    name in `PREFIX_OPS` is a prefix operator and any other name is a primary; where an
    operator is expected, a name in `POSTFIX_OPS` is a postfix operator, otherwise a name
    in `INFIX_OPS` is an infix operator, and nothing else may stand there.
    `wf tbl true` = an operand is expected, `wf tbl false` = an operator (or the end). -/
def wf (tbl : Table α) : Bool → List α → Bool
  | true, [] => false
  | true, n :: ts => if (tbl.pre n).isSome then wf tbl true ts else wf tbl false ts
  | false, [] => true
  | false, n :: ts =>
    if (tbl.post n).isSome then wf tbl false ts
    else if (tbl.inf n).isSome then wf tbl true ts
    else false

def WellFormedStream (tbl : Table α) (ts : List α) : Prop := wf tbl true ts = true

instance (tbl : Table α) (ts : List α) : Decidable (WellFormedStream tbl ts) :=
  inferInstanceAs (Decidable (_ = true))

/-- `Lex tbl t`: every token of the tree plays the role the tables give it at its position
    (this is the tree-side reading of `WellFormedStream`, see `C18.wf_iff_yield`):
    a leaf is not a declared prefix operator, the operator of a `pre`/`post`/`bin` node is
    declared in the respective table, and an infix operator is not also a postfix operator. -/
def Lex (tbl : Table α) : Tree α → Prop
  | .leaf n => tbl.pre n = none
  | .pre o r => (tbl.pre o).isSome ∧ Lex tbl r
  | .post l o => (tbl.post o).isSome ∧ Lex tbl l
  | .bin l o r => tbl.post o = none ∧ (tbl.inf o).isSome ∧ Lex tbl l ∧ Lex tbl r

/-! Binding powers.  A declared precedence `p` becomes
      infix:   left power `2p+1`, right power `2p` (right-assoc) or `2p+2` (left-assoc)
      prefix:  right power `2p`
      postfix: left power `2p+1`
    so that two powers that face each other are never equal: an operand between two
    operators goes to the one with the larger facing power — higher precedence wins, and
    on equal precedence the declared associativity (for prefix/postfix against another
    operator of the same precedence: the operator that comes *later* in the text is
    applied first, exactly as for a right-associative infix operator on its right side
    and a left-associative one on its left side). -/

def Table.preR (tbl : Table α) (o : α) : Nat :=
  match tbl.pre o with | some p => 2 * p | none => 0
def Table.postL (tbl : Table α) (o : α) : Nat :=
  match tbl.post o with | some p => 2 * p + 1 | none => 0
def Table.infL (tbl : Table α) (o : α) : Nat :=
  match tbl.inf o with | some (p, _) => 2 * p + 1 | none => 0
def Table.infR (tbl : Table α) (o : α) : Nat :=
  match tbl.inf o with | some (p, ra) => if ra then 2 * p else 2 * p + 2 | none => 0

/-- left powers of the operators exposed on the *left* edge of a tree (those that compete
    for whatever stands to the left of it): descend `bin → l`, `post → operand`; a prefix
    operator shields its operand. -/
def ledge (tbl : Table α) : Tree α → List Nat
  | .leaf _ => []
  | .pre _ _ => []
  | .post l o => tbl.postL o :: ledge tbl l
  | .bin l o _ => tbl.infL o :: ledge tbl l

/-- right powers of the operators exposed on the *right* edge of a tree: descend
    `bin → r`, `pre → operand`; a postfix operator shields its operand. -/
def redge (tbl : Table α) : Tree α → List Nat
  | .leaf _ => []
  | .post _ _ => []
  | .pre o r => tbl.preR o :: redge tbl r
  | .bin _ o r => tbl.infR o :: redge tbl r

/-- The tree respects the declared precedences and associativities: at every node, the
    operator of the node holds each of its operands *against every operator exposed on the
    facing edge of that operand*.
      right operand `r` of an operator with right power `R`: every exposed left power is `≥ R`
        (each of them was entitled to take its left operand from inside `r`);
      left operand `l` of an operator with left power `L`: every exposed right power is `> L`
        (none of them had to give its right operand up to this operator). -/
def Good (tbl : Table α) : Tree α → Prop
  | .leaf _ => True
  | .pre o r => Good tbl r ∧ ∀ x ∈ ledge tbl r, tbl.preR o ≤ x
  | .post l o => Good tbl l ∧ ∀ x ∈ redge tbl l, tbl.postL o < x
  | .bin l o r => Good tbl l ∧ Good tbl r ∧
      (∀ x ∈ redge tbl l, tbl.infL o < x) ∧ (∀ x ∈ ledge tbl r, tbl.infR o ≤ x)

instance decLex (tbl : Table α) : (t : Tree α) → Decidable (Lex tbl t)
  | .leaf n => inferInstanceAs (Decidable (tbl.pre n = none))
  | .pre o r =>
    let _ := decLex tbl r
    inferInstanceAs (Decidable ((tbl.pre o).isSome ∧ Lex tbl r))
  | .post l o =>
    let _ := decLex tbl l
    inferInstanceAs (Decidable ((tbl.post o).isSome ∧ Lex tbl l))
  | .bin l o r =>
    let _ := decLex tbl l
    let _ := decLex tbl r
    inferInstanceAs (Decidable (tbl.post o = none ∧ (tbl.inf o).isSome ∧ Lex tbl l ∧ Lex tbl r))

instance decGood (tbl : Table α) : (t : Tree α) → Decidable (Good tbl t)
  | .leaf _ => inferInstanceAs (Decidable True)
  | .pre o r =>
    let _ := decGood tbl r
    inferInstanceAs (Decidable (Good tbl r ∧ ∀ x ∈ ledge tbl r, tbl.preR o ≤ x))
  | .post l o =>
    let _ := decGood tbl l
    inferInstanceAs (Decidable (Good tbl l ∧ ∀ x ∈ redge tbl l, tbl.postL o < x))
  | .bin l o r =>
    let _ := decGood tbl l
    let _ := decGood tbl r
    inferInstanceAs (Decidable (Good tbl l ∧ Good tbl r ∧
      (∀ x ∈ redge tbl l, tbl.infL o < x) ∧ (∀ x ∈ ledge tbl r, tbl.infR o ≤ x)))

/-! ### an independent executable reference: enumerate and filter -/

/-- all ways to write `ts = l ++ o :: r` -/
def splits : List α → List (List α × α × List α)
  | [] => []
  | x :: xs => ([], x, xs) :: (splits xs).map fun (l, o, r) => (x :: l, o, r)

/-- every tree whose yield is `ts` (complete when `fuel ≥ ts.length`) -/
def allTrees : Nat → List α → List (Tree α)
  | 0, _ => []
  | f+1, ts =>
    (match ts with | [n] => [Tree.leaf n] | _ => [])
    ++ (splits ts).flatMap fun (l, o, r) =>
         (if l.isEmpty then (allTrees f r).map (Tree.pre o) else [])
      ++ (if r.isEmpty then (allTrees f l).map (fun t => Tree.post t o) else [])
      ++ (allTrees f l).flatMap fun tl => (allTrees f r).map fun tr => Tree.bin tl o tr

/-- the trees with yield `ts` that read every token in its role and respect the declared
    precedences; `C18.reference_eq`: for a well-formed stream this is exactly the one tree
    `parse_expr` returns. -/
def reference (tbl : Table α) (ts : List α) : List (Tree α) :=
  (allTrees ts.length ts).filter fun t => decide (Lex tbl t ∧ Good tbl t)

end Pratt
end Pest
