/-
  Json.lean — RFC 8259 documents *with their concrete-syntax choices*, their text, and the
  parse tree the bundled JSON grammars are expected to produce (property C17, first half).

  `Doc` is not a JSON value but one particular way of writing one: the whitespace at each
  place where the RFC allows it (`ws = *( %x20 / %x09 / %x0A / %x0D )` around the six
  structural characters and around the top-level value), the spelling of every number
  (`[ minus ] int [ frac ] [ exp ]`: sign, `0` or a non-zero digit followed by digits,
  optional `.` DIGIT+, optional `e`/`E` with optional sign and DIGIT+), and for every string
  character whether it is written raw (`%x20-21 / %x23-5B / %x5D-10FFFF`) or as one of the
  escapes `\" \\ \/ \b \f \n \r \t \uXXXX` (hex digits in either case).  Every text the RFC's
  grammar derives is `render d` for exactly one `d`, and nothing else is (the harness checks
  `render` against Python's `json` module on generated documents, and its own renderer
  against this one through the driver).

  `render : Doc → List CP` is the text.  `mirror fl d : List Pair` is the list of top-level
  pairs expected from `parse("json", render d)`, with the rule names, modifiers and nesting
  of the respective .pest file (`fl`):
    examples/json/json.pest   `json` and `value` are silent: `[object|array, EOI]`;
                              `string = ${ "\"" ~ inner ~ "\"" }` keeps its `inner` pair;
                              members are `pair[string, <value>]`
    tests/grammars/json.pest  `json[value[…], EOI]`, every value wrapped in a `value` pair,
                              `string`/`number` atomic without children, `bool` for `boolean`
  A string pair spans the quotes; its raw source slice (between the quotes) is the span of
  `inner` resp. the span minus one code point at either end.

  Core Lean only.
-/
import PestModel.Expr

namespace Pest
namespace Json

/-! ### concrete syntax -/

inductive WsCh where | space | tab | lf | cr
deriving Repr, DecidableEq, Inhabited

def WsCh.cp : WsCh → CP
  | .space => 32 | .tab => 9 | .lf => 10 | .cr => 13

abbrev Ws := List WsCh
def wsText (w : Ws) : Str := w.map WsCh.cp

/-- a decimal digit `d.val + 48` -/
abbrev Digit := Fin 10
def Digit.cp (d : Digit) : CP := 48 + d.val
def digitsText (ds : List Digit) : Str := ds.map Digit.cp

/-- `int = zero / ( digit1-9 *DIGIT )` -/
inductive IntPart where
  | zero
  | nonzero (d : Fin 9) (rest : List Digit)       -- first digit `d.val + 1`
deriving Repr, DecidableEq, Inhabited

inductive ExpSign where | none | plus | minus
deriving Repr, DecidableEq, Inhabited

/-- `exp = e [ minus / plus ] 1*DIGIT` -/
structure Exp where
  upper : Bool            -- `E` rather than `e`
  sign : ExpSign
  d : Digit
  ds : List Digit
deriving Repr, DecidableEq, Inhabited

/-- `number = [ minus ] int [ frac ] [ exp ]`, `frac = decimal-point 1*DIGIT` -/
structure Num where
  neg : Bool
  int : IntPart
  frac : Option (Digit × List Digit)
  exp : Option Exp
deriving Repr, DecidableEq, Inhabited

/-- a hexadecimal digit of a `\uXXXX` escape, with its case -/
inductive Hex where
  | dig (d : Digit)
  | lower (k : Fin 6)      -- a..f
  | upper (k : Fin 6)      -- A..F
deriving Repr, DecidableEq, Inhabited

def Hex.cp : Hex → CP
  | .dig d => 48 + d.val | .lower k => 97 + k.val | .upper k => 65 + k.val

inductive Esc where | quote | backslash | slash | b | f | n | r | t
deriving Repr, DecidableEq, Inhabited

def Esc.cp : Esc → CP
  | .quote => 34 | .backslash => 92 | .slash => 47 | .b => 98 | .f => 102 | .n => 110 | .r => 114 | .t => 116

/-- `unescaped = %x20-21 / %x23-5B / %x5D-10FFFF` -/
def Unescaped (c : CP) : Prop := 32 ≤ c ∧ c ≠ 34 ∧ c ≠ 92 ∧ c ≤ 0x10FFFF

instance (c : CP) : Decidable (Unescaped c) := inferInstanceAs (Decidable (_ ∧ _))

/-- one character of a string, as written -/
inductive SChar where
  | raw (c : CP) (h : Unescaped c)
  | esc (e : Esc)
  | u (a b c d : Hex)
deriving Repr

def SChar.text : SChar → Str
  | .raw c _ => [c]
  | .esc e => [92, e.cp]
  | .u a b c d => [92, 117, a.cp, b.cp, c.cp, d.cp]

abbrev SStr := List SChar
def sstrText : SStr → Str
  | [] => []
  | c :: cs => c.text ++ sstrText cs

mutual
inductive Val where
  | null | tt | ff                     -- `null`, `true`, `false`
  | num (n : Num)
  | str (s : SStr)
  | arr0 (w : Ws)                       -- `[` w `]`
  | arr (es : Elems)                    -- `[` elements `]`
  | obj0 (w : Ws)                       -- `{` w `}`
  | obj (ms : Members)                  -- `{` members `}`
/-- `ws value ws *( "," ws value ws )` -/
inductive Elems where
  | one (w1 : Ws) (v : Val) (w2 : Ws)
  | cons (w1 : Ws) (v : Val) (w2 : Ws) (rest : Elems)
/-- `ws string ws ":" ws value ws *( "," … )`; duplicate names are allowed -/
inductive Members where
  | one (w1 : Ws) (k : SStr) (w2 : Ws) (w3 : Ws) (v : Val) (w4 : Ws)
  | cons (w1 : Ws) (k : SStr) (w2 : Ws) (w3 : Ws) (v : Val) (w4 : Ws) (rest : Members)
end

/-- `JSON-text = ws value ws` -/
structure Doc where
  w1 : Ws
  v : Val
  w2 : Ws

def Val.isContainer : Val → Bool
  | .arr0 _ | .arr _ | .obj0 _ | .obj _ => true
  | _ => false

def Doc.topLevelIsContainer (d : Doc) : Prop := d.v.isContainer = true
def Doc.noTrailingWs (d : Doc) : Prop := d.w2 = []

/-! ### the text -/

def intText : IntPart → Str
  | .zero => [48]
  | .nonzero d rest => (49 + d.val) :: digitsText rest

def expText (e : Exp) : Str :=
  (if e.upper then 69 else 101) ::
    ((match e.sign with | .none => [] | .plus => [43] | .minus => [45]) ++ digitsText (e.d :: e.ds))

def numText (n : Num) : Str :=
  (if n.neg then [45] else []) ++ intText n.int
    ++ (match n.frac with | none => [] | some (d, ds) => 46 :: digitsText (d :: ds))
    ++ (match n.exp with | none => [] | some e => expText e)

def strText (s : SStr) : Str := 34 :: (sstrText s ++ [34])

mutual
def Val.text : Val → Str
  | .null => [110, 117, 108, 108]
  | .tt => [116, 114, 117, 101]
  | .ff => [102, 97, 108, 115, 101]
  | .num n => numText n
  | .str s => strText s
  | .arr0 w => 91 :: (wsText w ++ [93])
  | .arr es => 91 :: (es.text ++ [93])
  | .obj0 w => 123 :: (wsText w ++ [125])
  | .obj ms => 123 :: (ms.text ++ [125])
def Elems.text : Elems → Str
  | .one w1 v w2 => wsText w1 ++ v.text ++ wsText w2
  | .cons w1 v w2 rest => wsText w1 ++ v.text ++ wsText w2 ++ 44 :: rest.text
def Members.text : Members → Str
  | .one w1 k w2 w3 v w4 => wsText w1 ++ strText k ++ wsText w2 ++ 58 :: (wsText w3 ++ v.text ++ wsText w4)
  | .cons w1 k w2 w3 v w4 rest =>
    wsText w1 ++ strText k ++ wsText w2 ++ 58 :: (wsText w3 ++ v.text ++ wsText w4) ++ 44 :: rest.text
end

def render (d : Doc) : Str := wsText d.w1 ++ d.v.text ++ wsText d.w2

/-! ### the expected tree -/

/-- which bundled grammar: examples/json/json.pest or tests/grammars/json.pest -/
inductive Flavour where | examples | tests
deriving Repr, DecidableEq, Inhabited

def mkPair (name : String) (mod s e : Nat) (ch : List Pair) : Pair := .mk name mod s e ch none

/-- the pair(s) of a string whose opening quote is at `p` -/
def mirrorStr (fl : Flavour) (p : Nat) (s : SStr) : Pair :=
  let e := p + (strText s).length
  match fl with
  | .examples => mkPair "string" COMPOUND p e [mkPair "inner" ATOMIC (p + 1) (e - 1) []]
  | .tests => mkPair "string" ATOMIC p e []

/-- tests/grammars/json.pest wraps every value in a `value` pair; in examples/json/json.pest
    `value` is silent -/
def wrapValue (fl : Flavour) (s e : Nat) (p : Pair) : Pair :=
  match fl with
  | .examples => p
  | .tests => mkPair "value" 0 s e [p]

mutual
/-- the pair of the value whose first code point is at `p` -/
def Val.mirror (fl : Flavour) (p : Nat) : Val → Pair
  | .null => wrapValue fl p (p + 4) (mkPair "null" 0 p (p + 4) [])
  | .tt => wrapValue fl p (p + 4) (mkPair (match fl with | .examples => "boolean" | .tests => "bool") 0 p (p + 4) [])
  | .ff => wrapValue fl p (p + 5) (mkPair (match fl with | .examples => "boolean" | .tests => "bool") 0 p (p + 5) [])
  | .num n => wrapValue fl p (p + (numText n).length) (mkPair "number" ATOMIC p (p + (numText n).length) [])
  | .str s => wrapValue fl p (p + (strText s).length) (mirrorStr fl p s)
  | .arr0 w => wrapValue fl p (p + w.length + 2) (mkPair "array" 0 p (p + w.length + 2) [])
  | .arr es => wrapValue fl p (p + es.text.length + 2) (mkPair "array" 0 p (p + es.text.length + 2) (es.mirror fl (p + 1)))
  | .obj0 w => wrapValue fl p (p + w.length + 2) (mkPair "object" 0 p (p + w.length + 2) [])
  | .obj ms => wrapValue fl p (p + ms.text.length + 2) (mkPair "object" 0 p (p + ms.text.length + 2) (ms.mirror fl (p + 1)))
/-- the pairs of the elements whose text starts at `p` -/
def Elems.mirror (fl : Flavour) (p : Nat) : Elems → List Pair
  | .one w1 v _ => [v.mirror fl (p + w1.length)]
  | .cons w1 v w2 rest =>
    v.mirror fl (p + w1.length) :: rest.mirror fl (p + w1.length + v.text.length + w2.length + 1)
def Members.mirror (fl : Flavour) (p : Nat) : Members → List Pair
  | .one w1 k w2 w3 v _ =>
    let ks := p + w1.length
    let vs := ks + (strText k).length + w2.length + 1 + w3.length
    [mkPair "pair" 0 ks (vs + v.text.length) [mirrorStr fl ks k, v.mirror fl vs]]
  | .cons w1 k w2 w3 v w4 rest =>
    let ks := p + w1.length
    let vs := ks + (strText k).length + w2.length + 1 + w3.length
    mkPair "pair" 0 ks (vs + v.text.length) [mirrorStr fl ks k, v.mirror fl vs]
      :: rest.mirror fl (vs + v.text.length + w4.length + 1)
end

/-- the top-level pairs of `parse("json", render d)` -/
def mirror (fl : Flavour) (d : Doc) : List Pair :=
  let n := (render d).length
  let vs := d.w1.length
  let eoi := mkPair "EOI" 0 n n []
  match fl with
  | .examples => [d.v.mirror fl vs, eoi]
  | .tests => [mkPair "json" 0 0 n [d.v.mirror fl vs, eoi]]

end Json
end Pest
