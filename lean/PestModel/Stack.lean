/-
  Stack.lean — model of src/pest/stack.py (class Stack) and src/pest/checkpoint_int.py
  (class SnapshottingInt), plus the full-copy reference they are supposed to behave like.

  Representation.  Python lists grow at the end; here every list has its *most recent*
  element at the head:
    items    head = top of the stack              (Python: items[-1])
    popped   head = most recently appended entry  (Python: popped[-1])
    lengths  head = innermost snapshot            (Python: lengths[-1])
  The driver prints `items.reverse`, i.e. Python's `list(stack)`.

  Python index arithmetic is mirrored with `Nat` subtraction; the places where Python would
  behave differently for a negative index (a slice with a negative bound) or trip an
  `assert` are collected in `restoreAsserts` / `dropAsserts`, and `Props/C09.lean` proves
  them unreachable.
-/
namespace Pest

structure DStack (α : Type) where
  items   : List α
  popped  : List α
  lengths : List (Nat × Nat)          -- (size at snapshot, low-water mark)
deriving Repr, DecidableEq

namespace DStack
variable {α : Type}

def empty : DStack α := ⟨[], [], []⟩

/-- `Stack.push` -/
def push (s : DStack α) (x : α) : DStack α := { s with items := x :: s.items }

/-- `Stack.pop`; `none` = Python raises `IndexError` (empty stack). -/
def pop (s : DStack α) : Option (α × DStack α) :=
  match s.items with
  | [] => none
  | x :: rest =>
    match s.lengths with
    | [] => some (x, { s with items := rest })
    | (ic, rc) :: ls =>
      if s.items.length = rc then
        some (x, { items := rest, popped := x :: s.popped, lengths := (ic, rc - 1) :: ls })
      else some (x, { s with items := rest })

/-- `Stack.peek`; `none` = `IndexError`. -/
def peek (s : DStack α) : Option α := s.items.head?

/-- `Stack.clear` (after the fix: only the items below the low-water mark are recorded). -/
def clear (s : DStack α) : DStack α :=
  match s.items with
  | [] => s
  | _ :: _ =>
    match s.lengths with
    | [] => { items := [], popped := [], lengths := [] }
    | (ic, rc) :: ls =>
      -- removed[:rc] = bottom rc items; reversed(...) appends the upper ones first
      { items := [],
        popped := (s.items.drop (s.items.length - rc)).reverse ++ s.popped,
        lengths := (ic, 0) :: ls }

/-- `Stack.snapshot` -/
def snapshot (s : DStack α) : DStack α :=
  { s with lengths := (s.items.length, s.items.length) :: s.lengths }

/-- `Stack.restore` -/
def restore (s : DStack α) : DStack α :=
  match s.lengths with
  | [] => { items := [], popped := s.popped, lengths := [] }
  | (ic, rc) :: ls =>
    -- `if remained_count < len(items): del items[remained_count:]`
    let items1 := s.items.drop (s.items.length - rc)
    -- `recovered = popped[new_size:]; items.extend(reversed(recovered))`
    let rewind := ic - rc
    { items := (s.popped.take rewind).reverse ++ items1,
      popped := s.popped.drop rewind,
      lengths := ls }

/-- What the two `assert`s and the slice arithmetic of `Stack.restore` need in order to
    behave as modelled: no left-over `popped` without a snapshot; `new_size ≥ 0`. -/
def restoreAsserts (s : DStack α) : Bool :=
  match s.lengths with
  | [] => s.popped.isEmpty
  | (ic, rc) :: _ => decide (ic - rc ≤ s.popped.length)

/-- `Stack.drop_snapshot` (after the fix). -/
def dropSnap (s : DStack α) : DStack α :=
  match s.lengths with
  | [] => s
  | (ic, rc) :: ls =>
    let n := ic - rc                       -- popped_count
    match ls with
    | [] => { s with popped := s.popped.drop n, lengths := [] }
    | (oc, orc) :: ls' =>
      if rc < orc then
        let keep := orc - rc
        -- del popped[size - n : size - keep]: the `keep` most recent entries stay
        { items := s.items,
          popped := (s.popped.take n).take keep ++ s.popped.drop n,
          lengths := (oc, rc) :: ls' }
      else
        { items := s.items, popped := s.popped.drop n, lengths := (oc, orc) :: ls' }

/-- slice bounds of `del popped[size - n : size - keep]` are non-negative and ordered. -/
def dropAsserts (s : DStack α) : Bool :=
  match s.lengths with
  | [] => true
  | (ic, rc) :: ls =>
    decide (ic - rc ≤ s.popped.length) &&
    match ls with
    | [] => true
    | (_, orc) :: _ => decide (orc - rc ≤ ic - rc)

end DStack

/-! ### Reference: a stack that stores full copies -/

structure RStack (α : Type) where
  cur   : List α
  snaps : List (List α)           -- head = innermost snapshot
deriving Repr, DecidableEq

namespace RStack
variable {α : Type}
def empty : RStack α := ⟨[], []⟩
def push (s : RStack α) (x : α) : RStack α := { s with cur := x :: s.cur }
def pop (s : RStack α) : Option (α × RStack α) :=
  match s.cur with
  | [] => none
  | x :: rest => some (x, { s with cur := rest })
def peek (s : RStack α) : Option α := s.cur.head?
def clear (s : RStack α) : RStack α := { s with cur := [] }
def snapshot (s : RStack α) : RStack α := { s with snaps := s.cur :: s.snaps }
def restore (s : RStack α) : RStack α :=
  match s.snaps with
  | [] => { cur := [], snaps := [] }
  | c :: r => { cur := c, snaps := r }
def dropSnap (s : RStack α) : RStack α := { s with snaps := s.snaps.tail }
end RStack

/-! ### Histories -/

inductive StackOp (α : Type) where
  | push (x : α) | pop | clear | snapshot | restore | dropSnap
deriving Repr, DecidableEq

/-- One step of a history.  `pop` on an empty stack raises `IndexError` in Python and leaves
    the object untouched; the model does the same (state unchanged). -/
def DStack.apply {α} (s : DStack α) : StackOp α → DStack α
  | .push x   => s.push x
  | .pop      => match s.pop with | some (_, s') => s' | none => s
  | .clear    => s.clear
  | .snapshot => s.snapshot
  | .restore  => s.restore
  | .dropSnap => s.dropSnap

def RStack.apply {α} (s : RStack α) : StackOp α → RStack α
  | .push x   => s.push x
  | .pop      => match s.pop with | some (_, s') => s' | none => s
  | .clear    => s.clear
  | .snapshot => s.snapshot
  | .restore  => s.restore
  | .dropSnap => s.dropSnap

/-! ### SnapshottingInt -/

structure SnapInt where
  val   : Int
  snaps : List Int               -- head = innermost
deriving Repr, DecidableEq

namespace SnapInt
def zero0 : SnapInt := ⟨0, []⟩
def snapshot (s : SnapInt) : SnapInt := { s with snaps := s.val :: s.snaps }
def restore (s : SnapInt) : SnapInt :=
  match s.snaps with
  | [] => { val := 0, snaps := [] }
  | v :: r => { val := v, snaps := r }
def drop (s : SnapInt) : SnapInt := { s with snaps := s.snaps.tail }
def zero (s : SnapInt) : SnapInt := { s with val := 0 }
def add (s : SnapInt) (k : Int) : SnapInt := { s with val := s.val + k }
end SnapInt

inductive IntOp where
  | add (k : Int) | zero | snapshot | restore | drop
deriving Repr, DecidableEq

def SnapInt.apply (s : SnapInt) : IntOp → SnapInt
  | .add k    => s.add k
  | .zero     => s.zero
  | .snapshot => s.snapshot
  | .restore  => s.restore
  | .drop     => s.drop

end Pest
