/-
  Hyps.lean — executable forms of the hypotheses the theorems put on a grammar, kept in a model
  file (core only, no proofs) so that the line-protocol driver can evaluate them on every grammar
  of a correspondence run (request `HY`, Drv/Hyps.lean) without importing any proof:

    `totalBody`            bodies that cannot fail (what `_optimize_skip_rule` gives the fused SKIP rule)
    `C07.refsDefined`      no reference to an undefined rule          (`Closed`, `closedB`)
    `C07.callable`         the rule has a generated function `parse_<n>`
    `C07.shapeOk`          tree shapes the generator handles          (`GenShape`, `genShapeB`)
    `C07.skipTotalB`       executable form of `SkipTotal`
    `C07.onlyEOIB`         the only built-in in the table is EOI
    `soiFree`, `soiFreeG`  no `SOI` anywhere in the rule bodies       (`SOIFree`, C16)

  The theorems that turn the Boolean forms into the propositions are in Props/C07.lean
  (`closed_of_closedB`, `genShape_of_genShapeB`, `skipTotal_of_skipTotalB`, `onlyEOI_of_onlyEOIB`).
-/
import PestModel.Expr
import PestModel.Interp

namespace Pest

/-- expressions that cannot fail whatever their sub-expressions do (the bodies the optimizer
    gives to the fused `SKIP` rule) -/
def totalBody : Expr → Bool
  | .rep _ => true
  | .optChoice _ true => true
  | .skipUntil _ => true
  | _ => false


/-! ### SOI-free expressions and grammars (hypothesis of C16) -/

mutual
/-- no `_SOI` body anywhere in the tree (the front end embeds `SOI` as `.rule "SOI" 2 true .soiB`) -/
def soiFree : Expr → Bool
  | .str _ => true
  | .ci _ => true
  | .range _ _ => true
  | .ident _ _ => true
  | .rule _ _ _ b => soiFree b
  | .seq es => soiFreeL es
  | .choice es => soiFreeL es
  | .opt e => soiFree e
  | .rep e => soiFree e
  | .rep1 e => soiFree e
  | .repExact e _ => soiFree e
  | .repMin e _ => soiFree e
  | .repMax e _ => soiFree e
  | .repMinMax e _ _ => soiFree e
  | .andP e => soiFree e
  | .notP e => soiFree e
  | .group e _ => soiFree e
  | .push e => soiFree e
  | .pushLit _ => true
  | .peek => true
  | .pop => true
  | .drop => true
  | .peekAll => true
  | .popAll => true
  | .peekSlice _ _ => true
  | .anyB => true
  | .soiB => false
  | .eoiB => true
  | .uprop _ => true
  | .skipUntil _ => true
  | .optChoice _ _ => true
def soiFreeL : List Expr → Bool
  | [] => true
  | e :: es => soiFree e && soiFreeL es
end

/-- Bool version, for `decide` -/
def soiFreeG (g : Grammar) : Bool := g.rules.all fun r => soiFree r.body


namespace C07

mutual
/-- every `Identifier` in `e` — also inside the bodies of embedded rule objects — names an entry
    of the rule table -/
def refsDefined (g : Grammar) : Expr → Bool
  | .ident n _ => (g.lookup n).isSome
  | .rule _ _ _ b => refsDefined g b
  | .seq es => refsDefinedL g es
  | .choice es => refsDefinedL g es
  | .opt e => refsDefined g e
  | .rep e => refsDefined g e
  | .rep1 e => refsDefined g e
  | .repExact e _ => refsDefined g e
  | .repMin e _ => refsDefined g e
  | .repMax e _ => refsDefined g e
  | .repMinMax e _ _ => refsDefined g e
  | .andP e => refsDefined g e
  | .notP e => refsDefined g e
  | .group e _ => refsDefined g e
  | .push e => refsDefined g e
  | _ => true
def refsDefinedL (g : Grammar) : List Expr → Bool
  | [] => true
  | e :: es => refsDefined g e && refsDefinedL g es
end


/-- executable form of `Closed` -/
def closedB (g : Grammar) : Bool := g.rules.all fun r => refsDefined g r.body


/-- the rule `n` has a generated function `parse_<n>` (grammar rules and EOI have one) -/
def callable (g : Grammar) (n : String) : Bool :=
  match g.lookup n with
  | some r => !(r.kind == .builtin && r.name != "EOI")
  | none => false

mutual
/-- tree shapes the generator handles (all the front end and the optimizer build): an embedded
    rule object is a silent, non-scoped built-in other than EOI — exactly the negation of the
    test in `LG.step`'s `.rule` case —, and every rule referenced by name has a generated
    function.  Subsumes `refsDefined`. -/
def shapeOk (g : Grammar) : Expr → Bool
  | .ident n _ => callable g n
  | .rule name mod _ b =>
    !(name == "EOI" || !hasBit mod SILENT || L1.ruleScoped name mod) && shapeOk g b
  | .seq es => shapeOkL g es
  | .choice es => shapeOkL g es
  | .opt e => shapeOk g e
  | .rep e => shapeOk g e
  | .rep1 e => shapeOk g e
  | .repExact e _ => shapeOk g e
  | .repMin e _ => shapeOk g e
  | .repMax e _ => shapeOk g e
  | .repMinMax e _ _ => shapeOk g e
  | .andP e => shapeOk g e
  | .notP e => shapeOk g e
  | .group e _ => shapeOk g e
  | .push e => shapeOk g e
  | _ => true
def shapeOkL (g : Grammar) : List Expr → Bool
  | [] => true
  | e :: es => shapeOk g e && shapeOkL g es
end

/-- the names the generated `parse_trivia` calls -/
def triviaNames : List String := ["SKIP", "WHITESPACE", "COMMENT"]


/-- executable form of `GenShape` -/
def genShapeB (g : Grammar) : Bool :=
  (g.rules.all fun r => shapeOk g r.body) &&
  (triviaNames.all fun n => !(g.lookup n).isSome || callable g n)


/-- executable form of `SkipTotal` -/
def skipTotalB (g : Grammar) : Bool :=
  match g.fusedSkip with
  | some r => totalBody r.body
  | none => true


def onlyEOIB (g : Grammar) : Bool := g.rules.all fun r => !(r.kind == .builtin && r.name != "EOI")


end C07
end Pest
