/-
  Spec.lean — L0: the specification of pest's matching semantics.

  Pure: a state is (position, stack contents, "inside an atomic context?").  There are no
  checkpoints, no scratch lists, no failure bookkeeping and no tags — backtracking is
  "use the old value".  This file is meant to be read in a few minutes; the properties
  C03/C04/C05 are *stated* against it, and `Props/SpecSanity.lean` proves the reading-level
  facts the property texts mention (ordered choice, greedy repetition, predicates consume
  nothing, …) so that it is not trusted on sight alone.

  Recursion is organised like in `Interp.lean` (same fuel discipline) so that the
  refinement theorem can be stated with equal fuel.
-/
import PestModel.Interp

namespace Pest

structure S0 where
  pos    : Nat
  stk    : List Str        -- head = top
  atomic : Bool            -- implicit trivia is off
deriving Repr, DecidableEq, Inhabited

inductive R0 where
  | ok (s : S0) (ps : List Pair)
  | fail
  | oof                    -- out of fuel / diverges
  | stuck                  -- reference to an undefined rule (Python: KeyError)
deriving Repr, Inhabited

abbrev Sem0 := Expr → S0 → R0

namespace L0

variable (g : Grammar) (inp : Input)

def adv (s : S0) (n : Nat) : S0 := { s with pos := s.pos + n }

/-- atomicity inside a rule body, by modifier: `@`, `$` and the trivia rules switch implicit
    trivia off, `!` switches it back on, other rules inherit -/
def ruleAtomic (name : String) (mod : Nat) (outer : Bool) : Bool :=
  if hasBit mod ATOMIC || hasBit mod COMPOUND || L1.isTriviaName name then true
  else if hasBit mod NONATOMIC then false
  else outer

/-- what a successful rule body becomes: a silent rule passes its pairs up; any other rule
    yields exactly one pair spanning the match; an `@` rule hides its inner pairs except those
    produced under a nested `$`/`!` rule.  Atomicity is restored. -/
def ruleWrap (name : String) (mod : Nat) (s s' : S0) (ps : List Pair) : R0 :=
  let out := { s' with atomic := s.atomic }
  if hasBit mod SILENT then .ok out ps
  else .ok out [.mk name mod s.pos s'.pos (if hasBit mod ATOMIC then visibleList ps else ps) none]

/-- one rule application -/
def ruleApply (rec : Sem0) (name : String) (mod : Nat) (body : Expr) (s : S0) : R0 :=
  match rec body { s with atomic := ruleAtomic name mod s.atomic } with
  | .ok s' ps => ruleWrap name mod s s' ps
  | r => r

def callRule (rec : Sem0) (name : String) (s : S0) : R0 :=
  match g.lookup name with
  | none => .stuck
  | some r => ruleApply rec r.name r.mod r.body s

/-- one attempt at a trivia rule from `s` -/
inductive Try0 where
  | matched (s : S0) (ps : List Pair)
  | no
  | stop (r : R0)

def trySkip (rec : Sem0) (r : Option Rule) (s : S0) : Try0 :=
  match r with
  | none => .no
  | some r =>
    match ruleApply rec r.name r.mod r.body s with
    | .ok s' ps => .matched s' ps
    | .fail => .no
    | r => .stop r

/-- `(WHITESPACE | COMMENT)*`, every alternative tried from the same state -/
def skipLoop (rec : Sem0) (ws cm : Option Rule) : Nat → S0 → List Pair → R0
  | 0, _, _ => .oof
  | k + 1, s, acc =>
    match trySkip rec ws s with
    | .matched s' ps => skipLoop rec ws cm k s' (acc ++ ps)
    | .stop r => r
    | .no =>
      match trySkip rec cm s with
      | .matched s' ps => skipLoop rec ws cm k s' (acc ++ ps)
      | .stop r => r
      | .no => .ok s acc

/-- implicit trivia: nothing in an atomic context or when no trivia rule is defined; the
    fused `SKIP` rule when the optimizer made one -/
def skip (rec : Sem0) (k : Nat) (s : S0) : R0 :=
  if s.atomic then .ok s []
  else
    match g.fusedSkip with
    | some r => ruleApply rec r.name r.mod r.body s
    | none =>
      let ws := g.lookup "WHITESPACE"
      let cm := g.lookup "COMMENT"
      if ws.isNone && cm.isNone then .ok s [] else skipLoop rec ws cm k s []

/-- `e₁ ~ e₂ ~ …`: trivia after every element that has a successor, never after the last -/
def seqL (rec : Sem0) (k : Nat) : List Expr → S0 → List Pair → R0
  | [], s, acc => .ok s acc
  | e :: rest, s, acc =>
    match rec e s with
    | .ok s1 ps =>
      if rest.isEmpty then .ok s1 (acc ++ ps)
      else
        match skip g rec k s1 with
        | .ok s2 tps => seqL rec k rest s2 (acc ++ ps ++ tps)
        | .fail => seqL rec k rest s1 (acc ++ ps)     -- (skip cannot fail; kept total)
        | r => r
    | r => r

/-- ordered choice: every alternative from the same incoming state; first success wins -/
def choiceL (rec : Sem0) : List Expr → S0 → R0
  | [], _ => .fail
  | e :: rest, s =>
    match rec e s with
    | .fail => choiceL rec rest s
    | r => r

/-- `e*` = `e (skip e)*`: a `skip` that is not followed by a successful `e` is given back -/
def repLoop (rec : Sem0) (e : Expr) : Nat → Nat → Bool → S0 → List Pair → R0
  | 0, _, _, _, _ => .oof
  | k + 1, kk, first, s, acc =>
    let afterSkip : R0 := if first then .ok s [] else skip g rec kk s
    match afterSkip with
    | .ok s1 tps =>
      match rec e s1 with
      | .ok s2 ps => repLoop rec e k kk false s2 (acc ++ tps ++ ps)
      | .fail => .ok s acc
      | r => r
    | .fail => .ok s acc
    | r => r

/-- match literals back to back -/
def matchLits (lits : List Str) (s : S0) : Option Nat := L1.matchAll inp lits s.pos

def step (k : Nat) (rec : Sem0) : Sem0
  | .str x, s => if startsWithAt inp x s.pos then .ok (adv s x.length) [] else .fail
  | .ci x, s => if startsWithAtCI inp x s.pos then .ok (adv s x.length) [] else .fail
  | .range a b, s =>
    match inp[s.pos]? with
    | some c => if a ≤ c && c ≤ b then .ok (adv s 1) [] else .fail
    | none => .fail
  | .ident name _, s => callRule g rec name s
  | .rule name mod _ body, s => ruleApply rec name mod body s
  | .seq es, s => seqL g rec k es s []
  | .choice es, s => choiceL rec es s
  | .opt e, s => match rec e s with | .fail => .ok s [] | r => r
  | .rep e, s => repLoop g rec e k k true s []
  -- bounded repetitions are *by definition* their unrolled sequences
  | .rep1 e, s => seqL g rec k [e, .rep e] s []
  | .repExact e n, s => seqL g rec k (List.replicate n e) s []
  | .repMin e n, s => seqL g rec k (List.replicate n e ++ [.rep e]) s []
  | .repMax e n, s => seqL g rec k (List.replicate n (.opt e)) s []
  | .repMinMax e m n, s => seqL g rec k (List.replicate m e ++ List.replicate (n - m) (.opt e)) s []
  -- predicates: run, keep nothing
  | .andP e, s => match rec e s with | .ok _ _ => .ok s [] | r => r
  | .notP e, s => match rec e s with | .ok _ _ => .fail | .fail => .ok s [] | r => r
  | .group e _, s => rec e s
  -- the stack
  | .push e, s =>
    match rec e s with
    | .ok s' ps => .ok { s' with stk := slice inp s.pos s'.pos :: s'.stk } ps
    | r => r
  | .pushLit x, s => .ok { s with stk := x :: s.stk } []
  | .peek, s =>
    match s.stk with
    | [] => .fail
    | t :: _ => if startsWithAt inp t s.pos then .ok (adv s t.length) [] else .fail
  | .pop, s =>
    match s.stk with
    | [] => .fail
    | t :: r => if startsWithAt inp t s.pos then .ok { adv s t.length with stk := r } [] else .fail
  | .drop, s => match s.stk with | [] => .fail | _ :: r => .ok { s with stk := r } []
  | .peekAll, s =>
    match matchLits inp s.stk s with | some p => .ok { s with pos := p } [] | none => .fail
  | .popAll, s =>
    match matchLits inp s.stk s with | some p => .ok { s with pos := p, stk := [] } [] | none => .fail
  | .peekSlice a b, s =>
    match matchLits inp (pySlice s.stk.reverse a b) s with
    | some p => .ok { s with pos := p } []
    | none => .fail
  -- built-in bodies
  | .anyB, s => if s.pos < inp.size then .ok (adv s 1) [] else .fail
  | .soiB, s => if s.pos == 0 then .ok s [] else .fail
  | .eoiB, s => if s.pos == inp.size then .ok s [] else .fail
  | .uprop n, s =>
    match inp[s.pos]? with
    | some c => if g.uprop n c then .ok (adv s 1) [] else .fail
    | none => .fail
  -- optimizer-made nodes have a specification too, so that C02 can be stated inside L0
  | .skipUntil subs, s => .ok { s with pos := L1.skipUntilPos inp subs s.pos } []
  | .optChoice alts star, s =>
    match L1.optMatch g inp alts star s.pos with
    | some p => .ok { s with pos := p } []
    | none => .fail

def run : Nat → Sem0
  | 0 => fun _ _ => .oof
  | n + 1 => step g inp n (run n)

/-- parsing `start` at `k` with a fresh state -/
def parse (fuel : Nat) (start : String) (k : Nat) : R0 :=
  match g.lookup start with
  | none => .stuck
  | some r => ruleApply (run g inp fuel) r.name r.mod r.body ⟨k, [], false⟩

end L0

mutual
/-- erase tags (L0 has none) -/
def Pair.eraseTags : Pair → Pair
  | .mk n m s e ch _ => .mk n m s e (eraseTagsL ch) none
def eraseTagsL : List Pair → List Pair
  | [] => []
  | p :: ps => p.eraseTags :: eraseTagsL ps
end

end Pest
