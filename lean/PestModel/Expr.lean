/-
  Expr.lean — grammar expressions, rules, grammars, pairs.

  `Expr` has one constructor per `Expression` subclass of src/pest/grammar (including the
  nodes only the optimizer creates).  Trees are exported from the real `Parser.rules`
  objects by harness/pyside.py, so a node here is exactly a Python object there.
-/
import PestModel.State

namespace Pest

/-- modifier bits of src/pest/grammar/rule.py -/
def SILENT : Nat := 2
def ATOMIC : Nat := 4
def COMPOUND : Nat := 8
def NONATOMIC : Nat := 16

def hasBit (m b : Nat) : Bool := (m / b) % 2 == 1

/-- one alternative collected by `squash` into an `OptimizedChoice` -/
inductive Alt where
  | lit (s : Str) (ci : Bool)         -- ChoiceLiteral(value, case)
  | range (a b : CP)                  -- ChoiceRange(start, end)
  | uprop (name : String)             -- UnicodePropertyRule
deriving Repr, DecidableEq, Inhabited

inductive Expr where
  | str (s : Str)                                 -- String
  | ci (s : Str)                                  -- CIString
  | range (a b : CP)                              -- Range
  | ident (name : String) (tag : Option String)   -- Identifier
  | rule (name : String) (mod : Nat) (selfMap : Bool) (body : Expr)
      -- a Rule object embedded in a tree (built-ins); `selfMap`: its `with_children` returns `self`
  | seq (es : List Expr)                          -- Sequence
  | choice (es : List Expr)                       -- Choice
  | opt (e : Expr)                                -- Optional
  | rep (e : Expr)                                -- Repeat
  | rep1 (e : Expr)                               -- RepeatOnce
  | repExact (e : Expr) (n : Nat)                 -- RepeatExact
  | repMin (e : Expr) (n : Nat)                   -- RepeatMin
  | repMax (e : Expr) (n : Nat)                   -- RepeatMax
  | repMinMax (e : Expr) (m n : Nat)              -- RepeatMinMax
  | andP (e : Expr)                               -- PositivePredicate
  | notP (e : Expr)                               -- NegativePredicate
  | group (e : Expr) (tag : Option String)        -- Group
  | push (e : Expr)                               -- Push
  | pushLit (s : Str)                             -- PushLiteral
  | peek | pop | drop | peekAll | popAll          -- Peek, Pop, Drop, PeekAll, PopAll
  | peekSlice (a b : Option Int)                  -- PeekSlice
  | anyB | soiB | eoiB                            -- _Any, _SOI, _EOI (bodies of ANY / SOI / EOI)
  | uprop (name : String)                         -- RegexExpression of a Unicode property rule
  | skipUntil (subs : List Str)                   -- SkipUntil
  | optChoice (alts : List Alt) (star : Bool)     -- OptimizedChoice / OptimizedChoiceRepeat
deriving Repr, Inhabited

inductive RuleKind where
  | grammar        -- GrammarRule, or a plain Rule made by the optimizer (SKIP)
  | builtin        -- BuiltInRule (shared objects of Parser.BUILTIN)
deriving Repr, DecidableEq, Inhabited

structure Rule where
  name : String
  mod  : Nat
  body : Expr
  kind : RuleKind
deriving Repr, Inhabited

/-- the rule table `Parser.rules` (dictionary order) and the code-point sets of the Unicode
    property rules the grammar mentions (an abstract parameter for the theorems; the
    harness sweeps them from the `regex` engine) -/
structure Grammar where
  rules : List Rule
  usets : List (String × List (Nat × Nat)) := []
deriving Repr, Inhabited

def Grammar.lookup (g : Grammar) (name : String) : Option Rule :=
  g.rules.find? (·.name == name)

def Grammar.defines (g : Grammar) (name : String) : Bool := (g.lookup name).isSome

/-- the optimizer's fused trivia rule: the entry `SKIP` *with modifier `SILENT_ATOMIC`* (which
    no grammar rule can have); a grammar rule that happens to be called SKIP is not it -/
def Grammar.fusedSkip (g : Grammar) : Option Rule :=
  match g.lookup "SKIP" with
  | some r => if r.mod == SILENT + ATOMIC then some r else none
  | none => none

def Grammar.uprop (g : Grammar) (name : String) (c : CP) : Bool :=
  match g.usets.find? (·.1 == name) with
  | none => false
  | some (_, ivs) => ivs.any fun (lo, hi) => lo ≤ c && c ≤ hi

/-- `Pair` of src/pest/pairs.py; `mod` is `pair.rule.modifier` -/
inductive Pair where
  | mk (name : String) (mod : Nat) (start stop : Nat) (children : List Pair) (tag : Option String)
deriving Repr, Inhabited

namespace Pair
def name : Pair → String | mk n _ _ _ _ _ => n
def mod : Pair → Nat | mk _ m _ _ _ _ => m
def start : Pair → Nat | mk _ _ s _ _ _ => s
def stop : Pair → Nat | mk _ _ _ e _ _ => e
def children : Pair → List Pair | mk _ _ _ _ c _ => c
def tag : Pair → Option String | mk _ _ _ _ _ t => t
end Pair

mutual
/-- `visible_in_atomic` of src/pest/grammar/rule.py: what stays visible under an `@` rule -/
def Pair.visible : Pair → List Pair
  | .mk n m s e ch t =>
    if hasBit m COMPOUND || hasBit m NONATOMIC then [.mk n m s e ch t] else visibleList ch
def visibleList : List Pair → List Pair
  | [] => []
  | p :: ps => p.visible ++ visibleList ps
end

/-! ### Input text and primitive matchers (all position-relative) -/

abbrev Input := Array CP

/-- `state.input.startswith(lit, pos)` -/
def startsWithAt (inp : Input) (lit : Str) (pos : Nat) : Bool :=
  match lit with
  | [] => pos ≤ inp.size
  | c :: rest => (match inp[pos]? with | some d => d == c | none => false) && startsWithAt inp rest (pos + 1)

def asciiLower (c : CP) : CP := if 65 ≤ c && c ≤ 90 then c + 32 else c

/-- `re.compile(re.escape(value), re.I).match(input, pos)` restricted to what the properties
    claim: ASCII case folding (see DESIGN §8 for the non-ASCII caveat) -/
def startsWithAtCI (inp : Input) (lit : Str) (pos : Nat) : Bool :=
  match lit with
  | [] => pos ≤ inp.size
  | c :: rest =>
    (match inp[pos]? with | some d => asciiLower d == asciiLower c | none => false)
      && startsWithAtCI inp rest (pos + 1)

/-- `input[a:b]` -/
def slice (inp : Input) (a b : Nat) : Str := (inp.extract a b).toList

/-- `str.find(sub, pos)`: least index ≥ pos where `sub` occurs, by scanning -/
def findFrom (inp : Input) (sub : Str) (pos : Nat) : Option Nat :=
  let rec go (k : Nat) (p : Nat) : Option Nat :=
    match k with
    | 0 => none
    | k + 1 => if startsWithAt inp sub p then some p else go k (p + 1)
  if pos > inp.size then none else go (inp.size + 1 - pos) pos

/-- Python slice `xs[a:b]` with `None`/negative indices, on a list -/
def pySliceBounds (len : Nat) (a b : Option Int) : Nat × Nat :=
  let norm (i : Int) : Nat :=
    if i < 0 then (if i + len < 0 then 0 else (i + len).toNat) else min i.toNat len
  let lo := match a with | none => 0 | some i => norm i
  let hi := match b with | none => len | some i => norm i
  (lo, hi)

def pySlice {α} (xs : List α) (a b : Option Int) : List α :=
  let (lo, hi) := pySliceBounds xs.length a b
  (xs.drop lo).take (hi - lo)

end Pest
