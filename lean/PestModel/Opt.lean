/-
  Opt.lean — OPT: mirror of the optimizer.

  src/pest/grammar/optimizer.py (`Optimizer.optimize`, `_optimize_skip_rule`, `_is_atomic`),
  src/pest/grammar/optimizers/{unroller,skippers,inliners,squash_choice}.py,
  `Expression.map_bottom_up` / `map_top_down` with each class's `children()` /
  `with_children()`, and `is_order_preserving` of expressions/choice.py.
  The model's output is compared with the real optimizer's output *as trees*.
-/
import PestModel.Interp

namespace Pest
namespace Opt

/-! ### children() / with_children() -/

def children : Expr → List Expr
  | .rule _ _ _ b => [b]
  | .seq es => es
  | .choice es => es
  | .opt e | .rep e | .rep1 e | .repExact e _ | .repMin e _ | .repMax e _ | .repMinMax e _ _ => [e]
  | .andP e | .notP e | .group e _ | .push e => [e]
  | _ => []

def withChildren : Expr → List Expr → Expr
  | .rule n m sm b, cs => if sm then .rule n m sm b else .rule n m sm (cs.headD b)
  | .seq _, cs => .seq cs
  | .choice _, cs => .choice cs
  | .opt e, cs => .opt (cs.headD e)
  | .rep e, cs => .rep (cs.headD e)
  | .rep1 e, cs => .rep1 (cs.headD e)
  | .repExact e n, cs => .repExact (cs.headD e) n
  | .repMin e n, cs => .repMin (cs.headD e) n
  | .repMax e n, cs => .repMax (cs.headD e) n
  | .repMinMax e m n, cs => .repMinMax (cs.headD e) m n
  | .andP e, cs => .andP (cs.headD e)
  | .notP e, cs => .notP (cs.headD e)
  | .group e t, cs => .group (cs.headD e) t
  | .push e, cs => .push (cs.headD e)
  | e, _ => e

/-! The two traversals.  They are written as structural recursions over `Expr` (with an
    explicit list helper) instead of through `children`/`withChildren`, and proved equal
    to the `children`-based reading in `Lemmas/Opt.lean`. -/

mutual
def mapBottomUp (f : Expr → Expr) : Expr → Expr
  | .rule n m sm b => f (if sm then .rule n m sm b else .rule n m sm (mapBottomUp f b))
  | .seq es => f (.seq (mapBottomUpL f es))
  | .choice es => f (.choice (mapBottomUpL f es))
  | .opt e => f (.opt (mapBottomUp f e))
  | .rep e => f (.rep (mapBottomUp f e))
  | .rep1 e => f (.rep1 (mapBottomUp f e))
  | .repExact e n => f (.repExact (mapBottomUp f e) n)
  | .repMin e n => f (.repMin (mapBottomUp f e) n)
  | .repMax e n => f (.repMax (mapBottomUp f e) n)
  | .repMinMax e m n => f (.repMinMax (mapBottomUp f e) m n)
  | .andP e => f (.andP (mapBottomUp f e))
  | .notP e => f (.notP (mapBottomUp f e))
  | .group e t => f (.group (mapBottomUp f e) t)
  | .push e => f (.push (mapBottomUp f e))
  | e => f e
def mapBottomUpL (f : Expr → Expr) : List Expr → List Expr
  | [] => []
  | e :: es => mapBottomUp f e :: mapBottomUpL f es
end

/-- `map_top_down`: `func` first, then the children *of the result*.  Needs fuel because
    `func` may return a bigger tree (inlining); `sizeBound` below is always enough. -/
def mapTopDown (f : Expr → Expr) : Nat → Expr → Expr
  | 0, e => e
  | k + 1, e =>
    let e' := f e
    withChildren e' ((children e').map (mapTopDown f k))

/-! ### unroll -/

def unroll : Expr → Expr
  | .rep1 inner =>
    match inner with
    | .group x none => .seq [x, .rep inner]
    | _ => .seq [inner, .rep inner]
  | .repExact inner n => .seq (List.replicate n inner)
  | .repMin inner n => .seq (List.replicate n inner ++ [.rep inner])
  | .repMax inner n => .seq (List.replicate n (.opt inner))
  | .repMinMax inner m n => .seq (List.replicate m inner ++ List.replicate (n - m) (.opt inner))
  | e => e

/-! ### skip -/

/-- `_skip(expr, rules, subs)`; `none` = Python returns `None`.  `subs` accumulates. -/
def skipCollect (rules : List Rule) : Nat → Expr → List Str → Option (List Str)
  | 0, _, _ => none
  | k + 1, e, subs =>
    let e := match e with | .group x _ => x | x => x
    match e with
    | .choice es =>
      es.foldl (fun acc x => acc.bind fun s => skipCollect rules k x s) (some subs)
    | .skipUntil _ => none                       -- an already-built SkipUntil is not a list of literals (repair cd28459)
    | .str s => some (subs ++ [s])
    | .ident n _ =>
      match rules.find? (·.name == n) with
      | some r => skipCollect rules k r.body subs
      | none => none
    | _ => none

def isAnyNode : Expr → Bool
  | .rule "ANY" _ _ _ => true
  | _ => false

def skipPass (rules : List Rule) (fuel : Nat) (e : Expr) : Expr :=
  match e with
  | .rep (.group (.seq [.notP inner, right]) _) =>
    match inner with
    | .rule _ _ _ body =>
      -- first case of the inner `match`: `isinstance(inner, Rule)` and right is `Any()`
      if isAnyNode right then
        match skipCollect rules fuel body [] with
        | some subs => .skipUntil subs
        | none => e
      else
        -- second case: right is `Identifier("ANY")` (the first pattern did not match)
        match right with
        | .ident "ANY" _ =>
          match skipCollect rules fuel inner [] with
          | some subs => .skipUntil subs
          | none => e
        | _ => e
    | _ =>
      let rightOk := isAnyNode right || (match right with | .ident "ANY" _ => true | _ => false)
      if rightOk then
        match skipCollect rules fuel inner [] with
        | some subs => .skipUntil subs
        | none => e
      else e
  | _ => e

/-! ### inline_builtin / inline_silent_rules -/

def inlineBuiltin : Expr → Expr
  | .rule n m sm b => if n != "EOI" then b else .rule n m sm b
  | e => e

/-- `inline_silent_rules`; `rules.get(expr.value)`: a reference to an undefined rule is left
    alone -/
def inlineSilent (rules : List Rule) : Expr → Option Expr
  | .ident n tag =>
    match rules.find? (·.name == n) with
    | none => some (.ident n tag)
    | some r =>
      -- WHITESPACE / COMMENT run atomically whatever their modifier: never inlined (repair ef95f87)
      if hasBit r.mod SILENT && tag.isNone && !(r.name == "WHITESPACE" || r.name == "COMMENT") then some r.body
      else some (.ident n tag)
  | e => some e

/-! ### squash_choice -/

/-- `squash(exprs, new_expr)`; `none` = returns `None` -/
def squash : Nat → List Expr → List Alt → Option (List Alt)
  | 0, _, _ => none
  | _ + 1, [], acc => some acc
  | k + 1, e :: rest, acc =>
    let one : Option (List Alt) :=
      match e with
      | .str s => some (acc ++ [.lit s false])
      | .ci s => some (acc ++ [.lit s true])
      | .rule n _ _ (.uprop _) => some (acc ++ [.uprop n])          -- UnicodePropertyRule
      | .range a b => some (acc ++ [.range a b])
      | .rule _ _ _ (.choice es) => squash k es acc
      | .choice es => squash k es acc
      | .optChoice alts _ => some (acc ++ alts)
      | _ => none
    match one with
    | none => none
    | some acc' => squash k rest acc'

def isSingle : Alt → Bool
  | .lit s _ => s.length == 1
  | _ => true

def lowerStr (s : Str) : Str := s.map asciiLower

/-- `accepts(choice, ch)` of `is_order_preserving` -/
def accepts (g : Grammar) (a : Alt) (ch : CP) : Bool :=
  match a with
  | .lit [x] true => ch == L1.asciiUpper x || ch == asciiLower x
  | .lit [x] false => ch == x
  | .lit _ _ => false
  | .range s e => min s e ≤ ch && ch ≤ max s e
  | .uprop n => g.uprop n ch

def isOrderPreserving (g : Grammar) (alts : List Alt) : Bool :=
  let rec go (before : List Alt) : List Alt → Bool
    | [] => true
    | later :: rest =>
      let ok : Bool :=
        match later with
        | .lit v ci =>
          if v.length == 1 then true
          else
            let first : List CP :=
              match v with
              | [] => []
              | h :: _ => if ci then [h, L1.asciiUpper h, asciiLower h] else [h]
            before.all fun earlier =>
              if isSingle earlier then
                !(v.isEmpty || first.any (accepts g earlier))
              else
                match earlier with
                | .lit ev true =>
                  if !ci && ev.length != v.length then
                    let a := lowerStr ev
                    let b := lowerStr v
                    !(b.isPrefixOf a || a.isPrefixOf b)
                  else true
                | _ => true
        | _ => true
      ok && go (before ++ [later]) rest
  go [] alts

def squashChoice (g : Grammar) (e : Expr) : Expr :=
  match e with
  | .choice es =>
    match squash (1000) es [] with
    | some alts => if isOrderPreserving g alts then .optChoice alts false else e
    | none => e
  | _ => e

/-! ### Optimizer.optimize -/

inductive PassName where
  | unroll | skip | inlineBuiltin | squashChoice | inlineSilent
deriving Repr, DecidableEq, Inhabited

structure Pass where
  name : PassName
  postorder : Bool
  atomicOnly : Bool
deriving Repr, DecidableEq, Inhabited

/-- `DEFAULT_OPTIMIZER_PASSES` (checked against the source by `Generated/OptimizerPasses`) -/
def defaultPasses : List Pass :=
  [ ⟨.unroll, true, false⟩, ⟨.skip, false, true⟩, ⟨.inlineBuiltin, false, false⟩,
    ⟨.squashChoice, true, false⟩, ⟨.inlineSilent, true, false⟩ ]

/-- number of nodes; bounds the depth `map_top_down` can reach -/
def size : Expr → Nat
  | .rule _ _ _ b => 1 + size b
  | .seq es => 1 + sizeL es
  | .choice es => 1 + sizeL es
  | .opt e | .rep e | .rep1 e | .repExact e _ | .repMin e _ | .repMax e _ | .repMinMax e _ _ => 1 + size e
  | .andP e | .notP e | .group e _ | .push e => 1 + size e
  | _ => 1
where sizeL : List Expr → Nat
  | [] => 0
  | e :: es => size e + sizeL es

/-- apply one pass function to a node; `none` = the real pass raises `KeyError` -/
def applyPass (g : Grammar) (rules : List Rule) (p : Pass) (e : Expr) : Option Expr :=
  match p.name with
  | .unroll => some (unroll e)
  | .skip => some (skipPass rules 200 e)
  | .inlineBuiltin => some (inlineBuiltin e)
  | .squashChoice => some (squashChoice g e)
  | .inlineSilent => inlineSilent rules e

/-- run a pass over one rule body (`_run_once`).  A `KeyError` inside a traversal is
    recorded by returning `none`. -/
def runOnce (g : Grammar) (rules : List Rule) (p : Pass) (e : Expr) : Option Expr :=
  -- total version of the pass function for the traversal; failures are detected separately
  let f : Expr → Expr := fun x => (applyPass g rules p x).getD (.ident "!KeyError" none)
  let out := if p.postorder then mapBottomUp f e else mapTopDown f (size e + 64) e
  if containsKeyError out then none else some out
where
  containsKeyError : Expr → Bool
    | .ident "!KeyError" _ => true
    | .rule _ _ _ b => containsKeyError b
    | .seq es => anyL es
    | .choice es => anyL es
    | .opt e | .rep e | .rep1 e | .repExact e _ | .repMin e _ | .repMax e _ | .repMinMax e _ _ => containsKeyError e
    | .andP e | .notP e | .group e _ | .push e => containsKeyError e
    | _ => false
  anyL : List Expr → Bool
    | [] => false
    | e :: es => containsKeyError e || anyL es

/-- `_is_atomic(rule, rules)` -/
def isAtomicRule (rules : List Rule) (r : Rule) : Bool :=
  if !(rules.any (·.name == "WHITESPACE")) && !(rules.any (·.name == "COMMENT")) then true
  else hasBit r.mod ATOMIC || hasBit r.mod COMPOUND ||
       r.name == "WHITESPACE" || r.name == "COMMENT"            -- the name SKIP is not trusted (repair a679cfa)

/-- `_optimize_skip_rule` -/
def optimizeSkipRule (g : Grammar) (rules : List Rule) : List Rule :=
  let comment := rules.find? (·.name == "COMMENT")
  let ws := rules.find? (·.name == "WHITESPACE")
  let setSkip (body : Expr) : List Rule :=
    let r : Rule := { name := "SKIP", mod := SILENT + ATOMIC, body := body, kind := .grammar }
    if rules.any (·.name == "SKIP") then rules.map fun x => if x.name == "SKIP" then r else x
    else rules ++ [r]
  if rules.any (·.name == "SKIP") then rules else
  match comment, ws with
  | some _, some _ => rules
  | some c, none => if hasBit c.mod SILENT then setSkip (.rep c.body) else rules
  | none, some w =>
    if hasBit w.mod SILENT then
      match w.body with
      | .choice es =>
        match squash 1000 es [] with
        | some alts => if isOrderPreserving g alts then setSkip (.optChoice alts true) else rules
        | none => rules
      | _ => rules
    else rules
  | none, none => rules

/-- one step over all rules, in dictionary order, each reading the *current* table -/
def runStep (g : Grammar) (p : Pass) : Nat → List Rule → Option (List Rule)
  | i, rules =>
    if h : i < rules.length then
      let r := rules[i]
      if r.kind == .builtin || (p.atomicOnly && !isAtomicRule rules r) then runStep g p (i + 1) rules
      else
        match runOnce g rules p r.body with
        | none => none
        | some b => runStep g p (i + 1) (rules.set i { r with body := b })
    else some rules
termination_by i rules => rules.length - i
decreasing_by all_goals simp_all <;> omega

/-- `Optimizer(passes).optimize(rules)`; `none` = `KeyError` -/
def optimize (g : Grammar) (passes : List Pass) : Option Grammar :=
  let rules0 := optimizeSkipRule g g.rules
  (passes.foldl (fun acc p => acc.bind fun rs => runStep g p 0 rs) (some rules0)).map
    fun rs => { g with rules := rs }

end Opt
end Pest
