/-
  Lemmas/FrontInvAccTok.lean — token level of the scanner ACCEPT half for the generalised layout
  relation `GrammarText'` of Front/AstText2.lean (every spelling pest allows: escapes in string
  and character literals, trivia behind `^`, leading zeros, CR LF / end of text behind a doc
  line, an unterminated line comment at the end).  The recursive part and the theorem
  `scan_accept_text'` are in Lemmas/FrontInvAcc.lean.

  Generalises Lemmas/FrontScanTriviaTok.lean, whose look-ahead machinery (`Hd`, `Stop`, `Tr`,
  `nic`, `ndg`, `skipTrivia_trivia`, …) and whose lemmas on verbatim tokens are reused as they
  are (`sc_of_sc'`: on a list of verbatim tokens `Sc'` is `Sc`).

  New here:
    * `Act` algebra; `Sp' m inp a tl K` = `∃ K', Act K K' ∧ Sp m inp a tl K'` (the scanner emits
      *some* token list that `Act` relates to the items `K`), with `Sp'.bind'`, `Sp.up`;
    * `Sc'` inversion/composition, `sc'_hd` (first characters: every spelling of an item starts
      with a character of the same class as its canonical spelling, `DigU`);
    * strings with arbitrary escapes (`sp_stringLoop'`, `sp_acceptString'`, `sp_acceptCIString'`),
      character literals (`mChar_charSpell`), numbers (`sp_boundsLoop'`, `sp_postfixOp'`, …),
      integers (`mInteger_intSpell`, `sp_peekTail_slice'`), doc lines (`sp_docInner'`), the end
      of the text (`skipTrivia_end`).
-/
import PestModel.Front.AstText2
import PestModel.Lemmas.FrontScanTrivia

namespace Pest
namespace Front
namespace IA
open RT TRT

/-! ### `Act` -/

theorem _root_.Pest.Front.Act.append {a a' b b' : List KV} (h1 : Act a a') (h2 : Act b b') :
    Act (a ++ b) (a' ++ b') := by
  induction h1 with
  | nil => simpa using h2
  | cons hkv _ ih => exact .cons hkv ih

theorem act_nil_inv {l : List KV} (h : Act [] l) : l = [] := by cases h; rfl

theorem act_cons_inv {kv : KV} {l m : List KV} (h : Act (kv :: l) m) :
    ∃ kv' l', m = kv' :: l' ∧ ActKV kv kv' ∧ Act l l' := by
  cases h with
  | cons hkv hl => exact ⟨_, _, rfl, hkv, hl⟩

theorem act_append_inv : ∀ (a : List KV) {b m : List KV}, Act (a ++ b) m →
    ∃ a' b', m = a' ++ b' ∧ Act a a' ∧ Act b b' := by
  intro a
  induction a with
  | nil => intro b m h; exact ⟨[], m, rfl, .nil, h⟩
  | cons kv a ih =>
    intro b m h
    obtain ⟨kv', l', rfl, hkv, hl⟩ := act_cons_inv h
    obtain ⟨a', b', rfl, ha, hb⟩ := ih hl
    exact ⟨kv' :: a', b', rfl, .cons hkv ha, hb⟩

theorem _root_.Pest.Front.Act.length {a b : List KV} (h : Act a b) : a.length = b.length := by
  induction h with
  | nil => rfl
  | cons _ _ ih => simp [ih]

/-- the kinds whose token is spelled verbatim and carries its spelling -/
def Verb (k : TK) : Prop :=
  k ≠ .string ∧ k ≠ .stringCI ∧ k ≠ .char ∧ k ≠ .number ∧ k ≠ .integer

instance : DecidablePred Verb := fun k => by unfold Verb; infer_instance

theorem actVal_verb {k : TK} {v : Text} (h : Verb k) : ActVal (k, v) v := by
  obtain ⟨h1, h2, h3, h4, h5⟩ := h
  cases k <;> first | rfl | contradiction

theorem actKV_verb {k : TK} {v : Text} (h : Verb k) : ActKV (k, v) (k, v) := ⟨rfl, actVal_verb h⟩

theorem spells_verb {k : TK} {v w : Text} (h : Verb k) : Spells (k, v) w ↔ w = v := by
  obtain ⟨h1, h2, h3, h4, h5⟩ := h
  cases k <;> first | exact Iff.rfl | contradiction

theorem spell_verb {k : TK} {v : Text} (h : Verb k) : spell (k, v) = v := by
  obtain ⟨h1, h2, h3, h4, h5⟩ := h
  cases k <;> first | rfl | contradiction

theorem verb_keyword (n : Text) : Verb (keywordKind n) := by
  unfold keywordKind
  repeat' split
  all_goals decide

theorem _root_.Pest.Front.Act.refl_verb : ∀ {K : List KV}, (∀ kv ∈ K, Verb kv.1) → Act K K := by
  intro K
  induction K with
  | nil => intro _; exact .nil
  | cons kv r ih =>
    intro h
    exact .cons (actKV_verb (h kv (by simp))) (ih (fun kv' h' => h kv' (by simp [h'])))

/-- closes `Act K K` for a literal list of verbatim tokens -/
macro "act_refl" : tactic =>
  `(tactic| repeat (first | exact Act.nil | refine Act.cons ⟨rfl, rfl⟩ ?_))

theorem verb_tagKV (tag : Option Text) : ∀ kv ∈ tagKV tag, Verb kv.1 := by
  cases tag <;> simp [tagKV] <;> decide

theorem verb_preKV (pre : List Bool) : ∀ kv ∈ pre.map preKV, Verb kv.1 := by
  intro kv h
  simp only [List.mem_map] at h
  obtain ⟨b, _, rfl⟩ := h
  cases b <;> decide

theorem verb_modKV (m : Option Nat) : ∀ kv ∈ modKV m, Verb kv.1 := by
  cases m <;> simp [modKV] <;> decide

theorem verb_barKV (b : Bool) : ∀ kv ∈ barKV b, Verb kv.1 := by
  cases b <;> simp [barKV] <;> decide

/-! ### `Sp'`: the scanner emits a token list that `Act` relates to the items -/

def Sp' {α} (m : M α) (inp : Text) (a : α) (tl : Text) (K : List KV) : Prop :=
  ∃ K', Act K K' ∧ Sp m inp a tl K'

theorem up {α} {m : M α} {inp tl : Text} {a : α} {K : List KV} (h : Sp m inp a tl K)
    (hK : Act K K := by act_refl) : Sp' m inp a tl K := ⟨K, hK, h⟩

theorem upv {α} {m : M α} {inp tl : Text} {a : α} {K : List KV} (h : Sp m inp a tl K)
    (hK : ∀ kv ∈ K, Verb kv.1) : Sp' m inp a tl K := ⟨K, Act.refl_verb hK, h⟩

theorem Sp'.bind' {α β} {m : M α} {f : α → M β} {inp t1 t2 : Text} {a : α} {b : β}
    {k1 k2 : List KV} (h1 : Sp' m inp a t1 k1) (h2 : Sp' (f a) t1 b t2 k2) :
    Sp' (m >>= f) inp b t2 (k1 ++ k2) := by
  obtain ⟨k1', a1, s1⟩ := h1
  obtain ⟨k2', a2, s2⟩ := h2
  exact ⟨k1' ++ k2', a1.append a2, Sp.bind' s1 s2⟩

theorem Sp'.start {α} {m : M α} {inp inp' tl : Text} {a : α} {k k' : List KV}
    (h : Sp' m inp a tl k) (hi : inp' = inp) (hk : k' = k) : Sp' m inp' a tl k' := by
  subst hi hk; exact h

theorem Sp'.pure {α} (a : α) (t : Text) : Sp' (pure a : M α) t a t [] := up (Sp.pure a t)

theorem Sp'.lenFuel {α} {g : Nat → M α} {inp tl : Text} {a : α} {k : List KV} (N : Nat)
    (hN : N ≤ inp.length) (h : ∀ n, N < n → Sp' (g n) inp a tl k) :
    Sp' (fun s => g (s.rest.length + 1) s) inp a tl k := by
  obtain ⟨K', hA, hS⟩ := h (inp.length + 1) (by omega)
  refine ⟨K', hA, ?_⟩
  intro s hs
  have := hS s hs
  simpa [hs] using this

macro "sp'_begin" : tactic => `(tactic| apply Sp'.start)
macro "sp'_step " h:term : tactic =>
  `(tactic| (apply Sp'.bind' $h; try simp only [↓reduceIte, Bool.false_eq_true]))

/-! ### `Sc'`: inversion, composition, lengths -/

theorem sc'_nil_inv {t tl : Text} (h : Sc' [] t tl) : t = tl := by cases h; rfl

theorem sc'_cons_inv {kv : KV} {kvs : List KV} {t tl : Text} (h : Sc' (kv :: kvs) t tl) :
    ∃ w ws m, Spells kv w ∧ IsTrivia ws ∧ t = w ++ (ws ++ m) ∧ Sc' kvs m tl := by
  cases h with
  | cons _ hsp hw hr => exact ⟨_, _, _, hsp, hw, rfl, hr⟩

/-- a verbatim token at the head -/
theorem sc'_cons_v {k : TK} {v : Text} {kvs : List KV} {t tl : Text}
    (h : Sc' ((k, v) :: kvs) t tl) (hv : Verb k := by decide) :
    ∃ ws m, IsTrivia ws ∧ t = v ++ (ws ++ m) ∧ Sc' kvs m tl := by
  obtain ⟨w, ws, m, hsp, hw, rfl, hr⟩ := sc'_cons_inv h
  have := (spells_verb hv).1 hsp
  subst this
  exact ⟨ws, m, hw, rfl, hr⟩

theorem sc'_append : ∀ (a : List KV) {b : List KV} {t tl : Text}, Sc' (a ++ b) t tl →
    ∃ m, Sc' a t m ∧ Sc' b m tl := by
  intro a
  induction a with
  | nil => intro b t tl h; exact ⟨t, .nil t, h⟩
  | cons kv a ih =>
    intro b t tl h
    obtain ⟨w, ws, m, hsp, hw, rfl, hr⟩ := sc'_cons_inv h
    obtain ⟨m', h1, h2⟩ := ih hr
    exact ⟨m', .cons kv hsp hw h1, h2⟩

theorem sc'_length {kvs : List KV} {t tl : Text} (h : Sc' kvs t tl) : tl.length ≤ t.length := by
  induction h with
  | nil _ => exact Nat.le_refl _
  | cons kv _ _ _ ih => simp; omega

/-- on verbatim tokens the generalised layout is the fixed-spelling one -/
theorem sc_of_sc' {K : List KV} {t tl : Text} (h : Sc' K t tl) (hK : ∀ kv ∈ K, Verb kv.1) :
    Sc K t tl := by
  induction h with
  | nil _ => exact .nil _
  | @cons kv kvs w ws t tl hsp hw _ ih =>
    obtain ⟨k, v⟩ := kv
    have hv : Verb k := hK (k, v) (by simp)
    have := (spells_verb hv).1 hsp
    subst this
    have := Sc.cons (k, w) hw (ih (fun kv' h' => hK kv' (by simp [h'])))
    rwa [spell_verb hv] at this

/-! ### first characters -/

/-- `p` does not distinguish the characters a number or an integer may start with -/
def DigU (p : Nat → Bool) : Prop := ∀ c, (isDigit c || c == 45) = true → p c = p 45

theorem digU_of {p : Nat → Bool}
    (h : (List.range 10).all (fun i => p (48 + i) == p 45) = true) : DigU p := by
  intro c hc
  simp only [Bool.or_eq_true, beq_iff_eq] at hc
  rcases hc with hc | hc
  · have := isDigit_cases hc
    simp only [List.all_eq_true, List.mem_range, beq_iff_eq] at h
    have := h (c - 48) (by omega)
    rwa [show 48 + (c - 48) = c by omega] at this
  · rw [hc]

theorem numSpell_cons {n : Nat} {w : Text} (h : NumSpell n w) :
    ∃ d ds, w = d :: ds ∧ isDigit d = true ∧ ds.all isDigit = true := by
  obtain ⟨hne, hall, _, _⟩ := h
  cases w with
  | nil => exact absurd rfl hne
  | cons d ds =>
    simp only [List.all_cons, Bool.and_eq_true] at hall
    exact ⟨d, ds, rfl, hall.1, hall.2⟩

theorem intSpell_hd {i : Int} {w : Text} (h : IntSpell i w) :
    ∃ d ds, w = d :: ds ∧ (isDigit d || d == 45) = true := by
  cases h with
  | nonneg hn =>
    obtain ⟨d, ds, rfl, hd, _⟩ := numSpell_cons hn
    exact ⟨d, ds, rfl, by simp [hd]⟩
  | neg _ _ _ _ => exact ⟨45, _, rfl, by decide⟩

theorem charSpell_cons {a : Nat} {w : Text} (h : CharSpell a w) : ∃ r, w = 39 :: r := by
  cases h <;> exact ⟨_, rfl⟩

/-- every spelling of an item starts with a character of the class of its canonical spelling -/
theorem spells_hd {p : Nat → Bool} (hp : DigU p) (h32 : p 32 = false) {kv : KV} {w : Text}
    (h : Spells kv w) {X Y : Text} (hh : Hd p (spell kv ++ 32 :: X)) : Hd p (w ++ Y) := by
  obtain ⟨k, v⟩ := kv
  by_cases hv : Verb k
  · have := (spells_verb hv).1 h
    subst this
    rw [spell_verb hv] at hh
    cases w with
    | nil => simp [h32] at hh
    | cons c r => exact hh
  · cases k <;> first | exact absurd (by decide) hv | skip
    · -- char
      obtain ⟨a, rfl, hc⟩ := h
      obtain ⟨r, rfl⟩ := charSpell_cons hc
      obtain ⟨r', hr'⟩ := charLit_cons a
      simp only [spell, hr', List.cons_append, hd_cons] at hh ⊢
      exact hh
    · -- string
      obtain ⟨body, rfl, _⟩ := h
      simpa [spell] using hh
    · -- stringCI
      obtain ⟨ws, body, _, rfl, _⟩ := h
      simpa [spell] using hh
    · -- number
      obtain ⟨n, rfl, hn⟩ := h
      obtain ⟨d, ds, rfl, hd, _⟩ := numSpell_cons hn
      obtain ⟨d', ds', e, hd', _⟩ := natDigits_cons n
      simp only [spell, e, List.cons_append, hd_cons] at hh ⊢
      rw [hp d (by simp [hd])]
      rw [hp d' (by simp [hd'])] at hh
      exact hh
    · -- integer
      obtain ⟨i, rfl, hi⟩ := h
      obtain ⟨d, ds, rfl, hd⟩ := intSpell_hd hi
      have h0 := intDigits_hd i (32 :: X)
      simp only [spell] at hh
      obtain ⟨d', r', e, hd'⟩ := h0.dest
      rw [e] at hh
      simp only [List.cons_append, hd_cons] at hh ⊢
      rw [hp d hd]
      rw [hp d' hd'] at hh
      exact hh

/-- the first character of a layout is of the class of that of the canonical text -/
theorem sc'_hd {p : Nat → Bool} {kvs : List KV} {t tl : Text} (hs : Sc' kvs t tl)
    (hh : Hd p (spellAll kvs ++ tl)) (h32 : p 32 = false) (hp : DigU p) : Hd p t := by
  cases hs with
  | nil _ => simpa using hh
  | cons kv hsp hw hr =>
    rw [spellAll_cons] at hh
    simp only [List.append_assoc, List.cons_append] at hh
    exact spells_hd hp h32 hsp hh

theorem digU_termStart : DigU termStart := digU_of (by decide)
theorem digU_nodeStart : DigU nodeStart := digU_of (by decide)
theorem digU_preStart : DigU preStart := digU_of (by decide)
theorem digU_exprStart : DigU exprStart := digU_of (by decide)
theorem digU_afterNode : DigU afterNode := digU_of (by decide)
theorem digU_afterTerm : DigU afterTerm := digU_of (by decide)

/-! ### strings -/

theorem mEscape_escape {e : Text} {v : Nat} (h : Unescape.Escape e v) (post : Text) :
    mEscape (e ++ post) = some e.length := by
  unfold mEscape
  rw [Unescape.escapeLen_spec,
    Unescape.specEscape_append post (Unescape.specEscape_of_escape h)]
  rfl

theorem denotes_of_strBody {body s : Text} (h : StrBody body s) : Unescape.Denotes body s := by
  induction h with
  | nil => exact .nil
  | char c h1 _ _ ih => exact .char c _ _ h1 ih
  | esc he _ ih => exact .esc _ _ _ _ he ih

/-- decoding a literal body gives the string it denotes -/
theorem unescape_strBody {body s : Text} (h : StrBody body s) :
    Unescape.unescape body = .ok s :=
  Unescape.unescape_of_spec (Unescape.spec_of_denotes (denotes_of_strBody h))

/-- some character of the body is a backslash -/
def hasEsc (b : Text) : Bool := b.any (· == 92)

theorem strBody_plain {body s : Text} (h : StrBody body s) (hn : hasEsc body = false) :
    body = s := by
  induction h with
  | nil => rfl
  | char c _ _ _ ih =>
    simp only [hasEsc, List.any_cons, Bool.or_eq_false_iff] at hn
    rw [ih hn.2]
  | esc _ _ _ => simp [hasEsc] at hn

theorem strBody_length {body s : Text} (h : StrBody body s) : s.length ≤ body.length := by
  induction h with
  | nil => simp
  | char c _ _ _ ih => simp; omega
  | esc _ _ ih => simp; omega

/-- the loop of `accept_string` over any body, from any accumulator -/
theorem sp_stringLoop' (kind : TK) {body s : Text} (h : StrBody body s) :
    ∀ (n : Nat) (acc : Text) (esc : Bool) (v tl : Text), body.length < n →
    (if (esc || hasEsc body) = true
      then Unescape.unescape (acc.reverse ++ body) = .ok v
      else acc.reverse ++ body = v) →
    Sp (stringLoop kind n acc esc) (body ++ 34 :: tl) true tl [(kind, v)] := by
  induction h with
  | nil =>
    intro n acc esc v tl hn hv st hs
    cases n with
    | zero => simp at hn
    | succ n =>
      simp only [List.nil_append] at hs
      simp only [hasEsc, List.any_nil, Bool.or_false, List.append_nil] at hv
      cases esc with
      | true =>
        simp only [↓reduceIte] at hv
        rw [stringLoop_close_esc kind n acc st tl v hs hv]
        exact ⟨_, rfl, by simp [hs], by simp⟩
      | false =>
        simp only [Bool.false_eq_true, ↓reduceIte] at hv
        rw [stringLoop_close_raw kind n acc st tl hs, hv]
        exact ⟨_, rfl, by simp [hs], by simp⟩
  | @char c b s' h1 h2 _ ih =>
    intro n acc esc v tl hn hv st hs
    cases n with
    | zero => simp at hn
    | succ n =>
      have hne : hasEsc (c :: b) = hasEsc b := by
        have : (c == 92) = false := by simpa using h1
        simp [hasEsc, this]
      rw [stringLoop_plain kind n acc esc st c _ (by simpa using hs) h1 h2]
      have hv' : (if (esc || hasEsc b) = true
          then Unescape.unescape ((c :: acc).reverse ++ b) = .ok v
          else (c :: acc).reverse ++ b = v) := by
        rw [hne] at hv
        simpa using hv
      have hn' : b.length < n := by simp at hn; omega
      obtain ⟨s1, e1, r1, o1⟩ := ih n (c :: acc) esc v tl hn' hv' (st.adv 1) (by simp [hs])
      exact ⟨s1, e1, r1, by simpa using o1⟩
  | @esc e v0 b s' he _ ih =>
    intro n acc esc v tl hn hv st hs
    cases n with
    | zero => simp at hn
    | succ n =>
      have hk : mEscape (e ++ (b ++ 34 :: tl)) = some e.length := mEscape_escape he _
      have hs' : st.rest = 92 :: (e ++ (b ++ 34 :: tl)) := by simpa using hs
      rw [stringLoop_esc kind n acc esc st _ e.length hs' hk]
      have ht : (e ++ (b ++ 34 :: tl)).take e.length = e := by simp
      rw [ht]
      have hv' : (if (true || hasEsc b) = true
          then Unescape.unescape ((e.reverse ++ 92 :: acc).reverse ++ b) = .ok v
          else (e.reverse ++ 92 :: acc).reverse ++ b = v) := by
        simp only [Bool.true_or, ↓reduceIte]
        simp only [hasEsc, List.any_cons, beq_self_eq_true, Bool.true_or, Bool.or_true,
          ↓reduceIte] at hv
        simpa using hv
      have hn' : b.length < n := by simp at hn; omega
      obtain ⟨s1, e1, r1, o1⟩ := ih n (e.reverse ++ 92 :: acc) true v tl hn' hv'
        ((st.adv 1).adv e.length) (by simp [hs'])
      exact ⟨s1, e1, r1, by simpa using o1⟩

theorem sp_stringLoop_start' (kind : TK) {body s : Text} (h : StrBody body s) (tl : Text) (n : Nat)
    (hn : body.length < n) :
    Sp (stringLoop kind n [] false) (body ++ 34 :: tl) true tl [(kind, s)] := by
  apply sp_stringLoop' kind h n [] false s tl hn
  by_cases he : hasEsc body = true
  · simp [he, unescape_strBody h]
  · simp only [Bool.not_eq_true] at he
    have hb := strBody_plain h he
    subst hb
    simp [he]

theorem sp_acceptString' {body s : Text} (h : StrBody body s) (tl : Text) :
    Sp acceptString (34 :: (body ++ 34 :: tl)) true tl [(.string, s)] := by
  intro st hs
  unfold acceptString
  simp only [peek_cons hs, ↓reduceIte]
  have := sp_stringLoop_start' .string h tl ((st.adv 1).rest.length + 1) (by simp [hs]; omega)
  exact this.from st _ (by simp [hs]) (k0 := []) (by simp only [List.append_nil]; rfl)

theorem sp_acceptCIString' {body s ws : Text} (h : StrBody body s) (hws : IsTrivia ws) (tl : Text) :
    Sp acceptCIString (94 :: (ws ++ 34 :: (body ++ 34 :: tl))) true tl [(.stringCI, s)] := by
  intro st hs
  unfold acceptCIString
  simp only [peek_cons hs, ↓reduceIte]
  obtain ⟨h1, h2⟩ := skipTrivia_trivia (s := ({ (st.adv 1) with start := (st.adv 1).pos } : St))
    (ws := ws) (tl := 34 :: (body ++ 34 :: tl)) (by simp [hs]) hws (stop_tokc _ (by decide))
  generalize skipTrivia ({ (st.adv 1) with start := (st.adv 1).pos } : St) = s2 at h1 h2
  simp only [peek_cons h1, ↓reduceIte]
  have := sp_stringLoop_start' .stringCI h tl ((s2.adv 1).rest.length + 1) (by simp [h1]; omega)
  exact this.from st _ (by simp [h1]) (k0 := []) (by simp only [List.append_nil]; exact h2)

/-! ### character literals -/

theorem mChar_charSpell {a : Nat} {w : Text} (h : CharSpell a w) (tl : Text) :
    mChar (w ++ tl) = some w.length := by
  cases h with
  | raw c hc => simp [mChar]
  | @esc e v he =>
    have hk : mEscape (e ++ 39 :: tl) = some e.length := mEscape_escape he _
    simp only [List.cons_append, List.append_assoc, List.nil_append, mChar, hk]
    simp

/-! ### `{m,n}` -/

/-- first characters between the braces (closed under `DigU`) -/
def itemCls (c : Nat) : Bool := c == 125 || c == 44 || isDigit c || c == 45

theorem digU_itemCls : DigU itemCls := digU_of (by decide)

theorem tokc_itemCls {c : Nat} (h : itemCls c = true) : tokc c = true := by
  simp only [itemCls, Bool.or_eq_true, beq_iff_eq] at h
  rcases h with ((h | h) | h) | h
  · subst h; decide
  · subst h; decide
  · exact tokc_digit h
  · subst h; decide

theorem hd_items' (items : List (Option Nat)) {tl : Text} (h : Hd (· == 125) tl) :
    Hd itemCls (spellAll (items.map itemKV) ++ tl) :=
  (hd_items items h).mono (fun c hc => by simp only [itemCls, hc, Bool.true_or])

theorem hd_items_nonum' {items : List (Option Nat)} (h : numFirst items = false) {t tl : Text}
    (hs : Sc' (items.map itemKV) t tl) (htl : Hd (· == 125) tl) :
    Hd (fun c => c == 125 || c == 44) t := by
  cases items with
  | nil =>
    have := sc'_nil_inv hs; subst this
    exact htl.mono (fun c hc => by simp at hc; simp [hc])
  | cons i r =>
    cases i with
    | none =>
      simp only [List.map_cons, itemKV] at hs
      obtain ⟨w, m, _, rfl, _⟩ := sc'_cons_v hs
      simp
    | some k => simp [numFirst] at h

theorem items_length_le' : ∀ (items : List (Option Nat)) {t tl : Text},
    Sc' (items.map itemKV) t tl → items.length + tl.length ≤ t.length := by
  intro items
  induction items with
  | nil => intro t tl h; have := sc'_nil_inv h; subst this; simp
  | cons i r ih =>
    intro t tl h
    cases i with
    | none =>
      simp only [List.map_cons, itemKV] at h
      obtain ⟨w, m, _, rfl, hr⟩ := sc'_cons_v h
      have := ih hr
      simp; omega
    | some k =>
      simp only [List.map_cons, itemKV] at h
      obtain ⟨w, ws, m, hsp, _, rfl, hr⟩ := sc'_cons_inv h
      obtain ⟨k', _, hnum⟩ := hsp
      obtain ⟨d, ds, rfl, _, _⟩ := numSpell_cons hnum
      have := ih hr
      simp; omega

theorem sp_boundsLoop' : ∀ (items : List (Option Nat)) (n : Nat) (F t tl : Text),
    items.length < n → okItems items = true → Hd (· == 125) tl → Sc' (items.map itemKV) t tl →
    Tr F t → Sp' (boundsLoop n) F () tl (items.map itemKV) := by
  intro items
  induction items with
  | nil =>
    intro n F t tl hn _ htl hs hF
    have := sc'_nil_inv hs; subst this
    exact up (sp_boundsLoop_g [] n F t t hn rfl htl (.nil _) hF) .nil
  | cons i items ih =>
    intro n F t tl hn hok htl hs hF
    cases n with
    | zero => omega
    | succ n =>
      have hn' : items.length < n := by simp at hn; omega
      have hst : Stop t :=
        (sc'_hd hs (hd_items' (i :: items) htl) (by decide) digU_itemCls).stop @tokc_itemCls
      cases i with
      | none =>
        have hok' : okItems items = true := by simpa [okItems] using hok
        simp only [List.map_cons, itemKV] at hs ⊢
        obtain ⟨w, m, hw, rfl, hs'⟩ := sc'_cons_v hs
        obtain ⟨K', hA, hS⟩ := ih n (w ++ m) m tl hn' hok' htl hs' (Tr.mk hw m)
        refine ⟨(.comma, [44]) :: K', .cons ⟨rfl, rfl⟩ hA, ?_⟩
        intro s0 hs0
        obtain ⟨hr, ho⟩ := skipTrivia_tr (s := s0) (by rw [hs0]; exact hF) hst
        simp only [boundsLoop]
        generalize skipTrivia s0 = s at hr ho
        have hr' : s.rest = 44 :: (w ++ m) := by simpa using hr
        have := hS.from s0 ((s.adv 1).emit .comma [44]) (by simp [hr'])
          (k0 := [(.comma, [44])]) (by simp [ho]) (kk := (.comma, [44]) :: K') (by simp)
        simpa [peek_cons hr'] using this
      | some k =>
        have hok' : numFirst items = false ∧ okItems items = true := by
          simpa [okItems] using hok
        simp only [List.map_cons, itemKV] at hs ⊢
        obtain ⟨w, ws, m, hsp, hw, rfl, hs'⟩ := sc'_cons_inv hs
        obtain ⟨k', hk', hnum⟩ := hsp
        obtain ⟨d, ds, e, hd, hds⟩ := numSpell_cons hnum
        obtain ⟨K', hA, hS⟩ := ih n (ws ++ m) m tl hn' hok'.2 htl hs' (Tr.mk hw m)
        refine ⟨(.number, w) :: K', .cons ⟨rfl, ⟨k', hk', hnum⟩⟩ hA, ?_⟩
        intro s0 hs0
        obtain ⟨hr, ho⟩ := skipTrivia_tr (s := s0) (by rw [hs0]; exact hF) hst
        simp only [boundsLoop]
        generalize skipTrivia s0 = s at hr ho
        have hpk : s.peek ≠ some 44 := by
          have : s.rest = d :: (ds ++ (ws ++ m)) := by rw [hr, e]; rfl
          rw [peek_cons this]
          have := isDigit_cases hd
          simp; omega
        have hnd : Hd ndg (ws ++ m) :=
          isTrivia_hd ndg_of_not_tokc hw ((hd_items_nonum' hok'.1 hs' htl).mono (fun c hc => by
            simp only [Bool.or_eq_true, beq_iff_eq] at hc
            rcases hc with hc | hc <;> subst hc <;> decide))
        have hm := mNumber_digits_g hnum.2.1 hnum.1 hnd
        have := hS.from s0 ((s.adv w.length).emit .number (s.rest.take w.length))
          (by simp [hr]) (k0 := [(.number, w)]) (by simp [ho, hr])
          (kk := (.number, w) :: K') (by simp)
        rw [← hr] at hm
        simpa [hpk, hm] using this

/-! ### postfix operators -/

/-- the sub-scanner behind `{` -/
theorem sp_braces' (items : List (Option Nat)) (hok : okItems items = true) (N : Nat)
    (hN : items.length < N) {F t X : Text}
    (hs : Sc' (items.map itemKV) t (125 :: X)) (hF : Tr F t) :
    Sp' (do boundsLoop N; triv; expect 125 .rbrace .expectedRBrace; pure true : M Bool)
      F true X (items.map itemKV ++ [(.rbrace, [125])]) := by
  sp'_begin
  sp'_step (sp_boundsLoop' items N F t (125 :: X) hN hok (by simp) hs hF)
  sp'_step (up (sp_triv_id (stop_tokc _ (by decide))))
  sp'_step (up (sp_expect 125 .rbrace .expectedRBrace _))
  exact Sp'.pure true _
  case hi => rfl
  case hk => simp

theorem sp_postfixOp' (p : Post) {F t m : Text} (hs : Sc' (postKV p) t m) (hF : Tr F t) :
    ∃ F', Tr F' m ∧ Sp' acceptPostfixOp F true F' (postKV p) := by
  cases hp : postItems p with
  | none =>
    have hv : ∀ kv ∈ postKV p, Verb kv.1 := by
      cases p <;> simp [postItems] at hp <;> simp [postKV] <;> decide
    obtain ⟨F', hF', h⟩ := sp_postfixOp_g p (sc_of_sc' hs hv) hF
    exact ⟨F', hF', upv h hv⟩
  | some items =>
    have hst : Stop t :=
      (sc'_hd hs (hd_postKV p m) afterNode_32 digU_afterNode).stop @tokc_afterNode
    have hkv := postKV_items hp
    rw [hkv] at hs ⊢
    obtain ⟨w0, t1, hw0, rfl, hs1⟩ := sc'_cons_v hs
    obtain ⟨t2, h1, h2⟩ := sc'_append _ hs1
    obtain ⟨w3, m', hw3, rfl, h3⟩ := sc'_cons_v h2
    have := sc'_nil_inv h3; subst this
    have hlen := items_length_le' items h1
    refine ⟨w3 ++ m', Tr.mk hw3 m', ?_⟩
    obtain ⟨K', hA, hS⟩ := sp_braces' items (postItems_ok hp) ((w0 ++ t1).length + 1)
      (by simp at hlen ⊢; omega) h1 (Tr.mk hw0 t1)
    refine ⟨(.lbrace, [123]) :: K', .cons ⟨rfl, rfl⟩ hA, ?_⟩
    intro s0 hs0
    obtain ⟨hr, ho⟩ := skipTrivia_tr (s := s0) (by rw [hs0]; exact hF) hst
    simp only [acceptPostfixOp]
    generalize skipTrivia s0 = s at hr ho
    have hr' : s.rest = 123 :: (w0 ++ t1) := by simpa using hr
    have := hS.from s0 ((s.adv 1).emit .lbrace [123]) (by simp [hr'])
      (k0 := [(.lbrace, [123])]) (by simp [ho]) (kk := (.lbrace, [123]) :: K') (by simp)
    simpa [peek_cons hr', hr'] using this

theorem sp_postfixLoop' : ∀ (posts : List Post) (n : Nat) (F t tl : Text), posts.length < n →
    Hd afterTerm tl → Sc' (postsKV posts) t tl → Tr F t →
    Sp' (postfixLoop n) F () tl (postsKV posts) := by
  intro posts
  induction posts with
  | nil =>
    intro n F t tl hn htl hs hF
    have := sc'_nil_inv hs; subst this
    exact up (sp_postfixLoop_g [] n F t t hn htl (.nil _) hF) .nil
  | cons p posts ih =>
    intro n F t tl hn htl hs hF
    cases n with
    | zero => omega
    | succ n =>
      have hn' : posts.length < n := by simp at hn; omega
      have hs' : Sc' (postKV p ++ postsKV posts) t tl := by simpa [postsKV] using hs
      obtain ⟨m, h1, h2⟩ := sc'_append _ hs'
      obtain ⟨F', hF', hop⟩ := sp_postfixOp' p h1 hF
      unfold postfixLoop
      sp'_begin
      sp'_step hop
      exact ih n F' m tl hn' htl h2 hF'
      case hi => rfl
      case hk => simp [postsKV]

theorem posts_length_le' : ∀ (posts : List Post) {t tl : Text}, Sc' (postsKV posts) t tl →
    posts.length + tl.length ≤ t.length := by
  intro posts
  induction posts with
  | nil => intro t tl h; have := sc'_nil_inv h; subst this; simp
  | cons p posts ih =>
    intro t tl h
    have h' : Sc' (postKV p ++ postsKV posts) t tl := by simpa [postsKV] using h
    obtain ⟨m, h1, h2⟩ := sc'_append _ h'
    have := ih h2
    have h3 : 1 + m.length ≤ t.length := by
      cases p <;> simp only [postKV] at h1 <;> obtain ⟨ws, m1, _, rfl, hr⟩ := sc'_cons_v h1 <;>
        have := sc'_length hr <;> simp <;> omega
    simp; omega

/-- `accept_postfix_ops` behind a node -/
theorem sp_acceptPostfixOps' (posts : List Post) {F t tl : Text} (htl : Hd afterTerm tl)
    (hs : Sc' (postsKV posts) t tl) (hF : Tr F t) :
    Sp' acceptPostfixOps F () tl (postsKV posts) := by
  unfold acceptPostfixOps
  apply Sp'.lenFuel posts.length
  · have h1 := posts_length_le' posts hs
    have h2 := hF.length_le
    omega
  · intro n hn
    exact sp_postfixLoop' posts n F t tl hn htl hs hF

/-! ### integers, `PEEK[a..b]` -/

theorem mInteger_intSpell {i : Int} {w : Text} (h : IntSpell i w) {F : Text} (hF : Hd ndg F) :
    mInteger (w ++ F) = some w.length := by
  cases h with
  | nonneg hn => simp only [mInteger, mNumber_digits_g hn.2.1 hn.1 hF]
  | @neg n zs d ds hz h1 h2 hn =>
    obtain ⟨x, F', rfl, hx⟩ := hF.dest
    have hall : (zs ++ d :: ds).all isDigit = true := hn.2.1
    have hds : ds.all isDigit = true := by
      simp only [List.all_append, List.all_cons, Bool.and_eq_true] at hall
      exact hall.2.2
    have hn0 : mNumber (45 :: (zs ++ d :: (ds ++ x :: F'))) = none := mNumber_none _ (by decide)
    have hzs : zs.all (· == 48) = true := by
      simp only [List.all_eq_true, beq_iff_eq]; exact hz
    have hz' : spanLen (· == 48) (zs ++ d :: (ds ++ x :: F')) = zs.length :=
      spanLen_append (· == 48) zs d (ds ++ x :: F') hzs (by simp; omega)
    have hd : (decide (49 ≤ d) && decide (d ≤ 57)) = true := by simp; omega
    have hs := spanLen_append isDigit ds x F' hds (by simpa [ndg] using hx)
    simp only [mInteger, List.cons_append, List.append_assoc, hn0, hz', List.drop_left, hd,
      ↓reduceIte, hs, List.length_cons, List.length_append]
    congr 1; omega

theorem sp_optInteger' (a : Option Int) {t tl : Text} (hs : Sc' (optIntKV a) t tl)
    (h : Hd (fun c => c == 46 || c == 93) tl) : Sp' optInteger t () tl (optIntKV a) := by
  cases a with
  | none =>
    have := sc'_nil_inv (by simpa [optIntKV] using hs); subst this
    exact up (sp_optInteger none h) .nil
  | some i =>
    have hst : Stop tl := h.stop (fun c hc => by
      simp only [Bool.or_eq_true, beq_iff_eq] at hc
      rcases hc with hc | hc <;> subst hc <;> decide)
    simp only [optIntKV] at hs ⊢
    obtain ⟨w, ws, m, hsp, hw, rfl, h3⟩ := sc'_cons_inv hs
    have := sc'_nil_inv h3; subst this
    obtain ⟨i', hi', hint⟩ := hsp
    have hnd : Hd ndg (ws ++ m) := isTrivia_hd ndg_of_not_tokc hw (h.mono (fun c hc => by
      simp only [Bool.or_eq_true, beq_iff_eq] at hc
      rcases hc with hc | hc <;> subst hc <;> decide))
    refine ⟨[(.integer, w)], .cons ⟨rfl, ⟨i', hi', hint⟩⟩ .nil, ?_⟩
    unfold optInteger
    sp_begin
    sp_step (sp_scanEmit .integer (mInteger_intSpell hint hnd))
    exact sp_triv_w hw hst
    case hi => rfl
    case hk => simp

/-- `PEEK` followed by a slice -/
theorem sp_peekTail_slice' (a b : Option Int) {F t tl : Text} (hs : Sc' (sliceKV a b) t tl)
    (hF : Tr F t) : ∃ F', Tr F' tl ∧ Sp' peekTail F true F' (sliceKV a b) := by
  have hs' : Sc' ((.lbracket, [91]) :: (optIntKV a ++ ((.rangeOp, [46, 46]) ::
      (optIntKV b ++ [(.rbracket, [93])])))) t tl := by simpa [sliceKV] using hs
  obtain ⟨w0, t1, hw0, rfl, h1⟩ := sc'_cons_v hs'
  obtain ⟨t2, hA, h2⟩ := sc'_append _ h1
  obtain ⟨w1, t3, hw1, rfl, h3⟩ := sc'_cons_v h2
  obtain ⟨t4, hB, h4⟩ := sc'_append _ h3
  obtain ⟨w2, m, hw2, rfl, h5⟩ := sc'_cons_v h4
  have := sc'_nil_inv h5; subst this
  have hdB : Hd (fun c => c == 46 || c == 93) (93 :: (w2 ++ m)) := by simp
  have hdA : Hd (fun c => c == 46 || c == 93) (sDOTS ++ (w1 ++ t3)) := by simp [sDOTS]
  have hB' : Sc' (optIntKV b) t3 (93 :: (w2 ++ m)) := by simpa using hB
  have hA' : Sc' (optIntKV a) t1 (sDOTS ++ (w1 ++ t3)) := by simpa [sDOTS] using hA
  have tk : ∀ c, ((c == 46 || c == 93) || isDigit c || c == 45) = true → tokc c = true := by
    intro c hc
    simp only [Bool.or_eq_true, beq_iff_eq] at hc
    rcases hc with ((hc | hc) | hc) | hc
    · subst hc; decide
    · subst hc; decide
    · exact tokc_digit hc
    · subst hc; decide
  have hstA : Stop t1 :=
    (sc'_hd hA' (hd_optInt a hdA) slice_class_32 (digU_of (by decide))).stop tk
  have hstB : Stop t3 :=
    (sc'_hd hB' (hd_optInt b hdB) slice_class_32 (digU_of (by decide))).stop tk
  refine ⟨w2 ++ m, Tr.mk hw2 m, ?_⟩
  unfold peekTail
  sp'_begin
  sp'_step (up (sp_triv_tr hF (stop_tokc (c := 91) (w0 ++ t1) (by decide))))
  sp'_step (up (sp_optChar 91 .lbracket _))
  sp'_step (up (sp_triv_w hw0 hstA))
  sp'_step (sp_optInteger' a hA' hdA)
  sp'_step (up (sp_scanOrError .rangeOp .expectedRangeOp (mLit_dots _)))
  sp'_step (up (sp_triv_w hw1 hstB))
  sp'_step (sp_optInteger' b hB' hdB)
  sp'_step (up (sp_expect 93 .rbracket .expectedRParen _))
  exact Sp'.pure true _
  case hi => rfl
  case hk => simp [sliceKV, sDOTS]

/-! ### character ranges -/

theorem sp_charRange' (a b : Nat) {t tl : Text}
    (hs : Sc' [(.char, charLit a), (.rangeOp, [46, 46]), (.char, charLit b)] t tl) :
    ∃ F', Tr F' tl ∧ Sp' charRange t true F'
      [(.char, charLit a), (.rangeOp, [46, 46]), (.char, charLit b)] := by
  obtain ⟨wa, w1, m1, hspa, hw1, rfl, h1⟩ := sc'_cons_inv hs
  obtain ⟨w2, m2, hw2, rfl, h2⟩ := sc'_cons_v h1
  obtain ⟨wb, w3, m3, hspb, hw3, rfl, h3⟩ := sc'_cons_inv h2
  have := sc'_nil_inv h3; subst this
  obtain ⟨a', ha', hca⟩ := hspa
  obtain ⟨b', hb', hcb⟩ := hspb
  obtain ⟨rb, hrb⟩ := charSpell_cons hcb
  refine ⟨w3 ++ m3, Tr.mk hw3 m3, [(.char, wa), (.rangeOp, [46, 46]), (.char, wb)],
    .cons ⟨rfl, ⟨a', ha', hca⟩⟩ (.cons ⟨rfl, rfl⟩ (.cons ⟨rfl, ⟨b', hb', hcb⟩⟩ .nil)), ?_⟩
  unfold charRange
  sp_begin
  sp_step (sp_scanEmit .char (mChar_charSpell hca (w1 ++ (sDOTS ++ (w2 ++ (wb ++ (w3 ++ m3)))))))
  sp_step (sp_triv_w hw1 (stop_tokc _ (by decide)))
  sp_step (sp_scanOrError .rangeOp .expectedRangeOp (mLit_dots _))
  sp_step (sp_triv_w hw2 (by rw [hrb]; exact stop_tokc _ (by decide)))
  sp_step (sp_scanOrError .char .expectedChar (mChar_charSpell hcb (w3 ++ m3)))
  exact Sp.pure true _
  case hi => simp [sDOTS]
  case hk => simp [sDOTS]

/-! ### verbatim groups: tags, prefix operators, modifiers, the leading `|` -/

theorem sp_acceptTag_some' {t : Text} (h : IsTagName t) {inp tl : Text}
    (hs : Sc' (tagKV (some t)) inp tl) (ht : Stop tl) :
    Sp' acceptTag inp () tl (tagKV (some t)) :=
  upv (sp_acceptTag_some_g h (sc_of_sc' hs (verb_tagKV _)) ht) (verb_tagKV _)

theorem sp_prefixLoop' (pre : List Bool) (n : Nat) (inp tl : Text) (hn : pre.length < n)
    (hs : Sc' (pre.map preKV) inp tl) (htl : Hd nodeStart tl) :
    Sp' (prefixLoop n) inp () tl (pre.map preKV) :=
  upv (sp_prefixLoop_g pre n inp tl hn (sc_of_sc' hs (verb_preKV _)) htl) (verb_preKV _)

theorem pre_length_le' (pre : List Bool) {t tl : Text} (hs : Sc' (pre.map preKV) t tl) :
    pre.length + tl.length ≤ t.length :=
  pre_length_le pre (sc_of_sc' hs (verb_preKV _))

theorem sp_optModifier' (m : Option Nat)
    (hm : match m with | some c => c = 95 ∨ c = 64 ∨ c = 36 ∨ c = 33 | none => True)
    {t X : Text} (hs : Sc' (modKV m) t (123 :: X)) :
    Sp' optModifier t () (123 :: X) (modKV m) :=
  upv (sp_optModifier_g m hm (sc_of_sc' hs (verb_modKV _))) (verb_modKV _)

theorem stop_mod' (m : Option Nat)
    (hm : match m with | some c => c = 95 ∨ c = 64 ∨ c = 36 ∨ c = 33 | none => True)
    {t X : Text} (hs : Sc' (modKV m) t (123 :: X)) : Stop t :=
  stop_mod_g m hm (sc_of_sc' hs (verb_modKV _))

theorem sp_leadingChoice' (bar : Bool) {t X : Text} (hs : Sc' (barKV bar) t X)
    (hX : Hd termStart X) : Sp' leadingChoice t () X (barKV bar) :=
  upv (sp_leadingChoice_g bar (sc_of_sc' hs (verb_barKV _)) hX) (verb_barKV _)

/-! ### doc lines -/

theorem docEnd_tail {c : Nat} {l rest : Text} (h : DocEnd (c :: l) rest) : DocEnd l rest := by
  rcases h with h | ⟨r, h, hl⟩ | h
  · exact .inl h
  · refine .inr (.inl ⟨r, h, ?_⟩)
    cases l with
    | nil => simp
    | cons d l' => simpa using hl
  · exact .inr (.inr h)

/-- the line ends where what follows it begins: at the end of the text, at LF, or at CR LF -/
theorem findNewline_docEnd : ∀ (l rest : Text), NoLF l → DocEnd l rest →
    (findNewline (l ++ rest)).getD (l.length + rest.length) = l.length := by
  intro l
  induction l with
  | nil =>
    intro rest _ hd
    rcases hd with rfl | ⟨r, rfl, _⟩ | ⟨r, rfl⟩ <;> simp [findNewline]
  | cons c l ih =>
    intro rest hn hd
    have h10 : c ≠ 10 := hn c (by simp)
    have hn' : NoLF l := fun d hd' => hn d (by simp [hd'])
    have h13 : c = 13 → (l ++ rest).head? ≠ some 10 := by
      intro hc
      cases l with
      | nil =>
        rcases hd with rfl | ⟨r, rfl, hl⟩ | ⟨r, rfl⟩
        · simp
        · subst hc; simp at hl
        · simp
      | cons d l' =>
        have := hn d (by simp)
        simpa using this
    have := ih rest hn' (docEnd_tail hd)
    simp only [List.cons_append, List.length_cons]
    rw [findNewline_cons h10 h13]
    cases hf : findNewline (l ++ rest) with
    | none => rw [hf] at this; simp at this ⊢; omega
    | some k => rw [hf] at this; simp at this ⊢; omega

theorem docEnd_head {l rest : Text} (hd : DocEnd l rest) :
    rest.head? ≠ some 32 ∧ rest.head? ≠ some 9 := by
  rcases hd with rfl | ⟨r, rfl, _⟩ | ⟨r, rfl⟩ <;> simp

/-- `scan_grammar_doc_inner` / `scan_rule_doc_inner` on the optional blank, a doc line and what
    follows it: the blank belongs to the marker, the line is the token -/
theorem sp_docInner' {sp l rest : Text} (hsp : DocSp sp l) (h : NoLF l) (hd : DocEnd l rest) :
    Sp docInner (sp ++ (l ++ rest)) () rest [(.commentText, l)] := by
  intro s hs
  obtain ⟨hr, ho⟩ := docBlank_sp hsp (docEnd_head hd) hs
  have hf := findNewline_docEnd l rest h hd
  refine ⟨((docBlank s).adv l.length).emit .commentText ((docBlank s).rest.take l.length), ?_, ?_, ?_⟩
  · unfold docInner
    simp only [hr, List.length_append, hf]
  · simp [hr]
  · simp [hr, ho]

/-! ### the end of the text: trivia, then possibly a line comment without its line break -/

/-- what `EndC` gives when the text does not simply end -/
structure EndLC (e : Text) : Prop where
  ws : wsLen e = 0
  lc : mLineComment e = some e.length
  bc : mBlockComment e = none
  pos : 0 < e.length

theorem endLC_of {r : Text} (h1 : ∀ c ∈ r, c ≠ 10) (h2 : r.head? ≠ some 47)
    (h3 : r.head? ≠ some 33) : EndLC (47 :: 47 :: r) := by
  refine ⟨by simp [wsLen], ?_, by simp [mBlockComment], by simp⟩
  cases r with
  | nil => simp [mLineComment]
  | cons d r' =>
    have hd47 : d ≠ 47 := by simpa using h2
    have hd33 : d ≠ 33 := by simpa using h3
    have hall : (d :: r').all (· != 10) = true := by
      simp only [List.all_eq_true]
      intro c hc
      simpa using h1 c hc
    have := spanLen_of_all (· != 10) (d :: r') hall
    simp [mLineComment, hd47, hd33, this]
    try omega

/-- the remaining text is empty, or trivia followed by `e` -/
def EInv (e t : Text) : Prop := t = [] ∨ ∃ ws, IsTrivia ws ∧ t = ws ++ e

/-- a trivia pattern on trivia followed by `e` takes whole units, or everything -/
def TakesE (e : Text) (m : Text → Option Nat) : Prop :=
  m [] = none ∧ ∀ (ws : Text) (n : Nat), IsTrivia ws → m (ws ++ e) = some n →
    0 < n ∧ n ≤ (ws ++ e).length ∧ EInv e ((ws ++ e).drop n)

theorem wsLen_trivia' {ws tl : Text} (hw : IsTrivia ws) (ht : wsLen tl = 0) :
    ∃ pre ws', ws = pre ++ ws' ∧ pre.length = wsLen (ws ++ tl) ∧ IsTrivia ws' := by
  induction hw with
  | nil => exact ⟨[], [], rfl, by simp [ht], .nil⟩
  | sp _ ih =>
    obtain ⟨pre, ws', e, hl, hw'⟩ := ih
    exact ⟨32 :: pre, ws', by simp [e], by simp [wsLen, hl], hw'⟩
  | tab _ ih =>
    obtain ⟨pre, ws', e, hl, hw'⟩ := ih
    exact ⟨9 :: pre, ws', by simp [e], by simp [wsLen, hl], hw'⟩
  | lf _ ih =>
    obtain ⟨pre, ws', e, hl, hw'⟩ := ih
    exact ⟨10 :: pre, ws', by simp [e], by simp [wsLen, hl], hw'⟩
  | crlf _ ih =>
    obtain ⟨pre, ws', e, hl, hw'⟩ := ih
    exact ⟨13 :: 10 :: pre, ws', by simp [e], by simp [wsLen, hl], hw'⟩
  | line r h1 h2 h3 h _ =>
    exact ⟨[], _, rfl, by simp [wsLen], .line r h1 h2 h3 h⟩
  | block hc h _ =>
    obtain ⟨body, rfl, hb⟩ := hc
    exact ⟨[], _, rfl, by simp [wsLen], .block ⟨body, rfl, hb⟩ h⟩

theorem takesE_ws {e : Text} (he : EndLC e) : TakesE e mWhitespace := by
  refine ⟨rfl, ?_⟩
  intro ws n hw hm
  obtain ⟨pre, ws', e', hl, hw'⟩ := wsLen_trivia' (tl := e) hw he.ws
  unfold mWhitespace at hm
  by_cases h0 : wsLen (ws ++ e) = 0
  · simp [h0] at hm
  · simp [h0] at hm
    have hn : n = pre.length := by omega
    subst hn
    refine ⟨by omega, by rw [e']; simp <;> omega, .inr ⟨ws', hw', by rw [e']; simp⟩⟩

theorem takesE_lc {e : Text} (he : EndLC e) : TakesE e mLineComment := by
  refine ⟨rfl, ?_⟩
  intro ws n hw hm
  cases hw with
  | nil =>
    rw [List.nil_append, he.lc] at hm
    cases hm
    exact ⟨he.pos, by simp, .inl (by simp)⟩
  | sp _ => simp [mLineComment] at hm
  | tab _ => simp [mLineComment] at hm
  | lf _ => simp [mLineComment] at hm
  | crlf _ => simp [mLineComment] at hm
  | @line r t h1 h2 h3 h =>
    have := mLineComment_line r (t ++ e) h1 h2 h3
    simp only [List.cons_append, List.append_assoc] at hm
    rw [this] at hm
    cases hm
    refine ⟨by omega, by simp <;> omega, .inr ⟨10 :: t, .lf h, ?_⟩⟩
    have : (47 :: 47 :: (r ++ 10 :: t) ++ e) = (47 :: 47 :: r) ++ (10 :: t ++ e) := by simp
    rw [this, show 2 + r.length = (47 :: 47 :: r).length by simp; omega, List.drop_left]
  | block hc _ =>
    obtain ⟨body, rfl, _⟩ := hc
    simp [mLineComment] at hm

theorem takesE_bc {e : Text} (he : EndLC e) : TakesE e mBlockComment := by
  refine ⟨rfl, ?_⟩
  intro ws n hw hm
  cases hw with
  | nil => rw [List.nil_append, he.bc] at hm; cases hm
  | sp _ => simp [mBlockComment] at hm
  | tab _ => simp [mBlockComment] at hm
  | lf _ => simp [mBlockComment] at hm
  | crlf _ => simp [mBlockComment] at hm
  | line r _ _ _ _ => simp [mBlockComment] at hm
  | @block c t hc h =>
    obtain ⟨body, rfl, hb⟩ := hc
    have := hb (t ++ e)
    simp only [List.cons_append, List.append_assoc, mBlockComment, this, Option.map_some] at hm
    cases hm
    refine ⟨by omega, by simp <;> omega, .inr ⟨t, h, ?_⟩⟩
    have : (47 :: 42 :: body ++ t ++ e) = (47 :: 42 :: body) ++ (t ++ e) := by simp
    rw [this, show body.length + 2 = (47 :: 42 :: body).length by simp, List.drop_left]

theorem skip_stepE {e : Text} {m : Text → Option Nat} (hm : TakesE e m) {s : St}
    (hs : EInv e s.rest) :
    out (skip m s).2 = out s ∧ EInv e (skip m s).2.rest ∧
      (skip m s).2.rest.length ≤ s.rest.length ∧
      ((skip m s).1 = true → (skip m s).2.rest.length < s.rest.length) ∧
      ((skip m s).1 = false → (skip m s).2 = s ∧ m s.rest = none) := by
  cases hms : m s.rest with
  | none =>
    have e1 : skip m s = (false, s) := by simp [skip, hms]
    rw [e1]
    exact ⟨rfl, hs, Nat.le_refl _, by simp, fun _ => ⟨rfl, rfl⟩⟩
  | some n =>
    have e1 : skip m s = (true, { (s.adv n) with start := (s.adv n).pos }) := by simp [skip, hms]
    rw [e1]
    rcases hs with h0 | ⟨ws, hw, hr⟩
    · rw [h0, hm.1] at hms; cases hms
    · obtain ⟨hpos, hle, hinv⟩ := hm.2 ws n hw (by rw [← hr]; exact hms)
      rw [← hr] at hle hinv
      refine ⟨rfl, by simpa using hinv, by simp, ?_, by simp⟩
      intro _
      simp only [adv_rest, List.length_drop]
      omega

theorem skipTriviaN_end {e : Text} (he : EndLC e) : ∀ (n : Nat) (s : St), EInv e s.rest →
    s.rest.length < n → (skipTriviaN n s).rest = [] ∧ out (skipTriviaN n s) = out s := by
  intro n
  induction n with
  | zero => intro s _ h; omega
  | succ k ih =>
    intro s hs hn
    obtain ⟨o1, i1, l1, lt1, eq1⟩ := skip_stepE (takesE_ws he) hs
    obtain ⟨o2, i2, l2, lt2, eq2⟩ := skip_stepE (takesE_lc he) i1
    obtain ⟨o3, i3, l3, lt3, eq3⟩ := skip_stepE (takesE_bc he) i2
    rw [skipTriviaN_succ, triviaRound_eq]
    simp only
    generalize skip mWhitespace s = p1 at *
    generalize skip mLineComment p1.2 = p2 at *
    generalize skip mBlockComment p2.2 = p3 at *
    by_cases hany : (p1.1 || p2.1 || p3.1) = true
    · simp only [hany, ↓reduceIte]
      have hlt : p3.2.rest.length < s.rest.length := by
        simp only [Bool.or_eq_true] at hany
        rcases hany with (h | h) | h
        · have := lt1 h; omega
        · have := lt2 h; omega
        · have := lt3 h; omega
      obtain ⟨hr, ho⟩ := ih p3.2 i3 (by omega)
      exact ⟨hr, by rw [ho, o3, o2, o1]⟩
    · simp only [hany, Bool.false_eq_true, ↓reduceIte]
      simp only [Bool.or_eq_true, not_or, Bool.not_eq_true] at hany
      obtain ⟨⟨h1, h2⟩, h3⟩ := hany
      obtain ⟨e1, n1⟩ := eq1 h1
      obtain ⟨e2, n2⟩ := eq2 h2
      obtain ⟨e3, n3⟩ := eq3 h3
      rw [e3, e2, e1]
      rw [e1] at n2
      rw [e2, e1] at n3
      refine ⟨?_, rfl⟩
      rcases hs with h0 | ⟨ws, hw, hr⟩
      · exact h0
      · exfalso
        by_cases hne : ws = []
        · subst hne
          rw [hr, List.nil_append, he.lc] at n2
          cases n2
        · rw [hr] at n1 n2 n3
          rcases trivia_progress (tl := e) hw hne with h | h | h
          · exact h n1
          · exact h n2
          · exact h n3

/-- `F` is trivia followed by the end of the text -/
def TrE (F : Text) : Prop := ∃ ws e, IsTrivia ws ∧ EndC e ∧ F = ws ++ e

theorem TrE.mk {ws e : Text} (hw : IsTrivia ws) (he : EndC e) : TrE (ws ++ e) := ⟨ws, e, hw, he, rfl⟩

theorem TrE.of_tr {F e : Text} (h : Tr F e) (he : EndC e) : TrE F := by
  obtain ⟨ws, hw, rfl⟩ := h
  exact ⟨ws, e, hw, he, rfl⟩

theorem endC_nil : EndC [] := .inl rfl

/-- `skip_trivia` on trivia followed by the end of the text: everything goes -/
theorem skipTrivia_end {s : St} (hs : TrE s.rest) :
    (skipTrivia s).rest = [] ∧ out (skipTrivia s) = out s := by
  obtain ⟨ws, e, hw, he, hr⟩ := hs
  rcases he with rfl | ⟨r, rfl, h1, h2, h3⟩
  · exact skipTrivia_trivia hr hw stop_nil
  · exact skipTriviaN_end (endLC_of h1 h2 h3) _ s (.inr ⟨ws, hw, hr⟩) (by omega)

theorem sp_triv_end {F : Text} (h : TrE F) : Sp triv F () [] [] := by
  intro s hs
  obtain ⟨h1, h2⟩ := skipTrivia_end (s := s) (by rw [hs]; exact h)
  exact ⟨skipTrivia s, rfl, h1, by simp [h2]⟩

end IA
end Front
end Pest
