/-
  Lemmas/Frame.lean — the checkpoint discipline of `ParserState`, as the refinement proofs
  use it.

  `Pre c`     what every call of an expression can rely on: both stacks are well-formed
              (C09's invariant), we are inside some rule, the atomic depth is not negative.
  `Frame c c'` what every call guarantees, *whether it matched or not*: the saved
              checkpoints of all four components are untouched, the rule stack and the
              atomic depth are back to what they were, the stacks are still well-formed.
              (The current position and user stack are unconstrained: after a failure they
              are garbage until a catcher restores.)
  Three lemmas carry the discipline: `checkpoint` then a framed run then `ok` is a framed
  run; `checkpoint`, framed run, `restore` gives back exactly the position, user stack, rule
  stack and atomic depth of the start (`restore_after`).
-/
import PestModel.Spec
import PestModel.Lemmas.State

namespace Pest
open DStack

/-- what L0 sees of a parser state -/
def abs0 (c : PState) : S0 := ⟨c.pos, c.ustack.items, decide (c.adepth.val > 0)⟩

structure Pre (c : PState) : Prop where
  iu : Inv c.ustack
  ir : Inv c.rstack
  rne : c.rstack.items ≠ []
  anon : 0 ≤ c.adepth.val

/-- `Pre` without "inside some rule": what holds of a fresh `ParserState` -/
structure PreW (c : PState) : Prop where
  iu : Inv c.ustack
  ir : Inv c.rstack
  anon : 0 ≤ c.adepth.val

theorem Pre.weak {c : PState} (p : Pre c) : PreW c := ⟨p.iu, p.ir, p.anon⟩

theorem preW_init (k : Nat) : PreW (PState.init k) :=
  ⟨inv_empty, inv_empty, by simp [PState.init, SnapInt.zero0]⟩

structure Frame (c c' : PState) : Prop where
  ph : c'.posHist = c.posHist
  us : snapsOf c'.ustack = snapsOf c.ustack
  rs : snapsOf c'.rstack = snapsOf c.rstack
  as : c'.adepth.snaps = c.adepth.snaps
  av : c'.adepth.val = c.adepth.val
  ri : c'.rstack.items = c.rstack.items
  iu : Inv c'.ustack
  ir : Inv c'.rstack

namespace Frame

theorem refl {c : PState} (h : Pre c) : Frame c c :=
  ⟨rfl, rfl, rfl, rfl, rfl, rfl, h.iu, h.ir⟩

theorem trans {a b c : PState} (h1 : Frame a b) (h2 : Frame b c) : Frame a c :=
  ⟨h2.ph.trans h1.ph, h2.us.trans h1.us, h2.rs.trans h1.rs, h2.as.trans h1.as,
   h2.av.trans h1.av, h2.ri.trans h1.ri, h2.iu, h2.ir⟩

theorem pre {c c' : PState} (h : Frame c c') (p : Pre c) : Pre c' :=
  ⟨h.iu, h.ir, by rw [h.ri]; exact p.rne, by rw [h.av]; exact p.anon⟩

/-- a state that differs from `c` only outside the framed components -/
theorem of_same {c c' : PState} (p : Pre c) (h1 : c'.posHist = c.posHist)
    (h2 : c'.ustack = c.ustack) (h3 : c'.rstack = c.rstack) (h4 : c'.adepth = c.adepth) :
    Frame c c' :=
  ⟨h1, by rw [h2], by rw [h3], by rw [h4], by rw [h4], by rw [h3], by rw [h2]; exact p.iu,
   by rw [h3]; exact p.ir⟩

theorem setTag {c d : PState} (f : Frame c d) (ts : List String) :
    Frame c { d with tagStack := ts } :=
  ⟨f.ph, f.us, f.rs, f.as, f.av, f.ri, f.iu, f.ir⟩

end Frame

/-! ### `fail()` touches only the failure record -/

theorem failRecord_same (c : PState) (name : String) (p : Nat) :
    (c.failRecord name p).pos = c.pos ∧ (c.failRecord name p).posHist = c.posHist ∧
    (c.failRecord name p).ustack = c.ustack ∧ (c.failRecord name p).rstack = c.rstack ∧
    (c.failRecord name p).adepth = c.adepth ∧ (c.failRecord name p).negDepth = c.negDepth ∧
    (c.failRecord name p).tagStack = c.tagStack ∧ (c.failRecord name p).suppress = c.suppress := by
  unfold PState.failRecord
  by_cases h1 : (p : Int) > c.fpos
  · simp [h1]
  · by_cases h2 : (p : Int) = c.fpos
    · by_cases h3 : (c.negDepth % 2 == 1) = true <;> simp [h2, h3]
    · simp [h1, h2]

theorem fail_same {c c' : PState} {rn : Option String} {force : Bool} {pa : Option Nat}
    (h : c.fail rn force pa = some c') :
    c'.pos = c.pos ∧ c'.posHist = c.posHist ∧ c'.ustack = c.ustack ∧ c'.rstack = c.rstack ∧
    c'.adepth = c.adepth ∧ c'.negDepth = c.negDepth ∧ c'.tagStack = c.tagStack ∧
    c'.suppress = c.suppress := by
  unfold PState.fail at h
  by_cases hs : ((c.negDepth > 0 && !force) || c.suppress) = true
  · simp only [hs, ↓reduceIte, Option.some.injEq] at h; subst h; simp
  · simp only [hs] at h
    cases hn : c.failName rn with
    | none => simp [hn] at h
    | some nm =>
      simp [hn] at h
      subst h
      exact failRecord_same c nm _

theorem fail_isSome {c : PState} (hne : c.rstack.items ≠ []) (rn : Option String) (force : Bool) :
    ∃ c', c.fail rn force = some c' := by
  have hh : ∃ n, c.rstack.items.head? = some n := by
    cases hi : c.rstack.items with
    | nil => exact absurd hi hne
    | cons x _ => exact ⟨x, rfl⟩
  obtain ⟨n, hn⟩ := hh
  have : ∃ nm, c.failName rn = some nm := by
    unfold PState.failName
    cases rn with
    | none => exact ⟨n, hn⟩
    | some m => by_cases hm : m.isEmpty = true <;> simp [hm, hn]
  obtain ⟨nm, hnm⟩ := this
  unfold PState.fail
  by_cases hs : ((c.negDepth > 0 && !force) || c.suppress) = true
  · exact ⟨c, by simp [hs]⟩
  · exact ⟨c.failRecord nm (c.failPos none), by simp [hs, hnm]⟩

theorem fail_frame {c c' : PState} {rn : Option String} {force : Bool} {pa : Option Nat}
    (p : Pre c) (h : c.fail rn force pa = some c') : Frame c c' ∧ abs0 c' = abs0 c := by
  obtain ⟨h0, h1, h2, h3, h4, h5, _, _⟩ := fail_same h
  exact ⟨Frame.of_same p h1 h2 h3 h4, by simp [abs0, h0, h2, h4]⟩

/-! ### checkpoint / ok / restore -/

theorem abs0_checkpoint (c : PState) : abs0 c.checkpoint = abs0 c := rfl

theorem pre_checkpoint {c : PState} (p : Pre c) : Pre c.checkpoint :=
  ⟨inv_snapshot _ p.iu, inv_snapshot _ p.ir, p.rne, p.anon⟩

/-- after `checkpoint` and any framed run, `ok` yields a state framed w.r.t. the start and
    leaves what L0 sees unchanged -/
theorem ok_after {c c1 : PState} (f : Frame c.checkpoint c1) :
    Frame c c1.ok ∧ abs0 c1.ok = abs0 c1 := by
  constructor
  · refine ⟨?_, ?_, ?_, ?_, ?_, ?_, ?_, ?_⟩
    · simp [PState.ok, f.ph, PState.checkpoint]
    · simp only [PState.ok]
      rw [snapsOf_dropSnap _ f.iu, f.us]; simp [PState.checkpoint, snapsOf_snapshot]
    · simp only [PState.ok]
      rw [snapsOf_dropSnap _ f.ir, f.rs]; simp [PState.checkpoint, snapsOf_snapshot]
    · simp [PState.ok, SnapInt.drop, f.as, PState.checkpoint, SnapInt.snapshot]
    · simp [PState.ok, SnapInt.drop, f.av, PState.checkpoint, SnapInt.snapshot]
    · simp [PState.ok, dropSnap_items, f.ri, PState.checkpoint, snapshot_items]
    · exact inv_dropSnap _ f.iu
    · exact inv_dropSnap _ f.ir
  · simp [abs0, PState.ok, dropSnap_items, SnapInt.drop]

theorem lengths_ne_of_snaps {α} {d : DStack α} {x : List α} {xs : List (List α)}
    (h : snapsOf d = x :: xs) : d.lengths ≠ [] := by
  intro e
  have := snapsOf_length d
  rw [h, e] at this
  simp at this

/-- after `checkpoint` and any framed run — however it ended —, `restore` gives back exactly
    the position, user stack, rule stack and atomic depth of the start -/
theorem restore_after {c c1 : PState} (f : Frame c.checkpoint c1) :
    Frame c c1.restore ∧ abs0 c1.restore = abs0 c := by
  have hu : snapsOf c1.ustack = c.ustack.items :: snapsOf c.ustack := by
    rw [f.us]; simp [PState.checkpoint, snapsOf_snapshot]
  have hr : snapsOf c1.rstack = c.rstack.items :: snapsOf c.rstack := by
    rw [f.rs]; simp [PState.checkpoint, snapsOf_snapshot]
  have hul := lengths_ne_of_snaps hu
  have hrl := lengths_ne_of_snaps hr
  rw [snapsOf_cons _ hul] at hu
  rw [snapsOf_cons _ hrl] at hr
  simp only [List.cons.injEq] at hu hr
  have ha : c1.adepth.snaps = c.adepth.val :: c.adepth.snaps := by
    rw [f.as]; simp [PState.checkpoint, SnapInt.snapshot]
  have hp : c1.posHist = c.pos :: c.posHist := by
    rw [f.ph]; simp [PState.checkpoint]
  constructor
  · refine ⟨?_, ?_, ?_, ?_, ?_, ?_, ?_, ?_⟩
    · simp [PState.restore, hp]
    · simp [PState.restore, hu.2]
    · simp [PState.restore, hr.2]
    · simp [PState.restore, SnapInt.restore, ha]
    · simp [PState.restore, SnapInt.restore, ha]
    · simp [PState.restore, hr.1]
    · exact inv_restore _ f.iu
    · exact inv_restore _ f.ir
  · simp [abs0, PState.restore, hp, hu.1, SnapInt.restore, ha]

end Pest
