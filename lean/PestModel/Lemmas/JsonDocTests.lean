/-
  Lemmas/JsonDocTests.lean — values and documents of tests/grammars/json.pest under the
  specification L0 (stage 2/3 of C17's JSON half for the second bundled grammar).

  The container lemmas are those of Lemmas/JsonDoc.lean (generic in the flavour); what differs
  is the rule table: `value` is a normal rule (every value is wrapped in a `value` pair) whose
  alternatives stand in the order string | number | object | array | bool | null, the
  non-empty alternative of `object` / `array` comes first, and
  `json = { SOI ~ value ~ EOI }` is a normal rule as well.
-/
import PestModel.Lemmas.JsonDoc

namespace Pest
namespace Json
open L0

variable {g : Grammar} {inp : Input}

def tArrayBody : Expr :=
  .choice [(.seq [(.str [91]), (.ident "value" none), (.rep commaValue), (.str [93])]),
    (.seq [(.str [91]), (.str [93])])]
def tObjectBody : Expr :=
  .choice [(.seq [(.str [123]), (.ident "pair" none), (.rep commaPair), (.str [125])]),
    (.seq [(.str [123]), (.str [125])])]
def tValueBody : Expr :=
  .choice [(.ident "string" none), (.ident "number" none), (.ident "object" none), (.ident "array" none),
    (.ident "bool" none), (.ident "null" none)]
def tJsonBody : Expr := .seq [(.rule "SOI" 2 true .soiB), (.ident "value" none), (.ident "EOI" none)]

/-- the whole rule table of tests/grammars/json.pest (Props/C17.lean: the regenerated table) -/
structure TDocRules (g : Grammar) : Prop where
  ws : WsRules g
  strs : TStringRules g
  nums : TNumberRules g
  object : g.lookup "object" = some { name := "object", mod := 0, body := tObjectBody, kind := .grammar }
  array : g.lookup "array" = some { name := "array", mod := 0, body := tArrayBody, kind := .grammar }
  pair : g.lookup "pair" = some { name := "pair", mod := 0, body := exPairBody, kind := .grammar }
  value : g.lookup "value" = some { name := "value", mod := 0, body := tValueBody, kind := .grammar }
  bool : g.lookup "bool" = some { name := "bool", mod := 0, body := exBooleanBody, kind := .grammar }
  null : g.lookup "null" = some { name := "null", mod := 0, body := exNullBody, kind := .grammar }
  json : g.lookup "json" = some { name := "json", mod := 0, body := tJsonBody, kind := .grammar }
  eoi : g.lookup "EOI" = some { name := "EOI", mod := 0, body := .eoiB, kind := .builtin }

/-! ### alternatives that do not apply fail on the first character -/

section alts
variable (hg : TDocRules g) {s : S0} {c : CP} {r : Str} (h : RestAt inp s.pos (c :: r))
include hg h

theorem ev_tString_fail (hc : c ≠ 34) : Ev g inp (.ident "string" none) s .fail := by
  obtain ⟨k, hl⟩ := hg.strs.string
  exact ev_ident_fail (tag := none) hl (ev_seq (evSeq_fail (ev_lit_fail (s := { s with atomic := _ }) h hc)))

theorem ev_tNumber_fail (hc : c ≠ 45 ∧ ¬ IsDigit c) : Ev g inp (.ident "number" none) s .fail := by
  obtain ⟨k, hl⟩ := hg.nums.number
  obtain ⟨k', hli⟩ := hg.nums.int
  apply ev_ident_fail (tag := none) hl
  have hat : ruleAtomic "number" 4 s.atomic = true := atomic_enter _ _
  let sa : S0 := { s with atomic := ruleAtomic "number" 4 s.atomic }
  have h' : RestAt inp sa.pos (c :: r) := h
  have h1 : Ev g inp (.opt (.str [45])) sa (.ok sa []) := ev_opt_none (ev_lit_fail h' hc.1)
  have h48 : c ≠ 48 := fun e => hc.2 (by subst e; unfold IsDigit; decide)
  have hnz : Ev g inp NZDIGIT { sa with atomic := ruleAtomic "int" 4 sa.atomic } .fail :=
    ev_silent_range_fail (s := { sa with atomic := _ }) h'
      (show ¬ (49 ≤ c ∧ c ≤ 57) from fun e => hc.2 (by unfold IsDigit; cp_omega))
  have h2 : Ev g inp (.ident "int" none) sa .fail :=
    ev_ident_fail (tag := none) hli
      (ev_choice_next (ev_lit_fail (s := { sa with atomic := _ }) h' h48)
        (ev_choice_next (ev_seq (evSeq_fail hnz)) ev_choice_nil))
  exact ev_seq (evSeq_cons h1 (evSkip_atomic hat) (evSeq_fail h2))

theorem ev_tObject_fail (hc : c ≠ 123) : Ev g inp (.ident "object" none) s .fail :=
  ev_plain_fail hg.object (Or.inl rfl) (by decide)
    (ev_choice_next (ev_seq (evSeq_fail (ev_lit_fail h hc)))
      (ev_choice_next (ev_seq (evSeq_fail (ev_lit_fail h hc))) ev_choice_nil))

theorem ev_tArray_fail (hc : c ≠ 91) : Ev g inp (.ident "array" none) s .fail :=
  ev_plain_fail hg.array (Or.inl rfl) (by decide)
    (ev_choice_next (ev_seq (evSeq_fail (ev_lit_fail h hc)))
      (ev_choice_next (ev_seq (evSeq_fail (ev_lit_fail h hc))) ev_choice_nil))

theorem ev_tBool_fail (hc : c ≠ 116 ∧ c ≠ 102) : Ev g inp (.ident "bool" none) s .fail :=
  ev_plain_fail hg.bool (Or.inl rfl) (by decide)
    (ev_choice_next (ev_lit_fail h hc.1) (ev_choice_next (ev_lit_fail h hc.2) ev_choice_nil))

theorem ev_tNull_fail (hc : c ≠ 110) : Ev g inp (.ident "null" none) s .fail :=
  ev_plain_fail hg.null (Or.inl rfl) (by decide) (ev_lit_fail h hc)

/-- no value starts with `]` -/
theorem ev_tValue_fail_close (hc : c = 93) : Ev g inp (.ident "value" none) s .fail := by
  subst hc
  have nd : ¬ IsDigit 93 := by unfold IsDigit; cp_omega
  exact ev_plain_fail hg.value (Or.inl rfl) (by decide)
    (ev_choice_next (ev_tString_fail hg h (by decide)) (ev_choice_next (ev_tNumber_fail hg h ⟨by decide, nd⟩)
      (ev_choice_next (ev_tObject_fail hg h (by decide)) (ev_choice_next (ev_tArray_fail hg h (by decide))
        (ev_choice_next (ev_tBool_fail hg h ⟨by decide, by decide⟩)
          (ev_choice_next (ev_tNull_fail hg h (by decide)) ev_choice_nil))))))

end alts

/-- tests/grammars/json.pest provides what the container lemmas need -/
theorem tCore (hg : TDocRules g) : CoreRules g inp .tests :=
  ⟨hg.ws, hg.pair, fun s cs _ h => ev_tString hg.strs s cs h, fun _ _ _ h hc => ev_tString_fail hg h hc⟩

/-- `value` is a normal rule: whatever alternative matched is wrapped in a `value` pair -/
theorem ev_tValue_of_body (hg : TDocRules g) {s s' : S0} {p : Pair}
    (hb : Ev g inp tValueBody s (.ok s' [p])) (hat : s'.atomic = s.atomic) :
    Ev g inp (.ident "value" none) s (.ok s' [mkPair "value" 0 s.pos s'.pos [p]]) :=
  ev_plain_ok hg.value (by decide) hb hat

/-! ### scalar values -/

theorem ev_tValue_null (hg : TDocRules g) {s : S0} {r : Str} (h : RestAt inp s.pos (Val.null.text ++ r)) :
    Ev g inp (.ident "value" none) s (.ok (adv s Val.null.text.length) [vPair .tests .null s.pos]) := by
  have h' : RestAt inp s.pos (110 :: ([117, 108, 108] ++ r)) := h
  have hn := ev_plain_ok (s := s) hg.null (by decide) (ev_lit_ok (x := [110, 117, 108, 108]) (by simp) h) (by simp)
  have nd : ¬ IsDigit 110 := by unfold IsDigit; cp_omega
  exact ev_tValue_of_body hg
    (ev_choice_next (ev_tString_fail hg h' (by decide)) (ev_choice_next (ev_tNumber_fail hg h' ⟨by decide, nd⟩)
      (ev_choice_next (ev_tObject_fail hg h' (by decide)) (ev_choice_next (ev_tArray_fail hg h' (by decide))
        (ev_choice_next (ev_tBool_fail hg h' ⟨by decide, by decide⟩) (ev_choice_ok hn)))))) (by simp)

theorem ev_tValue_true (hg : TDocRules g) {s : S0} {r : Str} (h : RestAt inp s.pos (Val.tt.text ++ r)) :
    Ev g inp (.ident "value" none) s (.ok (adv s Val.tt.text.length) [vPair .tests .tt s.pos]) := by
  have h' : RestAt inp s.pos (116 :: ([114, 117, 101] ++ r)) := h
  have hb : Ev g inp exBooleanBody s (.ok (adv s 4) []) :=
    ev_choice_ok (ev_lit_ok (x := [116, 114, 117, 101]) (by simp) h)
  have hn := ev_plain_ok (s := s) hg.bool (by decide) hb (by simp)
  have nd : ¬ IsDigit 116 := by unfold IsDigit; cp_omega
  exact ev_tValue_of_body hg
    (ev_choice_next (ev_tString_fail hg h' (by decide)) (ev_choice_next (ev_tNumber_fail hg h' ⟨by decide, nd⟩)
      (ev_choice_next (ev_tObject_fail hg h' (by decide)) (ev_choice_next (ev_tArray_fail hg h' (by decide))
        (ev_choice_ok hn))))) (by simp)

theorem ev_tValue_false (hg : TDocRules g) {s : S0} {r : Str} (h : RestAt inp s.pos (Val.ff.text ++ r)) :
    Ev g inp (.ident "value" none) s (.ok (adv s Val.ff.text.length) [vPair .tests .ff s.pos]) := by
  have h' : RestAt inp s.pos (102 :: ([97, 108, 115, 101] ++ r)) := h
  have hb : Ev g inp exBooleanBody s (.ok (adv s 5) []) :=
    ev_choice_next (ev_lit_fail h' (by decide)) (ev_choice_ok (ev_lit_ok (x := [102, 97, 108, 115, 101]) (by simp) h))
  have hn := ev_plain_ok (s := s) hg.bool (by decide) hb (by simp)
  have nd : ¬ IsDigit 102 := by unfold IsDigit; cp_omega
  exact ev_tValue_of_body hg
    (ev_choice_next (ev_tString_fail hg h' (by decide)) (ev_choice_next (ev_tNumber_fail hg h' ⟨by decide, nd⟩)
      (ev_choice_next (ev_tObject_fail hg h' (by decide)) (ev_choice_next (ev_tArray_fail hg h' (by decide))
        (ev_choice_ok hn))))) (by simp)

theorem ev_tValue_num (hg : TDocRules g) {s : S0} (n : Num) {r : Str}
    (h : RestAt inp s.pos ((Val.num n).text ++ r)) (hf : HeadIs ValFollow r) :
    Ev g inp (.ident "value" none) s (.ok (adv s (Val.num n).text.length) [vPair .tests (.num n) s.pos]) := by
  obtain ⟨c, t, hc, hs⟩ := numText_head n
  have h0 : RestAt inp s.pos (numText n ++ r) := h
  have h' : RestAt inp s.pos (c :: (t ++ r)) := by rw [hc] at h0; exact h0
  have hn := ev_tNumber (g := g) hg.nums s n h0 (hf.mono fun c h => h.num)
  have c1 : c ≠ 34 := by
    unfold IsDigit at hs
    rcases hs with hs | hs
    · subst hs; decide
    · cp_omega
  exact ev_tValue_of_body hg (ev_choice_next (ev_tString_fail hg h' c1) (ev_choice_ok hn)) (by simp)

theorem ev_tValue_str (hg : TDocRules g) {s : S0} (cs : SStr) {r : Str}
    (h : RestAt inp s.pos ((Val.str cs).text ++ r)) :
    Ev g inp (.ident "value" none) s (.ok (adv s (Val.str cs).text.length) [vPair .tests (.str cs) s.pos]) := by
  have h0 : RestAt inp s.pos (strText cs ++ r) := h
  exact ev_tValue_of_body hg (ev_choice_ok (ev_tString (g := g) hg.strs s cs h0)) (by simp)

/-! ### containers -/

/-- an `object` or `array` pair as a `value`: the earlier alternatives fail on `{` / `[` -/
theorem ev_tValue_of_object (hg : TDocRules g) {s s' : S0} {p : Pair} {r : Str}
    (h : RestAt inp s.pos (123 :: r)) (ho : Ev g inp (.ident "object" none) s (.ok s' [p]))
    (hat : s'.atomic = s.atomic) :
    Ev g inp (.ident "value" none) s (.ok s' [mkPair "value" 0 s.pos s'.pos [p]]) := by
  have nd : ¬ IsDigit 123 := by unfold IsDigit; cp_omega
  exact ev_tValue_of_body hg (ev_choice_next (ev_tString_fail hg h (by decide))
    (ev_choice_next (ev_tNumber_fail hg h ⟨by decide, nd⟩) (ev_choice_ok ho))) hat

theorem ev_tValue_of_array (hg : TDocRules g) {s s' : S0} {p : Pair} {r : Str}
    (h : RestAt inp s.pos (91 :: r)) (ha : Ev g inp (.ident "array" none) s (.ok s' [p]))
    (hat : s'.atomic = s.atomic) :
    Ev g inp (.ident "value" none) s (.ok s' [mkPair "value" 0 s.pos s'.pos [p]]) := by
  have nd : ¬ IsDigit 91 := by unfold IsDigit; cp_omega
  exact ev_tValue_of_body hg (ev_choice_next (ev_tString_fail hg h (by decide))
    (ev_choice_next (ev_tNumber_fail hg h ⟨by decide, nd⟩)
      (ev_choice_next (ev_tObject_fail hg h (by decide)) (ev_choice_ok ha)))) hat

theorem ev_tArray_nonempty (hg : TDocRules g) {es : Elems} (hes : ElemsOk g inp .tests es) {s : S0} {r : Str}
    (hna : s.atomic = false) (h : RestAt inp s.pos ((Val.arr es).text ++ r)) :
    Ev g inp (.ident "array" none) s
      (.ok (adv s (Val.arr es).text.length)
        [mkPair "array" 0 s.pos (s.pos + (Val.arr es).text.length) (es.mirror .tests (s.pos + 1))]) := by
  have h' : RestAt inp s.pos (91 :: (es.text ++ 93 :: r)) := by simpa [Val.text, List.append_assoc] using h
  have hb : Ev g inp tArrayBody s (.ok (adv s (es.text.length + 2)) (es.mirror .tests (s.pos + 1))) :=
    ev_choice_ok (hes s r hna h')
  have := ev_plain_ok (s := s) hg.array (by decide) hb (by simpa using rfl)
  have e : (Val.arr es).text.length = es.text.length + 2 := by simp [Val.text]
  rw [e]
  simpa [mkPair, Nat.add_assoc] using this

theorem ev_tArray_empty (hg : TDocRules g) (w : Ws) {s : S0} {r : Str}
    (hna : s.atomic = false) (h : RestAt inp s.pos ((Val.arr0 w).text ++ r)) :
    Ev g inp (.ident "array" none) s
      (.ok (adv s (Val.arr0 w).text.length) [mkPair "array" 0 s.pos (s.pos + (Val.arr0 w).text.length) []]) := by
  have h' : RestAt inp s.pos (91 :: (wsText w ++ 93 :: r)) := by simpa [Val.text, List.append_assoc] using h
  have h1 := ev_str1_ok (g := g) h'
  have hsk := evSkip_ws hg.ws (s := adv s 1) (by simpa using hna) w (r := 93 :: r) (by simpa using h'.tail)
    (show ¬ IsWs 93 from not_ws_struct (Or.inr (Or.inl rfl)))
  have hr2 : RestAt inp (adv (adv s 1) w.length).pos (93 :: r) := by
    have := (h'.tail).advance; simpa [Nat.add_assoc] using this
  have alt1 : Ev g inp (.seq [(.str [91]), (.ident "value" none), (.rep commaValue), (.str [93])]) s .fail :=
    ev_seq (evSeq_cons h1 hsk (evSeq_fail (ev_tValue_fail_close hg hr2 rfl)))
  have h2 := ev_str1_ok (g := g) hr2
  have hb : Ev g inp tArrayBody s (.ok (adv (adv (adv s 1) w.length) 1) []) :=
    ev_choice_next alt1 (ev_choice_ok (by simpa using ev_seq (evSeq_cons h1 hsk (evSeq_last h2))))
  have := ev_plain_ok (s := s) hg.array (by decide) hb (by simp)
  have e : adv s (Val.arr0 w).text.length = adv (adv (adv s 1) w.length) 1 := by
    simp only [adv_adv]; exact adv_congr s (by simp [Val.text]; omega)
  rw [e]
  simpa [mkPair, Val.text, Nat.add_assoc, Nat.add_comm 1] using this

theorem ev_tObject_nonempty (hg : TDocRules g) {ms : Members} (hms : MembersOk g inp .tests ms) {s : S0} {r : Str}
    (hna : s.atomic = false) (h : RestAt inp s.pos ((Val.obj ms).text ++ r)) :
    Ev g inp (.ident "object" none) s
      (.ok (adv s (Val.obj ms).text.length)
        [mkPair "object" 0 s.pos (s.pos + (Val.obj ms).text.length) (ms.mirror .tests (s.pos + 1))]) := by
  have h' : RestAt inp s.pos (123 :: (ms.text ++ 125 :: r)) := by simpa [Val.text, List.append_assoc] using h
  have hb : Ev g inp tObjectBody s (.ok (adv s (ms.text.length + 2)) (ms.mirror .tests (s.pos + 1))) :=
    ev_choice_ok (hms s r hna h')
  have := ev_plain_ok (s := s) hg.object (by decide) hb (by simpa using rfl)
  have e : (Val.obj ms).text.length = ms.text.length + 2 := by simp [Val.text]
  rw [e]
  simpa [mkPair, Nat.add_assoc] using this

theorem ev_tObject_empty (hg : TDocRules g) (w : Ws) {s : S0} {r : Str}
    (hna : s.atomic = false) (h : RestAt inp s.pos ((Val.obj0 w).text ++ r)) :
    Ev g inp (.ident "object" none) s
      (.ok (adv s (Val.obj0 w).text.length) [mkPair "object" 0 s.pos (s.pos + (Val.obj0 w).text.length) []]) := by
  have h' : RestAt inp s.pos (123 :: (wsText w ++ 125 :: r)) := by simpa [Val.text, List.append_assoc] using h
  have h1 := ev_str1_ok (g := g) h'
  have hsk := evSkip_ws hg.ws (s := adv s 1) (by simpa using hna) w (r := 125 :: r) (by simpa using h'.tail)
    (show ¬ IsWs 125 from not_ws_struct (Or.inr (Or.inr (Or.inl rfl))))
  have hr2 : RestAt inp (adv (adv s 1) w.length).pos (125 :: r) := by
    have := (h'.tail).advance; simpa [Nat.add_assoc] using this
  have alt1 : Ev g inp (.seq [(.str [123]), (.ident "pair" none), (.rep commaPair), (.str [125])]) s .fail :=
    ev_seq (evSeq_cons h1 hsk (evSeq_fail (ev_pair_fail (tCore hg) hr2 (by decide))))
  have h2 := ev_str1_ok (g := g) hr2
  have hb : Ev g inp tObjectBody s (.ok (adv (adv (adv s 1) w.length) 1) []) :=
    ev_choice_next alt1 (ev_choice_ok (by simpa using ev_seq (evSeq_cons h1 hsk (evSeq_last h2))))
  have := ev_plain_ok (s := s) hg.object (by decide) hb (by simp)
  have e : adv s (Val.obj0 w).text.length = adv (adv (adv s 1) w.length) 1 := by
    simp only [adv_adv]; exact adv_congr s (by simp [Val.text]; omega)
  rw [e]
  simpa [mkPair, Val.text, Nat.add_assoc, Nat.add_comm 1] using this

/-! ### every value -/

mutual
theorem tval_ok (hg : TDocRules g) : ∀ v : Val, ValOk g inp .tests v
  | .null => fun s r _ h _ => ev_tValue_null hg h
  | .tt => fun s r _ h _ => ev_tValue_true hg h
  | .ff => fun s r _ h _ => ev_tValue_false hg h
  | .num n => fun s r _ h hf => ev_tValue_num hg n h hf
  | .str cs => fun s r _ h _ => ev_tValue_str hg cs h
  | .arr0 w => fun s r hna h _ => by
    have := ev_tValue_of_array hg (r := wsText w ++ [93] ++ r) (by simpa [Val.text] using h)
      (ev_tArray_empty hg w hna h) (by simp)
    simpa [vPair, Val.mirror, wrapValue, mkPair, Val.text, Nat.add_assoc] using this
  | .arr es => fun s r hna h _ => by
    have := ev_tValue_of_array hg (r := es.text ++ [93] ++ r) (by simpa [Val.text] using h)
      (ev_tArray_nonempty hg (telems_ok hg es).1 hna h) (by simp)
    simpa [vPair, Val.mirror, wrapValue, mkPair, Val.text, Nat.add_assoc] using this
  | .obj0 w => fun s r hna h _ => by
    have := ev_tValue_of_object hg (r := wsText w ++ [125] ++ r) (by simpa [Val.text] using h)
      (ev_tObject_empty hg w hna h) (by simp)
    simpa [vPair, Val.mirror, wrapValue, mkPair, Val.text, Nat.add_assoc] using this
  | .obj ms => fun s r hna h _ => by
    have := ev_tValue_of_object hg (r := ms.text ++ [125] ++ r) (by simpa [Val.text] using h)
      (ev_tObject_nonempty hg (tmembers_ok hg ms).1 hna h) (by simp)
    simpa [vPair, Val.mirror, wrapValue, mkPair, Val.text, Nat.add_assoc] using this
theorem telems_ok (hg : TDocRules g) : ∀ es : Elems, ElemsOk g inp .tests es ∧ RepOkE g inp .tests es
  | .one w1 v w2 => ⟨elemsOk_one (tCore hg) (tval_ok hg v) w1 w2, repOk_one (tCore hg) (tval_ok hg v) w1 w2⟩
  | .cons w1 v w2 rest =>
    ⟨elemsOk_cons (tCore hg) (tval_ok hg v) w1 w2 (telems_ok hg rest).2,
      repOk_cons (tCore hg) (tval_ok hg v) w1 w2 (telems_ok hg rest).2⟩
theorem tmembers_ok (hg : TDocRules g) : ∀ ms : Members, MembersOk g inp .tests ms ∧ RepOkM g inp .tests ms
  | .one w1 k w2 w3 v w4 =>
    ⟨membersOk_one (tCore hg) (tval_ok hg v) w1 k w2 w3 w4, repOkM_one (tCore hg) (tval_ok hg v) w1 k w2 w3 w4⟩
  | .cons w1 k w2 w3 v w4 rest =>
    ⟨membersOk_cons (tCore hg) (tval_ok hg v) w1 k w2 w3 w4 (tmembers_ok hg rest).2,
      repOkM_cons (tCore hg) (tval_ok hg v) w1 k w2 w3 w4 (tmembers_ok hg rest).2⟩
end

/-! ### documents -/

/-- the body of `json = { SOI ~ value ~ EOI }` on a whole document (any top-level value: this
    grammar does not restrict the top level to containers) -/
theorem ev_tJsonBody (hg : TDocRules g) (d : Doc) (hinp : inp = (render d).toArray) :
    Ev g inp tJsonBody ⟨0, [], false⟩
      (.ok ⟨(render d).length, [], false⟩
        [d.v.mirror .tests d.w1.length, mkPair "EOI" 0 (render d).length (render d).length []]) := by
  subst hinp
  let s0 : S0 := ⟨0, [], false⟩
  have hr0 : RestAt (render d).toArray s0.pos (wsText d.w1 ++ (d.v.text ++ (wsText d.w2 ++ []))) := by
    have := restAt_zero (render d)
    simpa [render, s0, List.append_assoc] using this
  obtain ⟨c, t, hcv, hst⟩ := val_text_start d.v
  have hsoi : Ev g (render d).toArray (.rule "SOI" 2 true .soiB) s0 (.ok s0 []) := by
    have := ev_rule_ok (g := g) (inp := (render d).toArray) (name := "SOI") (mod := 2) (sm := true) (body := .soiB)
      (s := s0) (ev_soi (s := { s0 with atomic := ruleAtomic "SOI" 2 s0.atomic }) rfl)
    simpa [silent_wrap, ruleAtomic, hasBit, ATOMIC, COMPOUND, NONATOMIC, L1.isTriviaName, s0] using this
  have hsk1 := evSkip_ws hg.ws (s := s0) rfl d.w1 hr0 (by rw [hcv]; exact hst.not_ws)
  have hr1 : RestAt (render d).toArray (adv s0 d.w1.length).pos (d.v.text ++ (wsText d.w2 ++ [])) := by
    simpa using hr0.advance
  have hfol : HeadIs ValFollow (wsText d.w2 ++ []) := by
    have : HeadIs ValFollow (wsText d.w2) := (wsText_head d.w2).mono fun _ h => Or.inl h
    simpa using this
  have hval := tval_ok hg d.v (adv s0 d.w1.length) (wsText d.w2 ++ []) rfl hr1 hfol
  have hr2 : RestAt (render d).toArray (adv (adv s0 d.w1.length) d.v.text.length).pos (wsText d.w2 ++ []) := by
    have := hr1.advance; simpa using this
  have hsk2 := evSkip_ws hg.ws (s := adv (adv s0 d.w1.length) d.v.text.length) rfl d.w2 hr2 trivial
  let s3 := adv (adv (adv s0 d.w1.length) d.v.text.length) d.w2.length
  have hpos : s3.pos = (render d).toArray.size := by
    simp [s3, s0, render]; omega
  have heoi := ev_plain_ok (s := s3) hg.eoi (by decide) (ev_eoi (g := g) hpos) rfl
  have := ev_seq (evSeq_cons hsoi hsk1 (evSeq_cons hval hsk2 (evSeq_last heoi)))
  have e : (⟨(render d).length, [], false⟩ : S0) = s3 := by
    simp [s3, s0, adv, render]; omega
  rw [e]
  have hrl : (render d).length = d.w1.length + d.v.text.length + d.w2.length := by
    simp [render]; omega
  simpa [tJsonBody, mkPair, vPair, hrl, s0, s3] using this

/-- **stage 3 (tests/grammars/json.pest)**: the specification run of `json` on a whole document -/
theorem parse_tjson_doc (hg : TDocRules g) (d : Doc) :
    ∃ N, ∀ n, N ≤ n →
      L0.parse g (render d).toArray n "json" 0 = .ok ⟨(render d).length, [], false⟩ (mirror .tests d) := by
  obtain ⟨N, h⟩ := ev_tJsonBody (g := g) hg d rfl
  refine ⟨N, fun n hn => ?_⟩
  have hra : ruleAtomic "json" 0 false = false := by
    simp [ruleAtomic, hasBit, ATOMIC, COMPOUND, NONATOMIC, L1.isTriviaName]
  simp [L0.parse, hg.json, ruleApply, hra, h n hn, plain_wrap, mirror, mkPair]

end Json
end Pest
