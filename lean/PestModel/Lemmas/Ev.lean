/-
  Lemmas/Ev.lean — a big-step reading of the specification L0, for proving that a *particular*
  grammar accepts a *particular* family of inputs (C17: the bundled JSON grammars).

  `Ev e s r`      "for all sufficiently large fuel, `run n e s = r`"
  `EvSeq …`       the same for the sequence helper `seqL` (with its accumulator)
  `EvSkip s s' ps` the same for implicit trivia between two elements of a sequence
  `EvRep …`       the same for the repetition loop

  Each constructor of `Expr` that the JSON grammars use gets introduction rules: from the
  meaning of the parts to the meaning of the whole.  Nothing here mentions a grammar; the
  rules are consequences of the definition of `L0.step` and of nothing else (they do not even
  need fuel monotonicity: every premise already holds for *all* large fuels).  `Ev.conv`
  connects to `L0.Conv` of Lemmas/Mono.lean.
-/
import PestModel.Spec
import PestModel.Lemmas.Mono

namespace Pest
namespace L0

variable (g : Grammar) (inp : Input)

/-- for all sufficiently large fuel the answer is `r` -/
def Ev (e : Expr) (s : S0) (r : R0) : Prop := ∃ N, ∀ n, N ≤ n → run g inp n e s = r

variable {g inp}

theorem Ev.conv {e : Expr} {s : S0} {r : R0} (h : Ev g inp e s r) (hr : r ≠ .oof) : Conv g inp e s r := by
  obtain ⟨N, h⟩ := h
  exact ⟨N, h N (Nat.le_refl _), hr⟩

theorem Ev.run {e : Expr} {s : S0} {r : R0} (h : Ev g inp e s r) : ∃ n, L0.run g inp n e s = r := by
  obtain ⟨N, h⟩ := h
  exact ⟨N, h N (Nat.le_refl _)⟩

/-- one unfolding of `run` -/
theorem ev_of_step {e : Expr} {s : S0} {r : R0} (N : Nat)
    (h : ∀ n, N ≤ n → step g inp n (L0.run g inp n) e s = r) : Ev g inp e s r :=
  ⟨N + 1, fun n hn => by
    cases n with
    | zero => omega
    | succ m => exact h m (by omega)⟩

theorem Ev.step {e : Expr} {s : S0} {r : R0} (h : Ev g inp e s r) :
    ∃ N, ∀ n, N ≤ n → step g inp n (L0.run g inp n) e s = r := by
  obtain ⟨N, h⟩ := h
  exact ⟨N, fun n hn => h (n + 1) (by omega)⟩

/-! ### terminals -/

theorem ev_str_ok {x : Str} {s : S0} (h : startsWithAt inp x s.pos = true) :
    Ev g inp (.str x) s (.ok (adv s x.length) []) :=
  ev_of_step 0 fun n _ => by simp [L0.step, h]

theorem ev_str_fail {x : Str} {s : S0} (h : startsWithAt inp x s.pos = false) :
    Ev g inp (.str x) s .fail :=
  ev_of_step 0 fun n _ => by simp [L0.step, h]

theorem ev_ci_ok {x : Str} {s : S0} (h : startsWithAtCI inp x s.pos = true) :
    Ev g inp (.ci x) s (.ok (adv s x.length) []) :=
  ev_of_step 0 fun n _ => by simp [L0.step, h]

theorem ev_ci_fail {x : Str} {s : S0} (h : startsWithAtCI inp x s.pos = false) :
    Ev g inp (.ci x) s .fail :=
  ev_of_step 0 fun n _ => by simp [L0.step, h]

theorem ev_range_ok {a b c : CP} {s : S0} (hc : inp[s.pos]? = some c) (h : a ≤ c ∧ c ≤ b) :
    Ev g inp (.range a b) s (.ok (adv s 1) []) :=
  ev_of_step 0 fun n _ => by simp [L0.step, hc, h.1, h.2]

theorem ev_range_fail {a b : CP} {s : S0} (h : ∀ c, inp[s.pos]? = some c → ¬ (a ≤ c ∧ c ≤ b)) :
    Ev g inp (.range a b) s .fail :=
  ev_of_step 0 fun n _ => by
    simp only [L0.step]
    cases hc : inp[s.pos]? with
    | none => rfl
    | some c =>
      have := h c hc
      by_cases h1 : a ≤ c <;> by_cases h2 : c ≤ b <;> simp_all

theorem ev_any_ok {s : S0} (h : s.pos < inp.size) : Ev g inp .anyB s (.ok (adv s 1) []) :=
  ev_of_step 0 fun n _ => by simp [L0.step, h]

theorem ev_soi {s : S0} (h : s.pos = 0) : Ev g inp .soiB s (.ok s []) :=
  ev_of_step 0 fun n _ => by simp [L0.step, h]

theorem ev_eoi {s : S0} (h : s.pos = inp.size) : Ev g inp .eoiB s (.ok s []) :=
  ev_of_step 0 fun n _ => by simp [L0.step, h]

/-! ### unary nodes -/

theorem ev_group {e : Expr} {t : Option String} {s : S0} {r : R0} (h : Ev g inp e s r) :
    Ev g inp (.group e t) s r := by
  obtain ⟨N, h⟩ := h
  exact ev_of_step N fun n hn => by simp only [L0.step]; exact h n hn

theorem ev_opt_ok {e : Expr} {s s' : S0} {ps : List Pair} (h : Ev g inp e s (.ok s' ps)) :
    Ev g inp (.opt e) s (.ok s' ps) := by
  obtain ⟨N, h⟩ := h
  exact ev_of_step N fun n hn => by simp only [L0.step, h n hn]

theorem ev_opt_none {e : Expr} {s : S0} (h : Ev g inp e s .fail) : Ev g inp (.opt e) s (.ok s []) := by
  obtain ⟨N, h⟩ := h
  exact ev_of_step N fun n hn => by simp only [L0.step, h n hn]

theorem ev_not_ok {e : Expr} {s : S0} (h : Ev g inp e s .fail) : Ev g inp (.notP e) s (.ok s []) := by
  obtain ⟨N, h⟩ := h
  exact ev_of_step N fun n hn => by simp only [L0.step, h n hn]

theorem ev_not_fail {e : Expr} {s s' : S0} {ps : List Pair} (h : Ev g inp e s (.ok s' ps)) :
    Ev g inp (.notP e) s .fail := by
  obtain ⟨N, h⟩ := h
  exact ev_of_step N fun n hn => by simp only [L0.step, h n hn]

/-! ### ordered choice -/

theorem ev_choice_nil {s : S0} : Ev g inp (.choice []) s .fail :=
  ev_of_step 0 fun n _ => by simp [L0.step, choiceL]

theorem ev_choice_ok {e : Expr} {rest : List Expr} {s s' : S0} {ps : List Pair}
    (h : Ev g inp e s (.ok s' ps)) : Ev g inp (.choice (e :: rest)) s (.ok s' ps) := by
  obtain ⟨N, h⟩ := h
  exact ev_of_step N fun n hn => by simp only [L0.step, choiceL, h n hn]

theorem ev_choice_next {e : Expr} {rest : List Expr} {s : S0} {r : R0}
    (h : Ev g inp e s .fail) (h' : Ev g inp (.choice rest) s r) : Ev g inp (.choice (e :: rest)) s r := by
  obtain ⟨N, h⟩ := h
  obtain ⟨N', h'⟩ := h'.step
  exact ev_of_step (max N N') fun n hn => by
    have := h' n (by omega)
    simp only [L0.step] at this
    simp only [L0.step, choiceL, h n (by omega), this]

/-! ### rules -/

theorem ev_ident_ok {name : String} {tag : Option String} {rl : Rule} {s s' : S0} {ps : List Pair}
    (hl : g.lookup name = some rl)
    (h : Ev g inp rl.body { s with atomic := ruleAtomic rl.name rl.mod s.atomic } (.ok s' ps)) :
    Ev g inp (.ident name tag) s (ruleWrap rl.name rl.mod s s' ps) := by
  obtain ⟨N, h⟩ := h
  exact ev_of_step N fun n hn => by simp only [L0.step, callRule, hl, ruleApply, h n hn]

theorem ev_ident_fail {name : String} {tag : Option String} {rl : Rule} {s : S0}
    (hl : g.lookup name = some rl)
    (h : Ev g inp rl.body { s with atomic := ruleAtomic rl.name rl.mod s.atomic } .fail) :
    Ev g inp (.ident name tag) s .fail := by
  obtain ⟨N, h⟩ := h
  exact ev_of_step N fun n hn => by simp only [L0.step, callRule, hl, ruleApply, h n hn]

theorem ev_rule_ok {name : String} {mod : Nat} {sm : Bool} {body : Expr} {s s' : S0} {ps : List Pair}
    (h : Ev g inp body { s with atomic := ruleAtomic name mod s.atomic } (.ok s' ps)) :
    Ev g inp (.rule name mod sm body) s (ruleWrap name mod s s' ps) := by
  obtain ⟨N, h⟩ := h
  exact ev_of_step N fun n hn => by simp only [L0.step, ruleApply, h n hn]

theorem ev_rule_fail {name : String} {mod : Nat} {sm : Bool} {body : Expr} {s : S0}
    (h : Ev g inp body { s with atomic := ruleAtomic name mod s.atomic } .fail) :
    Ev g inp (.rule name mod sm body) s .fail := by
  obtain ⟨N, h⟩ := h
  exact ev_of_step N fun n hn => by simp only [L0.step, ruleApply, h n hn]

/-! ### implicit trivia -/

variable (g inp) in
/-- the trivia skipped between two elements of a sequence, for all large fuel -/
def EvSkip (s s' : S0) (ps : List Pair) : Prop := ∃ N, ∀ n, N ≤ n → skip g (L0.run g inp n) n s = .ok s' ps

theorem evSkip_atomic {s : S0} (h : s.atomic = true) : EvSkip g inp s s [] :=
  ⟨0, fun n _ => by simp [skip, h]⟩

/-! ### sequences -/

variable (g inp) in
def EvSeq (es : List Expr) (s : S0) (acc : List Pair) (r : R0) : Prop :=
  ∃ N, ∀ n, N ≤ n → seqL g (L0.run g inp n) n es s acc = r

theorem ev_seq {es : List Expr} {s : S0} {r : R0} (h : EvSeq g inp es s [] r) : Ev g inp (.seq es) s r := by
  obtain ⟨N, h⟩ := h
  exact ev_of_step N fun n hn => by simp only [L0.step]; exact h n hn

theorem evSeq_nil {s : S0} {acc : List Pair} : EvSeq g inp [] s acc (.ok s acc) :=
  ⟨0, fun n _ => by simp [seqL]⟩

theorem evSeq_last {e : Expr} {s s1 : S0} {acc ps : List Pair} (h : Ev g inp e s (.ok s1 ps)) :
    EvSeq g inp [e] s acc (.ok s1 (acc ++ ps)) := by
  obtain ⟨N, h⟩ := h
  exact ⟨N, fun n hn => by simp [seqL, h n hn]⟩

theorem evSeq_fail {e : Expr} {rest : List Expr} {s : S0} {acc : List Pair} (h : Ev g inp e s .fail) :
    EvSeq g inp (e :: rest) s acc .fail := by
  obtain ⟨N, h⟩ := h
  exact ⟨N, fun n hn => by simp only [seqL, h n hn]⟩

theorem evSeq_cons {e e2 : Expr} {rest : List Expr} {s s1 s2 : S0} {acc ps tps : List Pair} {r : R0}
    (h : Ev g inp e s (.ok s1 ps)) (hs : EvSkip g inp s1 s2 tps)
    (hr : EvSeq g inp (e2 :: rest) s2 (acc ++ ps ++ tps) r) :
    EvSeq g inp (e :: e2 :: rest) s acc r := by
  obtain ⟨N, h⟩ := h
  obtain ⟨N1, hs⟩ := hs
  obtain ⟨N2, hr⟩ := hr
  refine ⟨max N (max N1 N2), fun n hn => ?_⟩
  rw [seqL, h n (by omega)]
  simp only [List.isEmpty_cons, Bool.false_eq_true, if_false]
  rw [hs n (by omega)]
  exact hr n (by omega)

/-- `e+` is `e ~ e*` -/
theorem ev_rep1 {e : Expr} {s : S0} {r : R0} (h : EvSeq g inp [e, .rep e] s [] r) : Ev g inp (.rep1 e) s r := by
  obtain ⟨N, h⟩ := h
  exact ev_of_step N fun n hn => by simp only [L0.step]; exact h n hn

/-- `e{n}` is `e ~ … ~ e` -/
theorem ev_repExact {e : Expr} {k : Nat} {s : S0} {r : R0} (h : EvSeq g inp (List.replicate k e) s [] r) :
    Ev g inp (.repExact e k) s r := by
  obtain ⟨N, h⟩ := h
  exact ev_of_step N fun n hn => by simp only [L0.step]; exact h n hn

/-! ### repetition -/

variable (g inp) in
/-- the loop of `e*`, entered with `first` (no trivia before the first iteration), for all
    large fuel and loop budget -/
def EvRep (e : Expr) (first : Bool) (s : S0) (acc : List Pair) (r : R0) : Prop :=
  ∃ N, ∀ n k, N ≤ n → N ≤ k → repLoop g (L0.run g inp n) e k n first s acc = r

theorem ev_rep {e : Expr} {s : S0} {r : R0} (h : EvRep g inp e true s [] r) : Ev g inp (.rep e) s r := by
  obtain ⟨N, h⟩ := h
  exact ev_of_step N fun n hn => by simp only [L0.step]; exact h n n hn hn

/-- the first iteration fails: nothing is matched -/
theorem evRep_first_stop {e : Expr} {s : S0} {acc : List Pair} (h : Ev g inp e s .fail) :
    EvRep g inp e true s acc (.ok s acc) := by
  obtain ⟨N, h⟩ := h
  refine ⟨N + 1, fun n k hn hk => ?_⟩
  cases k with
  | zero => omega
  | succ k => simp [repLoop, h n (by omega)]

theorem evRep_first_more {e : Expr} {s s2 : S0} {acc ps : List Pair} {r : R0}
    (h : Ev g inp e s (.ok s2 ps)) (hr : EvRep g inp e false s2 (acc ++ ps) r) :
    EvRep g inp e true s acc r := by
  obtain ⟨N, h⟩ := h
  obtain ⟨N', hr⟩ := hr
  refine ⟨max N N' + 1, fun n k hn hk => ?_⟩
  cases k with
  | zero => omega
  | succ k =>
    simp only [repLoop, if_true, h n (by omega), List.append_nil]
    exact hr n k (by omega) (by omega)

/-- a later iteration fails: the trivia skipped before it is given back -/
theorem evRep_stop {e : Expr} {s s1 : S0} {acc tps : List Pair}
    (hs : EvSkip g inp s s1 tps) (h : Ev g inp e s1 .fail) :
    EvRep g inp e false s acc (.ok s acc) := by
  obtain ⟨N, h⟩ := h
  obtain ⟨N1, hs⟩ := hs
  refine ⟨max N N1 + 1, fun n k hn hk => ?_⟩
  cases k with
  | zero => omega
  | succ k => simp [repLoop, hs n (by omega), h n (by omega)]

theorem evRep_more {e : Expr} {s s1 s2 : S0} {acc tps ps : List Pair} {r : R0}
    (hs : EvSkip g inp s s1 tps) (h : Ev g inp e s1 (.ok s2 ps))
    (hr : EvRep g inp e false s2 (acc ++ tps ++ ps) r) :
    EvRep g inp e false s acc r := by
  obtain ⟨N, h⟩ := h
  obtain ⟨N1, hs⟩ := hs
  obtain ⟨N', hr⟩ := hr
  refine ⟨max N (max N1 N') + 1, fun n k hn hk => ?_⟩
  cases k with
  | zero => omega
  | succ k =>
    simp only [repLoop, Bool.false_eq_true, if_false, hs n (by omega), h n (by omega)]
    exact hr n k (by omega) (by omega)

end L0
end Pest
