/-
  Lemmas/Stack.lean — the delta-encoded `DStack` refines the full-copy `RStack`.

  `snapsAux`/`snapsOf` read off, by iterated `restore`, what every pending snapshot would
  restore to; `abs d = ⟨d.items, snapsOf d⟩`.  `InvAux` is the representation invariant
  (it only talks about lengths).  For every operation: the invariant is preserved
  (`inv_apply`) and `abs` commutes with the operation (`abs_apply`).
-/
import PestModel.Stack

namespace Pest
namespace DStack
variable {α : Type}

/-- What the pending snapshots would restore to, innermost first. -/
def snapsAux : List (Nat × Nat) → List α → List α → List (List α)
  | [], _, _ => []
  | (ic, rc) :: ls, items, popped =>
    let items' := (popped.take (ic - rc)).reverse ++ items.drop (items.length - rc)
    items' :: snapsAux ls items' (popped.drop (ic - rc))

def snapsOf (d : DStack α) : List (List α) := snapsAux d.lengths d.items d.popped

/-- abstraction to the full-copy reference -/
def abs (d : DStack α) : RStack α := ⟨d.items, snapsOf d⟩

/-- representation invariant, on (lengths, |items|, |popped|) -/
def InvAux : List (Nat × Nat) → Nat → Nat → Prop
  | [], _, p => p = 0
  | (ic, rc) :: ls, n, p => rc ≤ ic ∧ rc ≤ n ∧ ic - rc ≤ p ∧ InvAux ls ic (p - (ic - rc))

def Inv (d : DStack α) : Prop := InvAux d.lengths d.items.length d.popped.length

theorem InvAux_congr {ls : List (Nat × Nat)} {n p p' : Nat} (h : InvAux ls n p) (e : p = p') :
    InvAux ls n p' := e ▸ h

theorem inv_empty : Inv (empty : DStack α) := by simp [Inv, empty, InvAux]

/-! #### restore -/

theorem restore_nil (d : DStack α) (h : d.lengths = []) :
    d.restore = ⟨[], d.popped, []⟩ := by simp [restore, h]

theorem restore_cons (d : DStack α) (ic rc : Nat) (ls) (h : d.lengths = (ic, rc) :: ls) :
    d.restore = ⟨(d.popped.take (ic - rc)).reverse ++ d.items.drop (d.items.length - rc),
                 d.popped.drop (ic - rc), ls⟩ := by simp [restore, h]

theorem abs_restore (d : DStack α) : abs d.restore = (abs d).restore := by
  rcases d with ⟨items, popped, lengths⟩
  cases lengths with
  | nil => simp [abs, restore, RStack.restore, snapsOf, snapsAux]
  | cons p ls =>
    obtain ⟨ic, rc⟩ := p
    simp [abs, restore, RStack.restore, snapsOf, snapsAux]

theorem inv_restore (d : DStack α) (h : Inv d) : Inv d.restore := by
  rcases d with ⟨items, popped, lengths⟩
  cases lengths with
  | nil =>
    simp only [Inv, InvAux] at h
    simp [Inv, restore, InvAux, h]
  | cons p ls =>
    obtain ⟨ic, rc⟩ := p
    simp only [Inv, InvAux] at h
    obtain ⟨h1, h2, h3, h4⟩ := h
    simp only [Inv, restore, List.length_append, List.length_reverse, List.length_take,
      List.length_drop]
    have e1 : min (ic - rc) popped.length + (items.length - (items.length - rc)) = ic := by omega
    rw [e1]; exact h4

/-! #### snapshot -/

theorem abs_snapshot (d : DStack α) : abs d.snapshot = (abs d).snapshot := by
  rcases d with ⟨items, popped, lengths⟩
  simp [abs, snapshot, RStack.snapshot, snapsOf, snapsAux]

theorem inv_snapshot (d : DStack α) (h : Inv d) : Inv d.snapshot := by
  rcases d with ⟨items, popped, lengths⟩
  simp only [Inv] at h
  simp only [Inv, snapshot, InvAux]
  refine ⟨Nat.le_refl _, Nat.le_refl _, by omega, ?_⟩
  exact InvAux_congr h (by omega)

/-! #### push -/

theorem snapsAux_push (ls : List (Nat × Nat)) (items popped : List α) (x : α)
    (h : ∀ ic rc ls', ls = (ic, rc) :: ls' → rc ≤ items.length) :
    snapsAux ls (x :: items) popped = snapsAux ls items popped := by
  cases ls with
  | nil => simp [snapsAux]
  | cons p ls' =>
    obtain ⟨ic, rc⟩ := p
    have hrc := h ic rc ls' rfl
    have e : (x :: items).length - rc = (items.length - rc) + 1 := by simp; omega
    simp only [snapsAux, e, List.drop_succ_cons]

theorem abs_push (d : DStack α) (x : α) (h : Inv d) : abs (d.push x) = (abs d).push x := by
  rcases d with ⟨items, popped, lengths⟩
  simp only [abs, push, RStack.push, snapsOf]
  congr 1
  apply snapsAux_push
  intro ic rc ls' e
  simp only [Inv, e, InvAux] at h
  exact h.2.1

theorem inv_push (d : DStack α) (x : α) (h : Inv d) : Inv (d.push x) := by
  rcases d with ⟨items, popped, lengths⟩
  cases lengths with
  | nil => simpa [Inv, push, InvAux] using h
  | cons p ls =>
    obtain ⟨ic, rc⟩ := p
    simp only [Inv, InvAux] at h
    simp only [Inv, push, InvAux, List.length_cons]
    exact ⟨h.1, by omega, h.2.2.1, h.2.2.2⟩

/-! #### pop -/

theorem pop_nil (d : DStack α) (h : d.items = []) : d.pop = none := by simp [pop, h]

theorem abs_pop (d : DStack α) (h : Inv d) :
    (d.pop).map (fun r => (r.1, abs r.2)) = (abs d).pop := by
  rcases d with ⟨items, popped, lengths⟩
  cases items with
  | nil => simp [pop, abs, RStack.pop]
  | cons x rest =>
    cases lengths with
    | nil => simp [pop, abs, RStack.pop, snapsOf, snapsAux]
    | cons p ls =>
      obtain ⟨ic, rc⟩ := p
      simp only [Inv, InvAux, List.length_cons] at h
      obtain ⟨h1, h2, h3, _⟩ := h
      by_cases hc : rest.length + 1 = rc
      · -- popped below the low-water mark: recorded
        have e1 : ic - (rc - 1) = (ic - rc) + 1 := by omega
        have e2 : rest.length - (rc - 1) = 0 := by omega
        have e3 : rest.length + 1 - rc = 0 := by omega
        simp [pop, abs, RStack.pop, snapsOf, snapsAux, hc, e1, e2]
      · have e : rest.length + 1 - rc = (rest.length - rc) + 1 := by omega
        simp [pop, abs, RStack.pop, snapsOf, snapsAux, hc, e]

theorem inv_pop (d : DStack α) (h : Inv d) (x : α) (d' : DStack α) (hp : d.pop = some (x, d')) :
    Inv d' := by
  rcases d with ⟨items, popped, lengths⟩
  cases items with
  | nil => simp [pop] at hp
  | cons y rest =>
    cases lengths with
    | nil =>
      simp only [pop, Option.some.injEq, Prod.mk.injEq] at hp
      obtain ⟨_, rfl⟩ := hp
      simpa [Inv, InvAux] using h
    | cons p ls =>
      obtain ⟨ic, rc⟩ := p
      simp only [Inv, InvAux, List.length_cons] at h
      obtain ⟨h1, h2, h3, h4⟩ := h
      by_cases hc : rest.length + 1 = rc
      · simp only [pop, List.length_cons, hc, ↓reduceIte, Option.some.injEq, Prod.mk.injEq] at hp
        obtain ⟨_, rfl⟩ := hp
        simp only [Inv, InvAux, List.length_cons]
        exact ⟨by omega, by omega, by omega, InvAux_congr h4 (by omega)⟩
      · simp only [pop, List.length_cons, hc, ↓reduceIte, Option.some.injEq, Prod.mk.injEq] at hp
        obtain ⟨_, rfl⟩ := hp
        simp only [Inv, InvAux]
        exact ⟨h1, by omega, h3, h4⟩

/-! #### clear -/

theorem abs_clear (d : DStack α) (h : Inv d) : abs d.clear = (abs d).clear := by
  rcases d with ⟨items, popped, lengths⟩
  cases items with
  | nil => simp [clear, abs, RStack.clear]
  | cons x rest =>
    cases lengths with
    | nil => simp [clear, abs, RStack.clear, snapsOf, snapsAux]
    | cons p ls =>
      obtain ⟨ic, rc⟩ := p
      simp only [Inv, InvAux, List.length_cons] at h
      obtain ⟨h1, h2, h3, _⟩ := h
      simp only [clear, abs, RStack.clear, snapsOf, snapsAux, List.length_cons, Nat.sub_zero,
        List.length_nil, List.drop_nil, List.append_nil, RStack.mk.injEq, true_and]
      have hl : ((x :: rest).drop (rest.length + 1 - rc)).reverse.length = rc := by
        simp; omega
      have e : ic = rc + (ic - rc) := by omega
      have t1 : (((x :: rest).drop (rest.length + 1 - rc)).reverse ++ popped).take ic
          = ((x :: rest).drop (rest.length + 1 - rc)).reverse ++ popped.take (ic - rc) := by
        rw [List.take_append, hl, List.take_of_length_le (by omega)]
      have t2 : (((x :: rest).drop (rest.length + 1 - rc)).reverse ++ popped).drop ic
          = popped.drop (ic - rc) := by
        rw [List.drop_append, hl, List.drop_of_length_le (by omega)]
        simp
      rw [t1, t2]
      simp

theorem inv_clear (d : DStack α) (h : Inv d) : Inv d.clear := by
  rcases d with ⟨items, popped, lengths⟩
  cases items with
  | nil => simpa [clear] using h
  | cons x rest =>
    cases lengths with
    | nil => simp [clear, Inv, InvAux]
    | cons p ls =>
      obtain ⟨ic, rc⟩ := p
      simp only [Inv, InvAux, List.length_cons] at h
      obtain ⟨h1, h2, h3, h4⟩ := h
      simp only [Inv, clear, InvAux, List.length_cons, List.length_nil, List.length_append,
        List.length_reverse, List.length_drop]
      exact ⟨by omega, by omega, by omega, InvAux_congr h4 (by omega)⟩

/-! #### drop_snapshot -/

/-- list core of the `rc < orc` case: the `k` most recent of the inner entries `A` are kept. -/
theorem dropSnap_lists (A B I : List α) (n k m : Nat) (hA : A.length = n) (hk : k ≤ n) :
    ((A.take k ++ B).take (k + m)).reverse ++ I
      = (B.take m).reverse ++ (A.reverse ++ I).drop (n - k) ∧
    (A.take k ++ B).drop (k + m) = B.drop m := by
  have hk' : (A.take k).length = k := by simp; omega
  have hle : (A.take k).length ≤ k + m := by omega
  constructor
  · have t : (A.take k ++ B).take (k + m) = A.take k ++ B.take m := by
      rw [List.take_append, hk', List.take_of_length_le hle]
      simp
    have hr : n - k ≤ A.reverse.length := by simp; omega
    have d : (A.reverse ++ I).drop (n - k) = (A.take k).reverse ++ I := by
      rw [List.drop_append_of_le_length hr, List.drop_reverse]
      have : A.length - (n - k) = k := by omega
      rw [this]
    rw [t, d]; simp
  · rw [List.drop_append, hk', List.drop_of_length_le hle]
    simp

theorem drop_rev_append (A I : List α) (n j : Nat) (hA : A.length = n) :
    (A.reverse ++ I).drop (n + j) = I.drop j := by
  have : A.reverse.length = n := by simpa using hA
  rw [← this, List.drop_length_add_append]

theorem snapsOf_cons (d : DStack α) (hne : d.lengths ≠ []) :
    snapsOf d = d.restore.items :: snapsOf d.restore := by
  rcases d with ⟨items, popped, lengths⟩
  cases lengths with
  | nil => exact absurd rfl hne
  | cons p ls => obtain ⟨ic, rc⟩ := p; simp [snapsOf, snapsAux, restore]

theorem snapsOf_nil (d : DStack α) (h : d.lengths = []) : snapsOf d = [] := by
  simp [snapsOf, h, snapsAux]

theorem dropSnap_restore (d : DStack α) (h : Inv d) (hne : d.lengths ≠ []) :
    d.dropSnap.restore = d.restore.restore := by
  rcases d with ⟨items, popped, lengths⟩
  cases lengths with
  | nil => exact absurd rfl hne
  | cons p ls =>
    obtain ⟨ic, rc⟩ := p
    cases ls with
    | nil =>
      simp only [Inv, InvAux] at h
      obtain ⟨h1, h2, h3, h4⟩ := h
      have : popped.drop (ic - rc) = [] := by
        apply List.eq_nil_of_length_eq_zero; simpa using h4
      simp [dropSnap, restore, this]
    | cons q ls' =>
      obtain ⟨oc, orc⟩ := q
      simp only [Inv, InvAux] at h
      obtain ⟨h1, h2, h3, g1, g2, g3, _⟩ := h
      have hA : (popped.take (ic - rc)).length = ic - rc := by simp; omega
      by_cases hc : rc < orc
      · -- the outer snapshot needs some of the entries the inner one recorded
        obtain ⟨l1, l2⟩ := dropSnap_lists (popped.take (ic - rc)) (popped.drop (ic - rc))
          (items.drop (items.length - rc)) (ic - rc) (orc - rc) (oc - orc) hA (by omega)
        have e1 : oc - rc = (orc - rc) + (oc - orc) := by omega
        have e2 : ((popped.take (ic - rc)).reverse ++ items.drop (items.length - rc)).length - orc
            = (ic - rc) - (orc - rc) := by simp; omega
        simp only [dropSnap, hc, ↓reduceIte, restore, DStack.mk.injEq, and_true]
        rw [e1, e2]
        exact ⟨l1, l2⟩
      · have e2 : ((popped.take (ic - rc)).reverse ++ items.drop (items.length - rc)).length - orc
            = (ic - rc) + (rc - orc) := by simp; omega
        simp only [dropSnap, hc, ↓reduceIte, restore, DStack.mk.injEq, and_true]
        rw [e2]
        rw [drop_rev_append _ _ _ _ hA, List.drop_drop]
        congr 2
        omega

theorem dropSnap_items (d : DStack α) : d.dropSnap.items = d.items := by
  rcases d with ⟨items, popped, lengths⟩
  cases lengths with
  | nil => rfl
  | cons p ls =>
    obtain ⟨ic, rc⟩ := p
    cases ls with
    | nil => simp [dropSnap]
    | cons q ls' => obtain ⟨oc, orc⟩ := q; by_cases hc : rc < orc <;> simp [dropSnap, hc]

theorem dropSnap_lengths_length (d : DStack α) :
    d.dropSnap.lengths.length = d.lengths.length - 1 := by
  rcases d with ⟨items, popped, lengths⟩
  cases lengths with
  | nil => rfl
  | cons p ls =>
    obtain ⟨ic, rc⟩ := p
    cases ls with
    | nil => simp [dropSnap]
    | cons q ls' => obtain ⟨oc, orc⟩ := q; by_cases hc : rc < orc <;> simp [dropSnap, hc]

theorem restore_lengths (d : DStack α) : d.restore.lengths = d.lengths.tail := by
  rcases d with ⟨items, popped, lengths⟩
  cases lengths with
  | nil => rfl
  | cons p ls => obtain ⟨ic, rc⟩ := p; simp [restore]

theorem abs_dropSnap (d : DStack α) (h : Inv d) : abs d.dropSnap = (abs d).dropSnap := by
  simp only [abs, RStack.dropSnap, dropSnap_items, RStack.mk.injEq, true_and]
  by_cases hne : d.lengths = []
  · have : d.dropSnap = d := by
      rcases d with ⟨items, popped, lengths⟩; simp only at hne; subst hne; rfl
    rw [this, snapsOf_nil d hne]; rfl
  · rw [snapsOf_cons d hne, List.tail_cons]
    have key := dropSnap_restore d h hne
    by_cases h2 : d.restore.lengths = []
    · -- a single snapshot: nothing is left afterwards
      have : d.dropSnap.lengths = [] := by
        apply List.eq_nil_of_length_eq_zero
        rw [dropSnap_lengths_length]
        rw [restore_lengths] at h2
        have := congrArg List.length h2
        simp at this; omega
      rw [snapsOf_nil _ this, snapsOf_nil _ h2]
    · have h3 : d.dropSnap.lengths ≠ [] := by
        intro hh
        have := dropSnap_lengths_length d
        rw [hh] at this
        rw [restore_lengths] at h2
        apply h2
        apply List.eq_nil_of_length_eq_zero
        simp at this ⊢; omega
      rw [snapsOf_cons _ h3, snapsOf_cons _ h2, key]

theorem inv_dropSnap (d : DStack α) (h : Inv d) : Inv d.dropSnap := by
  rcases d with ⟨items, popped, lengths⟩
  cases lengths with
  | nil => simpa [dropSnap] using h
  | cons p ls =>
    obtain ⟨ic, rc⟩ := p
    cases ls with
    | nil =>
      simp only [Inv, InvAux] at h
      obtain ⟨h1, h2, h3, h4⟩ := h
      simp only [Inv, dropSnap, InvAux, List.length_drop]
      exact h4
    | cons q ls' =>
      obtain ⟨oc, orc⟩ := q
      simp only [Inv, InvAux] at h
      obtain ⟨h1, h2, h3, g1, g2, g3, g4⟩ := h
      by_cases hc : rc < orc
      · simp only [Inv, dropSnap, hc, ↓reduceIte, InvAux, List.length_append, List.length_take,
          List.length_drop]
        exact ⟨by omega, h2, by omega, InvAux_congr g4 (by omega)⟩
      · simp only [Inv, dropSnap, hc, ↓reduceIte, InvAux, List.length_drop]
        exact ⟨g1, by omega, g3, g4⟩

/-! #### the asserts of `restore` / slice bounds of `drop_snapshot` hold under the invariant -/

theorem inv_restoreAsserts (d : DStack α) (h : Inv d) : d.restoreAsserts = true := by
  rcases d with ⟨items, popped, lengths⟩
  cases lengths with
  | nil =>
    simp only [Inv, InvAux] at h
    simp [restoreAsserts, List.eq_nil_of_length_eq_zero h]
  | cons p ls =>
    obtain ⟨ic, rc⟩ := p
    simp only [Inv, InvAux] at h
    simp [restoreAsserts, h.2.2.1]

theorem inv_dropAsserts (d : DStack α) (h : Inv d) : d.dropAsserts = true := by
  rcases d with ⟨items, popped, lengths⟩
  cases lengths with
  | nil => simp [dropAsserts]
  | cons p ls =>
    obtain ⟨ic, rc⟩ := p
    cases ls with
    | nil => simp only [Inv, InvAux] at h; simp [dropAsserts, h.2.2.1]
    | cons q ls' =>
      obtain ⟨oc, orc⟩ := q
      simp only [Inv, InvAux] at h
      obtain ⟨h1, h2, h3, g1, g2, g3, g4⟩ := h
      simp only [dropAsserts, Bool.and_eq_true, decide_eq_true_eq]
      exact ⟨h3, by omega⟩

/-! #### all operations -/

theorem inv_apply (d : DStack α) (op : StackOp α) (h : Inv d) : Inv (d.apply op) := by
  cases op with
  | push x => exact inv_push d x h
  | pop =>
    simp only [apply]
    cases hp : d.pop with
    | none => exact h
    | some r => exact inv_pop d h r.1 r.2 hp
  | clear => exact inv_clear d h
  | snapshot => exact inv_snapshot d h
  | restore => exact inv_restore d h
  | dropSnap => exact inv_dropSnap d h

theorem abs_apply (d : DStack α) (op : StackOp α) (h : Inv d) :
    abs (d.apply op) = (abs d).apply op := by
  cases op with
  | push x => exact abs_push d x h
  | pop =>
    have := abs_pop d h
    simp only [apply, RStack.apply]
    cases hp : d.pop with
    | none => simp [hp] at this; simp [← this]
    | some r => simp [hp] at this; simp [← this]
  | clear => exact abs_clear d h
  | snapshot => exact abs_snapshot d
  | restore => exact abs_restore d
  | dropSnap => exact abs_dropSnap d h

end DStack
end Pest
