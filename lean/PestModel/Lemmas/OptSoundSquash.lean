/-
  Lemmas/OptSoundSquash.lean — `squash_choice`: the semantic lemma `SquashSem` and the builder.

  * `altMatch` / `firstMatch`: ordered alternatives of literals / ranges / Unicode properties:
    "the first one that matches".
  * `compat`, `go_iff`: `is_order_preserving` says exactly that every earlier/later pair is
    compatible.
  * `optMatchOnce_eq_first`: for pairwise compatible alternatives the regex
    `build_optimized_pattern` emits (multi-character literals first, …) picks an alternative of the
    same length as the ordered choice.
  * `squash_sem`: a squashable `Choice` is that ordered choice.
-/
import PestModel.Lemmas.OptSoundPass

set_option linter.unusedVariables false

namespace Pest
namespace OptS

open L0

variable (G : Grammar) (inp : Input)

/-! ### one alternative -/

def altMatch (a : Alt) (pos : Nat) : Option Nat :=
  match a with
  | .lit s false => if startsWithAt inp s pos then some (pos + s.length) else none
  | .lit s true => if startsWithAtCI inp s pos then some (pos + s.length) else none
  | .range lo hi =>
    match inp[pos]? with
    | some c => if lo ≤ c && c ≤ hi then some (pos + 1) else none
    | none => none
  | .uprop n =>
    match inp[pos]? with
    | some c => if G.uprop n c then some (pos + 1) else none
    | none => none

def firstMatch (alts : List Alt) (pos : Nat) : Option Nat := alts.findSome? (altMatch G inp · pos)

/-! ### `is_order_preserving`, pairwise -/

/-- the condition `is_order_preserving` checks of an earlier and a later alternative -/
def compat (earlier later : Alt) : Bool :=
  match later with
  | .lit v ci =>
    if v.length == 1 then true
    else
      let first : List CP :=
        match v with
        | [] => []
        | h :: _ => if ci then [h, L1.asciiUpper h, asciiLower h] else [h]
      if Opt.isSingle earlier then
        !(v.isEmpty || first.any (Opt.accepts G earlier))
      else
        match earlier with
        | .lit ev true =>
          if !ci && ev.length != v.length then
            let a := Opt.lowerStr ev
            let b := Opt.lowerStr v
            !(b.isPrefixOf a || a.isPrefixOf b)
          else true
        | _ => true
  | _ => true

theorem go_cons (before : List Alt) (later : Alt) (rest : List Alt) :
    Opt.isOrderPreserving.go G before (later :: rest) =
      (before.all (fun earlier => compat G earlier later) && Opt.isOrderPreserving.go G (before ++ [later]) rest) := by
  cases later with
  | lit v ci =>
    simp only [Opt.isOrderPreserving.go, compat]
    by_cases h1 : (v.length == 1) = true
    · simp [h1]
    · simp only [h1, Bool.false_eq_true, ↓reduceIte]
      congr 2
  | range _ _ => simp [Opt.isOrderPreserving.go, compat]
  | uprop _ => simp [Opt.isOrderPreserving.go, compat]

theorem go_iff : ∀ (l before : List Alt),
    Opt.isOrderPreserving.go G before l = true ↔
      (∀ later ∈ l, ∀ earlier ∈ before, compat G earlier later = true) ∧
      l.Pairwise (fun a b => compat G a b = true)
  | [], before => by simp [Opt.isOrderPreserving.go]
  | later :: rest, before => by
    have ih := go_iff rest (before ++ [later])
    rw [go_cons, Bool.and_eq_true, ih]
    simp only [List.all_eq_true, List.mem_cons, List.pairwise_cons, List.mem_append, List.not_mem_nil, or_false]
    constructor
    · rintro ⟨h1, h2, h3⟩
      refine ⟨?_, ?_, h3⟩
      · rintro l (rfl | hl) e he
        · exact h1 e he
        · exact h2 l hl e (Or.inl he)
      · intro l hl; exact h2 l hl later (Or.inr rfl)
    · rintro ⟨h1, h2, h3⟩
      refine ⟨fun e he => h1 later (Or.inl rfl) e he, ?_, h3⟩
      rintro l hl e (he | rfl)
      · exact h1 l (Or.inr hl) e he
      · exact h2 l hl

theorem op_pairwise {alts : List Alt} (h : Opt.isOrderPreserving G alts = true) :
    alts.Pairwise (fun a b => compat G a b = true) := by
  unfold Opt.isOrderPreserving at h
  exact ((go_iff G alts []).1 h).2

/-! ### primitive matchers -/

theorem swa_head {h : CP} {t : Str} {pos : Nat} (hh : startsWithAt inp (h :: t) pos = true) :
    inp[pos]? = some h := by
  simp only [startsWithAt, Bool.and_eq_true] at hh
  cases hi : inp[pos]? with
  | none => rw [hi] at hh; simp at hh
  | some d => rw [hi] at hh; simp at hh; rw [hh.1]

theorem swaCI_head {h : CP} {t : Str} {pos : Nat} (hh : startsWithAtCI inp (h :: t) pos = true) :
    ∃ d, inp[pos]? = some d ∧ asciiLower d = asciiLower h := by
  simp only [startsWithAtCI, Bool.and_eq_true] at hh
  cases hi : inp[pos]? with
  | none => rw [hi] at hh; simp at hh
  | some d => rw [hi] at hh; simp at hh; exact ⟨d, rfl, hh.1⟩

theorem swa_single (x : CP) (pos : Nat) : startsWithAt inp [x] pos = (inp[pos]? == some x) := by
  simp only [startsWithAt]
  cases hi : inp[pos]? with
  | none => simp
  | some d =>
    obtain ⟨this, _⟩ := Array.getElem?_eq_some_iff.1 hi
    have h2 : decide (pos + 1 ≤ inp.size) = true := by simp; omega
    simp [h2]

theorem swaCI_single (x : CP) (pos : Nat) :
    startsWithAtCI inp [x] pos = (match inp[pos]? with | some d => asciiLower d == asciiLower x | none => false) := by
  simp only [startsWithAtCI]
  cases hi : inp[pos]? with
  | none => simp
  | some d =>
    obtain ⟨this, _⟩ := Array.getElem?_eq_some_iff.1 hi
    have h2 : decide (pos + 1 ≤ inp.size) = true := by simp; omega
    simp [h2]

theorem swa_CI : ∀ (s : Str) (pos : Nat), startsWithAt inp s pos = true → startsWithAtCI inp s pos = true
  | [], pos, h => by simpa [startsWithAt, startsWithAtCI] using h
  | c :: rest, pos, h => by
    simp only [startsWithAt, startsWithAtCI, Bool.and_eq_true] at h ⊢
    refine ⟨?_, swa_CI rest (pos + 1) h.2⟩
    cases hi : inp[pos]? with
    | none => rw [hi] at h; simp at h
    | some d => rw [hi] at h; simp at h ⊢; rw [h.1]

theorem lower_iff_nat (d x : Nat) :
    (if 65 ≤ d ∧ d ≤ 90 then d + 32 else d) = (if 65 ≤ x ∧ x ≤ 90 then x + 32 else x) ↔
      (d = (if 97 ≤ x ∧ x ≤ 122 then x - 32 else x) ∨ d = (if 65 ≤ x ∧ x ≤ 90 then x + 32 else x)) := by
  split <;> split <;> split <;> (constructor <;> intro h <;> omega)

/-- ASCII case folding: `d` folds to the same letter as `x` iff it is `x`'s upper or lower case -/
theorem lower_iff (d x : Nat) : asciiLower d = asciiLower x ↔ (d = L1.asciiUpper x ∨ d = asciiLower x) := by
  unfold asciiLower L1.asciiUpper
  simp only [Bool.and_eq_true, decide_eq_true_eq]
  exact lower_iff_nat d x

theorem swaCI_prefix : ∀ (u v : Str) (pos : Nat), startsWithAtCI inp u pos = true →
    startsWithAtCI inp v pos = true → u.length ≤ v.length →
    (Opt.lowerStr u).isPrefixOf (Opt.lowerStr v) = true
  | [], v, pos, _, _, _ => by simp [Opt.lowerStr]
  | a :: u, [], pos, _, _, hl => by simp at hl
  | a :: u, b :: v, pos, hu, hv, hl => by
    obtain ⟨d, hd, e1⟩ := swaCI_head inp hu
    obtain ⟨d', hd', e2⟩ := swaCI_head inp hv
    rw [hd] at hd'; cases hd'
    simp only [startsWithAtCI, Bool.and_eq_true] at hu hv
    have := swaCI_prefix u v (pos + 1) hu.2 hv.2 (by simpa using hl)
    simp only [Opt.lowerStr, List.map_cons, List.isPrefixOf_cons_cons, Bool.and_eq_true, beq_iff_eq] at this ⊢
    exact ⟨by rw [← e1, ← e2], this⟩

/-! ### the regex of `build_optimized_pattern`, restated -/

/-- multi-character (or empty) case-sensitive literals, in order -/
def msL : List Alt → List Str
  | [] => []
  | .lit s false :: r => if s.length ≠ 1 then s :: msL r else msL r
  | _ :: r => msL r

/-- multi-character (or empty) case-insensitive literals, in order -/
def miL : List Alt → List Str
  | [] => []
  | .lit s true :: r => if s.length ≠ 1 then s :: miL r else miL r
  | _ :: r => miL r

/-- does the one-character alternative `a` accept `c`? (`false` for multi-character literals) -/
def singleAcc (a : Alt) (c : CP) : Bool :=
  match a with
  | .lit [x] false => x == c
  | .lit [x] true => L1.asciiUpper x == c || asciiLower x == c
  | .range lo hi => L1.inRange (min lo hi) (max lo hi) c
  | .uprop n => G.uprop n c
  | _ => false

def omo (alts : List Alt) (pos : Nat) : Option Nat :=
  match (msL alts).find? (startsWithAt inp · pos) with
  | some s => some (pos + s.length)
  | none =>
    match (miL alts).find? (startsWithAtCI inp · pos) with
    | some s => some (pos + s.length)
    | none =>
      match inp[pos]? with
      | none => none
      | some c => if alts.any (singleAcc G · c) then some (pos + 1) else none

theorem msL_eq (alts : List Alt) :
    alts.filterMap (fun | .lit s false => if s.length ≠ 1 then some s else none | _ => none) = msL alts := by
  induction alts with
  | nil => rfl
  | cons a r ih =>
    cases a with
    | lit s ci =>
      cases ci with
      | false =>
        simp only [List.filterMap_cons, msL]
        by_cases h : s.length ≠ 1
        · rw [if_pos h, if_pos h, ih]
        · rw [if_neg h, if_neg h, ih]
      | true => simp only [List.filterMap_cons, msL, ih]
    | range _ _ => simp only [List.filterMap_cons, msL, ih]
    | uprop _ => simp only [List.filterMap_cons, msL, ih]

theorem miL_eq (alts : List Alt) :
    alts.filterMap (fun | .lit s true => if s.length ≠ 1 then some s else none | _ => none) = miL alts := by
  induction alts with
  | nil => rfl
  | cons a r ih =>
    cases a with
    | lit s ci =>
      cases ci with
      | true =>
        simp only [List.filterMap_cons, miL]
        by_cases h : s.length ≠ 1
        · rw [if_pos h, if_pos h, ih]
        · rw [if_neg h, if_neg h, ih]
      | false => simp only [List.filterMap_cons, miL, ih]
    | range _ _ => simp only [List.filterMap_cons, miL, ih]
    | uprop _ => simp only [List.filterMap_cons, miL, ih]

/-- the class part of the pattern, one alternative -/
def clsA (a : Alt) (c : CP) : Bool :=
  match a with
  | .lit [x] false => x == c
  | .lit [x] true => L1.asciiUpper x == c || asciiLower x == c
  | .range lo hi => L1.inRange (min lo hi) (max lo hi) c
  | _ => false

theorem clsA_single {a : Alt} {c : CP} (h : clsA a c = true) :
    singleAcc G a c = true ∧
    (match a with | .lit s _ => s.length == 1 | .range _ _ => true | _ => false) = true := by
  cases a with
  | lit s ci =>
    cases s with
    | nil => cases ci <;> simp [clsA] at h
    | cons x t =>
      cases t with
      | nil => cases ci <;> exact ⟨h, rfl⟩
      | cons y t' => cases ci <;> simp [clsA] at h
  | range lo hi => exact ⟨h, rfl⟩
  | uprop n => simp [clsA] at h

theorem single_eq (alts : List Alt) (c : CP) :
    ((alts.filterMap fun | .uprop n => some n | _ => none).any (G.uprop · c) ||
      ((alts.any fun | .lit s _ => s.length == 1 | .range _ _ => true | _ => false) && alts.any (clsA · c)))
    = alts.any (singleAcc G · c) := by
  rw [Bool.eq_iff_iff]
  simp only [Bool.or_eq_true, Bool.and_eq_true, List.any_eq_true, List.mem_filterMap]
  constructor
  · rintro (⟨n, ⟨a, ha, hn⟩, hu⟩ | ⟨_, a, ha, hc⟩)
    · refine ⟨a, ha, ?_⟩
      cases a with
      | uprop m => simp only [Option.some.injEq] at hn; subst hn; simpa [singleAcc] using hu
      | lit _ _ => simp at hn
      | range _ _ => simp at hn
    · exact ⟨a, ha, (clsA_single G hc).1⟩
  · rintro ⟨a, ha, hs⟩
    cases a with
    | uprop n => exact Or.inl ⟨n, ⟨_, ha, rfl⟩, by simpa [singleAcc] using hs⟩
    | lit s ci =>
      have hc : clsA (.lit s ci) c = true := by
        cases s with
        | nil => cases ci <;> simp [singleAcc] at hs
        | cons x t =>
          cases t with
          | nil => cases ci <;> simpa [singleAcc, clsA] using hs
          | cons y t' => cases ci <;> simp [singleAcc] at hs
      exact Or.inr ⟨⟨_, ha, (clsA_single G hc).2⟩, _, ha, hc⟩
    | range lo hi =>
      have hc : clsA (.range lo hi) c = true := by simpa [singleAcc, clsA] using hs
      exact Or.inr ⟨⟨_, ha, (clsA_single G hc).2⟩, _, ha, hc⟩

theorem classAccepts_eq (alts : List Alt) (c : CP) : L1.classAccepts alts c = alts.any (clsA · c) := by
  unfold L1.classAccepts
  congr 1

theorem omo_eq (alts : List Alt) (pos : Nat) : L1.optMatchOnce G inp alts pos = omo G inp alts pos := by
  unfold L1.optMatchOnce omo
  simp only [classAccepts_eq]
  erw [msL_eq, miL_eq]
  cases (msL alts).find? (startsWithAt inp · pos) with
  | some s => rfl
  | none =>
    dsimp only
    cases (miL alts).find? (startsWithAtCI inp · pos) with
    | some s => rfl
    | none =>
      dsimp only
      cases inp[pos]? with
      | none => rfl
      | some c =>
        dsimp only
        have := single_eq G alts c
        by_cases h1 : (alts.filterMap fun | .uprop n => some n | _ => none).any (G.uprop · c) = true
        · erw [if_pos h1]
          rw [h1, Bool.true_or] at this
          rw [← this]; rfl
        · erw [if_neg h1]
          simp only [Bool.not_eq_true] at h1
          rw [h1, Bool.false_or] at this
          erw [this]

/-! ### the regrouped pattern picks an alternative of the same length -/

theorem mem_msL : ∀ {alts : List Alt} {v : Str}, v ∈ msL alts → (Alt.lit v false ∈ alts ∧ v.length ≠ 1)
  | [], v, h => by simp [msL] at h
  | a :: r, v, h => by
    cases a with
    | lit s ci =>
      cases ci with
      | false =>
        simp only [msL] at h
        by_cases hl : s.length ≠ 1
        · rw [if_pos hl] at h
          rcases List.mem_cons.1 h with rfl | h'
          · exact ⟨List.mem_cons_self, hl⟩
          · exact ⟨List.mem_cons_of_mem _ (mem_msL h').1, (mem_msL h').2⟩
        · rw [if_neg hl] at h
          exact ⟨List.mem_cons_of_mem _ (mem_msL h).1, (mem_msL h).2⟩
      | true => simp only [msL] at h; exact ⟨List.mem_cons_of_mem _ (mem_msL h).1, (mem_msL h).2⟩
    | range _ _ => simp only [msL] at h; exact ⟨List.mem_cons_of_mem _ (mem_msL h).1, (mem_msL h).2⟩
    | uprop _ => simp only [msL] at h; exact ⟨List.mem_cons_of_mem _ (mem_msL h).1, (mem_msL h).2⟩

theorem mem_miL : ∀ {alts : List Alt} {v : Str}, v ∈ miL alts → (Alt.lit v true ∈ alts ∧ v.length ≠ 1)
  | [], v, h => by simp [miL] at h
  | a :: r, v, h => by
    cases a with
    | lit s ci =>
      cases ci with
      | true =>
        simp only [miL] at h
        by_cases hl : s.length ≠ 1
        · rw [if_pos hl] at h
          rcases List.mem_cons.1 h with rfl | h'
          · exact ⟨List.mem_cons_self, hl⟩
          · exact ⟨List.mem_cons_of_mem _ (mem_miL h').1, (mem_miL h').2⟩
        · rw [if_neg hl] at h
          exact ⟨List.mem_cons_of_mem _ (mem_miL h).1, (mem_miL h).2⟩
      | false => simp only [miL] at h; exact ⟨List.mem_cons_of_mem _ (mem_miL h).1, (mem_miL h).2⟩
    | range _ _ => simp only [miL] at h; exact ⟨List.mem_cons_of_mem _ (mem_miL h).1, (mem_miL h).2⟩
    | uprop _ => simp only [miL] at h; exact ⟨List.mem_cons_of_mem _ (mem_miL h).1, (mem_miL h).2⟩

theorem accepts_eq (a : Alt) (ch : CP) : Opt.accepts G a ch = singleAcc G a ch := by
  cases a with
  | lit s ci =>
    cases s with
    | nil => cases ci <;> rfl
    | cons x t =>
      cases t with
      | nil =>
        cases ci
        · simp only [Opt.accepts, singleAcc]; rw [Bool.eq_iff_iff]; simp only [beq_iff_eq]; exact eq_comm
        · simp only [Opt.accepts, singleAcc]; rw [Bool.eq_iff_iff]
          simp only [Bool.or_eq_true, beq_iff_eq]
          constructor <;> (rintro (h | h) <;> simp [h])
      | cons y t' => cases ci <;> rfl
  | range lo hi => rfl
  | uprop n => rfl

/-- a one-character alternative matches iff it accepts the next character -/
theorem altMatch_single {a : Alt} (hs : Opt.isSingle a = true) (hok : AltOK a) (pos : Nat) :
    altMatch G inp a pos =
      (match inp[pos]? with
       | some c => if singleAcc G a c then some (pos + 1) else none
       | none => none) := by
  cases a with
  | lit s ci =>
    simp only [Opt.isSingle, beq_iff_eq] at hs
    obtain ⟨x, rfl⟩ : ∃ x, s = [x] := by
      cases s with
      | nil => simp at hs
      | cons x t => cases t with
        | nil => exact ⟨x, rfl⟩
        | cons _ _ => simp at hs
    cases ci with
    | false =>
      simp only [altMatch, swa_single, singleAcc, List.length_singleton]
      cases inp[pos]? with
      | none => simp
      | some d =>
        by_cases h : d = x
        · subst h; simp
        · have : ¬ x = d := fun e => h e.symm
          simp [h, this]
    | true =>
      simp only [altMatch, swaCI_single, singleAcc, List.length_singleton]
      cases inp[pos]? with
      | none => simp
      | some d =>
        simp only []
        have := lower_iff d x
        by_cases h : asciiLower d = asciiLower x
        · have h' := this.1 h
          have : (L1.asciiUpper x == d || asciiLower x == d) = true := by
            rcases h' with h' | h' <;> simp [h']
          simp [h, this]
        · have : (L1.asciiUpper x == d || asciiLower x == d) = false := by
            rw [Bool.eq_false_iff]
            intro hc
            apply h
            apply this.2
            simp only [Bool.or_eq_true, beq_iff_eq] at hc
            rcases hc with hc | hc
            · exact Or.inl hc.symm
            · exact Or.inr hc.symm
          simp [h, this]
  | range lo hi =>
    have hle : lo ≤ hi := hok
    simp only [altMatch, singleAcc, L1.inRange, Nat.min_eq_left hle, Nat.max_eq_right hle]
  | uprop n => simp only [altMatch, singleAcc]; cases inp[pos]? <;> rfl

theorem single_ms_mi {a : Alt} (hs : Opt.isSingle a = true) (r : List Alt) :
    msL (a :: r) = msL r ∧ miL (a :: r) = miL r := by
  cases a with
  | lit s ci =>
    simp only [Opt.isSingle, beq_iff_eq] at hs
    cases ci <;> simp [msL, miL, hs]
  | range _ _ => exact ⟨rfl, rfl⟩
  | uprop _ => exact ⟨rfl, rfl⟩

theorem multi_acc {s : Str} {ci : Bool} (h : s.length ≠ 1) (c : CP) : singleAcc G (.lit s ci) c = false := by
  cases s with
  | nil => cases ci <;> rfl
  | cons x t =>
    cases t with
    | nil => simp at h
    | cons y t' => cases ci <;> rfl

/-- a later multi-character literal that matches here contradicts an earlier one-character
    alternative that matches here -/
theorem single_vs_multi {a : Alt} (hs : Opt.isSingle a = true) {v : Str} {ci : Bool} (hv : v.length ≠ 1)
    (hc : compat G a (.lit v ci) = true) {pos : Nat} {c : CP} (hi : inp[pos]? = some c)
    (hacc : singleAcc G a c = true)
    (hm : (if ci then startsWithAtCI inp v pos else startsWithAt inp v pos) = true) : False := by
  have hv' : (v.length == 1) = false := by simpa using hv
  simp only [compat, hv', Bool.false_eq_true, ↓reduceIte, hs, Bool.not_eq_true', Bool.or_eq_false_iff] at hc
  obtain ⟨hne, hany⟩ := hc
  cases v with
  | nil => simp at hne
  | cons h t =>
    simp only [] at hany
    cases ci with
    | false =>
      simp only [Bool.false_eq_true, ↓reduceIte] at hm hany
      have := swa_head inp hm
      rw [hi] at this; cases this
      simp [accepts_eq, hacc] at hany
    | true =>
      simp only [↓reduceIte] at hm hany
      obtain ⟨d, hd, hl⟩ := swaCI_head inp hm
      rw [hi] at hd; cases hd
      rcases (lower_iff c h).1 hl with e | e
      · subst e; simp [accepts_eq, hacc] at hany
      · subst e; simp [accepts_eq, hacc] at hany

theorem omo_first (pos : Nat) : ∀ (alts : List Alt), alts.Pairwise (fun a b => compat G a b = true) →
    (∀ a ∈ alts, AltOK a) → omo G inp alts pos = firstMatch G inp alts pos
  | [], _, _ => by
    simp only [omo, firstMatch, msL, miL, List.find?_nil, List.any_nil, List.findSome?_nil]
    cases inp[pos]? <;> rfl
  | a :: r, hpw, hok => by
    have ih := omo_first pos r (List.Pairwise.of_cons hpw) (fun x hx => hok x (List.mem_cons_of_mem _ hx))
    have hcompat : ∀ x ∈ r, compat G a x = true := (List.pairwise_cons.1 hpw).1
    have hfm : firstMatch G inp (a :: r) pos =
        (match altMatch G inp a pos with | some p => some p | none => firstMatch G inp r pos) := by
      simp only [firstMatch, List.findSome?_cons]
      cases altMatch G inp a pos <;> rfl
    rw [hfm, ← ih]
    by_cases hsingle : Opt.isSingle a = true
    · -- a one-character alternative
      obtain ⟨hms, hmi⟩ := single_ms_mi hsingle r
      rw [altMatch_single G inp hsingle (hok a List.mem_cons_self) pos]
      unfold omo
      rw [hms, hmi]
      simp only [List.any_cons]
      cases hi : inp[pos]? with
      | none => rfl
      | some c =>
        dsimp only
        by_cases hacc : singleAcc G a c = true
        · have h1 : (msL r).find? (startsWithAt inp · pos) = none := by
            rw [List.find?_eq_none]
            intro v hv hm
            obtain ⟨hmem, hl⟩ := mem_msL hv
            exact single_vs_multi G inp hsingle hl (hcompat _ hmem) hi hacc (by simpa using hm)
          have h2 : (miL r).find? (startsWithAtCI inp · pos) = none := by
            rw [List.find?_eq_none]
            intro v hv hm
            obtain ⟨hmem, hl⟩ := mem_miL hv
            exact single_vs_multi G inp hsingle hl (hcompat _ hmem) hi hacc (by simpa using hm)
          simp only [h1, h2, hacc, Bool.true_or, ↓reduceIte]
        · simp only [hacc, Bool.false_or, Bool.false_eq_true, ↓reduceIte]
    · -- a multi-character (or empty) literal
      cases a with
      | range _ _ => simp [Opt.isSingle] at hsingle
      | uprop _ => simp [Opt.isSingle] at hsingle
      | lit s ci =>
        have hl : s.length ≠ 1 := by simpa [Opt.isSingle] using hsingle
        have hacc : ∀ c, singleAcc G (.lit s ci) c = false := multi_acc G hl
        cases ci with
        | false =>
          have hms : msL (.lit s false :: r) = s :: msL r := by simp only [msL]; rw [if_pos hl]
          have hmi : miL (.lit s false :: r) = miL r := rfl
          unfold omo
          rw [hms, hmi]
          simp only [List.any_cons, hacc, Bool.false_or, List.find?_cons, altMatch]
          by_cases hm : startsWithAt inp s pos = true
          · simp only [hm, ↓reduceIte]
          · simp only [hm, Bool.false_eq_true, ↓reduceIte]
        | true =>
          have hms : msL (.lit s true :: r) = msL r := rfl
          have hmi : miL (.lit s true :: r) = s :: miL r := by simp only [miL]; rw [if_pos hl]
          unfold omo
          rw [hms, hmi]
          simp only [List.any_cons, hacc, Bool.false_or, List.find?_cons, altMatch]
          by_cases hm : startsWithAtCI inp s pos = true
          · simp only [hm, ↓reduceIte]
            cases hf : (msL r).find? (startsWithAt inp · pos) with
            | none => rfl
            | some v =>
              dsimp only
              -- a later case-sensitive literal that also matches has the same length
              have hvm := List.find?_some hf
              obtain ⟨hmem, hvl⟩ := mem_msL (List.mem_of_find?_eq_some hf)
              have hc := hcompat _ hmem
              have hvl' : (v.length == 1) = false := by simpa using hvl
              have hs1 : Opt.isSingle (.lit s true) = false := by simpa [Opt.isSingle] using hl
              simp only [compat, hvl', Bool.false_eq_true, ↓reduceIte, hs1, Bool.not_false,
                Bool.true_and] at hc
              by_cases hlen : s.length = v.length
              · rw [hlen]
              · have hlen' : (s.length != v.length) = true := by simpa using hlen
                simp only [hlen', ↓reduceIte, Bool.not_eq_true', Bool.or_eq_false_iff] at hc
                have hv2 := swa_CI inp v pos (by simpa using hvm)
                rcases Nat.le_total s.length v.length with hle | hle
                · have := swaCI_prefix inp s v pos hm hv2 hle
                  rw [hc.2] at this; exact absurd this (by simp)
                · have := swaCI_prefix inp v s pos hv2 hm hle
                  rw [hc.1] at this; exact absurd this (by simp)
          · simp only [hm, Bool.false_eq_true, ↓reduceIte]

/-- for pairwise compatible alternatives, `OptimizedChoice` is the ordered choice -/
theorem optMatchOnce_eq_first {alts : List Alt} (hpw : alts.Pairwise (fun a b => compat G a b = true))
    (hok : ∀ a ∈ alts, AltOK a) (pos : Nat) :
    L1.optMatchOnce G inp alts pos = firstMatch G inp alts pos := by
  rw [omo_eq, omo_first G inp pos alts hpw hok]

/-! ### a squashable `Choice` is the ordered choice of its flattened alternatives -/

/-- result of a pair-less terminal match -/
def resOf (s : S0) : Option Nat → R0
  | some p => .ok { s with pos := p } []
  | none => .fail

theorem resOf_ne_oof (s : S0) (o : Option Nat) : resOf s o ≠ .oof := by cases o <;> simp [resOf]

theorem firstMatch_append (l1 l2 : List Alt) (pos : Nat) :
    firstMatch G inp (l1 ++ l2) pos = (firstMatch G inp l1 pos).or (firstMatch G inp l2 pos) := by
  simp only [firstMatch, List.findSome?_append]

theorem choice_cons_sem {e : Expr} {rest : List Expr} {s : S0} {o1 o2 : Option Nat}
    (h1 : Evt (fun n => run G inp n e s = resOf s o1))
    (h2 : Evt (fun n => choiceL (run G inp n) rest s = resOf s o2)) :
    Evt (fun n => choiceL (run G inp n) (e :: rest) s = resOf s (o1.or o2)) := by
  refine (h1.and h2).mono fun n hn => ?_
  simp only [choiceL, hn.1]
  cases o1 with
  | some p => rfl
  | none => simp only [resOf, Option.none_or]; exact hn.2

theorem str_sem (x : Str) (s : S0) :
    Evt (fun n => run G inp n (.str x) s = resOf s (firstMatch G inp [.lit x false] s.pos)) := by
  refine ⟨1, fun n hn => ?_⟩
  obtain ⟨m, rfl⟩ : ∃ m, n = m + 1 := ⟨n - 1, by omega⟩
  simp only [run, step, firstMatch, List.findSome?_cons, List.findSome?_nil, altMatch, adv]
  by_cases h : startsWithAt inp x s.pos = true <;> simp [h, resOf]

theorem ci_sem (x : Str) (s : S0) :
    Evt (fun n => run G inp n (.ci x) s = resOf s (firstMatch G inp [.lit x true] s.pos)) := by
  refine ⟨1, fun n hn => ?_⟩
  obtain ⟨m, rfl⟩ : ∃ m, n = m + 1 := ⟨n - 1, by omega⟩
  simp only [run, step, firstMatch, List.findSome?_cons, List.findSome?_nil, altMatch, adv]
  by_cases h : startsWithAtCI inp x s.pos = true <;> simp [h, resOf]

theorem range_sem (lo hi : CP) (s : S0) :
    Evt (fun n => run G inp n (.range lo hi) s = resOf s (firstMatch G inp [.range lo hi] s.pos)) := by
  refine ⟨1, fun n hn => ?_⟩
  obtain ⟨m, rfl⟩ : ∃ m, n = m + 1 := ⟨n - 1, by omega⟩
  simp only [run, step, firstMatch, List.findSome?_cons, List.findSome?_nil, altMatch, adv]
  cases inp[s.pos]? with
  | none => rfl
  | some c => by_cases h : (lo ≤ c && c ≤ hi) = true <;> simp [h, resOf]

/-- a silent embedded rule node over a pair-less terminal -/
theorem rule_resOf {rec : Sem0} {n : String} {m : Nat} {b : Expr} {s : S0} {o : Option Nat}
    (hs : hasBit m SILENT = true)
    (h : rec b { s with atomic := ruleAtomic n m s.atomic } = resOf { s with atomic := ruleAtomic n m s.atomic } o) :
    ruleApply rec n m b s = resOf s o := by
  unfold ruleApply
  rw [h]
  cases o with
  | none => rfl
  | some p => simp [resOf, ruleWrap, hs]

theorem uprop_sem (n : String) (m : Nat) (sm : Bool) (hs : hasBit m SILENT = true) (s : S0) :
    Evt (fun k => run G inp k (.rule n m sm (.uprop n)) s = resOf s (firstMatch G inp [.uprop n] s.pos)) := by
  refine ⟨2, fun k hk => ?_⟩
  obtain ⟨j, rfl⟩ : ∃ j, k = j + 2 := ⟨k - 2, by omega⟩
  show ruleApply (run G inp (j + 1)) n m (.uprop n) s = _
  apply rule_resOf hs
  simp only [run, step, firstMatch, List.findSome?_cons, List.findSome?_nil, altMatch, adv]
  cases inp[s.pos]? with
  | none => rfl
  | some c => by_cases h : G.uprop n c = true <;> simp [h, resOf]

theorem optChoice_sem {alts : List Alt} (hne : alts ≠ []) (hok : ∀ a ∈ alts, AltOK a)
    (hpw : alts.Pairwise (fun a b => compat G a b = true)) (s : S0) :
    Evt (fun k => run G inp k (.optChoice alts false) s = resOf s (firstMatch G inp alts s.pos)) := by
  refine ⟨1, fun k hk => ?_⟩
  obtain ⟨j, rfl⟩ : ∃ j, k = j + 1 := ⟨k - 1, by omega⟩
  rw [optChoice_run inp G hne j s, optRes, optMatchOnce_eq_first G inp hpw hok]
  cases firstMatch G inp alts s.pos <;> rfl

theorem squash_sem : ∀ (k : Nat) (es : List Expr) (acc alts : List Alt),
    Opt.squash k es acc = some alts → AllNL SqOK es →
    ∃ new, alts = acc ++ new ∧
      (new.Pairwise (fun a b => compat G a b = true) → ∀ s : S0,
        Evt (fun n => choiceL (run G inp n) es s = resOf s (firstMatch G inp new s.pos))) := by
  intro k
  induction k with
  | zero => intro es acc alts h; simp [Opt.squash] at h
  | succ k ih =>
    intro es acc alts h hes
    cases es with
    | nil =>
      simp only [Opt.squash, Option.some.injEq] at h
      subst h
      exact ⟨[], by simp, fun _ s => Evt.const rfl⟩
    | cons e rest =>
      simp only [Opt.squash] at h
      split at h
      · exact absurd h (by simp)
      · rename_i acc' hone
        obtain ⟨newr, hr1, hr2⟩ := ih rest acc' alts h hes.2
        -- every kind of element: its own new alternatives `newe`, and its meaning
        have key : ∀ newe : List Alt, acc' = acc ++ newe →
            (newe.Pairwise (fun a b => compat G a b = true) → ∀ s : S0,
              Evt (fun n => run G inp n e s = resOf s (firstMatch G inp newe s.pos))) →
            ∃ new, alts = acc ++ new ∧
              (new.Pairwise (fun a b => compat G a b = true) → ∀ s : S0,
                Evt (fun n => choiceL (run G inp n) (e :: rest) s = resOf s (firstMatch G inp new s.pos))) := by
          intro newe he1 he2
          refine ⟨newe ++ newr, by rw [hr1, he1, List.append_assoc], fun hpw s => ?_⟩
          rw [List.pairwise_append] at hpw
          rw [firstMatch_append]
          exact choice_cons_sem G inp (he2 hpw.1 s) (hr2 hpw.2.1 s)
        cases e with
        | str x =>
          simp only [Option.some.injEq] at hone
          exact key [.lit x false] hone.symm fun _ s => str_sem G inp x s
        | ci x =>
          simp only [Option.some.injEq] at hone
          exact key [.lit x true] hone.symm fun _ s => ci_sem G inp x s
        | range lo hi =>
          simp only [Option.some.injEq] at hone
          exact key [.range lo hi] hone.symm fun _ s => range_sem G inp lo hi s
        | optChoice al st =>
          simp only [Option.some.injEq] at hone
          have hok : SqOK (.optChoice al st) := hes.1
          obtain ⟨rfl, hne, haok⟩ := hok
          exact key al hone.symm fun hpw s => optChoice_sem G inp hne haok hpw s
        | choice es1 =>
          simp only [] at hone
          obtain ⟨newe, he1, he2⟩ := ih es1 acc acc' hone hes.1.2
          refine key newe he1 fun hpw s => ?_
          exact Evt.shift ((he2 hpw s).mono fun n hn => hn)
        | rule n m sm b =>
          have hok : SqOK (.rule n m sm b) := hes.1.1
          cases b with
          | uprop pn =>
            simp only [Option.some.injEq] at hone
            obtain ⟨this, hsil⟩ := hok.1 pn rfl
            subst this
            exact key [.uprop pn] hone.symm fun _ s => uprop_sem G inp pn m sm hsil s
          | choice es1 =>
            simp only [] at hone
            obtain ⟨newe, he1, he2⟩ := ih es1 acc acc' hone hes.1.2.2
            refine key newe he1 fun hpw s => ?_
            refine Evt.shift (Evt.shift ((he2 hpw { s with atomic := ruleAtomic n m s.atomic }).mono fun j hj => ?_))
            show ruleApply (run G inp (j + 1)) n m (.choice es1) s = _
            exact rule_resOf (hok.2 es1 rfl) hj
          | _ => simp at hone
        | _ => simp at hone

theorem accepts_congr {G' : Grammar} (hu : G'.usets = G.usets) : Opt.accepts G' = Opt.accepts G := by
  funext a ch
  rw [accepts_eq, accepts_eq]
  cases a with
  | uprop n => simp only [singleAcc, uprop_congr G G' hu]
  | lit s ci =>
    cases s with
    | nil => cases ci <;> rfl
    | cons x t => cases t with
      | nil => cases ci <;> rfl
      | cons _ _ => cases ci <;> rfl
  | range _ _ => rfl

theorem compat_congr {G' : Grammar} (hu : G'.usets = G.usets) : compat G' = compat G := by
  funext a b
  unfold compat
  rw [accepts_congr G hu]

/-- **`squash_choice` is sound** -/
theorem squashSem : SquashSem := by
  intro G G' inp es' alts s hu hpat
  obtain ⟨k, hk, hne, hop, hall⟩ := hpat
  obtain ⟨new, h1, h2⟩ := squash_sem G' inp k es' [] alts hk hall
  simp only [List.nil_append] at h1
  subst h1
  have hpw : alts.Pairwise (fun a b => compat G' a b = true) := by
    rw [compat_congr G hu]; exact op_pairwise G hop
  have hok := squash_altOK k es' [] alts hk hall (fun a ha => by simp at ha)
  obtain ⟨N, hN⟩ := h2 hpw s
  refine ⟨N + 1, ?_, optRes_ne_oof inp G' alts s⟩
  show choiceL (run G' inp N) es' s = _
  rw [hN N (Nat.le_refl _), optRes, optMatchOnce_eq_first G' inp hpw hok]
  cases firstMatch G' inp alts s.pos <;> rfl

/-! ### the builder: `squash_choice` computes `TR`-related bodies -/

theorem SqOK_of_NodeOK {sg : String → Option (String × Nat)} (x : Expr) (h : NodeOK sg x) : SqOK x := by
  cases x with
  | rule n m sm b =>
    simp only [NodeOK] at h
    obtain ⟨_, _, _, _, _, hsil, heoi, hup, _⟩ := h
    have hs : b ≠ .eoiB → hasBit m SILENT = true := by
      intro hb
      apply hsil
      intro hn
      exact hb (heoi hn)
    refine ⟨fun pn hb => ⟨hup pn hb, hs (by rw [hb]; simp)⟩, fun es hb => hs (by rw [hb]; simp)⟩
  | choice es => exact h
  | optChoice alts star => exact h
  | range a b => exact h
  | _ => trivial

theorem squash_length : ∀ (k : Nat) (es : List Expr) (acc alts : List Alt),
    Opt.squash k es acc = some alts → AllNL SqOK es →
    acc.length ≤ alts.length ∧ (es ≠ [] → acc.length < alts.length) := by
  intro k
  induction k with
  | zero => intro es acc alts h; simp [Opt.squash] at h
  | succ k ih =>
    intro es acc alts h hes
    cases es with
    | nil =>
      simp only [Opt.squash, Option.some.injEq] at h
      subst h; exact ⟨Nat.le_refl _, fun h => absurd rfl h⟩
    | cons e rest =>
      simp only [Opt.squash] at h
      split at h
      · exact absurd h (by simp)
      · rename_i acc' hone
        have hr := (ih rest acc' alts h hes.2).1
        have he : acc.length < acc'.length := by
          cases e with
          | str x => simp only [Option.some.injEq] at hone; subst hone; simp
          | ci x => simp only [Option.some.injEq] at hone; subst hone; simp
          | range lo hi => simp only [Option.some.injEq] at hone; subst hone; simp
          | optChoice al st =>
            simp only [Option.some.injEq] at hone; subst hone
            have : SqOK (.optChoice al st) := hes.1
            have hne := this.2.1
            cases al with
            | nil => exact absurd rfl hne
            | cons _ _ => simp
          | choice es1 =>
            simp only [] at hone
            exact (ih es1 acc acc' hone hes.1.2).2 hes.1.1
          | rule n m sm b =>
            cases b with
            | uprop pn => simp only [Option.some.injEq] at hone; subst hone; simp
            | choice es1 =>
              simp only [] at hone
              exact (ih es1 acc acc' hone hes.1.2.2).2 hes.1.2.1
            | _ => simp at hone
          | _ => simp at hone
        exact ⟨by omega, fun _ => by omega⟩

theorem op_iff (alts : List Alt) :
    Opt.isOrderPreserving G alts = true ↔ alts.Pairwise (fun a b => compat G a b = true) := by
  unfold Opt.isOrderPreserving
  rw [go_iff]
  simp

theorem op_congr {G' : Grammar} (hu : G'.usets = G.usets) (alts : List Alt) :
    Opt.isOrderPreserving G' alts = Opt.isOrderPreserving G alts := by
  rw [Bool.eq_iff_iff, op_iff, op_iff, compat_congr G hu]

variable {F : Feat} {sg : String → Option (String × Nat)}

theorem squashChoice_root {g : Grammar} (hu : G.usets = g.usets) (hF : F.squash = true)
    (hsig : ∀ n, sigOf G n = sg n)
    (hG : ∀ n r, G.lookup n = some r → hasBit r.mod ATOMIC = false → AllN (NodeOK sg) r.body)
    {a : Bool} {e x : Expr} (he : AllN (NodeOK sg) e) (h : Cong1 a (TR F G a) e x) :
    TR F G a e (Opt.squashChoice g x) := by
  cases h with
  | @choice es es' hl hh =>
    simp only [Opt.squashChoice]
    cases hsq : Opt.squash 1000 es' [] with
    | none => exact .choice hl hh
    | some alts =>
      dsimp only
      by_cases hop : Opt.isOrderPreserving g alts = true
      · rw [if_pos hop]
        have hx : AllN (NodeOK sg) (.choice es') := (TR.choice hl hh : TR F G a _ _).allN hsig hG he
        have hall : AllNL SqOK es' := AllNL.imp2 (fun y hy => SqOK_of_NodeOK y hy.root) es' hx.2
        have hne : es' ≠ [] := hx.1
        have hlen := (squash_length 1000 es' [] alts hsq hall).2 hne
        refine .squash hF hl hh ⟨1000, hsq, ?_, ?_, hall⟩
        · intro h0; rw [h0] at hlen; simp at hlen
        · rw [op_congr g hu]; exact hop
      · rw [if_neg hop]; exact .choice hl hh
  | term ht => cases e <;> simp [isTerm] at ht <;> exact .term rfl
  | ident => exact .ident
  | rule => exact .rule
  | ruleC hra h => exact .ruleC hra h
  | seq hl hh => exact .seq hl hh
  | opt h => exact .opt h
  | rep h => exact .rep h
  | rep1 h => exact .rep1 h
  | repExact h => exact .repExact h
  | repMin h => exact .repMin h
  | repMax h => exact .repMax h
  | repMinMax h => exact .repMinMax h
  | andP h => exact .andP h
  | notP h => exact .notP h
  | group h => exact .group h
  | push h => exact .push h

theorem squashChoice_TR {g : Grammar} (hu : G.usets = g.usets) (hF : F.squash = true) (hinv : Inv F sg G)
    (a : Bool) (e : Expr) (he : AllN (NodeOK sg) e) :
    TR F G a e (Opt.mapBottomUp (Opt.squashChoice g) e) :=
  bottomUp_TR _ a (fun _ _ he h => squashChoice_root G hu hF hinv.sig hinv.lookup_nodes he h) e he

end OptS
end Pest
