/-
  Lemmas/LineCol.lean — the line/column utilities of `LineCol.lean` meet their specification.

  Plan.  For a text whose only line boundary is `\n`:
    * `splitRaw` coincides with the plain `\n` splitter `lfRaw` (`splitRaw_onlyLF`), whose
      lines are well formed (`RawOK`/`LinesOK`: every line but the last ends with its only
      `\n`, an unterminated last line is non-empty) and concatenate to the text;
    * `findLine_spec` characterises the shared Python loop over any well-formed line list
      by induction on it: where it breaks, the number of `\n` before the position, the
      distance to the last `\n`, and which line it is;
    * `findLine_top` specialises this to the whole text and adds the two fall-through cases
      (end of an empty / `\n`-terminated text, end of an unterminated last line).
  `Props/C14.lean` and `Props/C13Text.lean` read the theorems off `findLine_top`.
-/
import PestModel.LineCol

namespace Pest
namespace LineCol

/-! ### counting `\n` and the `\n`-free suffix -/

/-- length of the longest `\n`-free suffix -/
def sufLen (x : Text) : Nat := (x.reverse.takeWhile (· != 10)).length

theorem colOff_eq (t : Text) (p : Nat) : colOff t p = sufLen (t.take p) := rfl
theorem lineIdx_eq (t : Text) (p : Nat) : lineIdx t p = (t.take p).count 10 := rfl

@[simp] theorem sufLen_nil : sufLen [] = 0 := rfl

theorem sufLen_le (x : Text) : sufLen x ≤ x.length := by
  unfold sufLen
  have := (List.takeWhile_sublist (l := x.reverse) (· != 10)).length_le
  simpa using this

theorem takeWhile_append_of_exists {α} {p : α → Bool} {l₁ l₂ : List α}
    (h : ∃ a ∈ l₁, p a = false) : (l₁ ++ l₂).takeWhile p = l₁.takeWhile p := by
  induction l₁ with
  | nil => simp at h
  | cons x xs ih =>
    by_cases hx : p x = true
    · have : ∃ a ∈ xs, p a = false := by
        obtain ⟨a, ha, hpa⟩ := h
        rcases List.mem_cons.mp ha with rfl | ha
        · simp [hx] at hpa
        · exact ⟨a, ha, hpa⟩
      simp [hx, ih this]
    · simp [hx]

theorem sufLen_append_of_not_mem {x y : Text} (h : 10 ∉ y) : sufLen (x ++ y) = sufLen x + y.length := by
  unfold sufLen
  rw [List.reverse_append, List.takeWhile_append_of_pos]
  · simp; omega
  · intro a ha
    have : a ∈ y := by simpa using ha
    simp
    intro h10; subst h10; exact h this

theorem sufLen_append_of_mem {x y : Text} (h : 10 ∈ y) : sufLen (x ++ y) = sufLen y := by
  unfold sufLen
  rw [List.reverse_append, takeWhile_append_of_exists]
  exact ⟨10, by simpa using h, by simp⟩

theorem sufLen_of_not_mem {y : Text} (h : 10 ∉ y) : sufLen y = y.length := by
  have := sufLen_append_of_not_mem (x := []) h
  simpa using this

theorem sufLen_append_lf (x : Text) : sufLen (x ++ [10]) = 0 := by
  rw [sufLen_append_of_mem (by simp)]; rfl

theorem not_mem_take {x : Text} (h : 10 ∉ x) (k : Nat) : 10 ∉ x.take k :=
  fun hm => h (List.mem_of_mem_take hm)

theorem takeLine_of_not_mem : ∀ {x : Text}, 10 ∉ x → takeLine x = x
  | [], _ => rfl
  | c :: rest, h => by
    have hc : c ≠ 10 := fun e => h (by simp [e])
    have hr : 10 ∉ rest := fun e => h (by simp [e])
    simp [takeLine, hc, takeLine_of_not_mem hr]

theorem takeLine_term : ∀ {b : Text} (y : Text), 10 ∉ b → takeLine (b ++ [10] ++ y) = b ++ [10]
  | [], y, _ => by simp [takeLine]
  | c :: rest, y, h => by
    have hc : c ≠ 10 := fun e => h (by simp [e])
    have hr : 10 ∉ rest := fun e => h (by simp [e])
    have := takeLine_term y hr
    simp [takeLine, hc] at this ⊢
    exact this

/-! ### well-formed line lists -/

/-- a line that ends with its only `\n` -/
def Term (l : Text) : Prop := ∃ b, l = b ++ [10] ∧ 10 ∉ b
/-- a non-empty line without `\n` -/
def Unterm (l : Text) : Prop := l ≠ [] ∧ 10 ∉ l

inductive LinesOK : List Text → Prop
  | nil : LinesOK []
  | last {l : Text} : Unterm l → LinesOK [l]
  | cons {l : Text} {ls : List Text} : Term l → LinesOK ls → LinesOK (l :: ls)

theorem Term.length_pos {l : Text} (h : Term l) : 0 < l.length := by
  obtain ⟨b, rfl, _⟩ := h; simp

theorem Term.count {l : Text} (h : Term l) : l.count 10 = 1 := by
  obtain ⟨b, rfl, hb⟩ := h
  simp [List.count_eq_zero_of_not_mem hb]

theorem Term.take_not_mem {l : Text} (h : Term l) {k : Nat} (hk : k < l.length) : 10 ∉ l.take k := by
  obtain ⟨b, rfl, hb⟩ := h
  have : k ≤ b.length := by simp at hk; omega
  rw [List.take_append_of_le_length this]
  exact not_mem_take hb k

theorem Term.sufLen_append {l : Text} (h : Term l) (y : Text) : sufLen (l ++ y) = sufLen y := by
  obtain ⟨b, rfl, _⟩ := h
  by_cases hy : 10 ∈ y
  · exact sufLen_append_of_mem hy
  · rw [sufLen_append_of_not_mem hy, sufLen_append_lf, sufLen_of_not_mem hy]; omega

theorem Term.takeLine_append {l : Text} (h : Term l) (y : Text) : takeLine (l ++ y) = l := by
  obtain ⟨b, rfl, hb⟩ := h
  exact takeLine_term y hb

theorem Term.getLast {l : Text} (h : Term l) : l.getLast? = some 10 := by
  obtain ⟨b, rfl, _⟩ := h; simp

/-! ### the loop -/

theorem findLine_lt (pos : Int) : ∀ (ls : List Text) (i cum j c : Nat),
    findLine pos ls i cum = (some j, c) → i ≤ j ∧ j < i + ls.length
  | [], i, cum, j, c, h => by simp [findLine] at h
  | l :: ls, i, cum, j, c, h => by
    simp only [findLine] at h
    split at h
    · simp at h; simp; omega
    · have := findLine_lt pos ls (i + 1) (cum + l.length) j c h
      simp; omega

theorem findLine_append (pos : Int) : ∀ (ls ms : List Text) (i cum : Nat),
    findLine pos (ls ++ ms) i cum =
      match findLine pos ls i cum with
      | (some j, c) => (some j, c)
      | (none, c) => findLine pos ms (i + ls.length) c
  | [], ms, i, cum => by simp [findLine]
  | l :: ls, ms, i, cum => by
    simp only [List.cons_append, findLine]
    split
    · rfl
    · rw [findLine_append pos ls ms (i + 1) (cum + l.length)]
      simp [Nat.add_assoc, Nat.add_comm 1]

/-- The loop on a well-formed line list, for a position `k` characters into it: either it
    breaks at line `m` — then `m` is the number of `\n` before the position, the position's
    distance from the start of that line is the length of the `\n`-free suffix before it,
    and the line is the one cut out by `takeLine` — or it runs to the end and the position is
    the end of the text. -/
theorem findLine_spec {ls : List Text} (h : LinesOK ls) :
    ∀ (i cum k : Nat), k ≤ ls.flatten.length →
      (∃ m l c, findLine ((cum + k : Nat) : Int) ls i cum = (some (i + m), c) ∧ ls[m]? = some l ∧
          m = (ls.flatten.take k).count 10 ∧
          cum + k + l.length = c + sufLen (ls.flatten.take k) ∧
          l = takeLine (ls.flatten.drop (k - sufLen (ls.flatten.take k))))
      ∨ (findLine ((cum + k : Nat) : Int) ls i cum = (none, cum + ls.flatten.length) ∧
          k = ls.flatten.length) := by
  induction h with
  | nil =>
    intro i cum k hk
    right
    simp at hk
    simp [findLine, hk]
  | @last l hl =>
    intro i cum k hk
    simp only [List.flatten_cons, List.flatten_nil, List.append_nil] at hk ⊢
    by_cases hlt : k < l.length
    · left
      refine ⟨0, l, cum + l.length, ?_, by simp, ?_, ?_, ?_⟩
      · have : ((cum + k : Nat) : Int) < ((cum + l.length : Nat) : Int) := by omega
        rw [findLine, if_pos this]; simp
      · exact (List.count_eq_zero_of_not_mem (not_mem_take hl.2 k)).symm
      · rw [sufLen_of_not_mem (not_mem_take hl.2 k)]; simp; omega
      · rw [sufLen_of_not_mem (not_mem_take hl.2 k)]
        have : k - (List.take k l).length = 0 := by simp; omega
        rw [this]; simp [takeLine_of_not_mem hl.2]
    · right
      have hk' : k = l.length := by omega
      have : ¬ ((cum + k : Nat) : Int) < ((cum + l.length : Nat) : Int) := by omega
      rw [findLine, if_neg this, findLine, hk']; simp
  | @cons l ls hl _ ih =>
    intro i cum k hk
    simp only [List.flatten_cons, List.length_append] at hk ⊢
    by_cases hlt : k < l.length
    · left
      have htake : (l ++ ls.flatten).take k = l.take k :=
        List.take_append_of_le_length (by omega)
      refine ⟨0, l, cum + l.length, ?_, by simp, ?_, ?_, ?_⟩
      · have : ((cum + k : Nat) : Int) < ((cum + l.length : Nat) : Int) := by omega
        rw [findLine, if_pos this]; simp
      · rw [htake]; exact (List.count_eq_zero_of_not_mem (hl.take_not_mem hlt)).symm
      · rw [htake, sufLen_of_not_mem (hl.take_not_mem hlt)]; simp; omega
      · rw [htake, sufLen_of_not_mem (hl.take_not_mem hlt)]
        have : k - (List.take k l).length = 0 := by simp; omega
        rw [this]; simp [hl.takeLine_append]
    · have hge : l.length ≤ k := by omega
      have htake : (l ++ ls.flatten).take k = l ++ ls.flatten.take (k - l.length) := by
        rw [List.take_append]; simp [List.take_of_length_le hge]
      have hpos : cum + k = (cum + l.length) + (k - l.length) := by omega
      have hnot : ¬ ((cum + k : Nat) : Int) < ((cum + l.length : Nat) : Int) := by omega
      have hstep : findLine ((cum + k : Nat) : Int) (l :: ls) i cum =
          findLine (((cum + l.length) + (k - l.length) : Nat) : Int) ls (i + 1) (cum + l.length) := by
        rw [← hpos, findLine, if_neg hnot]
      rcases ih (i + 1) (cum + l.length) (k - l.length) (by omega) with
        ⟨m, l', c, hf, hget, hm, hc, hl'⟩ | ⟨hf, hk'⟩
      · left
        have hs := sufLen_le (ls.flatten.take (k - l.length))
        have hlen : (ls.flatten.take (k - l.length)).length ≤ k - l.length := by simp; omega
        refine ⟨m + 1, l', c, ?_, by simpa using hget, ?_, ?_, ?_⟩
        · rw [hstep, hf]; simp [Nat.add_assoc, Nat.add_comm 1]
        · rw [htake, List.count_append, hl.count, ← hm]; omega
        · rw [htake, hl.sufLen_append]; omega
        · rw [htake, hl.sufLen_append, hl']
          have : k - sufLen (ls.flatten.take (k - l.length)) =
              l.length + (k - l.length - sufLen (ls.flatten.take (k - l.length))) := by omega
          rw [this, List.drop_length_add_append]
      · right
        refine ⟨?_, by omega⟩
        rw [hstep, hf]; simp [Nat.add_assoc]

/-! ### `splitlines` on texts whose only line boundary is `\n` -/

/-- the plain `\n` splitter, as `(body, terminator)` pairs -/
def lfRaw : Text → List (Text × Text)
  | [] => []
  | c :: rest =>
    if c = 10 then ([], [10]) :: lfRaw rest
    else match lfRaw rest with
      | [] => [([c], [])]
      | (b, e) :: more => (c :: b, e) :: more

theorem OnlyLF.tail {c : Nat} {rest : Text} (h : OnlyLF (c :: rest)) : OnlyLF rest :=
  fun a ha => h a (List.mem_cons_of_mem _ ha)

theorem splitRaw_onlyLF : ∀ {t : Text}, OnlyLF t → splitRaw t false = lfRaw t
  | [], _ => rfl
  | c :: rest, h => by
    have ih := splitRaw_onlyLF h.tail
    by_cases hb : isBreak c = true
    · have hc : c = 10 := h c (by simp) hb
      subst hc
      simp [splitRaw, lfRaw, isBreak, ih]
    · have hc : c ≠ 10 := by
        intro e; subst e; exact hb (by decide)
      simp only [splitRaw, lfRaw, hb, hc, ih, if_false, Bool.false_eq_true]
      cases lfRaw rest with
      | nil => rfl
      | cons x more => rfl

inductive RawOK : List (Text × Text) → Prop
  | nil : RawOK []
  | last {b : Text} : b ≠ [] → 10 ∉ b → RawOK [(b, [])]
  | cons {b : Text} {raw : List (Text × Text)} : 10 ∉ b → RawOK raw → RawOK ((b, [10]) :: raw)

theorem lfRaw_ok : ∀ (t : Text), RawOK (lfRaw t)
  | [] => .nil
  | c :: rest => by
    have ih := lfRaw_ok rest
    by_cases hc : c = 10
    · simp only [lfRaw, hc, if_true]
      exact .cons (by simp) ih
    · simp only [lfRaw, hc, if_false]
      generalize lfRaw rest = raw at ih
      cases ih with
      | nil => exact .last (by simp) (by simp; exact fun e => hc e.symm)
      | last hb hn => exact .last (by simp) (by simp; exact ⟨fun e => hc e.symm, hn⟩)
      | cons hn hr => exact .cons (by simp; exact ⟨fun e => hc e.symm, hn⟩) hr

def keep (be : Text × Text) : Text := be.1 ++ be.2

theorem splitlines_true (t : Text) : splitlines true t = (splitRaw t false).map keep := by
  simp [splitlines, keep]

theorem splitlines_false (t : Text) : splitlines false t = (splitRaw t false).map (·.1) := by
  simp [splitlines]

theorem lfRaw_keep : ∀ (t : Text), (lfRaw t).map keep = specLines t
  | [] => rfl
  | c :: rest => by
    have ih := lfRaw_keep rest
    by_cases hc : c = 10
    · simp [lfRaw, specLines, hc, ih, keep]
    · simp only [lfRaw, specLines, hc, if_false, ← ih]
      cases lfRaw rest with
      | nil => simp [keep]
      | cons x more => obtain ⟨b, e⟩ := x; simp [keep]

/-- under `OnlyLF`, `splitlines(keepends=True)` is the specification's list of lines -/
theorem splitlines_onlyLF {t : Text} (h : OnlyLF t) : splitlines true t = specLines t := by
  rw [splitlines_true, splitRaw_onlyLF h, lfRaw_keep]

theorem RawOK.linesOK {raw : List (Text × Text)} (h : RawOK raw) : LinesOK (raw.map keep) := by
  induction h with
  | nil => exact .nil
  | last hb hn => exact .last ⟨by simpa [keep] using hb, by simpa [keep] using hn⟩
  | cons hn _ ih => exact .cons ⟨_, rfl, hn⟩ ih

theorem specLines_ok (t : Text) : LinesOK (specLines t) := by
  rw [← lfRaw_keep]; exact (lfRaw_ok t).linesOK

theorem specLines_flatten : ∀ (t : Text), (specLines t).flatten = t
  | [] => rfl
  | c :: rest => by
    have ih := specLines_flatten rest
    by_cases hc : c = 10
    · simp [specLines, hc, ih]
    · simp only [specLines, hc, if_false]
      cases hs : specLines rest with
      | nil => rw [hs] at ih; simp at ih; simp [← ih]
      | cons l more => rw [hs] at ih; simp at ih; simp [← ih]

/-- the last line of a well-formed raw list -/
theorem RawOK.last_cases {raw : List (Text × Text)} (h : RawOK raw) :
    raw = [] ∨ (∃ b, raw.getLast? = some (b, [10]) ∧ 10 ∉ b) ∨
      (∃ b, raw.getLast? = some (b, []) ∧ b ≠ [] ∧ 10 ∉ b) := by
  induction h with
  | nil => exact .inl rfl
  | last hb hn => exact .inr (.inr ⟨_, rfl, hb, hn⟩)
  | @cons b raw hn hr ih =>
    right
    rcases ih with rfl | ⟨b', hl, hb'⟩ | ⟨b', hl, hb'⟩
    · exact .inl ⟨b, rfl, hn⟩
    · left; refine ⟨b', ?_, hb'⟩
      cases raw with
      | nil => simp at hl
      | cons x xs => simpa using hl
    · right; refine ⟨b', ?_, hb'⟩
      cases raw with
      | nil => simp at hl
      | cons x xs => simpa using hl

/-- what `not lines or lines[-1] != text.splitlines()[-1]` computes on an `OnlyLF` text -/
theorem endsOnNewLine_onlyLF {t : Text} (h : OnlyLF t) :
    (endsOnNewLine t (splitlines true t) = some true ∧
        ∀ l, (specLines t).getLast? = some l → Term l) ∨
    (endsOnNewLine t (splitlines true t) = some false ∧
        ∃ l, (specLines t).getLast? = some l ∧ Unterm l) := by
  have hk := lfRaw_keep t
  rw [endsOnNewLine, splitlines_true, splitlines_false, splitRaw_onlyLF h, ← hk]
  rcases (lfRaw_ok t).last_cases with he | ⟨b, hl, hb⟩ | ⟨b, hl, hb, hn⟩
  · left; simp [he]
  · left
    have hne : lfRaw t ≠ [] := by intro e; simp [e] at hl
    refine ⟨?_, ?_⟩
    · simp [hne, List.getLast?_map, hl, keep]
    · intro l hl'
      simp [List.getLast?_map, hl, keep] at hl'
      exact ⟨b, hl'.symm, hb⟩
  · right
    have hne : lfRaw t ≠ [] := by intro e; simp [e] at hl
    refine ⟨?_, b, ?_, hb, hn⟩
    · simp [hne, List.getLast?_map, hl, keep]
    · simp [List.getLast?_map, hl, keep]

/-- totals over a well-formed line list, by the kind of its last line -/
theorem LinesOK.end_facts {ls : List Text} (h : LinesOK ls) :
    ((∀ l, ls.getLast? = some l → Term l) →
        ls.flatten.count 10 = ls.length ∧ sufLen ls.flatten = 0) ∧
    (∀ l, ls.getLast? = some l → Unterm l →
        ls.flatten.count 10 + 1 = ls.length ∧ sufLen ls.flatten = l.length ∧
        ls[ls.length - 1]? = some l ∧ ls.flatten.drop (ls.flatten.length - l.length) = l) := by
  induction h with
  | nil => simp
  | @last l hl =>
    refine ⟨fun ht => ?_, fun l' hl' _ => ?_⟩
    · have := (ht l rfl).getLast
      have hm : 10 ∈ l := by
        have := List.mem_of_getLast? this
        exact this
      exact absurd hm hl.2
    · simp at hl'; subst hl'
      simp [List.count_eq_zero_of_not_mem hl.2, sufLen_of_not_mem hl.2]
  | @cons l ls hl hr ih =>
    have hlast : ∀ x, (l :: ls).getLast? = some x → ls = [] ∧ x = l ∨ ls.getLast? = some x := by
      intro x hx
      cases ls with
      | nil => left; simp at hx; exact ⟨rfl, hx.symm⟩
      | cons y ys => right; simpa using hx
    refine ⟨fun ht => ?_, fun l' hl' hu => ?_⟩
    · have := ih.1 (fun x hx => ht x (by
        cases ls with
        | nil => simp at hx
        | cons y ys => simpa using hx))
      simp only [List.flatten_cons, List.count_append, hl.count, List.length_cons, hl.sufLen_append]
      omega
    · rcases hlast l' hl' with ⟨_, rfl⟩ | hx
      · obtain ⟨b, rfl, _⟩ := hl
        exact absurd (by simp) hu.2
      · have := ih.2 l' hx hu
        have hpos : 0 < ls.length := by
          cases ls with
          | nil => simp at hx
          | cons y ys => simp
        have hle : l'.length ≤ ls.flatten.length := by
          have := sufLen_le ls.flatten; omega
        simp only [List.flatten_cons, List.count_append, hl.count, List.length_cons,
          hl.sufLen_append, List.length_append]
        refine ⟨by omega, this.2.1, ?_, ?_⟩
        · have : ls.length + 1 - 1 = (ls.length - 1) + 1 := by omega
          rw [this, List.getElem?_cons_succ]; exact ‹_ ∧ _ ∧ _ ∧ _›.2.2.1
        · have : l.length + ls.flatten.length - l'.length =
              l.length + (ls.flatten.length - l'.length) := by omega
          rw [this, List.drop_length_add_append]; exact ‹_ ∧ _ ∧ _ ∧ _›.2.2.2

/-- **The loop on a whole `OnlyLF` text**, with the two fall-through cases. -/
theorem findLine_top {t : Text} (h : OnlyLF t) {p : Nat} (hp : p ≤ t.length) :
    (∃ c l, findLine (p : Int) (specLines t) 0 0 = (some (lineIdx t p), c) ∧
        (specLines t)[lineIdx t p]? = some l ∧ l = specLineOf t p ∧
        p + l.length = c + colOff t p)
    ∨ (findLine (p : Int) (specLines t) 0 0 = (none, t.length) ∧ p = t.length ∧
        ((endsOnNewLine t (specLines t) = some true ∧ lineIdx t p = (specLines t).length ∧
            colOff t p = 0 ∧ specLineOf t p = [])
        ∨ (∃ l, endsOnNewLine t (specLines t) = some false ∧
            (specLines t)[(specLines t).length - 1]? = some l ∧
            lineIdx t p + 1 = (specLines t).length ∧ colOff t p = l.length ∧
            specLineOf t p = l))) := by
  have hok := specLines_ok t
  have hfl := specLines_flatten t
  have hsp := findLine_spec hok 0 0 p (by rw [hfl]; exact hp)
  rw [hfl] at hsp
  simp only [Nat.zero_add] at hsp
  rcases hsp with ⟨m, l, c, hf, hget, hm, hc, hl⟩ | ⟨hf, hpe⟩
  · left
    refine ⟨c, l, ?_, ?_, ?_, ?_⟩
    · rw [hf, lineIdx_eq, ← hm]
    · rw [lineIdx_eq, ← hm]; exact hget
    · rw [hl]; rfl
    · rw [colOff_eq]; omega
  · right
    refine ⟨hf, hpe, ?_⟩
    have htake : t.take p = t := by rw [hpe]; exact List.take_length
    have hend := hok.end_facts
    rw [hfl] at hend
    have hes := endsOnNewLine_onlyLF h
    rw [splitlines_onlyLF h] at hes
    rcases hes with ⟨he, hterm⟩ | ⟨he, l, hlast, hu⟩
    · left
      obtain ⟨hcnt, hsuf⟩ := hend.1 hterm
      refine ⟨he, ?_, ?_, ?_⟩
      · rw [lineIdx_eq, htake]; exact hcnt
      · rw [colOff_eq, htake]; exact hsuf
      · rw [specLineOf, colOff_eq, htake, hsuf, hpe]; simp [takeLine]
    · right
      obtain ⟨hcnt, hsuf, hget, hdrop⟩ := hend.2 l hlast hu
      refine ⟨l, he, hget, ?_, ?_, ?_⟩
      · rw [lineIdx_eq, htake]; exact hcnt
      · rw [colOff_eq, htake]; exact hsuf
      · rw [specLineOf, colOff_eq, htake, hsuf, hpe, hdrop]; exact takeLine_of_not_mem hu.2

/-! ### monotonicity of the line index -/

theorem lineIdx_mono (t : Text) {p q : Nat} (h : p ≤ q) : lineIdx t p ≤ lineIdx t q := by
  obtain ⟨d, rfl⟩ := Nat.exists_eq_add_of_le h
  rw [lineIdx_eq, lineIdx_eq, List.take_add, List.count_append]; omega

theorem lineIdx_succ_le (t : Text) (p : Nat) : lineIdx t (p + 1) ≤ lineIdx t p + 1 := by
  rw [lineIdx_eq, lineIdx_eq, List.take_add, List.count_append]
  have := List.count_le_length (a := 10) (l := (t.drop p).take 1)
  have : ((t.drop p).take 1).length ≤ 1 := by simp; omega
  omega

/-- between two offsets on the same line the column strictly increases -/
theorem colOff_lt_of_lineIdx_eq (t : Text) {p q : Nat} (hpq : p < q) (hq : q ≤ t.length)
    (hl : lineIdx t p = lineIdx t q) : colOff t p < colOff t q := by
  obtain ⟨d, rfl⟩ := Nat.exists_eq_add_of_le (Nat.le_of_lt hpq)
  rw [lineIdx_eq, lineIdx_eq, List.take_add, List.count_append] at hl
  have hz : ((t.drop p).take d).count 10 = 0 := by omega
  have hn : 10 ∉ (t.drop p).take d := List.count_eq_zero.mp hz
  rw [colOff_eq, colOff_eq, List.take_add, sufLen_append_of_not_mem hn]
  have : ((t.drop p).take d).length = d := by simp; omega
  omega

/-! ### totality on arbitrary texts (full separator set) -/

theorem endsOnNewLine_total (t : Text) :
    ∃ b, endsOnNewLine t (splitlines true t) = some b ∧ (b = false → splitlines true t ≠ []) := by
  rw [endsOnNewLine, splitlines_true, splitlines_false]
  cases hr : splitRaw t false with
  | nil => exact ⟨true, by simp, by simp⟩
  | cons x xs =>
    have h1 : ((x :: xs).map keep).getLast?.isSome := by simp
    have h2 : ((x :: xs).map (·.1)).getLast?.isSome := by simp
    obtain ⟨a, ha⟩ := Option.isSome_iff_exists.mp h1
    obtain ⟨b, hb⟩ := Option.isSome_iff_exists.mp h2
    refine ⟨a != b, ?_, by simp⟩
    simp only [ha, hb]
    simp

/-- the three exits of `Position.line_col` -/
theorem pyLineCol_found {t : Text} {p i cum : Nat} {l : Text}
    (hf : findLine (p : Int) (splitlines true t) 0 0 = (some i, cum))
    (hl : (splitlines true t)[i]? = some l) :
    pyLineCol t p = some (i + 1, (p : Int) - ((cum : Int) - (l.length : Int)) + 1) := by
  simp [pyLineCol, hf, hl]

theorem pyLineCol_end_new {t : Text} {p cum : Nat}
    (hf : findLine (p : Int) (splitlines true t) 0 0 = (none, cum))
    (he : endsOnNewLine t (splitlines true t) = some true) :
    pyLineCol t p = some ((splitlines true t).length + 1, 1) := by
  simp [pyLineCol, hf, he]

theorem pyLineCol_end_last {t : Text} {p cum : Nat} {l : Text}
    (hf : findLine (p : Int) (splitlines true t) 0 0 = (none, cum))
    (he : endsOnNewLine t (splitlines true t) = some false)
    (hl : (splitlines true t)[(splitlines true t).length - 1]? = some l) :
    pyLineCol t p = some ((splitlines true t).length - 1 + 1,
      (p : Int) - ((cum : Int) - (l.length : Int)) + 1) := by
  simp [pyLineCol, hf, he, hl]

theorem pyLineCol_total (t : Text) (p : Nat) : (pyLineCol t p).isSome = true := by
  obtain ⟨b, hb, hne⟩ := endsOnNewLine_total t
  cases hf : findLine (p : Int) (splitlines true t) 0 0 with
  | mk found cum =>
    cases found with
    | some i =>
      have := (findLine_lt _ _ _ _ _ _ hf).2
      have hi : i < (splitlines true t).length := by omega
      rw [pyLineCol_found hf (List.getElem?_eq_getElem hi)]; rfl
    | none =>
      cases b with
      | true => rw [pyLineCol_end_new hf hb]; rfl
      | false =>
        have hpos : 0 < (splitlines true t).length := List.length_pos_iff.mpr (hne rfl)
        have hi : (splitlines true t).length - 1 < (splitlines true t).length := by omega
        rw [pyLineCol_end_last hf hb (List.getElem?_eq_getElem hi)]; rfl

/-- `pyLineCol` on an `OnlyLF` text, together with the line `lines[line_number - 1]` -/
theorem pyLineCol_onlyLF {t : Text} (h : OnlyLF t) {p : Nat} (hp : p ≤ t.length) :
    pyLineCol t p = some (1 + lineIdx t p, ((1 + colOff t p : Nat) : Int)) ∧
    ((specLines t)[lineIdx t p]? = some (specLineOf t p) ∨
      ((specLines t).length ≤ lineIdx t p ∧ specLineOf t p = [])) := by
  have hs := splitlines_onlyLF h
  rcases findLine_top h hp with ⟨c, l, hf, hget, hl, hc⟩ |
    ⟨hf, hpe, ⟨he, hli, hco, hlo⟩ | ⟨l, he, hget, hli, hco, hlo⟩⟩
  · rw [← hs] at hf hget
    refine ⟨?_, .inl (by rw [← hs, hget, hl])⟩
    rw [pyLineCol_found hf hget]
    congr 2
    · omega
    · omega
  · rw [← hs] at hf he
    refine ⟨?_, .inr ⟨by omega, hlo⟩⟩
    rw [pyLineCol_end_new hf he, hs, hli, hco]
    congr 2
    omega
  · rw [← hs] at hf he hget
    have hidx : lineIdx t p = (splitlines true t).length - 1 := by rw [hs]; omega
    refine ⟨?_, .inl (by rw [hidx, ← hs, hget, hlo])⟩
    rw [pyLineCol_end_last hf he hget, hs]
    congr 2
    · omega
    · omega

/-! ### `error_context` -/

/-- `lines` after `if not lines or lines[-1] != text.splitlines()[-1]: lines.append("")` -/
def ecLines (t : Text) (b : Bool) : List Text :=
  if b = true then splitlines true t ++ [[]] else splitlines true t

theorem errorContext_exit {t : Text} {index : Int} {b : Bool} {found : Option Nat} {cum : Nat}
    {l : Text} (he : endsOnNewLine t (splitlines true t) = some b)
    (hf : findLine index (ecLines t b) 0 0 = (found, cum))
    (hl : (ecLines t b)[found.getD ((ecLines t b).length - 1)]? = some l) :
    errorContext t index = some (rstrip l, found.getD ((ecLines t b).length - 1) + 1,
      index - ((cum : Int) - (l.length : Int)) + 1) := by
  unfold ecLines at hf hl ⊢
  simp only [errorContext, he, Option.bind_eq_bind, Option.bind_some, Option.pure_def]
  simp only [hf, hl, Option.bind_some]

theorem errorContext_total (t : Text) (index : Int) : (errorContext t index).isSome = true := by
  obtain ⟨b, hb, hne⟩ := endsOnNewLine_total t
  have hpos : 0 < (ecLines t b).length := by
    unfold ecLines
    cases b with
    | true => simp
    | false => simpa using List.length_pos_iff.mpr (hne rfl)
  cases hf : findLine index (ecLines t b) 0 0 with
  | mk found cum =>
    have hi : found.getD ((ecLines t b).length - 1) < (ecLines t b).length := by
      cases found with
      | some i => have := (findLine_lt _ _ _ _ _ _ hf).2; simp; omega
      | none => simp; omega
    rw [errorContext_exit hb hf (List.getElem?_eq_getElem hi)]; rfl

theorem errorContext_onlyLF {t : Text} (h : OnlyLF t) {p : Nat} (hp : p ≤ t.length) :
    errorContext t (p : Int) =
      some (rstrip (specLineOf t p), 1 + lineIdx t p, ((1 + colOff t p : Nat) : Int)) := by
  have hs := splitlines_onlyLF h
  obtain ⟨b, hb, -⟩ := endsOnNewLine_total t
  have hec : ∃ tl, ecLines t b = specLines t ++ tl := by
    unfold ecLines; rw [hs]
    cases b with
    | true => exact ⟨[[]], by simp⟩
    | false => exact ⟨[], by simp⟩
  obtain ⟨tl, htl⟩ := hec
  rcases findLine_top h hp with ⟨c, l, hf, hget, hl, hc⟩ |
    ⟨hf, hpe, ⟨he, hli, hco, hlo⟩ | ⟨l, he, hget, hli, hco, hlo⟩⟩
  · have hf' : findLine (p : Int) (ecLines t b) 0 0 = (some (lineIdx t p), c) := by
      rw [htl, findLine_append, hf]
    have hlt : lineIdx t p < (specLines t).length := by
      rcases Nat.lt_or_ge (lineIdx t p) (specLines t).length with h' | h'
      · exact h'
      · rw [List.getElem?_eq_none h'] at hget; cases hget
    have hl' : (ecLines t b)[(some (lineIdx t p)).getD ((ecLines t b).length - 1)]? = some l := by
      rw [htl]; simp only [Option.getD_some]
      rw [List.getElem?_append_left hlt]; exact hget
    rw [errorContext_exit hb hf' hl', hl]
    simp only [Option.getD_some, Option.some.injEq, Prod.mk.injEq]
    refine ⟨trivial, by omega, ?_⟩
    rw [← hl]; omega
  · rw [← hs] at he
    have hbt : b = true := by rw [he] at hb; cases hb; rfl
    subst hbt
    have hlines : ecLines t true = specLines t ++ [[]] := by simp [ecLines, hs]
    have hf' : findLine (p : Int) (ecLines t true) 0 0 = (none, t.length) := by
      rw [hlines, findLine_append, hf]
      have : ¬ (p : Int) < ((t.length + ([] : Text).length : Nat) : Int) := by simp; omega
      simp only []
      rw [findLine, if_neg this, findLine]; simp
    have hl' : (ecLines t true)[(none : Option Nat).getD ((ecLines t true).length - 1)]? = some [] := by
      rw [hlines]; simp
    rw [errorContext_exit hb hf' hl', hlo, hlines]
    simp only [Option.getD_none, List.length_append, List.length_cons, List.length_nil,
      Option.some.injEq, Prod.mk.injEq]
    refine ⟨trivial, by omega, by omega⟩
  · rw [← hs] at he
    have hbf : b = false := by rw [he] at hb; cases hb; rfl
    subst hbf
    have hlines : ecLines t false = specLines t := by simp [ecLines, hs]
    have hf' : findLine (p : Int) (ecLines t false) 0 0 = (none, t.length) := by rw [hlines, hf]
    have hl' : (ecLines t false)[(none : Option Nat).getD ((ecLines t false).length - 1)]? = some l := by
      rw [hlines]; simpa using hget
    rw [errorContext_exit hb hf' hl', hlo, hlines]
    simp only [Option.getD_none, Option.some.injEq, Prod.mk.injEq]
    refine ⟨trivial, by omega, by omega⟩

end LineCol
end Pest
