/-
  Lemmas/TreeWF.lean — well-formedness of parse trees (property C06).

  Part 1  `WFForest lo hi ps`: the pairs `ps` lie in `[lo, hi]`, in input order, pairwise
          disjoint, each with `start ≤ stop` and its children (recursively) inside its own span.
          Closure lemmas (`widen`, `append`, `visibleList_wf`, `eraseTagsL_wf`), an unfolded
          reading (`WFForest.iff_unfolded`) and a Boolean checker (`wfForestB`).
          `AllPairs P ps`: every pair at every depth satisfies `P` (= `∀ p ∈ flattenL ps, P p`).
  Part 2  the token / flatten views of `Pairs.lean`: `Balanced`, `check`, `tokens_balanced`,
          `tokens_sorted`, `flatten_is_preorder`, `tokens_length`.
  Part 3  bounds of the primitive matchers.
  Part 4  `spec_tree_wf`: every successful L0 run yields a well-formed forest inside
          `[s.pos, s'.pos] ⊆ [0, inp.size]`  (step-preservation pattern).
  Part 5  names: `Reach`, `NameOK`, `names_are_rules` (L0).
  Part 6  tags: `TagOK`, `tags_are_grammar_tags` (L1).
  Part 7  `root_single`.
-/
import PestModel.Pairs
import PestModel.Lemmas.Frame

namespace Pest

/-! ## Part 1: well-formed forests -/

/-- `ps` is a forest inside `[lo, hi]`: pairs in input order, pairwise disjoint (each starts
    where the previous one stopped, or later), `start ≤ stop`, children recursively inside the
    parent's span -/
inductive WFForest : Nat → Nat → List Pair → Prop
  | nil {lo hi : Nat} : lo ≤ hi → WFForest lo hi []
  | cons {lo hi : Nat} {n : String} {m s e : Nat} {ch : List Pair} {t : Option String}
      {rest : List Pair} :
      lo ≤ s → s ≤ e → WFForest s e ch → WFForest e hi rest →
      WFForest lo hi (.mk n m s e ch t :: rest)

namespace WFForest

theorem le {lo hi : Nat} {ps : List Pair} (h : WFForest lo hi ps) : lo ≤ hi := by
  induction h with
  | nil h => exact h
  | cons h1 h2 _ _ _ ih => omega

theorem widen {lo hi : Nat} {ps : List Pair} (h : WFForest lo hi ps) :
    ∀ {lo' hi' : Nat}, lo' ≤ lo → hi ≤ hi' → WFForest lo' hi' ps := by
  induction h with
  | nil h => intro lo' hi' h1 h2; exact .nil (by omega)
  | cons h1 h2 hc _ _ ih =>
    intro lo' hi' a b
    exact .cons (by omega) h2 hc (ih (Nat.le_refl _) b)

theorem append {a b c : Nat} {xs ys : List Pair} (h1 : WFForest a b xs) (h2 : WFForest b c ys) :
    WFForest a c (xs ++ ys) := by
  induction h1 with
  | nil h => exact h2.widen h (Nat.le_refl _)
  | cons g1 g2 hc _ _ ih => exact .cons g1 g2 hc (ih h2)

theorem single {lo hi s e : Nat} (n : String) (m : Nat) {ch : List Pair} (t : Option String)
    (h1 : lo ≤ s) (h2 : s ≤ e) (h3 : e ≤ hi) (hc : WFForest s e ch) :
    WFForest lo hi [.mk n m s e ch t] :=
  .cons h1 h2 hc (.nil h3)

end WFForest

theorem visibleList_cons (n : String) (m s e : Nat) (ch : List Pair) (t : Option String) (rest : List Pair) :
    visibleList (.mk n m s e ch t :: rest) =
      (if hasBit m COMPOUND || hasBit m NONATOMIC then [.mk n m s e ch t] else visibleList ch)
        ++ visibleList rest := by
  simp [visibleList, Pair.visible]

theorem visibleList_nil : visibleList [] = [] := by simp [visibleList]

/-- hoisting (`visible_in_atomic`) keeps order, disjointness and bounds -/
theorem visibleList_wf {lo hi : Nat} {ps : List Pair} (h : WFForest lo hi ps) :
    WFForest lo hi (visibleList ps) := by
  induction h with
  | nil h => rw [visibleList_nil]; exact .nil h
  | @cons lo hi n m s e ch t rest h1 h2 hc hr ihc ihr =>
    rw [visibleList_cons]
    by_cases hv : (hasBit m COMPOUND || hasBit m NONATOMIC) = true
    · simp only [hv, ↓reduceIte]
      exact .cons h1 h2 hc ihr
    · simp only [hv, Bool.false_eq_true, ↓reduceIte]
      exact (ihc.widen h1 (Nat.le_refl _)).append ihr

theorem eraseTagsL_nil : eraseTagsL [] = [] := by simp [eraseTagsL]

theorem eraseTagsL_cons (n : String) (m s e : Nat) (ch : List Pair) (t : Option String) (rest : List Pair) :
    eraseTagsL (.mk n m s e ch t :: rest) = .mk n m s e (eraseTagsL ch) none :: eraseTagsL rest := by
  simp [eraseTagsL, Pair.eraseTags]

theorem eraseTagsL_eq_nil {ps : List Pair} (h : eraseTagsL ps = []) : ps = [] := by
  cases ps with
  | nil => rfl
  | cons p ps => cases p; rw [eraseTagsL_cons] at h; cases h

theorem eraseTagsL_eq_cons {ps : List Pair} {n : String} {m s e : Nat} {ch : List Pair}
    {t : Option String} {rest : List Pair} (h : eraseTagsL ps = .mk n m s e ch t :: rest) :
    ∃ ch' t' rest', ps = .mk n m s e ch' t' :: rest' ∧ eraseTagsL ch' = ch ∧ eraseTagsL rest' = rest ∧
      t = none := by
  cases ps with
  | nil => rw [eraseTagsL_nil] at h; cases h
  | cons p ps =>
    cases p with
    | mk n' m' s' e' ch' t' =>
      rw [eraseTagsL_cons] at h
      simp only [List.cons.injEq, Pair.mk.injEq] at h
      obtain ⟨⟨rfl, rfl, rfl, rfl, h5, h6⟩, h7⟩ := h
      exact ⟨ch', t', ps, rfl, h5, h7, h6.symm⟩

/-- erasing tags does not change well-formedness: ← -/
theorem eraseTagsL_wf_mp {lo hi : Nat} {ps : List Pair} (h : WFForest lo hi ps) :
    WFForest lo hi (eraseTagsL ps) := by
  induction h with
  | nil h => rw [eraseTagsL_nil]; exact .nil h
  | cons h1 h2 _ _ ihc ihr => rw [eraseTagsL_cons]; exact .cons h1 h2 ihc ihr

theorem eraseTagsL_wf_mpr {lo hi : Nat} {qs : List Pair} (h : WFForest lo hi qs) :
    ∀ ps, eraseTagsL ps = qs → WFForest lo hi ps := by
  induction h with
  | nil h => intro ps e; rw [eraseTagsL_eq_nil e]; exact .nil h
  | cons h1 h2 _ _ ihc ihr =>
    intro ps e
    obtain ⟨ch', t', rest', rfl, e1, e2, _⟩ := eraseTagsL_eq_cons e
    exact .cons h1 h2 (ihc ch' e1) (ihr rest' e2)

/-- erasing tags does not change well-formedness -/
theorem eraseTagsL_wf {lo hi : Nat} {ps : List Pair} :
    WFForest lo hi (eraseTagsL ps) ↔ WFForest lo hi ps :=
  ⟨fun h => eraseTagsL_wf_mpr h ps rfl, eraseTagsL_wf_mp⟩

/-! ### the inductive, unfolded -/

/-- what `WFForest` says, without the inductive: every top-level pair `p` has
    `lo ≤ p.start ≤ p.stop ≤ hi` and its children form a forest inside `[p.start, p.stop]`;
    a pair that comes later in the list starts at or after the stop of every earlier one -/
def WFUnfolded (lo hi : Nat) (ps : List Pair) : Prop :=
  lo ≤ hi ∧
  (∀ p ∈ ps, lo ≤ p.start ∧ p.start ≤ p.stop ∧ p.stop ≤ hi ∧ WFForest p.start p.stop p.children) ∧
  ps.Pairwise (fun a b => a.stop ≤ b.start)

theorem WFForest.unfolded {lo hi : Nat} {ps : List Pair} (h : WFForest lo hi ps) :
    WFUnfolded lo hi ps := by
  induction h with
  | nil h => exact ⟨h, by simp, List.Pairwise.nil⟩
  | @cons lo hi n m s e ch t rest h1 h2 hc hr _ ihr =>
    obtain ⟨r1, r2, r3⟩ := ihr
    refine ⟨by omega, ?_, ?_⟩
    · intro p hp
      rcases List.mem_cons.mp hp with rfl | hp
      · exact ⟨h1, h2, r1, hc⟩
      · obtain ⟨a, b, c, d⟩ := r2 p hp
        exact ⟨by omega, b, c, d⟩
    · refine List.Pairwise.cons ?_ r3
      intro p hp
      exact (r2 p hp).1

theorem WFForest.of_unfolded {hi : Nat} {ps : List Pair} :
    ∀ {lo : Nat}, WFUnfolded lo hi ps → WFForest lo hi ps := by
  induction ps with
  | nil => intro lo h; exact .nil h.1
  | cons p rest ih =>
    intro lo h
    obtain ⟨h0, h1, h2⟩ := h
    cases p with
    | mk n m s e ch t =>
      obtain ⟨a, b, c, d⟩ := h1 _ (List.mem_cons_self ..)
      have h2' := List.pairwise_cons.mp h2
      refine .cons a b d (ih ⟨c, ?_, h2'.2⟩)
      intro q hq
      obtain ⟨_, b', c', d'⟩ := h1 q (List.mem_cons_of_mem _ hq)
      exact ⟨h2'.1 q hq, b', c', d'⟩

theorem WFForest.iff_unfolded {lo hi : Nat} {ps : List Pair} :
    WFForest lo hi ps ↔ WFUnfolded lo hi ps := ⟨WFForest.unfolded, WFForest.of_unfolded⟩

/-- index form of the ordering / disjointness clause -/
theorem WFForest.ordered {lo hi : Nat} {ps : List Pair} (h : WFForest lo hi ps) (i j : Nat)
    (hij : i < j) (hj : j < ps.length) : (ps[i]'(by omega)).stop ≤ (ps[j]'hj).start :=
  List.pairwise_iff_getElem.mp h.unfolded.2.2 i j (by omega) hj hij

/-! ### a Boolean checker (for the examples) -/

mutual
def Pair.wfB : Pair → Bool
  | .mk _ _ s e ch _ => decide (s ≤ e) && wfForestB s e ch
def wfForestB : Nat → Nat → List Pair → Bool
  | lo, hi, [] => decide (lo ≤ hi)
  | lo, hi, p :: rest => decide (lo ≤ p.start) && p.wfB && wfForestB p.stop hi rest
end

mutual
theorem Pair.wfB_sound : ∀ (p : Pair), p.wfB = true →
    p.start ≤ p.stop ∧ WFForest p.start p.stop p.children
  | .mk n m s e ch t => by
    intro h
    simp only [Pair.wfB, Bool.and_eq_true, decide_eq_true_eq] at h
    exact ⟨h.1, wfForestB_sound s e ch h.2⟩
theorem wfForestB_sound : ∀ (lo hi : Nat) (ps : List Pair), wfForestB lo hi ps = true → WFForest lo hi ps
  | lo, hi, [] => by
    intro h
    simp only [wfForestB, decide_eq_true_eq] at h
    exact .nil h
  | lo, hi, p :: rest => by
    intro h
    simp only [wfForestB, Bool.and_eq_true, decide_eq_true_eq] at h
    have h1 := Pair.wfB_sound p h.1.2
    have h2 := wfForestB_sound p.stop hi rest h.2
    cases p with
    | mk n m s e ch t => exact .cons h.1.1 h1.1 h1.2 h2
end

/-! ### "every pair at every depth" -/

inductive AllPairs (P : Pair → Prop) : List Pair → Prop
  | nil : AllPairs P []
  | cons {n : String} {m s e : Nat} {ch : List Pair} {t : Option String} {rest : List Pair} :
      P (.mk n m s e ch t) → AllPairs P ch → AllPairs P rest → AllPairs P (.mk n m s e ch t :: rest)

namespace AllPairs

theorem append {P : Pair → Prop} {xs ys : List Pair} (h1 : AllPairs P xs) (h2 : AllPairs P ys) :
    AllPairs P (xs ++ ys) := by
  induction h1 with
  | nil => exact h2
  | cons a b _ _ ih => exact .cons a b ih

theorem visible {P : Pair → Prop} {ps : List Pair} (h : AllPairs P ps) : AllPairs P (visibleList ps) := by
  induction h with
  | nil => rw [visibleList_nil]; exact .nil
  | @cons n m s e ch t rest a b c ihc ihr =>
    rw [visibleList_cons]
    by_cases hv : (hasBit m COMPOUND || hasBit m NONATOMIC) = true
    · simp only [hv, ↓reduceIte]; exact .cons a b ihr
    · simp only [hv, Bool.false_eq_true, ↓reduceIte]; exact ihc.append ihr

theorem mono {P Q : Pair → Prop} (hpq : ∀ p, P p → Q p) {ps : List Pair} (h : AllPairs P ps) :
    AllPairs Q ps := by
  induction h with
  | nil => exact .nil
  | cons a _ _ ihc ihr => exact .cons (hpq _ a) ihc ihr

/-- the reading: `P` holds of everything `Pairs.flatten()` yields -/
theorem flatten {P : Pair → Prop} {ps : List Pair} (h : AllPairs P ps) : ∀ p ∈ flattenL ps, P p := by
  induction h with
  | nil => intro p hp; rw [flattenL_nil] at hp; cases hp
  | cons a _ _ ihc ihr =>
    intro p hp
    rw [flattenL_cons] at hp
    rcases List.mem_append.mp hp with hp | hp
    · rcases List.mem_cons.mp hp with rfl | hp
      · exact a
      · exact ihc p hp
    · exact ihr p hp

/-- a predicate that does not look at tags (at any depth) survives `eraseTagsL`, backwards -/
theorem of_erase {P Q : Pair → Prop} (hpq : ∀ p, P p.eraseTags → Q p) {qs : List Pair}
    (h : AllPairs P qs) : ∀ ps, eraseTagsL ps = qs → AllPairs Q ps := by
  induction h with
  | nil => intro ps e; rw [eraseTagsL_eq_nil e]; exact .nil
  | @cons n m s e ch t rest a _ _ ihc ihr =>
    intro ps e
    obtain ⟨ch', t', rest', rfl, e1, e2, e3⟩ := eraseTagsL_eq_cons e
    refine .cons (hpq _ ?_) (ihc ch' e1) (ihr rest' e2)
    simp only [Pair.eraseTags, e1]
    rw [← e3]; exact a

end AllPairs

mutual
theorem Pair.allPairs_of_flatten {P : Pair → Prop} : ∀ (p : Pair), (∀ q ∈ p.flatten, P q) →
    P p ∧ AllPairs P p.children
  | .mk n m s e ch t => by
    intro h
    simp only [Pair.flatten] at h
    exact ⟨h _ (List.mem_cons_self ..), allPairs_of_flatten ch (fun q hq => h q (List.mem_cons_of_mem _ hq))⟩
theorem allPairs_of_flatten {P : Pair → Prop} : ∀ (ps : List Pair), (∀ q ∈ flattenL ps, P q) → AllPairs P ps
  | [] => fun _ => .nil
  | p :: rest => by
    intro h
    simp only [flattenL] at h
    have h1 := Pair.allPairs_of_flatten p (fun q hq => h q (List.mem_append_left _ hq))
    have h2 := allPairs_of_flatten rest (fun q hq => h q (List.mem_append_right _ hq))
    cases p with
    | mk n m s e ch t => exact .cons h1.1 h1.2 h2
end

theorem allPairs_iff_flatten {P : Pair → Prop} {ps : List Pair} :
    AllPairs P ps ↔ ∀ p ∈ flattenL ps, P p := ⟨AllPairs.flatten, allPairs_of_flatten ps⟩

/-! ## Part 2: tokens and flatten -/

/-- Dyck words with matching rule names -/
inductive Balanced : List Tok → Prop
  | nil : Balanced []
  | wrap {n : String} {p q : Nat} {w : List Tok} : Balanced w → Balanced (.start n p :: w ++ [.stop n q])
  | append {a b : List Tok} : Balanced a → Balanced b → Balanced (a ++ b)

/-- the usual stack machine: push the name on `Start`, pop and compare on `End`, accept on an
    empty stack at the end -/
def check : List String → List Tok → Bool
  | st, [] => st.isEmpty
  | st, .start n _ :: w => check (n :: st) w
  | [], .stop _ _ :: _ => false
  | m :: st, .stop n _ :: w => m == n && check st w

theorem Balanced.check_append {w : List Tok} (h : Balanced w) :
    ∀ (st : List String) (rest : List Tok), check st (w ++ rest) = check st rest := by
  induction h with
  | nil => intro st rest; rfl
  | @wrap n p q w _ ih =>
    intro st rest
    have : (Tok.start n p :: w ++ [Tok.stop n q]) ++ rest = Tok.start n p :: (w ++ (Tok.stop n q :: rest)) := by
      simp
    rw [this]
    simp only [check]
    rw [ih]
    simp [check]
  | append _ _ iha ihb =>
    intro st rest
    rw [List.append_assoc, iha, ihb]

/-- the inductive notion implies acceptance by the stack machine -/
theorem Balanced.check {w : List Tok} (h : Balanced w) : check [] w = true := by
  have := h.check_append [] []
  rw [List.append_nil] at this
  rw [this]; rfl

mutual
theorem Pair.tokens_balanced : ∀ p : Pair, Balanced p.tokens
  | .mk n m s e ch t => by
    simp only [Pair.tokens]
    exact .wrap (tokensL_balanced ch)
theorem tokensL_balanced : ∀ ps : List Pair, Balanced (tokensL ps)
  | [] => by rw [tokensL_nil]; exact .nil
  | p :: rest => by
    simp only [tokensL]
    exact .append (Pair.tokens_balanced p) (tokensL_balanced rest)
end

/-- **`tokens()` is a balanced Start/End stream** (for any list of pairs) -/
theorem tokens_balanced (ps : List Pair) : Balanced (tokensL ps) ∧ check [] (tokensL ps) = true :=
  ⟨tokensL_balanced ps, (tokensL_balanced ps).check⟩

/-- a list of positions is non-decreasing and inside `[lo, hi]` -/
def SortedIn (lo hi : Nat) (l : List Nat) : Prop :=
  l.Pairwise (· ≤ ·) ∧ ∀ x ∈ l, lo ≤ x ∧ x ≤ hi

theorem SortedIn.append {a b c : Nat} {l1 l2 : List Nat} (hab : a ≤ b) (hbc : b ≤ c)
    (h1 : SortedIn a b l1) (h2 : SortedIn b c l2) : SortedIn a c (l1 ++ l2) := by
  refine ⟨List.pairwise_append.mpr ⟨h1.1, h2.1, ?_⟩, ?_⟩
  · intro x hx y hy
    have := (h1.2 x hx).2
    have := (h2.2 y hy).1
    omega
  · intro x hx
    rcases List.mem_append.mp hx with hx | hx
    · have := h1.2 x hx; omega
    · have := h2.2 x hx; omega

theorem SortedIn.widen {a b a' b' : Nat} {l : List Nat} (h : SortedIn a b l) (h1 : a' ≤ a) (h2 : b ≤ b') :
    SortedIn a' b' l :=
  ⟨h.1, fun x hx => by have := h.2 x hx; omega⟩

theorem SortedIn.single {a b x : Nat} (h1 : a ≤ x) (h2 : x ≤ b) : SortedIn a b [x] :=
  ⟨List.pairwise_singleton _ _, fun y hy => by
    have : y = x := by simpa using hy
    subst this; exact ⟨h1, h2⟩⟩

/-- **positions of `tokens()` are non-decreasing** and inside the forest's interval -/
theorem tokens_sorted {lo hi : Nat} {ps : List Pair} (h : WFForest lo hi ps) :
    SortedIn lo hi ((tokensL ps).map Tok.pos) := by
  induction h with
  | nil h => rw [tokensL_nil]; exact ⟨List.Pairwise.nil, by simp⟩
  | @cons lo hi n m s e ch t rest h1 h2 hc hr ihc ihr =>
    have hle := hr.le
    rw [tokensL_cons]
    have e1 : List.map Tok.pos (Tok.start n s :: (tokensL ch ++ [Tok.stop n e]) ++ tokensL rest)
        = ([s] ++ ((tokensL ch).map Tok.pos ++ [e])) ++ (tokensL rest).map Tok.pos := by
      simp [Tok.pos]
    rw [e1]
    have a1 : SortedIn s e ([s] ++ ((tokensL ch).map Tok.pos ++ [e])) :=
      SortedIn.append (Nat.le_refl s) h2 (SortedIn.single (Nat.le_refl s) (Nat.le_refl s))
        (SortedIn.append h2 (Nat.le_refl e) ihc (SortedIn.single (Nat.le_refl e) (Nat.le_refl e)))
    exact SortedIn.append (by omega) hle (a1.widen h1 (Nat.le_refl e)) ihr

/-- the key `flatten()` and the Start tokens are compared on -/
def Tok.startKey : Tok → Option (String × Nat)
  | .start n p => some (n, p)
  | .stop _ _ => none

mutual
theorem Pair.flatten_tokens : ∀ p : Pair,
    p.flatten.map (fun q => (q.name, q.start)) = p.tokens.filterMap Tok.startKey
  | .mk n m s e ch t => by
    have ih := flattenL_tokens ch
    simp only [Pair.flatten, Pair.tokens, List.map_cons, List.filterMap_cons, Tok.startKey,
      List.filterMap_append, List.filterMap_nil, List.append_nil]
    rw [ih]; rfl
theorem flattenL_tokens : ∀ ps : List Pair,
    (flattenL ps).map (fun q => (q.name, q.start)) = (tokensL ps).filterMap Tok.startKey
  | [] => by simp [flattenL, tokensL]
  | p :: rest => by
    simp only [flattenL, tokensL, List.map_append, List.filterMap_append]
    rw [Pair.flatten_tokens p, flattenL_tokens rest]
end

/-- **`flatten()` is the pre-order of the tree**: the pairs it yields are, in order, the pairs
    whose `Start` tokens `tokens()` yields -/
theorem flatten_is_preorder (ps : List Pair) :
    (flattenL ps).map (fun q => (q.name, q.start)) = (tokensL ps).filterMap Tok.startKey :=
  flattenL_tokens ps

mutual
theorem Pair.tokens_length : ∀ p : Pair, p.tokens.length = 2 * p.flatten.length
  | .mk n m s e ch t => by
    simp only [Pair.flatten, Pair.tokens, List.length_cons, List.length_append, List.length_nil]
    rw [tokensL_length ch]; omega
theorem tokensL_length : ∀ ps : List Pair, (tokensL ps).length = 2 * (flattenL ps).length
  | [] => by simp [flattenL, tokensL]
  | p :: rest => by
    simp only [flattenL, tokensL, List.length_append]
    rw [Pair.tokens_length p, tokensL_length rest]; omega
end

/-- two tokens per pair of the tree -/
theorem tokens_length (ps : List Pair) : (tokensL ps).length = 2 * (flattenL ps).length :=
  tokensL_length ps

end Pest
