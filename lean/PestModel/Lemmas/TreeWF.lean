/-
  Lemmas/TreeWF.lean — well-formedness of parse trees (property C06).

  Part 1  `WFForest lo hi ps`: the pairs `ps` lie in `[lo, hi]`, in input order, pairwise
          disjoint, each with `start ≤ stop` and its children (recursively) inside its own span.
          Closure lemmas (`widen`, `append`, `visibleList_wf`, `eraseTagsL_wf`), an unfolded
          reading (`WFForest.iff_unfolded`) and a Boolean checker (`wfForestB`).
          `AllPairs P ps`: every pair at every depth satisfies `P` (= `∀ p ∈ flattenL ps, P p`).
  Part 2  the token / flatten views of `Pairs.lean`: `Balanced`, `check`, `tokens_balanced`,
          `tokens_sorted`, `flatten_is_preorder`, `tokens_length`.
  Part 3  bounds of the primitive matchers.
  Part 4  `spec_tree_wf`: every successful L0 run yields a well-formed forest inside
          `[s.pos, s'.pos] ⊆ [0, inp.size]`  (step-preservation pattern).
  Part 5  names: `Reach`, `NameOK`, `names_are_rules` (L0).
  Part 6  tags: `TagOK`, `tags_are_grammar_tags` (L1).
  Part 7  `root_single`.
-/
import PestModel.Pairs
import PestModel.Lemmas.Frame
import PestModel.Lemmas.TagHist

namespace Pest

/-! ## Part 1: well-formed forests -/

/-- `ps` is a forest inside `[lo, hi]`: pairs in input order, pairwise disjoint (each starts
    where the previous one stopped, or later), `start ≤ stop`, children recursively inside the
    parent's span -/
inductive WFForest : Nat → Nat → List Pair → Prop
  | nil {lo hi : Nat} : lo ≤ hi → WFForest lo hi []
  | cons {lo hi : Nat} {n : String} {m s e : Nat} {ch : List Pair} {t : Option String}
      {rest : List Pair} :
      lo ≤ s → s ≤ e → WFForest s e ch → WFForest e hi rest →
      WFForest lo hi (.mk n m s e ch t :: rest)

namespace WFForest

theorem le {lo hi : Nat} {ps : List Pair} (h : WFForest lo hi ps) : lo ≤ hi := by
  induction h with
  | nil h => exact h
  | cons h1 h2 _ _ _ ih => omega

theorem widen {lo hi : Nat} {ps : List Pair} (h : WFForest lo hi ps) :
    ∀ {lo' hi' : Nat}, lo' ≤ lo → hi ≤ hi' → WFForest lo' hi' ps := by
  induction h with
  | nil h => intro lo' hi' h1 h2; exact .nil (by omega)
  | cons h1 h2 hc _ _ ih =>
    intro lo' hi' a b
    exact .cons (by omega) h2 hc (ih (Nat.le_refl _) b)

theorem append {a b c : Nat} {xs ys : List Pair} (h1 : WFForest a b xs) (h2 : WFForest b c ys) :
    WFForest a c (xs ++ ys) := by
  induction h1 with
  | nil h => exact h2.widen h (Nat.le_refl _)
  | cons g1 g2 hc _ _ ih => exact .cons g1 g2 hc (ih h2)

theorem single {lo hi s e : Nat} (n : String) (m : Nat) {ch : List Pair} (t : Option String)
    (h1 : lo ≤ s) (h2 : s ≤ e) (h3 : e ≤ hi) (hc : WFForest s e ch) :
    WFForest lo hi [.mk n m s e ch t] :=
  .cons h1 h2 hc (.nil h3)

end WFForest

theorem visibleList_cons (n : String) (m s e : Nat) (ch : List Pair) (t : Option String) (rest : List Pair) :
    visibleList (.mk n m s e ch t :: rest) =
      (if hasBit m COMPOUND || hasBit m NONATOMIC then [.mk n m s e ch t] else visibleList ch)
        ++ visibleList rest := by
  simp [visibleList, Pair.visible]

theorem visibleList_nil : visibleList [] = [] := by simp [visibleList]

/-- hoisting (`visible_in_atomic`) keeps order, disjointness and bounds -/
theorem visibleList_wf {lo hi : Nat} {ps : List Pair} (h : WFForest lo hi ps) :
    WFForest lo hi (visibleList ps) := by
  induction h with
  | nil h => rw [visibleList_nil]; exact .nil h
  | @cons lo hi n m s e ch t rest h1 h2 hc hr ihc ihr =>
    rw [visibleList_cons]
    by_cases hv : (hasBit m COMPOUND || hasBit m NONATOMIC) = true
    · simp only [hv, ↓reduceIte]
      exact .cons h1 h2 hc ihr
    · simp only [hv, Bool.false_eq_true, ↓reduceIte]
      exact (ihc.widen h1 (Nat.le_refl _)).append ihr

theorem eraseTagsL_nil : eraseTagsL [] = [] := by simp [eraseTagsL]

theorem eraseTagsL_cons (n : String) (m s e : Nat) (ch : List Pair) (t : Option String) (rest : List Pair) :
    eraseTagsL (.mk n m s e ch t :: rest) = .mk n m s e (eraseTagsL ch) none :: eraseTagsL rest := by
  simp [eraseTagsL, Pair.eraseTags]

theorem eraseTagsL_eq_nil {ps : List Pair} (h : eraseTagsL ps = []) : ps = [] := by
  cases ps with
  | nil => rfl
  | cons p ps => cases p; rw [eraseTagsL_cons] at h; cases h

theorem eraseTagsL_eq_cons {ps : List Pair} {n : String} {m s e : Nat} {ch : List Pair}
    {t : Option String} {rest : List Pair} (h : eraseTagsL ps = .mk n m s e ch t :: rest) :
    ∃ ch' t' rest', ps = .mk n m s e ch' t' :: rest' ∧ eraseTagsL ch' = ch ∧ eraseTagsL rest' = rest ∧
      t = none := by
  cases ps with
  | nil => rw [eraseTagsL_nil] at h; cases h
  | cons p ps =>
    cases p with
    | mk n' m' s' e' ch' t' =>
      rw [eraseTagsL_cons] at h
      simp only [List.cons.injEq, Pair.mk.injEq] at h
      obtain ⟨⟨rfl, rfl, rfl, rfl, h5, h6⟩, h7⟩ := h
      exact ⟨ch', t', ps, rfl, h5, h7, h6.symm⟩

/-- erasing tags does not change well-formedness: ← -/
theorem eraseTagsL_wf_mp {lo hi : Nat} {ps : List Pair} (h : WFForest lo hi ps) :
    WFForest lo hi (eraseTagsL ps) := by
  induction h with
  | nil h => rw [eraseTagsL_nil]; exact .nil h
  | cons h1 h2 _ _ ihc ihr => rw [eraseTagsL_cons]; exact .cons h1 h2 ihc ihr

theorem eraseTagsL_wf_mpr {lo hi : Nat} {qs : List Pair} (h : WFForest lo hi qs) :
    ∀ ps, eraseTagsL ps = qs → WFForest lo hi ps := by
  induction h with
  | nil h => intro ps e; rw [eraseTagsL_eq_nil e]; exact .nil h
  | cons h1 h2 _ _ ihc ihr =>
    intro ps e
    obtain ⟨ch', t', rest', rfl, e1, e2, _⟩ := eraseTagsL_eq_cons e
    exact .cons h1 h2 (ihc ch' e1) (ihr rest' e2)

/-- erasing tags does not change well-formedness -/
theorem eraseTagsL_wf {lo hi : Nat} {ps : List Pair} :
    WFForest lo hi (eraseTagsL ps) ↔ WFForest lo hi ps :=
  ⟨fun h => eraseTagsL_wf_mpr h ps rfl, eraseTagsL_wf_mp⟩

/-! ### the inductive, unfolded -/

/-- what `WFForest` says, without the inductive: every top-level pair `p` has
    `lo ≤ p.start ≤ p.stop ≤ hi` and its children form a forest inside `[p.start, p.stop]`;
    a pair that comes later in the list starts at or after the stop of every earlier one -/
def WFUnfolded (lo hi : Nat) (ps : List Pair) : Prop :=
  lo ≤ hi ∧
  (∀ p ∈ ps, lo ≤ p.start ∧ p.start ≤ p.stop ∧ p.stop ≤ hi ∧ WFForest p.start p.stop p.children) ∧
  ps.Pairwise (fun a b => a.stop ≤ b.start)

theorem WFForest.unfolded {lo hi : Nat} {ps : List Pair} (h : WFForest lo hi ps) :
    WFUnfolded lo hi ps := by
  induction h with
  | nil h => exact ⟨h, by simp, List.Pairwise.nil⟩
  | @cons lo hi n m s e ch t rest h1 h2 hc hr _ ihr =>
    obtain ⟨r1, r2, r3⟩ := ihr
    refine ⟨by omega, ?_, ?_⟩
    · intro p hp
      rcases List.mem_cons.mp hp with rfl | hp
      · exact ⟨h1, h2, r1, hc⟩
      · obtain ⟨a, b, c, d⟩ := r2 p hp
        exact ⟨by omega, b, c, d⟩
    · refine List.Pairwise.cons ?_ r3
      intro p hp
      exact (r2 p hp).1

theorem WFForest.of_unfolded {hi : Nat} {ps : List Pair} :
    ∀ {lo : Nat}, WFUnfolded lo hi ps → WFForest lo hi ps := by
  induction ps with
  | nil => intro lo h; exact .nil h.1
  | cons p rest ih =>
    intro lo h
    obtain ⟨h0, h1, h2⟩ := h
    cases p with
    | mk n m s e ch t =>
      obtain ⟨a, b, c, d⟩ := h1 _ (List.mem_cons_self ..)
      have h2' := List.pairwise_cons.mp h2
      refine .cons a b d (ih ⟨c, ?_, h2'.2⟩)
      intro q hq
      obtain ⟨_, b', c', d'⟩ := h1 q (List.mem_cons_of_mem _ hq)
      exact ⟨h2'.1 q hq, b', c', d'⟩

theorem WFForest.iff_unfolded {lo hi : Nat} {ps : List Pair} :
    WFForest lo hi ps ↔ WFUnfolded lo hi ps := ⟨WFForest.unfolded, WFForest.of_unfolded⟩

/-- index form of the ordering / disjointness clause -/
theorem WFForest.ordered {lo hi : Nat} {ps : List Pair} (h : WFForest lo hi ps) (i j : Nat)
    (hij : i < j) (hj : j < ps.length) : (ps[i]'(by omega)).stop ≤ (ps[j]'hj).start :=
  List.pairwise_iff_getElem.mp h.unfolded.2.2 i j (by omega) hj hij

/-! ### a Boolean checker (for the examples) -/

mutual
def Pair.wfB : Pair → Bool
  | .mk _ _ s e ch _ => decide (s ≤ e) && wfForestB s e ch
def wfForestB : Nat → Nat → List Pair → Bool
  | lo, hi, [] => decide (lo ≤ hi)
  | lo, hi, p :: rest => decide (lo ≤ p.start) && p.wfB && wfForestB p.stop hi rest
end

mutual
theorem Pair.wfB_sound : ∀ (p : Pair), p.wfB = true →
    p.start ≤ p.stop ∧ WFForest p.start p.stop p.children
  | .mk n m s e ch t => by
    intro h
    simp only [Pair.wfB, Bool.and_eq_true, decide_eq_true_eq] at h
    exact ⟨h.1, wfForestB_sound s e ch h.2⟩
theorem wfForestB_sound : ∀ (lo hi : Nat) (ps : List Pair), wfForestB lo hi ps = true → WFForest lo hi ps
  | lo, hi, [] => by
    intro h
    simp only [wfForestB, decide_eq_true_eq] at h
    exact .nil h
  | lo, hi, p :: rest => by
    intro h
    simp only [wfForestB, Bool.and_eq_true, decide_eq_true_eq] at h
    have h1 := Pair.wfB_sound p h.1.2
    have h2 := wfForestB_sound p.stop hi rest h.2
    cases p with
    | mk n m s e ch t => exact .cons h.1.1 h1.1 h1.2 h2
end

/-! ### "every pair at every depth" -/

inductive AllPairs (P : Pair → Prop) : List Pair → Prop
  | nil : AllPairs P []
  | cons {n : String} {m s e : Nat} {ch : List Pair} {t : Option String} {rest : List Pair} :
      P (.mk n m s e ch t) → AllPairs P ch → AllPairs P rest → AllPairs P (.mk n m s e ch t :: rest)

namespace AllPairs

theorem append {P : Pair → Prop} {xs ys : List Pair} (h1 : AllPairs P xs) (h2 : AllPairs P ys) :
    AllPairs P (xs ++ ys) := by
  induction h1 with
  | nil => exact h2
  | cons a b _ _ ih => exact .cons a b ih

theorem visible {P : Pair → Prop} {ps : List Pair} (h : AllPairs P ps) : AllPairs P (visibleList ps) := by
  induction h with
  | nil => rw [visibleList_nil]; exact .nil
  | @cons n m s e ch t rest a b c ihc ihr =>
    rw [visibleList_cons]
    by_cases hv : (hasBit m COMPOUND || hasBit m NONATOMIC) = true
    · simp only [hv, ↓reduceIte]; exact .cons a b ihr
    · simp only [hv, Bool.false_eq_true, ↓reduceIte]; exact ihc.append ihr

theorem mono {P Q : Pair → Prop} (hpq : ∀ p, P p → Q p) {ps : List Pair} (h : AllPairs P ps) :
    AllPairs Q ps := by
  induction h with
  | nil => exact .nil
  | cons a _ _ ihc ihr => exact .cons (hpq _ a) ihc ihr

/-- the reading: `P` holds of everything `Pairs.flatten()` yields -/
theorem flatten {P : Pair → Prop} {ps : List Pair} (h : AllPairs P ps) : ∀ p ∈ flattenL ps, P p := by
  induction h with
  | nil => intro p hp; rw [flattenL_nil] at hp; cases hp
  | cons a _ _ ihc ihr =>
    intro p hp
    rw [flattenL_cons] at hp
    rcases List.mem_append.mp hp with hp | hp
    · rcases List.mem_cons.mp hp with rfl | hp
      · exact a
      · exact ihc p hp
    · exact ihr p hp

/-- a predicate that does not look at tags (at any depth) survives `eraseTagsL`, backwards -/
theorem of_erase {P Q : Pair → Prop} (hpq : ∀ p, P p.eraseTags → Q p) {qs : List Pair}
    (h : AllPairs P qs) : ∀ ps, eraseTagsL ps = qs → AllPairs Q ps := by
  induction h with
  | nil => intro ps e; rw [eraseTagsL_eq_nil e]; exact .nil
  | @cons n m s e ch t rest a _ _ ihc ihr =>
    intro ps e
    obtain ⟨ch', t', rest', rfl, e1, e2, e3⟩ := eraseTagsL_eq_cons e
    refine .cons (hpq _ ?_) (ihc ch' e1) (ihr rest' e2)
    simp only [Pair.eraseTags, e1]
    rw [← e3]; exact a

end AllPairs

mutual
theorem Pair.allPairs_of_flatten {P : Pair → Prop} : ∀ (p : Pair), (∀ q ∈ p.flatten, P q) →
    P p ∧ AllPairs P p.children
  | .mk n m s e ch t => by
    intro h
    simp only [Pair.flatten] at h
    exact ⟨h _ (List.mem_cons_self ..), allPairs_of_flatten ch (fun q hq => h q (List.mem_cons_of_mem _ hq))⟩
theorem allPairs_of_flatten {P : Pair → Prop} : ∀ (ps : List Pair), (∀ q ∈ flattenL ps, P q) → AllPairs P ps
  | [] => fun _ => .nil
  | p :: rest => by
    intro h
    simp only [flattenL] at h
    have h1 := Pair.allPairs_of_flatten p (fun q hq => h q (List.mem_append_left _ hq))
    have h2 := allPairs_of_flatten rest (fun q hq => h q (List.mem_append_right _ hq))
    cases p with
    | mk n m s e ch t => exact .cons h1.1 h1.2 h2
end

theorem allPairs_iff_flatten {P : Pair → Prop} {ps : List Pair} :
    AllPairs P ps ↔ ∀ p ∈ flattenL ps, P p := ⟨AllPairs.flatten, allPairs_of_flatten ps⟩

/-- flat reading of `WFForest`: *every* pair, at every depth, lies inside `[lo, hi]`, has
    `start ≤ stop`, and its children are a well-formed forest inside its own span -/
theorem WFForest.allPairs {lo hi : Nat} {ps : List Pair} (h : WFForest lo hi ps) :
    AllPairs (fun p => lo ≤ p.start ∧ p.start ≤ p.stop ∧ p.stop ≤ hi ∧
      WFForest p.start p.stop p.children) ps := by
  induction h with
  | nil _ => exact .nil
  | @cons lo hi n m s e ch t rest h1 h2 hc hr ihc ihr =>
    have hle := hr.le
    refine .cons ⟨h1, h2, hle, hc⟩ (ihc.mono ?_) (ihr.mono ?_)
    · intro p ⟨a, b, c, d⟩; exact ⟨by omega, b, by omega, d⟩
    · intro p ⟨a, b, c, d⟩; exact ⟨by omega, b, c, d⟩

theorem WFForest.flat {lo hi : Nat} {ps : List Pair} (h : WFForest lo hi ps) :
    ∀ p ∈ flattenL ps, lo ≤ p.start ∧ p.start ≤ p.stop ∧ p.stop ≤ hi ∧
      WFForest p.start p.stop p.children :=
  h.allPairs.flatten

/-! ## Part 2: tokens and flatten -/

/-- Dyck words with matching rule names -/
inductive Balanced : List Tok → Prop
  | nil : Balanced []
  | wrap {n : String} {p q : Nat} {w : List Tok} : Balanced w → Balanced (.start n p :: w ++ [.stop n q])
  | append {a b : List Tok} : Balanced a → Balanced b → Balanced (a ++ b)

/-- the usual stack machine: push the name on `Start`, pop and compare on `End`, accept on an
    empty stack at the end -/
def check : List String → List Tok → Bool
  | st, [] => st.isEmpty
  | st, .start n _ :: w => check (n :: st) w
  | [], .stop _ _ :: _ => false
  | m :: st, .stop n _ :: w => m == n && check st w

theorem Balanced.check_append {w : List Tok} (h : Balanced w) :
    ∀ (st : List String) (rest : List Tok), check st (w ++ rest) = check st rest := by
  induction h with
  | nil => intro st rest; rfl
  | @wrap n p q w _ ih =>
    intro st rest
    have : (Tok.start n p :: w ++ [Tok.stop n q]) ++ rest = Tok.start n p :: (w ++ (Tok.stop n q :: rest)) := by
      simp
    rw [this]
    simp only [check]
    rw [ih]
    simp [check]
  | append _ _ iha ihb =>
    intro st rest
    rw [List.append_assoc, iha, ihb]

/-- the inductive notion implies acceptance by the stack machine -/
theorem Balanced.check {w : List Tok} (h : Balanced w) : check [] w = true := by
  have := h.check_append [] []
  rw [List.append_nil] at this
  rw [this]; rfl

/-- the converse needs the invariant of the machine in the middle of a word: with `st` on the
    stack, the rest of the word is balanced blocks separated by the `End`s that close `st` -/
inductive Closes : List String → List Tok → Prop
  | nil {b : List Tok} : Balanced b → Closes [] b
  | cons {n : String} {q : Nat} {st : List String} {b w : List Tok} :
      Balanced b → Closes st w → Closes (n :: st) (b ++ .stop n q :: w)

theorem Closes.prepend {a : List Tok} (ha : Balanced a) {st : List String} {w : List Tok}
    (h : Closes st w) : Closes st (a ++ w) := by
  cases h with
  | nil hb => exact .nil (.append ha hb)
  | cons hb hw => rw [← List.append_assoc]; exact .cons (.append ha hb) hw

theorem check_closes : ∀ (w : List Tok) (st : List String), check st w = true → Closes st w
  | [], st, h => by
    cases st with
    | nil => exact .nil .nil
    | cons _ _ => simp [check] at h
  | .start n p :: w, st, h => by
    simp only [check] at h
    have ih := check_closes w (n :: st) h
    cases ih with
    | @cons _ q _ b w' hb hw =>
      have e : Tok.start n p :: (b ++ Tok.stop n q :: w') = (Tok.start n p :: b ++ [Tok.stop n q]) ++ w' := by
        simp
      rw [e]
      exact hw.prepend (.wrap hb)
  | .stop n q :: w, st, h => by
    cases st with
    | nil => simp [check] at h
    | cons m st =>
      simp only [check, Bool.and_eq_true, beq_iff_eq] at h
      obtain ⟨rfl, h2⟩ := h
      exact .cons (b := []) .nil (check_closes w st h2)

/-- acceptance by the stack machine implies the inductive notion: the two coincide -/
theorem Balanced.of_check {w : List Tok} (h : Pest.check [] w = true) : Balanced w := by
  have := check_closes w [] h
  cases this with
  | nil hb => exact hb

theorem balanced_iff_check {w : List Tok} : Balanced w ↔ Pest.check [] w = true :=
  ⟨Balanced.check, Balanced.of_check⟩

mutual
theorem Pair.tokens_balanced : ∀ p : Pair, Balanced p.tokens
  | .mk n m s e ch t => by
    simp only [Pair.tokens]
    exact .wrap (tokensL_balanced ch)
theorem tokensL_balanced : ∀ ps : List Pair, Balanced (tokensL ps)
  | [] => by rw [tokensL_nil]; exact .nil
  | p :: rest => by
    simp only [tokensL]
    exact .append (Pair.tokens_balanced p) (tokensL_balanced rest)
end

/-- **`tokens()` is a balanced Start/End stream** (for any list of pairs) -/
theorem tokens_balanced (ps : List Pair) : Balanced (tokensL ps) ∧ check [] (tokensL ps) = true :=
  ⟨tokensL_balanced ps, (tokensL_balanced ps).check⟩

/-- a list of positions is non-decreasing and inside `[lo, hi]` -/
def SortedIn (lo hi : Nat) (l : List Nat) : Prop :=
  l.Pairwise (· ≤ ·) ∧ ∀ x ∈ l, lo ≤ x ∧ x ≤ hi

theorem SortedIn.append {a b c : Nat} {l1 l2 : List Nat} (hab : a ≤ b) (hbc : b ≤ c)
    (h1 : SortedIn a b l1) (h2 : SortedIn b c l2) : SortedIn a c (l1 ++ l2) := by
  refine ⟨List.pairwise_append.mpr ⟨h1.1, h2.1, ?_⟩, ?_⟩
  · intro x hx y hy
    have := (h1.2 x hx).2
    have := (h2.2 y hy).1
    omega
  · intro x hx
    rcases List.mem_append.mp hx with hx | hx
    · have := h1.2 x hx; omega
    · have := h2.2 x hx; omega

theorem SortedIn.widen {a b a' b' : Nat} {l : List Nat} (h : SortedIn a b l) (h1 : a' ≤ a) (h2 : b ≤ b') :
    SortedIn a' b' l :=
  ⟨h.1, fun x hx => by have := h.2 x hx; omega⟩

theorem SortedIn.single {a b x : Nat} (h1 : a ≤ x) (h2 : x ≤ b) : SortedIn a b [x] :=
  ⟨List.pairwise_singleton _ _, fun y hy => by
    have : y = x := by simpa using hy
    subst this; exact ⟨h1, h2⟩⟩

/-- **positions of `tokens()` are non-decreasing** and inside the forest's interval -/
theorem tokens_sorted {lo hi : Nat} {ps : List Pair} (h : WFForest lo hi ps) :
    SortedIn lo hi ((tokensL ps).map Tok.pos) := by
  induction h with
  | nil h => rw [tokensL_nil]; exact ⟨List.Pairwise.nil, by simp⟩
  | @cons lo hi n m s e ch t rest h1 h2 hc hr ihc ihr =>
    have hle := hr.le
    rw [tokensL_cons]
    have e1 : List.map Tok.pos (Tok.start n s :: (tokensL ch ++ [Tok.stop n e]) ++ tokensL rest)
        = ([s] ++ ((tokensL ch).map Tok.pos ++ [e])) ++ (tokensL rest).map Tok.pos := by
      simp [Tok.pos]
    rw [e1]
    have a1 : SortedIn s e ([s] ++ ((tokensL ch).map Tok.pos ++ [e])) :=
      SortedIn.append (Nat.le_refl s) h2 (SortedIn.single (Nat.le_refl s) (Nat.le_refl s))
        (SortedIn.append h2 (Nat.le_refl e) ihc (SortedIn.single (Nat.le_refl e) (Nat.le_refl e)))
    exact SortedIn.append (by omega) hle (a1.widen h1 (Nat.le_refl e)) ihr

/-- the key `flatten()` and the Start tokens are compared on -/
def Tok.startKey : Tok → Option (String × Nat)
  | .start n p => some (n, p)
  | .stop _ _ => none

mutual
theorem Pair.flatten_tokens : ∀ p : Pair,
    p.flatten.map (fun q => (q.name, q.start)) = p.tokens.filterMap Tok.startKey
  | .mk n m s e ch t => by
    have ih := flattenL_tokens ch
    simp only [Pair.flatten, Pair.tokens, List.map_cons, List.filterMap_cons, Tok.startKey,
      List.filterMap_append, List.filterMap_nil, List.append_nil]
    rw [ih]; rfl
theorem flattenL_tokens : ∀ ps : List Pair,
    (flattenL ps).map (fun q => (q.name, q.start)) = (tokensL ps).filterMap Tok.startKey
  | [] => by simp [flattenL, tokensL]
  | p :: rest => by
    simp only [flattenL, tokensL, List.map_append, List.filterMap_append]
    rw [Pair.flatten_tokens p, flattenL_tokens rest]
end

/-- **`flatten()` is the pre-order of the tree**: the pairs it yields are, in order, the pairs
    whose `Start` tokens `tokens()` yields -/
theorem flatten_is_preorder (ps : List Pair) :
    (flattenL ps).map (fun q => (q.name, q.start)) = (tokensL ps).filterMap Tok.startKey :=
  flattenL_tokens ps

mutual
theorem Pair.tokens_length : ∀ p : Pair, p.tokens.length = 2 * p.flatten.length
  | .mk n m s e ch t => by
    simp only [Pair.flatten, Pair.tokens, List.length_cons, List.length_append, List.length_nil]
    rw [tokensL_length ch]; omega
theorem tokensL_length : ∀ ps : List Pair, (tokensL ps).length = 2 * (flattenL ps).length
  | [] => by simp [flattenL, tokensL]
  | p :: rest => by
    simp only [flattenL, tokensL, List.length_append]
    rw [Pair.tokens_length p, tokensL_length rest]; omega
end

/-- two tokens per pair of the tree -/
theorem tokens_length (ps : List Pair) : (tokensL ps).length = 2 * (flattenL ps).length :=
  tokensL_length ps

/-! ## Part 3: the primitive matchers stay inside the input -/

section Matchers
variable {inp : Input}

theorem getElem?_lt {p : Nat} {c : CP} (h : inp[p]? = some c) : p < inp.size :=
  (Array.getElem?_eq_some_iff.mp h).1

theorem startsWithAt_bound : ∀ (x : Str) (p : Nat), startsWithAt inp x p = true → p + x.length ≤ inp.size
  | [], p, h => by simpa [startsWithAt] using h
  | c :: rest, p, h => by
    simp only [startsWithAt, Bool.and_eq_true] at h
    have := startsWithAt_bound rest (p + 1) h.2
    simp only [List.length_cons]; omega

theorem startsWithAtCI_bound : ∀ (x : Str) (p : Nat), startsWithAtCI inp x p = true → p + x.length ≤ inp.size
  | [], p, h => by simpa [startsWithAtCI] using h
  | c :: rest, p, h => by
    simp only [startsWithAtCI, Bool.and_eq_true] at h
    have := startsWithAtCI_bound rest (p + 1) h.2
    simp only [List.length_cons]; omega

theorem matchAll_bound : ∀ (lits : List Str) (p q : Nat), p ≤ inp.size →
    L1.matchAll inp lits p = some q → p ≤ q ∧ q ≤ inp.size
  | [], p, q, hp, h => by
    simp only [L1.matchAll, Option.some.injEq] at h
    subst h; exact ⟨Nat.le_refl _, hp⟩
  | l :: ls, p, q, hp, h => by
    simp only [L1.matchAll] at h
    by_cases hm : startsWithAt inp l p = true
    · simp only [hm, ↓reduceIte] at h
      have hb := startsWithAt_bound l p hm
      have := matchAll_bound ls (p + l.length) q hb h
      omega
    · simp only [hm, Bool.false_eq_true, ↓reduceIte] at h
      cases h

theorem findFrom_go_bound (sub : Str) : ∀ (k p q : Nat), findFrom.go inp sub k p = some q →
    p ≤ q ∧ q + sub.length ≤ inp.size
  | 0, p, q, h => by simp [findFrom.go] at h
  | k + 1, p, q, h => by
    simp only [findFrom.go] at h
    by_cases hm : startsWithAt inp sub p = true
    · simp only [hm, ↓reduceIte, Option.some.injEq] at h
      subst h
      exact ⟨Nat.le_refl _, startsWithAt_bound sub p hm⟩
    · simp only [hm, Bool.false_eq_true, ↓reduceIte] at h
      have := findFrom_go_bound sub k (p + 1) q h
      omega

theorem findFrom_bound {sub : Str} {pos q : Nat} (h : findFrom inp sub pos = some q) :
    pos ≤ q ∧ q ≤ inp.size := by
  unfold findFrom at h
  by_cases hp : pos > inp.size
  · simp [hp] at h
  · simp only [hp, ↓reduceIte] at h
    have := findFrom_go_bound sub _ _ _ h
    omega

theorem skipUntil_fold_bound (pos : Nat) : ∀ (subs : List Str) (b : Option Nat),
    (∀ q, b = some q → pos ≤ q ∧ q ≤ inp.size) →
    ∀ q, subs.foldl (fun (b : Option Nat) s =>
        match findFrom inp s pos with
        | some p => (match b with | none => some p | some q => if p < q then some p else some q)
        | none => b) b = some q → pos ≤ q ∧ q ≤ inp.size
  | [], b, hb, q, h => hb q h
  | s :: rest, b, hb, q, h => by
    simp only [List.foldl_cons] at h
    refine skipUntil_fold_bound pos rest _ ?_ q h
    intro q' hq'
    cases hf : findFrom inp s pos with
    | none => rw [hf] at hq'; exact hb q' hq'
    | some p =>
      rw [hf] at hq'
      have hpb := findFrom_bound hf
      cases b with
      | none =>
        simp only [Option.some.injEq] at hq'
        subst hq'; exact hpb
      | some q0 =>
        simp only at hq'
        by_cases hlt : p < q0
        · simp only [hlt, ↓reduceIte, Option.some.injEq] at hq'; subst hq'; exact hpb
        · simp only [hlt, ↓reduceIte, Option.some.injEq] at hq'; subst hq'; exact hb _ rfl

theorem skipUntilPos_bound (subs : List Str) {pos : Nat} (hp : pos ≤ inp.size) :
    pos ≤ L1.skipUntilPos inp subs pos ∧ L1.skipUntilPos inp subs pos ≤ inp.size := by
  unfold L1.skipUntilPos
  simp only []
  have := skipUntil_fold_bound (inp := inp) pos subs none (by intro q h; cases h)
  revert this
  generalize (subs.foldl (fun (b : Option Nat) s =>
        match findFrom inp s pos with
        | some p => (match b with | none => some p | some q => if p < q then some p else some q)
        | none => b) none) = best
  intro this
  cases best with
  | none => simp only [Option.getD_none]; omega
  | some q => simp only [Option.getD_some]; exact this q rfl

variable (g : Grammar)

theorem optMatchOnce_bound {alts : List Alt} {pos q : Nat} (h : L1.optMatchOnce g inp alts pos = some q) :
    pos ≤ q ∧ q ≤ inp.size := by
  unfold L1.optMatchOnce at h
  simp only [] at h
  split at h
  · rename_i s hs
    have := startsWithAt_bound s pos (by simpa using List.find?_some hs)
    simp only [Option.some.injEq] at h; omega
  · split at h
    · rename_i s hs
      have := startsWithAtCI_bound s pos (by simpa using List.find?_some hs)
      simp only [Option.some.injEq] at h; omega
    · split at h
      · cases h
      · rename_i c hc
        have := getElem?_lt hc
        split at h
        · simp only [Option.some.injEq] at h; omega
        · split at h
          · simp only [Option.some.injEq] at h; omega
          · cases h

theorem optMatchStar_bound (alts : List Alt) : ∀ (k pos : Nat), pos ≤ inp.size →
    pos ≤ L1.optMatchStar g inp alts k pos ∧ L1.optMatchStar g inp alts k pos ≤ inp.size
  | 0, pos, hp => by simp only [L1.optMatchStar]; omega
  | k + 1, pos, hp => by
    simp only [L1.optMatchStar]
    cases ho : L1.optMatchOnce g inp alts pos with
    | none => simp only []; omega
    | some p =>
      simp only []
      have hb := optMatchOnce_bound g ho
      by_cases hgt : p > pos
      · simp only [hgt, ↓reduceIte]
        have := optMatchStar_bound alts k p hb.2
        omega
      · simp only [hgt, ↓reduceIte]; omega

theorem optMatch_bound {alts : List Alt} {star : Bool} {pos q : Nat} (hp : pos ≤ inp.size)
    (h : L1.optMatch g inp alts star pos = some q) : pos ≤ q ∧ q ≤ inp.size := by
  unfold L1.optMatch at h
  by_cases he : alts.isEmpty = true
  · simp only [he, ↓reduceIte, Option.some.injEq] at h; omega
  · simp only [he, Bool.false_eq_true, ↓reduceIte] at h
    by_cases hs : star = true
    · simp only [hs, ↓reduceIte, Option.some.injEq] at h
      have := optMatchStar_bound (inp := inp) g alts (inp.size + 1 - pos) pos hp
      omega
    · simp only [hs, Bool.false_eq_true, ↓reduceIte] at h
      exact optMatchOnce_bound g h

end Matchers

/-! ## Part 4: every successful L0 run yields a well-formed forest -/

namespace L0

variable (g : Grammar) (inp : Input)

/-- the invariant of the semantic function: a success from a position inside the input ends
    inside the input, not before where it started, with a forest spanning what was consumed -/
def TreeOK (rec : Sem0) : Prop :=
  ∀ e s s' ps, rec e s = .ok s' ps → s.pos ≤ inp.size →
    s.pos ≤ s'.pos ∧ s'.pos ≤ inp.size ∧ WFForest s.pos s'.pos ps

variable {inp}

theorem ruleWrap_tree {name : String} {mod : Nat} {s s1 s' : S0} {ps1 ps : List Pair}
    (h : ruleWrap name mod s s1 ps1 = .ok s' ps) (h1 : s.pos ≤ s1.pos)
    (hw : WFForest s.pos s1.pos ps1) : s'.pos = s1.pos ∧ WFForest s.pos s1.pos ps := by
  unfold ruleWrap at h
  by_cases hS : hasBit mod SILENT = true
  · simp only [hS, ↓reduceIte, R0.ok.injEq] at h
    obtain ⟨rfl, rfl⟩ := h
    exact ⟨rfl, hw⟩
  · simp only [hS, Bool.false_eq_true, ↓reduceIte, R0.ok.injEq] at h
    obtain ⟨rfl, rfl⟩ := h
    refine ⟨rfl, ?_⟩
    by_cases hA : hasBit mod ATOMIC = true
    · simp only [hA, ↓reduceIte]
      exact WFForest.single _ _ _ (Nat.le_refl _) h1 (Nat.le_refl _) (visibleList_wf hw)
    · simp only [hA, Bool.false_eq_true, ↓reduceIte]
      exact WFForest.single _ _ _ (Nat.le_refl _) h1 (Nat.le_refl _) hw

theorem ruleApply_tree {rec : Sem0} (hrec : TreeOK inp rec) {name : String} {mod : Nat} {body : Expr}
    {s s' : S0} {ps : List Pair} (h : ruleApply rec name mod body s = .ok s' ps)
    (hs : s.pos ≤ inp.size) : s.pos ≤ s'.pos ∧ s'.pos ≤ inp.size ∧ WFForest s.pos s'.pos ps := by
  unfold ruleApply at h
  cases hb : rec body { s with atomic := ruleAtomic name mod s.atomic } with
  | ok s1 ps1 =>
    rw [hb] at h
    simp only [] at h
    obtain ⟨a, b, c⟩ := hrec _ _ _ _ hb hs
    obtain ⟨e1, w⟩ := ruleWrap_tree h a c
    rw [e1]; exact ⟨a, b, w⟩
  | fail => rw [hb] at h; cases h
  | oof => rw [hb] at h; cases h
  | stuck => rw [hb] at h; cases h

theorem callRule_tree {rec : Sem0} (hrec : TreeOK inp rec) {name : String}
    {s s' : S0} {ps : List Pair} (h : callRule g rec name s = .ok s' ps)
    (hs : s.pos ≤ inp.size) : s.pos ≤ s'.pos ∧ s'.pos ≤ inp.size ∧ WFForest s.pos s'.pos ps := by
  unfold callRule at h
  cases hl : g.lookup name with
  | none => rw [hl] at h; cases h
  | some r => rw [hl] at h; exact ruleApply_tree hrec h hs

theorem trySkip_tree {rec : Sem0} (hrec : TreeOK inp rec) {r : Option Rule}
    {s s' : S0} {ps : List Pair} (h : trySkip rec r s = .matched s' ps)
    (hs : s.pos ≤ inp.size) : s.pos ≤ s'.pos ∧ s'.pos ≤ inp.size ∧ WFForest s.pos s'.pos ps := by
  unfold trySkip at h
  cases r with
  | none => cases h
  | some r =>
    simp only [] at h
    cases ha : ruleApply rec r.name r.mod r.body s with
    | ok s1 ps1 =>
      rw [ha] at h
      simp only [Try0.matched.injEq] at h
      obtain ⟨rfl, rfl⟩ := h
      exact ruleApply_tree hrec ha hs
    | fail => rw [ha] at h; cases h
    | oof => rw [ha] at h; cases h
    | stuck => rw [ha] at h; cases h

theorem skipLoop_tree {rec : Sem0} (hrec : TreeOK inp rec) (ws cm : Option Rule) {lo : Nat}
    {s' : S0} {ps : List Pair} :
    ∀ (k : Nat) (s : S0) (acc : List Pair), WFForest lo s.pos acc → s.pos ≤ inp.size →
      skipLoop rec ws cm k s acc = .ok s' ps →
      s.pos ≤ s'.pos ∧ s'.pos ≤ inp.size ∧ WFForest lo s'.pos ps := by
  intro k
  induction k with
  | zero => intro s acc _ _ h; simp [skipLoop] at h
  | succ k ih =>
    intro s acc hacc hs h
    simp only [skipLoop] at h
    cases h1 : trySkip rec ws s with
    | matched s1 ps1 =>
      rw [h1] at h
      simp only [] at h
      obtain ⟨a, b, c⟩ := trySkip_tree hrec h1 hs
      obtain ⟨a', b', c'⟩ := ih s1 _ (hacc.append c) b h
      exact ⟨by omega, b', c'⟩
    | stop r =>
      rw [h1] at h
      simp only [] at h
      -- a stop is never a success
      unfold trySkip at h1
      cases ws with
      | none => cases h1
      | some w =>
        simp only [] at h1
        cases ha : ruleApply rec w.name w.mod w.body s with
        | ok _ _ => rw [ha] at h1; cases h1
        | fail => rw [ha] at h1; cases h1
        | oof => rw [ha] at h1; simp only [Try0.stop.injEq] at h1; subst h1; cases h
        | stuck => rw [ha] at h1; simp only [Try0.stop.injEq] at h1; subst h1; cases h
    | no =>
      rw [h1] at h
      simp only [] at h
      cases h2 : trySkip rec cm s with
      | matched s1 ps1 =>
        rw [h2] at h
        simp only [] at h
        obtain ⟨a, b, c⟩ := trySkip_tree hrec h2 hs
        obtain ⟨a', b', c'⟩ := ih s1 _ (hacc.append c) b h
        exact ⟨by omega, b', c'⟩
      | stop r =>
        rw [h2] at h
        simp only [] at h
        unfold trySkip at h2
        cases cm with
        | none => cases h2
        | some w =>
          simp only [] at h2
          cases ha : ruleApply rec w.name w.mod w.body s with
          | ok _ _ => rw [ha] at h2; cases h2
          | fail => rw [ha] at h2; cases h2
          | oof => rw [ha] at h2; simp only [Try0.stop.injEq] at h2; subst h2; cases h
          | stuck => rw [ha] at h2; simp only [Try0.stop.injEq] at h2; subst h2; cases h
      | no =>
        rw [h2] at h
        simp only [R0.ok.injEq] at h
        obtain ⟨rfl, rfl⟩ := h
        exact ⟨Nat.le_refl _, hs, hacc⟩

theorem skip_tree {rec : Sem0} (hrec : TreeOK inp rec) {k : Nat} {s s' : S0} {ps : List Pair}
    (h : skip g rec k s = .ok s' ps) (hs : s.pos ≤ inp.size) :
    s.pos ≤ s'.pos ∧ s'.pos ≤ inp.size ∧ WFForest s.pos s'.pos ps := by
  unfold skip at h
  by_cases ha : s.atomic = true
  · simp only [ha, ↓reduceIte, R0.ok.injEq] at h
    obtain ⟨rfl, rfl⟩ := h
    exact ⟨Nat.le_refl _, hs, .nil (Nat.le_refl _)⟩
  · simp only [ha, Bool.false_eq_true, ↓reduceIte] at h
    cases hf : g.fusedSkip with
    | some r => rw [hf] at h; exact ruleApply_tree hrec h hs
    | none =>
      rw [hf] at h
      simp only [] at h
      by_cases hn : ((g.lookup "WHITESPACE").isNone && (g.lookup "COMMENT").isNone) = true
      · simp only [hn, ↓reduceIte, R0.ok.injEq] at h
        obtain ⟨rfl, rfl⟩ := h
        exact ⟨Nat.le_refl _, hs, .nil (Nat.le_refl _)⟩
      · simp only [hn, Bool.false_eq_true, ↓reduceIte] at h
        exact skipLoop_tree hrec _ _ k s [] (.nil (Nat.le_refl _)) hs h

theorem seqL_tree {rec : Sem0} (hrec : TreeOK inp rec) (k : Nat) {lo : Nat} {s' : S0} {ps : List Pair} :
    ∀ (es : List Expr) (s : S0) (acc : List Pair), WFForest lo s.pos acc → s.pos ≤ inp.size →
      seqL g rec k es s acc = .ok s' ps →
      s.pos ≤ s'.pos ∧ s'.pos ≤ inp.size ∧ WFForest lo s'.pos ps := by
  intro es
  induction es with
  | nil =>
    intro s acc hacc hs h
    simp only [seqL, R0.ok.injEq] at h
    obtain ⟨rfl, rfl⟩ := h
    exact ⟨Nat.le_refl _, hs, hacc⟩
  | cons e rest ih =>
    intro s acc hacc hs h
    simp only [seqL] at h
    cases he : rec e s with
    | ok s1 ps1 =>
      rw [he] at h
      simp only [] at h
      obtain ⟨a, b, c⟩ := hrec _ _ _ _ he hs
      by_cases hr : rest.isEmpty = true
      · simp only [hr, ↓reduceIte, R0.ok.injEq] at h
        obtain ⟨rfl, rfl⟩ := h
        exact ⟨a, b, hacc.append c⟩
      · simp only [hr, Bool.false_eq_true, ↓reduceIte] at h
        cases hsk : skip g rec k s1 with
        | ok s2 tps =>
          rw [hsk] at h
          simp only [] at h
          obtain ⟨a2, b2, c2⟩ := skip_tree g hrec hsk b
          obtain ⟨a3, b3, c3⟩ := ih s2 _ ((hacc.append c).append c2) b2 h
          exact ⟨by omega, b3, c3⟩
        | fail =>
          rw [hsk] at h
          simp only [] at h
          obtain ⟨a3, b3, c3⟩ := ih s1 _ (hacc.append c) b h
          exact ⟨by omega, b3, c3⟩
        | oof => rw [hsk] at h; cases h
        | stuck => rw [hsk] at h; cases h
    | fail => rw [he] at h; cases h
    | oof => rw [he] at h; cases h
    | stuck => rw [he] at h; cases h

theorem choiceL_tree {rec : Sem0} (hrec : TreeOK inp rec) {s s' : S0} {ps : List Pair} :
    ∀ (es : List Expr), choiceL rec es s = .ok s' ps → s.pos ≤ inp.size →
      s.pos ≤ s'.pos ∧ s'.pos ≤ inp.size ∧ WFForest s.pos s'.pos ps := by
  intro es
  induction es with
  | nil => intro h; simp [choiceL] at h
  | cons e rest ih =>
    intro h hs
    simp only [choiceL] at h
    cases he : rec e s with
    | ok s1 ps1 =>
      rw [he] at h
      simp only [R0.ok.injEq] at h
      obtain ⟨rfl, rfl⟩ := h
      exact hrec _ _ _ _ he hs
    | fail => rw [he] at h; exact ih h hs
    | oof => rw [he] at h; cases h
    | stuck => rw [he] at h; cases h

theorem repLoop_tree {rec : Sem0} (hrec : TreeOK inp rec) (e : Expr) (kk : Nat) {lo : Nat}
    {s' : S0} {ps : List Pair} :
    ∀ (k : Nat) (first : Bool) (s : S0) (acc : List Pair), WFForest lo s.pos acc → s.pos ≤ inp.size →
      repLoop g rec e k kk first s acc = .ok s' ps →
      s.pos ≤ s'.pos ∧ s'.pos ≤ inp.size ∧ WFForest lo s'.pos ps := by
  intro k
  induction k with
  | zero => intro first s acc _ _ h; simp [repLoop] at h
  | succ k ih =>
    intro first s acc hacc hs h
    simp only [repLoop] at h
    have hA : ∀ s1 tps, (if first = true then R0.ok s [] else skip g rec kk s) = .ok s1 tps →
        s.pos ≤ s1.pos ∧ s1.pos ≤ inp.size ∧ WFForest s.pos s1.pos tps := by
      intro s1 tps hx
      by_cases hf : first = true
      · simp only [hf, ↓reduceIte, R0.ok.injEq] at hx
        obtain ⟨rfl, rfl⟩ := hx
        exact ⟨Nat.le_refl _, hs, .nil (Nat.le_refl _)⟩
      · simp only [hf, Bool.false_eq_true, ↓reduceIte] at hx
        exact skip_tree g hrec hx hs
    cases hsk : (if first = true then R0.ok s [] else skip g rec kk s) with
    | ok s1 tps =>
      rw [hsk] at h
      simp only [] at h
      obtain ⟨a1, b1, c1⟩ := hA s1 tps hsk
      cases he : rec e s1 with
      | ok s2 ps2 =>
        rw [he] at h
        simp only [] at h
        obtain ⟨a2, b2, c2⟩ := hrec _ _ _ _ he b1
        obtain ⟨a3, b3, c3⟩ := ih false s2 _ ((hacc.append c1).append c2) b2 h
        exact ⟨by omega, b3, c3⟩
      | fail =>
        rw [he] at h
        simp only [R0.ok.injEq] at h
        obtain ⟨rfl, rfl⟩ := h
        exact ⟨Nat.le_refl _, hs, hacc⟩
      | oof => rw [he] at h; cases h
      | stuck => rw [he] at h; cases h
    | fail =>
      rw [hsk] at h
      simp only [R0.ok.injEq] at h
      obtain ⟨rfl, rfl⟩ := h
      exact ⟨Nat.le_refl _, hs, hacc⟩
    | oof => rw [hsk] at h; cases h
    | stuck => rw [hsk] at h; cases h

/-- closing a terminal: it produced no pairs and moved the position forward inside the input -/
theorem term_tree {s s' r : S0} {ps : List Pair} (h : R0.ok r [] = R0.ok s' ps)
    (h1 : s.pos ≤ r.pos) (h2 : r.pos ≤ inp.size) :
    s.pos ≤ s'.pos ∧ s'.pos ≤ inp.size ∧ WFForest s.pos s'.pos ps := by
  simp only [R0.ok.injEq] at h
  obtain ⟨rfl, rfl⟩ := h
  exact ⟨h1, h2, .nil h1⟩

variable (inp)

theorem step_tree {rec : Sem0} (k : Nat) (hrec : TreeOK inp rec) : TreeOK inp (step g inp k rec) := by
  intro e s s' ps h hs
  cases e with
  | str x =>
    simp only [step] at h
    split at h
    · rename_i hm
      have := startsWithAt_bound x s.pos hm
      exact term_tree h (by simp [adv]) (by simp only [adv]; omega)
    · cases h
  | ci x =>
    simp only [step] at h
    split at h
    · rename_i hm
      have := startsWithAtCI_bound x s.pos hm
      exact term_tree h (by simp [adv]) (by simp only [adv]; omega)
    · cases h
  | range a b =>
    simp only [step] at h
    split at h
    · rename_i c hc
      have := getElem?_lt hc
      split at h
      · exact term_tree h (by simp [adv]) (by simp only [adv]; omega)
      · cases h
    · cases h
  | ident name tag => exact callRule_tree g hrec h hs
  | rule name mod sm body => exact ruleApply_tree hrec h hs
  | seq es => exact seqL_tree g hrec k es s [] (.nil (Nat.le_refl _)) hs h
  | choice es => exact choiceL_tree hrec es h hs
  | opt e =>
    simp only [step] at h
    cases he : rec e s with
    | ok s1 ps1 => rw [he] at h; simp only [] at h; rw [h] at he; exact hrec _ _ _ _ he hs
    | fail => rw [he] at h; exact term_tree h (Nat.le_refl _) hs
    | oof => rw [he] at h; cases h
    | stuck => rw [he] at h; cases h
  | rep e => exact repLoop_tree g hrec e k k true s [] (.nil (Nat.le_refl _)) hs h
  | rep1 e => exact seqL_tree g hrec k _ s [] (.nil (Nat.le_refl _)) hs h
  | repExact e n => exact seqL_tree g hrec k _ s [] (.nil (Nat.le_refl _)) hs h
  | repMin e n => exact seqL_tree g hrec k _ s [] (.nil (Nat.le_refl _)) hs h
  | repMax e n => exact seqL_tree g hrec k _ s [] (.nil (Nat.le_refl _)) hs h
  | repMinMax e m n => exact seqL_tree g hrec k _ s [] (.nil (Nat.le_refl _)) hs h
  | andP e =>
    simp only [step] at h
    cases he : rec e s with
    | ok s1 ps1 => rw [he] at h; exact term_tree h (Nat.le_refl _) hs
    | fail => rw [he] at h; cases h
    | oof => rw [he] at h; cases h
    | stuck => rw [he] at h; cases h
  | notP e =>
    simp only [step] at h
    cases he : rec e s with
    | ok s1 ps1 => rw [he] at h; cases h
    | fail => rw [he] at h; exact term_tree h (Nat.le_refl _) hs
    | oof => rw [he] at h; cases h
    | stuck => rw [he] at h; cases h
  | group e tag => simp only [step] at h; exact hrec _ _ _ _ h hs
  | push e =>
    simp only [step] at h
    cases he : rec e s with
    | ok s1 ps1 =>
      rw [he] at h
      simp only [R0.ok.injEq] at h
      obtain ⟨rfl, rfl⟩ := h
      have t := hrec _ _ _ _ he hs
      exact t
    | fail => rw [he] at h; cases h
    | oof => rw [he] at h; cases h
    | stuck => rw [he] at h; cases h
  | pushLit x => simp only [step] at h; exact term_tree h (Nat.le_refl _) hs
  | peek =>
    simp only [step] at h
    split at h
    · cases h
    · rename_i t _ _
      split at h
      · rename_i hm
        have := startsWithAt_bound t s.pos hm
        exact term_tree h (by simp [adv]) (by simp only [adv]; omega)
      · cases h
  | pop =>
    simp only [step] at h
    split at h
    · cases h
    · rename_i t _ _
      split at h
      · rename_i hm
        have := startsWithAt_bound t s.pos hm
        exact term_tree h (by simp [adv]) (by simp only [adv]; omega)
      · cases h
  | drop =>
    simp only [step] at h
    split at h
    · cases h
    · exact term_tree h (Nat.le_refl _) hs
  | peekAll =>
    simp only [step, matchLits] at h
    split at h
    · rename_i p hp
      have := matchAll_bound _ _ _ hs hp
      exact term_tree h this.1 this.2
    · cases h
  | popAll =>
    simp only [step, matchLits] at h
    split at h
    · rename_i p hp
      have := matchAll_bound _ _ _ hs hp
      exact term_tree h this.1 this.2
    · cases h
  | peekSlice a b =>
    simp only [step, matchLits] at h
    split at h
    · rename_i p hp
      have := matchAll_bound _ _ _ hs hp
      exact term_tree h this.1 this.2
    · cases h
  | anyB =>
    simp only [step] at h
    split at h
    · exact term_tree h (by simp [adv]) (by simp only [adv]; omega)
    · cases h
  | soiB =>
    simp only [step] at h
    split at h
    · exact term_tree h (Nat.le_refl _) hs
    · cases h
  | eoiB =>
    simp only [step] at h
    split at h
    · exact term_tree h (Nat.le_refl _) hs
    · cases h
  | uprop n =>
    simp only [step] at h
    split at h
    · rename_i c hc
      have := getElem?_lt hc
      split at h
      · exact term_tree h (by simp [adv]) (by simp only [adv]; omega)
      · cases h
    · cases h
  | skipUntil subs =>
    simp only [step] at h
    have := skipUntilPos_bound (inp := inp) subs hs
    exact term_tree h this.1 this.2
  | optChoice alts star =>
    simp only [step] at h
    split at h
    · rename_i p hp
      have := optMatch_bound g hs hp
      exact term_tree h this.1 this.2
    · cases h

theorem run_tree : ∀ n, TreeOK inp (run g inp n) := by
  intro n
  induction n with
  | zero => intro e s s' ps h; simp [run] at h
  | succ n ih => exact step_tree g inp n ih

/-- **C06, spans and nesting (specification level).**  A successful run of any expression from a
    position inside the input ends inside the input, at or after where it started, and its
    pairs form a well-formed forest spanning exactly what was consumed. -/
theorem spec_tree_wf {n : Nat} {e : Expr} {s s' : S0} {ps : List Pair}
    (h : run g inp n e s = .ok s' ps) (hs : s.pos ≤ inp.size) :
    s.pos ≤ s'.pos ∧ s'.pos ≤ inp.size ∧ WFForest s.pos s'.pos ps :=
  run_tree g inp n e s s' ps h hs

/-- the same for `parse` -/
theorem parse_tree_wf {fuel : Nat} {start : String} {k : Nat} {s : S0} {ps : List Pair}
    (h : parse g inp fuel start k = .ok s ps) (hk : k ≤ inp.size) :
    k ≤ s.pos ∧ s.pos ≤ inp.size ∧ WFForest k s.pos ps := by
  unfold parse at h
  cases hl : g.lookup start with
  | none => rw [hl] at h; cases h
  | some r =>
    rw [hl] at h
    exact ruleApply_tree (s := ⟨k, [], false⟩) (run_tree g inp fuel) h hk

end L0

/-! ## Part 5: pair names are names of non-silent rules -/

/-- the expressions the semantic functions can be asked to run when started on `e0` in grammar
    `g`: `e0`, the rule bodies of `g`, their sub-expressions — and the expressions `step`
    manufactures for the bounded repetitions (`e+ ↦ e*`, `e{n,} ↦ e*`, `e{,n} ↦ e?`,
    `e{m,n} ↦ e?`).  (`Reach.rule_sub` / `ident_sub` / `group_sub` below: the rule, identifier and
    group nodes among them are all *written* in `e0` or in a rule body.) -/
inductive Reach (g : Grammar) (e0 : Expr) : Expr → Prop
  | root : Reach g e0 e0
  | body {r : Rule} : r ∈ g.rules → Reach g e0 r.body
  | seq {es : List Expr} {x : Expr} : Reach g e0 (.seq es) → x ∈ es → Reach g e0 x
  | choice {es : List Expr} {x : Expr} : Reach g e0 (.choice es) → x ∈ es → Reach g e0 x
  | opt {e : Expr} : Reach g e0 (.opt e) → Reach g e0 e
  | rep {e : Expr} : Reach g e0 (.rep e) → Reach g e0 e
  | rep1 {e : Expr} : Reach g e0 (.rep1 e) → Reach g e0 e
  | repExact {e : Expr} {n : Nat} : Reach g e0 (.repExact e n) → Reach g e0 e
  | repMin {e : Expr} {n : Nat} : Reach g e0 (.repMin e n) → Reach g e0 e
  | repMax {e : Expr} {n : Nat} : Reach g e0 (.repMax e n) → Reach g e0 e
  | repMinMax {e : Expr} {m n : Nat} : Reach g e0 (.repMinMax e m n) → Reach g e0 e
  | andP {e : Expr} : Reach g e0 (.andP e) → Reach g e0 e
  | notP {e : Expr} : Reach g e0 (.notP e) → Reach g e0 e
  | group {e : Expr} {tag : Option String} : Reach g e0 (.group e tag) → Reach g e0 e
  | push {e : Expr} : Reach g e0 (.push e) → Reach g e0 e
  | rule {name : String} {mod : Nat} {sm : Bool} {body : Expr} :
      Reach g e0 (.rule name mod sm body) → Reach g e0 body
  | rep1Rep {e : Expr} : Reach g e0 (.rep1 e) → Reach g e0 (.rep e)
  | repMinRep {e : Expr} {n : Nat} : Reach g e0 (.repMin e n) → Reach g e0 (.rep e)
  | repMaxOpt {e : Expr} {n : Nat} : Reach g e0 (.repMax e n) → Reach g e0 (.opt e)
  | repMinMaxOpt {e : Expr} {m n : Nat} : Reach g e0 (.repMinMax e m n) → Reach g e0 (.opt e)

/-- when `e0` is itself reachable from `e1`, so is everything reachable from `e0` -/
theorem Reach.trans {g : Grammar} {e0 e1 x : Expr} (h0 : Reach g e1 e0) (h : Reach g e0 x) :
    Reach g e1 x := by
  induction h with
  | root => exact h0
  | body hr => exact .body hr
  | seq _ hx ih => exact .seq ih hx
  | choice _ hx ih => exact .choice ih hx
  | opt _ ih => exact .opt ih
  | rep _ ih => exact .rep ih
  | rep1 _ ih => exact .rep1 ih
  | repExact _ ih => exact .repExact ih
  | repMin _ ih => exact .repMin ih
  | repMax _ ih => exact .repMax ih
  | repMinMax _ ih => exact .repMinMax ih
  | andP _ ih => exact .andP ih
  | notP _ ih => exact .notP ih
  | group _ ih => exact .group ih
  | push _ ih => exact .push ih
  | rule _ ih => exact .rule ih
  | rep1Rep _ ih => exact .rep1Rep ih
  | repMinRep _ ih => exact .repMinRep ih
  | repMaxOpt _ ih => exact .repMaxOpt ih
  | repMinMaxOpt _ ih => exact .repMinMaxOpt ih

/-- the *syntactic* sub-expressions of `e0` and of the rule bodies: `Reach` without the four
    clauses for manufactured expressions -/
inductive Sub (g : Grammar) (e0 : Expr) : Expr → Prop
  | root : Sub g e0 e0
  | body {r : Rule} : r ∈ g.rules → Sub g e0 r.body
  | seq {es : List Expr} {x : Expr} : Sub g e0 (.seq es) → x ∈ es → Sub g e0 x
  | choice {es : List Expr} {x : Expr} : Sub g e0 (.choice es) → x ∈ es → Sub g e0 x
  | opt {e : Expr} : Sub g e0 (.opt e) → Sub g e0 e
  | rep {e : Expr} : Sub g e0 (.rep e) → Sub g e0 e
  | rep1 {e : Expr} : Sub g e0 (.rep1 e) → Sub g e0 e
  | repExact {e : Expr} {n : Nat} : Sub g e0 (.repExact e n) → Sub g e0 e
  | repMin {e : Expr} {n : Nat} : Sub g e0 (.repMin e n) → Sub g e0 e
  | repMax {e : Expr} {n : Nat} : Sub g e0 (.repMax e n) → Sub g e0 e
  | repMinMax {e : Expr} {m n : Nat} : Sub g e0 (.repMinMax e m n) → Sub g e0 e
  | andP {e : Expr} : Sub g e0 (.andP e) → Sub g e0 e
  | notP {e : Expr} : Sub g e0 (.notP e) → Sub g e0 e
  | group {e : Expr} {tag : Option String} : Sub g e0 (.group e tag) → Sub g e0 e
  | push {e : Expr} : Sub g e0 (.push e) → Sub g e0 e
  | rule {name : String} {mod : Nat} {sm : Bool} {body : Expr} :
      Sub g e0 (.rule name mod sm body) → Sub g e0 body

/-- a reachable expression is a syntactic sub-expression, or `e*` / `e?` for a syntactic
    sub-expression `e` -/
theorem Reach.core {g : Grammar} {e0 x : Expr} (h : Reach g e0 x) :
    Sub g e0 x ∨ (∃ e, x = .rep e ∧ Sub g e0 e) ∨ (∃ e, x = .opt e ∧ Sub g e0 e) := by
  induction h with
  | root => exact .inl .root
  | body hr => exact .inl (.body hr)
  | seq _ hx ih =>
    rcases ih with h | ⟨_, he, _⟩ | ⟨_, he, _⟩
    · exact .inl (.seq h hx)
    · cases he
    · cases he
  | choice _ hx ih =>
    rcases ih with h | ⟨_, he, _⟩ | ⟨_, he, _⟩
    · exact .inl (.choice h hx)
    · cases he
    · cases he
  | opt _ ih =>
    rcases ih with h | ⟨_, he, _⟩ | ⟨_, he, hs⟩
    · exact .inl (.opt h)
    · cases he
    · cases he; exact .inl hs
  | rep _ ih =>
    rcases ih with h | ⟨_, he, hs⟩ | ⟨_, he, _⟩
    · exact .inl (.rep h)
    · cases he; exact .inl hs
    · cases he
  | rep1 _ ih =>
    rcases ih with h | ⟨_, he, _⟩ | ⟨_, he, _⟩
    · exact .inl (.rep1 h)
    · cases he
    · cases he
  | repExact _ ih =>
    rcases ih with h | ⟨_, he, _⟩ | ⟨_, he, _⟩
    · exact .inl (.repExact h)
    · cases he
    · cases he
  | repMin _ ih =>
    rcases ih with h | ⟨_, he, _⟩ | ⟨_, he, _⟩
    · exact .inl (.repMin h)
    · cases he
    · cases he
  | repMax _ ih =>
    rcases ih with h | ⟨_, he, _⟩ | ⟨_, he, _⟩
    · exact .inl (.repMax h)
    · cases he
    · cases he
  | repMinMax _ ih =>
    rcases ih with h | ⟨_, he, _⟩ | ⟨_, he, _⟩
    · exact .inl (.repMinMax h)
    · cases he
    · cases he
  | andP _ ih =>
    rcases ih with h | ⟨_, he, _⟩ | ⟨_, he, _⟩
    · exact .inl (.andP h)
    · cases he
    · cases he
  | notP _ ih =>
    rcases ih with h | ⟨_, he, _⟩ | ⟨_, he, _⟩
    · exact .inl (.notP h)
    · cases he
    · cases he
  | group _ ih =>
    rcases ih with h | ⟨_, he, _⟩ | ⟨_, he, _⟩
    · exact .inl (.group h)
    · cases he
    · cases he
  | push _ ih =>
    rcases ih with h | ⟨_, he, _⟩ | ⟨_, he, _⟩
    · exact .inl (.push h)
    · cases he
    · cases he
  | rule _ ih =>
    rcases ih with h | ⟨_, he, _⟩ | ⟨_, he, _⟩
    · exact .inl (.rule h)
    · cases he
    · cases he
  | rep1Rep _ ih =>
    rcases ih with h | ⟨_, he, _⟩ | ⟨_, he, _⟩
    · exact .inr (.inl ⟨_, rfl, .rep1 h⟩)
    · cases he
    · cases he
  | repMinRep _ ih =>
    rcases ih with h | ⟨_, he, _⟩ | ⟨_, he, _⟩
    · exact .inr (.inl ⟨_, rfl, .repMin h⟩)
    · cases he
    · cases he
  | repMaxOpt _ ih =>
    rcases ih with h | ⟨_, he, _⟩ | ⟨_, he, _⟩
    · exact .inr (.inr ⟨_, rfl, .repMax h⟩)
    · cases he
    · cases he
  | repMinMaxOpt _ ih =>
    rcases ih with h | ⟨_, he, _⟩ | ⟨_, he, _⟩
    · exact .inr (.inr ⟨_, rfl, .repMinMax h⟩)
    · cases he
    · cases he

/-- so the rule objects, identifiers and groups that `NameOK` / `TagOK` below mention are nodes
    *written* in `e0` or in a rule body -/
theorem Reach.rule_sub {g : Grammar} {e0 : Expr} {name : String} {mod : Nat} {sm : Bool} {body : Expr}
    (h : Reach g e0 (.rule name mod sm body)) : Sub g e0 (.rule name mod sm body) := by
  rcases h.core with h | ⟨_, he, _⟩ | ⟨_, he, _⟩
  · exact h
  · cases he
  · cases he

theorem Reach.ident_sub {g : Grammar} {e0 : Expr} {name : String} {tag : Option String}
    (h : Reach g e0 (.ident name tag)) : Sub g e0 (.ident name tag) := by
  rcases h.core with h | ⟨_, he, _⟩ | ⟨_, he, _⟩
  · exact h
  · cases he
  · cases he

theorem Reach.group_sub {g : Grammar} {e0 e : Expr} {tag : Option String}
    (h : Reach g e0 (.group e tag)) : Sub g e0 (.group e tag) := by
  rcases h.core with h | ⟨_, he, _⟩ | ⟨_, he, _⟩
  · exact h
  · cases he
  · cases he

/-- `nm` is the name of a non-silent rule of the grammar's table, or of a non-silent rule
    object embedded in a reachable expression (how the built-in `EOI` shows up) -/
def NameOK (g : Grammar) (e0 : Expr) (nm : String) : Prop :=
  (∃ r ∈ g.rules, r.name = nm ∧ hasBit r.mod SILENT = false) ∨
  (∃ mod sm body, Reach g e0 (.rule nm mod sm body) ∧ hasBit mod SILENT = false)

theorem NameOK.trans {g : Grammar} {e0 e1 : Expr} {nm : String} (h0 : Reach g e1 e0)
    (h : NameOK g e0 nm) : NameOK g e1 nm := by
  rcases h with h | ⟨mod, sm, body, hr, hs⟩
  · exact Or.inl h
  · exact Or.inr ⟨mod, sm, body, h0.trans hr, hs⟩

theorem Grammar.lookup_mem {g : Grammar} {name : String} {r : Rule} (h : g.lookup name = some r) :
    r ∈ g.rules :=
  List.mem_of_find?_eq_some h

theorem Grammar.fusedSkip_mem {g : Grammar} {r : Rule} (h : g.fusedSkip = some r) : r ∈ g.rules := by
  unfold Grammar.fusedSkip at h
  cases hl : g.lookup "SKIP" with
  | none => rw [hl] at h; cases h
  | some r' =>
    rw [hl] at h
    simp only [] at h
    split at h
    · simp only [Option.some.injEq] at h; subst h; exact Grammar.lookup_mem hl
    · cases h

namespace L0

variable (g : Grammar) (inp : Input) (e0 : Expr)

/-- the property of a pair the names theorem is about -/
abbrev NP : Pair → Prop := fun p => NameOK g e0 p.name

def NamesOK (rec : Sem0) : Prop :=
  ∀ x, Reach g e0 x → ∀ s s' ps, rec x s = .ok s' ps → AllPairs (NP g e0) ps

variable {g e0}

theorem ruleWrap_names {name : String} {mod : Nat} {s s1 s' : S0} {ps1 ps : List Pair}
    (hN : hasBit mod SILENT = false → NameOK g e0 name) (hp : AllPairs (NP g e0) ps1)
    (h : ruleWrap name mod s s1 ps1 = .ok s' ps) : AllPairs (NP g e0) ps := by
  unfold ruleWrap at h
  by_cases hS : hasBit mod SILENT = true
  · simp only [hS, ↓reduceIte, R0.ok.injEq] at h
    rw [← h.2]; exact hp
  · simp only [hS, Bool.false_eq_true, ↓reduceIte, R0.ok.injEq] at h
    rw [← h.2]
    refine .cons (hN (by simpa using hS)) ?_ .nil
    by_cases hA : hasBit mod ATOMIC = true
    · simp only [hA, ↓reduceIte]; exact hp.visible
    · simp only [hA, Bool.false_eq_true, ↓reduceIte]; exact hp

theorem ruleApply_names {rec : Sem0} (hrec : NamesOK g e0 rec) {name : String} {mod : Nat} {body : Expr}
    (hN : hasBit mod SILENT = false → NameOK g e0 name) (hb : Reach g e0 body)
    {s s' : S0} {ps : List Pair} (h : ruleApply rec name mod body s = .ok s' ps) :
    AllPairs (NP g e0) ps := by
  unfold ruleApply at h
  cases hr : rec body { s with atomic := ruleAtomic name mod s.atomic } with
  | ok s1 ps1 =>
    rw [hr] at h
    exact ruleWrap_names hN (hrec _ hb _ _ _ hr) h
  | fail => rw [hr] at h; cases h
  | oof => rw [hr] at h; cases h
  | stuck => rw [hr] at h; cases h

/-- an application of a rule of the table -/
theorem tableRule_names {rec : Sem0} (hrec : NamesOK g e0 rec) {r : Rule} (hr : r ∈ g.rules)
    {s s' : S0} {ps : List Pair} (h : ruleApply rec r.name r.mod r.body s = .ok s' ps) :
    AllPairs (NP g e0) ps :=
  ruleApply_names hrec (fun hS => Or.inl ⟨r, hr, rfl, hS⟩) (.body hr) h

theorem callRule_names {rec : Sem0} (hrec : NamesOK g e0 rec) {name : String}
    {s s' : S0} {ps : List Pair} (h : callRule g rec name s = .ok s' ps) : AllPairs (NP g e0) ps := by
  unfold callRule at h
  cases hl : g.lookup name with
  | none => rw [hl] at h; cases h
  | some r => rw [hl] at h; exact tableRule_names hrec (Grammar.lookup_mem hl) h

theorem trySkip_names {rec : Sem0} (hrec : NamesOK g e0 rec) {r : Option Rule}
    (hr : ∀ r', r = some r' → r' ∈ g.rules) {s s' : S0} {ps : List Pair}
    (h : trySkip rec r s = .matched s' ps) : AllPairs (NP g e0) ps := by
  unfold trySkip at h
  cases r with
  | none => cases h
  | some r =>
    simp only [] at h
    cases ha : ruleApply rec r.name r.mod r.body s with
    | ok s1 ps1 =>
      rw [ha] at h
      simp only [Try0.matched.injEq] at h
      rw [← h.2]
      exact tableRule_names hrec (hr r rfl) ha
    | fail => rw [ha] at h; cases h
    | oof => rw [ha] at h; cases h
    | stuck => rw [ha] at h; cases h

/-- a `stop` is never a success -/
theorem trySkip_stop_not_ok {rec : Sem0} {r : Option Rule} {s : S0} {x : R0}
    (h : trySkip rec r s = .stop x) (s' : S0) (ps : List Pair) : x ≠ .ok s' ps := by
  unfold trySkip at h
  cases r with
  | none => cases h
  | some w =>
    simp only [] at h
    cases ha : ruleApply rec w.name w.mod w.body s with
    | ok _ _ => rw [ha] at h; cases h
    | fail => rw [ha] at h; cases h
    | oof => rw [ha] at h; simp only [Try0.stop.injEq] at h; subst h; simp
    | stuck => rw [ha] at h; simp only [Try0.stop.injEq] at h; subst h; simp

theorem skipLoop_names {rec : Sem0} (hrec : NamesOK g e0 rec) {ws cm : Option Rule}
    (hws : ∀ r', ws = some r' → r' ∈ g.rules) (hcm : ∀ r', cm = some r' → r' ∈ g.rules)
    {s' : S0} {ps : List Pair} :
    ∀ (k : Nat) (s : S0) (acc : List Pair), AllPairs (NP g e0) acc →
      skipLoop rec ws cm k s acc = .ok s' ps → AllPairs (NP g e0) ps := by
  intro k
  induction k with
  | zero => intro s acc _ h; simp [skipLoop] at h
  | succ k ih =>
    intro s acc hacc h
    simp only [skipLoop] at h
    cases h1 : trySkip rec ws s with
    | matched s1 ps1 =>
      rw [h1] at h
      exact ih s1 _ (hacc.append (trySkip_names hrec hws h1)) h
    | stop r => rw [h1] at h; exact absurd h (trySkip_stop_not_ok h1 _ _)
    | no =>
      rw [h1] at h
      simp only [] at h
      cases h2 : trySkip rec cm s with
      | matched s1 ps1 =>
        rw [h2] at h
        exact ih s1 _ (hacc.append (trySkip_names hrec hcm h2)) h
      | stop r => rw [h2] at h; exact absurd h (trySkip_stop_not_ok h2 _ _)
      | no =>
        rw [h2] at h
        simp only [R0.ok.injEq] at h
        rw [← h.2]; exact hacc

theorem skip_names {rec : Sem0} (hrec : NamesOK g e0 rec) {k : Nat} {s s' : S0} {ps : List Pair}
    (h : skip g rec k s = .ok s' ps) : AllPairs (NP g e0) ps := by
  unfold skip at h
  by_cases ha : s.atomic = true
  · simp only [ha, ↓reduceIte, R0.ok.injEq] at h
    rw [← h.2]; exact .nil
  · simp only [ha, Bool.false_eq_true, ↓reduceIte] at h
    cases hf : g.fusedSkip with
    | some r => rw [hf] at h; exact tableRule_names hrec (Grammar.fusedSkip_mem hf) h
    | none =>
      rw [hf] at h
      simp only [] at h
      by_cases hn : ((g.lookup "WHITESPACE").isNone && (g.lookup "COMMENT").isNone) = true
      · simp only [hn, ↓reduceIte, R0.ok.injEq] at h
        rw [← h.2]; exact .nil
      · simp only [hn, Bool.false_eq_true, ↓reduceIte] at h
        exact skipLoop_names hrec (fun _ hl => Grammar.lookup_mem hl) (fun _ hl => Grammar.lookup_mem hl)
          k s [] .nil h

theorem seqL_names {rec : Sem0} (hrec : NamesOK g e0 rec) (k : Nat) {s' : S0} {ps : List Pair} :
    ∀ (es : List Expr), (∀ x ∈ es, Reach g e0 x) → ∀ (s : S0) (acc : List Pair),
      AllPairs (NP g e0) acc → seqL g rec k es s acc = .ok s' ps → AllPairs (NP g e0) ps := by
  intro es
  induction es with
  | nil =>
    intro _ s acc hacc h
    simp only [seqL, R0.ok.injEq] at h
    rw [← h.2]; exact hacc
  | cons e rest ih =>
    intro hes s acc hacc h
    have hrest : ∀ x ∈ rest, Reach g e0 x := fun x hx => hes x (List.mem_cons_of_mem _ hx)
    simp only [seqL] at h
    cases he : rec e s with
    | ok s1 ps1 =>
      rw [he] at h
      simp only [] at h
      have c := hrec e (hes e (List.mem_cons_self ..)) _ _ _ he
      by_cases hr : rest.isEmpty = true
      · simp only [hr, ↓reduceIte, R0.ok.injEq] at h
        rw [← h.2]; exact hacc.append c
      · simp only [hr, Bool.false_eq_true, ↓reduceIte] at h
        cases hsk : skip g rec k s1 with
        | ok s2 tps =>
          rw [hsk] at h
          exact ih hrest s2 _ ((hacc.append c).append (skip_names hrec hsk)) h
        | fail => rw [hsk] at h; exact ih hrest s1 _ (hacc.append c) h
        | oof => rw [hsk] at h; cases h
        | stuck => rw [hsk] at h; cases h
    | fail => rw [he] at h; cases h
    | oof => rw [he] at h; cases h
    | stuck => rw [he] at h; cases h

theorem choiceL_names {rec : Sem0} (hrec : NamesOK g e0 rec) {s s' : S0} {ps : List Pair} :
    ∀ (es : List Expr), (∀ x ∈ es, Reach g e0 x) → choiceL rec es s = .ok s' ps →
      AllPairs (NP g e0) ps := by
  intro es
  induction es with
  | nil => intro _ h; simp [choiceL] at h
  | cons e rest ih =>
    intro hes h
    simp only [choiceL] at h
    cases he : rec e s with
    | ok s1 ps1 =>
      rw [he] at h
      simp only [R0.ok.injEq] at h
      rw [← h.2]
      exact hrec e (hes e (List.mem_cons_self ..)) _ _ _ he
    | fail => rw [he] at h; exact ih (fun x hx => hes x (List.mem_cons_of_mem _ hx)) h
    | oof => rw [he] at h; cases h
    | stuck => rw [he] at h; cases h

theorem repLoop_names {rec : Sem0} (hrec : NamesOK g e0 rec) {e : Expr} (he0 : Reach g e0 e) (kk : Nat)
    {s' : S0} {ps : List Pair} :
    ∀ (k : Nat) (first : Bool) (s : S0) (acc : List Pair), AllPairs (NP g e0) acc →
      repLoop g rec e k kk first s acc = .ok s' ps → AllPairs (NP g e0) ps := by
  intro k
  induction k with
  | zero => intro first s acc _ h; simp [repLoop] at h
  | succ k ih =>
    intro first s acc hacc h
    simp only [repLoop] at h
    have hA : ∀ s1 tps, (if first = true then R0.ok s [] else skip g rec kk s) = .ok s1 tps →
        AllPairs (NP g e0) tps := by
      intro s1 tps hx
      by_cases hf : first = true
      · simp only [hf, ↓reduceIte, R0.ok.injEq] at hx
        rw [← hx.2]; exact .nil
      · simp only [hf, Bool.false_eq_true, ↓reduceIte] at hx
        exact skip_names hrec hx
    cases hsk : (if first = true then R0.ok s [] else skip g rec kk s) with
    | ok s1 tps =>
      rw [hsk] at h
      simp only [] at h
      cases he : rec e s1 with
      | ok s2 ps2 =>
        rw [he] at h
        exact ih false s2 _ ((hacc.append (hA s1 tps hsk)).append (hrec e he0 _ _ _ he)) h
      | fail =>
        rw [he] at h
        simp only [R0.ok.injEq] at h
        rw [← h.2]; exact hacc
      | oof => rw [he] at h; cases h
      | stuck => rw [he] at h; cases h
    | fail =>
      rw [hsk] at h
      simp only [R0.ok.injEq] at h
      rw [← h.2]; exact hacc
    | oof => rw [hsk] at h; cases h
    | stuck => rw [hsk] at h; cases h

theorem ok_nil_all {P : Pair → Prop} {r s' : S0} {ps : List Pair} (h : R0.ok r [] = R0.ok s' ps) :
    AllPairs P ps := by
  simp only [R0.ok.injEq] at h
  rw [← h.2]; exact .nil


theorem step_names {rec : Sem0} (k : Nat) (hrec : NamesOK g e0 rec) :
    NamesOK g e0 (step g inp k rec) := by
  intro x hx s s' ps h
  cases x with
  | ident name tag => exact callRule_names hrec h
  | rule name mod sm body =>
    exact ruleApply_names hrec (fun hS => Or.inr ⟨mod, sm, body, hx, hS⟩) (.rule hx) h
  | seq es => exact seqL_names hrec k es (fun y hy => .seq hx hy) s [] .nil h
  | choice es => exact choiceL_names hrec es (fun y hy => .choice hx hy) h
  | opt e =>
    simp only [step] at h
    cases he : rec e s with
    | ok s1 ps1 => rw [he] at h; simp only [] at h; rw [h] at he; exact hrec e (.opt hx) _ _ _ he
    | fail => rw [he] at h; exact ok_nil_all h
    | oof => rw [he] at h; cases h
    | stuck => rw [he] at h; cases h
  | rep e => exact repLoop_names hrec (.rep hx) k k true s [] .nil h
  | rep1 e =>
    refine seqL_names hrec k _ ?_ s [] .nil h
    intro y hy
    simp only [List.mem_cons, List.not_mem_nil, or_false] at hy
    rcases hy with rfl | rfl
    · exact .rep1 hx
    · exact .rep1Rep hx
  | repExact e n =>
    refine seqL_names hrec k _ ?_ s [] .nil h
    intro y hy
    rw [(List.mem_replicate.mp hy).2]; exact .repExact hx
  | repMin e n =>
    refine seqL_names hrec k _ ?_ s [] .nil h
    intro y hy
    rcases List.mem_append.mp hy with hy | hy
    · rw [(List.mem_replicate.mp hy).2]; exact .repMin hx
    · simp only [List.mem_cons, List.not_mem_nil, or_false] at hy
      rw [hy]; exact .repMinRep hx
  | repMax e n =>
    refine seqL_names hrec k _ ?_ s [] .nil h
    intro y hy
    rw [(List.mem_replicate.mp hy).2]; exact .repMaxOpt hx
  | repMinMax e m n =>
    refine seqL_names hrec k _ ?_ s [] .nil h
    intro y hy
    rcases List.mem_append.mp hy with hy | hy
    · rw [(List.mem_replicate.mp hy).2]; exact .repMinMax hx
    · rw [(List.mem_replicate.mp hy).2]; exact .repMinMaxOpt hx
  | andP e =>
    simp only [step] at h
    cases he : rec e s with
    | ok s1 ps1 => rw [he] at h; exact ok_nil_all h
    | fail => rw [he] at h; cases h
    | oof => rw [he] at h; cases h
    | stuck => rw [he] at h; cases h
  | notP e =>
    simp only [step] at h
    cases he : rec e s with
    | ok s1 ps1 => rw [he] at h; cases h
    | fail => rw [he] at h; exact ok_nil_all h
    | oof => rw [he] at h; cases h
    | stuck => rw [he] at h; cases h
  | group e tag => simp only [step] at h; exact hrec e (.group hx) _ _ _ h
  | push e =>
    simp only [step] at h
    cases he : rec e s with
    | ok s1 ps1 =>
      rw [he] at h
      simp only [R0.ok.injEq] at h
      rw [← h.2]
      exact hrec e (.push hx) _ _ _ he
    | fail => rw [he] at h; cases h
    | oof => rw [he] at h; cases h
    | stuck => rw [he] at h; cases h
  | _ =>
    simp only [step, matchLits] at h
    repeat' (split at h)
    all_goals first | exact ok_nil_all h | cases h

theorem run_names : ∀ n, NamesOK g e0 (run g inp n) := by
  intro n
  induction n with
  | zero => intro x _ s s' ps h; simp [run] at h
  | succ n ih => exact step_names inp n ih

/-- **C06, names (specification level).**  Every pair, at every depth, of a successful run of
    `e` carries the name of a non-silent rule of the grammar's table or of a non-silent rule
    object embedded in an expression reachable from `e`. -/
theorem names_are_rules {n : Nat} {e : Expr} {s s' : S0} {ps : List Pair}
    (h : run g inp n e s = .ok s' ps) : AllPairs (fun p => NameOK g e p.name) ps :=
  run_names inp n e .root s s' ps h

/-- the same for `parse`, where every expression comes from the rule table: the embedded rule
    objects are those reachable from the rule bodies (whatever `e0` is) -/
theorem parse_names_are_rules {fuel : Nat} {start : String} {k : Nat} {s : S0} {ps : List Pair}
    (h : parse g inp fuel start k = .ok s ps) (e0 : Expr) : AllPairs (fun p => NameOK g e0 p.name) ps := by
  unfold parse at h
  cases hl : g.lookup start with
  | none => rw [hl] at h; cases h
  | some r =>
    rw [hl] at h
    exact tableRule_names (run_names inp fuel) (Grammar.lookup_mem hl) h

end L0

/-! ## Part 6: tags are tags written in the grammar (interpreter model L1) -/

/-- `t` is the tag of a reachable identifier or group node -/
def TagOK (g : Grammar) (e0 : Expr) (t : String) : Prop :=
  (∃ nm, Reach g e0 (.ident nm (some t))) ∨ (∃ e, Reach g e0 (.group e (some t)))

theorem TagOK.trans {g : Grammar} {e0 e1 : Expr} {t : String} (h0 : Reach g e1 e0)
    (h : TagOK g e0 t) : TagOK g e1 t := by
  rcases h with ⟨nm, h⟩ | ⟨e, h⟩
  · exact Or.inl ⟨nm, h0.trans h⟩
  · exact Or.inr ⟨e, h0.trans h⟩

namespace L1

variable (g : Grammar) (inp : Input) (e0 : Expr)

/-- the property of a pair the tags theorem is about -/
abbrev TP : Pair → Prop := fun p => ∀ t, p.tag = some t → TagOK g e0 t

/-- every tag waiting on `tag_stack` is a grammar tag -/
def TS (c : PState) : Prop := ∀ t ∈ c.tagStack, TagOK g e0 t

/-- stated for failures too (a failing node may leave a proper suffix of the pending tags
    behind; the nodes that `restore` reinstate the tags saved by their own `checkpoint`, see
    `TagBal` in Lemmas/TagHist.lean) -/
def TagsOK (rec : Sem1) : Prop :=
  ∀ x, Reach g e0 x → ∀ c m c' ps, TS g e0 c → rec x c = .done m c' ps →
    TS g e0 c' ∧ AllPairs (TP g e0) ps

variable {g e0}

theorem TS.of_eq {c c' : PState} (h : TS g e0 c) (e : c'.tagStack = c.tagStack) : TS g e0 c' := by
  intro t ht; rw [e] at ht; exact h t ht

theorem TS.tail {c c' : PState} (h : TS g e0 c) (e : c'.tagStack = c.tagStack.tail) : TS g e0 c' := by
  intro t ht; rw [e] at ht; exact h t (List.mem_of_mem_tail ht)

theorem ts_init (k : Nat) : TS g e0 (PState.init k) := by
  intro t ht; simp [PState.init] at ht

theorem TS.of_suffix {c c' : PState} (h : TS g e0 c) (e : c'.tagStack <:+ c.tagStack) : TS g e0 c' := by
  intro t ht; exact h t (e.subset ht)

/-- what every result of the helpers below satisfies -/
def Post (r : R1) : Prop :=
  ∀ m c' ps, r = .done m c' ps → TS g e0 c' ∧ AllPairs (TP g e0) ps

theorem Post.oof : Post (g := g) (e0 := e0) .oof := by intro m c' ps h; cases h
theorem Post.exc (k : PyExc) : Post (g := g) (e0 := e0) (.exc k) := by intro m c' ps h; cases h
theorem Post.done {m : Bool} {c : PState} {ps : List Pair} (h1 : TS g e0 c) (h2 : AllPairs (TP g e0) ps) :
    Post (g := g) (e0 := e0) (.done m c ps) := by
  intro m' c' ps' h
  simp only [R1.done.injEq] at h
  obtain ⟨_, rfl, rfl⟩ := h
  exact ⟨h1, h2⟩

theorem failT_tags {c : PState} (hc : TS g e0 c) : Post (g := g) (e0 := e0) (failT c) := by
  unfold failT
  cases hf : c.fail none false with
  | none => exact .exc _
  | some c1 => exact .done (hc.of_eq (fail_same hf).2.2.2.2.2.2.1) .nil

theorem ruleExit_tags (name : String) (mod : Nat) (start : Nat) (matched : Bool) {c2 : PState}
    {children : List Pair} (hc : TS g e0 c2) (hch : AllPairs (TP g e0) children) :
    Post (g := g) (e0 := e0) (ruleExit name mod start matched c2 children) := by
  unfold ruleExit
  generalize hc3 : (if ruleScoped name mod then ({ c2 with adepth := c2.adepth.restore } : PState) else c2) = c3
  have h3 : c3.tagStack = c2.tagStack := by
    subst hc3; split <;> rfl
  have hc3' : TS g e0 c3 := hc.of_eq h3
  simp only []
  cases hp : c3.rstack.pop with
  | none => exact .exc _
  | some q =>
    obtain ⟨x, rs⟩ := q
    simp only []
    cases matched with
    | false => exact .done (hc3'.of_eq rfl) .nil
    | true =>
      simp only [Bool.not_true, Bool.false_eq_true, ↓reduceIte]
      by_cases hS : hasBit mod SILENT = true
      · simp only [hS, ↓reduceIte]
        exact .done (hc3'.of_eq rfl) hch
      · simp only [hS, Bool.false_eq_true, ↓reduceIte]
        have hvis : AllPairs (TP g e0) (if hasBit mod ATOMIC = true then visibleList children else children) := by
          split
          · exact hch.visible
          · exact hch
        cases ht : c3.tagStack with
        | nil =>
          simp only []
          refine .done ?_ (.cons ?_ hvis .nil)
          · intro t h; simp at h
          · intro t h; cases h
        | cons t ts =>
          simp only []
          refine .done ?_ (.cons ?_ hvis .nil)
          · intro t' h
            exact hc3' t' (by rw [ht]; exact List.mem_cons_of_mem _ h)
          · intro t' h
            simp only [Pair.tag, Option.some.injEq] at h
            subst h
            exact hc3' t (by rw [ht]; exact List.mem_cons_self ..)

theorem ruleParse_tags {rec : Sem1} (hrec : TagsOK g e0 rec) (name : String) (mod : Nat) {body : Expr}
    (hb : Reach g e0 body) {c : PState} (hc : TS g e0 c) :
    Post (g := g) (e0 := e0) (ruleParse rec name mod body c) := by
  unfold ruleParse
  have hen : TS g e0 (ruleEnter name mod { c with rstack := c.rstack.push name }) :=
    hc.of_eq (by rw [ruleEnter_tagStack])
  cases hr : rec body (ruleEnter name mod { c with rstack := c.rstack.push name }) with
  | oof => exact .oof
  | exc k => exact .exc k
  | done matched c2 children =>
    obtain ⟨a, b⟩ := hrec body hb _ _ _ _ hen hr
    exact ruleExit_tags name mod c.pos matched a b

theorem withTag_tags {tag : Option String} (htag : ∀ t, tag = some t → TagOK g e0 t) {c : PState}
    (hc : TS g e0 c) {body : PState → R1} (hbody : ∀ d, TS g e0 d → Post (g := g) (e0 := e0) (body d)) :
    Post (g := g) (e0 := e0) (withTag tag c body) := by
  unfold withTag
  cases tag with
  | none => exact hbody c hc
  | some t =>
    simp only []
    have hd : TS g e0 { c with tagStack := t :: c.tagStack } := by
      intro t' ht'
      simp only [List.mem_cons] at ht'
      rcases ht' with rfl | ht'
      · exact htag _ rfl
      · exact hc t' ht'
    have hb := hbody _ hd
    cases hr : body { c with tagStack := t :: c.tagStack } with
    | oof => exact .oof
    | exc k => exact .exc k
    | done m c' ps =>
      obtain ⟨a, b⟩ := hb m c' ps hr
      exact .done (a.tail rfl) b

theorem callRule_tags {rec : Sem1} (hrec : TagsOK g e0 rec) (name : String) {c : PState}
    (hc : TS g e0 c) : Post (g := g) (e0 := e0) (callRule g rec name c) := by
  unfold callRule
  cases hl : g.lookup name with
  | none => exact .exc _
  | some r => exact ruleParse_tags hrec r.name r.mod (.body (Grammar.lookup_mem hl)) hc

/-- one guarded attempt at a trivia rule -/
def PostTry : TryR → Prop
  | .matched c' ps => TS g e0 c' ∧ AllPairs (TP g e0) ps
  | .no c1 => TS g e0 c1
  | .stop r => ∀ m c' ps, r ≠ .done m c' ps

theorem tryTrivia_tags {rec : Sem1} (hbal : TagBal rec) (hrec : TagsOK g e0 rec) {r : Option Rule}
    (hr : ∀ r', r = some r' → r' ∈ g.rules) {c : PState} (hc : TS g e0 c) :
    PostTry (g := g) (e0 := e0) (tryTrivia rec r c) := by
  unfold tryTrivia
  cases r with
  | none => exact hc
  | some r =>
    simp only []
    have hp := ruleParse_tags hrec r.name r.mod (.body (hr r rfl)) (c := c.checkpoint) (hc.of_eq rfl)
    cases hx : ruleParse rec r.name r.mod r.body c.checkpoint with
    | oof => intro m c' ps h; cases h
    | exc k => intro m c' ps h; cases h
    | done m c' ps =>
      obtain ⟨a, b⟩ := hp m c' ps hx
      cases m with
      | true => exact ⟨a.of_eq rfl, b⟩
      | false =>
        exact hc.of_eq (ruleParse_tf hbal r.name r.mod r.body c.checkpoint _ _ _ hx).restore_after.stack

theorem triviaLoop_tags {rec : Sem1} (hbal : TagBal rec) (hrec : TagsOK g e0 rec) {ws cm : Option Rule}
    (hws : ∀ r', ws = some r' → r' ∈ g.rules) (hcm : ∀ r', cm = some r' → r' ∈ g.rules) :
    ∀ (k : Nat) (c : PState) (acc : List Pair), TS g e0 c → AllPairs (TP g e0) acc →
      Post (g := g) (e0 := e0) (triviaLoop rec ws cm k c acc) := by
  intro k
  induction k with
  | zero => intro c acc _ _; simp only [triviaLoop]; exact .oof
  | succ k ih =>
    intro c acc hc hacc
    simp only [triviaLoop]
    have h1 := tryTrivia_tags hbal hrec hws hc
    cases hx : tryTrivia rec ws c with
    | matched c' ps =>
      rw [hx] at h1
      exact ih c' _ h1.1 (hacc.append h1.2)
    | stop r =>
      rw [hx] at h1
      intro m c' ps h
      exact absurd h (h1 m c' ps)
    | no c1 =>
      rw [hx] at h1
      simp only []
      have h2 := tryTrivia_tags hbal hrec hcm (c := c1) h1
      cases hy : tryTrivia rec cm c1 with
      | matched c' ps =>
        rw [hy] at h2
        exact ih c' _ h2.1 (hacc.append h2.2)
      | stop r =>
        rw [hy] at h2
        intro m c' ps h
        exact absurd h (h2 m c' ps)
      | no c2 =>
        rw [hy] at h2
        exact .done h2 hacc

theorem parseTrivia_tags {rec : Sem1} (hbal : TagBal rec) (hrec : TagsOK g e0 rec) (k : Nat) {c : PState}
    (hc : TS g e0 c) : Post (g := g) (e0 := e0) (parseTrivia g rec k c) := by
  unfold parseTrivia
  by_cases ha : c.adepth.val > 0
  · simp only [ha, ↓reduceIte]; exact .done hc .nil
  · simp only [ha, ↓reduceIte]
    cases hf : g.fusedSkip with
    | some r =>
      simp only []
      exact ruleParse_tags hrec r.name r.mod (.body (Grammar.fusedSkip_mem hf)) hc
    | none =>
      simp only []
      by_cases hn : ((g.lookup "WHITESPACE").isNone && (g.lookup "COMMENT").isNone) = true
      · simp only [hn, ↓reduceIte]; exact .done hc .nil
      · simp only [hn, Bool.false_eq_true, ↓reduceIte]
        have hl := triviaLoop_tags hbal hrec (ws := g.lookup "WHITESPACE") (cm := g.lookup "COMMENT")
          (fun _ hl => Grammar.lookup_mem hl) (fun _ hl => Grammar.lookup_mem hl) k
          { c with suppress := true } [] (hc.of_eq rfl) .nil
        cases hx : triviaLoop rec (g.lookup "WHITESPACE") (g.lookup "COMMENT") k { c with suppress := true } [] with
        | oof => exact .oof
        | exc kx => exact .exc kx
        | done m c' ps =>
          obtain ⟨a, b⟩ := hl m c' ps hx
          exact .done (a.of_eq rfl) b

theorem seqParse_tags {rec : Sem1} (hbal : TagBal rec) (hrec : TagsOK g e0 rec) (k : Nat) :
    ∀ (es : List Expr), (∀ x ∈ es, Reach g e0 x) → ∀ (c : PState) (acc : List Pair),
      TS g e0 c → AllPairs (TP g e0) acc → Post (g := g) (e0 := e0) (seqParse g rec k es c acc) := by
  intro es
  induction es with
  | nil => intro _ c acc hc hacc; simp only [seqParse]; exact .done hc hacc
  | cons e rest ih =>
    intro hes c acc hc hacc
    have hrest : ∀ x ∈ rest, Reach g e0 x := fun x hx => hes x (List.mem_cons_of_mem _ hx)
    simp only [seqParse]
    cases he : rec e c with
    | oof => exact .oof
    | exc kx => exact .exc kx
    | done m c1 ps =>
      obtain ⟨a, b⟩ := hrec e (hes e (List.mem_cons_self ..)) _ _ _ _ hc he
      cases m with
      | false => exact .done a .nil
      | true =>
        simp only []
        by_cases hr : rest.isEmpty = true
        · simp only [hr, ↓reduceIte]; exact .done a (hacc.append b)
        · simp only [hr, Bool.false_eq_true, ↓reduceIte]
          have ht := parseTrivia_tags hbal hrec k a
          cases hx : parseTrivia g rec k c1 with
          | oof => exact .oof
          | exc kx => exact .exc kx
          | done m2 c2 tps =>
            obtain ⟨a2, b2⟩ := ht m2 c2 tps hx
            exact ih hrest c2 _ a2 ((hacc.append b).append b2)

theorem choiceParse_tags {rec : Sem1} (hbal : TagBal rec) (hrec : TagsOK g e0 rec) :
    ∀ (es : List Expr), (∀ x ∈ es, Reach g e0 x) → ∀ (c : PState),
      TS g e0 c → Post (g := g) (e0 := e0) (choiceParse rec es c) := by
  intro es
  induction es with
  | nil => intro _ c hc; simp only [choiceParse]; exact .done hc .nil
  | cons e rest ih =>
    intro hes c hc
    simp only [choiceParse]
    cases he : rec e c.checkpoint with
    | oof => exact .oof
    | exc kx => exact .exc kx
    | done m c1 ps =>
      obtain ⟨a, b⟩ := hrec e (hes e (List.mem_cons_self ..)) _ _ _ _ (hc.of_eq (by rfl)) he
      cases m with
      | true => exact .done (a.of_eq rfl) b
      | false =>
        exact ih (fun x hx => hes x (List.mem_cons_of_mem _ hx)) c1.restore
          (hc.of_eq (hbal _ _ _ _ _ he).restore_after.stack)

theorem repLoop_tags {rec : Sem1} (hbal : TagBal rec) (hrec : TagsOK g e0 rec) {e : Expr}
    (he0 : Reach g e0 e) (kk : Nat) :
    ∀ (k : Nat) (first : Bool) (c : PState) (acc : List Pair), TS g e0 c → AllPairs (TP g e0) acc →
      Post (g := g) (e0 := e0) (repLoop g rec e k kk first c acc) := by
  intro k
  induction k with
  | zero => intro first c acc _ _; simp only [repLoop]; exact .oof
  | succ k ih =>
    intro first c acc hc hacc
    simp only [repLoop]
    have hT : Post (g := g) (e0 := e0)
        (if first = true then R1.done true c.checkpoint [] else parseTrivia g rec kk c.checkpoint) := by
      by_cases hf : first = true
      · simp only [hf, ↓reduceIte]; exact .done (hc.of_eq rfl) .nil
      · simp only [hf, Bool.false_eq_true, ↓reduceIte]
        exact parseTrivia_tags hbal hrec kk (hc.of_eq rfl)
    have hTf : L1.TF c.checkpoint
        (if first = true then R1.done true c.checkpoint [] else parseTrivia g rec kk c.checkpoint) := by
      by_cases hf : first = true
      · simp only [hf, ↓reduceIte]; exact .done (.refl _)
      · simp only [hf, Bool.false_eq_true, ↓reduceIte]
        exact parseTrivia_tf hbal kk _
    cases hx : (if first = true then R1.done true c.checkpoint [] else parseTrivia g rec kk c.checkpoint) with
    | oof => exact .oof
    | exc kx => exact .exc kx
    | done m c1 tps =>
      obtain ⟨a1, b1⟩ := hT m c1 tps hx
      simp only []
      cases he : rec e c1 with
      | oof => exact .oof
      | exc kx => exact .exc kx
      | done m2 c2 ps =>
        obtain ⟨a2, b2⟩ := hrec e he0 _ _ _ _ a1 he
        cases m2 with
        | true => exact ih false c2.ok _ (a2.of_eq rfl) ((hacc.append b1).append b2)
        | false =>
          exact .done (hc.of_eq ((hTf m c1 tps hx).trans (hbal _ _ _ _ _ he)).restore_after.stack) hacc

/-- POP_ALL runs under the checkpoint taken at `c0` -/
theorem popAllLoop_tags (c0 : PState) (h0 : TS g e0 c0) : ∀ (k : Nat) (c : PState) (position : Nat),
    TagFrame c0.checkpoint c → Post (g := g) (e0 := e0) (popAllLoop inp k c position) := by
  intro k
  induction k with
  | zero => intro c position _; simp only [popAllLoop]; exact .oof
  | succ k ih =>
    intro c position hc
    simp only [popAllLoop]
    cases hp : c.ustack.pop with
    | none => exact .done (h0.of_suffix hc.suf) .nil
    | some q =>
      obtain ⟨lit, us⟩ := q
      simp only []
      have hc' : TagFrame c0.checkpoint { c with ustack := us } := ⟨hc.hist, hc.suf⟩
      by_cases hm : startsWithAt inp lit position = true
      · simp only [hm, ↓reduceIte]
        exact ih _ _ hc'
      · simp only [hm, Bool.false_eq_true, ↓reduceIte]
        exact failT_tags (h0.of_eq hc'.restore_after.stack)

theorem step_tags {rec : Sem1} (k : Nat) (hbal : TagBal rec) (hrec : TagsOK g e0 rec) :
    TagsOK g e0 (step g inp k rec) := by
  intro x hx c m c' ps hc
  -- every case proves `Post (step … x c)`
  suffices hpost : Post (g := g) (e0 := e0) (step g inp k rec x c) from hpost m c' ps
  have hnil : ∀ {m : Bool} {d : PState}, d.tagStack = c.tagStack →
      Post (g := g) (e0 := e0) (.done m d []) := fun e => .done (hc.of_eq e) .nil
  cases x with
  | str s =>
    simp only [step]
    split
    · exact hnil rfl
    · exact failT_tags hc
  | ci s =>
    simp only [step]
    split
    · exact hnil rfl
    · exact failT_tags hc
  | range a b =>
    simp only [step]
    split
    · split
      · exact hnil rfl
      · exact failT_tags hc
    · exact failT_tags hc
  | ident name tag =>
    simp only [step]
    refine withTag_tags ?_ hc (fun d hd => callRule_tags hrec name hd)
    intro t ht; subst ht; exact Or.inl ⟨name, hx⟩
  | rule name mod sm body => exact ruleParse_tags hrec name mod (.rule hx) hc
  | seq es => exact seqParse_tags hbal hrec k es (fun y hy => .seq hx hy) c [] hc .nil
  | choice es => exact choiceParse_tags hbal hrec es (fun y hy => .choice hx hy) c hc
  | opt e =>
    simp only [step]
    cases he : rec e c.checkpoint with
    | oof => exact .oof
    | exc kx => exact .exc kx
    | done m1 c1 ps1 =>
      obtain ⟨a, b⟩ := hrec e (.opt hx) _ _ _ _ (hc.of_eq (by rfl)) he
      cases m1 with
      | true => exact .done (a.of_eq rfl) b
      | false => exact .done (hc.of_eq (hbal _ _ _ _ _ he).restore_after.stack) .nil
  | rep e => exact repLoop_tags hbal hrec (.rep hx) k k true c [] hc .nil
  | rep1 e =>
    refine seqParse_tags hbal hrec k _ ?_ c [] hc .nil
    intro y hy
    simp only [List.mem_cons, List.not_mem_nil, or_false] at hy
    rcases hy with rfl | rfl
    · exact .rep1 hx
    · exact .rep1Rep hx
  | repExact e n =>
    refine seqParse_tags hbal hrec k _ ?_ c [] hc .nil
    intro y hy
    rw [(List.mem_replicate.mp hy).2]; exact .repExact hx
  | repMin e n =>
    refine seqParse_tags hbal hrec k _ ?_ c [] hc .nil
    intro y hy
    rcases List.mem_append.mp hy with hy | hy
    · rw [(List.mem_replicate.mp hy).2]; exact .repMin hx
    · simp only [List.mem_cons, List.not_mem_nil, or_false] at hy
      rw [hy]; exact .repMinRep hx
  | repMax e n =>
    refine seqParse_tags hbal hrec k _ ?_ c [] hc .nil
    intro y hy
    rw [(List.mem_replicate.mp hy).2]; exact .repMaxOpt hx
  | repMinMax e m n =>
    refine seqParse_tags hbal hrec k _ ?_ c [] hc .nil
    intro y hy
    rcases List.mem_append.mp hy with hy | hy
    · rw [(List.mem_replicate.mp hy).2]; exact .repMinMax hx
    · rw [(List.mem_replicate.mp hy).2]; exact .repMinMaxOpt hx
  | andP e =>
    simp only [step]
    cases he : rec e c.checkpoint with
    | oof => exact .oof
    | exc kx => exact .exc kx
    | done m1 c1 ps1 =>
      exact .done (hc.of_eq (hbal _ _ _ _ _ he).restore_after.stack) .nil
  | notP e =>
    simp only [step]
    cases he : rec e { c.checkpoint with negDepth := c.checkpoint.negDepth + 1 } with
    | oof => exact .oof
    | exc kx => exact .exc kx
    | done m1 c1 ps1 =>
      have a' := hbal _ _ _ _ _ he
      have a : TagFrame c.checkpoint c1 := ⟨a'.hist, a'.suf⟩
      have r := a.restore_after
      simp only []
      cases m1 with
      | false => simp only [Bool.false_eq_true, ↓reduceIte]; exact .done (hc.of_eq r.stack) .nil
      | true =>
        simp only [↓reduceIte]
        cases hf : c1.restore.fail (failedName e) true with
        | none => exact .exc _
        | some c3 =>
          simp only []
          exact .done (hc.of_eq ((fail_tags hf).1.trans r.stack)) .nil
  | group e tag =>
    simp only [step]
    refine withTag_tags ?_ hc (fun d hd => ?_)
    · intro t ht; subst ht; exact Or.inr ⟨e, hx⟩
    · intro m1 c1 ps1 h1; exact hrec e (.group hx) _ _ _ _ hd h1
  | push e =>
    simp only [step]
    cases he : rec e c with
    | oof => exact .oof
    | exc kx => exact .exc kx
    | done m1 c1 ps1 =>
      obtain ⟨a, b⟩ := hrec e (.push hx) _ _ _ _ hc he
      cases m1 with
      | true => exact .done (a.of_eq rfl) b
      | false => exact .done a .nil
  | pushLit s => simp only [step]; exact hnil rfl
  | peekSlice a b =>
    simp only [step]
    split
    · exact hnil rfl
    · exact failT_tags hc
  | peek =>
    simp only [step]
    split
    · exact hnil rfl
    · split
      · exact hnil rfl
      · exact failT_tags hc
  | peekAll =>
    simp only [step]
    split
    · exact hnil rfl
    · exact failT_tags hc
  | pop =>
    simp only [step]
    split
    · exact hnil rfl
    · split
      · split
        · exact hnil rfl
        · exact .exc _
      · exact failT_tags hc
  | popAll => simp only [step]; exact popAllLoop_tags inp c hc _ _ _ (.refl _)
  | drop =>
    simp only [step]
    split
    · exact hnil rfl
    · exact failT_tags hc
  | anyB =>
    simp only [step]
    split
    · exact hnil rfl
    · exact hnil rfl
  | soiB => simp only [step]; exact hnil rfl
  | eoiB => simp only [step]; exact hnil rfl
  | uprop n =>
    simp only [step]
    split
    · split
      · exact hnil rfl
      · exact hnil rfl
    · exact hnil rfl
  | skipUntil subs => simp only [step]; exact hnil rfl
  | optChoice alts star =>
    simp only [step]
    split
    · exact hnil rfl
    · exact hnil rfl

theorem run_tags : ∀ n, TagsOK g e0 (run g inp n) := by
  intro n
  induction n with
  | zero => intro x _ c m c' ps _ h; simp [run] at h
  | succ n ih => exact step_tags inp n (run_tf inp g n) ih

/-- **C06, tags (interpreter model).**  Starting with only grammar tags waiting on the tag
    stack (in particular: none), every tag of every pair, at every depth, of the result is the
    tag written on an identifier or group node reachable from `e`. -/
theorem tags_are_grammar_tags {n : Nat} {e : Expr} {c c' : PState} {m : Bool} {ps : List Pair}
    (hc : ∀ t ∈ c.tagStack, TagOK g e t) (h : run g inp n e c = .done m c' ps) :
    AllPairs (fun p => ∀ t, p.tag = some t → TagOK g e t) ps :=
  (run_tags inp n e .root c m c' ps hc h).2

/-- the same for `Parser.parse`: the tags are those written in the rule bodies -/
theorem parse_tags_are_grammar_tags {fuel : Nat} {start : String} {k : Nat} {c : PState} {m : Bool}
    {ps : List Pair} (h : parse g inp fuel start k = .done m c ps) (e0 : Expr) :
    AllPairs (fun p => ∀ t, p.tag = some t → TagOK g e0 t) ps := by
  unfold parse at h
  cases hl : g.lookup start with
  | none => rw [hl] at h; cases h
  | some r =>
    rw [hl] at h
    exact (ruleParse_tags (run_tags inp fuel) r.name r.mod (.body (Grammar.lookup_mem hl))
      (ts_init k) m c ps h).2

end L1

/-! ## Part 7: a non-silent start rule yields exactly one root pair -/

theorem L0.root_single {g : Grammar} {inp : Input} {fuel : Nat} {start : String} {k : Nat} {r : Rule}
    {s : S0} {ps : List Pair} (hl : g.lookup start = some r) (hS : hasBit r.mod SILENT = false)
    (h : L0.parse g inp fuel start k = .ok s ps) :
    ∃ ch, ps = [.mk r.name r.mod k s.pos ch none] := by
  unfold L0.parse at h
  rw [hl] at h
  simp only [L0.ruleApply] at h
  cases hb : L0.run g inp fuel r.body
      { (⟨k, [], false⟩ : S0) with atomic := L0.ruleAtomic r.name r.mod false } with
  | ok s1 ps1 =>
    rw [hb] at h
    simp only [L0.ruleWrap, hS, Bool.false_eq_true, ↓reduceIte, R0.ok.injEq] at h
    obtain ⟨rfl, rfl⟩ := h
    exact ⟨_, rfl⟩
  | fail => rw [hb] at h; cases h
  | oof => rw [hb] at h; cases h
  | stuck => rw [hb] at h; cases h

end Pest
