/-
  Lemmas/Json.lean — the lexical level of the bundled JSON grammars under the specification
  L0 (helper lemmas for Props/C17.lean; big-step rules from Lemmas/Ev.lean).

  The sub-expressions are written out here (`numberBody`, `charBody`, …) exactly as
  `Generated/JsonGrammars.lean` has them; Props/C17.lean proves (`by rfl`) that the regenerated
  rule tables contain these very terms, so an edit of either .pest file re-opens the proofs.

  Positions: `Rest inp s r` says that the input from `s.pos` on is `r`.
-/
import PestModel.Lemmas.Ev
import PestModel.Json

namespace Pest
namespace Json
open L0

/-- `omega` does not look through the abbreviation `CP := Nat` in type arguments -/
macro "cp_omega" : tactic => `(tactic| ((try unfold CP at *); omega))

/-! ### the input from a position on -/

/-- the input from `p` on is `r` -/
def RestAt (inp : Input) (p : Nat) (r : Str) : Prop := inp.toList.drop p = r

theorem RestAt.get {inp : Input} {p : Nat} {c : CP} {r : Str} (h : RestAt inp p (c :: r)) :
    inp[p]? = some c := by
  unfold RestAt at h
  have : inp.toList[p]? = some c := by
    rw [← List.head?_drop, h]; rfl
  simpa using this

theorem RestAt.get_nil {inp : Input} {p : Nat} (h : RestAt inp p []) : inp[p]? = none := by
  unfold RestAt at h
  have : inp.toList[p]? = none := by
    rw [← List.head?_drop, h]; rfl
  simpa using this

theorem RestAt.lt {inp : Input} {p : Nat} {c : CP} {r : Str} (h : RestAt inp p (c :: r)) : p < inp.size := by
  have := h.get
  by_cases hp : p < inp.size
  · exact hp
  · simp [Array.getElem?_eq_none (Nat.le_of_not_lt hp)] at this

theorem RestAt.tail {inp : Input} {p : Nat} {c : CP} {r : Str} (h : RestAt inp p (c :: r)) :
    RestAt inp (p + 1) r := by
  unfold RestAt at h ⊢
  rw [← List.drop_drop, h]; rfl

theorem RestAt.advance {inp : Input} {p : Nat} : ∀ {x r : Str}, RestAt inp p (x ++ r) →
    RestAt inp (p + x.length) r
  | [], _, h => by simpa using h
  | c :: x, r, h => by
    have := RestAt.advance (p := p + 1) (x := x) (r := r) h.tail
    simpa [Nat.add_assoc, Nat.add_comm 1] using this

theorem RestAt.le {inp : Input} {p : Nat} {r : Str} (h : RestAt inp p r) (hr : r ≠ []) : p ≤ inp.size := by
  cases r with
  | nil => exact absurd rfl hr
  | cons c r => exact Nat.le_of_lt h.lt

theorem startsWithAt_of_rest {inp : Input} : ∀ {x : Str} {p : Nat} {r : Str}, p ≤ inp.size →
    RestAt inp p (x ++ r) → startsWithAt inp x p = true
  | [], p, r, hp, _ => by simp [startsWithAt, hp]
  | c :: x, p, r, _, h => by
    have h' : RestAt inp p (c :: (x ++ r)) := h
    simp only [startsWithAt, h'.get, beq_self_eq_true, Bool.true_and]
    exact startsWithAt_of_rest h'.lt h'.tail

theorem startsWithAt_head_ne {inp : Input} {p : Nat} {c d : CP} {x r : Str}
    (h : RestAt inp p (c :: r)) (hne : c ≠ d) : startsWithAt inp (d :: x) p = false := by
  simp [startsWithAt, h.get, hne]

theorem startsWithAt_nil_rest {inp : Input} {p : Nat} {d : CP} {x : Str}
    (h : RestAt inp p []) : startsWithAt inp (d :: x) p = false := by
  simp [startsWithAt, h.get_nil]

/-- the head of the rest of the input satisfies `P` (vacuously at the end) -/
def HeadIs (P : CP → Prop) : Str → Prop
  | [] => True
  | c :: _ => P c

/-! ### states -/

theorem adv_adv (s : S0) (a b : Nat) : adv (adv s a) b = adv s (a + b) := by
  simp [adv, Nat.add_assoc]

theorem adv_zero (s : S0) : adv s 0 = s := by simp [adv]

@[simp] theorem adv_pos (s : S0) (n : Nat) : (adv s n).pos = s.pos + n := rfl
@[simp] theorem adv_atomic (s : S0) (n : Nat) : (adv s n).atomic = s.atomic := rfl
@[simp] theorem adv_stk (s : S0) (n : Nat) : (adv s n).stk = s.stk := rfl

/-! ### digits (built-in rules `ASCII_DIGIT`, `ASCII_NONZERO_DIGIT`, silent) -/

def DIGIT : Expr := .rule "ASCII_DIGIT" 2 true (.range 48 57)
def NZDIGIT : Expr := .rule "ASCII_NONZERO_DIGIT" 2 true (.range 49 57)

def IsDigit (c : CP) : Prop := 48 ≤ c ∧ c ≤ 57

@[simp] theorem digitsText_length (ds : List Digit) : (digitsText ds).length = ds.length := by
  simp [digitsText]

variable {g : Grammar} {inp : Input}

/-- a silent built-in rule around a one-character range, in any context -/
theorem ev_silent_range_ok {name : String} {a b c : CP} {s : S0} {r : Str}
    (hn : L1.isTriviaName name = false)
    (h : RestAt inp s.pos (c :: r)) (hc : a ≤ c ∧ c ≤ b) :
    Ev g inp (.rule name 2 true (.range a b)) s (.ok (adv s 1) []) := by
  have hat : ruleAtomic name 2 s.atomic = s.atomic := by simp [ruleAtomic, hasBit, ATOMIC, COMPOUND, NONATOMIC, hn]
  have := ev_rule_ok (g := g) (inp := inp) (name := name) (mod := 2) (sm := true) (body := .range a b) (s := s)
    (ev_range_ok (s := { s with atomic := ruleAtomic name 2 s.atomic }) (c := c) h.get hc)
  simpa [ruleWrap, hasBit, SILENT, adv, hat] using this

theorem ev_silent_range_fail {name : String} {a b : CP} {s : S0} {r : Str}
    (h : RestAt inp s.pos r) (hc : HeadIs (fun c => ¬ (a ≤ c ∧ c ≤ b)) r) :
    Ev g inp (.rule name 2 true (.range a b)) s .fail := by
  apply ev_rule_fail
  apply ev_range_fail
  intro c hget
  cases r with
  | nil => simp [RestAt.get_nil h] at hget
  | cons d r =>
    have : d = c := by simpa [RestAt.get h] using hget
    subst this; exact hc

theorem ev_digit_ok {s : S0} {d : Digit} {r : Str} (h : RestAt inp s.pos (d.cp :: r)) :
    Ev g inp DIGIT s (.ok (adv s 1) []) :=
  ev_silent_range_ok (by decide) h (by have := d.isLt; unfold Digit.cp; cp_omega)

theorem ev_digit_fail {s : S0} {r : Str} (h : RestAt inp s.pos r) (hc : HeadIs (fun c => ¬ IsDigit c) r) :
    Ev g inp DIGIT s .fail :=
  ev_silent_range_fail h hc

/-- `ASCII_DIGIT*` in an atomic context takes all the digits (the follower is not a digit) -/
theorem evRep_digits {s : S0} (hat : s.atomic = true) :
    ∀ (ds : List Digit) (first : Bool) (s0 : S0) (acc : List Pair) (r : Str),
      s0.atomic = true → RestAt inp s0.pos (digitsText ds ++ r) → HeadIs (fun c => ¬ IsDigit c) r →
      EvRep g inp DIGIT first s0 acc (.ok (adv s0 ds.length) acc)
  | [], first, s0, acc, r, h0, hr, hf => by
    simp only [List.length_nil, adv_zero]
    cases first with
    | true => exact evRep_first_stop (ev_digit_fail (by simpa [digitsText] using hr) hf)
    | false => exact evRep_stop (evSkip_atomic h0) (ev_digit_fail (by simpa [digitsText] using hr) hf)
  | d :: ds, first, s0, acc, r, h0, hr, hf => by
    have hr' : RestAt inp s0.pos (d.cp :: (digitsText ds ++ r)) := by simpa [digitsText] using hr
    have hd := ev_digit_ok (g := g) hr'
    have ih := evRep_digits hat ds false (adv s0 1) acc r (by simpa using h0) (by simpa using hr'.tail) hf
    rw [adv_adv] at ih
    have e : 1 + ds.length = (d :: ds).length := by simp [Nat.add_comm]
    rw [e] at ih
    cases first with
    | true => exact evRep_first_more hd (by simpa using ih)
    | false => exact evRep_more (evSkip_atomic h0) hd (by simpa using ih)

/-! ### one-character literals -/

theorem ev_str1_ok {s : S0} {c : CP} {r : Str} (h : RestAt inp s.pos (c :: r)) :
    Ev g inp (.str [c]) s (.ok (adv s 1) []) :=
  ev_str_ok (x := [c]) (startsWithAt_of_rest (x := [c]) (r := r) (Nat.le_of_lt h.lt) h)

theorem ev_str1_fail {s : S0} {c : CP} {r : Str} (h : RestAt inp s.pos r) (hh : HeadIs (fun d => d ≠ c) r) :
    Ev g inp (.str [c]) s .fail := by
  apply ev_str_fail
  cases r with
  | nil => exact startsWithAt_nil_rest h
  | cons d r => exact startsWithAt_head_ne h hh

theorem HeadIs.mono {P Q : CP → Prop} {r : Str} (h : HeadIs P r) (hpq : ∀ c, P c → Q c) : HeadIs Q r := by
  cases r with
  | nil => trivial
  | cons c r => exact hpq c h

/-! ### `number` of examples/json/json.pest

    number = @{ "-"? ~ ("0" | ASCII_NONZERO_DIGIT ~ ASCII_DIGIT*) ~ ("." ~ ASCII_DIGIT*)?
                ~ (^"e" ~ ("+" | "-")? ~ ASCII_DIGIT+)? } -/

def exIntExpr : Expr := .group (.choice [(.str [48]), (.seq [NZDIGIT, (.rep DIGIT)])]) none
def exFracExpr : Expr := .opt (.group (.seq [(.str [46]), (.rep DIGIT)]) none)
def exSignExpr : Expr := .opt (.group (.choice [(.str [43]), (.str [45])]) none)
def exExpExpr : Expr := .opt (.group (.seq [(.ci [101]), exSignExpr, (.rep1 DIGIT)]) none)
def exNumberBody : Expr := .seq [(.opt (.str [45])), exIntExpr, exFracExpr, exExpExpr]

/-- what may follow a number: not something that would extend it -/
def NumFollow (c : CP) : Prop := ¬ IsDigit c ∧ c ≠ 46 ∧ c ≠ 101 ∧ c ≠ 69

theorem ev_rep_digits {s : S0} (hat : s.atomic = true) (ds : List Digit) {r : Str}
    (hr : RestAt inp s.pos (digitsText ds ++ r)) (hf : HeadIs (fun c => ¬ IsDigit c) r) :
    Ev g inp (.rep DIGIT) s (.ok (adv s ds.length) []) :=
  ev_rep (evRep_digits hat ds true s [] r hat hr hf)

theorem ev_exInt {s : S0} (hat : s.atomic = true) (i : IntPart) {r : Str}
    (hr : RestAt inp s.pos (intText i ++ r)) (hf : HeadIs (fun c => ¬ IsDigit c) r) :
    Ev g inp exIntExpr s (.ok (adv s (intText i).length) []) := by
  cases i with
  | zero =>
    exact ev_group (ev_choice_ok (ev_str1_ok (r := r) (by simpa [intText] using hr)))
  | nonzero d ds =>
    have hr' : RestAt inp s.pos ((49 + d.val) :: (digitsText ds ++ r)) := by simpa [intText] using hr
    have h0 : Ev g inp (.str [48]) s .fail :=
      ev_str1_fail hr' (by show (49 + d.val : CP) ≠ 48; cp_omega)
    have h1 : Ev g inp NZDIGIT s (.ok (adv s 1) []) :=
      ev_silent_range_ok (by decide) hr' (by have := d.isLt; cp_omega)
    have h2 := ev_rep_digits (g := g) (s := adv s 1) (by simpa using hat) ds (by simpa using hr'.tail) hf
    have h3 := ev_seq (evSeq_cons h1 (evSkip_atomic (by simpa using hat)) (evSeq_last h2))
    have h4 := ev_group (t := none) (ev_choice_next h0 (ev_choice_ok (rest := []) h3))
    have e : (intText (.nonzero d ds)).length = 1 + ds.length := by simp [intText, digitsText, Nat.add_comm]
    rw [e, ← adv_adv]
    simpa [exIntExpr] using h4

theorem ev_exFrac_none {s : S0} {r : Str} (hr : RestAt inp s.pos r) (hf : HeadIs (fun c => c ≠ 46) r) :
    Ev g inp exFracExpr s (.ok s []) :=
  ev_opt_none (ev_group (ev_seq (evSeq_fail (ev_str1_fail hr hf))))

theorem ev_exFrac_some {s : S0} (hat : s.atomic = true) (d : Digit) (ds : List Digit) {r : Str}
    (hr : RestAt inp s.pos (46 :: digitsText (d :: ds) ++ r)) (hf : HeadIs (fun c => ¬ IsDigit c) r) :
    Ev g inp exFracExpr s (.ok (adv s (1 + (d :: ds).length)) []) := by
  have hr' : RestAt inp s.pos (46 :: (digitsText (d :: ds) ++ r)) := by simpa using hr
  have h1 := ev_str1_ok (g := g) hr'
  have h2 := ev_rep_digits (g := g) (s := adv s 1) (by simpa using hat) (d :: ds) (by simpa using hr'.tail) hf
  have h3 := ev_opt_ok (ev_group (t := none) (ev_seq (evSeq_cons h1 (evSkip_atomic (by simpa using hat)) (evSeq_last h2))))
  rw [← adv_adv]
  simpa [exFracExpr] using h3

theorem startsWithAtCI_e {p : Nat} {c : CP} {r : Str} (h : RestAt inp p (c :: r)) (hc : c = 101 ∨ c = 69) :
    startsWithAtCI inp [101] p = true := by
  have := h.lt
  rcases hc with rfl | rfl <;> simp [startsWithAtCI, h.get, asciiLower] <;> omega

theorem asciiLower_ne_e {c : CP} (hc : c ≠ 101 ∧ c ≠ 69) : (asciiLower c == asciiLower 101) = false := by
  have h101 : asciiLower 101 = 101 := by decide
  rw [h101]
  unfold asciiLower
  by_cases h1 : (65 ≤ c && c ≤ 90) = true
  · simp only [h1, if_true]
    simp only [Bool.and_eq_true, decide_eq_true_eq] at h1
    have : c + 32 ≠ 101 := by cp_omega
    simpa using this
  · simp only [h1]
    simpa using hc.1

theorem startsWithAtCI_not_e {p : Nat} {r : Str} (h : RestAt inp p r)
    (hc : HeadIs (fun c => c ≠ 101 ∧ c ≠ 69) r) : startsWithAtCI inp [101] p = false := by
  cases r with
  | nil => simp [startsWithAtCI, h.get_nil]
  | cons c r =>
    have hc' : c ≠ 101 ∧ c ≠ 69 := hc
    simp only [startsWithAtCI, h.get, asciiLower_ne_e hc', Bool.false_and]

theorem ev_exExp_none {s : S0} {r : Str} (hr : RestAt inp s.pos r)
    (hf : HeadIs (fun c => c ≠ 101 ∧ c ≠ 69) r) : Ev g inp exExpExpr s (.ok s []) :=
  ev_opt_none (ev_group (ev_seq (evSeq_fail (ev_ci_fail (startsWithAtCI_not_e hr hf)))))

def expSignText : ExpSign → Str | .none => [] | .plus => [43] | .minus => [45]

theorem ev_exSign {s : S0} (sg : ExpSign) (d : Digit) {r : Str}
    (hr : RestAt inp s.pos (expSignText sg ++ d.cp :: r)) :
    Ev g inp exSignExpr s (.ok (adv s (expSignText sg).length) []) := by
  have hd := d.isLt
  cases sg with
  | none =>
    have hr' : RestAt inp s.pos (d.cp :: r) := by simpa [expSignText] using hr
    have h1 := ev_str1_fail (g := g) (c := 43) hr' (by show d.cp ≠ 43; unfold Digit.cp; cp_omega)
    have h2 := ev_str1_fail (g := g) (c := 45) hr' (by show d.cp ≠ 45; unfold Digit.cp; cp_omega)
    simpa [expSignText, adv_zero, exSignExpr] using
      ev_opt_none (ev_group (t := none) (ev_choice_next h1 (ev_choice_next h2 ev_choice_nil)))
  | plus =>
    have hr' : RestAt inp s.pos (43 :: (d.cp :: r)) := by simpa [expSignText] using hr
    simpa [expSignText, exSignExpr] using ev_opt_ok (ev_group (t := none) (ev_choice_ok (ev_str1_ok (g := g) hr')))
  | minus =>
    have hr' : RestAt inp s.pos (45 :: (d.cp :: r)) := by simpa [expSignText] using hr
    have h1 := ev_str1_fail (g := g) (c := 43) hr' (by show (45 : CP) ≠ 43; decide)
    simpa [expSignText, exSignExpr] using
      ev_opt_ok (ev_group (t := none) (ev_choice_next h1 (ev_choice_ok (ev_str1_ok (g := g) hr'))))

theorem expText_eq (e : Exp) :
    expText e = (if e.upper then 69 else 101) :: (expSignText e.sign ++ digitsText (e.d :: e.ds)) := by
  cases e with
  | mk upper sign d ds => cases sign <;> rfl

theorem ev_exExp_some {s : S0} (hat : s.atomic = true) (e : Exp) {r : Str}
    (hr : RestAt inp s.pos (expText e ++ r)) (hf : HeadIs (fun c => ¬ IsDigit c) r) :
    Ev g inp exExpExpr s (.ok (adv s (expText e).length) []) := by
  rw [expText_eq] at hr ⊢
  have hr' : RestAt inp s.pos ((if e.upper then 69 else 101) ::
      (expSignText e.sign ++ e.d.cp :: (digitsText e.ds ++ r))) := by
    simpa [digitsText] using hr
  have h1 := ev_ci_ok (g := g) (x := [101]) (startsWithAtCI_e hr' (by cases e.upper <;> simp))
  have hat1 : (adv s 1).atomic = true := by simpa using hat
  have h2 := ev_exSign (g := g) (s := adv s 1) e.sign e.d (by simpa using hr'.tail)
  have hr2 : RestAt inp (adv (adv s 1) (expSignText e.sign).length).pos (e.d.cp :: (digitsText e.ds ++ r)) := by
    have := (hr'.tail).advance
    simpa [Nat.add_assoc] using this
  have h3 := ev_digit_ok (g := g) hr2
  have h4 := ev_rep_digits (g := g) (s := adv (adv (adv s 1) (expSignText e.sign).length) 1)
    (by simpa using hat) e.ds (by simpa using hr2.tail) hf
  have h5 := ev_rep1 (evSeq_cons h3 (evSkip_atomic (by simpa using hat)) (evSeq_last h4))
  have h6 := ev_opt_ok (ev_group (t := none) (ev_seq
    (evSeq_cons h1 (evSkip_atomic hat1) (evSeq_cons h2 (evSkip_atomic (by simpa using hat)) (evSeq_last h5)))))
  have e' : ((if e.upper then (69 : CP) else 101) :: (expSignText e.sign ++ digitsText (e.d :: e.ds))).length
      = 1 + (expSignText e.sign).length + 1 + e.ds.length := by
    simp [digitsText]; omega
  rw [e']
  simpa [adv_adv, Nat.add_assoc, exExpExpr] using h6

/-! the four parts of a number, uniformly: text, expression, what must not follow -/

def signText (b : Bool) : Str := if b then [45] else []
def fracText : Option (Digit × List Digit) → Str
  | none => []
  | some (d, ds) => 46 :: digitsText (d :: ds)
def expOptText : Option Exp → Str
  | none => []
  | some e => expText e

theorem numText_eq (n : Num) :
    numText n = signText n.neg ++ (intText n.int ++ (fracText n.frac ++ expOptText n.exp)) := by
  cases n with
  | mk neg int frac exp =>
    cases frac with
    | none => cases exp <;> simp [numText, signText, fracText, expOptText]
    | some f => cases f; cases exp <;> simp [numText, signText, fracText, expOptText]

theorem ev_exSignOpt {s : S0} (b : Bool) {r : Str} (hr : RestAt inp s.pos (signText b ++ r))
    (hf : HeadIs (fun c => c ≠ 45) r) :
    Ev g inp (.opt (.str [45])) s (.ok (adv s (signText b).length) []) := by
  cases b with
  | true => exact ev_opt_ok (ev_str1_ok (r := r) (by simpa [signText] using hr))
  | false =>
    simpa [signText, adv_zero] using ev_opt_none (ev_str1_fail (g := g) (c := 45) (by simpa [signText] using hr) hf)

theorem ev_exFrac {s : S0} (hat : s.atomic = true) (f : Option (Digit × List Digit)) {r : Str}
    (hr : RestAt inp s.pos (fracText f ++ r)) (hf : HeadIs (fun c => ¬ IsDigit c ∧ c ≠ 46) r) :
    Ev g inp exFracExpr s (.ok (adv s (fracText f).length) []) := by
  cases f with
  | none =>
    simpa [fracText, adv_zero] using
      ev_exFrac_none (g := g) (by simpa [fracText] using hr) (hf.mono fun c h => h.2)
  | some f =>
    obtain ⟨d, ds⟩ := f
    have := ev_exFrac_some (g := g) hat d ds (by simpa [fracText] using hr) (hf.mono fun c h => h.1)
    simpa [fracText, digitsText, Nat.add_comm] using this

theorem ev_exExp {s : S0} (hat : s.atomic = true) (e : Option Exp) {r : Str}
    (hr : RestAt inp s.pos (expOptText e ++ r)) (hf : HeadIs (fun c => ¬ IsDigit c ∧ c ≠ 101 ∧ c ≠ 69) r) :
    Ev g inp exExpExpr s (.ok (adv s (expOptText e).length) []) := by
  cases e with
  | none =>
    simpa [expOptText, adv_zero] using
      ev_exExp_none (g := g) (by simpa [expOptText] using hr) (hf.mono fun c h => h.2)
  | some e =>
    exact ev_exExp_some hat e (by simpa [expOptText] using hr) (hf.mono fun c h => h.1)

theorem headIs_append {P : CP → Prop} {a b : Str} (ha : a ≠ [] → HeadIs P a) (hb : a = [] → HeadIs P b) :
    HeadIs P (a ++ b) := by
  cases a with
  | nil => simpa using hb rfl
  | cons c a => exact ha (by simp)

theorem intText_ne_nil (i : IntPart) : intText i ≠ [] := by cases i <;> simp [intText]

theorem headIs_intText (i : IntPart) : HeadIs (fun c => c ≠ 45) (intText i) := by
  cases i with
  | zero => show (48 : CP) ≠ 45; decide
  | nonzero d ds => show (49 + d.val : CP) ≠ 45; cp_omega

theorem headIs_fracText {P : CP → Prop} (h46 : P 46) (f : Option (Digit × List Digit)) (hne : fracText f ≠ []) :
    HeadIs P (fracText f) := by
  cases f with
  | none => exact absurd rfl hne
  | some f => exact h46

theorem headIs_expOptText {P : CP → Prop} (h69 : P 69) (h101 : P 101) (e : Option Exp)
    (hne : expOptText e ≠ []) : HeadIs P (expOptText e) := by
  cases e with
  | none => exact absurd rfl hne
  | some e =>
    rw [expOptText, expText_eq]
    cases e.upper <;> simpa [HeadIs]

theorem not_digit_46 : ¬ IsDigit 46 := by unfold IsDigit; cp_omega
theorem not_digit_69 : ¬ IsDigit 69 := by unfold IsDigit; cp_omega
theorem not_digit_101 : ¬ IsDigit 101 := by unfold IsDigit; cp_omega

/-- the body of `number` on a number followed by something that does not extend it -/
theorem ev_exNumberBody {s : S0} (hat : s.atomic = true) (n : Num) {post : Str}
    (hr : RestAt inp s.pos (numText n ++ post)) (hf : HeadIs NumFollow post) :
    Ev g inp exNumberBody s (.ok (adv s (numText n).length) []) := by
  rw [numText_eq] at hr ⊢
  have hr0 : RestAt inp s.pos (signText n.neg ++ (intText n.int ++ (fracText n.frac ++ (expOptText n.exp ++ post)))) := by
    simpa [List.append_assoc] using hr
  -- sign
  have h1 := ev_exSignOpt (g := g) n.neg hr0
    (headIs_append (fun _ => headIs_intText n.int) (fun h => absurd h (intText_ne_nil n.int)))
  have hr1 := hr0.advance
  -- int
  have f2 : HeadIs (fun c => ¬ IsDigit c) (fracText n.frac ++ (expOptText n.exp ++ post)) :=
    headIs_append (headIs_fracText not_digit_46 n.frac)
      (fun _ => headIs_append (headIs_expOptText not_digit_69 not_digit_101 n.exp) (fun _ => hf.mono fun c h => h.1))
  have h2 := ev_exInt (g := g) (s := adv s (signText n.neg).length) (by simpa using hat) n.int
    (by simpa using hr1) f2
  have hr2 : RestAt inp (adv (adv s (signText n.neg).length) (intText n.int).length).pos
      (fracText n.frac ++ (expOptText n.exp ++ post)) := by
    have := hr1.advance
    simpa [Nat.add_assoc] using this
  -- frac
  have f3 : HeadIs (fun c => ¬ IsDigit c ∧ c ≠ 46) (expOptText n.exp ++ post) :=
    headIs_append (headIs_expOptText ⟨not_digit_69, by decide⟩ ⟨not_digit_101, by decide⟩ n.exp)
      (fun _ => hf.mono fun c h => ⟨h.1, h.2.1⟩)
  have h3 := ev_exFrac (g := g) (s := adv (adv s (signText n.neg).length) (intText n.int).length)
    (by simpa using hat) n.frac hr2 f3
  have hr3 := hr2.advance
  -- exp
  have f4 : HeadIs (fun c => ¬ IsDigit c ∧ c ≠ 101 ∧ c ≠ 69) post := hf.mono fun c h => ⟨h.1, h.2.2⟩
  have h4 := ev_exExp (g := g)
    (s := adv (adv (adv s (signText n.neg).length) (intText n.int).length) (fracText n.frac).length)
    (by simpa using hat) n.exp (by simpa using hr3) f4
  have hsk : ∀ k, EvSkip g inp (adv s k) (adv s k) [] := fun k => evSkip_atomic (by simpa using hat)
  have := ev_seq (evSeq_cons h1 (hsk _) (evSeq_cons h2 (by simpa [adv_adv] using hsk _)
    (evSeq_cons h3 (by simpa [adv_adv] using hsk _) (evSeq_last h4))))
  simpa [exNumberBody, adv_adv, Nat.add_assoc] using this

/-- **`number` accepts every RFC 8259 number.**  In any grammar whose rule `number` is the
    atomic rule with this body, from any state (atomic or not, any stack), on any input
    that continues with the text of a number followed by something that does not extend it:
    one childless pair `number` over exactly the text of the number. -/
theorem ev_exNumber {k : RuleKind}
    (hl : g.lookup "number" = some { name := "number", mod := 4, body := exNumberBody, kind := k })
    (s : S0) (n : Num) {post : Str}
    (hr : RestAt inp s.pos (numText n ++ post)) (hf : HeadIs NumFollow post) :
    Ev g inp (.ident "number" none) s
      (.ok (adv s (numText n).length) [mkPair "number" ATOMIC s.pos (s.pos + (numText n).length) []]) := by
  have hb := ev_exNumberBody (g := g) (s := { s with atomic := true }) rfl n hr hf
  have := ev_ident_ok (tag := none) (s := s) hl (by simpa [ruleAtomic, hasBit, ATOMIC] using hb)
  simpa [ruleWrap, hasBit, SILENT, ATOMIC, visibleList, mkPair, adv] using this

/-! ### choices between one-character literals -/

def strs1 (cs : List CP) : List Expr := cs.map fun d => Expr.str [d]

theorem ev_choice_strs_ok {s : S0} {c : CP} {r : Str} (h : RestAt inp s.pos (c :: r)) :
    ∀ cs : List CP, c ∈ cs → Ev g inp (.choice (strs1 cs)) s (.ok (adv s 1) [])
  | [], hm => by simp at hm
  | d :: cs, hm => by
    by_cases hd : c = d
    · subst hd; exact ev_choice_ok (ev_str1_ok h)
    · have hm' : c ∈ cs := by
        rcases List.mem_cons.mp hm with h1 | h1
        · exact absurd h1 hd
        · exact h1
      exact ev_choice_next (ev_str1_fail h (show c ≠ d from hd)) (ev_choice_strs_ok h cs hm')

theorem ev_choice_strs_fail {s : S0} {r : Str} (h : RestAt inp s.pos r) :
    ∀ cs : List CP, HeadIs (fun c => c ∉ cs) r → Ev g inp (.choice (strs1 cs)) s .fail
  | [], _ => ev_choice_nil
  | d :: cs, hh =>
    ev_choice_next (ev_str1_fail h (hh.mono fun c hc => fun e => hc (by simp [e])))
      (ev_choice_strs_fail h cs (hh.mono fun c hc => fun e => hc (by simp [e])))

/-! ### `string`, `inner`, `char` of examples/json/json.pest

    string = ${ "\"" ~ inner ~ "\"" }     inner = @{ char* }
    char   = { !("\"" | "\\") ~ ANY | "\\" ~ ("\"" | "\\" | "/" | "b" | "f" | "n" | "r" | "t")
             | "\\" ~ ("u" ~ ASCII_HEX_DIGIT{4}) } -/

theorem Hex.cp_dig (d : Digit) : (Hex.dig d).cp = 48 + d.val := rfl
theorem Hex.cp_lower (k : Fin 6) : (Hex.lower k).cp = 97 + k.val := rfl
theorem Hex.cp_upper (k : Fin 6) : (Hex.upper k).cp = 65 + k.val := rfl

def HEX : Expr := .rule "ASCII_HEX_DIGIT" 2 true (.choice [(.range 48 57), (.range 97 102), (.range 65 70)])
def ANY : Expr := .rule "ANY" 2 true .anyB

def exCharBody : Expr :=
  .choice [
    (.seq [(.notP (.group (.choice [(.str [34]), (.str [92])]) none)), ANY]),
    (.seq [(.str [92]), (.group (.choice [(.str [34]), (.str [92]), (.str [47]), (.str [98]), (.str [102]),
      (.str [110]), (.str [114]), (.str [116])]) none)]),
    (.seq [(.str [92]), (.group (.seq [(.str [117]), (.repExact HEX 4)]) none)])]
def exInnerBody : Expr := .rep (.ident "char" none)
def exStringBody : Expr := .seq [(.str [34]), (.ident "inner" none), (.str [34])]

/-- the grammar has these three rules (Props/C17.lean: the regenerated tables do) -/
structure ExStringRules (g : Grammar) : Prop where
  string : ∃ k, g.lookup "string" = some { name := "string", mod := 8, body := exStringBody, kind := k }
  inner : ∃ k, g.lookup "inner" = some { name := "inner", mod := 4, body := exInnerBody, kind := k }
  char : ∃ k, g.lookup "char" = some { name := "char", mod := 0, body := exCharBody, kind := k }

theorem silent_wrap (name : String) (s s' : S0) (ps : List Pair) :
    ruleWrap name 2 s s' ps = .ok { s' with atomic := s.atomic } ps := by
  simp [ruleWrap, hasBit, SILENT]

theorem ev_any {s : S0} {c : CP} {r : Str} (h : RestAt inp s.pos (c :: r)) :
    Ev g inp ANY s (.ok (adv s 1) []) := by
  have := ev_rule_ok (g := g) (inp := inp) (name := "ANY") (mod := 2) (sm := true) (body := .anyB) (s := s)
    (ev_any_ok (s := { s with atomic := ruleAtomic "ANY" 2 s.atomic }) h.lt)
  have hat : ruleAtomic "ANY" 2 s.atomic = s.atomic := by
    simp [ruleAtomic, hasBit, ATOMIC, COMPOUND, NONATOMIC, L1.isTriviaName]
  simpa [silent_wrap, adv, hat, ANY] using this

theorem ev_hex {s : S0} (x : Hex) {r : Str} (h : RestAt inp s.pos (x.cp :: r)) :
    Ev g inp HEX s (.ok (adv s 1) []) := by
  have hat : ruleAtomic "ASCII_HEX_DIGIT" 2 s.atomic = s.atomic := by
    simp [ruleAtomic, hasBit, ATOMIC, COMPOUND, NONATOMIC, L1.isTriviaName]
  have hbody : Ev g inp (.choice [(.range 48 57), (.range 97 102), (.range 65 70)])
      { s with atomic := ruleAtomic "ASCII_HEX_DIGIT" 2 s.atomic }
      (.ok (adv { s with atomic := ruleAtomic "ASCII_HEX_DIGIT" 2 s.atomic } 1) []) := by
    cases x with
    | dig d =>
      exact ev_choice_ok (ev_range_ok (c := (Hex.dig d).cp) h.get (by have := d.isLt; rw [Hex.cp_dig]; cp_omega))
    | lower k =>
      have hk := k.isLt
      refine ev_choice_next (ev_range_fail fun c hc => ?_)
        (ev_choice_ok (ev_range_ok (c := (Hex.lower k).cp) h.get (by rw [Hex.cp_lower]; cp_omega)))
      have : c = (Hex.lower k).cp := by
        have := h.get; simp only [] at hc; rw [this] at hc; injection hc with hc; exact hc.symm
      subst this; rw [Hex.cp_lower]; cp_omega
    | upper k =>
      have hk := k.isLt
      have hc' : ∀ c, inp[s.pos]? = some c → c = (Hex.upper k).cp := by
        intro c hc
        have := h.get; rw [this] at hc; injection hc with hc; exact hc.symm
      refine ev_choice_next (ev_range_fail fun c hc => ?_) (ev_choice_next (ev_range_fail fun c hc => ?_)
        (ev_choice_ok (ev_range_ok (c := (Hex.upper k).cp) h.get (by rw [Hex.cp_upper]; cp_omega))))
      · have := hc' c hc; subst this; rw [Hex.cp_upper]; cp_omega
      · have := hc' c hc; subst this; rw [Hex.cp_upper]; cp_omega
  have := ev_rule_ok (g := g) (inp := inp) (name := "ASCII_HEX_DIGIT") (mod := 2) (sm := true) (s := s) hbody
  simpa [silent_wrap, adv, hat, HEX] using this

def escChars : List CP := [34, 92, 47, 98, 102, 110, 114, 116]

theorem esc_mem (e : Esc) : e.cp ∈ escChars := by cases e <;> decide

/-- the first alternative of `char` fails on a backslash or a quote -/
theorem ev_exChar_alt1_fail {s : S0} {c : CP} {r : Str} (h : RestAt inp s.pos (c :: r)) (hc : c = 34 ∨ c = 92) :
    Ev g inp (.seq [(.notP (.group (.choice [(.str [34]), (.str [92])]) none)), ANY]) s .fail := by
  apply ev_seq
  apply evSeq_fail
  have : Ev g inp (.choice (strs1 [34, 92])) s (.ok (adv s 1) []) :=
    ev_choice_strs_ok h [34, 92] (by rcases hc with rfl | rfl <;> decide)
  exact ev_not_fail (ev_group this)

theorem charWrap (s s' : S0) (ps : List Pair) (hat : s'.atomic = s.atomic) :
    ruleWrap "char" 0 s s' ps = .ok s' [.mk "char" 0 s.pos s'.pos ps none] := by
  have : ({ s' with atomic := s.atomic } : S0) = s' := by cases s'; simp_all
  simp [ruleWrap, hasBit, SILENT, ATOMIC, this]

/-- one string character, as written, is one `char` -/
theorem ev_exChar (hg : ExStringRules g) {s : S0} (hat : s.atomic = true) (c : SChar) {r : Str}
    (h : RestAt inp s.pos (c.text ++ r)) :
    Ev g inp (.ident "char" none) s
      (.ok (adv s c.text.length) [.mk "char" 0 s.pos (s.pos + c.text.length) [] none]) := by
  obtain ⟨k, hl⟩ := hg.char
  have hra : ruleAtomic "char" 0 s.atomic = s.atomic := by
    simp [ruleAtomic, hasBit, ATOMIC, COMPOUND, NONATOMIC, L1.isTriviaName]
  have hs : ({ s with atomic := ruleAtomic "char" 0 s.atomic } : S0) = s := by rw [hra]
  have hsk : ∀ k, EvSkip g inp (adv s k) (adv s k) [] := fun k => evSkip_atomic (by simpa using hat)
  suffices hb : Ev g inp exCharBody s (.ok (adv s c.text.length) []) by
    have := ev_ident_ok (tag := none) (s := s) hl (by rw [hs]; exact hb)
    rw [charWrap _ _ _ (by simp)] at this
    simpa using this
  cases c with
  | raw c hc =>
    have h' : RestAt inp s.pos (c :: r) := by simpa [SChar.text] using h
    have hn : Ev g inp (.choice (strs1 [34, 92])) s .fail :=
      ev_choice_strs_fail h' [34, 92] (by
        show c ∉ [34, 92]
        simp only [List.mem_cons, List.not_mem_nil, or_false, not_or]
        exact ⟨hc.2.1, hc.2.2.1⟩)
    have h1 := ev_not_ok (ev_group (t := none) hn)
    have h2 := ev_any (g := g) h'
    have := ev_seq (evSeq_cons h1 (by simpa [adv_zero] using hsk 0) (evSeq_last h2))
    simpa [SChar.text, exCharBody, strs1] using ev_choice_ok (rest := _) this
  | esc e =>
    have h' : RestAt inp s.pos (92 :: (e.cp :: r)) := by simpa [SChar.text] using h
    have a1 := ev_exChar_alt1_fail (g := g) h' (Or.inr rfl)
    have h1 := ev_str1_ok (g := g) h'
    have h2 : Ev g inp (.choice (strs1 escChars)) (adv s 1) (.ok (adv (adv s 1) 1) []) :=
      ev_choice_strs_ok (by simpa using h'.tail) escChars (esc_mem e)
    have := ev_seq (evSeq_cons h1 (hsk 1) (evSeq_last (ev_group (t := none) h2)))
    simpa [SChar.text, exCharBody, strs1, escChars, adv_adv] using ev_choice_next a1 (ev_choice_ok (rest := _) this)
  | u a b c d =>
    have h' : RestAt inp s.pos (92 :: (117 :: (a.cp :: (b.cp :: (c.cp :: (d.cp :: r)))))) := by
      simpa [SChar.text] using h
    have a1 := ev_exChar_alt1_fail (g := g) h' (Or.inr rfl)
    have h1 := ev_str1_ok (g := g) h'
    have t1 := h'.tail
    have a2' : Ev g inp (.choice (strs1 escChars)) (adv s 1) .fail :=
      ev_choice_strs_fail (by simpa using t1) escChars (by show (117 : CP) ∉ escChars; decide)
    have a2 := ev_seq (evSeq_cons h1 (hsk 1) (evSeq_fail (rest := []) (ev_group (t := none) a2')))
    have hu := ev_str1_ok (g := g) (s := adv s 1) (by simpa using t1)
    have t2 := t1.tail
    have t3 := t2.tail
    have t4 := t3.tail
    have t5 := t4.tail
    have x1 := ev_hex (g := g) (s := adv s 2) a (by simpa [Nat.add_assoc] using t2)
    have x2 := ev_hex (g := g) (s := adv s 3) b (by simpa [Nat.add_assoc] using t3)
    have x3 := ev_hex (g := g) (s := adv s 4) c (by simpa [Nat.add_assoc] using t4)
    have x4 := ev_hex (g := g) (s := adv s 5) d (by simpa [Nat.add_assoc] using t5)
    have hx : Ev g inp (.repExact HEX 4) (adv s 2) (.ok (adv s 6) []) := by
      apply ev_repExact
      show EvSeq g inp [HEX, HEX, HEX, HEX] (adv s 2) [] _
      have := evSeq_cons (acc := []) x1 (by simpa [adv_adv] using hsk 3)
        (evSeq_cons (by simpa [adv_adv] using x2) (by simpa [adv_adv] using hsk 4)
          (evSeq_cons (by simpa [adv_adv] using x3) (by simpa [adv_adv] using hsk 5)
            (evSeq_last (by simpa [adv_adv] using x4))))
      simpa [adv_adv] using this
    have hg3 := ev_group (t := none) (ev_seq (evSeq_cons (by simpa [adv_adv] using hu) (by simpa [adv_adv] using hsk 2)
      (evSeq_last hx)))
    have := ev_seq (evSeq_cons h1 (hsk 1) (evSeq_last hg3))
    simpa [SChar.text, exCharBody, strs1, escChars, adv_adv] using
      ev_choice_next a1 (ev_choice_next a2 (ev_choice_ok (rest := []) this))

/-- at the closing quote no `char` matches -/
theorem ev_exChar_quote_fail (hg : ExStringRules g) {s : S0} {r : Str} (h : RestAt inp s.pos (34 :: r)) :
    Ev g inp (.ident "char" none) s .fail := by
  obtain ⟨k, hl⟩ := hg.char
  apply ev_ident_fail (tag := none) hl
  have hq : Ev g inp (.str [92]) { s with atomic := ruleAtomic "char" 0 s.atomic } .fail :=
    ev_str1_fail (r := 34 :: r) h (by show (34 : CP) ≠ 92; decide)
  exact ev_choice_next (ev_exChar_alt1_fail (s := { s with atomic := _ }) h (Or.inl rfl))
    (ev_choice_next (ev_seq (evSeq_fail hq)) (ev_choice_next (ev_seq (evSeq_fail hq)) ev_choice_nil))

/-- the `char` pairs of a string body starting at `p` -/
def charPairs (p : Nat) : SStr → List Pair
  | [] => []
  | c :: cs => .mk "char" 0 p (p + c.text.length) [] none :: charPairs (p + c.text.length) cs

theorem visible_charPairs : ∀ (cs : SStr) (p : Nat), visibleList (charPairs p cs) = []
  | [], _ => rfl
  | c :: cs, p => by
    simp [charPairs, visibleList, Pair.visible, hasBit, COMPOUND, NONATOMIC, visible_charPairs cs]

theorem evRep_chars (hg : ExStringRules g) :
    ∀ (cs : SStr) (first : Bool) (s0 : S0) (acc : List Pair) (r : Str),
      s0.atomic = true → RestAt inp s0.pos (sstrText cs ++ 34 :: r) →
      EvRep g inp (.ident "char" none) first s0 acc
        (.ok (adv s0 (sstrText cs).length) (acc ++ charPairs s0.pos cs))
  | [], first, s0, acc, r, h0, hr => by
    have hr' : RestAt inp s0.pos (34 :: r) := by simpa [sstrText] using hr
    simp only [sstrText, List.length_nil, adv_zero, charPairs, List.append_nil]
    cases first with
    | true => exact evRep_first_stop (ev_exChar_quote_fail hg hr')
    | false => exact evRep_stop (evSkip_atomic h0) (ev_exChar_quote_fail hg hr')
  | c :: cs, first, s0, acc, r, h0, hr => by
    have hr' : RestAt inp s0.pos (c.text ++ (sstrText cs ++ 34 :: r)) := by
      simpa [sstrText, List.append_assoc] using hr
    have hc := ev_exChar hg h0 c hr'
    have ih := evRep_chars hg cs false (adv s0 c.text.length)
      (acc ++ [.mk "char" 0 s0.pos (s0.pos + c.text.length) [] none]) r (by simpa using h0)
      (by simpa using hr'.advance)
    have e : (sstrText (c :: cs)).length = c.text.length + (sstrText cs).length := by simp [sstrText]
    rw [e, ← adv_adv]
    have ih' : EvRep g inp (.ident "char" none) false (adv s0 c.text.length)
        (acc ++ [.mk "char" 0 s0.pos (s0.pos + c.text.length) [] none])
        (.ok (adv (adv s0 c.text.length) (sstrText cs).length) (acc ++ charPairs s0.pos (c :: cs))) := by
      simpa [charPairs, List.append_assoc] using ih
    cases first with
    | true => exact evRep_first_more hc ih'
    | false => exact evRep_more (evSkip_atomic h0) hc (by simpa using ih')

theorem strText_length (cs : SStr) : (strText cs).length = (sstrText cs).length + 2 := by
  simp [strText]

/-- **`string` accepts every RFC 8259 string.**  From any state, on any input that continues
    with a quoted string as written (raw characters, two-character escapes, `\uXXXX`): the
    pair `string` over the whole token with one childless pair `inner` over the raw source
    slice between the quotes. -/
theorem ev_exString (hg : ExStringRules g) (s : S0) (cs : SStr) {r : Str}
    (h : RestAt inp s.pos (strText cs ++ r)) :
    Ev g inp (.ident "string" none) s
      (.ok (adv s (strText cs).length) [mirrorStr .examples s.pos cs]) := by
  obtain ⟨k1, hls⟩ := hg.string
  obtain ⟨k2, hli⟩ := hg.inner
  have h' : RestAt inp s.pos (34 :: (sstrText cs ++ 34 :: r)) := by
    simpa [strText, List.append_assoc] using h
  let sa : S0 := { s with atomic := true }
  have hq1 : Ev g inp (.str [34]) sa (.ok (adv sa 1) []) := ev_str1_ok (s := sa) h'
  -- inner
  have hrep := ev_rep (evRep_chars hg cs true (adv sa 1) [] r rfl (by simpa using h'.tail))
  have hin : Ev g inp (.ident "inner" none) (adv sa 1)
      (.ok (adv (adv sa 1) (sstrText cs).length)
        [mkPair "inner" ATOMIC (s.pos + 1) (s.pos + 1 + (sstrText cs).length) []]) := by
    have := ev_ident_ok (tag := none) (s := adv sa 1) hli
      (by simpa [ruleAtomic, hasBit, ATOMIC, sa, adv, exInnerBody] using hrep)
    simpa [ruleWrap, hasBit, SILENT, ATOMIC, visible_charPairs, mkPair, adv, sa] using this
  have hr2 : RestAt inp (adv (adv sa 1) (sstrText cs).length).pos (34 :: r) := by
    have := (h'.tail).advance
    simpa [sa, Nat.add_assoc] using this
  have hq2 := ev_str1_ok (g := g) hr2
  have hsk : ∀ t : S0, t.atomic = true → EvSkip g inp t t [] := fun t ht => evSkip_atomic ht
  have hbody := ev_seq (evSeq_cons hq1 (hsk _ rfl) (evSeq_cons hin (hsk _ rfl) (evSeq_last hq2)))
  have := ev_ident_ok (tag := none) (s := s) hls
    (by simpa [ruleAtomic, hasBit, ATOMIC, COMPOUND, exStringBody, sa] using hbody)
  rw [strText_length]
  simpa [ruleWrap, hasBit, SILENT, ATOMIC, COMPOUND, mirrorStr, mkPair, adv, sa, strText_length, Nat.add_assoc,
    Nat.add_comm 1] using this

/-! ### `number`, `int`, `exp` of tests/grammars/json.pest

    number = @{ "-"? ~ int ~ ("." ~ ASCII_DIGIT+ ~ exp? | exp)? }
    int    = @{ "0" | ASCII_NONZERO_DIGIT ~ ASCII_DIGIT* }
    exp    = @{ ("E" | "e") ~ ("+" | "-")? ~ ASCII_DIGIT+ } -/

def tIntBody : Expr := .choice [(.str [48]), (.seq [NZDIGIT, (.rep DIGIT)])]
def tExpBody : Expr := .seq [(.group (.choice [(.str [69]), (.str [101])]) none), exSignExpr, (.rep1 DIGIT)]
def tFracExpr : Expr :=
  .opt (.group (.choice [(.seq [(.str [46]), (.rep1 DIGIT), (.opt (.ident "exp" none))]), (.ident "exp" none)]) none)
def tNumberBody : Expr := .seq [(.opt (.str [45])), (.ident "int" none), tFracExpr]

structure TNumberRules (g : Grammar) : Prop where
  number : ∃ k, g.lookup "number" = some { name := "number", mod := 4, body := tNumberBody, kind := k }
  int : ∃ k, g.lookup "int" = some { name := "int", mod := 4, body := tIntBody, kind := k }
  exp : ∃ k, g.lookup "exp" = some { name := "exp", mod := 4, body := tExpBody, kind := k }

theorem atomic_wrap (name : String) (s s' : S0) (ps : List Pair) (hv : visibleList ps = []) :
    ruleWrap name 4 s s' ps = .ok { s' with atomic := s.atomic } [.mk name 4 s.pos s'.pos [] none] := by
  simp [ruleWrap, hasBit, SILENT, ATOMIC, hv]

theorem atomic_enter (name : String) (b : Bool) : ruleAtomic name 4 b = true := by
  simp [ruleAtomic, hasBit, ATOMIC]

@[simp] theorem visible_leaf4 (name : String) (a b : Nat) :
    (Pair.mk name 4 a b [] none).visible = [] := by
  simp [Pair.visible, hasBit, COMPOUND, NONATOMIC, visibleList]

theorem visible_atomic_leaf (name : String) (a b : Nat) (rest : List Pair) (h : visibleList rest = []) :
    visibleList (.mk name 4 a b [] none :: rest) = [] := by
  simp [visibleList, Pair.visible, hasBit, COMPOUND, NONATOMIC, h]

theorem same_atomic (s : S0) (k : Nat) (h : s.atomic = true) :
    ({ adv s k with atomic := s.atomic } : S0) = adv s k := by
  cases s; simp_all [adv]

theorem ev_tInt (hg : TNumberRules g) {s : S0} (hat : s.atomic = true) (i : IntPart) {r : Str}
    (hr : RestAt inp s.pos (intText i ++ r)) (hf : HeadIs (fun c => ¬ IsDigit c) r) :
    Ev g inp (.ident "int" none) s
      (.ok (adv s (intText i).length) [.mk "int" 4 s.pos (s.pos + (intText i).length) [] none]) := by
  obtain ⟨k, hl⟩ := hg.int
  have hb : Ev g inp tIntBody s (.ok (adv s (intText i).length) []) := by
    have := ev_exInt (g := g) hat i hr hf
    obtain ⟨N, h⟩ := this.step
    exact ⟨N, fun n hn => by
      have := h n hn
      simpa [exIntExpr, tIntBody, L0.step] using this⟩
  have hs : ({ s with atomic := ruleAtomic "int" 4 s.atomic } : S0) = s := by
    rw [atomic_enter]; cases s; simp_all
  have := ev_ident_ok (tag := none) (s := s) hl (by rw [hs]; exact hb)
  rw [atomic_wrap _ _ _ _ rfl, same_atomic _ _ hat] at this
  simpa using this

theorem ev_tExp (hg : TNumberRules g) {s : S0} (hat : s.atomic = true) (e : Exp) {r : Str}
    (hr : RestAt inp s.pos (expText e ++ r)) (hf : HeadIs (fun c => ¬ IsDigit c) r) :
    Ev g inp (.ident "exp" none) s
      (.ok (adv s (expText e).length) [.mk "exp" 4 s.pos (s.pos + (expText e).length) [] none]) := by
  obtain ⟨k, hl⟩ := hg.exp
  have hb : Ev g inp tExpBody s (.ok (adv s (expText e).length) []) := by
    rw [expText_eq] at hr ⊢
    have hr' : RestAt inp s.pos ((if e.upper then 69 else 101) ::
        (expSignText e.sign ++ e.d.cp :: (digitsText e.ds ++ r))) := by
      simpa [digitsText] using hr
    have h1 : Ev g inp (.group (.choice [(.str [69]), (.str [101])]) none) s (.ok (adv s 1) []) := by
      apply ev_group
      cases hu : e.upper with
      | true => exact ev_choice_ok (ev_str1_ok (by simpa [hu] using hr'))
      | false =>
        have hr'' : RestAt inp s.pos (101 :: (expSignText e.sign ++ e.d.cp :: (digitsText e.ds ++ r))) := by
          simpa [hu] using hr'
        exact ev_choice_next (ev_str1_fail hr'' (by show (101 : CP) ≠ 69; decide)) (ev_choice_ok (ev_str1_ok hr''))
    have h2 := ev_exSign (g := g) (s := adv s 1) e.sign e.d (by simpa using hr'.tail)
    have hr2 : RestAt inp (adv (adv s 1) (expSignText e.sign).length).pos (e.d.cp :: (digitsText e.ds ++ r)) := by
      have := (hr'.tail).advance
      simpa [Nat.add_assoc] using this
    have h3 := ev_digit_ok (g := g) hr2
    have h4 := ev_rep_digits (g := g) (s := adv (adv (adv s 1) (expSignText e.sign).length) 1)
      (by simpa using hat) e.ds (by simpa using hr2.tail) hf
    have h5 := ev_rep1 (evSeq_cons h3 (evSkip_atomic (by simpa using hat)) (evSeq_last h4))
    have h6 := ev_seq
      (evSeq_cons h1 (evSkip_atomic (by simpa using hat)) (evSeq_cons h2 (evSkip_atomic (by simpa using hat)) (evSeq_last h5)))
    have e' : ((if e.upper then (69 : CP) else 101) :: (expSignText e.sign ++ digitsText (e.d :: e.ds))).length
        = 1 + (expSignText e.sign).length + 1 + e.ds.length := by
      simp [digitsText]; omega
    rw [e']
    simpa [adv_adv, Nat.add_assoc, tExpBody] using h6
  have hs : ({ s with atomic := ruleAtomic "exp" 4 s.atomic } : S0) = s := by
    rw [atomic_enter]; cases s; simp_all
  have := ev_ident_ok (tag := none) (s := s) hl (by rw [hs]; exact hb)
  rw [atomic_wrap _ _ _ _ rfl, same_atomic _ _ hat] at this
  simpa using this

theorem ev_tExp_fail (hg : TNumberRules g) {s : S0} {r : Str} (hr : RestAt inp s.pos r)
    (hf : HeadIs (fun c => c ≠ 101 ∧ c ≠ 69) r) : Ev g inp (.ident "exp" none) s .fail := by
  obtain ⟨k, hl⟩ := hg.exp
  apply ev_ident_fail (tag := none) hl
  apply ev_seq
  apply evSeq_fail
  apply ev_group
  exact ev_choice_next (ev_str1_fail hr (hf.mono fun c h => h.2))
    (ev_choice_next (ev_str1_fail hr (hf.mono fun c h => h.1)) ev_choice_nil)

/-- the pairs `exp` leaves, if any -/
def tExpPairs (p : Nat) : Option Exp → List Pair
  | none => []
  | some e => [.mk "exp" 4 p (p + (expText e).length) [] none]

theorem visible_tExpPairs (p : Nat) (e : Option Exp) : visibleList (tExpPairs p e) = [] := by
  cases e <;> simp [tExpPairs, visibleList, Pair.visible, hasBit, COMPOUND, NONATOMIC]

/-- `exp?` -/
theorem ev_tExpOpt (hg : TNumberRules g) {s : S0} (hat : s.atomic = true) (e : Option Exp) {r : Str}
    (hr : RestAt inp s.pos (expOptText e ++ r)) (hf : HeadIs (fun c => ¬ IsDigit c ∧ c ≠ 101 ∧ c ≠ 69) r) :
    Ev g inp (.opt (.ident "exp" none)) s (.ok (adv s (expOptText e).length) (tExpPairs s.pos e)) := by
  cases e with
  | none =>
    simpa [expOptText, adv_zero, tExpPairs] using
      ev_opt_none (ev_tExp_fail hg (by simpa [expOptText] using hr) (hf.mono fun c h => h.2))
  | some e =>
    exact ev_opt_ok (ev_tExp hg hat e (by simpa [expOptText] using hr) (hf.mono fun c h => h.1))

/-- `("." ~ ASCII_DIGIT+ ~ exp? | exp)?` -/
theorem ev_tFrac (hg : TNumberRules g) {s : S0} (hat : s.atomic = true) (f : Option (Digit × List Digit))
    (e : Option Exp) {r : Str} (hr : RestAt inp s.pos (fracText f ++ (expOptText e ++ r)))
    (hf : HeadIs NumFollow r) :
    Ev g inp tFracExpr s (.ok (adv s ((fracText f).length + (expOptText e).length))
      (tExpPairs (s.pos + (fracText f).length) e)) := by
  have hfe : HeadIs (fun c => ¬ IsDigit c ∧ c ≠ 101 ∧ c ≠ 69) r := hf.mono fun c h => ⟨h.1, h.2.2⟩
  cases f with
  | some f =>
    obtain ⟨d, ds⟩ := f
    have hr' : RestAt inp s.pos (46 :: (d.cp :: (digitsText ds ++ (expOptText e ++ r)))) := by
      simpa [fracText, digitsText] using hr
    have h1 := ev_str1_ok (g := g) hr'
    have hd := ev_digit_ok (g := g) (s := adv s 1) (by simpa using hr'.tail)
    have hnd : HeadIs (fun c => ¬ IsDigit c) (expOptText e ++ r) :=
      headIs_append (headIs_expOptText not_digit_69 not_digit_101 e) (fun _ => hf.mono fun c h => h.1)
    have hds := ev_rep_digits (g := g) (s := adv (adv s 1) 1) (by simpa using hat) ds
      (by simpa [Nat.add_assoc] using hr'.tail.tail) hnd
    have h2 := ev_rep1 (evSeq_cons hd (evSkip_atomic (by simpa using hat)) (evSeq_last hds))
    have hr3 : RestAt inp (adv (adv (adv s 1) 1) ds.length).pos (expOptText e ++ r) := by
      have := (hr'.tail.tail).advance
      simpa [Nat.add_assoc] using this
    have h3 := ev_tExpOpt hg (s := adv (adv (adv s 1) 1) ds.length) (by simpa using hat) e hr3 hfe
    have := ev_opt_ok (ev_group (t := none) (ev_choice_ok (rest := [(.ident "exp" none)]) (ev_seq
      (evSeq_cons h1 (evSkip_atomic (by simpa using hat))
        (evSeq_cons h2 (evSkip_atomic (by simpa using hat)) (evSeq_last h3))))))
    have e1 : (fracText (some (d, ds))).length = 1 + 1 + ds.length := by simp [fracText, digitsText]; omega
    rw [e1]
    simpa [tFracExpr, adv_adv, Nat.add_assoc] using this
  | none =>
    have hr' : RestAt inp s.pos (expOptText e ++ r) := by simpa [fracText] using hr
    have h46 : HeadIs (fun c => c ≠ 46) (expOptText e ++ r) :=
      headIs_append (headIs_expOptText (by decide) (by decide) e) (fun _ => hf.mono fun c h => h.2.1)
    have a1 : Ev g inp (.seq [(.str [46]), (.rep1 DIGIT), (.opt (.ident "exp" none))]) s .fail :=
      ev_seq (evSeq_fail (ev_str1_fail hr' h46))
    cases e with
    | none =>
      have a2 := ev_tExp_fail hg (by simpa [expOptText] using hr') (hfe.mono fun c h => h.2)
      simpa [tFracExpr, fracText, expOptText, adv_zero, tExpPairs] using
        ev_opt_none (ev_group (t := none) (ev_choice_next a1 (ev_choice_next a2 ev_choice_nil)))
    | some e =>
      have h2 := ev_tExp hg hat e (by simpa [expOptText] using hr') (hfe.mono fun c h => h.1)
      simpa [tFracExpr, fracText, expOptText, tExpPairs] using
        ev_opt_ok (ev_group (t := none) (ev_choice_next a1 (ev_choice_ok (rest := []) h2)))

/-- **`number` of tests/grammars/json.pest accepts every RFC 8259 number**, as one childless
    pair (the nested atomic rules `int` and `exp` are hidden by the atomic `number`). -/
theorem ev_tNumber (hg : TNumberRules g) (s : S0) (n : Num) {post : Str}
    (hr : RestAt inp s.pos (numText n ++ post)) (hf : HeadIs NumFollow post) :
    Ev g inp (.ident "number" none) s
      (.ok (adv s (numText n).length) [mkPair "number" ATOMIC s.pos (s.pos + (numText n).length) []]) := by
  obtain ⟨k, hl⟩ := hg.number
  let sa : S0 := { s with atomic := true }
  rw [numText_eq] at hr ⊢
  have hr0 : RestAt inp sa.pos (signText n.neg ++ (intText n.int ++ (fracText n.frac ++ (expOptText n.exp ++ post)))) := by
    simpa [List.append_assoc] using hr
  have h1 := ev_exSignOpt (g := g) (s := sa) n.neg hr0
    (headIs_append (fun _ => headIs_intText n.int) (fun h => absurd h (intText_ne_nil n.int)))
  have hr1 := hr0.advance
  have f2 : HeadIs (fun c => ¬ IsDigit c) (fracText n.frac ++ (expOptText n.exp ++ post)) :=
    headIs_append (headIs_fracText not_digit_46 n.frac)
      (fun _ => headIs_append (headIs_expOptText not_digit_69 not_digit_101 n.exp) (fun _ => hf.mono fun c h => h.1))
  have h2 := ev_tInt hg (s := adv sa (signText n.neg).length) rfl n.int (by simpa using hr1) f2
  have hr2 : RestAt inp (adv (adv sa (signText n.neg).length) (intText n.int).length).pos
      (fracText n.frac ++ (expOptText n.exp ++ post)) := by
    have := hr1.advance
    simpa [Nat.add_assoc] using this
  have h3 := ev_tFrac hg (s := adv (adv sa (signText n.neg).length) (intText n.int).length) rfl n.frac n.exp hr2 hf
  have hsk : ∀ t : S0, t.atomic = true → EvSkip g inp t t [] := fun t ht => evSkip_atomic ht
  have hbody := ev_seq (evSeq_cons h1 (hsk _ rfl) (evSeq_cons h2 (hsk _ rfl) (evSeq_last h3)))
  have := ev_ident_ok (tag := none) (s := s) hl
    (by simpa [atomic_enter, tNumberBody, sa] using hbody)
  rw [atomic_wrap _ _ _ _ (by simp [visible_atomic_leaf, visible_tExpPairs])] at this
  simpa [mkPair, ATOMIC, adv, sa, Nat.add_assoc] using this

/-! ### `string`, `inner`, `escape`, `unicode` of tests/grammars/json.pest

    string  = @{ "\"" ~ inner ~ "\"" }
    inner   = @{ (!("\"" | "\\") ~ ANY)* ~ (escape ~ inner)? }
    escape  = @{ "\\" ~ ("\"" | "\\" | "/" | "b" | "f" | "n" | "r" | "t" | unicode) }
    unicode = @{ "u" ~ ASCII_HEX_DIGIT{4} } -/

def tRawExpr : Expr := .group (.seq [(.notP (.group (.choice [(.str [34]), (.str [92])]) none)), ANY]) none
def tInnerBody : Expr :=
  .seq [(.rep tRawExpr), (.opt (.group (.seq [(.ident "escape" none), (.ident "inner" none)]) none))]
def tEscapeBody : Expr :=
  .seq [(.str [92]), (.group (.choice [(.str [34]), (.str [92]), (.str [47]), (.str [98]), (.str [102]),
    (.str [110]), (.str [114]), (.str [116]), (.ident "unicode" none)]) none)]
def tUnicodeBody : Expr := .seq [(.str [117]), (.repExact HEX 4)]
def tStringBody : Expr := .seq [(.str [34]), (.ident "inner" none), (.str [34])]

structure TStringRules (g : Grammar) : Prop where
  string : ∃ k, g.lookup "string" = some { name := "string", mod := 4, body := tStringBody, kind := k }
  inner : ∃ k, g.lookup "inner" = some { name := "inner", mod := 4, body := tInnerBody, kind := k }
  escape : ∃ k, g.lookup "escape" = some { name := "escape", mod := 4, body := tEscapeBody, kind := k }
  unicode : ∃ k, g.lookup "unicode" = some { name := "unicode", mod := 4, body := tUnicodeBody, kind := k }

theorem ev_choice_strs_ok' {s : S0} {c : CP} {r : Str} (tl : List Expr) (h : RestAt inp s.pos (c :: r)) :
    ∀ cs : List CP, c ∈ cs → Ev g inp (.choice (strs1 cs ++ tl)) s (.ok (adv s 1) [])
  | [], hm => by simp at hm
  | d :: cs, hm => by
    by_cases hd : c = d
    · subst hd; exact ev_choice_ok (ev_str1_ok h)
    · have hm' : c ∈ cs := by
        rcases List.mem_cons.mp hm with h1 | h1
        · exact absurd h1 hd
        · exact h1
      exact ev_choice_next (ev_str1_fail h (show c ≠ d from hd)) (ev_choice_strs_ok' tl h cs hm')

theorem ev_choice_strs_skip {s : S0} {r : Str} {res : R0} (tl : List Expr) (h : RestAt inp s.pos r)
    (htl : Ev g inp (.choice tl) s res) :
    ∀ cs : List CP, HeadIs (fun c => c ∉ cs) r → Ev g inp (.choice (strs1 cs ++ tl)) s res
  | [], _ => htl
  | d :: cs, hh =>
    ev_choice_next (ev_str1_fail h (hh.mono fun c hc => fun e => hc (by simp [e])))
      (ev_choice_strs_skip tl h htl cs (hh.mono fun c hc => fun e => hc (by simp [e])))

theorem ev_tRaw_ok {s : S0} (hat : s.atomic = true) {c : CP} (hc : Unescaped c) {r : Str}
    (h : RestAt inp s.pos (c :: r)) : Ev g inp tRawExpr s (.ok (adv s 1) []) := by
  have hn : Ev g inp (.choice (strs1 [34, 92])) s .fail :=
    ev_choice_strs_fail h [34, 92] (by
      show c ∉ [34, 92]
      simp only [List.mem_cons, List.not_mem_nil, or_false, not_or]
      exact ⟨hc.2.1, hc.2.2.1⟩)
  have h1 := ev_not_ok (ev_group (t := none) hn)
  have h2 := ev_any (g := g) h
  have := ev_group (t := none) (ev_seq (evSeq_cons h1 (evSkip_atomic hat) (evSeq_last h2)))
  simpa [tRawExpr, strs1] using this

theorem ev_tRaw_fail {s : S0} {c : CP} {r : Str} (h : RestAt inp s.pos (c :: r)) (hc : c = 34 ∨ c = 92) :
    Ev g inp tRawExpr s .fail :=
  ev_group (ev_exChar_alt1_fail h hc)

def SChar.isRaw : SChar → Bool
  | .raw _ _ => true
  | _ => false

/-- number of leading raw characters, and what follows them -/
def spanRaw : SStr → Nat × SStr
  | .raw c h :: cs => ((spanRaw cs).1 + 1, (spanRaw cs).2)
  | cs => (0, cs)

theorem spanRaw_nonraw (c : SChar) (cs : SStr) (h : c.isRaw = false) : spanRaw (c :: cs) = (0, c :: cs) := by
  cases c <;> first | rfl | simp [SChar.isRaw] at h

theorem spanRaw_length : ∀ cs : SStr, (spanRaw cs).2.length ≤ cs.length
  | [] => Nat.le_refl _
  | .raw c h :: cs => by
    have := spanRaw_length cs
    simp only [spanRaw, List.length_cons]; omega
  | .esc e :: cs => Nat.le_refl _
  | .u a b c d :: cs => Nat.le_refl _

theorem spanRaw_text : ∀ cs : SStr, (sstrText cs).length = (spanRaw cs).1 + (sstrText (spanRaw cs).2).length
  | [] => rfl
  | .raw c h :: cs => by
    have := spanRaw_text cs
    simp only [spanRaw, sstrText, SChar.text, List.length_append, List.length_cons, List.length_nil]; omega
  | .esc e :: cs => by simp [spanRaw]
  | .u a b c d :: cs => by simp [spanRaw]

theorem spanRaw_head : ∀ (cs : SStr) (c : SChar) (rest : SStr), (spanRaw cs).2 = c :: rest → c.isRaw = false
  | [], c, rest, h => by simp [spanRaw] at h
  | .raw c0 h0 :: cs, c, rest, h => spanRaw_head cs c rest (by simpa [spanRaw] using h)
  | .esc e :: cs, c, rest, h => by
    simp only [spanRaw] at h; injection h with h1 _; subst h1; rfl
  | .u a b c0 d :: cs, c, rest, h => by
    simp only [spanRaw] at h; injection h with h1 _; subst h1; rfl

theorem nonraw_text_head (c : SChar) (h : c.isRaw = false) : ∃ t, c.text = 92 :: t := by
  cases c with
  | raw c hc => simp [SChar.isRaw] at h
  | esc e => exact ⟨_, rfl⟩
  | u a b c d => exact ⟨_, rfl⟩

/-- `(!("\"" | "\\") ~ ANY)*` takes exactly the leading raw characters -/
theorem evRep_raws :
    ∀ (cs : SStr) (first : Bool) (s0 : S0) (acc : List Pair) (r : Str),
      s0.atomic = true → RestAt inp s0.pos (sstrText cs ++ 34 :: r) →
      EvRep g inp tRawExpr first s0 acc (.ok (adv s0 (spanRaw cs).1) acc) ∧
        RestAt inp (s0.pos + (spanRaw cs).1) (sstrText (spanRaw cs).2 ++ 34 :: r)
  | [], first, s0, acc, r, h0, hr => by
    have hr' : RestAt inp s0.pos (34 :: r) := by simpa [sstrText] using hr
    refine ⟨?_, by simpa [spanRaw, sstrText] using hr'⟩
    simp only [spanRaw, adv_zero]
    cases first with
    | true => exact evRep_first_stop (ev_tRaw_fail hr' (Or.inl rfl))
    | false => exact evRep_stop (evSkip_atomic h0) (ev_tRaw_fail hr' (Or.inl rfl))
  | .raw c hc :: cs, first, s0, acc, r, h0, hr => by
    have hr' : RestAt inp s0.pos (c :: (sstrText cs ++ 34 :: r)) := by
      simpa [sstrText, SChar.text] using hr
    have h1 := ev_tRaw_ok (g := g) h0 hc hr'
    obtain ⟨ih1, ih2⟩ := evRep_raws cs false (adv s0 1) acc r (by simpa using h0) (by simpa using hr'.tail)
    refine ⟨?_, by simpa [spanRaw, Nat.add_assoc, Nat.add_comm 1] using ih2⟩
    have e : (spanRaw (.raw c hc :: cs)).1 = 1 + (spanRaw cs).1 := by simp [spanRaw, Nat.add_comm]
    rw [e, ← adv_adv]
    cases first with
    | true => exact evRep_first_more h1 (by simpa using ih1)
    | false => exact evRep_more (evSkip_atomic h0) h1 (by simpa using ih1)
  | .esc e :: cs, first, s0, acc, r, h0, hr => by
    have hr' : RestAt inp s0.pos (92 :: (e.cp :: (sstrText cs ++ 34 :: r))) := by
      simpa [sstrText, SChar.text] using hr
    refine ⟨?_, by simpa [spanRaw] using hr⟩
    simp only [spanRaw, adv_zero]
    cases first with
    | true => exact evRep_first_stop (ev_tRaw_fail hr' (Or.inr rfl))
    | false => exact evRep_stop (evSkip_atomic h0) (ev_tRaw_fail hr' (Or.inr rfl))
  | .u a b c d :: cs, first, s0, acc, r, h0, hr => by
    have hr' : RestAt inp s0.pos (92 :: (117 :: a.cp :: b.cp :: c.cp :: d.cp :: (sstrText cs ++ 34 :: r))) := by
      simpa [sstrText, SChar.text] using hr
    refine ⟨?_, by simpa [spanRaw] using hr⟩
    simp only [spanRaw, adv_zero]
    cases first with
    | true => exact evRep_first_stop (ev_tRaw_fail hr' (Or.inr rfl))
    | false => exact evRep_stop (evSkip_atomic h0) (ev_tRaw_fail hr' (Or.inr rfl))

theorem ev_tUnicode (hg : TStringRules g) {s : S0} (hat : s.atomic = true) (a b c d : Hex) {r : Str}
    (h : RestAt inp s.pos (117 :: a.cp :: b.cp :: c.cp :: d.cp :: r)) :
    Ev g inp (.ident "unicode" none) s (.ok (adv s 5) [.mk "unicode" 4 s.pos (s.pos + 5) [] none]) := by
  obtain ⟨k, hl⟩ := hg.unicode
  have hsk : ∀ k, EvSkip g inp (adv s k) (adv s k) [] := fun k => evSkip_atomic (by simpa using hat)
  have hu := ev_str1_ok (g := g) h
  have t1 := h.tail
  have t2 := t1.tail
  have t3 := t2.tail
  have t4 := t3.tail
  have x1 := ev_hex (g := g) (s := adv s 1) a (by simpa using t1)
  have x2 := ev_hex (g := g) (s := adv s 2) b (by simpa [Nat.add_assoc] using t2)
  have x3 := ev_hex (g := g) (s := adv s 3) c (by simpa [Nat.add_assoc] using t3)
  have x4 := ev_hex (g := g) (s := adv s 4) d (by simpa [Nat.add_assoc] using t4)
  have hx : Ev g inp (.repExact HEX 4) (adv s 1) (.ok (adv s 5) []) := by
    apply ev_repExact
    show EvSeq g inp [HEX, HEX, HEX, HEX] (adv s 1) [] _
    have := evSeq_cons (acc := []) x1 (by simpa [adv_adv] using hsk 2)
      (evSeq_cons (by simpa [adv_adv] using x2) (by simpa [adv_adv] using hsk 3)
        (evSeq_cons (by simpa [adv_adv] using x3) (by simpa [adv_adv] using hsk 4)
          (evSeq_last (by simpa [adv_adv] using x4))))
    simpa [adv_adv] using this
  have hb := ev_seq (evSeq_cons hu (hsk 1) (evSeq_last hx))
  have hs : ({ s with atomic := ruleAtomic "unicode" 4 s.atomic } : S0) = s := by
    rw [atomic_enter]; cases s; simp_all
  have := ev_ident_ok (tag := none) (s := s) hl (by rw [hs]; simpa [tUnicodeBody] using hb)
  rw [atomic_wrap _ _ _ _ rfl, same_atomic _ _ hat] at this
  simpa using this

theorem escChoice_eq :
    [(Expr.str [34]), (.str [92]), (.str [47]), (.str [98]), (.str [102]), (.str [110]), (.str [114]),
      (.str [116]), (.ident "unicode" none)] = strs1 escChars ++ [.ident "unicode" none] := rfl

/-- an escape as written is one `escape` -/
theorem ev_tEscape (hg : TStringRules g) {s : S0} (hat : s.atomic = true) (c : SChar) (hc : c.isRaw = false)
    {r : Str} (h : RestAt inp s.pos (c.text ++ r)) :
    Ev g inp (.ident "escape" none) s
      (.ok (adv s c.text.length) [.mk "escape" 4 s.pos (s.pos + c.text.length) [] none]) := by
  obtain ⟨k, hl⟩ := hg.escape
  have hs : ({ s with atomic := ruleAtomic "escape" 4 s.atomic } : S0) = s := by
    rw [atomic_enter]; cases s; simp_all
  have hsk : ∀ k, EvSkip g inp (adv s k) (adv s k) [] := fun k => evSkip_atomic (by simpa using hat)
  suffices hb : ∃ ps, visibleList ps = [] ∧ Ev g inp tEscapeBody s (.ok (adv s c.text.length) ps) by
    obtain ⟨ps, hv, hb⟩ := hb
    have := ev_ident_ok (tag := none) (s := s) hl (by rw [hs]; exact hb)
    rw [atomic_wrap _ _ _ _ hv, same_atomic _ _ hat] at this
    simpa using this
  cases c with
  | raw c hc' => simp [SChar.isRaw] at hc
  | esc e =>
    have h' : RestAt inp s.pos (92 :: (e.cp :: r)) := by simpa [SChar.text] using h
    have h1 := ev_str1_ok (g := g) h'
    have h2 : Ev g inp (.choice (strs1 escChars ++ [.ident "unicode" none])) (adv s 1) (.ok (adv (adv s 1) 1) []) :=
      ev_choice_strs_ok' _ (by simpa using h'.tail) escChars (esc_mem e)
    have := ev_seq (evSeq_cons h1 (hsk 1) (evSeq_last (ev_group (t := none) h2)))
    exact ⟨[], rfl, by simpa [SChar.text, tEscapeBody, escChoice_eq, adv_adv] using this⟩
  | u a b c d =>
    have h' : RestAt inp s.pos (92 :: (117 :: a.cp :: b.cp :: c.cp :: d.cp :: r)) := by
      simpa [SChar.text] using h
    have h1 := ev_str1_ok (g := g) h'
    have t1 : RestAt inp (adv s 1).pos (117 :: a.cp :: b.cp :: c.cp :: d.cp :: r) := by simpa using h'.tail
    have hu := ev_tUnicode hg (s := adv s 1) (by simpa using hat) a b c d t1
    have h2 : Ev g inp (.choice (strs1 escChars ++ [.ident "unicode" none])) (adv s 1)
        (.ok (adv (adv s 1) 5) [.mk "unicode" 4 (adv s 1).pos ((adv s 1).pos + 5) [] none]) :=
      ev_choice_strs_skip _ t1 (ev_choice_ok hu) escChars (by show (117 : CP) ∉ escChars; decide)
    have := ev_seq (evSeq_cons h1 (hsk 1) (evSeq_last (ev_group (t := none) h2)))
    exact ⟨_, visible_atomic_leaf _ _ _ [] rfl,
      by simpa [SChar.text, tEscapeBody, escChoice_eq, adv_adv] using this⟩

theorem ev_tEscape_fail (hg : TStringRules g) {s : S0} {r : Str} (h : RestAt inp s.pos (34 :: r)) :
    Ev g inp (.ident "escape" none) s .fail := by
  obtain ⟨k, hl⟩ := hg.escape
  exact ev_ident_fail (tag := none) hl
    (ev_seq (evSeq_fail (ev_str1_fail (r := 34 :: r) h (by show (34 : CP) ≠ 92; decide))))

/-- `inner` takes the whole body of the string, up to the closing quote -/
theorem ev_tInner (hg : TStringRules g) :
    ∀ (n : Nat) (cs : SStr), cs.length ≤ n → ∀ (s : S0) (r : Str), s.atomic = true →
      RestAt inp s.pos (sstrText cs ++ 34 :: r) →
      Ev g inp (.ident "inner" none) s
        (.ok (adv s (sstrText cs).length) [.mk "inner" 4 s.pos (s.pos + (sstrText cs).length) [] none]) := by
  intro n
  induction n with
  | zero =>
    intro cs hn s r hat hr
    have : cs = [] := List.eq_nil_of_length_eq_zero (by omega)
    subst this
    obtain ⟨k, hl⟩ := hg.inner
    have hs : ({ s with atomic := ruleAtomic "inner" 4 s.atomic } : S0) = s := by
      rw [atomic_enter]; cases s; simp_all
    obtain ⟨h1, h2⟩ := evRep_raws (g := g) [] true s [] r hat hr
    have hq : RestAt inp s.pos (34 :: r) := by simpa [sstrText] using hr
    have hopt := ev_opt_none (ev_group (t := none) (ev_seq (evSeq_fail (rest := [.ident "inner" none])
      (ev_tEscape_fail hg hq))))
    have hb := ev_seq (evSeq_cons (ev_rep h1) (evSkip_atomic (by simpa using hat)) (evSeq_last
      (by simpa [spanRaw, adv_zero] using hopt)))
    have := ev_ident_ok (tag := none) (s := s) hl (by rw [hs]; simpa [tInnerBody] using hb)
    rw [atomic_wrap _ _ _ _ (by simp [visibleList])] at this
    simpa [spanRaw, sstrText, adv_zero, same_atomic s 0 hat] using this
  | succ n ih =>
    intro cs hn s r hat hr
    obtain ⟨k, hl⟩ := hg.inner
    have hs : ({ s with atomic := ruleAtomic "inner" 4 s.atomic } : S0) = s := by
      rw [atomic_enter]; cases s; simp_all
    obtain ⟨h1, h2⟩ := evRep_raws (g := g) cs true s [] r hat hr
    have hlen := spanRaw_text cs
    cases hrest : (spanRaw cs).2 with
    | nil =>
      rw [hrest] at h2 hlen
      have hq : RestAt inp (adv s (spanRaw cs).1).pos (34 :: r) := by simpa [sstrText] using h2
      have hopt := ev_opt_none (ev_group (t := none) (ev_seq (evSeq_fail (rest := [.ident "inner" none])
        (ev_tEscape_fail hg hq))))
      have hb := ev_seq (evSeq_cons (ev_rep h1) (evSkip_atomic (by simpa using hat)) (evSeq_last hopt))
      have := ev_ident_ok (tag := none) (s := s) hl (by rw [hs]; simpa [tInnerBody] using hb)
      rw [atomic_wrap _ _ _ _ (by simp [visibleList])] at this
      have e : (sstrText cs).length = (spanRaw cs).1 := by simpa [sstrText] using hlen
      rw [e]
      simpa [adv] using this
    | cons c rest =>
      rw [hrest] at h2 hlen
      have hc := spanRaw_head cs c rest hrest
      have hrl : rest.length ≤ n := by
        have := spanRaw_length cs
        rw [hrest] at this
        simp only [List.length_cons] at this; omega
      have h2' : RestAt inp (adv s (spanRaw cs).1).pos (c.text ++ (sstrText rest ++ 34 :: r)) := by
        simpa [sstrText, List.append_assoc] using h2
      have he := ev_tEscape hg (s := adv s (spanRaw cs).1) (by simpa using hat) c hc h2'
      have hi := ih rest hrl (adv (adv s (spanRaw cs).1) c.text.length) r (by simpa using hat)
        (by simpa using h2'.advance)
      have hopt := ev_opt_ok (ev_group (t := none) (ev_seq
        (evSeq_cons he (evSkip_atomic (by simpa using hat)) (evSeq_last hi))))
      have hb := ev_seq (evSeq_cons (ev_rep h1) (evSkip_atomic (by simpa using hat)) (evSeq_last hopt))
      have := ev_ident_ok (tag := none) (s := s) hl (by rw [hs]; simpa [tInnerBody] using hb)
      rw [atomic_wrap _ _ _ _ (by simp [visibleList])] at this
      have e : (sstrText cs).length = (spanRaw cs).1 + (c.text.length + (sstrText rest).length) := by
        simpa [sstrText] using hlen
      rw [e]
      simpa [adv, Nat.add_assoc] using this

/-- **`string` of tests/grammars/json.pest accepts every RFC 8259 string**, as one childless
    pair spanning the quotes (the raw source slice is the span minus the quotes). -/
theorem ev_tString (hg : TStringRules g) (s : S0) (cs : SStr) {r : Str}
    (h : RestAt inp s.pos (strText cs ++ r)) :
    Ev g inp (.ident "string" none) s (.ok (adv s (strText cs).length) [mirrorStr .tests s.pos cs]) := by
  obtain ⟨k, hl⟩ := hg.string
  have h' : RestAt inp s.pos (34 :: (sstrText cs ++ 34 :: r)) := by
    simpa [strText, List.append_assoc] using h
  let sa : S0 := { s with atomic := true }
  have hq1 : Ev g inp (.str [34]) sa (.ok (adv sa 1) []) := ev_str1_ok (s := sa) h'
  have hin := ev_tInner hg cs.length cs (Nat.le_refl _) (adv sa 1) r rfl (by simpa using h'.tail)
  have hr2 : RestAt inp (adv (adv sa 1) (sstrText cs).length).pos (34 :: r) := by
    have := (h'.tail).advance
    simpa [sa, Nat.add_assoc] using this
  have hq2 := ev_str1_ok (g := g) hr2
  have hsk : ∀ t : S0, t.atomic = true → EvSkip g inp t t [] := fun t ht => evSkip_atomic ht
  have hbody := ev_seq (evSeq_cons hq1 (hsk _ rfl) (evSeq_cons hin (hsk _ rfl) (evSeq_last hq2)))
  have := ev_ident_ok (tag := none) (s := s) hl (by simpa [atomic_enter, tStringBody, sa] using hbody)
  rw [atomic_wrap _ _ _ _ (by simp [visibleList])] at this
  rw [strText_length]
  simpa [mirrorStr, mkPair, ATOMIC, adv, sa, strText_length, Nat.add_assoc, Nat.add_comm 1] using this

end Json
end Pest
