/-
  Lemmas/OptSoundBase.lean — groundwork for C02 (optimizer soundness), all inside L0.

  * `AP` / `run_AP` (= `atomic_preserved`): a successful evaluation leaves the atomicity flag alone.
  * `Evt`, `Tgt`: "for all large enough fuel the target grammar answers `r`".
  * `SimAt`: one expression of a source semantics is simulated by an expression of the target
    grammar, in states whose atomicity flag is `a`.
  * cross-grammar congruence lemmas for every helper of `L0.step` (`ruleApply_simO`, `skip_simO`,
    `seqL_simO`, `choiceL_simO`, `repLoop_simO`) — the analogue of `Lemmas/Mono.lean` for two
    grammars and two (related) expressions.
-/
import PestModel.Lemmas.Mono
import PestModel.Lemmas.OptSoundPrim
import PestModel.Opt

namespace Pest
namespace L0

variable (g : Grammar) (inp : Input)

/-! ### atomicity is preserved -/

def AP (rec : Sem0) : Prop := ∀ e s s' ps, rec e s = .ok s' ps → s'.atomic = s.atomic

theorem ruleWrap_atomicO (name : String) (mod : Nat) (s s' s'' : S0) (ps ps' : List Pair)
    (h : ruleWrap name mod s s' ps = .ok s'' ps') : s''.atomic = s.atomic := by
  unfold ruleWrap at h
  by_cases hm : hasBit mod SILENT = true
  · simp only [hm, ↓reduceIte, R0.ok.injEq] at h
    rw [← h.1]
  · simp only [hm, Bool.false_eq_true, ↓reduceIte, R0.ok.injEq] at h
    rw [← h.1]

theorem ruleApply_atomicO (rec : Sem0) (name : String) (mod : Nat) (body : Expr) (s s' : S0)
    (ps : List Pair) (h : ruleApply rec name mod body s = .ok s' ps) : s'.atomic = s.atomic := by
  unfold ruleApply at h
  cases hb : rec body { s with atomic := ruleAtomic name mod s.atomic } with
  | ok s1 ps1 => rw [hb] at h; exact ruleWrap_atomicO _ _ _ _ _ _ _ h
  | fail => rw [hb] at h; simp at h
  | oof => rw [hb] at h; simp at h
  | stuck => rw [hb] at h; simp at h

theorem trySkip_atomicO (rec : Sem0) (r : Option Rule) (s s' : S0) (ps : List Pair)
    (h : trySkip rec r s = .matched s' ps) : s'.atomic = s.atomic := by
  unfold trySkip at h
  cases r with
  | none => simp at h
  | some r =>
    simp only [] at h
    cases ha : ruleApply rec r.name r.mod r.body s with
    | ok s1 ps1 =>
      rw [ha] at h
      simp only [Try0.matched.injEq] at h
      rw [← h.1]; exact ruleApply_atomicO _ _ _ _ _ _ _ ha
    | fail => rw [ha] at h; simp at h
    | oof => rw [ha] at h; simp at h
    | stuck => rw [ha] at h; simp at h

theorem skipLoop_atomicO (rec : Sem0) (ws cm : Option Rule) :
    ∀ (k : Nat) (s : S0) (acc : List Pair) (s' : S0) (ps : List Pair),
      skipLoop rec ws cm k s acc = .ok s' ps → s'.atomic = s.atomic := by
  intro k
  induction k with
  | zero => intro s acc s' ps h; simp [skipLoop] at h
  | succ k ih =>
    intro s acc s' ps h
    simp only [skipLoop] at h
    cases h1 : trySkip rec ws s with
    | matched s1 ps1 =>
      rw [h1] at h
      rw [ih _ _ _ _ h, trySkip_atomicO _ _ _ _ _ h1]
    | stop r => rw [h1] at h; simp only [] at h; cases r <;> simp at h
                all_goals (exact absurd h1 (by
                  unfold trySkip; cases ws with
                  | none => simp
                  | some w => simp only []; cases ruleApply rec w.name w.mod w.body s <;> simp))
    | no =>
      rw [h1] at h
      simp only [] at h
      cases h2 : trySkip rec cm s with
      | matched s1 ps1 =>
        rw [h2] at h
        rw [ih _ _ _ _ h, trySkip_atomicO _ _ _ _ _ h2]
      | stop r => rw [h2] at h; simp only [] at h; cases r <;> simp at h
                  all_goals (exact absurd h2 (by
                    unfold trySkip; cases cm with
                    | none => simp
                    | some w => simp only []; cases ruleApply rec w.name w.mod w.body s <;> simp))
      | no => rw [h2] at h; simp only [R0.ok.injEq] at h; rw [← h.1]

theorem skip_atomicO (rec : Sem0) (k : Nat) (s s' : S0) (ps : List Pair)
    (h : skip g rec k s = .ok s' ps) : s'.atomic = s.atomic := by
  unfold skip at h
  by_cases ha : s.atomic = true
  · simp only [ha, ↓reduceIte, R0.ok.injEq] at h; rw [← h.1]
  · simp only [ha, Bool.false_eq_true, ↓reduceIte] at h
    cases hf : g.fusedSkip with
    | some r => rw [hf] at h; exact ruleApply_atomicO _ _ _ _ _ _ _ h
    | none =>
      rw [hf] at h
      simp only [] at h
      by_cases hn : ((g.lookup "WHITESPACE").isNone && (g.lookup "COMMENT").isNone) = true
      · simp only [hn, ↓reduceIte, R0.ok.injEq] at h; rw [← h.1]
      · simp only [hn, Bool.false_eq_true, ↓reduceIte] at h
        exact skipLoop_atomicO _ _ _ _ _ _ _ _ h

theorem seqL_atomicO {rec : Sem0} (h : AP rec) (k : Nat) :
    ∀ (es : List Expr) (s : S0) (acc : List Pair) (s' : S0) (ps : List Pair),
      seqL g rec k es s acc = .ok s' ps → s'.atomic = s.atomic := by
  intro es
  induction es with
  | nil => intro s acc s' ps hh; simp only [seqL, R0.ok.injEq] at hh; rw [← hh.1]
  | cons e rest ih =>
    intro s acc s' ps hh
    simp only [seqL] at hh
    cases he : rec e s with
    | oof => rw [he] at hh; simp at hh
    | fail => rw [he] at hh; simp at hh
    | stuck => rw [he] at hh; simp at hh
    | ok s1 ps1 =>
      have a1 := h _ _ _ _ he
      rw [he] at hh
      simp only [] at hh
      by_cases hr : rest.isEmpty = true
      · simp only [hr, ↓reduceIte, R0.ok.injEq] at hh; rw [← hh.1, a1]
      · simp only [hr, Bool.false_eq_true, ↓reduceIte] at hh
        cases hsk : skip g rec k s1 with
        | oof => rw [hsk] at hh; simp at hh
        | stuck => rw [hsk] at hh; simp at hh
        | fail => rw [hsk] at hh; simp only [] at hh; rw [ih _ _ _ _ hh, a1]
        | ok s2 tps =>
          rw [hsk] at hh; simp only [] at hh
          rw [ih _ _ _ _ hh, skip_atomicO g _ _ _ _ _ hsk, a1]

theorem choiceL_atomicO {rec : Sem0} (h : AP rec) :
    ∀ (es : List Expr) (s : S0) (s' : S0) (ps : List Pair),
      choiceL rec es s = .ok s' ps → s'.atomic = s.atomic := by
  intro es
  induction es with
  | nil => intro s s' ps hh; simp [choiceL] at hh
  | cons e rest ih =>
    intro s s' ps hh
    simp only [choiceL] at hh
    cases he : rec e s with
    | oof => rw [he] at hh; simp at hh
    | fail => rw [he] at hh; exact ih _ _ _ hh
    | stuck => rw [he] at hh; simp at hh
    | ok s1 ps1 => rw [he] at hh; simp only [R0.ok.injEq] at hh; rw [← hh.1]; exact h _ _ _ _ he

theorem repLoop_atomicO {rec : Sem0} (h : AP rec) (e : Expr) (kk : Nat) :
    ∀ (k : Nat) (first : Bool) (s : S0) (acc : List Pair) (s' : S0) (ps : List Pair),
      repLoop g rec e k kk first s acc = .ok s' ps → s'.atomic = s.atomic := by
  intro k
  induction k with
  | zero => intro first s acc s' ps hh; simp [repLoop] at hh
  | succ k ih =>
    intro first s acc s' ps hh
    simp only [repLoop] at hh
    cases ha : (if first = true then R0.ok s [] else skip g rec kk s) with
    | oof => rw [ha] at hh; simp at hh
    | stuck => rw [ha] at hh; simp at hh
    | fail => rw [ha] at hh; simp only [R0.ok.injEq] at hh; rw [← hh.1]
    | ok s1 tps =>
      have a1 : s1.atomic = s.atomic := by
        by_cases hf : first = true
        · simp only [hf, ↓reduceIte, R0.ok.injEq] at ha; rw [← ha.1]
        · simp only [hf, Bool.false_eq_true, ↓reduceIte] at ha
          exact skip_atomicO g _ _ _ _ _ ha
      rw [ha] at hh
      simp only [] at hh
      cases he : rec e s1 with
      | oof => rw [he] at hh; simp at hh
      | stuck => rw [he] at hh; simp at hh
      | fail => rw [he] at hh; simp only [R0.ok.injEq] at hh; rw [← hh.1]
      | ok s2 ps2 =>
        rw [he] at hh
        rw [ih _ _ _ _ _ hh, h _ _ _ _ he, a1]

theorem step_AP {rec : Sem0} (h : AP rec) (k : Nat) : AP (step g inp k rec) := by
  intro e s s' ps hh
  cases e with
  | ident name tag =>
    simp only [step, callRule] at hh
    cases hl : g.lookup name with
    | none => rw [hl] at hh; simp at hh
    | some r => rw [hl] at hh; exact ruleApply_atomicO _ _ _ _ _ _ _ hh
  | rule name mod sm body => exact ruleApply_atomicO _ _ _ _ _ _ _ hh
  | seq es => exact seqL_atomicO g h k _ _ _ _ _ hh
  | choice es => exact choiceL_atomicO h _ _ _ _ hh
  | rep e => exact repLoop_atomicO g h e k k true s [] s' ps hh
  | rep1 e => exact seqL_atomicO g h k _ _ _ _ _ hh
  | repExact e n => exact seqL_atomicO g h k _ _ _ _ _ hh
  | repMin e n => exact seqL_atomicO g h k _ _ _ _ _ hh
  | repMax e n => exact seqL_atomicO g h k _ _ _ _ _ hh
  | repMinMax e m n => exact seqL_atomicO g h k _ _ _ _ _ hh
  | opt e =>
    simp only [step] at hh
    cases he : rec e s with
    | ok s1 ps1 => rw [he] at hh; simp only [R0.ok.injEq] at hh; rw [← hh.1]; exact h _ _ _ _ he
    | fail => rw [he] at hh; simp only [R0.ok.injEq] at hh; rw [← hh.1]
    | oof => rw [he] at hh; simp at hh
    | stuck => rw [he] at hh; simp at hh
  | andP e =>
    simp only [step] at hh
    cases he : rec e s with
    | ok s1 ps1 => rw [he] at hh; simp only [R0.ok.injEq] at hh; rw [← hh.1]
    | fail => rw [he] at hh; simp at hh
    | oof => rw [he] at hh; simp at hh
    | stuck => rw [he] at hh; simp at hh
  | notP e =>
    simp only [step] at hh
    cases he : rec e s with
    | ok s1 ps1 => rw [he] at hh; simp at hh
    | fail => rw [he] at hh; simp only [R0.ok.injEq] at hh; rw [← hh.1]
    | oof => rw [he] at hh; simp at hh
    | stuck => rw [he] at hh; simp at hh
  | group e tag => exact h _ _ _ _ hh
  | push e =>
    simp only [step] at hh
    cases he : rec e s with
    | ok s1 ps1 =>
      rw [he] at hh; simp only [R0.ok.injEq] at hh; rw [← hh.1]
      show s1.atomic = s.atomic
      exact h _ _ _ _ he
    | fail => rw [he] at hh; simp at hh
    | oof => rw [he] at hh; simp at hh
    | stuck => rw [he] at hh; simp at hh
  | str x => simp only [step] at hh; split at hh <;> simp [adv] at hh; rw [← hh.1]
  | ci x => simp only [step] at hh; split at hh <;> simp [adv] at hh; rw [← hh.1]
  | range a b =>
    simp only [step] at hh
    split at hh
    · split at hh <;> simp [adv] at hh; rw [← hh.1]
    · simp at hh
  | pushLit x => simp only [step, R0.ok.injEq] at hh; rw [← hh.1]
  | peek =>
    simp only [step] at hh
    split at hh
    · simp at hh
    · split at hh <;> simp [adv] at hh; rw [← hh.1]
  | pop =>
    simp only [step] at hh
    split at hh
    · simp at hh
    · split at hh <;> simp [adv] at hh; rw [← hh.1]
  | drop =>
    simp only [step] at hh
    split at hh
    · simp at hh
    · simp at hh; rw [← hh.1]
  | peekAll => simp only [step] at hh; split at hh <;> simp at hh; rw [← hh.1]
  | popAll => simp only [step] at hh; split at hh <;> simp at hh; rw [← hh.1]
  | peekSlice a b => simp only [step] at hh; split at hh <;> simp at hh; rw [← hh.1]
  | anyB => simp only [step] at hh; split at hh <;> simp [adv] at hh; rw [← hh.1]
  | soiB => simp only [step] at hh; split at hh <;> simp at hh; rw [← hh.1]
  | eoiB => simp only [step] at hh; split at hh <;> simp at hh; rw [← hh.1]
  | uprop n =>
    simp only [step] at hh
    split at hh
    · split at hh <;> simp [adv] at hh; rw [← hh.1]
    · simp at hh
  | skipUntil subs => simp only [step, R0.ok.injEq] at hh; rw [← hh.1]
  | optChoice alts star => simp only [step] at hh; split at hh <;> simp at hh; rw [← hh.1]

/-- **`atomic_preserved`** -/
theorem run_AP : ∀ n, AP (run g inp n) := by
  intro n
  induction n with
  | zero => intro e s s' ps h; simp [run] at h
  | succ n ih => exact step_AP g inp ih n

theorem atomic_preserved {n : Nat} {e : Expr} {s s' : S0} {ps : List Pair}
    (h : run g inp n e s = .ok s' ps) : s'.atomic = s.atomic := run_AP g inp n e s s' ps h

/-! ### positions stay inside the input -/

/-- a successful evaluation from a position inside the input ends inside the input -/
def PB (rec : Sem0) : Prop := ∀ e s s' ps, s.pos ≤ inp.size → rec e s = .ok s' ps → s'.pos ≤ inp.size

theorem ruleWrap_pos (name : String) (mod : Nat) (s s' s'' : S0) (ps ps' : List Pair)
    (h : ruleWrap name mod s s' ps = .ok s'' ps') : s''.pos = s'.pos := by
  unfold ruleWrap at h
  by_cases hm : hasBit mod SILENT = true
  · simp only [hm, ↓reduceIte, R0.ok.injEq] at h
    rw [← h.1]
  · simp only [hm, Bool.false_eq_true, ↓reduceIte, R0.ok.injEq] at h
    rw [← h.1]

theorem ruleApply_pos {rec : Sem0} (hpb : PB inp rec) (name : String) (mod : Nat) (body : Expr) (s s' : S0)
    (ps : List Pair) (hp : s.pos ≤ inp.size) (h : ruleApply rec name mod body s = .ok s' ps) :
    s'.pos ≤ inp.size := by
  unfold ruleApply at h
  cases hb : rec body { s with atomic := ruleAtomic name mod s.atomic } with
  | ok s1 ps1 =>
    rw [hb] at h
    rw [ruleWrap_pos _ _ _ _ _ _ _ h]
    exact hpb _ { s with atomic := ruleAtomic name mod s.atomic } _ _ hp hb
  | fail => rw [hb] at h; simp at h
  | oof => rw [hb] at h; simp at h
  | stuck => rw [hb] at h; simp at h

theorem trySkip_pos {rec : Sem0} (hpb : PB inp rec) (r : Option Rule) (s s' : S0) (ps : List Pair)
    (hp : s.pos ≤ inp.size) (h : trySkip rec r s = .matched s' ps) : s'.pos ≤ inp.size := by
  unfold trySkip at h
  cases r with
  | none => simp at h
  | some r =>
    simp only [] at h
    cases ha : ruleApply rec r.name r.mod r.body s with
    | ok s1 ps1 =>
      rw [ha] at h
      simp only [Try0.matched.injEq] at h
      rw [← h.1]; exact ruleApply_pos inp hpb _ _ _ _ _ _ hp ha
    | fail => rw [ha] at h; simp at h
    | oof => rw [ha] at h; simp at h
    | stuck => rw [ha] at h; simp at h

theorem trySkip_ne_stop_ok (rec : Sem0) (r : Option Rule) (s s' : S0) (ps : List Pair) :
    trySkip rec r s ≠ .stop (.ok s' ps) := by
  unfold trySkip
  cases r with
  | none => simp
  | some w => simp only []; cases ruleApply rec w.name w.mod w.body s <;> simp

theorem skipLoop_pos {rec : Sem0} (hpb : PB inp rec) (ws cm : Option Rule) :
    ∀ (k : Nat) (s : S0) (acc : List Pair) (s' : S0) (ps : List Pair), s.pos ≤ inp.size →
      skipLoop rec ws cm k s acc = .ok s' ps → s'.pos ≤ inp.size := by
  intro k
  induction k with
  | zero => intro s acc s' ps _ h; simp [skipLoop] at h
  | succ k ih =>
    intro s acc s' ps hp h
    simp only [skipLoop] at h
    cases h1 : trySkip rec ws s with
    | matched s1 ps1 =>
      rw [h1] at h
      exact ih _ _ _ _ (trySkip_pos inp hpb _ _ _ _ hp h1) h
    | stop r =>
      rw [h1] at h; simp only [] at h; subst h
      exact absurd h1 (trySkip_ne_stop_ok _ _ _ _ _)
    | no =>
      rw [h1] at h
      simp only [] at h
      cases h2 : trySkip rec cm s with
      | matched s1 ps1 =>
        rw [h2] at h
        exact ih _ _ _ _ (trySkip_pos inp hpb _ _ _ _ hp h2) h
      | stop r =>
        rw [h2] at h; simp only [] at h; subst h
        exact absurd h2 (trySkip_ne_stop_ok _ _ _ _ _)
      | no => rw [h2] at h; simp only [R0.ok.injEq] at h; rw [← h.1]; exact hp

theorem skip_pos {rec : Sem0} (hpb : PB inp rec) (k : Nat) (s s' : S0) (ps : List Pair)
    (hp : s.pos ≤ inp.size) (h : skip g rec k s = .ok s' ps) : s'.pos ≤ inp.size := by
  unfold skip at h
  by_cases ha : s.atomic = true
  · simp only [ha, ↓reduceIte, R0.ok.injEq] at h; rw [← h.1]; exact hp
  · simp only [ha, Bool.false_eq_true, ↓reduceIte] at h
    cases hf : g.fusedSkip with
    | some r => rw [hf] at h; exact ruleApply_pos inp hpb _ _ _ _ _ _ hp h
    | none =>
      rw [hf] at h
      simp only [] at h
      by_cases hn : ((g.lookup "WHITESPACE").isNone && (g.lookup "COMMENT").isNone) = true
      · simp only [hn, ↓reduceIte, R0.ok.injEq] at h; rw [← h.1]; exact hp
      · simp only [hn, Bool.false_eq_true, ↓reduceIte] at h
        exact skipLoop_pos inp hpb _ _ _ _ _ _ _ hp h

theorem seqL_pos {rec : Sem0} (hpb : PB inp rec) (k : Nat) :
    ∀ (es : List Expr) (s : S0) (acc : List Pair) (s' : S0) (ps : List Pair), s.pos ≤ inp.size →
      seqL g rec k es s acc = .ok s' ps → s'.pos ≤ inp.size := by
  intro es
  induction es with
  | nil => intro s acc s' ps hp hh; simp only [seqL, R0.ok.injEq] at hh; rw [← hh.1]; exact hp
  | cons e rest ih =>
    intro s acc s' ps hp hh
    simp only [seqL] at hh
    cases he : rec e s with
    | oof => rw [he] at hh; simp at hh
    | fail => rw [he] at hh; simp at hh
    | stuck => rw [he] at hh; simp at hh
    | ok s1 ps1 =>
      have a1 := hpb _ _ _ _ hp he
      rw [he] at hh
      simp only [] at hh
      by_cases hr : rest.isEmpty = true
      · simp only [hr, ↓reduceIte, R0.ok.injEq] at hh; rw [← hh.1]; exact a1
      · simp only [hr, Bool.false_eq_true, ↓reduceIte] at hh
        cases hsk : skip g rec k s1 with
        | oof => rw [hsk] at hh; simp at hh
        | stuck => rw [hsk] at hh; simp at hh
        | fail => rw [hsk] at hh; simp only [] at hh; exact ih _ _ _ _ a1 hh
        | ok s2 tps =>
          rw [hsk] at hh; simp only [] at hh
          exact ih _ _ _ _ (skip_pos g inp hpb _ _ _ _ a1 hsk) hh

theorem choiceL_pos {rec : Sem0} (hpb : PB inp rec) :
    ∀ (es : List Expr) (s : S0) (s' : S0) (ps : List Pair), s.pos ≤ inp.size →
      choiceL rec es s = .ok s' ps → s'.pos ≤ inp.size := by
  intro es
  induction es with
  | nil => intro s s' ps _ hh; simp [choiceL] at hh
  | cons e rest ih =>
    intro s s' ps hp hh
    simp only [choiceL] at hh
    cases he : rec e s with
    | oof => rw [he] at hh; simp at hh
    | fail => rw [he] at hh; exact ih _ _ _ hp hh
    | stuck => rw [he] at hh; simp at hh
    | ok s1 ps1 => rw [he] at hh; simp only [R0.ok.injEq] at hh; rw [← hh.1]; exact hpb _ _ _ _ hp he

theorem repLoop_pos {rec : Sem0} (hpb : PB inp rec) (e : Expr) (kk : Nat) :
    ∀ (k : Nat) (first : Bool) (s : S0) (acc : List Pair) (s' : S0) (ps : List Pair), s.pos ≤ inp.size →
      repLoop g rec e k kk first s acc = .ok s' ps → s'.pos ≤ inp.size := by
  intro k
  induction k with
  | zero => intro first s acc s' ps _ hh; simp [repLoop] at hh
  | succ k ih =>
    intro first s acc s' ps hp hh
    simp only [repLoop] at hh
    cases ha : (if first = true then R0.ok s [] else skip g rec kk s) with
    | oof => rw [ha] at hh; simp at hh
    | stuck => rw [ha] at hh; simp at hh
    | fail => rw [ha] at hh; simp only [R0.ok.injEq] at hh; rw [← hh.1]; exact hp
    | ok s1 tps =>
      have a1 : s1.pos ≤ inp.size := by
        by_cases hf : first = true
        · simp only [hf, ↓reduceIte, R0.ok.injEq] at ha; rw [← ha.1]; exact hp
        · simp only [hf, Bool.false_eq_true, ↓reduceIte] at ha
          exact skip_pos g inp hpb _ _ _ _ hp ha
      rw [ha] at hh
      simp only [] at hh
      cases he : rec e s1 with
      | oof => rw [he] at hh; simp at hh
      | stuck => rw [he] at hh; simp at hh
      | fail => rw [he] at hh; simp only [R0.ok.injEq] at hh; rw [← hh.1]; exact hp
      | ok s2 ps2 =>
        rw [he] at hh
        exact ih _ _ _ _ _ (hpb _ _ _ _ a1 he) hh

theorem step_PB {rec : Sem0} (h : PB inp rec) (k : Nat) : PB inp (step g inp k rec) := by
  intro e s s' ps hp hh
  cases e with
  | ident name tag =>
    simp only [step, callRule] at hh
    cases hl : g.lookup name with
    | none => rw [hl] at hh; simp at hh
    | some r => rw [hl] at hh; exact ruleApply_pos inp h _ _ _ _ _ _ hp hh
  | rule name mod sm body => exact ruleApply_pos inp h _ _ _ _ _ _ hp hh
  | seq es => exact seqL_pos g inp h k _ _ _ _ _ hp hh
  | choice es => exact choiceL_pos inp h _ _ _ _ hp hh
  | rep e => exact repLoop_pos g inp h e k k true s [] s' ps hp hh
  | rep1 e => exact seqL_pos g inp h k _ _ _ _ _ hp hh
  | repExact e n => exact seqL_pos g inp h k _ _ _ _ _ hp hh
  | repMin e n => exact seqL_pos g inp h k _ _ _ _ _ hp hh
  | repMax e n => exact seqL_pos g inp h k _ _ _ _ _ hp hh
  | repMinMax e m n => exact seqL_pos g inp h k _ _ _ _ _ hp hh
  | opt e =>
    simp only [step] at hh
    cases he : rec e s with
    | ok s1 ps1 => rw [he] at hh; simp only [R0.ok.injEq] at hh; rw [← hh.1]; exact h _ _ _ _ hp he
    | fail => rw [he] at hh; simp only [R0.ok.injEq] at hh; rw [← hh.1]; exact hp
    | oof => rw [he] at hh; simp at hh
    | stuck => rw [he] at hh; simp at hh
  | andP e =>
    simp only [step] at hh
    cases he : rec e s with
    | ok s1 ps1 => rw [he] at hh; simp only [R0.ok.injEq] at hh; rw [← hh.1]; exact hp
    | fail => rw [he] at hh; simp at hh
    | oof => rw [he] at hh; simp at hh
    | stuck => rw [he] at hh; simp at hh
  | notP e =>
    simp only [step] at hh
    cases he : rec e s with
    | ok s1 ps1 => rw [he] at hh; simp at hh
    | fail => rw [he] at hh; simp only [R0.ok.injEq] at hh; rw [← hh.1]; exact hp
    | oof => rw [he] at hh; simp at hh
    | stuck => rw [he] at hh; simp at hh
  | group e tag => exact h _ _ _ _ hp hh
  | push e =>
    simp only [step] at hh
    cases he : rec e s with
    | ok s1 ps1 =>
      rw [he] at hh; simp only [R0.ok.injEq] at hh; rw [← hh.1]
      show s1.pos ≤ inp.size
      exact h _ _ _ _ hp he
    | fail => rw [he] at hh; simp at hh
    | oof => rw [he] at hh; simp at hh
    | stuck => rw [he] at hh; simp at hh
  | str x =>
    simp only [step] at hh
    split at hh
    · rename_i hm
      simp only [adv, R0.ok.injEq] at hh; rw [← hh.1]; exact OptS.swa_size inp x s.pos hm
    · simp at hh
  | ci x =>
    simp only [step] at hh
    split at hh
    · rename_i hm
      simp only [adv, R0.ok.injEq] at hh; rw [← hh.1]; exact OptS.swaCI_size inp x s.pos hm
    · simp at hh
  | range a b =>
    simp only [step] at hh
    split at hh
    · rename_i c hc
      have := OptS.getElem?_lt inp hc
      split at hh
      · simp only [adv, R0.ok.injEq] at hh; rw [← hh.1]; show s.pos + 1 ≤ inp.size; omega
      · simp at hh
    · simp at hh
  | pushLit x => simp only [step, R0.ok.injEq] at hh; rw [← hh.1]; exact hp
  | peek =>
    simp only [step] at hh
    split at hh
    · simp at hh
    · rename_i t _ _
      split at hh
      · rename_i hm
        simp only [adv, R0.ok.injEq] at hh; rw [← hh.1]; exact OptS.swa_size inp t s.pos hm
      · simp at hh
  | pop =>
    simp only [step] at hh
    split at hh
    · simp at hh
    · rename_i t _ _
      split at hh
      · rename_i hm
        simp only [adv, R0.ok.injEq] at hh; rw [← hh.1]; exact OptS.swa_size inp t s.pos hm
      · simp at hh
  | drop =>
    simp only [step] at hh
    split at hh
    · simp at hh
    · simp only [R0.ok.injEq] at hh; rw [← hh.1]; exact hp
  | peekAll =>
    simp only [step, matchLits] at hh
    split at hh
    · rename_i p hm
      simp only [R0.ok.injEq] at hh; rw [← hh.1]; exact (OptS.matchAll_le inp _ _ _ hm).2 hp
    · simp at hh
  | popAll =>
    simp only [step, matchLits] at hh
    split at hh
    · rename_i p hm
      simp only [R0.ok.injEq] at hh; rw [← hh.1]; exact (OptS.matchAll_le inp _ _ _ hm).2 hp
    · simp at hh
  | peekSlice a b =>
    simp only [step, matchLits] at hh
    split at hh
    · rename_i p hm
      simp only [R0.ok.injEq] at hh; rw [← hh.1]; exact (OptS.matchAll_le inp _ _ _ hm).2 hp
    · simp at hh
  | anyB =>
    simp only [step] at hh
    split at hh
    · simp only [adv, R0.ok.injEq] at hh; rw [← hh.1]; show s.pos + 1 ≤ inp.size; omega
    · simp at hh
  | soiB => simp only [step] at hh; split at hh <;> simp at hh; rw [← hh.1]; exact hp
  | eoiB => simp only [step] at hh; split at hh <;> simp at hh; rw [← hh.1]; exact hp
  | uprop n =>
    simp only [step] at hh
    split at hh
    · rename_i c hc
      have := OptS.getElem?_lt inp hc
      split at hh
      · simp only [adv, R0.ok.injEq] at hh; rw [← hh.1]; show s.pos + 1 ≤ inp.size; omega
      · simp at hh
    · simp at hh
  | skipUntil subs =>
    simp only [step, R0.ok.injEq] at hh; rw [← hh.1]
    exact (OptS.skipUntilPos_le inp subs s.pos hp).2
  | optChoice alts star =>
    simp only [step] at hh
    split at hh
    · rename_i p hm
      simp only [R0.ok.injEq] at hh; rw [← hh.1]; exact (OptS.optMatch_le inp g _ _ _ _ hm).2 hp
    · simp at hh

theorem run_PB : ∀ n, PB inp (run g inp n) := by
  intro n
  induction n with
  | zero => intro e s s' ps _ h; simp [run] at h
  | succ n ih => exact step_PB g inp ih n

/-! ### "eventually" -/

def Evt (P : Nat → Prop) : Prop := ∃ N, ∀ n, N ≤ n → P n

theorem Evt.mono {P Q : Nat → Prop} (h : Evt P) (f : ∀ n, P n → Q n) : Evt Q := by
  obtain ⟨N, hN⟩ := h
  exact ⟨N, fun n hn => f n (hN n hn)⟩

theorem Evt.and {P Q : Nat → Prop} (h1 : Evt P) (h2 : Evt Q) : Evt (fun n => P n ∧ Q n) := by
  obtain ⟨N1, h1⟩ := h1
  obtain ⟨N2, h2⟩ := h2
  exact ⟨N1 + N2, fun n hn => ⟨h1 n (by omega), h2 n (by omega)⟩⟩

theorem Evt.const {p : Prop} (h : p) : Evt (fun _ => p) := ⟨0, fun _ _ => h⟩

theorem Evt.shift {P : Nat → Prop} (h : Evt (fun n => P (n + 1))) : Evt P := by
  obtain ⟨N, hN⟩ := h
  refine ⟨N + 1, fun n hn => ?_⟩
  obtain ⟨m, rfl⟩ : ∃ m, n = m + 1 := ⟨n - 1, by omega⟩
  exact hN m (by omega)

/-- two budgets (fuel of `rec`, budget of a loop) -/
def Evt2 (P : Nat → Nat → Prop) : Prop := ∃ N, ∀ n k, N ≤ n → N ≤ k → P n k

theorem Evt2.diag {P : Nat → Nat → Prop} (h : Evt2 P) : Evt (fun n => P n n) := by
  obtain ⟨N, hN⟩ := h
  exact ⟨N, fun n hn => hN n n hn hn⟩

variable (g' : Grammar)

/-- with enough fuel the target grammar answers `r` -/
def Tgt (e' : Expr) (s : S0) (r : R0) : Prop := Evt (fun n => run g' inp n e' s = r)

theorem Tgt.of_run {e' : Expr} {s : S0} {r : R0} {n : Nat} (h : run g' inp n e' s = r) (hr : r ≠ .oof) :
    Tgt inp g' e' s r :=
  ⟨n, fun _ hm => Conv.mono g' inp h hr hm⟩

theorem Tgt.of_conv {e' : Expr} {s : S0} {r : R0} (h : Conv g' inp e' s r) : Tgt inp g' e' s r := by
  obtain ⟨n, hn, hr⟩ := h
  exact Tgt.of_run inp g' hn hr

theorem Tgt.conv {e' : Expr} {s : S0} {r : R0} (h : Tgt inp g' e' s r) (hr : r ≠ .oof) :
    Conv g' inp e' s r := by
  obtain ⟨N, hN⟩ := h
  exact ⟨N, hN N (Nat.le_refl _), hr⟩

theorem Tgt.of_step {e' : Expr} {s : S0} {r : R0}
    (h : Evt (fun n => step g' inp n (run g' inp n) e' s = r)) : Tgt inp g' e' s r :=
  Evt.shift h

/-- `e` under the source semantics `rec` is simulated by `e'` in the target grammar, from
    states whose atomicity flag is `a` -/
def SimAt (rec : Sem0) (a : Bool) (e e' : Expr) : Prop :=
  ∀ s, s.atomic = a → s.pos ≤ inp.size → rec e s ≠ .oof → Tgt inp g' e' s (rec e s)

/-! ### cross-grammar congruence of the helpers -/

theorem ruleApply_simO {rec : Sem0} (name : String) (mod : Nat) (body body' : Expr) (s : S0)
    (hb : SimAt inp g' rec (ruleAtomic name mod s.atomic) body body') (hp : s.pos ≤ inp.size)
    (hne : ruleApply rec name mod body s ≠ .oof) :
    Evt (fun n => ruleApply (run g' inp n) name mod body' s = ruleApply rec name mod body s) := by
  unfold ruleApply at hne ⊢
  have h1 : rec body { s with atomic := ruleAtomic name mod s.atomic } ≠ .oof := by
    intro e; rw [e] at hne; exact hne rfl
  refine (hb { s with atomic := ruleAtomic name mod s.atomic } rfl hp h1).mono ?_
  intro n hn
  rw [hn]

/-- two rule-table entries: same name and modifier, and the first body is simulated by the
    second whatever the caller's atomicity -/
def RuleSim (rec : Sem0) (r r' : Option Rule) : Prop :=
  match r, r' with
  | none, none => True
  | some x, some x' => x'.name = x.name ∧ x'.mod = x.mod ∧
      ∀ b, SimAt inp g' rec (ruleAtomic x.name x.mod b) x.body x'.body
  | _, _ => False

theorem RuleSim.isNone {rec : Sem0} {r r' : Option Rule} (h : RuleSim inp g' rec r r') :
    r'.isNone = r.isNone := by
  cases r <;> cases r' <;> simp_all [RuleSim]

theorem trySkip_simO {rec : Sem0} (r r' : Option Rule) (s : S0) (hr : RuleSim inp g' rec r r')
    (hp : s.pos ≤ inp.size) (hne : trySkip rec r s ≠ .stop .oof) :
    Evt (fun n => trySkip (run g' inp n) r' s = trySkip rec r s) := by
  cases r with
  | none =>
    cases r' with
    | none => exact Evt.const rfl
    | some x' => exact absurd hr id
  | some x =>
    cases r' with
    | none => exact absurd hr id
    | some x' =>
      obtain ⟨h1, h2, h3⟩ := hr
      unfold trySkip at hne ⊢
      simp only [] at hne ⊢
      have : ruleApply rec x.name x.mod x.body s ≠ .oof := by
        intro e; rw [e] at hne; exact hne rfl
      refine (ruleApply_simO inp g' x.name x.mod x.body x'.body s (h3 _) hp this).mono ?_
      intro n hn
      rw [h1, h2, hn]

theorem skipLoop_simO {rec : Sem0} (hpb : PB inp rec) (ws ws' cm cm' : Option Rule)
    (hw : RuleSim inp g' rec ws ws') (hc : RuleSim inp g' rec cm cm') :
    ∀ (k : Nat) (s : S0) (acc : List Pair), s.pos ≤ inp.size → skipLoop rec ws cm k s acc ≠ .oof →
      Evt2 (fun n k' => skipLoop (run g' inp n) ws' cm' k' s acc = skipLoop rec ws cm k s acc) := by
  intro k
  induction k with
  | zero => intro s acc _ hne; exact absurd rfl hne
  | succ k ih =>
    intro s acc hp hne
    simp only [skipLoop] at hne
    have h1 : trySkip rec ws s ≠ .stop .oof := by
      intro e; rw [e] at hne; exact hne rfl
    obtain ⟨N1, e1⟩ := trySkip_simO inp g' ws ws' s hw hp h1
    cases ht : trySkip rec ws s with
    | matched s1 ps =>
      rw [ht] at hne e1
      obtain ⟨N2, e2⟩ := ih s1 _ (trySkip_pos inp hpb _ _ _ _ hp ht) hne
      refine ⟨N1 + N2 + 1, fun n k' hn hk => ?_⟩
      obtain ⟨k'', rfl⟩ : ∃ m, k' = m + 1 := ⟨k' - 1, by omega⟩
      simp only [skipLoop, ht, e1 n (by omega)]
      exact e2 n k'' (by omega) (by omega)
    | stop x =>
      rw [ht] at e1
      refine ⟨N1 + 1, fun n k' hn hk => ?_⟩
      obtain ⟨k'', rfl⟩ : ∃ m, k' = m + 1 := ⟨k' - 1, by omega⟩
      simp only [skipLoop, ht, e1 n (by omega)]
    | no =>
      rw [ht] at hne e1
      simp only [] at hne
      have h2 : trySkip rec cm s ≠ .stop .oof := by
        intro e; rw [e] at hne; exact hne rfl
      obtain ⟨M1, f1⟩ := trySkip_simO inp g' cm cm' s hc hp h2
      cases ht2 : trySkip rec cm s with
      | matched s1 ps =>
        rw [ht2] at hne f1
        obtain ⟨N2, e2⟩ := ih s1 _ (trySkip_pos inp hpb _ _ _ _ hp ht2) hne
        refine ⟨N1 + M1 + N2 + 1, fun n k' hn hk => ?_⟩
        obtain ⟨k'', rfl⟩ : ∃ m, k' = m + 1 := ⟨k' - 1, by omega⟩
        simp only [skipLoop, ht, ht2, e1 n (by omega), f1 n (by omega)]
        exact e2 n k'' (by omega) (by omega)
      | stop x =>
        rw [ht2] at f1
        refine ⟨N1 + M1 + 1, fun n k' hn hk => ?_⟩
        obtain ⟨k'', rfl⟩ : ∃ m, k' = m + 1 := ⟨k' - 1, by omega⟩
        simp only [skipLoop, ht, ht2, e1 n (by omega), f1 n (by omega)]
      | no =>
        rw [ht2] at f1
        refine ⟨N1 + M1 + 1, fun n k' hn hk => ?_⟩
        obtain ⟨k'', rfl⟩ : ∃ m, k' = m + 1 := ⟨k' - 1, by omega⟩
        simp only [skipLoop, ht, ht2, e1 n (by omega), f1 n (by omega)]

/-- implicit trivia of the source (`rec`, budget `k`) is simulated by the target's -/
def SkipSim (rec : Sem0) (k : Nat) : Prop :=
  ∀ s, s.pos ≤ inp.size → skip g rec k s ≠ .oof → Evt (fun n => skip g' (run g' inp n) n s = skip g rec k s)

theorem skip_simO {rec : Sem0} (hpb : PB inp rec) (k : Nat)
    (hf : RuleSim inp g' rec g.fusedSkip g'.fusedSkip)
    (hw : RuleSim inp g' rec (g.lookup "WHITESPACE") (g'.lookup "WHITESPACE"))
    (hc : RuleSim inp g' rec (g.lookup "COMMENT") (g'.lookup "COMMENT")) :
    SkipSim g inp g' rec k := by
  intro s hp hne
  unfold skip at hne ⊢
  by_cases ha : s.atomic = true
  · simp only [ha, ↓reduceIte]; exact Evt.const trivial
  · simp only [ha, Bool.false_eq_true, ↓reduceIte] at hne ⊢
    cases hfs : g.fusedSkip with
    | some x =>
      cases hfs' : g'.fusedSkip with
      | none => rw [hfs, hfs'] at hf; exact absurd hf id
      | some x' =>
        rw [hfs, hfs'] at hf
        obtain ⟨h1, h2, h3⟩ := hf
        rw [hfs] at hne
        simp only [] at hne ⊢
        refine (ruleApply_simO inp g' x.name x.mod x.body x'.body s (h3 _) hp hne).mono ?_
        intro n hn
        rw [h1, h2, hn]
    | none =>
      cases hfs' : g'.fusedSkip with
      | some x' => rw [hfs, hfs'] at hf; exact absurd hf id
      | none =>
        rw [hfs] at hne
        simp only [] at hne ⊢
        rw [hw.isNone, hc.isNone]
        by_cases hn : ((g.lookup "WHITESPACE").isNone && (g.lookup "COMMENT").isNone) = true
        · simp only [hn, ↓reduceIte]; exact Evt.const trivial
        · simp only [hn, Bool.false_eq_true, ↓reduceIte] at hne ⊢
          exact (skipLoop_simO inp g' hpb _ _ _ _ hw hc k s [] hp hne).diag

/-- pointwise relation of two lists (core has no `List.Forall₂`) -/
inductive All2 {α β : Type} (R : α → β → Prop) : List α → List β → Prop
  | nil : All2 R [] []
  | cons {a b l l'} : R a b → All2 R l l' → All2 R (a :: l) (b :: l')

theorem All2.isEmpty {α β} {R : α → β → Prop} {l : List α} {l' : List β}
    (h : All2 R l l') : l'.isEmpty = l.isEmpty := by
  cases h <;> rfl

theorem All2.length {α β} {R : α → β → Prop} {l : List α} {l' : List β}
    (h : All2 R l l') : l'.length = l.length := by
  induction h with
  | nil => rfl
  | cons _ _ ih => simp [ih]

theorem All2.of_index {α β} {R : α → β → Prop} : ∀ (l : List α) (l' : List β) (_ : l.length = l'.length)
    (_ : ∀ i (h1 : i < l.length) (h2 : i < l'.length), R l[i] l'[i]), All2 R l l'
  | [], [], _, _ => .nil
  | [], _ :: _, hl, _ => by simp at hl
  | _ :: _, [], hl, _ => by simp at hl
  | a :: l, b :: l', hl, h =>
    .cons (h 0 (by simp) (by simp))
      (All2.of_index l l' (by simpa using hl) fun i h1 h2 => by
        have := h (i + 1) (by simp; omega) (by simp; omega)
        simpa using this)

theorem All2.index {α β} {R : α → β → Prop} {l : List α} {l' : List β} (h : All2 R l l') :
    ∀ i (h1 : i < l.length) (h2 : i < l'.length), R l[i] l'[i] := by
  induction h with
  | nil => intro i h1; simp at h1
  | cons hab _ ih =>
    intro i h1 h2
    cases i with
    | zero => simpa using hab
    | succ i => simpa using ih i (by simpa using h1) (by simpa using h2)

theorem All2.imp {α β} {R S : α → β → Prop} {l : List α} {l' : List β} (h : All2 R l l')
    (f : ∀ a b, R a b → S a b) : All2 S l l' := by
  induction h with
  | nil => exact .nil
  | cons hab _ ih => exact .cons (f _ _ hab) ih

theorem All2.replicate {α β} {R : α → β → Prop} {a : α} {b : β} (h : R a b) (n : Nat) :
    All2 R (List.replicate n a) (List.replicate n b) := by
  induction n with
  | zero => exact .nil
  | succ n ih => exact .cons h ih

theorem All2.append {α β} {R : α → β → Prop} {l1 l2 : List α} {l1' l2' : List β}
    (h1 : All2 R l1 l1') (h2 : All2 R l2 l2') : All2 R (l1 ++ l2) (l1' ++ l2') := by
  induction h1 with
  | nil => exact h2
  | cons hab _ ih => exact .cons hab ih

theorem seqL_simO {rec : Sem0} (hap : AP rec) (hpb : PB inp rec) (k : Nat) (hsk : SkipSim g inp g' rec k)
    (a : Bool) :
    ∀ (es es' : List Expr), All2 (SimAt inp g' rec a) es es' →
      ∀ (s : S0) (acc : List Pair), s.atomic = a → s.pos ≤ inp.size → seqL g rec k es s acc ≠ .oof →
        Evt (fun n => seqL g' (run g' inp n) n es' s acc = seqL g rec k es s acc) := by
  intro es es' hes
  induction hes with
  | nil => intro s acc _ _ _; exact Evt.const rfl
  | @cons e e' rest rest' he hrest ih =>
    intro s acc ha hp hne
    simp only [seqL] at hne ⊢
    have h1 : rec e s ≠ .oof := by intro x; rw [x] at hne; exact hne rfl
    have t1 := he s ha hp h1
    rw [hrest.isEmpty]
    cases hr : rec e s with
    | oof => exact absurd hr h1
    | fail => rw [hr] at t1; exact t1.mono fun n hn => by rw [hn]
    | stuck => rw [hr] at t1; exact t1.mono fun n hn => by rw [hn]
    | ok s1 ps =>
      rw [hr] at t1 hne
      simp only [] at hne
      have a1 : s1.atomic = a := by rw [hap _ _ _ _ hr, ha]
      have p1 : s1.pos ≤ inp.size := hpb _ _ _ _ hp hr
      by_cases hre : rest.isEmpty = true
      · simp only [hre, ↓reduceIte]
        exact t1.mono fun n hn => by rw [hn]
      · simp only [hre, Bool.false_eq_true, ↓reduceIte] at hne ⊢
        have h2 : skip g rec k s1 ≠ .oof := by intro x; rw [x] at hne; exact hne rfl
        have t2 := hsk s1 p1 h2
        cases hs : skip g rec k s1 with
        | oof => exact absurd hs h2
        | stuck =>
          rw [hs] at t2
          exact (t1.and t2).mono fun n hn => by rw [hn.1]; simp only [hn.2]
        | fail =>
          rw [hs] at t2 hne
          simp only [] at hne
          have t3 := ih s1 _ a1 p1 hne
          exact ((t1.and t2).and t3).mono fun n hn => by rw [hn.1.1]; simp only [hn.1.2]; exact hn.2
        | ok s2 tps =>
          rw [hs] at t2 hne
          simp only [] at hne
          have a2 : s2.atomic = a := by rw [skip_atomicO g _ _ _ _ _ hs, a1]
          have t3 := ih s2 _ a2 (skip_pos g inp hpb _ _ _ _ p1 hs) hne
          exact ((t1.and t2).and t3).mono fun n hn => by rw [hn.1.1]; simp only [hn.1.2]; exact hn.2

theorem choiceL_simO {rec : Sem0} (a : Bool) :
    ∀ (es es' : List Expr), All2 (SimAt inp g' rec a) es es' →
      ∀ (s : S0), s.atomic = a → s.pos ≤ inp.size → choiceL rec es s ≠ .oof →
        Evt (fun n => choiceL (run g' inp n) es' s = choiceL rec es s) := by
  intro es es' hes
  induction hes with
  | nil => intro s _ _ _; exact Evt.const rfl
  | @cons e e' rest rest' he hrest ih =>
    intro s ha hp hne
    simp only [choiceL] at hne ⊢
    have h1 : rec e s ≠ .oof := by intro x; rw [x] at hne; exact hne rfl
    have t1 := he s ha hp h1
    cases hr : rec e s with
    | oof => exact absurd hr h1
    | ok s1 ps => rw [hr] at t1; exact t1.mono fun n hn => by rw [hn]
    | stuck => rw [hr] at t1; exact t1.mono fun n hn => by rw [hn]
    | fail =>
      rw [hr] at t1 hne
      simp only [] at hne
      have t2 := ih s ha hp hne
      exact (t1.and t2).mono fun n hn => by rw [hn.1]; exact hn.2

theorem repLoop_simO {rec : Sem0} (hap : AP rec) (hpb : PB inp rec) (kk : Nat) (hsk : SkipSim g inp g' rec kk)
    (a : Bool) (e e' : Expr) (he : SimAt inp g' rec a e e') :
    ∀ (k : Nat) (first : Bool) (s : S0) (acc : List Pair), s.atomic = a → s.pos ≤ inp.size →
      repLoop g rec e k kk first s acc ≠ .oof →
      Evt2 (fun n k' => repLoop g' (run g' inp n) e' k' n first s acc = repLoop g rec e k kk first s acc) := by
  intro k
  induction k with
  | zero => intro first s acc _ _ hne; exact absurd rfl hne
  | succ k ih =>
    intro first s acc ha hp hne
    simp only [repLoop] at hne
    have hsk1 : Evt (fun n => (if first = true then R0.ok s [] else skip g' (run g' inp n) n s)
        = (if first = true then R0.ok s [] else skip g rec kk s)) := by
      by_cases hf : first = true
      · simp only [hf, ↓reduceIte]; exact Evt.const trivial
      · simp only [hf, Bool.false_eq_true, ↓reduceIte] at hne ⊢
        have : skip g rec kk s ≠ .oof := by intro x; rw [x] at hne; exact hne rfl
        exact hsk s hp this
    obtain ⟨N1, e1⟩ := hsk1
    cases hs : (if first = true then R0.ok s [] else skip g rec kk s) with
    | oof => rw [hs] at hne; exact absurd rfl hne
    | fail =>
      rw [hs] at e1
      refine ⟨N1 + 1, fun n k' hn hk => ?_⟩
      obtain ⟨k'', rfl⟩ : ∃ m, k' = m + 1 := ⟨k' - 1, by omega⟩
      simp only [repLoop, hs, e1 n (by omega)]
    | stuck =>
      rw [hs] at e1
      refine ⟨N1 + 1, fun n k' hn hk => ?_⟩
      obtain ⟨k'', rfl⟩ : ∃ m, k' = m + 1 := ⟨k' - 1, by omega⟩
      simp only [repLoop, hs, e1 n (by omega)]
    | ok s1 tps =>
      have a1 : s1.atomic = a := by
        by_cases hf : first = true
        · simp only [hf, ↓reduceIte, R0.ok.injEq] at hs; rw [← hs.1, ha]
        · simp only [hf, Bool.false_eq_true, ↓reduceIte] at hs
          rw [skip_atomicO g _ _ _ _ _ hs, ha]
      have p1 : s1.pos ≤ inp.size := by
        by_cases hf : first = true
        · simp only [hf, ↓reduceIte, R0.ok.injEq] at hs; rw [← hs.1]; exact hp
        · simp only [hf, Bool.false_eq_true, ↓reduceIte] at hs
          exact skip_pos g inp hpb _ _ _ _ hp hs
      rw [hs] at e1 hne
      simp only [] at hne
      have h2 : rec e s1 ≠ .oof := by intro x; rw [x] at hne; exact hne rfl
      obtain ⟨N2, e2⟩ := he s1 a1 p1 h2
      cases hr : rec e s1 with
      | oof => exact absurd hr h2
      | fail =>
        rw [hr] at e2
        refine ⟨N1 + N2 + 1, fun n k' hn hk => ?_⟩
        obtain ⟨k'', rfl⟩ : ∃ m, k' = m + 1 := ⟨k' - 1, by omega⟩
        simp only [repLoop, hs, hr, e1 n (by omega), e2 n (by omega)]
      | stuck =>
        rw [hr] at e2
        refine ⟨N1 + N2 + 1, fun n k' hn hk => ?_⟩
        obtain ⟨k'', rfl⟩ : ∃ m, k' = m + 1 := ⟨k' - 1, by omega⟩
        simp only [repLoop, hs, hr, e1 n (by omega), e2 n (by omega)]
      | ok s2 ps =>
        rw [hr] at e2 hne
        have a2 : s2.atomic = a := by rw [hap _ _ _ _ hr, a1]
        obtain ⟨N3, e3⟩ := ih false s2 _ a2 (hpb _ _ _ _ p1 hr) hne
        refine ⟨N1 + N2 + N3 + 1, fun n k' hn hk => ?_⟩
        obtain ⟨k'', rfl⟩ : ∃ m, k' = m + 1 := ⟨k' - 1, by omega⟩
        simp only [repLoop, hs, hr, e1 n (by omega), e2 n (by omega)]
        exact e3 n k'' (by omega) (by omega)

/-! ### terminals do not look at the rule table -/

def isTerm : Expr → Bool
  | .str _ | .ci _ | .range _ _ | .pushLit _ | .peek | .pop | .drop | .peekAll | .popAll
  | .peekSlice _ _ | .anyB | .soiB | .eoiB | .uprop _ | .skipUntil _ | .optChoice _ _ => true
  | _ => false

theorem uprop_congr (hu : g'.usets = g.usets) : g'.uprop = g.uprop := by
  funext n c
  simp only [Grammar.uprop, hu]

theorem optMatchOnce_congr (hu : g'.usets = g.usets) (alts : List Alt) (pos : Nat) :
    L1.optMatchOnce g' inp alts pos = L1.optMatchOnce g inp alts pos := by
  simp only [L1.optMatchOnce, uprop_congr g g' hu]

theorem optMatchStar_congr (hu : g'.usets = g.usets) (alts : List Alt) :
    ∀ k pos, L1.optMatchStar g' inp alts k pos = L1.optMatchStar g inp alts k pos := by
  intro k
  induction k with
  | zero => intro pos; rfl
  | succ k ih =>
    intro pos
    simp only [L1.optMatchStar, optMatchOnce_congr g inp g' hu, ih]

theorem optMatch_congr (hu : g'.usets = g.usets) (alts : List Alt) (star : Bool) (pos : Nat) :
    L1.optMatch g' inp alts star pos = L1.optMatch g inp alts star pos := by
  simp only [L1.optMatch, optMatchOnce_congr g inp g' hu, optMatchStar_congr g inp g' hu]

theorem term_step (hu : g'.usets = g.usets) (k k' : Nat) (rec rec' : Sem0) (e : Expr) (s : S0)
    (ht : isTerm e = true) : step g' inp k' rec' e s = step g inp k rec e s := by
  cases e <;> simp [isTerm] at ht <;> try rfl
  · simp only [step, uprop_congr g g' hu]
  · simp only [step, optMatch_congr g inp g' hu]

/-! ### one-level congruence -/

/-- the list `step` hands to `seqL`, for the node kinds that are sequences by definition -/
def seqView : Expr → Option (List Expr)
  | .seq es => some es
  | .rep1 e => some [e, .rep e]
  | .repExact e n => some (List.replicate n e)
  | .repMin e n => some (List.replicate n e ++ [.rep e])
  | .repMax e n => some (List.replicate n (.opt e))
  | .repMinMax e m n => some (List.replicate m e ++ List.replicate (n - m) (.opt e))
  | _ => none

theorem step_seqView (k : Nat) (rec : Sem0) {e : Expr} {es : List Expr} (h : seqView e = some es) (s : S0) :
    step g inp k rec e s = seqL g rec k es s [] := by
  cases e <;> simp [seqView] at h <;> subst h <;> rfl

/-- `e` and `e'` have the same root (or are both sequence-like) and `R`-related children; `R` is
    indexed by the atomicity flag of the states in which the children run -/
inductive CongO (R : Bool → Expr → Expr → Prop) : Bool → Expr → Expr → Prop
  | term {a e} : isTerm e = true → CongO R a e e
  | ident {a n t t'} :
      (match g.lookup n, g'.lookup n with
       | none, none => True
       | some x, some x' => x'.name = x.name ∧ x'.mod = x.mod ∧
           R (ruleAtomic x.name x.mod a) x.body x'.body
       | _, _ => False) → CongO R a (.ident n t) (.ident n t')
  | rule {a n m sm sm' b b'} : R (ruleAtomic n m a) b b' → CongO R a (.rule n m sm b) (.rule n m sm' b')
  | seqlike {a e e' es es'} : seqView e = some es → seqView e' = some es' → All2 (R a) es es' → CongO R a e e'
  | choice {a es es'} : All2 (R a) es es' → CongO R a (.choice es) (.choice es')
  | opt {a e e'} : R a e e' → CongO R a (.opt e) (.opt e')
  | rep {a e e'} : R a e e' → CongO R a (.rep e) (.rep e')
  | andP {a e e'} : R a e e' → CongO R a (.andP e) (.andP e')
  | notP {a e e'} : R a e e' → CongO R a (.notP e) (.notP e')
  | group {a e e' t t'} : R a e e' → CongO R a (.group e t) (.group e' t')
  | push {a e e'} : R a e e' → CongO R a (.push e) (.push e')

theorem cong_sim {rec : Sem0} (hap : AP rec) (hpb : PB inp rec) (k : Nat) (hsk : SkipSim g inp g' rec k)
    (hu : g'.usets = g.usets) {a : Bool} {e e' : Expr}
    (h : CongO g g' (SimAt inp g' rec) a e e') (s : S0) (ha : s.atomic = a) (hp : s.pos ≤ inp.size)
    (hne : step g inp k rec e s ≠ .oof) : Tgt inp g' e' s (step g inp k rec e s) := by
  apply Tgt.of_step
  cases h with
  | term ht => exact ⟨0, fun n _ => term_step g inp g' hu _ _ _ _ _ _ ht⟩
  | @ident n t t' hl =>
    simp only [step, callRule] at hne ⊢
    cases h1 : g.lookup n with
    | none =>
      cases h2 : g'.lookup n with
      | none => exact Evt.const rfl
      | some x' => rw [h1, h2] at hl; exact absurd hl id
    | some x =>
      cases h2 : g'.lookup n with
      | none => rw [h1, h2] at hl; exact absurd hl id
      | some x' =>
        rw [h1, h2] at hl
        obtain ⟨e1, e2, e3⟩ := hl
        rw [h1] at hne
        simp only [] at hne ⊢
        rw [← ha] at e3
        refine (ruleApply_simO inp g' x.name x.mod x.body x'.body s e3 hp hne).mono ?_
        intro n hn
        rw [e1, e2, hn]
  | rule hb =>
    rw [← ha] at hb
    exact ruleApply_simO inp g' _ _ _ _ s hb hp hne
  | seqlike h1 h2 hes =>
    rw [step_seqView g inp k rec h1] at hne ⊢
    refine (seqL_simO g inp g' hap hpb k hsk a _ _ hes s [] ha hp hne).mono ?_
    intro n hn
    rw [step_seqView g' inp n _ h2, hn]
  | choice hes => exact choiceL_simO inp g' a _ _ hes s ha hp hne
  | @opt e e' he =>
    simp only [step] at hne ⊢
    have h1 : rec e s ≠ .oof := by intro x; rw [x] at hne; exact hne rfl
    exact (he s ha hp h1).mono fun n hn => by rw [hn]
  | @rep e e' he => exact (repLoop_simO g inp g' hap hpb k hsk a e e' he k true s [] ha hp hne).diag
  | @andP e e' he =>
    simp only [step] at hne ⊢
    have h1 : rec e s ≠ .oof := by intro x; rw [x] at hne; exact hne rfl
    exact (he s ha hp h1).mono fun n hn => by rw [hn]
  | @notP e e' he =>
    simp only [step] at hne ⊢
    have h1 : rec e s ≠ .oof := by intro x; rw [x] at hne; exact hne rfl
    exact (he s ha hp h1).mono fun n hn => by rw [hn]
  | @group e e' t t' he =>
    simp only [step] at hne ⊢
    exact he s ha hp hne
  | @push e e' he =>
    simp only [step] at hne ⊢
    have h1 : rec e s ≠ .oof := by intro x; rw [x] at hne; exact hne rfl
    exact (he s ha hp h1).mono fun n hn => by rw [hn]

end L0
end Pest
