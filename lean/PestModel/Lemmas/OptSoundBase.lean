/-
  Lemmas/OptSoundBase.lean — groundwork for C02 (optimizer soundness), all inside L0.

  * `AP` / `run_AP` (= `atomic_preserved`): a successful evaluation leaves the atomicity flag alone.
  * `Evt`, `Tgt`: "for all large enough fuel the target grammar answers `r`".
  * `SimAt`: one expression of a source semantics is simulated by an expression of the target
    grammar, in states whose atomicity flag is `a`.
  * cross-grammar congruence lemmas for every helper of `L0.step` (`ruleApply_sim`, `skip_sim`,
    `seqL_sim`, `choiceL_sim`, `repLoop_sim`) — the analogue of `Lemmas/Mono.lean` for two
    grammars and two (related) expressions.
-/
import PestModel.Lemmas.Mono
import PestModel.Opt

namespace Pest
namespace L0

variable (g : Grammar) (inp : Input)

/-! ### atomicity is preserved -/

def AP (rec : Sem0) : Prop := ∀ e s s' ps, rec e s = .ok s' ps → s'.atomic = s.atomic

theorem ruleWrap_atomic (name : String) (mod : Nat) (s s' s'' : S0) (ps ps' : List Pair)
    (h : ruleWrap name mod s s' ps = .ok s'' ps') : s''.atomic = s.atomic := by
  unfold ruleWrap at h
  by_cases hm : hasBit mod SILENT = true
  · simp only [hm, ↓reduceIte, R0.ok.injEq] at h
    rw [← h.1]
  · simp only [hm, Bool.false_eq_true, ↓reduceIte, R0.ok.injEq] at h
    rw [← h.1]

theorem ruleApply_atomic (rec : Sem0) (name : String) (mod : Nat) (body : Expr) (s s' : S0)
    (ps : List Pair) (h : ruleApply rec name mod body s = .ok s' ps) : s'.atomic = s.atomic := by
  unfold ruleApply at h
  cases hb : rec body { s with atomic := ruleAtomic name mod s.atomic } with
  | ok s1 ps1 => rw [hb] at h; exact ruleWrap_atomic _ _ _ _ _ _ _ h
  | fail => rw [hb] at h; simp at h
  | oof => rw [hb] at h; simp at h
  | stuck => rw [hb] at h; simp at h

theorem trySkip_atomic (rec : Sem0) (r : Option Rule) (s s' : S0) (ps : List Pair)
    (h : trySkip rec r s = .matched s' ps) : s'.atomic = s.atomic := by
  unfold trySkip at h
  cases r with
  | none => simp at h
  | some r =>
    simp only [] at h
    cases ha : ruleApply rec r.name r.mod r.body s with
    | ok s1 ps1 =>
      rw [ha] at h
      simp only [Try0.matched.injEq] at h
      rw [← h.1]; exact ruleApply_atomic _ _ _ _ _ _ _ ha
    | fail => rw [ha] at h; simp at h
    | oof => rw [ha] at h; simp at h
    | stuck => rw [ha] at h; simp at h

theorem skipLoop_atomic (rec : Sem0) (ws cm : Option Rule) :
    ∀ (k : Nat) (s : S0) (acc : List Pair) (s' : S0) (ps : List Pair),
      skipLoop rec ws cm k s acc = .ok s' ps → s'.atomic = s.atomic := by
  intro k
  induction k with
  | zero => intro s acc s' ps h; simp [skipLoop] at h
  | succ k ih =>
    intro s acc s' ps h
    simp only [skipLoop] at h
    cases h1 : trySkip rec ws s with
    | matched s1 ps1 =>
      rw [h1] at h
      rw [ih _ _ _ _ h, trySkip_atomic _ _ _ _ _ h1]
    | stop r => rw [h1] at h; simp only [] at h; cases r <;> simp at h
                all_goals (exact absurd h1 (by
                  unfold trySkip; cases ws with
                  | none => simp
                  | some w => simp only []; cases ruleApply rec w.name w.mod w.body s <;> simp))
    | no =>
      rw [h1] at h
      simp only [] at h
      cases h2 : trySkip rec cm s with
      | matched s1 ps1 =>
        rw [h2] at h
        rw [ih _ _ _ _ h, trySkip_atomic _ _ _ _ _ h2]
      | stop r => rw [h2] at h; simp only [] at h; cases r <;> simp at h
                  all_goals (exact absurd h2 (by
                    unfold trySkip; cases cm with
                    | none => simp
                    | some w => simp only []; cases ruleApply rec w.name w.mod w.body s <;> simp))
      | no => rw [h2] at h; simp only [R0.ok.injEq] at h; rw [← h.1]

theorem skip_atomic (rec : Sem0) (k : Nat) (s s' : S0) (ps : List Pair)
    (h : skip g rec k s = .ok s' ps) : s'.atomic = s.atomic := by
  unfold skip at h
  by_cases ha : s.atomic = true
  · simp only [ha, ↓reduceIte, R0.ok.injEq] at h; rw [← h.1]
  · simp only [ha, Bool.false_eq_true, ↓reduceIte] at h
    cases hf : g.fusedSkip with
    | some r => rw [hf] at h; exact ruleApply_atomic _ _ _ _ _ _ _ h
    | none =>
      rw [hf] at h
      simp only [] at h
      by_cases hn : ((g.lookup "WHITESPACE").isNone && (g.lookup "COMMENT").isNone) = true
      · simp only [hn, ↓reduceIte, R0.ok.injEq] at h; rw [← h.1]
      · simp only [hn, Bool.false_eq_true, ↓reduceIte] at h
        exact skipLoop_atomic _ _ _ _ _ _ _ _ h

theorem seqL_atomic {rec : Sem0} (h : AP rec) (k : Nat) :
    ∀ (es : List Expr) (s : S0) (acc : List Pair) (s' : S0) (ps : List Pair),
      seqL g rec k es s acc = .ok s' ps → s'.atomic = s.atomic := by
  intro es
  induction es with
  | nil => intro s acc s' ps hh; simp only [seqL, R0.ok.injEq] at hh; rw [← hh.1]
  | cons e rest ih =>
    intro s acc s' ps hh
    simp only [seqL] at hh
    cases he : rec e s with
    | oof => rw [he] at hh; simp at hh
    | fail => rw [he] at hh; simp at hh
    | stuck => rw [he] at hh; simp at hh
    | ok s1 ps1 =>
      have a1 := h _ _ _ _ he
      rw [he] at hh
      simp only [] at hh
      by_cases hr : rest.isEmpty = true
      · simp only [hr, ↓reduceIte, R0.ok.injEq] at hh; rw [← hh.1, a1]
      · simp only [hr, Bool.false_eq_true, ↓reduceIte] at hh
        cases hsk : skip g rec k s1 with
        | oof => rw [hsk] at hh; simp at hh
        | stuck => rw [hsk] at hh; simp at hh
        | fail => rw [hsk] at hh; simp only [] at hh; rw [ih _ _ _ _ hh, a1]
        | ok s2 tps =>
          rw [hsk] at hh; simp only [] at hh
          rw [ih _ _ _ _ hh, skip_atomic g _ _ _ _ _ hsk, a1]

theorem choiceL_atomic {rec : Sem0} (h : AP rec) :
    ∀ (es : List Expr) (s : S0) (s' : S0) (ps : List Pair),
      choiceL rec es s = .ok s' ps → s'.atomic = s.atomic := by
  intro es
  induction es with
  | nil => intro s s' ps hh; simp [choiceL] at hh
  | cons e rest ih =>
    intro s s' ps hh
    simp only [choiceL] at hh
    cases he : rec e s with
    | oof => rw [he] at hh; simp at hh
    | fail => rw [he] at hh; exact ih _ _ _ hh
    | stuck => rw [he] at hh; simp at hh
    | ok s1 ps1 => rw [he] at hh; simp only [R0.ok.injEq] at hh; rw [← hh.1]; exact h _ _ _ _ he

theorem repLoop_atomic {rec : Sem0} (h : AP rec) (e : Expr) (kk : Nat) :
    ∀ (k : Nat) (first : Bool) (s : S0) (acc : List Pair) (s' : S0) (ps : List Pair),
      repLoop g rec e k kk first s acc = .ok s' ps → s'.atomic = s.atomic := by
  intro k
  induction k with
  | zero => intro first s acc s' ps hh; simp [repLoop] at hh
  | succ k ih =>
    intro first s acc s' ps hh
    simp only [repLoop] at hh
    cases ha : (if first = true then R0.ok s [] else skip g rec kk s) with
    | oof => rw [ha] at hh; simp at hh
    | stuck => rw [ha] at hh; simp at hh
    | fail => rw [ha] at hh; simp only [R0.ok.injEq] at hh; rw [← hh.1]
    | ok s1 tps =>
      have a1 : s1.atomic = s.atomic := by
        by_cases hf : first = true
        · simp only [hf, ↓reduceIte, R0.ok.injEq] at ha; rw [← ha.1]
        · simp only [hf, Bool.false_eq_true, ↓reduceIte] at ha
          exact skip_atomic g _ _ _ _ _ ha
      rw [ha] at hh
      simp only [] at hh
      cases he : rec e s1 with
      | oof => rw [he] at hh; simp at hh
      | stuck => rw [he] at hh; simp at hh
      | fail => rw [he] at hh; simp only [R0.ok.injEq] at hh; rw [← hh.1]
      | ok s2 ps2 =>
        rw [he] at hh
        rw [ih _ _ _ _ _ hh, h _ _ _ _ he, a1]

theorem step_AP {rec : Sem0} (h : AP rec) (k : Nat) : AP (step g inp k rec) := by
  intro e s s' ps hh
  cases e with
  | ident name tag =>
    simp only [step, callRule] at hh
    cases hl : g.lookup name with
    | none => rw [hl] at hh; simp at hh
    | some r => rw [hl] at hh; exact ruleApply_atomic _ _ _ _ _ _ _ hh
  | rule name mod sm body => exact ruleApply_atomic _ _ _ _ _ _ _ hh
  | seq es => exact seqL_atomic g h k _ _ _ _ _ hh
  | choice es => exact choiceL_atomic h _ _ _ _ hh
  | rep e => exact repLoop_atomic g h e k k true s [] s' ps hh
  | rep1 e => exact seqL_atomic g h k _ _ _ _ _ hh
  | repExact e n => exact seqL_atomic g h k _ _ _ _ _ hh
  | repMin e n => exact seqL_atomic g h k _ _ _ _ _ hh
  | repMax e n => exact seqL_atomic g h k _ _ _ _ _ hh
  | repMinMax e m n => exact seqL_atomic g h k _ _ _ _ _ hh
  | opt e =>
    simp only [step] at hh
    cases he : rec e s with
    | ok s1 ps1 => rw [he] at hh; simp only [R0.ok.injEq] at hh; rw [← hh.1]; exact h _ _ _ _ he
    | fail => rw [he] at hh; simp only [R0.ok.injEq] at hh; rw [← hh.1]
    | oof => rw [he] at hh; simp at hh
    | stuck => rw [he] at hh; simp at hh
  | andP e =>
    simp only [step] at hh
    cases he : rec e s with
    | ok s1 ps1 => rw [he] at hh; simp only [R0.ok.injEq] at hh; rw [← hh.1]
    | fail => rw [he] at hh; simp at hh
    | oof => rw [he] at hh; simp at hh
    | stuck => rw [he] at hh; simp at hh
  | notP e =>
    simp only [step] at hh
    cases he : rec e s with
    | ok s1 ps1 => rw [he] at hh; simp at hh
    | fail => rw [he] at hh; simp only [R0.ok.injEq] at hh; rw [← hh.1]
    | oof => rw [he] at hh; simp at hh
    | stuck => rw [he] at hh; simp at hh
  | group e tag => exact h _ _ _ _ hh
  | push e =>
    simp only [step] at hh
    cases he : rec e s with
    | ok s1 ps1 =>
      rw [he] at hh; simp only [R0.ok.injEq] at hh; rw [← hh.1]
      show s1.atomic = s.atomic
      exact h _ _ _ _ he
    | fail => rw [he] at hh; simp at hh
    | oof => rw [he] at hh; simp at hh
    | stuck => rw [he] at hh; simp at hh
  | str x => simp only [step] at hh; split at hh <;> simp [adv] at hh; rw [← hh.1]
  | ci x => simp only [step] at hh; split at hh <;> simp [adv] at hh; rw [← hh.1]
  | range a b =>
    simp only [step] at hh
    split at hh
    · split at hh <;> simp [adv] at hh; rw [← hh.1]
    · simp at hh
  | pushLit x => simp only [step, R0.ok.injEq] at hh; rw [← hh.1]
  | peek =>
    simp only [step] at hh
    split at hh
    · simp at hh
    · split at hh <;> simp [adv] at hh; rw [← hh.1]
  | pop =>
    simp only [step] at hh
    split at hh
    · simp at hh
    · split at hh <;> simp [adv] at hh; rw [← hh.1]
  | drop =>
    simp only [step] at hh
    split at hh
    · simp at hh
    · simp at hh; rw [← hh.1]
  | peekAll => simp only [step] at hh; split at hh <;> simp at hh; rw [← hh.1]
  | popAll => simp only [step] at hh; split at hh <;> simp at hh; rw [← hh.1]
  | peekSlice a b => simp only [step] at hh; split at hh <;> simp at hh; rw [← hh.1]
  | anyB => simp only [step] at hh; split at hh <;> simp [adv] at hh; rw [← hh.1]
  | soiB => simp only [step] at hh; split at hh <;> simp at hh; rw [← hh.1]
  | eoiB => simp only [step] at hh; split at hh <;> simp at hh; rw [← hh.1]
  | uprop n =>
    simp only [step] at hh
    split at hh
    · split at hh <;> simp [adv] at hh; rw [← hh.1]
    · simp at hh
  | skipUntil subs => simp only [step, R0.ok.injEq] at hh; rw [← hh.1]
  | optChoice alts star => simp only [step] at hh; split at hh <;> simp at hh; rw [← hh.1]

/-- **`atomic_preserved`** -/
theorem run_AP : ∀ n, AP (run g inp n) := by
  intro n
  induction n with
  | zero => intro e s s' ps h; simp [run] at h
  | succ n ih => exact step_AP g inp ih n

theorem atomic_preserved {n : Nat} {e : Expr} {s s' : S0} {ps : List Pair}
    (h : run g inp n e s = .ok s' ps) : s'.atomic = s.atomic := run_AP g inp n e s s' ps h

/-! ### "eventually" -/

def Evt (P : Nat → Prop) : Prop := ∃ N, ∀ n, N ≤ n → P n

theorem Evt.mono {P Q : Nat → Prop} (h : Evt P) (f : ∀ n, P n → Q n) : Evt Q := by
  obtain ⟨N, hN⟩ := h
  exact ⟨N, fun n hn => f n (hN n hn)⟩

theorem Evt.and {P Q : Nat → Prop} (h1 : Evt P) (h2 : Evt Q) : Evt (fun n => P n ∧ Q n) := by
  obtain ⟨N1, h1⟩ := h1
  obtain ⟨N2, h2⟩ := h2
  exact ⟨N1 + N2, fun n hn => ⟨h1 n (by omega), h2 n (by omega)⟩⟩

theorem Evt.const {p : Prop} (h : p) : Evt (fun _ => p) := ⟨0, fun _ _ => h⟩

theorem Evt.shift {P : Nat → Prop} (h : Evt (fun n => P (n + 1))) : Evt P := by
  obtain ⟨N, hN⟩ := h
  refine ⟨N + 1, fun n hn => ?_⟩
  obtain ⟨m, rfl⟩ : ∃ m, n = m + 1 := ⟨n - 1, by omega⟩
  exact hN m (by omega)

/-- two budgets (fuel of `rec`, budget of a loop) -/
def Evt2 (P : Nat → Nat → Prop) : Prop := ∃ N, ∀ n k, N ≤ n → N ≤ k → P n k

theorem Evt2.diag {P : Nat → Nat → Prop} (h : Evt2 P) : Evt (fun n => P n n) := by
  obtain ⟨N, hN⟩ := h
  exact ⟨N, fun n hn => hN n n hn hn⟩

variable (g' : Grammar)

/-- with enough fuel the target grammar answers `r` -/
def Tgt (e' : Expr) (s : S0) (r : R0) : Prop := Evt (fun n => run g' inp n e' s = r)

theorem Tgt.of_run {e' : Expr} {s : S0} {r : R0} {n : Nat} (h : run g' inp n e' s = r) (hr : r ≠ .oof) :
    Tgt inp g' e' s r :=
  ⟨n, fun _ hm => Conv.mono g' inp h hr hm⟩

theorem Tgt.of_conv {e' : Expr} {s : S0} {r : R0} (h : Conv g' inp e' s r) : Tgt inp g' e' s r := by
  obtain ⟨n, hn, hr⟩ := h
  exact Tgt.of_run inp g' hn hr

theorem Tgt.conv {e' : Expr} {s : S0} {r : R0} (h : Tgt inp g' e' s r) (hr : r ≠ .oof) :
    Conv g' inp e' s r := by
  obtain ⟨N, hN⟩ := h
  exact ⟨N, hN N (Nat.le_refl _), hr⟩

theorem Tgt.of_step {e' : Expr} {s : S0} {r : R0}
    (h : Evt (fun n => step g' inp n (run g' inp n) e' s = r)) : Tgt inp g' e' s r :=
  Evt.shift h

/-- `e` under the source semantics `rec` is simulated by `e'` in the target grammar, from
    states whose atomicity flag is `a` -/
def SimAt (rec : Sem0) (a : Bool) (e e' : Expr) : Prop :=
  ∀ s, s.atomic = a → rec e s ≠ .oof → Tgt inp g' e' s (rec e s)

/-! ### cross-grammar congruence of the helpers -/

theorem ruleApply_sim {rec : Sem0} (name : String) (mod : Nat) (body body' : Expr) (s : S0)
    (hb : SimAt inp g' rec (ruleAtomic name mod s.atomic) body body')
    (hne : ruleApply rec name mod body s ≠ .oof) :
    Evt (fun n => ruleApply (run g' inp n) name mod body' s = ruleApply rec name mod body s) := by
  unfold ruleApply at hne ⊢
  have h1 : rec body { s with atomic := ruleAtomic name mod s.atomic } ≠ .oof := by
    intro e; rw [e] at hne; exact hne rfl
  refine (hb _ rfl h1).mono ?_
  intro n hn
  rw [hn]

theorem trySkip_sim {rec : Sem0} (r r' : Option Rule) (s : S0)
    (hr : match r, r' with
      | none, none => True
      | some x, some x' => x'.name = x.name ∧ x'.mod = x.mod ∧
          SimAt inp g' rec (ruleAtomic x.name x.mod s.atomic) x.body x'.body
      | _, _ => False)
    (hne : trySkip rec r s ≠ .stop .oof) :
    Evt (fun n => trySkip (run g' inp n) r' s = trySkip rec r s) := by
  cases r with
  | none =>
    cases r' with
    | none => exact Evt.const rfl
    | some x' => exact absurd hr id
  | some x =>
    cases r' with
    | none => exact absurd hr id
    | some x' =>
      obtain ⟨h1, h2, h3⟩ := hr
      unfold trySkip at hne ⊢
      simp only [] at hne ⊢
      have : ruleApply rec x.name x.mod x.body s ≠ .oof := by
        intro e; rw [e] at hne; exact hne rfl
      refine (ruleApply_sim inp g' x.name x.mod x.body x'.body s h3 this).mono ?_
      intro n hn
      rw [h1, h2, hn]

end L0
end Pest
