/-
  Lemmas/FrontScanTriviaTok.lean — token level of the scanner round trip for *arbitrary* trivia
  between the tokens (Front/AstTrivia.lean); the recursive part and the theorem
  `scan_roundtrip_trivia` are in Lemmas/FrontScanTrivia.lean.  Generalises
  Lemmas/FrontScanTok.lean (one blank behind every token), whose triples `Sp`, first-character
  predicates `Hd`, `Stop`, matcher facts and string lemmas are reused as they are.

  New here:
    * `skipTrivia_trivia` : `skip_trivia` on `ws ++ tl` with `IsTrivia ws` and `Stop tl` removes
      exactly `ws` (rounds of whitespace / line comment / block comment), emitting nothing;
      `Tr F tl` (`F` is `tl` after some trivia) replaces `Bl`; `sp_triv_tr`.
    * `Sc` inversion/composition (`sc_cons_inv`, `sc_append`, `sc_hd`, lengths).
    * the maximal-munch matchers in front of *any* text whose first character cannot continue
      the token (`mIdentifier_ident_g`, `mTag_tag_g`, `mNumber_digits_g`, `mInteger_int_g`, …):
      behind a token comes trivia (first character blank, tab, CR, LF or `/`) or directly the
      next token, which in a grammar is never an identifier character / digit there.
    * the token-level triples over `Sc`: tags, prefix and postfix operators, `{m,n}`, slices,
      character ranges, modifiers.
-/
import PestModel.Front.AstTrivia
import PestModel.Lemmas.FrontScanRT

namespace Pest
namespace Front
namespace TRT
open RT

/-! ### trivia -/

theorem isTrivia_append {a b : Text} (ha : IsTrivia a) (hb : IsTrivia b) : IsTrivia (a ++ b) := by
  induction ha with
  | nil => simpa using hb
  | sp _ ih => exact .sp ih
  | tab _ ih => exact .tab ih
  | lf _ ih => exact .lf ih
  | crlf _ ih => exact .crlf ih
  | line r h1 h2 h3 _ ih =>
    have := IsTrivia.line r h1 h2 h3 ih
    simpa using this
  | block hc _ ih =>
    have := IsTrivia.block hc ih
    simpa using this

theorem isTrivia_one : IsTrivia [32] := .sp .nil
theorem isTrivia_lf : IsTrivia [10] := .lf .nil

/-- trivia does not start with a token character -/
theorem isTrivia_hd {q : Nat → Bool} (hq : ∀ c, tokc c = false → q c = true) {ws tl : Text}
    (hw : IsTrivia ws) (ht : Hd q tl) : Hd q (ws ++ tl) := by
  cases hw with
  | nil => simpa using ht
  | sp _ => exact hq 32 (by decide)
  | tab _ => exact hq 9 (by decide)
  | lf _ => exact hq 10 (by decide)
  | crlf _ => exact hq 13 (by decide)
  | line r _ _ _ _ => exact hq 47 (by decide)
  | block hc _ =>
    obtain ⟨body, rfl, _⟩ := hc
    exact hq 47 (by decide)

/-- `F` is `tl` after some trivia -/
def Tr (F tl : Text) : Prop := ∃ ws, IsTrivia ws ∧ F = ws ++ tl

theorem Tr.refl (tl : Text) : Tr tl tl := ⟨[], .nil, rfl⟩
theorem Tr.mk {ws : Text} (h : IsTrivia ws) (tl : Text) : Tr (ws ++ tl) tl := ⟨ws, h, rfl⟩
theorem Tr.length_le {F tl : Text} (h : Tr F tl) : tl.length ≤ F.length := by
  obtain ⟨ws, _, rfl⟩ := h; simp
theorem Tr.trans {A B C : Text} (h1 : Tr A B) (h2 : Tr B C) : Tr A C := by
  obtain ⟨w1, hw1, rfl⟩ := h1
  obtain ⟨w2, hw2, rfl⟩ := h2
  exact ⟨w1 ++ w2, isTrivia_append hw1 hw2, by simp⟩
theorem Tr.hd {q : Nat → Bool} (hq : ∀ c, tokc c = false → q c = true) {F tl : Text}
    (h : Tr F tl) (ht : Hd q tl) : Hd q F := by
  obtain ⟨ws, hw, rfl⟩ := h; exact isTrivia_hd hq hw ht

/-! ### `skip_trivia` over trivia -/

theorem stop_wsLen {tl : Text} (h : Stop tl) : wsLen tl = 0 := by
  have h1 := h.1
  unfold mWhitespace at h1
  by_cases h0 : wsLen tl = 0
  · exact h0
  · simp [h0] at h1

/-- the whitespace pattern takes whole units -/
theorem wsLen_trivia {ws tl : Text} (hw : IsTrivia ws) (ht : Stop tl) :
    ∃ pre ws', ws = pre ++ ws' ∧ pre.length = wsLen (ws ++ tl) ∧ IsTrivia ws' := by
  induction hw with
  | nil => exact ⟨[], [], rfl, by simp [stop_wsLen ht], .nil⟩
  | sp _ ih =>
    obtain ⟨pre, ws', e, hl, hw'⟩ := ih
    exact ⟨32 :: pre, ws', by simp [e], by simp [wsLen, hl], hw'⟩
  | tab _ ih =>
    obtain ⟨pre, ws', e, hl, hw'⟩ := ih
    exact ⟨9 :: pre, ws', by simp [e], by simp [wsLen, hl], hw'⟩
  | lf _ ih =>
    obtain ⟨pre, ws', e, hl, hw'⟩ := ih
    exact ⟨10 :: pre, ws', by simp [e], by simp [wsLen, hl], hw'⟩
  | crlf _ ih =>
    obtain ⟨pre, ws', e, hl, hw'⟩ := ih
    exact ⟨13 :: 10 :: pre, ws', by simp [e], by simp [wsLen, hl], hw'⟩
  | line r h1 h2 h3 h _ =>
    exact ⟨[], _, rfl, by simp [wsLen], .line r h1 h2 h3 h⟩
  | block hc h _ =>
    obtain ⟨body, rfl, hb⟩ := hc
    exact ⟨[], _, rfl, by simp [wsLen], .block ⟨body, rfl, hb⟩ h⟩

/-- what a trivia pattern matches at the head of trivia is a prefix made of whole units -/
def TakesUnits (m : Text → Option Nat) : Prop :=
  ∀ (ws tl : Text) (n : Nat), IsTrivia ws → Stop tl → m (ws ++ tl) = some n →
    ∃ pre ws', ws = pre ++ ws' ∧ pre.length = n ∧ 0 < n ∧ IsTrivia ws'

theorem takesUnits_ws : TakesUnits mWhitespace := by
  intro ws tl n hw ht hm
  obtain ⟨pre, ws', e, hl, hw'⟩ := wsLen_trivia hw ht
  unfold mWhitespace at hm
  by_cases h0 : wsLen (ws ++ tl) = 0
  · simp [h0] at hm
  · simp [h0] at hm
    exact ⟨pre, ws', e, by omega, by omega, hw'⟩

theorem mLineComment_line (r : Text) (X : Text) (h1 : ∀ c ∈ r, c ≠ 10) (h2 : r.head? ≠ some 47)
    (h3 : r.head? ≠ some 33) : mLineComment (47 :: 47 :: (r ++ 10 :: X)) = some (2 + r.length) := by
  cases r with
  | nil => simp [mLineComment, spanLen]
  | cons d r' =>
    have hd47 : d ≠ 47 := by simpa using h2
    have hd33 : d ≠ 33 := by simpa using h3
    have hall : (d :: r').all (· != 10) = true := by
      simp only [List.all_eq_true]
      intro c hc
      simpa using h1 c hc
    have := spanLen_append (· != 10) (d :: r') 10 X hall (by decide)
    simp only [List.cons_append] at this
    simp [mLineComment, hd47, hd33, this]

theorem takesUnits_lc : TakesUnits mLineComment := by
  intro ws tl n hw ht hm
  cases hw with
  | nil => rw [List.nil_append, ht.2.1] at hm; cases hm
  | sp _ => simp [mLineComment] at hm
  | tab _ => simp [mLineComment] at hm
  | lf _ => simp [mLineComment] at hm
  | crlf _ => simp [mLineComment] at hm
  | @line r t h1 h2 h3 h =>
    have := mLineComment_line r (t ++ tl) h1 h2 h3
    simp only [List.cons_append, List.append_assoc] at hm
    rw [this] at hm
    cases hm
    exact ⟨47 :: 47 :: r, 10 :: t, by simp, by simp; omega, by omega, .lf h⟩
  | block hc _ =>
    obtain ⟨body, rfl, _⟩ := hc
    simp [mLineComment] at hm

theorem takesUnits_bc : TakesUnits mBlockComment := by
  intro ws tl n hw ht hm
  cases hw with
  | nil => rw [List.nil_append, ht.2.2] at hm; cases hm
  | sp _ => simp [mBlockComment] at hm
  | tab _ => simp [mBlockComment] at hm
  | lf _ => simp [mBlockComment] at hm
  | crlf _ => simp [mBlockComment] at hm
  | line r _ _ _ _ => simp [mBlockComment] at hm
  | @block c t hc h =>
    obtain ⟨body, rfl, hb⟩ := hc
    have := hb (t ++ tl)
    simp only [List.cons_append, List.append_assoc, mBlockComment, this, Option.map_some] at hm
    cases hm
    exact ⟨47 :: 42 :: body, t, rfl, by simp, by omega, h⟩

/-- non-empty trivia is matched by one of the three patterns -/
theorem trivia_progress {ws tl : Text} (hw : IsTrivia ws) (hne : ws ≠ []) :
    mWhitespace (ws ++ tl) ≠ none ∨ mLineComment (ws ++ tl) ≠ none ∨
      mBlockComment (ws ++ tl) ≠ none := by
  cases hw with
  | nil => exact absurd rfl hne
  | sp _ => left; simp [mWhitespace, wsLen]
  | tab _ => left; simp [mWhitespace, wsLen]
  | lf _ => left; simp [mWhitespace, wsLen]
  | crlf _ => left; simp [mWhitespace, wsLen]
  | @line r t h1 h2 h3 _ =>
    right; left
    have := mLineComment_line r (t ++ tl) h1 h2 h3
    simp only [List.cons_append, List.append_assoc]
    rw [this]; simp
  | @block c t hc _ =>
    obtain ⟨body, rfl, hb⟩ := hc
    right; right
    have := hb (t ++ tl)
    simp [mBlockComment, this]

theorem skip_step {m : Text → Option Nat} (hm : TakesUnits m) {s : St} {ws tl : Text}
    (hs : s.rest = ws ++ tl) (hw : IsTrivia ws) (ht : Stop tl) :
    out (skip m s).2 = out s ∧ ∃ ws', IsTrivia ws' ∧ (skip m s).2.rest = ws' ++ tl ∧
      ws'.length ≤ ws.length ∧ ((skip m s).1 = true → ws'.length < ws.length) ∧
      ((skip m s).1 = false → (skip m s).2 = s ∧ m (ws ++ tl) = none) := by
  cases hms : m s.rest with
  | none =>
    have e : skip m s = (false, s) := by simp [skip, hms]
    rw [e]
    exact ⟨rfl, ws, hw, hs, Nat.le_refl _, by simp, fun _ => ⟨rfl, by rw [← hs]; exact hms⟩⟩
  | some n =>
    have e : skip m s = (true, { (s.adv n) with start := (s.adv n).pos }) := by simp [skip, hms]
    rw [e]
    obtain ⟨pre, ws', e', hl, hn, hw'⟩ := hm ws tl n hw ht (by rw [← hs]; exact hms)
    refine ⟨rfl, ws', hw', ?_, ?_, ?_, by simp⟩
    · subst hl; simp [hs, e']
    · rw [e']; simp
    · intro _; rw [e']; simp; omega

theorem triviaRound_eq (s : St) :
    triviaRound s =
      ((skip mWhitespace s).1 || (skip mLineComment (skip mWhitespace s).2).1 ||
        (skip mBlockComment (skip mLineComment (skip mWhitespace s).2).2).1,
       (skip mBlockComment (skip mLineComment (skip mWhitespace s).2).2).2) := rfl

theorem skipTriviaN_succ (n : Nat) (s : St) :
    skipTriviaN (n + 1) s =
      if (triviaRound s).1 then skipTriviaN n (triviaRound s).2 else (triviaRound s).2 := rfl

theorem skipTriviaN_trivia : ∀ (n : Nat) (s : St) (ws tl : Text), s.rest = ws ++ tl →
    IsTrivia ws → Stop tl → ws.length < n →
    (skipTriviaN n s).rest = tl ∧ out (skipTriviaN n s) = out s := by
  intro n
  induction n with
  | zero => intro s ws tl _ _ _ h; omega
  | succ k ih =>
    intro s ws tl hs hw ht hn
    obtain ⟨o1, w1, hw1, r1, l1, lt1, eq1⟩ := skip_step takesUnits_ws hs hw ht
    obtain ⟨o2, w2, hw2, r2, l2, lt2, eq2⟩ := skip_step takesUnits_lc r1 hw1 ht
    obtain ⟨o3, w3, hw3, r3, l3, lt3, eq3⟩ := skip_step takesUnits_bc r2 hw2 ht
    rw [skipTriviaN_succ, triviaRound_eq]
    simp only
    generalize skip mWhitespace s = p1 at *
    generalize skip mLineComment p1.2 = p2 at *
    generalize skip mBlockComment p2.2 = p3 at *
    by_cases hany : (p1.1 || p2.1 || p3.1) = true
    · simp only [hany, ↓reduceIte]
      have hlt : w3.length < ws.length := by
        simp only [Bool.or_eq_true] at hany
        rcases hany with (h | h) | h
        · have := lt1 h; omega
        · have := lt2 h; omega
        · have := lt3 h; omega
      obtain ⟨hr, ho⟩ := ih p3.2 w3 tl r3 hw3 ht (by omega)
      exact ⟨hr, by rw [ho, o3, o2, o1]⟩
    · simp only [hany, Bool.false_eq_true, ↓reduceIte]
      simp only [Bool.or_eq_true, not_or, Bool.not_eq_true] at hany
      obtain ⟨⟨h1, h2⟩, h3⟩ := hany
      obtain ⟨e1, n1⟩ := eq1 h1
      obtain ⟨e2, n2⟩ := eq2 h2
      obtain ⟨e3, n3⟩ := eq3 h3
      have hw1e : w1 = ws := by
        have := r1; rw [e1, hs] at this; exact (List.append_cancel_right this).symm
      subst hw1e
      have hw2e : w2 = w1 := by
        have := r2; rw [e2, r1] at this; exact (List.append_cancel_right this).symm
      subst hw2e
      have hnil : w2 = [] := by
        by_cases hne : w2 = []
        · exact hne
        · rcases trivia_progress (tl := tl) hw2 hne with h | h | h
          · exact absurd n1 h
          · exact absurd n2 h
          · exact absurd n3 h
      rw [e3, e2, e1]
      exact ⟨by rw [hs, hnil]; rfl, rfl⟩

/-- `skip_trivia` on trivia followed by something that is no trivia: exactly the trivia goes -/
theorem skipTrivia_trivia {s : St} {ws tl : Text} (hs : s.rest = ws ++ tl) (hw : IsTrivia ws)
    (ht : Stop tl) : (skipTrivia s).rest = tl ∧ out (skipTrivia s) = out s :=
  skipTriviaN_trivia _ s ws tl hs hw ht (by rw [hs]; simp; omega)

theorem skipTrivia_tr {s : St} {tl : Text} (hs : Tr s.rest tl) (ht : Stop tl) :
    (skipTrivia s).rest = tl ∧ out (skipTrivia s) = out s := by
  obtain ⟨ws, hw, e⟩ := hs
  exact skipTrivia_trivia e hw ht

theorem sp_triv_tr {F tl : Text} (h : Tr F tl) (ht : Stop tl) : Sp triv F () tl [] := by
  intro s hs
  obtain ⟨h1, h2⟩ := skipTrivia_tr (s := s) (by rw [hs]; exact h) ht
  exact ⟨skipTrivia s, rfl, h1, by simp [h2]⟩

theorem sp_triv_w {ws tl : Text} (hw : IsTrivia ws) (ht : Stop tl) : Sp triv (ws ++ tl) () tl [] :=
  sp_triv_tr (Tr.mk hw tl) ht

/-! ### `Sc`: inversion, composition, first characters, lengths -/

theorem sc_nil_inv {t tl : Text} (h : Sc [] t tl) : t = tl := by cases h; rfl

theorem sc_cons_inv {kv : KV} {kvs : List KV} {t tl : Text} (h : Sc (kv :: kvs) t tl) :
    ∃ ws m, IsTrivia ws ∧ t = spell kv ++ (ws ++ m) ∧ Sc kvs m tl := by
  cases h with
  | cons _ hw hr => exact ⟨_, _, hw, rfl, hr⟩

theorem sc_append : ∀ (a : List KV) {b : List KV} {t tl : Text}, Sc (a ++ b) t tl →
    ∃ m, Sc a t m ∧ Sc b m tl := by
  intro a
  induction a with
  | nil => intro b t tl h; exact ⟨t, .nil t, h⟩
  | cons kv a ih =>
    intro b t tl h
    obtain ⟨ws, m, hw, rfl, hr⟩ := sc_cons_inv h
    obtain ⟨m', h1, h2⟩ := ih hr
    exact ⟨m', .cons kv hw h1, h2⟩

theorem sc_append_mk {a b : List KV} {t m tl : Text} (h1 : Sc a t m) (h2 : Sc b m tl) :
    Sc (a ++ b) t tl := by
  induction h1 with
  | nil _ => exact h2
  | cons kv hw _ ih => exact .cons kv hw (ih h2)

theorem sc_length {kvs : List KV} {t tl : Text} (h : Sc kvs t tl) : tl.length ≤ t.length := by
  induction h with
  | nil _ => exact Nat.le_refl _
  | cons kv _ _ ih => simp; omega

theorem sc_cons_length {kv : KV} {kvs : List KV} {t tl : Text} (h : Sc (kv :: kvs) t tl) :
    (spell kv).length + tl.length ≤ t.length := by
  obtain ⟨ws, m, _, rfl, hr⟩ := sc_cons_inv h
  have := sc_length hr
  simp; omega

/-- the first character of a layout is that of the canonical text -/
theorem sc_hd {p : Nat → Bool} {kvs : List KV} {t tl : Text} (hs : Sc kvs t tl)
    (hh : Hd p (spellAll kvs ++ tl)) (h32 : p 32 = false) : Hd p t := by
  cases hs with
  | nil _ => simpa using hh
  | cons kv hw hr =>
    rw [spellAll_cons] at hh
    cases hsp : spell kv with
    | nil => rw [hsp] at hh; simp [h32] at hh
    | cons c r =>
      rw [hsp] at hh
      simp only [List.cons_append, hd_cons] at hh ⊢; exact hh

/-! ### characters that cannot continue a token -/

/-- not an identifier character -/
def nic (c : Nat) : Bool := !isIdentChar c
/-- not a digit -/
def ndg (c : Nat) : Bool := !isDigit c

theorem nic_of_not_tokc (c : Nat) (h : tokc c = false) : nic c = true := by
  have h' : c = 32 ∨ c = 9 ∨ c = 10 ∨ c = 13 ∨ c = 47 := by simp [tokc] at h; omega
  rcases h' with h | h | h | h | h <;> subst h <;> decide

theorem ndg_of_not_tokc (c : Nat) (h : tokc c = false) : ndg c = true := by
  have h' : c = 32 ∨ c = 9 ∨ c = 10 ∨ c = 13 ∨ c = 47 := by simp [tokc] at h; omega
  rcases h' with h | h | h | h | h <;> subst h <;> decide

theorem nic_afterNode {c : Nat} (h : afterNode c = true) : nic c = true := by
  rcases afterNode_cases h with h | h | h | h | h | h | h | h <;> subst h <;> decide

/-- behind a token: trivia, then a character of class `p`; none of them continues the token -/
theorem hd_nic {p : Nat → Bool} (hp : ∀ c, p c = true → nic c = true) {F tl : Text} (h : Tr F tl)
    (ht : Hd p tl) : Hd nic F :=
  h.hd nic_of_not_tokc (ht.mono hp)

theorem hd_ndg {p : Nat → Bool} (hp : ∀ c, p c = true → ndg c = true) {F tl : Text} (h : Tr F tl)
    (ht : Hd p tl) : Hd ndg F :=
  h.hd ndg_of_not_tokc (ht.mono hp)

theorem push_ne_of_nic {x : Nat} (hx : nic x = true) : ∀ c ∈ sPUSH, c ≠ x := by
  intro c hc e
  subst e
  simp [sPUSH] at hc
  rcases hc with h | h | h | h <;> subst h <;> simp [nic, isIdentChar, isIdentStart, isAlpha] at hx

theorem mIdentifier_ident_g {name : Text} (h : IsIdent name) {F : Text} (hF : Hd nic F) :
    mIdentifier (name ++ F) = some name.length := by
  obtain ⟨x, F', rfl, hx⟩ := hF.dest
  obtain ⟨c, r, rfl, hc, hr, hp⟩ := isIdent_dest h
  have h1 : startsWith ((c :: r) ++ x :: F') sPUSH = false := by
    rw [startsWith_append_ne (c :: r) sPUSH x F' (push_ne_of_nic hx)]; exact hp
  have h2 := spanLen_append isIdentChar r x F' hr (by simpa [nic] using hx)
  unfold mIdentifier
  rw [h1]
  simp [hc, h2]

theorem mLit_push_ident_g {name : Text} (h : IsIdent name) {F : Text} (hF : Hd nic F) :
    mLit sPUSH (name ++ F) = none := by
  obtain ⟨x, F', rfl, hx⟩ := hF.dest
  obtain ⟨c, r, rfl, _, _, hp⟩ := isIdent_dest h
  have h1 : startsWith (c :: (r ++ x :: F')) sPUSH = false := by
    have := startsWith_append_ne (c :: r) sPUSH x F' (push_ne_of_nic hx)
    simp only [List.cons_append] at this
    rw [this]; exact hp
  simp [mLit, h1]

theorem mTag_tag_g {t : Text} (h : IsTagName t) {F : Text} (hF : Hd nic F) :
    mTag ((35 :: t) ++ F) = some (35 :: t).length := by
  obtain ⟨x, F', rfl, hx⟩ := hF.dest
  obtain ⟨c, r, rfl, hc, hr⟩ := isTagName_dest h
  have h2 := spanLen_append isIdentChar r x F' hr (by simpa [nic] using hx)
  simp [mTag, hc, h2]

theorem mNumber_digits_g {w : Text} (hw : w.all isDigit = true) (hne : w ≠ []) {F : Text}
    (hF : Hd ndg F) : mNumber (w ++ F) = some w.length := by
  obtain ⟨x, F', rfl, hx⟩ := hF.dest
  have h := spanLen_append isDigit w x F' hw (by simpa [ndg] using hx)
  have : w.length ≠ 0 := by
    cases w with
    | nil => exact absurd rfl hne
    | cons _ _ => simp
  simp [mNumber, h, this]

theorem mNumber_natDigits_g (n : Nat) {F : Text} (hF : Hd ndg F) :
    mNumber (natDigits n ++ F) = some (natDigits n).length :=
  mNumber_digits_g (natDigits_digits n) (natDigits_ne_nil n) hF

theorem mInteger_int_g (i : Int) {F : Text} (hF : Hd ndg F) :
    mInteger (intDigits i ++ F) = some (intDigits i).length := by
  unfold intDigits
  by_cases hi : i < 0
  · simp only [hi, ↓reduceIte]
    obtain ⟨x, F', rfl, hx⟩ := hF.dest
    have hpos : 0 < i.natAbs := by omega
    obtain ⟨d, ds, e, h1, h2, h3⟩ := natDigits_pos hpos
    rw [e]
    have hn : mNumber (45 :: d :: (ds ++ x :: F')) = none := mNumber_none _ (by decide)
    have hz : spanLen (· == 48) (d :: (ds ++ x :: F')) = 0 := by
      have : (d == 48) = false := by simp; omega
      simp [spanLen, this]
    have hd : (decide (49 ≤ d) && decide (d ≤ 57)) = true := by simp; omega
    have hs := spanLen_append isDigit ds x F' h3 (by simpa [ndg] using hx)
    simp only [mInteger, hn, List.cons_append, hz, List.drop_zero, hd, ↓reduceIte, hs,
      List.length_cons]
    congr 1; omega
  · simp only [hi, ↓reduceIte]
    simp only [mInteger, mNumber_natDigits_g _ hF]

theorem hd_lit {p : Nat → Bool} {c : Nat} (X : Text) (h : p c = true) : Hd p (c :: X) := h

/-- behind a token whose successor is the fixed character `c` -/
theorem hd_nic_w {ws : Text} (hw : IsTrivia ws) {c : Nat} (X : Text) (hc : nic c = true) :
    Hd nic (ws ++ c :: X) := isTrivia_hd nic_of_not_tokc hw (hd_lit X hc)

theorem hd_ndg_w {ws : Text} (hw : IsTrivia ws) {c : Nat} (X : Text) (hc : ndg c = true) :
    Hd ndg (ws ++ c :: X) := isTrivia_hd ndg_of_not_tokc hw (hd_lit X hc)

/-! ### tags -/

theorem sp_acceptTag_some_g {t : Text} (h : IsTagName t) {inp tl : Text}
    (hs : Sc (tagKV (some t)) inp tl) (ht : Stop tl) :
    Sp acceptTag inp () tl (tagKV (some t)) := by
  simp only [tagKV] at hs
  obtain ⟨w1, m1, hw1, rfl, hs1⟩ := sc_cons_inv hs
  obtain ⟨w2, m2, hw2, rfl, hs2⟩ := sc_cons_inv hs1
  have := sc_nil_inv hs2; subst this
  unfold acceptTag
  sp_begin
  sp_step (sp_scanEmit .tag (w := 35 :: t) (tl := w1 ++ 61 :: (w2 ++ m2))
    (mTag_tag_g h (hd_nic_w hw1 _ (by decide))))
  sp_step (sp_triv_w hw1 (stop_tokc _ (by decide)))
  sp_step (sp_expect 61 .assignOp .expectedAssign _)
  exact sp_triv_w hw2 ht
  case hi => simp [spell]
  case hk => simp [tagKV]

/-! ### prefix operators -/

theorem termStart_32 : termStart 32 = false := by decide
theorem nodeStart_32 : nodeStart 32 = false := by decide
theorem afterNode_32 : afterNode 32 = false := by decide
theorem afterTerm_32 : afterTerm 32 = false := by decide

theorem sp_prefixLoop_g : ∀ (pre : List Bool) (n : Nat) (inp tl : Text), pre.length < n →
    Sc (pre.map preKV) inp tl → Hd nodeStart tl →
    Sp (prefixLoop n) inp () tl (pre.map preKV) := by
  intro pre
  induction pre with
  | nil =>
    intro n inp tl hn hs htl
    have := sc_nil_inv hs; subst this
    have := sp_prefixLoop [] n inp hn htl
    simpa using this
  | cons b pre ih =>
    intro n inp tl hn hs htl s hs0
    cases n with
    | zero => omega
    | succ n =>
      simp only [List.map_cons] at hs
      obtain ⟨w, m, hw, rfl, hs1⟩ := sc_cons_inv hs
      have hst : Stop m := (sc_hd hs1 (hd_pre pre htl) termStart_32).stop @tokc_termStart
      have hn' : pre.length < n := by simp at hn; omega
      cases b with
      | true =>
        have hs' : s.rest = 38 :: (w ++ m) := by simpa [preKV, spell] using hs0
        obtain ⟨h1, h2⟩ := skipTrivia_trivia (s := (s.adv 1).emit .posPred [38]) (ws := w)
          (by simp [hs']) hw hst
        have := (ih n m tl hn' hs1 htl).from s _ h1 (k0 := [(.posPred, [38])]) (by simp [h2])
          (kk := (true :: pre).map preKV) (by simp [preKV])
        simpa [prefixLoop, peek_cons hs'] using this
      | false =>
        have hs' : s.rest = 33 :: (w ++ m) := by simpa [preKV, spell] using hs0
        obtain ⟨h1, h2⟩ := skipTrivia_trivia (s := (s.adv 1).emit .negPred [33]) (ws := w)
          (by simp [hs']) hw hst
        have := (ih n m tl hn' hs1 htl).from s _ h1 (k0 := [(.negPred, [33])]) (by simp [h2])
          (kk := (false :: pre).map preKV) (by simp [preKV])
        simpa [prefixLoop, peek_cons hs'] using this

theorem pre_length_le : ∀ (pre : List Bool) {t tl : Text}, Sc (pre.map preKV) t tl →
    pre.length + tl.length ≤ t.length := by
  intro pre
  induction pre with
  | nil => intro t tl h; have := sc_nil_inv h; subst this; simp
  | cons b pre ih =>
    intro t tl h
    simp only [List.map_cons] at h
    obtain ⟨w, m, _, rfl, hr⟩ := sc_cons_inv h
    have := ih hr
    cases b <;> simp [preKV, spell] <;> omega

/-! ### `{m,n}` -/

def numFirst : List (Option Nat) → Bool
  | some _ :: _ => true
  | _ => false

/-- no two numbers without a comma between them -/
def okItems : List (Option Nat) → Bool
  | [] => true
  | none :: r => okItems r
  | some _ :: r => !numFirst r && okItems r

theorem item_class_32 : (fun c => c == 125 || c == 44 || isDigit c) 32 = false := by decide

theorem hd_items_nonum {items : List (Option Nat)} (h : numFirst items = false) {t tl : Text}
    (hs : Sc (items.map itemKV) t tl) (htl : Hd (· == 125) tl) :
    Hd (fun c => c == 125 || c == 44) t := by
  cases items with
  | nil =>
    have := sc_nil_inv hs; subst this
    exact htl.mono (fun c hc => by simp at hc; simp [hc])
  | cons i r =>
    cases i with
    | none =>
      simp only [List.map_cons] at hs
      obtain ⟨w, m, _, rfl, _⟩ := sc_cons_inv hs
      simp [itemKV, spell]
    | some k => simp [numFirst] at h

theorem items_length_le : ∀ (items : List (Option Nat)) {t tl : Text},
    Sc (items.map itemKV) t tl → items.length + tl.length ≤ t.length := by
  intro items
  induction items with
  | nil => intro t tl h; have := sc_nil_inv h; subst this; simp
  | cons i r ih =>
    intro t tl h
    simp only [List.map_cons] at h
    obtain ⟨w, m, _, rfl, hr⟩ := sc_cons_inv h
    have := ih hr
    cases i with
    | none => simp [itemKV, spell]; omega
    | some k =>
      obtain ⟨d, ds, e, _, _⟩ := natDigits_cons k
      simp [itemKV, spell, e]; omega

theorem sp_boundsLoop_g : ∀ (items : List (Option Nat)) (n : Nat) (F t tl : Text),
    items.length < n → okItems items = true → Hd (· == 125) tl → Sc (items.map itemKV) t tl →
    Tr F t → Sp (boundsLoop n) F () tl (items.map itemKV) := by
  intro items
  induction items with
  | nil =>
    intro n F t tl hn _ htl hs hF s0 hs0
    have := sc_nil_inv hs; subst this
    cases n with
    | zero => omega
    | succ n =>
      obtain ⟨c, r, rfl, hc⟩ := htl.dest
      have hc' : c = 125 := by simpa using hc
      subst hc'
      obtain ⟨hr, ho⟩ := skipTrivia_tr (s := s0) (by rw [hs0]; exact hF)
        (stop_tokc r (by decide))
      refine ⟨skipTrivia s0, ?_, hr, by simp [ho]⟩
      simp only [boundsLoop]
      generalize skipTrivia s0 = s at hr ho
      simp [peek_cons hr, hr, mNumber_none r (c := 125) (by decide)]
  | cons i items ih =>
    intro n F t tl hn hok htl hs hF s0 hs0
    cases n with
    | zero => omega
    | succ n =>
      have hn' : items.length < n := by simp at hn; omega
      have hst : Stop t :=
        (sc_hd hs (hd_items (i :: items) htl) item_class_32).stop @tokc_item
      obtain ⟨hr, ho⟩ := skipTrivia_tr (s := s0) (by rw [hs0]; exact hF) hst
      simp only [List.map_cons] at hs
      obtain ⟨w, m, hw, rfl, hs'⟩ := sc_cons_inv hs
      simp only [boundsLoop]
      generalize skipTrivia s0 = s at hr ho
      cases i with
      | none =>
        have hok' : okItems items = true := by simpa [okItems] using hok
        have hr' : s.rest = 44 :: (w ++ m) := by simpa [itemKV, spell] using hr
        have := (ih n (w ++ m) m tl hn' hok' htl hs' (Tr.mk hw m)).from s0
          ((s.adv 1).emit .comma [44]) (by simp [hr']) (k0 := [(.comma, [44])]) (by simp [ho])
          (kk := (none :: items).map itemKV) (by simp [itemKV])
        simpa [peek_cons hr'] using this
      | some k =>
        have hok' : numFirst items = false ∧ okItems items = true := by
          simpa [okItems] using hok
        obtain ⟨d, ds, e, hd, hds⟩ := natDigits_cons k
        have hr' : s.rest = natDigits k ++ (w ++ m) := by simpa [itemKV, spell] using hr
        have hpk : s.peek ≠ some 44 := by
          have : s.rest = d :: (ds ++ (w ++ m)) := by rw [hr', e]; rfl
          rw [peek_cons this]
          have := isDigit_cases hd
          simp; omega
        have hnd : Hd ndg (w ++ m) :=
          isTrivia_hd ndg_of_not_tokc hw ((hd_items_nonum hok'.1 hs' htl).mono (fun c hc => by
            simp only [Bool.or_eq_true, beq_iff_eq] at hc
            rcases hc with hc | hc <;> subst hc <;> decide))
        have hm := mNumber_natDigits_g k hnd
        have := (ih n (w ++ m) m tl hn' hok'.2 htl hs' (Tr.mk hw m)).from s0
          ((s.adv (natDigits k).length).emit .number (s.rest.take (natDigits k).length))
          (by simp [hr']) (k0 := [(.number, natDigits k)]) (by simp [ho, hr'])
          (kk := (some k :: items).map itemKV) (by simp [itemKV])
        rw [← hr'] at hm
        simpa [hpk, hm] using this

/-! ### postfix operators -/

theorem postItems_ok {p : Post} {items : List (Option Nat)} (h : postItems p = some items) :
    okItems items = true := by
  cases p <;> simp [postItems] at h <;> subst h <;> rfl

/-- the sub-scanner behind `{` -/
theorem sp_braces_g (items : List (Option Nat)) (hok : okItems items = true) (N : Nat)
    (hN : items.length < N) {F t X : Text}
    (hs : Sc (items.map itemKV) t (125 :: X)) (hF : Tr F t) :
    Sp (do boundsLoop N; triv; expect 125 .rbrace .expectedRBrace; pure true : M Bool)
      F true X (items.map itemKV ++ [(.rbrace, [125])]) := by
  sp_begin
  sp_step (sp_boundsLoop_g items N F t (125 :: X) hN hok (by simp) hs hF)
  sp_step (sp_triv_id (stop_tokc _ (by decide)))
  sp_step (sp_expect 125 .rbrace .expectedRBrace _)
  exact Sp.pure true _
  case hi => rfl
  case hk => simp

theorem sp_postfixOp_g (p : Post) {F t m : Text} (hs : Sc (postKV p) t m) (hF : Tr F t) :
    ∃ F', Tr F' m ∧ Sp acceptPostfixOp F true F' (postKV p) := by
  have hst : Stop t := (sc_hd hs (hd_postKV p m) afterNode_32).stop @tokc_afterNode
  cases hp : postItems p with
  | none =>
    cases p with
    | opt =>
      simp only [postKV] at hs
      obtain ⟨w, m', hw, rfl, h3⟩ := sc_cons_inv hs
      have := sc_nil_inv h3; subst this
      refine ⟨w ++ m', Tr.mk hw m', ?_⟩
      intro s0 hs0
      obtain ⟨hr, ho⟩ := skipTrivia_tr (s := s0) (by rw [hs0]; exact hF) hst
      simp only [acceptPostfixOp]
      generalize skipTrivia s0 = s at hr ho
      have hr' : s.rest = 63 :: (w ++ m') := by simpa [spell] using hr
      exact ⟨(s.adv 1).emit .optionOp [63], by simp [peek_cons hr'], by simp [hr'],
        by simp [ho, postKV]⟩
    | rep =>
      simp only [postKV] at hs
      obtain ⟨w, m', hw, rfl, h3⟩ := sc_cons_inv hs
      have := sc_nil_inv h3; subst this
      refine ⟨w ++ m', Tr.mk hw m', ?_⟩
      intro s0 hs0
      obtain ⟨hr, ho⟩ := skipTrivia_tr (s := s0) (by rw [hs0]; exact hF) hst
      simp only [acceptPostfixOp]
      generalize skipTrivia s0 = s at hr ho
      have hr' : s.rest = 42 :: (w ++ m') := by simpa [spell] using hr
      exact ⟨(s.adv 1).emit .repeatOp [42], by simp [peek_cons hr'], by simp [hr'],
        by simp [ho, postKV]⟩
    | rep1 =>
      simp only [postKV] at hs
      obtain ⟨w, m', hw, rfl, h3⟩ := sc_cons_inv hs
      have := sc_nil_inv h3; subst this
      refine ⟨w ++ m', Tr.mk hw m', ?_⟩
      intro s0 hs0
      obtain ⟨hr, ho⟩ := skipTrivia_tr (s := s0) (by rw [hs0]; exact hF) hst
      simp only [acceptPostfixOp]
      generalize skipTrivia s0 = s at hr ho
      have hr' : s.rest = 43 :: (w ++ m') := by simpa [spell] using hr
      exact ⟨(s.adv 1).emit .repeatOnceOp [43], by simp [peek_cons hr'], by simp [hr'],
        by simp [ho, postKV]⟩
    | exact n => simp [postItems] at hp
    | min n => simp [postItems] at hp
    | max n => simp [postItems] at hp
    | minmax a b => simp [postItems] at hp
  | some items =>
    have hkv := postKV_items hp
    rw [hkv] at hs
    obtain ⟨w0, t1, hw0, rfl, hs1⟩ := sc_cons_inv hs
    obtain ⟨t2, h1, h2⟩ := sc_append _ hs1
    obtain ⟨w3, m', hw3, rfl, h3⟩ := sc_cons_inv h2
    have := sc_nil_inv h3; subst this
    have h1' : Sc (items.map itemKV) t1 (125 :: (w3 ++ m')) := by simpa [spell] using h1
    have hlen := items_length_le items h1'
    refine ⟨w3 ++ m', Tr.mk hw3 m', ?_⟩
    intro s0 hs0
    obtain ⟨hr, ho⟩ := skipTrivia_tr (s := s0) (by rw [hs0]; exact hF) hst
    simp only [acceptPostfixOp]
    generalize skipTrivia s0 = s at hr ho
    have hr' : s.rest = 123 :: (w0 ++ t1) := by simpa [spell] using hr
    have hN : items.length < ((s.adv 1).emit .lbrace [123]).rest.length + 1 := by
      simp [hr']; omega
    have := (sp_braces_g items (postItems_ok hp) _ hN h1' (Tr.mk hw0 t1)).from s0
      ((s.adv 1).emit .lbrace [123]) (by simp [hr'])
      (k0 := [(.lbrace, [123])]) (by simp [ho]) (kk := postKV p) (by rw [hkv]; simp)
    simpa [peek_cons hr'] using this

theorem sp_postfixOp_no_g {F tl : Text} (h : Tr F tl) (htl : Hd afterTerm tl) :
    Sp acceptPostfixOp F false tl [] := by
  intro s0 hs0
  obtain ⟨hr, ho⟩ := skipTrivia_tr (s := s0) (by rw [hs0]; exact h) (htl.stop @tokc_afterTerm)
  obtain ⟨c, r, rfl, hc⟩ := htl.dest
  refine ⟨skipTrivia s0, ?_, hr, by simp [ho]⟩
  simp only [acceptPostfixOp]
  generalize skipTrivia s0 = s at hr ho
  have := afterTerm_cases hc
  have h1 : c ≠ 63 := by omega
  have h2 : c ≠ 42 := by omega
  have h3 : c ≠ 43 := by omega
  have h4 : c ≠ 123 := by omega
  simp [peek_cons hr, h1, h2, h3, h4]

/-- the tokens of a chain of postfix operators -/
abbrev postsKV (posts : List Post) : List KV := (posts.map postKV).flatten

theorem sp_postfixLoop_g : ∀ (posts : List Post) (n : Nat) (F t tl : Text), posts.length < n →
    Hd afterTerm tl → Sc (postsKV posts) t tl → Tr F t →
    Sp (postfixLoop n) F () tl (postsKV posts) := by
  intro posts
  induction posts with
  | nil =>
    intro n F t tl hn htl hs hF
    have := sc_nil_inv hs; subst this
    cases n with
    | zero => omega
    | succ n =>
      unfold postfixLoop
      sp_begin
      sp_step (sp_postfixOp_no_g hF htl)
      exact Sp.pure () _
      case hi => rfl
      case hk => simp [postsKV]
  | cons p posts ih =>
    intro n F t tl hn htl hs hF
    cases n with
    | zero => omega
    | succ n =>
      have hn' : posts.length < n := by simp at hn; omega
      have hs' : Sc (postKV p ++ postsKV posts) t tl := by simpa [postsKV] using hs
      obtain ⟨m, h1, h2⟩ := sc_append _ hs'
      obtain ⟨F', hF', hop⟩ := sp_postfixOp_g p h1 hF
      unfold postfixLoop
      sp_begin
      sp_step hop
      exact ih n F' m tl hn' htl h2 hF'
      case hi => rfl
      case hk => simp [postsKV]

theorem posts_length_le_g : ∀ (posts : List Post) {t tl : Text}, Sc (postsKV posts) t tl →
    posts.length + tl.length ≤ t.length := by
  intro posts
  induction posts with
  | nil => intro t tl h; have := sc_nil_inv h; subst this; simp
  | cons p posts ih =>
    intro t tl h
    have h' : Sc (postKV p ++ postsKV posts) t tl := by simpa [postsKV] using h
    obtain ⟨m, h1, h2⟩ := sc_append _ h'
    have := ih h2
    have h3 : 1 + m.length ≤ t.length := by
      cases p <;> simp only [postKV] at h1 <;> have := sc_cons_length h1 <;>
        simp [spell] at this <;> omega
    simp; omega

/-- `accept_postfix_ops` behind a node -/
theorem sp_acceptPostfixOps_g (posts : List Post) {F t tl : Text} (htl : Hd afterTerm tl)
    (hs : Sc (postsKV posts) t tl) (hF : Tr F t) :
    Sp acceptPostfixOps F () tl (postsKV posts) := by
  unfold acceptPostfixOps
  apply Sp.lenFuel posts.length
  · have h1 := posts_length_le_g posts hs
    have h2 := hF.length_le
    omega
  · intro n hn
    exact sp_postfixLoop_g posts n F t tl hn htl hs hF

/-! ### `PEEK[a..b]` -/

theorem sp_optInteger_g (a : Option Int) {t tl : Text} (hs : Sc (optIntKV a) t tl)
    (h : Hd (fun c => c == 46 || c == 93) tl) : Sp optInteger t () tl (optIntKV a) := by
  cases a with
  | none =>
    have := sc_nil_inv (by simpa [optIntKV] using hs); subst this
    have := sp_optInteger none h
    simpa [optIntKV] using this
  | some i =>
    have hst : Stop tl := h.stop (fun c hc => by
      simp only [Bool.or_eq_true, beq_iff_eq] at hc
      rcases hc with hc | hc <;> subst hc <;> decide)
    simp only [optIntKV] at hs
    obtain ⟨w, m, hw, rfl, h3⟩ := sc_cons_inv hs
    have := sc_nil_inv h3; subst this
    have hnd : Hd ndg (w ++ m) := isTrivia_hd ndg_of_not_tokc hw (h.mono (fun c hc => by
      simp only [Bool.or_eq_true, beq_iff_eq] at hc
      rcases hc with hc | hc <;> subst hc <;> decide))
    unfold optInteger
    sp_begin
    sp_step (sp_scanEmit .integer (mInteger_int_g i hnd))
    exact sp_triv_w hw hst
    case hi => simp [spell]
    case hk => simp [optIntKV]

theorem slice_class_32 : (fun c => (c == 46 || c == 93) || isDigit c || c == 45) 32 = false := by
  decide

/-- `PEEK` followed by a slice -/
theorem sp_peekTail_slice_g (a b : Option Int) {F t tl : Text} (hs : Sc (sliceKV a b) t tl)
    (hF : Tr F t) : ∃ F', Tr F' tl ∧ Sp peekTail F true F' (sliceKV a b) := by
  have hs' : Sc ((.lbracket, [91]) :: (optIntKV a ++ ((.rangeOp, [46, 46]) ::
      (optIntKV b ++ [(.rbracket, [93])])))) t tl := by simpa [sliceKV] using hs
  obtain ⟨w0, t1, hw0, rfl, h1⟩ := sc_cons_inv hs'
  obtain ⟨t2, hA, h2⟩ := sc_append _ h1
  obtain ⟨w1, t3, hw1, rfl, h3⟩ := sc_cons_inv h2
  obtain ⟨t4, hB, h4⟩ := sc_append _ h3
  obtain ⟨w2, m, hw2, rfl, h5⟩ := sc_cons_inv h4
  have := sc_nil_inv h5; subst this
  have hdB : Hd (fun c => c == 46 || c == 93) (93 :: (w2 ++ m)) := by simp
  have hdA : Hd (fun c => c == 46 || c == 93) (sDOTS ++ (w1 ++ t3)) := by simp [sDOTS]
  have hB' : Sc (optIntKV b) t3 (93 :: (w2 ++ m)) := by simpa [spell] using hB
  have hA' : Sc (optIntKV a) t1 (sDOTS ++ (w1 ++ t3)) := by simpa [spell, sDOTS] using hA
  have tk : ∀ c, ((c == 46 || c == 93) || isDigit c || c == 45) = true → tokc c = true := by
    intro c hc
    simp only [Bool.or_eq_true, beq_iff_eq] at hc
    rcases hc with ((hc | hc) | hc) | hc
    · subst hc; decide
    · subst hc; decide
    · exact tokc_digit hc
    · subst hc; decide
  have hstA : Stop t1 := (sc_hd hA' (hd_optInt a hdA) slice_class_32).stop tk
  have hstB : Stop t3 := (sc_hd hB' (hd_optInt b hdB) slice_class_32).stop tk
  refine ⟨w2 ++ m, Tr.mk hw2 m, ?_⟩
  unfold peekTail
  sp_begin
  sp_step (sp_triv_tr hF (stop_tokc (c := 91) (w0 ++ t1) (by decide)))
  sp_step (sp_optChar 91 .lbracket _)
  sp_step (sp_triv_w hw0 hstA)
  sp_step (sp_optInteger_g a hA' hdA)
  sp_step (sp_scanOrError .rangeOp .expectedRangeOp (mLit_dots _))
  sp_step (sp_triv_w hw1 hstB)
  sp_step (sp_optInteger_g b hB' hdB)
  sp_step (sp_expect 93 .rbracket .expectedRParen _)
  exact Sp.pure true _
  case hi => rfl
  case hk => simp [sliceKV, sDOTS]

theorem sp_peekTail_no_g {F tl : Text} (h : Tr F tl) (htl : Hd afterNode tl) :
    Sp peekTail F true tl [] := by
  unfold peekTail
  sp_begin
  sp_step (sp_triv_tr h (htl.stop @tokc_afterNode))
  sp_step (sp_optChar_no 91 .lbracket (head_ne_of_hd htl (by decide)))
  exact Sp.pure true _
  case hi => rfl
  case hk => simp

/-! ### character ranges -/

theorem sp_charRange_g (a b : Nat) {t tl : Text}
    (hs : Sc [(.char, charLit a), (.rangeOp, [46, 46]), (.char, charLit b)] t tl) :
    ∃ F', Tr F' tl ∧ Sp charRange t true F'
      [(.char, charLit a), (.rangeOp, [46, 46]), (.char, charLit b)] := by
  obtain ⟨w1, m1, hw1, rfl, h1⟩ := sc_cons_inv hs
  obtain ⟨w2, m2, hw2, rfl, h2⟩ := sc_cons_inv h1
  obtain ⟨w3, m3, hw3, rfl, h3⟩ := sc_cons_inv h2
  have := sc_nil_inv h3; subst this
  obtain ⟨rb, hb⟩ := charLit_cons b
  refine ⟨w3 ++ m3, Tr.mk hw3 m3, ?_⟩
  unfold charRange
  sp_begin
  sp_step (sp_scanEmit .char (mChar_charLit a (w1 ++ (sDOTS ++ (w2 ++ (charLit b ++ (w3 ++ m3)))))))
  sp_step (sp_triv_w hw1 (stop_tokc _ (by decide)))
  sp_step (sp_scanOrError .rangeOp .expectedRangeOp (mLit_dots _))
  sp_step (sp_triv_w hw2 (by rw [hb]; exact stop_tokc _ (by decide)))
  sp_step (sp_scanOrError .char .expectedChar (mChar_charLit b (w3 ++ m3)))
  exact Sp.pure true _
  case hi => simp [spell, sDOTS]
  case hk => simp [sDOTS]

/-! ### modifiers -/

theorem sp_optModifier_g (m : Option Nat)
    (hm : match m with | some c => c = 95 ∨ c = 64 ∨ c = 36 ∨ c = 33 | none => True)
    {t X : Text} (hs : Sc (modKV m) t (123 :: X)) :
    Sp optModifier t () (123 :: X) (modKV m) := by
  cases m with
  | none =>
    have := sc_nil_inv (by simpa [modKV] using hs); subst this
    have := sp_optModifier none trivial X
    simpa [modKV] using this
  | some c =>
    simp only at hm
    simp only [modKV] at hs
    obtain ⟨w, m', hw, rfl, h3⟩ := sc_cons_inv hs
    have := sc_nil_inv h3; subst this
    unfold optModifier
    sp_begin
    sp_step (sp_scanEmit .modifier (w := [c]) (tl := w ++ 123 :: X)
      (by rcases hm with h | h | h | h <;> subst h <;> simp [mModifier]))
    exact sp_triv_w hw (stop_tokc _ (by decide))
    case hi => simp [spell]
    case hk => simp [modKV]

end TRT
end Front
end Pest
