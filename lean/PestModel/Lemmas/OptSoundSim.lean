/-
  Lemmas/OptSoundSim.lean — the simulation theorems for `TR`.

  `GR F G G'`: the rule tables `G` and `G'` define the same names with the same modifiers and
  every body of `G'` is a `TR`-rewrite of the corresponding body of `G`.
  `fwd`: whatever `G` answers for `e`, `G'` answers for `e'` (`TR a e e'`);  `rev`: the converse.
  The two "terminal matcher" rewrites enter through their semantic statements `SquashSem`,
  `SkipSem` (proved in OptSoundSquash / OptSoundSkip), needed only when `F` switches them on.
-/
import PestModel.Lemmas.OptSoundTR

set_option linter.unusedVariables false

namespace Pest
namespace OptS

open L0

variable (inp : Input)

/-! ### small facts about single nodes -/

theorem S0.eta_atomic (s : S0) : (⟨s.pos, s.stk, s.atomic⟩ : S0) = s := by cases s; rfl

/-- a silent rule that does not change the atomicity is transparent -/
theorem ruleApply_same {rec : Sem0} (hap : AP rec) {n : String} {m : Nat} (hs : hasBit m SILENT = true)
    (b : Expr) (s : S0) (ha : ruleAtomic n m s.atomic = s.atomic) : ruleApply rec n m b s = rec b s := by
  unfold ruleApply
  rw [ha, S0.eta_atomic]
  cases h : rec b s with
  | ok s' ps =>
    have := hap _ _ _ _ h
    simp only [ruleWrap, hs, ↓reduceIte]
    cases s'
    simp_all
  | fail => rfl
  | oof => rfl
  | stuck => rfl

theorem Tgt.group_elim {G : Grammar} {x : Expr} {t : Option String} {s : S0} {r : R0}
    (h : Tgt inp G (.group x t) s r) : Tgt inp G x s r := by
  obtain ⟨N, hN⟩ := h
  exact ⟨N, fun n hn => hN (n + 1) (by omega)⟩

theorem Tgt.group_intro {G : Grammar} {x : Expr} {t : Option String} {s : S0} {r : R0}
    (h : Tgt inp G x s r) : Tgt inp G (.group x t) s r := by
  apply Tgt.of_step
  exact h

theorem Tgt.rule_same {G : Grammar} {n : String} {m : Nat} {sm : Bool} {b : Expr} {s : S0} {r : R0}
    (hs : hasBit m SILENT = true) (ha : ruleAtomic n m s.atomic = s.atomic)
    (h : Tgt inp G b s r) : Tgt inp G (.rule n m sm b) s r := by
  apply Tgt.of_step
  refine h.mono fun k hk => ?_
  show ruleApply (run G inp k) n m b s = r
  rw [ruleApply_same (run_AP G inp k) hs b s ha, hk]

theorem Tgt.ident_same {G : Grammar} {n : String} {t : Option String} {rl : Rule} {s : S0} {r : R0}
    (hl : G.lookup n = some rl) (hs : hasBit rl.mod SILENT = true)
    (ha : ruleAtomic rl.name rl.mod s.atomic = s.atomic)
    (h : Tgt inp G rl.body s r) : Tgt inp G (.ident n t) s r := by
  apply Tgt.of_step
  refine h.mono fun k hk => ?_
  show callRule G (run G inp k) n s = r
  unfold callRule
  rw [hl]
  simp only []
  rw [ruleApply_same (run_AP G inp k) hs _ s ha, hk]

/-! ### the semantic content of the two matcher rewrites -/

/-- what `OptimizedChoice.parse` answers -/
def optRes (G : Grammar) (alts : List Alt) (s : S0) : R0 :=
  match L1.optMatchOnce G inp alts s.pos with
  | some p => .ok { s with pos := p } []
  | none => .fail

theorem optRes_ne_oof (G : Grammar) (alts : List Alt) (s : S0) : optRes inp G alts s ≠ .oof := by
  unfold optRes; split <;> simp

theorem optChoice_run (G : Grammar) {alts : List Alt} (hne : alts ≠ []) (n : Nat) (s : S0) :
    run G inp (n + 1) (.optChoice alts false) s = optRes inp G alts s := by
  show step G inp n (run G inp n) (.optChoice alts false) s = _
  have : alts.isEmpty = false := by cases alts <;> simp_all
  simp only [step, L1.optMatch, this, optRes]
  rfl

def SquashSem : Prop :=
  ∀ (G G' : Grammar) (inp : Input) (es' : List Expr) (alts : List Alt) (s : S0),
    G'.usets = G.usets → SqPat G es' alts → Conv G' inp (.choice es') s (optRes inp G' alts s)

def SkipSem (G : Grammar) : Prop :=
  ∀ (inp : Input) (a : Bool) (e : Expr) (subs : List Str) (s : S0), SkipPat G a e subs → s.atomic = a →
    s.pos ≤ inp.size → Conv G inp e s (.ok { s with pos := L1.skipUntilPos inp subs s.pos } [])

/-! ### the grammar relation -/

def GR (F : Feat) (G G' : Grammar) : Prop :=
  G'.usets = G.usets ∧
  ∀ name, match G.lookup name, G'.lookup name with
    | none, none => True
    | some r, some r' => r'.name = r.name ∧ r'.mod = r.mod ∧
        ∀ b, TR F G (ruleAtomic r.name r.mod b) r.body r'.body
    | _, _ => False

variable {F : Feat} {G G' : Grammar}

theorem GR.fused (h : GR F G G') :
    match G.fusedSkip, G'.fusedSkip with
    | none, none => True
    | some r, some r' => r'.name = r.name ∧ r'.mod = r.mod ∧
        ∀ b, TR F G (ruleAtomic r.name r.mod b) r.body r'.body
    | _, _ => False := by
  have := h.2 "SKIP"
  unfold Grammar.fusedSkip
  cases h1 : G.lookup "SKIP" with
  | none =>
    cases h2 : G'.lookup "SKIP" with
    | none => trivial
    | some r' => rw [h1, h2] at this; exact absurd this id
  | some r =>
    cases h2 : G'.lookup "SKIP" with
    | none => rw [h1, h2] at this; exact absurd this id
    | some r' =>
      rw [h1, h2] at this
      simp only [] at this ⊢
      rw [this.2.1]
      by_cases hm : (r.mod == SILENT + ATOMIC) = true
      · simp only [hm, ↓reduceIte]; exact this
      · simp only [hm, Bool.false_eq_true, ↓reduceIte]

/-! ### forward -/

theorem ruleSim_fwd {n : Nat}
    (ih : ∀ a e e', TR F G a e e' → SimAt inp G' (run G inp n) a e e')
    {r r' : Option Rule}
    (h : match r, r' with
      | none, none => True
      | some r, some r' => r'.name = r.name ∧ r'.mod = r.mod ∧
          ∀ b, TR F G (ruleAtomic r.name r.mod b) r.body r'.body
      | _, _ => False) : RuleSim inp G' (run G inp n) r r' := by
  cases r with
  | none => cases r' with
    | none => trivial
    | some _ => exact absurd h id
  | some x => cases r' with
    | none => exact absurd h id
    | some x' => exact ⟨h.1, h.2.1, fun b => ih _ _ _ (h.2.2 b)⟩

theorem fwd (hgr : GR F G G') (hsq : F.squash = true → SquashSem) (hsk : F.skip = true → SkipSem G) :
    ∀ n a e e', TR F G a e e' → SimAt inp G' (run G inp n) a e e' := by
  intro n
  induction n with
  | zero => intro a e e' _ s _ _ hne; exact absurd rfl hne
  | succ n ih =>
    have hap := run_AP G inp n
    have hpb := run_PB G inp n
    have hskip : SkipSim G inp G' (run G inp n) n :=
      skip_simO G inp G' hpb n (ruleSim_fwd inp ih hgr.fused) (ruleSim_fwd inp ih (hgr.2 _))
        (ruleSim_fwd inp ih (hgr.2 _))
    have hc : ∀ {a e e'}, CongO G G' (SimAt inp G' (run G inp n)) a e e' →
        SimAt inp G' (run G inp (n + 1)) a e e' :=
      fun h s ha hp hne => cong_sim G inp G' hap hpb n hskip hgr.1 h s ha hp hne
    intro a e e' h
    cases h with
    | term ht => exact hc (.term ht)
    | @ident nm t =>
      refine hc (.ident ?_)
      have := hgr.2 nm
      revert this
      cases G.lookup nm <;> cases G'.lookup nm <;> simp only [] <;> intro this
      · trivial
      · exact this
      · exact this
      · exact ⟨this.1, this.2.1, ih _ _ _ (this.2.2 a)⟩
    | rule => exact hc (.rule (ih _ _ _ (TR.refl F G _ _)))
    | ruleC hra h1 => exact hc (.rule (by rw [hra]; exact ih _ _ _ h1))
    | seq hl hh => exact hc (.seqlike rfl rfl (All2.of_index _ _ hl fun i h1 h2 => ih _ _ _ (hh i h1 h2)))
    | choice hl hh => exact hc (.choice (All2.of_index _ _ hl fun i h1 h2 => ih _ _ _ (hh i h1 h2)))
    | opt h1 => exact hc (.opt (ih _ _ _ h1))
    | rep h1 => exact hc (.rep (ih _ _ _ h1))
    | rep1 h1 => exact hc (.seqlike rfl rfl (.cons (ih _ _ _ h1) (.cons (ih _ _ _ (.rep h1)) .nil)))
    | repExact h1 => exact hc (.seqlike rfl rfl (All2.replicate (ih _ _ _ h1) _))
    | repMin h1 =>
      exact hc (.seqlike rfl rfl ((All2.replicate (ih _ _ _ h1) _).append (.cons (ih _ _ _ (.rep h1)) .nil)))
    | repMax h1 => exact hc (.seqlike rfl rfl (All2.replicate (ih _ _ _ (.opt h1)) _))
    | repMinMax h1 =>
      exact hc (.seqlike rfl rfl ((All2.replicate (ih _ _ _ h1) _).append (All2.replicate (ih _ _ _ (.opt h1)) _)))
    | andP h1 => exact hc (.andP (ih _ _ _ h1))
    | notP h1 => exact hc (.notP (ih _ _ _ h1))
    | group h1 => exact hc (.group (ih _ _ _ h1))
    | push h1 => exact hc (.push (ih _ _ _ h1))
    | unroll1 h1 => exact hc (.seqlike rfl rfl (.cons (ih _ _ _ h1) (.cons (ih _ _ _ (.rep h1)) .nil)))
    | unroll1g h1 =>
      refine hc (.seqlike rfl rfl (.cons ?_ (.cons (ih _ _ _ (.rep h1)) .nil)))
      exact fun s ha hp hne => Tgt.group_elim inp (ih _ _ _ h1 s ha hp hne)
    | unrollExact h1 => exact hc (.seqlike rfl rfl (All2.replicate (ih _ _ _ h1) _))
    | unrollMin h1 =>
      exact hc (.seqlike rfl rfl ((All2.replicate (ih _ _ _ h1) _).append (.cons (ih _ _ _ (.rep h1)) .nil)))
    | unrollMax h1 => exact hc (.seqlike rfl rfl (All2.replicate (ih _ _ _ (.opt h1)) _))
    | unrollMinMax h1 =>
      exact hc (.seqlike rfl rfl ((All2.replicate (ih _ _ _ h1) _).append (All2.replicate (ih _ _ _ (.opt h1)) _)))
    | @inlB nm m sm b _ hm hn h1 =>
      intro s ha hp hne
      have e1 : run G inp (n + 1) (.rule nm m sm b) s = run G inp n b s := by
        show ruleApply (run G inp n) nm m b s = _
        exact ruleApply_same hap hm.1 b s (plain_ruleAtomic hm hn _)
      rw [e1] at hne ⊢
      exact ih _ _ _ h1 s ha hp hne
    | @inlS nm r _ hl hs hra h1 =>
      intro s ha hp hne
      have e1 : run G inp (n + 1) (.ident nm none) s = run G inp n r.body s := by
        show callRule G (run G inp n) nm s = _
        unfold callRule
        rw [hl]
        simp only []
        exact ruleApply_same hap hs _ s (by rw [ha]; exact hra)
      rw [e1] at hne ⊢
      exact ih _ _ _ h1 s ha hp hne
    | @squash es es' alts hF hl hh hpat =>
      intro s ha hp hne
      have t1 := hc (.choice (All2.of_index _ _ hl fun i h1 h2 => ih _ _ _ (hh i h1 h2))) s ha hp hne
      have c1 := Tgt.conv inp G' t1 hne
      have c2 := hsq hF G G' inp es' alts s hgr.1 hpat
      rw [Conv.det G' inp c1 c2]
      obtain ⟨k, _, hne', _, _⟩ := hpat
      exact ⟨1, fun m hm => by
        obtain ⟨m', rfl⟩ : ∃ m', m = m' + 1 := ⟨m - 1, by omega⟩
        exact optChoice_run inp G' hne' m' s⟩
    | @skip e0 subs hF hpat =>
      intro s ha hp hne
      have c1 : Conv G inp e s (run G inp (n + 1) e s) := ⟨n + 1, rfl, hne⟩
      have c2 := hsk hF inp a e subs s hpat ha hp
      rw [Conv.det G inp c1 c2]
      exact ⟨1, fun m hm => by
        obtain ⟨m', rfl⟩ : ∃ m', m = m' + 1 := ⟨m - 1, by omega⟩
        rfl⟩

/-! ### termination of the trees `squash` flattens -/

mutual
/-- the shapes `squash` accepts (a little more: any embedded rule node over such a shape) -/
def SqT : Expr → Prop
  | .str _ | .ci _ | .range _ _ | .optChoice _ _ | .uprop _ => True
  | .rule _ _ _ b => SqT b
  | .choice es => SqTL es
  | _ => False
def SqTL : List Expr → Prop
  | [] => True
  | e :: es => SqT e ∧ SqTL es
end

theorem SqTL.index : ∀ {es : List Expr}, SqTL es → ∀ i (h : i < es.length), SqT es[i]
  | [], _, i, h => by simp at h
  | e :: es, hh, i, h => by
    cases i with
    | zero => exact hh.1
    | succ i => simpa using SqTL.index hh.2 i (by simpa using h)

theorem SqTL.append : ∀ {es es' : List Expr}, SqTL es → SqTL es' → SqTL (es ++ es')
  | [], _, _, h => h
  | e :: es, _, h1, h2 => ⟨h1.1, SqTL.append h1.2 h2⟩

theorem squash_SqTL : ∀ (k : Nat) (es : List Expr) (acc alts : List Alt),
    Opt.squash k es acc = some alts → SqTL es := by
  intro k
  induction k with
  | zero => intro es acc alts h; simp [Opt.squash] at h
  | succ k ih =>
    intro es acc alts h
    cases es with
    | nil => trivial
    | cons e rest =>
      simp only [Opt.squash] at h
      split at h
      · exact absurd h (by simp)
      · rename_i acc' hone
        refine ⟨?_, ih rest acc' alts h⟩
        cases e with
        | str _ => trivial
        | ci _ => trivial
        | range _ _ => trivial
        | optChoice _ _ => trivial
        | choice es => simp only [] at hone; exact ih es acc acc' hone
        | rule n m sm b =>
          cases b with
          | uprop _ => trivial
          | choice es => simp only [] at hone; exact ih es acc acc' hone
          | _ => simp at hone
        | _ => simp at hone

theorem term_ne_oof (G : Grammar) (k : Nat) (rec : Sem0) (e : Expr) (s : S0) (ht : isTerm e = true) :
    step G inp k rec e s ≠ .oof := by
  cases e <;> simp [isTerm] at ht <;> simp only [step] <;> (repeat' split) <;> simp

theorem term_conv (G : Grammar) (e : Expr) (s : S0) (ht : isTerm e = true) : ∃ r, Conv G inp e s r :=
  ⟨_, 1, rfl, term_ne_oof inp G 0 _ e s ht⟩

theorem conv_rule (G : Grammar) (n : String) (m : Nat) (sm : Bool) (b : Expr) (s : S0) (r : R0)
    (h : Conv G inp b { s with atomic := ruleAtomic n m s.atomic } r) :
    ∃ r', Conv G inp (.rule n m sm b) s r' := by
  obtain ⟨k, hk, hr⟩ := h
  refine ⟨_, k + 1, rfl, ?_⟩
  show ruleApply (run G inp k) n m b s ≠ .oof
  unfold ruleApply
  rw [hk]
  cases r with
  | oof => exact absurd rfl hr
  | ok s' ps => simp only [ruleWrap]; split <;> simp
  | fail => simp
  | stuck => simp

theorem choiceL_conv (G : Grammar) (s : S0) : ∀ (es : List Expr),
    (∀ i (h : i < es.length), ∃ r, Conv G inp es[i] s r) →
    ∃ n, choiceL (run G inp n) es s ≠ .oof
  | [], _ => ⟨0, by simp [choiceL]⟩
  | e :: rest, h => by
    obtain ⟨r1, n1, h1, hr1⟩ := h 0 (by simp)
    obtain ⟨n2, h2⟩ := choiceL_conv G s rest (fun i hi => by
      have := h (i + 1) (by simp; omega)
      simpa using this)
    refine ⟨n1 + n2, ?_⟩
    have e1 : run G inp (n1 + n2) e s = r1 := Conv.mono G inp h1 hr1 (by omega)
    simp only [choiceL, e1]
    cases r1 with
    | oof => exact absurd rfl hr1
    | ok _ _ => simp
    | stuck => simp
    | fail =>
      simp only []
      rw [choiceL_ext (run_mono G inp (by omega : n2 ≤ n1 + n2)) rest s h2]
      exact h2

theorem conv_choice (G : Grammar) (s : S0) (es : List Expr)
    (h : ∀ i (h : i < es.length), ∃ r, Conv G inp es[i] s r) : ∃ r, Conv G inp (.choice es) s r := by
  obtain ⟨n, hn⟩ := choiceL_conv inp G s es h
  exact ⟨_, n + 1, rfl, hn⟩

mutual
/-- the trees `squash` accepts terminate (they contain no references) -/
theorem sqT_conv (G : Grammar) : ∀ (e : Expr), SqT e → ∀ s : S0, ∃ r, Conv G inp e s r
  | .str _, _, s => term_conv inp G _ s rfl
  | .ci _, _, s => term_conv inp G _ s rfl
  | .range _ _, _, s => term_conv inp G _ s rfl
  | .optChoice _ _, _, s => term_conv inp G _ s rfl
  | .uprop _, _, s => term_conv inp G _ s rfl
  | .rule n m sm b, h, s => by
    obtain ⟨r, hr⟩ := sqT_conv G b h { s with atomic := ruleAtomic n m s.atomic }
    exact conv_rule inp G n m sm b s r hr
  | .choice es, h, s => conv_choice inp G s es (sqTL_conv G es h s)
theorem sqTL_conv (G : Grammar) : ∀ (es : List Expr), SqTL es → ∀ (s : S0) (i : Nat) (h : i < es.length),
    ∃ r, Conv G inp es[i] s r
  | [], _, _, i, h => by simp at h
  | e :: es, hh, s, 0, _ => sqT_conv G e hh.1 s
  | e :: es, hh, s, i + 1, h => by simpa using sqTL_conv G es hh.2 s i (by simpa using h)
end

/-- sources of squashed trees terminate -/
theorem sq_term {a : Bool} {e e' : Expr} (h : TR F G a e e') :
    SqT e' → ∀ s : S0, s.atomic = a → ∃ r, Conv G inp e s r := by
  induction h with
  | term ht => intro _ s _; exact term_conv inp G _ s ht
  | ident => intro h; exact absurd h id
  | @rule n m sm b =>
    intro hs s ha
    exact sqT_conv inp G _ hs s
  | @ruleC n m sm b b' hra h1 ih =>
    intro hs s ha
    obtain ⟨r, hr⟩ := ih hs { s with atomic := ruleAtomic n m s.atomic } (by show ruleAtomic n m s.atomic = _; rw [ha, hra])
    exact conv_rule inp G n m sm b s r hr
  | seq _ _ _ => intro h; exact absurd h id
  | @choice es es' hl hh ih =>
    intro hs s ha
    exact conv_choice inp G s es fun i hi => ih i hi (by omega) (SqTL.index hs i (by omega)) s ha
  | opt _ _ => intro h; exact absurd h id
  | rep _ _ => intro h; exact absurd h id
  | rep1 _ _ => intro h; exact absurd h id
  | repExact _ _ => intro h; exact absurd h id
  | repMin _ _ => intro h; exact absurd h id
  | repMax _ _ => intro h; exact absurd h id
  | repMinMax _ _ => intro h; exact absurd h id
  | andP _ _ => intro h; exact absurd h id
  | notP _ _ => intro h; exact absurd h id
  | group _ _ => intro h; exact absurd h id
  | push _ _ => intro h; exact absurd h id
  | unroll1 _ _ => intro h; exact absurd h id
  | unroll1g _ _ => intro h; exact absurd h id
  | unrollExact _ _ => intro h; exact absurd h id
  | unrollMin _ _ => intro h; exact absurd h id
  | unrollMax _ _ => intro h; exact absurd h id
  | unrollMinMax _ _ => intro h; exact absurd h id
  | @inlB n m sm b b' hm hn h1 ih =>
    intro hs s ha
    obtain ⟨r, hr⟩ := ih hs s ha
    have hne : r ≠ .oof := by obtain ⟨_, _, h⟩ := hr; exact h
    exact ⟨r, Tgt.conv inp G (Tgt.rule_same inp hm.1 (plain_ruleAtomic hm hn _) (Tgt.of_conv inp G hr)) hne⟩
  | @inlS n r b' hl hsil hra h1 ih =>
    intro hs s ha
    obtain ⟨r', hr⟩ := ih hs s ha
    have hne : r' ≠ .oof := by obtain ⟨_, _, h⟩ := hr; exact h
    exact ⟨r', Tgt.conv inp G (Tgt.ident_same inp hl hsil (by rw [ha]; exact hra) (Tgt.of_conv inp G hr)) hne⟩
  | @squash es es' alts hF hl hh hpat ih =>
    intro _ s ha
    obtain ⟨k, hk, _, _, _⟩ := hpat
    have hs := squash_SqTL k es' [] alts hk
    exact conv_choice inp G s es fun i hi => ih i hi (by omega) (SqTL.index hs i (by omega)) s ha
  | skip _ _ => intro h; exact absurd h id

/-! ### backward -/

theorem ruleSim_rev {n : Nat}
    (ih : ∀ a e e', TR F G a e e' → SimAt inp G (run G' inp n) a e' e)
    {r r' : Option Rule}
    (h : match r, r' with
      | none, none => True
      | some r, some r' => r'.name = r.name ∧ r'.mod = r.mod ∧
          ∀ b, TR F G (ruleAtomic r.name r.mod b) r.body r'.body
      | _, _ => False) : RuleSim inp G (run G' inp n) r' r := by
  cases r with
  | none => cases r' with
    | none => trivial
    | some _ => exact absurd h id
  | some x => cases r' with
    | none => exact absurd h id
    | some x' =>
      refine ⟨h.1.symm, h.2.1.symm, fun b => ?_⟩
      rw [h.1, h.2.1]
      exact ih _ _ _ (h.2.2 b)

theorem rev (hgr : GR F G G') (hsq : F.squash = true → SquashSem) (hsk : F.skip = true → SkipSem G) :
    ∀ n a e e', TR F G a e e' → SimAt inp G (run G' inp n) a e' e := by
  intro n
  induction n with
  | zero => intro a e e' _ s _ _ hne; exact absurd rfl hne
  | succ n ih =>
    have hap := run_AP G' inp n
    have hpb := run_PB G' inp n
    have hskip : SkipSim G' inp G (run G' inp n) n :=
      skip_simO G' inp G hpb n (ruleSim_rev inp ih hgr.fused) (ruleSim_rev inp ih (hgr.2 _))
        (ruleSim_rev inp ih (hgr.2 _))
    have hc : ∀ {a e e'}, CongO G' G (SimAt inp G (run G' inp n)) a e' e →
        SimAt inp G (run G' inp (n + 1)) a e' e :=
      fun h s ha hp hne => cong_sim G' inp G hap hpb n hskip hgr.1.symm h s ha hp hne
    intro a e e' h
    induction h with
    | term ht => exact hc (.term ht)
    | @ident nm t =>
      refine hc (.ident ?_)
      have := hgr.2 nm
      revert this
      cases G.lookup nm <;> cases G'.lookup nm <;> simp only [] <;> intro this
      · trivial
      · exact this
      · exact this
      · refine ⟨this.1.symm, this.2.1.symm, ?_⟩
        rw [this.1, this.2.1]
        exact ih _ _ _ (this.2.2 a)
    | rule => exact hc (.rule (ih _ _ _ (TR.refl F G _ _)))
    | ruleC hra h1 _ => exact hc (.rule (by rw [hra]; exact ih _ _ _ h1))
    | seq hl hh _ =>
      exact hc (.seqlike rfl rfl (All2.of_index _ _ hl.symm fun i h1 h2 => ih _ _ _ (hh i h2 h1)))
    | choice hl hh _ =>
      exact hc (.choice (All2.of_index _ _ hl.symm fun i h1 h2 => ih _ _ _ (hh i h2 h1)))
    | opt h1 _ => exact hc (.opt (ih _ _ _ h1))
    | rep h1 _ => exact hc (.rep (ih _ _ _ h1))
    | rep1 h1 _ => exact hc (.seqlike rfl rfl (.cons (ih _ _ _ h1) (.cons (ih _ _ _ (.rep h1)) .nil)))
    | repExact h1 _ => exact hc (.seqlike rfl rfl (All2.replicate (ih _ _ _ h1) _))
    | repMin h1 _ =>
      exact hc (.seqlike rfl rfl ((All2.replicate (ih _ _ _ h1) _).append (.cons (ih _ _ _ (.rep h1)) .nil)))
    | repMax h1 _ => exact hc (.seqlike rfl rfl (All2.replicate (ih _ _ _ (.opt h1)) _))
    | repMinMax h1 _ =>
      exact hc (.seqlike rfl rfl ((All2.replicate (ih _ _ _ h1) _).append (All2.replicate (ih _ _ _ (.opt h1)) _)))
    | andP h1 _ => exact hc (.andP (ih _ _ _ h1))
    | notP h1 _ => exact hc (.notP (ih _ _ _ h1))
    | group h1 _ => exact hc (.group (ih _ _ _ h1))
    | push h1 _ => exact hc (.push (ih _ _ _ h1))
    | unroll1 h1 _ => exact hc (.seqlike rfl rfl (.cons (ih _ _ _ h1) (.cons (ih _ _ _ (.rep h1)) .nil)))
    | unroll1g h1 ih1 =>
      refine hc (.seqlike rfl rfl (.cons ?_ (.cons (ih _ _ _ (.rep h1)) .nil)))
      -- `run (n+1) (group x') = run n x'`
      exact fun s ha hp hne => ih1 s ha hp hne
    | unrollExact h1 _ => exact hc (.seqlike rfl rfl (All2.replicate (ih _ _ _ h1) _))
    | unrollMin h1 _ =>
      exact hc (.seqlike rfl rfl ((All2.replicate (ih _ _ _ h1) _).append (.cons (ih _ _ _ (.rep h1)) .nil)))
    | unrollMax h1 _ => exact hc (.seqlike rfl rfl (All2.replicate (ih _ _ _ (.opt h1)) _))
    | unrollMinMax h1 _ =>
      exact hc (.seqlike rfl rfl ((All2.replicate (ih _ _ _ h1) _).append (All2.replicate (ih _ _ _ (.opt h1)) _)))
    | @inlB nm m sm b b' hm hn h1 ih1 =>
      intro s ha hp hne
      exact Tgt.rule_same inp hm.1 (plain_ruleAtomic hm hn _) (ih1 s ha hp hne)
    | @inlS nm r b' hl hs hra h1 ih1 =>
      intro s ha hp hne
      exact Tgt.ident_same inp hl hs (by rw [ha]; exact hra) (ih1 s ha hp hne)
    | @squash es es' alts hF hl hh hpat _ =>
      intro s ha hp hne
      have hpat' := hpat
      obtain ⟨k, hk, hne', _, _⟩ := hpat'
      rw [optChoice_run inp G' hne' n s]
      -- the source terminates …
      obtain ⟨r, hr⟩ := conv_choice inp G s es fun i hi =>
        sq_term inp (hh i hi (by omega)) (SqTL.index (squash_SqTL k es' [] alts hk) i (by omega)) s ha
      -- … so the forward simulation applies, and the target is deterministic
      obtain ⟨n1, hn1, hr1⟩ := hr
      have t := fwd inp hgr hsq hsk n1 a _ _ (TR.squash hF hl hh hpat) s ha hp (by rw [hn1]; exact hr1)
      rw [hn1] at t
      have c1 := Tgt.conv inp G' t hr1
      have c2 : Conv G' inp (.optChoice alts false) s (optRes inp G' alts s) :=
        ⟨1, optChoice_run inp G' hne' 0 s, optRes_ne_oof inp G' alts s⟩
      rw [← Conv.det G' inp c1 c2]
      exact Tgt.of_run inp G hn1 hr1
    | @skip e subs hF hpat =>
      intro s ha hp hne
      exact Tgt.of_conv inp G (hsk hF inp a e subs s hpat ha hp)

/-! ### equivalence of grammars -/

/-- every expression means the same in both grammars, from every position inside the input -/
def EquivG (G G' : Grammar) : Prop :=
  ∀ (inp : Input) (e : Expr) (s : S0) (r : R0), s.pos ≤ inp.size → (Conv G inp e s r ↔ Conv G' inp e s r)

theorem EquivG.refl (G : Grammar) : EquivG G G := fun _ _ _ _ _ => Iff.rfl
theorem EquivG.symm {G G' : Grammar} (h : EquivG G G') : EquivG G' G :=
  fun i e s r hp => (h i e s r hp).symm
theorem EquivG.trans {G G' G'' : Grammar} (h : EquivG G G') (h' : EquivG G' G'') : EquivG G G'' :=
  fun i e s r hp => (h i e s r hp).trans (h' i e s r hp)

theorem equivG_of_GR (hgr : GR F G G') (hsq : F.squash = true → SquashSem) (hsk : F.skip = true → SkipSem G) :
    EquivG G G' := by
  intro inp e s r hp
  constructor
  · rintro ⟨n, hn, hr⟩
    have := fwd inp hgr hsq hsk n s.atomic e e (TR.refl F G e _) s rfl hp (by rw [hn]; exact hr)
    rw [hn] at this
    exact Tgt.conv inp G' this hr
  · rintro ⟨n, hn, hr⟩
    have := rev inp hgr hsq hsk n s.atomic e e (TR.refl F G e _) s rfl hp (by rw [hn]; exact hr)
    rw [hn] at this
    exact Tgt.conv inp G this hr

end OptS
end Pest
